#!/bin/bash
# tools/run_seeded.sh [tier]: every seeded change under seeded/ must make the check of the property it breaks report a
# VIOLATION (and demo.py fail); the unchanged tree must not.  /repo is restored after every trial.
cd "$(dirname "$0")/.."
TIER="${1:-quick}"
for d in seeded/*/; do
  id=$(basename $d); prop=$(python3 -c "import json;print(json.load(open('$d/meta.json'))['breaks_property'])")
  if ! git -C /repo diff --quiet; then echo "/repo dirty"; exit 2; fi
  git -C /repo apply "$(pwd)/$d/patch.diff" || { echo "$id: patch does not apply"; continue; }
  VERIF_EVIDENCE_DIR=/tmp/seeded_ev_$$ ./check $prop --tier $TIER --no-proof > /tmp/seeded_$$.log 2>&1; rc=$?
  /venv/bin/python -B $d/demo.py > /dev/null 2>&1; drc=$?
  git -C /repo checkout -- .
  if [ $rc -eq 1 ] && grep -q "VIOLATION property=$prop" /tmp/seeded_$$.log; then r=CAUGHT; else r="MISSED(rc=$rc)"; fi
  echo "$id  breaks=$prop  check=$r  demo_exit_with_change=$drc"
done
rm -f /tmp/seeded_$$.log
