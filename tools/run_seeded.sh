#!/bin/bash
# tools/run_seeded.sh [tier]: every seeded change under seeded/ must make the check of the property it breaks report a
# VIOLATION (and demo.py fail); the unchanged tree must not.  The changes are applied in ONE scratch worktree of /repo's
# HEAD (outside /repo and /verif, removed at the end; the checks are pointed at it with ALGOPY_REPO), so /repo itself is
# never modified and checks may run against /repo at the same time.  Honours VERIF_SEED.
cd "$(dirname "$0")/.."
TIER="${1:-quick}"
if ! git -C /repo diff --quiet; then echo "/repo has uncommitted changes (the scratch worktree is taken from HEAD)"; exit 2; fi
WT=$(mktemp -d /tmp/seeded_wt_XXXXXX); rmdir "$WT"
git -C /repo worktree add --detach "$WT" HEAD -q || exit 2
trap 'git -C /repo worktree remove --force "$WT"; git -C /repo worktree prune; rm -f /tmp/seeded_$$.log /tmp/seeded_demo_$$.py; rm -rf /tmp/seeded_ev_$$' EXIT
for d in seeded/*/; do
  id=$(basename $d); prop=$(python3 -c "import json;print(json.load(open('$d/meta.json'))['breaks_property'])")
  git -C "$WT" checkout -q -- .
  git -C "$WT" apply "$(pwd)/$d/patch.diff" || { echo "$id: patch does not apply"; continue; }
  ALGOPY_REPO="$WT" VERIF_EVIDENCE_DIR=/tmp/seeded_ev_$$ ./check $prop --tier $TIER --no-proof > /tmp/seeded_$$.log 2>&1; rc=$?
  sed "s#/repo#$WT#g" $d/demo.py > /tmp/seeded_demo_$$.py
  /venv/bin/python -B /tmp/seeded_demo_$$.py > /dev/null 2>&1; drc=$?
  if [ $rc -eq 1 ] && grep -q "VIOLATION property=$prop" /tmp/seeded_$$.log; then r=CAUGHT; else r="MISSED(rc=$rc)"; fi
  echo "$id  breaks=$prop  check=$r  demo_exit_with_change=$drc"
done
