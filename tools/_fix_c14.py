p='/verif/harness/props/c14.py'
s=open(p).read()
s=s.replace("""def unchanged_fails(case):
    args = ops.build_args(case)
    before = [a.data.copy() if isinstance(a, UTPM) else (a.copy() if isinstance(a, np.ndarray) else None) for a in args]
    st, out = ops.call(case, args)
    for i, (a, b) in enumerate(zip(args, before)):
        if b is None:
            continue
        now = a.data if isinstance(a, UTPM) else a
        if now.shape != b.shape or now.tobytes() != b.tobytes():
            return 'mutated-%s: argument %d was modified by the call' % (case['op'], i)
    return None
""","""def relayout(a, layout):
    \"\"\"the same values in another memory layout: 'F' = every coefficient slice Fortran-ordered (what A.T hands over),
    'strided' = a view with step 2 into a larger buffer\"\"\"
    if layout == 'F' and a.ndim >= 2:
        return np.ascontiguousarray(a.swapaxes(-1, -2)).swapaxes(-1, -2)
    if layout == 'strided' and a.ndim >= 1 and a.shape[-1] >= 1:
        big = np.zeros(a.shape[:-1] + (2 * a.shape[-1],), dtype=a.dtype)
        big[..., ::2] = a
        return big[..., ::2]
    return a


def unchanged_fails(case):
    for layout in ('C', 'F', 'strided'):
        args = ops.build_args(case)
        if layout != 'C':
            args = [UTPM(relayout(a.data, layout)) if isinstance(a, UTPM) and a.data.ndim >= 3 else
                    (relayout(a, layout) if isinstance(a, np.ndarray) else a) for a in args]
        before = [a.data.copy() if isinstance(a, UTPM) else (a.copy() if isinstance(a, np.ndarray) else None) for a in args]
        st, out = ops.call(case, args)
        for i, (a, b) in enumerate(zip(args, before)):
            if b is None:
                continue
            now = a.data if isinstance(a, UTPM) else a
            if now.shape != b.shape or now.tobytes() != b.tobytes():
                return 'mutated-%s: argument %d (memory layout %s) was modified by the call' % (case['op'], i, layout)
    return None
""")
open(p,'w').write(s)
