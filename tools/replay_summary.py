#!/usr/bin/env python3
"""tools/replay_summary.py <prop>: count the failure messages of the replay files written for a property (newest run)"""
import collections, glob, json, os, sys, time
c = collections.Counter()
now = time.time()
for f in glob.glob(os.path.join(os.path.dirname(os.path.abspath(__file__)), '..', 'replays', sys.argv[1] + '_*.json')):
    if now - os.path.getmtime(f) > (float(sys.argv[2]) if len(sys.argv) > 2 else 300):
        continue
    d = json.load(open(f))
    msg = d.get('what') or d.get('detail') or ''
    if not msg:
        msg = next((v for v in d.values() if isinstance(v, str) and len(v) > 20), '')
    c[msg[:int(os.environ.get('W', '160'))]] += 1
for k, v in c.most_common(40):
    print(v, k)
