p='/verif/harness/programs.py'
s=open(p).read()
s=s.replace("BIN = {'add': lambda a, b: a + b, 'sub': lambda a, b: a - b, 'mul': lambda a, b: a * b, 'div': lambda a, b: a / b}",
"BIN = {'add': lambda a, b: a + b, 'sub': lambda a, b: a - b, 'mul': lambda a, b: a * b, 'div': lambda a, b: a / b,\n       'pow': lambda a, b: a ** b}")
s=s.replace("""    def s_binc(self):""","""    def s_powbin(self):
        \"\"\"base ** exponent with both operands program values (forward evaluation only: the reverse sweep documents
        NotImplementedError for a polynomial exponent)\"\"\"
        a = self.pick(lambda v: v['iv'][0] > 0.3 and v['iv'][1] < 8)
        if a is None:
            return False
        b = self.pick(lambda v: bshape(self.vars[a]['shape'], v['shape']) is not None and max(abs(v['iv'][0]), abs(v['iv'][1])) <= 3)
        if b is None:
            return False
        la = (math.log(self.vars[a]['iv'][0]), math.log(self.vars[a]['iv'][1]))
        e = _imul(la, self.vars[b]['iv'])
        iv = (math.exp(e[0]), math.exp(e[1]))
        if not self.ok_mag(iv):
            return False
        self.steps.append({'op': 'bin', 'fn': 'pow', 'a': a, 'b': b})
        self.new(bshape(self.vars[a]['shape'], self.vars[b]['shape']), iv)
        return True

    def s_binc(self):""",1)
open(p,'w').write(s)
p='/verif/harness/props/c05.py'
s=open(p).read()
s=s.replace("kinds = ['ew', 'ew', 'bin', 'bin', 'binc', 'getitem', 'sum', 'transpose', 'reshape', 'dot', 'dotc', 'outer', 'prod', 'buffer', 'buffer']\n    prog = gen_program(rng, maxsteps=6",
            "kinds = ['ew', 'ew', 'bin', 'bin', 'binc', 'getitem', 'sum', 'transpose', 'reshape', 'dot', 'dotc', 'outer', 'prod', 'buffer', 'buffer', 'powbin']\n    prog = gen_program(rng, maxsteps=6")
s=s.replace("var2node[nv] = emit({'add': 'add', 'sub': 'sub', 'mul': 'mul', 'div': 'truediv'}[st['fn']], [{'n': var2node[st['a']]}, {'n': var2node[st['b']]}])",
            "var2node[nv] = emit({'add': 'add', 'sub': 'sub', 'mul': 'mul', 'div': 'truediv', 'pow': 'pow'}[st['fn']], [{'n': var2node[st['a']]}, {'n': var2node[st['b']]}])")
open(p,'w').write(s)
