p='/verif/harness/props/c13.py'
s=open(p).read()
s=s.replace("""    elif op in ('symvec',):
        n = rng.randint(1, 3)
        a = intdata(rng, (D, P, n, n))
        c['x'] = a + a.transpose(0, 1, 3, 2)
""","""    elif op in ('symvec',):
        n = rng.randint(1, 3)
        a = intdata(rng, (D, P, n, n))
        c['uplo'] = rng.choice(['F', 'L', 'U', None])      # None: the default argument
        c['x'] = a + a.transpose(0, 1, 3, 2) if rng.random() < 0.3 else a     # triangular storage: the other triangle is unrelated
""")
s=s.replace("""        'symvec': (lambda v: algopy.symvec(v), lambda a: algopy.utils.symvec(a)),""","""        'symvec': ((lambda v: algopy.symvec(v)) if case.get('uplo') is None else (lambda v: algopy.symvec(v, case['uplo'])),
                   lambda a: np_symvec(a, case.get('uplo') or 'F')),""")
s=s.replace("""def shapeop_fails(ctx, case):""","""def np_symvec(a, uplo):
    \"\"\"NumPy reference for symvec: the upper-triangular entries row by row of 0.5(A+A^T) ('F'), of A ('U'), of A^T ('L')\"\"\"
    a = np.asarray(a)
    iu = np.triu_indices(a.shape[0])
    if uplo == 'F':
        return (0.5 * (a + a.T))[iu]
    return a[iu] if uplo == 'U' else a.T[iu]


def shapeop_fails(ctx, case):""")
# after slice comparison, also compare the plain-ndarray dispatch and the traced dispatch for symvec
s=s.replace("""    if op in ('transpose', 'T') and not np.shares_memory(y.data, u.data):""","""    if op == 'symvec':
        ul = case.get('uplo') or 'F'
        if not np.array_equal(algopy.symvec(x[0, 0].astype(float), ul), np_symvec(x[0, 0].astype(float), ul)):
            return 'shapeop-symvec-ndarray: algopy.symvec(ndarray, %s) differs from the NumPy reference' % ul
        if not np.array_equal(UTPM.symvec(UTPM(x.copy()), ul).data, y.data):
            return 'shapeop-symvec-method: UTPM.symvec(A, %s) differs from algopy.symvec(A, %s)' % (ul, ul)
    if op in ('transpose', 'T') and not np.shares_memory(y.data, u.data):""")
open(p,'w').write(s)

p='/verif/harness/props/c17.py'
s=open(p).read()
s=s.replace("""        A = algopy.vecsym(v)
        if case['uplo'] == 'F' and case['sym']:""","""        # every dispatch path of the global function: ndarray, traced UTPM, traced ndarray, method forms
        from algopy import CGraph, Function
        for d in range(x.shape[0]):
            for p_ in range(x.shape[1]):
                if not close(algopy.symvec(x[d, p_].copy(), case['uplo']), m[d, p_], 1e-12):
                    return 'symvec-ndarray-%s: algopy.symvec(ndarray) differs from the model' % case['uplo']
        cg = CGraph()
        fA = Function(UTPM(x.copy()))
        fv = algopy.symvec(fA, case['uplo'])
        fv2 = fA.symvec(case['uplo'])
        fn = algopy.symvec(Function(x[0, 0].copy()), case['uplo'])
        fback = algopy.vecsym(fv)
        cg.trace_off()
        if not close(fv.x.data, m, 1e-12) or not close(fv2.x.data, m, 1e-12):
            return 'symvec-traced-%s: algopy.symvec(Function) differs from the model' % case['uplo']
        if not close(fn.x, m[0, 0], 1e-12):
            return 'symvec-traced-ndarray-%s: algopy.symvec(Function(ndarray)) differs from the model' % case['uplo']
        if not np.array_equal(fback.x.data, algopy.vecsym(v).data):
            return 'vecsym-traced: algopy.vecsym(Function) differs from algopy.vecsym(UTPM)'
        if not np.array_equal(UTPM.symvec(UTPM(x.copy()), case['uplo']).data, v.data):
            return 'symvec-method-%s: UTPM.symvec differs from algopy.symvec' % case['uplo']
        A = algopy.vecsym(v)
        # vecsym(symvec(A, uplo)) is the symmetric matrix the storage convention denotes
        a_ = x
        want = {'F': 0.5 * (a_ + a_.transpose(0, 1, 3, 2)),
                'U': np.triu(a_) + np.triu(a_, 1).transpose(0, 1, 3, 2),
                'L': np.tril(a_) + np.tril(a_, -1).transpose(0, 1, 3, 2)}[case['uplo']]
        if not close(A.data, want, 1e-12):
            return 'symvec-roundtrip-%s: vecsym(symvec(A,%s)) is not the matrix denoted by the stored triangle' % (case['uplo'], case['uplo'])
        if case['uplo'] == 'F' and case['sym']:""")
open(p,'w').write(s)
