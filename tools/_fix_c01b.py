p='/verif/harness/props/c01.py'
s=open(p).read()
s=s.replace("""    # numpy.<f>(UTPM) entry point (ufunc method dispatch): element-wise object array""","""    # base points exactly 0 where f is smooth there (every natural exponent of x**k; sin, erf, … )
    zero_ok = [n for n in sorted(TABLE) if TABLE[n]['dom'] in ('any', 'small', 'tan', 'unit')]
    for name in zero_ok:
        prms = [{'r': r} for r in range(6)] if name == 'pow_nat' else [None]
        for prm in prms:
            case = gen_case(ctx.rng, ctx.tier, name, False)
            if prm:
                case.update(prm)
            x = np.array(case['x'])
            x[0].reshape(x.shape[1], -1)[0, 0] = 0.0
            if x.shape[0] >= 2:
                x[1].reshape(x.shape[1], -1)[0, 0] = 1.0       # a non-zero first-order coefficient at that entry
            case['x'] = x
            ctx.evaluations += 1
            ctx.count('zero-base-point')
            res = run_case(ctx, case) or oracle_fails(case)
            if res:
                ctx.report(case, 'failure', res)
    # numpy.<f>(UTPM) entry point (ufunc method dispatch): element-wise object array""")
open(p,'w').write(s)
