"""Which properties are claimed (check built) and which are not (yet)."""
CLAIMED = {
 'C01': dict(
   technique='Lean 4 theorems (iteratedDeriv / coefficient recurrences) about a hand-written model + differential correspondence model<->code',
   text=('Theorems for every D, every input series and every d<D: analytic layer (model coefficient = (1/d!) d^d/dt^d f(x(t)) at 0) for exp, sin, cos, log, sqrt, reciprocal; '
         'formal layer (defining convolution identity over any char-0 field) for the same. The other functions of the property are modelled (all 34 entry points) and tied by the '
         'correspondence run (exact-rational model vs float/complex implementation) plus an independent Cauchy-integral oracle on the implementation; their all-input theorems are not proved yet (partial).')),
 'C12': dict(
   technique='Lean 4 theorems (prefix stability of the build combinator) + truncation oracle on the implementation',
   text=('Theorem (F x).take D\' = F (x.take D\') for every L0 kernel that is a build/convolution recurrence (28 theorems, any field): arithmetic, exp, log, sqrt, powers, '
         'trigonometric/hyperbolic pairs, arcsin/arccos/arctan, black/white family and its compositions. Fold-based kernels (Faa-di-Bruno family, dawsn) and matrix kernels are covered by the '
         'implementation-level truncation oracle over 79 registered public operations, not by a theorem yet (partial).')),
 'C02': dict(
   technique='Lean 4 theorems (Cauchy product in K[[X]], ring laws of R[t]/(t^D), dtype table by case analysis) + differential correspondence',
   text=('Theorems for all D and all series over any field: mulS is the Cauchy product, divS the unique solution of z*y=x, commutativity/associativity/distributivity, (x/y)*y=x; over R the '
         'coefficients are the Taylor coefficients of the product/quotient curve; dtype calculus (complex in => complex out for every operator x operand kind x order) as a finite table. '
         'Broadcasting and operand-kind dispatch are modelled (L2) and tied by the correspondence run over all kinds/orders/shape pairs/in-place and power forms; the lifting lemma from series to '
         'broadcast arrays is not yet a theorem (partial).')),
 'C10': dict(
   technique='Lean 4 theorems (zeroth coefficient of every kernel, comparison = all over zeroth coefficients, shape laws) + NumPy reference oracle',
   text=('Theorems for all D, P, shapes: zeroth coefficient of every L0 kernel is the NumPy value on zeroth coefficients (leaf or plain arithmetic) independent of higher coefficients; '
         'comparison operators are numpy.all over zeroth coefficients and ignore higher ones; element-wise ops keep the shape, binary ops return the broadcast shape. Matrix functions, factorizations '
         'and dispatcher behaviour on plain arrays are checked against numpy/scipy references on the implementation for 79 registered operations (partial: no theorem for those).')),
 'C11': dict(
   technique='Lean 4 theorems (index algebra of the (D,P)+shape layout, direction projection commutes) + per-direction re-evaluation oracle',
   text=('Theorems for all D, P, shapes: every element-wise function and every binary operator (after UTPM-aware broadcasting) computes result direction p from direction p of the operands only '
         '(evaluation on direction p alone gives the same series). Matrix kernels, factorizations and the reverse sweep are checked on the implementation by per-direction re-evaluation with different '
         'base points per direction (partial: no theorem for those).')),
 'C14': dict(
   technique='Lean 4 theorems (loop invariants of coefficient-level heap programs with aliased buffers) + byte-comparison oracle',
   text=('Theorems for all D: the descending _mul loop with out aliasing x, y or both computes the Cauchy product of the original operands; the in-place product x *= y equals x * y (on the repaired '
         'code, so x *= x == x * x); counterexample theorem for the unrepaired loop; division forms build their result in a temporary. That public operations leave arguments untouched and that '
         'recording/reverse sweep leave inputs and seeds untouched is checked by byte comparison over all registered operations (partial: no theorem).')),
}
_todo = 'check under construction in this session: Lean model/theorems and correspondence not committed yet'
NOT_APPLICABLE = {('C%02d' % i): _todo for i in range(1, 18)}
for k in CLAIMED:
    NOT_APPLICABLE.pop(k, None)
