"""Which properties are claimed (check built) and which are not (yet)."""
CLAIMED = {}
_todo = 'check under construction in this session: Lean model/theorems and correspondence not committed yet'
NOT_APPLICABLE = {('C%02d' % i): _todo for i in range(1, 18)}
for k in CLAIMED:
    NOT_APPLICABLE.pop(k, None)
