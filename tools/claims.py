"""Which properties are claimed (check built) and which are not (yet)."""
CLAIMED = {
 'C01': dict(
   technique='Lean 4 theorems (iteratedDeriv / coefficient recurrences) about a hand-written model + differential correspondence model<->code',
   text=('Theorems for every D, every input series and every d<D: analytic layer (model coefficient = (1/d!) d^d/dt^d f(x(t)) at 0, Mathlib iteratedDeriv) for every function of the property: exp, expm1, log, log1p, sqrt, '
         'reciprocal, real/negative-integer/natural powers, sin, cos, tan, sinh, cosh, tanh, arctan, arcsin, arccos, logit, expit, erf, erfi, dawsn (defined by integrals, and for any antiderivative/ODE solution), '
         '_eval_slow_generic for every smooth f with derivative leaves f^(d)(x0) (gammaln, psi, polygamma, hyperu; Faa di Bruno in power form), the generic ODE solver, absolute, sign, minimum, maximum, clip away from kinks; '
         'the jet lemma (Taylor coefficients of f o X depend only on those of X) makes every kernel theorem hold for the jet of any smooth germ, so compositions of kernels are covered; '
         'formal layer (defining convolution identity over any char-0 field, i.e. also complex coefficients) for exp, log, sqrt, sin/cos, reciprocal. Partial: the analytic statements are over the reals; for complex coefficients the '
         'formal layer, the correspondence run (Gaussian rationals) and the Cauchy-integral oracle decide.')),
 'C12': dict(
   technique='Lean 4 theorems (prefix stability of the build combinator) + truncation oracle on the implementation',
   text=('Theorem (F x).take D\' = F (x.take D\') for every L0 kernel that is a build/convolution recurrence (28 theorems, any field): arithmetic, exp, log, sqrt, powers, '
         'trigonometric/hyperbolic pairs, arcsin/arccos/arctan, black/white family and its compositions; the two fold-based kernels (_eval_slow_generic for every list of derivative leaves, _dawsn for every leaf) over the reals as a '
         'corollary of the analytic layer (their output is the jet of a function that does not depend on D). The matrix kernels dot, inv, solve over any ring have the same prefix theorems; for QR, Cholesky, LU and _eigh1 two runs with inputs agreeing up to order m and the same zeroth-order leaves, both obeying the step equations tied to the code in C08, agree up to order m. In-place forms, comparisons/branches, svd/eig and the reverse sweep are covered by the '
         'implementation-level truncation oracle over all registered public operations, not by a theorem (partial).')),
 'C02': dict(
   technique='Lean 4 theorems (Cauchy product in K[[X]], ring laws of R[t]/(t^D), dtype table by case analysis) + differential correspondence',
   text=('Theorems for all D and all series over any field: mulS is the Cauchy product, divS the unique solution of z*y=x, commutativity/associativity/distributivity, (x/y)*y=x; over R the '
         'coefficients are the Taylor coefficients of the product/quotient curve; dtype calculus (complex in => complex out for every operator x operand kind x order) as a finite table. '
         'Broadcasting and operand-kind dispatch are modelled (L2) and tied by the correspondence run over all kinds/orders/shape pairs/in-place and power forms; operator-level value law for UTPM o UTPM with NumPy broadcasting of the '
         'coefficient shapes is a theorem (result element (p, idx), order d = Taylor coefficient of the product/quotient/sum of the operand curves at the broadcast positions), and so is UTPM o scalar (utpm_scalar_mul_div_value, utpm_scalar_add_sub_value: c enters every coefficient for * and /, only order 0 for + and -) and UTPM o ndarray constant with NumPy broadcasting of the constant against the coefficient shape (utpm_ndarray_mul_div_value, utpm_ndarray_add_sub_value; the reflected forms use the same model functions, c / x is the UTPM o UTPM law with a degree-0 numerator); '
         'in-place forms and powers are model + correspondence only (partial).')),
 'C10': dict(
   technique='Lean 4 theorems (zeroth coefficient of every kernel, comparison = all over zeroth coefficients, shape laws) + NumPy reference oracle',
   text=('Theorems for all D, P, shapes: zeroth coefficient of every L0 kernel (also dot, inv, solve over any ring and _eval_slow_generic) is the NumPy value on zeroth coefficients (leaf or plain arithmetic) independent of higher coefficients; '
         'comparison operators are numpy.all over zeroth coefficients and ignore higher ones; element-wise ops keep the shape, binary ops return the broadcast shape. Matrix functions, factorizations '
         'and dispatcher behaviour on plain arrays are checked against numpy/scipy references on the implementation for 79 registered operations (partial: no theorem for those).')),
 'C11': dict(
   technique='Lean 4 theorems (index algebra of the (D,P)+shape layout, direction projection commutes) + per-direction re-evaluation oracle',
   text=('Theorems for all D, P, shapes: every element-wise function and every binary operator (after UTPM-aware broadcasting) computes result direction p from direction p of the operands only '
         '(evaluation on direction p alone gives the same series). Matrix kernels, factorizations and the reverse sweep are checked on the implementation by per-direction re-evaluation with different '
         'base points per direction (partial: no theorem for those).')),
 'C14': dict(
   technique='Lean 4 theorems (loop invariants of coefficient-level heap programs with aliased buffers) + byte-comparison oracle',
   text=('Theorems for all D: the descending _mul loop with out aliasing x, y or both computes the Cauchy product of the original operands; the in-place product x *= y equals x * y (on the repaired '
         'code, so x *= x == x * x); counterexample theorem for the unrepaired loop; division forms build their result in a temporary. That public operations leave arguments untouched and that '
         'recording/reverse sweep leave inputs and seeds untouched is checked by byte comparison over all registered operations (partial: no theorem).')),
 'C15': dict(
   technique='Lean 4: kernel evaluation (decide +kernel, no axioms) of the Gamma identity over Rat for a table of (N,d) + enumeration theorems for all N,d; exhaustive correspondence',
   text=('Theorems: for all N>=1 and d the multi-index list is duplicate-free and contains exactly the index vectors of length N and sum d; the identity sum_j Gamma[i,j] ray_j^alpha = delta(i,alpha) is proved by '
         'the Lean kernel in exact rational arithmetic for 20 table entries (N,d) (23 in the thorough tier incl. (4,4),(3,5),(5,3)). The identity for unbounded (N,d) is not proved (partial) - the property asks for '
         'exhaustive exploration up to a bound. The real gamma/generate_Gamma_and_rays/increment/multi_index_binomial are compared with the exact model for every (N,d) of the table, all index pairs.')),
 'C17': dict(
   technique='Lean 4 theorems (round trips on lists/index maps, Equiv.Perm sign of the pivot permutation) + exhaustive pivot enumeration in the correspondence',
   text=('Theorems for all sizes: shift round trips (and shift 0 = id), vecsym(symvec A)=A for all three storage conventions and symvec(vecsym v)=v for all N, base/dirs <-> polynomial round trip for all shapes/D/P, '
         'sign and determinant of the pivot permutation = (-1)^#{i: piv i != i} for all N and all pivot vectors; the list-level loop of utils.piv2mat computes exactly that permutation and eye[:,swap] is its transposed permutation matrix. as_utpm, combine_blocks, ndarray2utpm are '
         'tied by the oracle only (partial); all pivot vectors for N<=4 (quick) / N<=5 (thorough) are enumerated against scipy.linalg.lu_factor.')),
 'C16': dict(
   technique='Lean 4 theorems (iteratedDeriv n f x = closed form, by the chain "order n+1 is the derivative of order n"; Legendre derivative identity from Bonnet recurrence; Hermite-type coefficient formula) + correspondence + contour-integral oracle',
   text=('Theorems for every order n and every point of the domain, for every function nthderiv exports in this environment: iteratedDeriv n f x equals the closed form of the model for exp, exp2, expm1, log, log2/log10, log1p, sqrt, square, negative, reciprocal, '
         'sin, cos, sinh, cosh, arctanh, arctan (partial fractions over x -+ i, interpreted in C), arcsin, arccos, arcsinh, arccosh (Legendre polynomials by the three-term recurrence as eval_legendre is modelled; (1-X^2)P_n\' = (n+1)(X P_n - P_{n+1}) proved from the recurrence), '
         'erf and erfi (finite Hermite-type sums, for c*int_0^x exp(-+s^2) ds and every antiderivative of c exp(-+y^2)); gammaln/psi/polygamma and hyperu relative to the first-order relations of their SciPy leaves (Mathlib has no polygamma / Tricomi U); '
         'the piecewise functions away from jumps and kinks (every locally constant function: rint, fix, floor, ceil, trunc, sign; absolute; clip with its interval indicator). The same generic definitions are evaluated in Gaussian rationals by the driver and tied to nthderiv.py by the correspondence run plus an independent Cauchy-integral oracle on the implementation; '
         'tan/tanh need mpmath, which is absent, and are not exported here (partial: leaves of gamma/hyperu families are SciPy values, floats).')),
 'C03': dict(
   technique='Lean 4 theorem (cell-level tape: reverse sweep is the adjoint of the tangent sweep, any commutative ring, overwrites) + local adjoint lemmas + adjoint-identity oracle',
   text=('Theorem for every tape, heap, tangent and seed over any commutative ring (A = R[t]/(t^D)): <rev tape h seed, dh> = <seed, tan tape h dh>, with in-place overwrites (also buf[i]=buf[i]); local adjoint '
         'lemmas for add/sub/mul/truediv/scale/copy, every unary function with multiplicative tangent, sum of any arity and dot, each mirroring a pb_* formula; the series-level pullback kernels (25 unary + 4 binary, '
         'tied to the code through the tracer by exact correspondence) are those ring expressions. Matrix pullbacks dot, inv, solve, trace, transpose, det (the Jacobi formula also without invertibility: tangent tr(adj(X) dX), adjoint ybar adj(X)^T at every matrix, matrix_det_adjoint_every_matrix) have their adjoint identities proved over any commutative ring and pb_dot/pb_inv/pb_solve/pb_trace/pb_det of the code are compared with exactly those formulas. The reverse sweep is additive in the seed on input cells (reverse_sweep_superposition), which the run evaluates for every registered operation with a second consumer recorded after it. Array level: every cell-moving operation (broadcasting, indexing/views, reshape, transpose, tile, diag) is a gather along an index map and its adjoint is the scatter-add (sum over broadcast axes), reductions are the transposed pair, item assignment along an injective map splits ybar into the masked old contents and the gathered assigned value (gather_scatter_adjoint, reduction_adjoint, item_assignment_adjoint). For eigh with distinct eigenvalues the tangent (dLambda = diag(Q^T dA Q), dQ = Q (H o Q^T dA Q)) and the adjoint formula of _eigh_pullback pair correctly on Mathlib matrices (matrix_eigh_tangent, matrix_eigh_adjoint). The lowering of array programs to tapes is argued, not mechanised, and the factorization pullbacks lu2/logdet, qr, cholesky, svd have no local lemma (partial); '
         'whole programs incl. all matrix functions and factorizations, and every registered operation alone, are checked by the adjoint identity with forward-only tangents (degree doubling).')),
 'C04': dict(
   technique='Lean 4 corollaries of the tape adjoint theorem (gradient / vec_jac as the derivative functional at the heap point) and multivariate calculus (order-1 coefficient of the gradient along a line = Hessian-vector product) + drivers vs forward-mode and exact analytic derivatives',
   text=('Theorems: the sweep seeded with an output cell (resp. a weight vector) returns dx -> F\'(x)dx (resp. w^T J(x)) at the evaluation point held by the heap, for every tape (over any commutative ring, hence also over R[t]/(t^2)); program level, for every F that is C^2 at x: the order-1 Taylor coefficient of the gradient entry dF/dx_j along x + t v is (Hess F(x) v)_j (Hessian row for v = e_p, Hessian-vector product in general, vec_hess by symmetry), order 0 is the gradient entry (second_order_driver_coefficient, hessian_driver_entry, second_order_from_jet). All eight drivers and jacobian(UTPM) '
         'are checked on the implementation at points different from the recording point / kind / degree against forward-mode derivatives of the same program and exact analytic derivatives of integer polynomial programs; '
         'the (D, M*P) replication / reshape index arithmetic of jacobian and vec_hess_vec has no theorem (partial).')),
 'C05': dict(
   technique='Lean 4 invariant by induction over operation sequences (recording state machine) + structural correspondence + replay oracle',
   text=('Theorems for every finite operation sequence: functionCount = len, ID = position, arguments precede users, exactly one node per operation while tracing is on and none while off, recorded nodes never change. '
         'The real functionList of every generated program is compared node by node (name, ID, argument IDs) with the model; replay values with other kinds/(D,P), repeated in any order, keyword arguments and two interleaved graphs '
         'are checked against direct runs (partial: no theorem about Python object state).')),
 'C06': dict(
   technique='Lean 4 theorems on the write/save/restore/re-apply heap discipline (a sweep preserves every forward value; k sweeps too) + counterexample theorems for the two repaired defects + call-history oracle',
   text=('Theorems for every list of in-place writes and every heap: the restores of a reverse sweep fed with the contents saved on this evaluation return the buffers to their initial state, re-applying the writes returns '
         'the forward values, hence any number of sweeps leave the forward values intact; counterexamples for stale stores and missing re-apply (the old behaviour). Random call histories (forward evaluations, sweeps, all drivers, '
         'second graphs) are checked call by call against fresh graphs, with node-value snapshots around cg.pullback (partial: read-only-ness of pullback kernels has no theorem).')),
 'C13': dict(
   technique='Lean 4 theorems (index-map algebra of a mini-NumPy: the (:,:)++idx prefix law, injectivity of every basic index map, item assignment, sum axis arithmetic) + mini-NumPy-vs-NumPy and slice-wise correspondence',
   text=('Theorems for all D, P, shapes and every basic index expression (ints, negative ints, slices with steps, Ellipsis, newaxis): UTPM indexing is the same index map applied to every coefficient slice, its elements are '
         'elements (cells) of the parent; every basic index map is injective; x[idx] = v changes exactly the selected cells of every coefficient slice and x[idx] = constant sets the zeroth and clears the higher coefficients; '
         'UTPM.sum(axis) addresses the coefficient axis NumPy addresses on a slice. The indexing and assignment models are validated against real NumPy / the real __setitem__ (random + exhaustive small expressions). '
         'reshape/transpose/tile/diag/tri*/trace/conj/real/imag/fft/zeros/ones/symvec/vecsym, write-through and shares_memory are checked slice-wise against NumPy (partial: no theorem).')),
 'C09': dict(
   technique='Lean 4 theorems (extraction algebra and seed tables for every N; program-level Taylor coefficients along a line = gradient / Hessian forms for every C^2 function) + exact analytic oracle on polynomial programs',
   text=('Theorems for every N and every symmetric H: 2 c2(e_n) = H_nn, c2(e_n+e_m) - c2(e_n) - c2(e_m) = H_nm, -c2(e_n) + c2(v+e_n) - c2(v) = (Hv)_n (the formulas of extract_hessian / extract_hess_vec); the triangular '
         'seed layout of init_hessian (N(N+1)/2 directions, e_n at n(n+1)/2, e_n+e_m at (n+1)(n+2)/2-m-1) and the 2N+1 directions of init_hess_vec are proved for every N (and every v); tensors rest on C15. Program level, for every F: R^N -> R that is C^2 at x (multivariate calculus in Mathlib): the Taylor coefficients of t -> F(x + t v) are c1 = grad F . v and c2 = v^T Hess F v / 2 with the symmetric Hessian, so extract_jacobian / extract_jac_vec / extract_hessian / extract_hess_vec return the true partial derivatives (program_jacobian, program_jac_vec, program_hessian_diag, program_hessian_offdiag, program_hess_vec; utp_second_coefficient composes with the JetOf closure of C01); init_tensor/extract_tensor beyond order 2 have no program-level theorem (partial). Seed tables and extraction formulas of the real code are compared '
         'with the model for every N up to 6/9; polynomial programs are compared with exact analytic derivatives (Jacobian, Jv, Hessian, Hv, all d-th order partials, d<=4) and smooth programs with Taylor propagation along arbitrary directions.')),
 'C07': dict(
   technique='Lean 4 theorems over any non-commutative ring (matrix Taylor kernels solve A*inv(A)=I and A*X=B order by order) + exact correspondence + residual / independent-formula oracles',
   text=('Theorems for all D and all sizes (R = matrices): dot is the Cauchy product, A(t) inv(A)(t) = I and A(t) X(t) = B(t) modulo t^D from the zeroth-order contract of the NumPy leaf (also constant right-hand side); inv(A)(t) A(t) = I as well (two-sided), uniqueness of the solution modulo t^D; det A = sign * prod diag U from the LU identity in any commutative ring (the formula UTPM.det evaluates). logdet: log det A = log(sign(P) prod sign U_ii) + sum log|U_ii| pointwise along the curve (the formula UTPM.logdet evaluates). '
         'dot (all rank combinations, constant operand either side), inv and all three solve variants are compared with the exact matrix-series model; det/logdet against the Leibniz formula in Taylor arithmetic, expm against the '
         'exponential series, outer/trace slice-wise, base matrices that require row pivoting, real/complex and mixed operand dtypes (partial: logdet as log of det, Pade approximant, rectangular right-hand sides have no theorem).')),
 'C08': dict(
   technique='Lean 4 theorems on Mathlib matrices (order-d step equations of _qr_rectangular, _cholesky, lu and _eigh1 imply QR=A, Q^TQ=I, LL^T=A, LU=W^TA, Q^TAQ=Lambda at order d) + residual oracle for every factorization',
   text=('Theorems for every size and order d>=1: the step equations of the square QR kernel give Sum Q_k R_{d-k} = A_d and Sum Q_k^T Q_{d-k} = 0; the Cholesky step gives Sum L_k L_{d-k}^T = A_d (with the code\'s projection matrix); the LU step gives Sum L_k U_{d-k} = (W^T A)_d with strictly-lower / upper masks; R_d and U_d are upper triangular, Cholesky L_d lower triangular, LU L_d strictly lower for d>=1 (unit diagonal) at every order; the _eigh1 step gives (Q^T Q)_d = 0 and (Q^T A Q)_d = Lambda_d, block diagonal in the clusters of equal eigenvalues (the full symmetric eigendecomposition for distinct eigenvalues, the relaxed problem otherwise). '
         'The implementation\'s output is checked against these step equations on every case, and the residuals of all defining equations (QR reduced/full/tall/wide, Cholesky, LU, eigh with distinct and exactly repeated eigenvalues '
         'splitting at any order, eig for D<=2, SVD), triangularity, ordering and the zeroth-order factorization are evaluated as truncated polynomial identities per direction (partial: no theorem for the cluster recursion of _eigh with repeated eigenvalues, eig, svd, tall/wide/full QR).')),
}
_todo = 'check under construction in this session: Lean model/theorems and correspondence not committed yet'
NOT_APPLICABLE = {('C%02d' % i): _todo for i in range(1, 18)}
for k in CLAIMED:
    NOT_APPLICABLE.pop(k, None)
