#!/usr/bin/env python3
"""tools/gen_round.py <mutation|audit> <root>: write one prompt file per property into <root>/<id>.prompt.txt and create the
scratch worktrees <root>/<id> (detached HEAD of /repo) for a round of fresh sub-agents.  The sub-agents get only the property
text and their own worktree; the prompt lists the sites used by earlier seeded changes (mutation) resp. the defects already
fixed (audit) so that a new round looks elsewhere.  Remove the worktrees afterwards:
    for d in <root>/C*; do git -C /repo worktree remove --force $d; done; git -C /repo worktree prune"""
import glob
import json
import os
import subprocess
import sys

HERE = os.path.dirname(os.path.abspath(__file__))
VERIF = os.path.dirname(HERE)


def main():
    kind, root = sys.argv[1], sys.argv[2]
    os.makedirs(root, exist_ok=True)
    props = {json.loads(l)['id']: json.loads(l) for l in open(os.path.join(VERIF, 'properties.jsonl'))}
    tmpl = open(os.path.join(HERE, '%s_prompt.tmpl' % kind)).read()
    byprop = {}
    for d in sorted(glob.glob(os.path.join(VERIF, 'seeded', 'S*'))):
        m = json.load(open(os.path.join(d, 'meta.json')))
        site = (m.get('summary') or '').replace('\n', ' ').split(':')[0][:110]
        byprop.setdefault(m['breaks_property'], []).append(site)
    fixed = json.load(open(os.path.join(VERIF, 'known_findings.json')))['fixed']
    fixed_txt = '\n'.join('  - ' + f[len('fixed: '):][:170] for f in fixed)
    for pid, p in props.items():
        prev = '\n'.join('  - ' + s for s in byprop.get(pid, []))
        txt = tmpl.format(id=pid, root=root, title=p['title'], statement=p['statement'], quant=p['quantifier']['text'],
                          prev=prev, fixed=fixed_txt)
        open(os.path.join(root, pid + '.prompt.txt'), 'w').write(txt)
        wt = os.path.join(root, pid)
        if not os.path.isdir(wt):
            subprocess.check_call(['git', '-C', '/repo', 'worktree', 'add', '--detach', wt, 'HEAD', '-q'])
    print('wrote %d prompts under %s' % (len(props), root))


if __name__ == '__main__':
    main()
