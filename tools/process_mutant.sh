#!/bin/bash
# MUT_ROOT=/tmp/wtN tools/process_mutant.sh Cxx: confirm a sub-agent's change (suite passes, demo 0/1) and run every check against it in a scratch worktree
root=${MUT_ROOT:-/tmp/wt11}; p=$1
echo "######## $p"
python3 -c "
import json; m=json.load(open('$root/$p/meta.json')); print('summary:', m.get('summary','')[:300]); print('needs:', m.get('needs_to_manifest','')[:300])"
/verif/tools/confirm_mutant.sh $root/$p
cat $root/$p/patch.diff | grep "^[-+]" | grep -v "^+++\|^---" | head -n 20
TRY_SCRATCH=1 /verif/tools/try_mutant.sh $root/$p/patch.diff quick
