p='/verif/harness/props/c08.py'
s=open(p).read()
s=s.replace("""        c['x'] = x
    return c


def check(c):
    kind, D, P = c['op'], c['D'], c['P']
    x = np.array(c['x'])
    A = UTPM(x.copy())
    tol = 1e-8""","""        c['x'] = x
    if kind in ('eigh', 'eigh_rep', 'svd') and rng.random() < 0.5:
        # data not of order one: A(t) * 2^k with the documented threshold keyword scaled accordingly.  Scaling by a power
        # of two is exact in floating point, so the factors must be those of the unscaled matrix (eigen/singular values * 2^k)
        c['scale_log2'] = rng.choice([33, -33, 20, -20])
    return c


def check(c):
    kind, D, P = c['op'], c['D'], c['P']
    x = np.array(c['x'])
    scale = 2.0 ** c.get('scale_log2', 0)
    x = x * scale
    A = UTPM(x.copy())
    tol = 1e-8""")
s=s.replace("""            elif kind in ('eigh', 'eigh_rep'):
                l, Q = algopy.eigh(A)
            elif kind == 'eig':
                l, Q = algopy.eig(A)
            else:
                U, s, V = algopy.svd(A)""","""            elif kind in ('eigh', 'eigh_rep'):
                l, Q = algopy.eigh(A) if 'scale_log2' not in c else UTPM.eigh(A, epsilon=1e-8 * scale)
            elif kind == 'eig':
                l, Q = algopy.eig(A)
            else:
                U, s, V = algopy.svd(A) if 'scale_log2' not in c else UTPM.svd(A, epsilon=1e-8 * scale)""")
s=s.replace("""    if not np.array_equal(A.data, x):
        return '%s-mutated: the argument was modified' % kind
    for p in range(P):""","""    if not np.array_equal(A.data, x):
        return '%s-mutated: the argument was modified' % kind
    if 'scale_log2' in c:
        x = x / scale
        if kind == 'svd':
            s = UTPM(s.data / scale)
        else:
            l = UTPM(l.data / scale)
    for p in range(P):""")
open(p,'w').write(s)
