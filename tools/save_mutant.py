#!/usr/bin/env python3
"""tools/save_mutant.py <worktree> <seed-id> <property> <patchfile> "<caught by>" "<what I ran>"
copies a confirmed seeded change into /verif/seeded/<seed-id>/ (patch.diff, demo.py, meta.json)."""
import sys, os, json, shutil, re
wt, sid, prop, patch, caught, ran = sys.argv[1:7]
dst = os.path.join('/verif/seeded', sid)
os.makedirs(dst, exist_ok=True)
shutil.copy(patch, os.path.join(dst, 'patch.diff'))
demo = open(os.path.join(wt, 'demo.py')).read()
demo = demo.replace(wt, '/repo')
demo = "# demonstration for the seeded change in patch.diff: exits 0 on the unchanged /repo, non-zero after `git -C /repo apply patch.diff`\n" + demo
open(os.path.join(dst, 'demo.py'), 'w').write(demo)
meta = json.load(open(os.path.join(wt, 'meta.json')))
out = {
    'id': sid,
    'breaks_property': prop,
    'summary': meta.get('summary'),
    'needs_to_manifest': meta.get('needs_to_manifest'),
    'files_changed': meta.get('files_changed'),
    'origin': 'fresh sub-agent given only the property text and a scratch worktree of /repo',
    'confirmed_by_me': ran,
    'caught_by': caught,
}
json.dump(out, open(os.path.join(dst, 'meta.json'), 'w'), indent=1)
print('saved', dst)
