p='/verif/harness/props/c11.py'
s=open(p).read()
s=s.replace("""    if 'prog' in case:
        return revchecks.direction_adjoint_fails(case)
    if 'fn' in case:""","""    if 'prog' in case:
        return revchecks.direction_adjoint_fails(case)
    if case.get('rev'):
        return revchecks.op_direction_adjoint_fails(case)
    if 'fn' in case:""")
s=s.replace("""    # tie of the modelled kernels: model on P directions and on each direction alone""","""    # reverse sweep of single operations (every direction has its own base point and, for det/logdet/lu, its own pivots)
    for name in revchecks.reversible_ops():
        for k in range(3 if ctx.tier == 'quick' else 40):
            case = ops.gen_case(ctx.rng, ctx.tier, name, P=ctx.rng.choice([2, 3]), D=ctx.rng.randint(1, 4))
            case['seed'] = ctx.rng.randrange(1 << 30)
            case['rev'] = True
            ctx.evaluations += 1
            ctx.count('reverse-op')
            h = canon_hash(to_jsonable(case))
            if h not in ctx.hashes:
                ctx.hashes.add(h)
                if nontrivial(case):
                    ctx.nontrivial += 1
            f = revchecks.op_direction_adjoint_fails(case)
            if f:
                ctx.report(case, 'failure', f)
    # tie of the modelled kernels: model on P directions and on each direction alone""")
open(p,'w').write(s)
p='/verif/harness/props/c12.py'
s=open(p).read()
s=s.replace("""    if 'prog' in case:
        return revchecks.truncation_adjoint_fails(case)
    if 'fn' in case:""","""    if 'prog' in case:
        return revchecks.truncation_adjoint_fails(case)
    if case.get('rev'):
        return revchecks.op_truncation_adjoint_fails(case)
    if 'fn' in case:""")
s=s.replace("""    # the tie of the kernels the theorems talk about: model vs implementation at D and D'""","""    # reverse sweep of single operations
    for name in revchecks.reversible_ops():
        for k in range(3 if ctx.tier == 'quick' else 40):
            case = ops.gen_case(ctx.rng, ctx.tier, name, D=ctx.rng.randint(2, 5))
            case['seed'] = ctx.rng.randrange(1 << 30)
            case['rev'] = True
            ctx.evaluations += 1
            ctx.count('reverse-op')
            h = canon_hash(to_jsonable(case))
            if h not in ctx.hashes:
                ctx.hashes.add(h)
                ctx.nontrivial += 1
            f = revchecks.op_truncation_adjoint_fails(case)
            if f:
                ctx.report(case, 'failure', f)
    # the tie of the kernels the theorems talk about: model vs implementation at D and D'""")
open(p,'w').write(s)
