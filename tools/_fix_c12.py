p='/verif/harness/props/c12.py'
s=open(p).read()
s=s.replace("""def run_case(ctx, case):
    if 'prog' in case:""","""def branch_fails(case):
    \"\"\"a data-dependent branch `u = x*y if x <cmp> y else x-y` takes the same path, and gives the same low-order
    coefficients, whatever the number of coefficients carried\"\"\"
    from props import c10
    f = c10.CMP[case['cmp']]
    x, y = np.array(case['x']), np.array(case['y'])
    D = case['D']

    def prog(xd, yd):
        a, b = UTPM(xd.copy()), UTPM(yd.copy())
        if case['mode'] == 'scalar':
            t = bool(f(a, case['scalar']))
        else:
            t = bool(f(a, b))
        return t, (a * b if t else a - b).data
    t_full, u_full = prog(x, y)
    for Dp in range(1, D):
        t, u = prog(x[:Dp], y[:Dp])
        if t != t_full:
            return 'truncation-branch-%s: the comparison is %s with D=%d but %s with D\\'=%d' % (case['cmp'], t_full, D, t, Dp)
        if not close(u_full[:Dp], u, 1e-12):
            return 'truncation-branch-%s: the branch result differs in its first %d coefficients' % (case['cmp'], Dp)
    return None


def run_case(ctx, case):
    if case.get('op') == 'cmp':
        return branch_fails(case)
    if 'prog' in case:""")
s=s.replace("""    # reverse sweep of single operations
    for name in revchecks.reversible_ops():""","""    # data-dependent branches on comparisons
    from props import c10
    for i in range(200 if ctx.tier == 'quick' else 3000):
        case = c10.cmp_case(ctx.rng)
        ctx.evaluations += 1
        ctx.count('branch=' + case['cmp'])
        h = canon_hash(to_jsonable(case))
        if h not in ctx.hashes:
            ctx.hashes.add(h)
            if case['D'] >= 2:
                ctx.nontrivial += 1
        f = branch_fails(case)
        if f:
            ctx.report(case, 'failure', f)
    # reverse sweep of single operations
    for name in revchecks.reversible_ops():""")
open(p,'w').write(s)
