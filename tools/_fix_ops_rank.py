p='/verif/harness/ops.py'
s=open(p).read()
s=s.replace("""        s2 = s1 if rng.random() < 0.5 else tuple(rng.choice([1, n]) for n in s1)[rng.randint(0, len(s1)):]
        x = rand_coeffs(rng, (D, P) + s1, -2, 2)
        y = rand_coeffs(rng, (D, P) + s2, -2, 2)
        if sym == 'div':""","""        s2 = s1 if rng.random() < 0.5 else tuple(rng.choice([1, n]) for n in s1)[rng.randint(0, len(s1)):]
        if rng.random() < 0.4:
            s1, s2 = s2, s1            # the left operand is the one of lower rank / with the length-1 axes
        x = rand_coeffs(rng, (D, P) + s1, -2, 2)
        y = rand_coeffs(rng, (D, P) + s2, -2, 2)
        if sym == 'div':""")
s=s.replace("""        s2 = tuple(rng.choice([1, n]) for n in s1)[rng.randint(0, len(s1)):]
        x = rand_coeffs(rng, (D, P) + s1, -2, 2)
        c = c01.gen_x0(rng, 'nz', s2, False)
        return [U(x), A(c)]""","""        s2 = tuple(rng.choice([1, n]) for n in s1)[rng.randint(0, len(s1)):]
        if rng.random() < 0.4:
            s1, s2 = s2, s1            # the plain array has more axes than the polynomial
        x = rand_coeffs(rng, (D, P) + s1, -2, 2)
        c = c01.gen_x0(rng, 'nz', s2, False)
        return [U(x), A(c)]""")
s=s.replace("""        s2 = tuple(rng.choice([1, n]) for n in s1)[rng.randint(0, len(s1)):]
        x = rand_coeffs(rng, (D, P) + s1, -2, 2)
        if sym == 'div':
            x[0] = c01.gen_x0(rng, 'nz', x[0].shape, False)
        c = c01.gen_x0(rng, 'nz', s2, False)
        return [A(c), U(x)]""","""        s2 = tuple(rng.choice([1, n]) for n in s1)[rng.randint(0, len(s1)):]
        if rng.random() < 0.4:
            s1, s2 = s2, s1
        x = rand_coeffs(rng, (D, P) + s1, -2, 2)
        if sym == 'div':
            x[0] = c01.gen_x0(rng, 'nz', x[0].shape, False)
        c = c01.gen_x0(rng, 'nz', s2, False)
        return [A(c), U(x)]""")
open(p,'w').write(s)
