#!/bin/bash
# tools/try_mutant.sh <patch.diff> [tier] [props...]: apply a seeded change to /repo, run the checks (correspondence side
# only: the Lean side does not depend on /repo), report which properties raise a VIOLATION, and always undo the change.
set -u
PATCH="$1"; TIER="${2:-quick}"; shift; shift 2>/dev/null || true
PROPS="${@:-C01 C02 C03 C04 C05 C06 C07 C08 C09 C10 C11 C12 C13 C14 C15 C16 C17}"
cd "$(dirname "$0")/.."
if [ -n "${TRY_SCRATCH:-}" ]; then
  # iterate in a scratch worktree of /repo (outside /repo and /verif) so that a background sweep on /repo is not disturbed
  WT=$(mktemp -d /tmp/try_wt_XXXXXX); rmdir "$WT"
  git -C /repo worktree add --detach "$WT" HEAD -q || exit 2
  git -C "$WT" apply "$PATCH" || { echo "patch does not apply"; git -C /repo worktree remove --force "$WT"; exit 2; }
  export ALGOPY_REPO="$WT"
  trap 'git -C /repo worktree remove --force "$WT"; git -C /repo worktree prune' EXIT
else
if ! git -C /repo diff --quiet; then echo "/repo has uncommitted changes; refusing"; exit 2; fi
git -C /repo apply "$PATCH" || { echo "patch does not apply"; exit 2; }
trap 'git -C /repo checkout -- . ' EXIT
fi
OUT=$(mktemp -d)
for p in $PROPS; do
  ( VERIF_EVIDENCE_DIR="$OUT" ./check $p --tier $TIER --no-proof > "$OUT/$p.log" 2>&1; echo $? > "$OUT/$p.rc" ) &
done
wait
for p in $PROPS; do
  rc=$(cat "$OUT/$p.rc")
  if [ "$rc" != "0" ]; then
    echo "== $p rc=$rc"; grep -E "VIOLATION|BROKEN" "$OUT/$p.log" | head -3
    for r in $(grep -oE "replay=[^ ]+" "$OUT/$p.log" | head -2 | cut -d= -f2); do python3 -c "
import json; b=json.load(open('$r')); print('     ', b['what'][:220])"; done
  fi
done
rm -rf "$OUT"
