#!/bin/bash
# tools/seed_sweep.sh <tier> <seeds...>: run every check on the unchanged tree with several seeds; print anything that is not exit 0
cd "$(dirname "$0")/.."
TIER="$1"; shift
for s in "$@"; do
  for i in 01 02 03 04 05 06 07 08 09 10 11 12 13 14 15 16 17; do
    out=$(VERIF_SEED=$s VERIF_EVIDENCE_DIR=/tmp/sweep_ev ./check C$i --tier $TIER --no-proof 2>&1); rc=$?
    if [ $rc -ne 0 ]; then echo "seed=$s C$i rc=$rc"; echo "$out" | grep -E "VIOLATION|BROKEN|KNOWN" | head -3
      for r in $(echo "$out" | grep -oE "replay=[^ ]+" | head -2 | cut -d= -f2); do python3 -c "
import json; b=json.load(open('$r')); print('     ', b['what'][:250])"; done
    fi
  done
  echo "seed $s done"
done
