#!/bin/bash
# tools/confirm_mutant.sh <worktree>: confirm a seeded change ourselves: the worktree's diff equals patch.diff,
# the unedited test suite passes with the change, demo.py fails with the change and passes without it.
WT="$1"
cd "$WT" || exit 2
git diff > /tmp/cur_$$.diff
if ! diff -q /tmp/cur_$$.diff patch.diff > /dev/null; then echo "DIFF-MISMATCH (worktree diff != patch.diff)"; fi
rm -f /tmp/cur_$$.diff
echo "files: $(git diff --stat | tail -1)"
T=$(/venv/bin/python -B -m pytest -q -p no:cacheprovider --timeout=900 algopy 2>&1 | grep -E "passed|failed" | tail -1)
echo "tests(with change): $T"
/venv/bin/python -B demo.py > /dev/null 2>&1; M=$?
git apply -R patch.diff
/venv/bin/python -B demo.py > /dev/null 2>&1; C=$?
git apply patch.diff
echo "demo: clean=$C mutated=$M"
