p='/verif/harness/props/c06.py'
s=open(p).read()
s=s.replace("""                     'seed': rng.randrange(1 << 30), 'kind': rng.choice(['ut', 'ut', 'nd'])})""","""                     'seed': rng.randrange(1 << 30), 'kind': rng.choice(['ut', 'ut', 'nd']),
                     'dt': rng.choice(['float', 'float', 'float', 'int', 'complex'])})""")
s=s.replace("""def history_fails(case):
    prog, N = case['prog'], case['N']""","""def conv(a, dt):
    \"\"\"the call's arguments in another dtype: integer-valued with an integer dtype, or complex\"\"\"
    a = np.asarray(a, dtype=float)
    if dt == 'int':
        return np.round(a).astype(int)
    if dt == 'complex':
        return a + 0.25j * a[..., ::-1]
    return a


def fresh_ok(prog, h, k, hx, hpt, call=None):
    \"\"\"calls with integer or complex arguments are part of the history only when the same call on a fresh graph
    is defined (no exception, finite result)\"\"\"
    try:
        with np.errstate(all='ignore'):
            if k in ('push', 'pull'):
                w = c05.val(run_program(prog, [UTPM(hx.copy()) if h['kind'] == 'ut' else hx[0, 0].copy()]))
            elif k == 'function':
                w = np.asarray(run_program(prog, [hpt.copy()]))
            else:
                cg2, fx2, fy2 = trace(prog, [hpt.copy()])
                w = np.asarray(call(cg2))
        return bool(np.all(np.isfinite(w)))
    except Exception:
        return False


def history_fails(case):
    prog, N = case['prog'], case['N']""")
s=s.replace("""        k = h['k']
        try:
            with np.errstate(all='ignore'):
                if k == 'push' or (k == 'pull' and last_push is None):
                    xin = UTPM(np.array(h['x'])) if h['kind'] == 'ut' else np.array(h['x'])[0, 0]
                    cg.pushforward([xin])
                    got = c05.val(cg.dependentFunctionList[0].x)
                    want = c05.val(run_program(prog, [UTPM(np.array(h['x'])) if h['kind'] == 'ut' else np.array(h['x'])[0, 0]]))
                    last_push = h if h['kind'] == 'ut' else None
                    name = 'pushforward'
                elif k == 'pull':
                    xs = np.array(last_push['x'])""","""        k = h['k']
        dt = h.get('dt', 'float')
        hx = conv(h['x'], dt)
        hpt = conv(h['pt'], dt if dt != 'complex' else 'float')
        drv = None
        if k in ('gradient', 'hessian', 'hess_vec', 'jac_vec', 'vec_jac'):
            v_ = np.array(h['v'])
            drv = {'gradient': lambda g: g.gradient(hpt), 'hessian': lambda g: g.hessian(hpt), 'hess_vec': lambda g: g.hess_vec(hpt, v_),
                   'jac_vec': lambda g: g.jac_vec(hpt, v_), 'vec_jac': lambda g: g.vec_jac(np.array([1.5]), hpt)}[k]
        if dt != 'float' and not (k == 'pull' and last_push is not None) and k != 'other-graph':
            if not fresh_ok(prog, h, k, hx, hpt, drv):
                continue
        try:
            with np.errstate(all='ignore'):
                if k == 'push' or (k == 'pull' and last_push is None):
                    xin = UTPM(hx.copy()) if h['kind'] == 'ut' else hx[0, 0].copy()
                    cg.pushforward([xin])
                    got = c05.val(cg.dependentFunctionList[0].x)
                    want = c05.val(run_program(prog, [UTPM(hx.copy()) if h['kind'] == 'ut' else hx[0, 0].copy()]))
                    last_push = dict(h, x=hx) if h['kind'] == 'ut' else None
                    name = 'pushforward'
                elif k == 'pull':
                    xs = np.array(last_push['x'])""")
s=s.replace("""                    got = np.asarray(cg.function([np.array(h['pt'])])[0])
                    want = np.asarray(run_program(prog, [np.array(h['pt'])]))""","""                    got = np.asarray(cg.function([hpt.copy()])[0])
                    want = np.asarray(run_program(prog, [hpt.copy()]))""")
s=s.replace("""                    pt, v = np.array(h['pt']), np.array(h['v'])
                    call = {'gradient': lambda g: g.gradient(pt), 'hessian': lambda g: g.hessian(pt), 'hess_vec': lambda g: g.hess_vec(pt, v),
                            'jac_vec': lambda g: g.jac_vec(pt, v), 'vec_jac': lambda g: g.vec_jac(np.array([1.5]), pt)}[k]
                    got = np.asarray(call(cg))
                    cg2, fx2, fy2 = trace(prog, [pt.copy()])""","""                    pt, call = hpt, drv
                    got = np.asarray(call(cg))
                    cg2, fx2, fy2 = trace(prog, [pt.copy()])""")
open(p,'w').write(s)
