p='/verif/harness/props/c07.py'
s=open(p).read()
s=s.replace("""def replay_case(ctx, case):
    return check(ctx, case)
""","""# ---- real/complex and mixed dtypes (oracle only): the result is the NumPy product of the promoted operands --------------
def dtype_case(rng, tier):
    kind = rng.choice(['dot', 'dot', 'outer', 'solve', 'inv', 'det'])
    D, P, n = rng.randint(1, 4), rng.choice([1, 2]), rng.randint(1, 3)
    kinds = rng.choice(['uu', 'ua', 'au']) if kind in ('dot', 'outer', 'solve') else 'u'
    dts = rng.choice(['rc', 'cr', 'cc']) if len(kinds) == 2 else 'c'
    c = {'op': 'dtype', 'fn': kind, 'D': D, 'P': P, 'kinds': kinds, 'dts': dts}

    def arr(shape, u, cplx, square=False):
        if square:
            a = ops.gen_square(rng, D, P, n) if u else ops.gen_square(rng, 1, 1, n)[0, 0]
            if cplx:
                a = a + 0.25j * rand_coeffs(rng, a.shape, -1, 1)
            return a
        a = rand_coeffs(rng, ((D, P) if u else ()) + shape, -2, 2)
        return a + 1j * rand_coeffs(rng, a.shape, -2, 2) if cplx else a
    if kind == 'dot':
        sub = rng.choice(['mm', 'mv', 'vm', 'vv'])
        k, m = rng.randint(1, 3), rng.randint(1, 3)
        c['x'] = arr({'m': (n, k), 'v': (k,)}[sub[0]], kinds[0] == 'u', dts[0] == 'c')
        c['y'] = arr({'m': (k, m), 'v': (k,)}[sub[1]], kinds[1] == 'u', dts[1] == 'c')
    elif kind == 'outer':
        c['x'] = arr((n,), kinds[0] == 'u', dts[0] == 'c')
        c['y'] = arr((rng.randint(1, 3),), kinds[1] == 'u', dts[1] == 'c')
    elif kind == 'solve':
        c['x'] = arr(None, kinds[0] == 'u', dts[0] == 'c', square=True)
        c['y'] = arr((n, rng.randint(1, 2)), kinds[1] == 'u', dts[1] == 'c')
    else:
        c['x'] = arr(None, True, True, square=True)
    return c


def dtype_check(ctx, c):
    fn, D, P, kinds = c['fn'], c['D'], c['P'], c['kinds']
    x = np.array(c['x'])

    def lift(a, u):
        if u:
            return a
        z = np.zeros((D, P) + a.shape, dtype=a.dtype)
        z[0] = a
        return z

    def cauchy(a, b, f):
        return np.array([[sum(f(a[k, p], b[d - k, p]) for k in range(d + 1)) for p in range(P)] for d in range(D)])
    import warnings
    with warnings.catch_warnings():
        warnings.simplefilter('error', np.exceptions.ComplexWarning)
        try:
            if fn in ('dot', 'outer', 'solve'):
                y = np.array(c['y'])
                X = UTPM(x.copy()) if kinds[0] == 'u' else x.copy()
                Y = UTPM(y.copy()) if kinds[1] == 'u' else y.copy()
                z = getattr(algopy, fn)(X, Y)
            else:
                z = getattr(algopy, fn)(UTPM(x.copy()))
        except Exception as ex:
            return 'dtype-exception-%s-%s-%s: %s' % (fn, kinds, c['dts'], type(ex).__name__ + ':' + str(ex)[:80])
    if fn in ('dot', 'outer'):
        want = cauchy(lift(x, kinds[0] == 'u'), lift(y, kinds[1] == 'u'), np.dot if fn == 'dot' else np.outer)
        if z.data.shape != want.shape or z.data.dtype != want.dtype or not close(z.data, want):
            return 'dtype-%s-%s-%s: result (dtype %s) differs from the Cauchy product of numpy.%s on the promoted operands (dtype %s)' % (
                fn, kinds, c['dts'], z.data.dtype, fn, want.dtype)
    elif fn == 'solve':
        b = lift(y, kinds[1] == 'u')
        if z.data.shape != b.shape or not close(cauchy(lift(x, kinds[0] == 'u'), z.data, np.dot), b, 1e-8):
            return 'dtype-solve-%s-%s: A(t) X(t) != B(t) modulo t^D' % (kinds, c['dts'])
    elif fn == 'inv':
        n = x.shape[2]
        I = lift(np.eye(n) + 0j, False)
        if not close(cauchy(x, z.data, np.dot), I, 1e-8):
            return 'dtype-inv: A(t) inv(A)(t) != I modulo t^D for complex A'
    else:
        n = x.shape[2]
        det = UTPM(np.zeros((D, P), dtype=complex))
        X = UTPM(x.copy())
        for perm in itertools.permutations(range(n)):
            term = UTPM(np.zeros((D, P), dtype=complex))
            term.data[0] = np.linalg.det(np.eye(n)[list(perm)])
            for i in range(n):
                term = term * X[i, perm[i]]
            det = det + term
        if not close(z.data, det.data, 1e-8):
            return 'dtype-det: complex det differs from the Leibniz formula in Taylor arithmetic, max diff %s' % maxdiff(z.data, det.data)
    return None


def replay_case(ctx, case):
    if case.get('op') == 'dtype':
        return dtype_check(ctx, case)
    return check(ctx, case)
""")
s=s.replace("""        if f:
            ctx.report(c, 'failure', f)""","""        if f:
            ctx.report(c, 'failure', f)
    for i in range(150 if ctx.tier == 'quick' else 2000):
        c = dtype_case(rng, ctx.tier)
        ctx.evaluations += 1
        ctx.count('dtype=%s:%s:%s' % (c['fn'], c['kinds'], c['dts']))
        h = canon_hash(to_jsonable(c))
        if h not in ctx.hashes:
            ctx.hashes.add(h)
            if c['D'] >= 2:
                ctx.nontrivial += 1
        try:
            f = dtype_check(ctx, c)
        except Exception as ex:
            f = 'exception-dtype-%s: %s' % (c['fn'], type(ex).__name__ + ':' + str(ex)[:100])
        if f:
            ctx.report(c, 'failure', f)""")
open(p,'w').write(s)
