import sys, os; sys.path.insert(0, os.path.join(os.path.dirname(os.path.dirname(os.path.abspath(__file__))), "harness"))
import common, random, collections, sys
from props import c03
import programs
rng=random.Random(int(sys.argv[1]) if len(sys.argv)>1 else 3)
res=collections.defaultdict(collections.Counter)
for p in c03.single_op_programs(rng):
    for _ in range(6):
        case=c03.make_case(rng,'thorough',prog=p)
        f=c03.adjoint_fails(case)
        tag='+'.join(sorted(programs.ops_used(p)))
        res[tag]['fail' if f else 'ok']+=1
        if f: res[tag]['msg:'+f.split(':')[0][:12]]+=1
for k,v in sorted(res.items()):
    if v['fail']: print(k, dict(v))
print('done')
