p='/verif/DESIGN.md'
s=open(p).read()
s=s.replace("""| 933d7f2 | C11 | `x // y` with several directions: relative mask positions used as absolute indices (one direction's L'Hospital shifts applied to another) |
""","""| 933d7f2 | C11 | `x // y` with several directions: relative mask positions used as absolute indices (one direction's L'Hospital shifts applied to another) |
| 4c7ace9 | C07 | `outer` of a real and a complex operand raised a casting error (result allocated with one operand's dtype) |
| 5bc7bca | C07 | `solve(A, b)` with UTPM `A`, constant `b`, complex operands: float scratch array |
| 97b1e75 | C07 | `lu`, `lu2`, `det` of a complex matrix polynomial: float scratch matrix |
""")
s=s.replace("""17 fresh sub-agents, each given only the text of one property and its own scratch git
worktree of `/repo` (nothing from `/verif`), produced one change each that compiles, passes""","""Two rounds of 17 fresh sub-agents (round 2 was told which site round 1 had used for its
property and asked for a different one; one round-2 agent had not finished when this was
written), each given only the text of one property and its own scratch git
worktree of `/repo` (nothing from `/verif`), produced one change each that compiles, passes""")
s=s.replace("""them (17/17 caught by the check of the property they break, for `VERIF_SEED` 0–4). Seven
were **missed at first** by the check of their own property; the checks were strengthened
(never loosened) until they were caught — column "first / after".""","""them (33/33 caught by the check of the property they break, for `VERIF_SEED` 0–2; round 1 also
for 3–4). Seven of round 1 and thirteen of round 2 were **missed at first** by the check of
their own property (several of those were caught by another property's check); the checks were
strengthened (never loosened) until they were caught — column "first / after". The round-2
misses were all *generator reach* problems (an input class nobody generated: exact zero base
points, mixed dtypes, Fortran-ordered operands, higher-rank constants, non-default keywords,
per-direction pivots in the reverse sweep, integer/complex calls in a history), which is the
Cedar lesson quoted in the brief; the oracles themselves did not need to change, except C13's
`symvec` reference, which had used the function under test as its own specification.""")
s=s.replace("""| S17 | `UTPM.piv2mat` from direction 0 | P ≥ 2, different pivots | missed → C17 (multi-direction pivots) |
""","""| S17 | `UTPM.piv2mat` from direction 0 | P ≥ 2, different pivots | missed → C17 (multi-direction pivots) |
| S18 | `_pow_real`: `r >= 0` → `r > 0` | `x**0`, D ≥ 2, a base point exactly 0 | missed → C01 (systematic zero-base-point cases for every function smooth at 0) |
| S19 | `_truediv` scratch takes the numerator's dtype | real UTPM / complex UTPM | C02 |
| S20 | `_pb_reshape` guard "x non-contiguous" instead of "ybar aliases xbar" | reshape of a column slice that stays a view | C03 |
| S21 | `pb_dot`: constant right operand copied into every coefficient | `dot(x, const)` + second-order driver | C04 |
| S22 | `Function.__pow__` unwraps a traced exponent | traced base ** traced exponent, replay with other values | missed → C05 (`powbin` step + fixed template) |
| S23 | adjoint buffers reused across sweeps by shape, not dtype | int-then-float or real-then-complex calls | missed → C06 (integer/complex calls in histories) |
| S24 | `dot(UTPM, ndarray)` result takes the UTPM's dtype | real UTPM · complex constant on the right | missed → C07 (mixed-dtype cases; exposed three genuine defects, §7) |
| S25 | `_eigh` no longer forwards `epsilon` to `_eigh1` | non-default `epsilon`, data not of order one, repeated eigenvalues | missed → C08 (power-of-two scaled `eigh`/`svd` with scaled threshold) |
| S26 | `multi_index_factorial` = `max(i)!` | `extract_tensor`, d ≥ 4, N ≥ 2 | missed in quick tier → C09 (d ≤ 4 quick, ≤ 5 thorough); C15 as built |
| S27 | `UTPM / ndarray` without reshaping the constant | constant with more axes than the polynomial | missed → C10 (either operand may be the higher-rank one; 25 cases/op) |
| S28 | `UTPM.piv2mat` uses direction 0's pivots (same site as S17, found independently) | reverse sweep through det/logdet/lu, P ≥ 2, different pivots | missed → C11 (per-operation reverse-sweep direction check) |
| S29 | `__ge__` compares against every coefficient of the right operand | `a >= b`, D ≥ 2, a higher coefficient of `b` above `a₀` | C10 as built; missed by C12 → C12 (data-dependent branch cases) |
| S30 | `utils.symvec(…, 'U')` reads the lower triangle | `UPLO='U'`, non-symmetric storage | C17 as built; missed by C13 → C13 (independent NumPy reference, all `UPLO`) |
| S31 | `lu2`: `lu_factor(..., overwrite_a=True)` | Fortran-ordered operand (`det(A.T)`) | missed → C14 (every operation also on Fortran-ordered and strided operands) |
| S32 | `hyperu`: Pochhammer via `exp(gammaln)` | negative first parameter | missed → C16 (negative non-integer / integer `a`) |
| S33 | global `symvec` drops `UPLO` for traced operands | `algopy.symvec(Function, 'L'/'U')` | missed → C17 (every dispatch path compared with the model) |
""")
s=s.replace("""  numerical noise is below `1e-8` are compared (found by the seed sweep and by `vp check`). A seed sweep
  (`tools/seed_sweep.sh`) runs all checks over many seeds on the unchanged tree.""","""  numerical noise is below `1e-8` are compared (found by the seed sweep and by `vp check`);
  (vii) the program generator's interval tracking did not update a buffer's interval until all
  its entries were written, so `sum(buf)` taken in between was thought to be 0 and `log1p` of
  it could leave its domain (NaN on both sides, reported as a difference; thorough tier,
  seed 21) — the interval is now current after every write; (viii) when the operand generators
  were extended so that either operand can be the lower-rank one, the *in-place* generator got
  the same swap and demanded `x += y` with `y` of higher rank, which NumPy rejects too —
  reverted for in-place forms; (ix) C06 histories with an integer-typed forward evaluation
  followed by a reverse sweep reported the casting error that a fresh graph raises as well —
  such calls now belong to a history only when the same call on a fresh graph is defined. A seed sweep
  (`tools/seed_sweep.sh`) runs all checks over many seeds on the unchanged tree.""")
open(p,'w').write(s)
