#!/usr/bin/env python3
"""Regenerates MANIFEST.json from the table below (run after adding a property check)."""
import json, os
HERE = os.path.dirname(os.path.dirname(os.path.abspath(__file__)))

LEVEL_NOTE = ("Trusted: Lean 4.33.0 kernel + Mathlib definitions, axioms propext/Classical.choice/Quot.sound only "
              "(audited by #print axioms on every run; no sorry/native_decide/bv_decide/own axioms); the hand-written "
              "model<->/repo correspondence is differential (exact rational model vs float64/complex128 implementation, "
              "tolerance 1e-9, one PRNG seed) and is a test of the tie, not a proof; NumPy/SciPy leaf values on zeroth "
              "coefficients and IEEE rounding are not modelled.")

# id -> (design_ref, technique, text)   only properties whose check exists are listed
CLAIMED = {}
NOT_YET = {}

def load():
    import importlib.util
    spec = importlib.util.spec_from_file_location('claims', os.path.join(HERE, 'tools', 'claims.py'))
    m = importlib.util.module_from_spec(spec)
    spec.loader.exec_module(m)
    return m.CLAIMED, m.NOT_APPLICABLE

def main():
    claimed, na = load()
    checks = []
    for pid in sorted(claimed):
        c = claimed[pid]
        checks.append({
            'property_id': pid,
            'quick_cmd': './check %s --tier quick' % pid,
            'thorough_cmd': './check %s --tier thorough' % pid,
            'evidence_file': 'evidence/%s.json' % pid,
            'replay_cmd_template': './check %s --replay {path}' % pid,
            'engine': 'lean4-model+correspondence',
            'level_claimed': {'category': 'proof', 'text': c['text'], 'design_ref': c.get('design_ref', 'DESIGN.md §6 ' + pid)},
            'level_note': c.get('level_note', LEVEL_NOTE),
            'technique': c['technique'],
        })
    man = {
        'version': 1,
        'setup_cmd': 'cd lean && lake build AlgopyVerif algopy_model',
        'hooks': {
            'guard': 'ALGOPY_VERIF',
            'enable': 'no hooks are needed: the harness observes the real code in-process (ALGOPY_VERIF is reserved and unused)',
            'baseline_off_cmd': 'cd /repo && /venv/bin/python -m pytest -ra -q -p no:cacheprovider --timeout=900 --continue-on-collection-errors',
            'source_commits': [],
            'add_only': True,
        },
        'engines': [{
            'name': 'lean4-model+correspondence',
            'path': 'lean/ (model, proofs, theorems, driver) + harness/ (correspondence, oracles)',
            'serves_properties': sorted(claimed),
            'kind_free_text': 'Lean 4 theorems about a hand-written executable model; model tied to /repo by a differential correspondence check on every run',
        }],
        'checks': checks,
        'not_applicable': [{'property_id': p, 'reason': r} for p, r in sorted(na.items())],
        'notes': 'See DESIGN.md. Exit codes of ./check: 0 held, 1 violation (VIOLATION line), 2 the check itself is broken.',
    }
    json.dump(man, open(os.path.join(HERE, 'MANIFEST.json'), 'w'), indent=1)
    # root module of the Lean library: every Model/Proofs/Props/Audit module that exists
    mods = []
    base = os.path.join(HERE, 'lean', 'AlgopyVerif')
    for sub in ('Model', 'Proofs', 'Props', 'Audit'):
        d = os.path.join(base, sub)
        if os.path.isdir(d):
            for f in sorted(os.listdir(d)):
                if f.endswith('.lean') and not (sub == 'Model' and f == 'Dispatch.lean') and not f.endswith('Big.lean'):
                    mods.append('import AlgopyVerif.%s.%s' % (sub, f[:-5]))
    open(os.path.join(HERE, 'lean', 'AlgopyVerif.lean'), 'w').write('\n'.join(mods) + '\n')
    print('wrote MANIFEST.json with %d checks, %d not_applicable' % (len(checks), len(na)))

if __name__ == '__main__':
    main()
