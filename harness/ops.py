"""Registry of public operations on UTPMs with structured input generators.

Shared by the relational properties (C10 zeroth coefficient, C11 directions, C12 truncation,
C14 operands unchanged): each operation is a JSON-able *case*
    {'op': name, 'D':…, 'P':…, 'args': [{'k':'U'|'A'|'S'|'K', 'v':…}, …]}
('U' = UTPM coefficient array (D,P)+shape, 'A' = constant ndarray, 'S' = scalar, 'K' = plain
python parameter such as an axis or an index)."""
import math
import numpy as np
import scipy.linalg
import scipy.special as sp
from common import *
from props import c01


# ----------------------------------------------------------------------------------
# matrix generators (well conditioned by construction)
def rand_orth(rng, n):
    """rational-ish orthogonal matrix by the Cayley transform of a random skew matrix"""
    S = np.zeros((n, n))
    for i in range(n):
        for j in range(i + 1, n):
            S[i, j] = dyadic(rng, -1, 1)
            S[j, i] = -S[i, j]
    I = np.eye(n)
    return np.linalg.solve(I + S, I - S)


def gen_square(rng, D, P, n, kind='general'):
    """(D,P,n,n) with a well conditioned base matrix per direction"""
    x = rand_coeffs(rng, (D, P, n, n), -1, 1, sparse=rng.choice([0, 0, 0.5]))
    for p in range(P):
        if kind == 'general':
            A0 = rand_coeffs(rng, (n, n), -1, 1) + 3 * np.eye(n)
            if rng.random() < 0.5:          # force row pivoting
                perm = list(range(n))
                rng.shuffle(perm)
                A0 = A0[perm]
            x[0, p] = A0
        elif kind == 'spd':
            B = rand_coeffs(rng, (n, n), -1, 1)
            x[0, p] = B @ B.T + n * np.eye(n)
        elif kind == 'sym':
            Q = rand_orth(rng, n)
            lam = np.array(sorted(rng.sample([-3., -2., -1., 0.5, 1.5, 2.5, 4.], n)))
            x[0, p] = Q @ np.diag(lam) @ Q.T
    if kind in ('spd', 'sym'):
        for d in range(D):
            for p in range(P):
                x[d, p] = (x[d, p] + x[d, p].T) / 2
    return x


def gen_tall(rng, D, P, m, n):
    x = rand_coeffs(rng, (D, P, m, n), -1, 1)
    for p in range(P):
        Q = rand_orth(rng, m)[:, :n]
        R = np.triu(rand_coeffs(rng, (n, n), -1, 1))
        for i in range(n):
            R[i, i] = rng.choice([-1, 1]) * dyadic(rng, 1, 2)
        x[0, p] = Q @ R
    return x


def U(v):
    return {'k': 'U', 'v': v}


def A(v):
    return {'k': 'A', 'v': v}


def S(v):
    return {'k': 'S', 'v': v}


def Kp(v):
    return {'k': 'K', 'v': v}


# ----------------------------------------------------------------------------------
OPS = {}


def op(name, gen, call, ref=None, tags=()):
    OPS[name] = dict(gen=gen, call=call, ref=ref, tags=set(tags))


def _shape(rng, tier):
    return rand_shape(rng, 2 if tier == 'quick' else 3, 3)


# element-wise functions (from the C01 table)
def _mk_ew(name):
    e = c01.TABLE[name]

    def gen(rng, D, P, tier):
        case = c01.gen_case(rng, tier, name)
        shape = tuple(case['shape'])
        x = rand_coeffs(rng, (D, P) + shape, -1, 1, sparse=rng.choice([0, 0, 0.4]))
        x[0] = c01.gen_x0(rng, e['dom'], (P,) + shape, False)
        extra = {k: v for k, v in case.items() if k not in ('fn', 'D', 'P', 'shape', 'cplx', 'x')}
        return [U(x), Kp(extra)]

    def call(a):
        c = dict(a[1])
        return e['call'](a[0], c)

    def ref(z):
        f = e['f']
        if name == 'gammaln' and not np.iscomplexobj(z[0]):
            f = scipy.special.gammaln       # log|Gamma| on the reals (loggamma is its complex continuation from x > 0)
        return None if f is None else f(z[0])
    op('ew:' + name, gen, call, ref, tags=('elementwise',))


for _n in c01.TABLE:
    _mk_ew(_n)


# the piecewise functions AT their kink / jump (base point exactly 0, non-zero slopes): the zeroth coefficient is NumPy's value at
# the zeroth coefficient (sign(0) = 0, |0| = 0) whatever the higher coefficients and their number; not differentiable there
def _gen_kink(rng, D, P, tier):
    s = _shape(rng, tier) or (2,)
    x = rand_coeffs(rng, (D, P) + s, -1, 1)
    x[0] = c01.gen_x0(rng, 'nz', (P,) + s, False)
    flat = x[0].reshape(P, -1)
    flat[:, 0] = 0.0
    if D > 1:
        x[1].reshape(P, -1)[:, 0] = rng.choice([1.5, -0.75])          # a definite slope through the kink
    return [U(x)]


op('sign:kink', _gen_kink, lambda a: algopy.sign(a[0]), lambda z: np.sign(z[0]), tags=('elementwise', 'kink'))
op('absolute:kink', _gen_kink, lambda a: algopy.absolute(a[0]), lambda z: np.abs(z[0]), tags=('elementwise', 'kink'))


# arithmetic with every operand kind
def _mk_bin(sym, fn):
    def gen_uu(rng, D, P, tier):
        s1 = _shape(rng, tier)
        s2 = s1 if rng.random() < 0.5 else tuple(rng.choice([1, n]) for n in s1)[rng.randint(0, len(s1)):]
        if rng.random() < 0.4:
            s1, s2 = s2, s1            # the left operand is the one of lower rank / with the length-1 axes
        x = rand_coeffs(rng, (D, P) + s1, -2, 2)
        y = rand_coeffs(rng, (D, P) + s2, -2, 2)
        if sym == 'div':
            y[0] = c01.gen_x0(rng, 'nz', y[0].shape, False)
        return [U(x), U(y)]
    op('bin:%s:uu' % sym, gen_uu, lambda a: fn(a[0], a[1]), lambda z: fn(z[0], z[1]), tags=('arith',))

    def gen_us(rng, D, P, tier):
        x = rand_coeffs(rng, (D, P) + _shape(rng, tier), -2, 2)
        r = rng.choice([2, -3, 0.5, -1.25, np.float64(1.5)])
        return [U(x), S(r)]
    op('bin:%s:us' % sym, gen_us, lambda a: fn(a[0], a[1]), lambda z: fn(z[0], z[1]), tags=('arith',))

    def gen_su(rng, D, P, tier):
        x = rand_coeffs(rng, (D, P) + _shape(rng, tier), -2, 2)
        if sym == 'div':
            x[0] = c01.gen_x0(rng, 'nz', x[0].shape, False)
        r = rng.choice([2, -3, 0.5, -1.25, np.float64(1.5)])
        return [S(r), U(x)]
    op('bin:%s:su' % sym, gen_su, lambda a: fn(a[0], a[1]), lambda z: fn(z[0], z[1]), tags=('arith',))

    def gen_ua(rng, D, P, tier):
        s1 = _shape(rng, tier)
        s2 = tuple(rng.choice([1, n]) for n in s1)[rng.randint(0, len(s1)):]
        if rng.random() < 0.4:
            s1, s2 = s2, s1            # the plain array has more axes than the polynomial
        x = rand_coeffs(rng, (D, P) + s1, -2, 2)
        c = c01.gen_x0(rng, 'nz', s2, False)
        return [U(x), A(c)]
    op('bin:%s:ua' % sym, gen_ua, lambda a: fn(a[0], a[1]), lambda z: fn(z[0], z[1]), tags=('arith',))

    def gen_au(rng, D, P, tier):
        s1 = _shape(rng, tier)
        s2 = tuple(rng.choice([1, n]) for n in s1)[rng.randint(0, len(s1)):]
        if rng.random() < 0.4:
            s1, s2 = s2, s1
        x = rand_coeffs(rng, (D, P) + s1, -2, 2)
        if sym == 'div':
            x[0] = c01.gen_x0(rng, 'nz', x[0].shape, False)
        c = c01.gen_x0(rng, 'nz', s2, False)
        return [A(c), U(x)]
    op('bin:%s:au' % sym, gen_au, lambda a: fn(a[0], a[1]), lambda z: fn(z[0], z[1]), tags=('arith',))


import operator
for _s, _f in [('add', operator.add), ('sub', operator.sub), ('mul', operator.mul), ('div', operator.truediv)]:
    _mk_bin(_s, _f)


def _mk_ibin(sym, ifn):
    def gen(rng, D, P, tier):
        s1 = _shape(rng, tier)
        s2 = s1 if rng.random() < 0.5 else tuple(rng.choice([1, n]) for n in s1)[rng.randint(0, len(s1)):]
        x = rand_coeffs(rng, (D, P) + s1, -2, 2)
        y = rand_coeffs(rng, (D, P) + s2, -2, 2)
        if sym == 'div':
            y[0] = c01.gen_x0(rng, 'nz', y[0].shape, False)
        return [U(x), U(y)]

    def call(a):
        z = a[0].clone()
        z = ifn(z, a[1])
        return z
    op('ibin:%s:uu' % sym, gen, call, lambda z: getattr(operator, {'add': 'add', 'sub': 'sub', 'mul': 'mul', 'div': 'truediv'}[sym])(z[0], z[1]), tags=('arith',))


for _s, _f in [('add', operator.iadd), ('sub', operator.isub), ('mul', operator.imul), ('div', operator.itruediv)]:
    _mk_ibin(_s, _f)


def _gen_floordiv(rng, D, P, tier):
    # x // y with L'Hospital handling: the leading coefficient(s) of y (and x) vanish in some directions
    x = rand_coeffs(rng, (D, P), -2, 2)
    y = rand_coeffs(rng, (D, P), -2, 2)
    y[0] = [dyadic(rng, 0.5, 2.0) for _ in range(P)]
    ks = [rng.choice([0, 0, 1, 2]) for _ in range(P)]
    if D >= 2 and not any(0 < k < D for k in ks):
        ks[rng.randrange(P)] = 1          # at least one direction takes the L'Hospital branch
    for p in range(P):
        k = ks[p]
        if k and k < D:
            x[:k, p] = 0.0
            y[:k, p] = 0.0
            y[k, p] = dyadic(rng, 0.5, 2.0)
    return [U(x), U(y)]


op('floordiv:uu', _gen_floordiv, lambda a: a[0] // a[1], None, tags=('arith', 'no-trunc'))


def _gen_floordiv_regular(rng, D, P, tier):
    # x // y with a non-vanishing denominator everywhere (plain series division, every truncation is defined); some
    # directions badly scaled: |y0| small against the higher coefficients, or large against them
    x = rand_coeffs(rng, (D, P), -2, 2)
    y = rand_coeffs(rng, (D, P), -2, 2)
    for p in range(P):
        kind = rng.choice(['ordinary', 'ordinary', 'small-y0', 'huge-tail'])
        y[0, p] = rng.choice([-1, 1]) * dyadic(rng, 0.5, 2.0)
        if kind == 'small-y0':
            y[0, p] *= 2.0 ** -13
            y[1:, p] *= 2.0 ** 16
        elif kind == 'huge-tail':
            y[1:, p] *= 2.0 ** 30
    return [U(x), U(y)]


def _gen_floordiv_array(rng, D, P, tier):
    # element-wise x // y on arrays: the leading coefficient(s) of y (and x) vanish in SOME entries of SOME directions only
    shape = tuple(rng.randint(1, 3) for _ in range(rng.randint(1, 2)))
    x = rand_coeffs(rng, (D, P) + shape, -2, 2)
    y = rand_coeffs(rng, (D, P) + shape, -2, 2)
    y[0] = np.vectorize(lambda _: dyadic(rng, 0.5, 2.0))(np.zeros((P,) + shape))
    if D >= 2:
        for _ in range(rng.randint(1, 3)):
            idx = tuple(rng.randrange(n) for n in (P,) + shape)
            k = rng.randint(1, min(2, D - 1))
            for d in range(k):
                x[(d,) + idx] = 0.0
                y[(d,) + idx] = 0.0
            y[(k,) + idx] = dyadic(rng, 0.5, 2.0)
    return [U(x), U(y)]


op('floordiv:array', _gen_floordiv_array, lambda a: a[0] // a[1], None, tags=('arith', 'no-trunc'))
op('floordiv:regular', _gen_floordiv_regular, lambda a: a[0] // a[1], lambda z: z[0] / z[1], tags=('arith',))


def _gen_powuu(rng, D, P, tier):
    s = _shape(rng, tier)
    x = rand_coeffs(rng, (D, P) + s, -1, 1)
    x[0] = c01.gen_x0(rng, 'pos', (P,) + s, False)
    r = rand_coeffs(rng, (D, P) + s, -1, 1)
    return [U(x), U(r)]


op('pow:uu', _gen_powuu, lambda a: a[0] ** a[1], lambda z: z[0] ** z[1], tags=('arith',))


def _gen_rpow(rng, D, P, tier):
    s = _shape(rng, tier)
    return [S(rng.choice([2.0, 0.5, 3, 1.5])), U(rand_coeffs(rng, (D, P) + s, -1, 1))]


def _gen_rpow_arr(rng, D, P, tier):
    """constant ARRAY of (positive) bases ** polynomial: same shape, lower rank, and higher rank than the polynomial (also with a
    leading axis as long as the number of directions or of coefficients, which must not be confused with those axes)"""
    s = _shape(rng, tier)
    how = rng.choice(['same', 'lower', 'higher', 'higherP', 'higherD', 'higherP'])
    rs = {'same': s, 'lower': s[rng.randint(0, len(s)):] if s else (), 'higher': (rng.randint(2, 3),) + s, 'higherP': (P,) + s, 'higherD': (D,) + s}[how]
    if rs == ():
        rs = (P,)
    n = int(np.prod(rs))
    r = np.array([rng.choice([2.0, 0.5, 3.0, 1.5, 1.0]) for _ in range(n)]).reshape(rs)
    return [A(r), U(rand_coeffs(rng, (D, P) + s, -1, 1))]


op('rpow:au', _gen_rpow_arr, lambda a: a[0] ** a[1], lambda z: z[0] ** z[1], tags=('arith',))


def _gen_powua(rng, D, P, tier):
    """polynomial ** constant array of exponents: same shape, lower rank, length-1 axes, and higher rank (also with a leading
    axis as long as the number of directions, which must not be confused with the direction axis)"""
    s = _shape(rng, tier)
    how = rng.choice(['same', 'lower', 'ones', 'higher', 'higherP', 'higher1'])
    if how == 'same':
        rs = s
    elif how == 'lower':
        rs = s[rng.randint(0, len(s)):] if s else ()
    elif how == 'ones':
        rs = tuple(rng.choice([1, n]) for n in s)
    elif how == 'higher':
        rs = (rng.randint(2, 3),) + s
    elif how == 'higherP':
        rs = (P,) + s
    else:
        rs = (rng.randint(2, 3), 1) + s
    if rs == ():
        rs = (P,)
    x = rand_coeffs(rng, (D, P) + s, -1, 1)
    x[0] = c01.gen_x0(rng, 'pos', (P,) + s, False)
    r = np.array([rng.choice([1.0, 2.0, 3.0, 0.5, -1.0, 1.5, -0.5]) for _ in range(int(np.prod(rs)))]).reshape(rs)
    return [U(x), A(r)]


op('pow:ua', _gen_powua, lambda a: a[0] ** a[1], lambda z: z[0] ** z[1], tags=('arith',))


def _gen_powuai(rng, D, P, tier):
    """polynomial ** constant array of non-negative INTEGERS (any integer dtype; one-element arrays too), base points of either
    sign and exactly zero: a plain product, no division"""
    s = _shape(rng, tier) or (rng.randint(1, 3),)
    rs = rng.choice([s, s[-1:], (1,) * len(s)])
    x = rand_coeffs(rng, (D, P) + s, -1, 1)
    x[0] = c01.gen_x0(rng, 'any', (P,) + s, False)
    flat = x[0].reshape(P, -1)
    flat[:, 0] = 0.0                                   # a zero base point in every direction
    r = np.array([rng.choice([0, 1, 2, 2, 3, 4]) for _ in range(int(np.prod(rs)))]).reshape(rs)
    dt = rng.choice(['int64', 'int32', 'uint8'])
    if dt != 'uint8' and rs == s and r.size >= 2 and rng.random() < 0.5:
        # mixed signs: negative exponents where the base point is not zero (entry 0 of every direction is the zero base)
        r.reshape(-1)[-1] = rng.choice([-1, -2])
        flat[:, -1] = rng.choice([1.5, -0.75, 2.0])
    return [U(x), A(r), Kp(dt)]


op('pow:uai', _gen_powuai, lambda a: a[0] ** a[1].astype(a[2]), lambda z: z[0] ** z[1], tags=('arith',))


def _gen_param_array(rng, D, P, tier):
    """special functions with an ARRAY-valued parameter (SciPy broadcasts it against x) of the same, lower or higher rank than x;
    a leading axis as long as the number of directions must not be confused with the direction axis"""
    s = _shape(rng, tier)
    how = rng.choice(['same', 'lower', 'higherP', 'higher', 'higherP'])
    rs = {'same': s or (P,), 'lower': s[1:] if len(s) > 1 else (s or (P,)), 'higherP': (P,) + s, 'higher': (rng.randint(2, 3),) + s}[how]
    x = rand_coeffs(rng, (D, P) + s, -1, 1)
    x[0] = rand_coeffs(rng, (P,) + s, 0.75, 3.0)
    n = int(np.prod(rs))
    return [U(x), A(np.array([rng.choice([0, 1, 2]) for _ in range(n)]).reshape(rs)), A(np.array([rng.choice([0.5, 1.0, 1.5]) for _ in range(n)]).reshape(rs)),
            Kp(rng.choice(['array', 'list']))]


def _pf(a, form):
    """the parameter as an ndarray or as a (nested) Python list"""
    return a.tolist() if form == 'list' else a


op('polygamma:arr', _gen_param_array, lambda a: algopy.special.polygamma(_pf(a[1].astype(int), a[3]), a[0]), lambda z: sp.polygamma(int(z[1]), z[0]), tags=('ew',))
op('hyperu:arr', _gen_param_array, lambda a: algopy.special.hyperu(_pf(a[2], a[3]), 1.5, a[0]), lambda z: sp.hyperu(z[2], 1.5, z[0]), tags=('ew',))
op('clip:arr', _gen_param_array, lambda a: algopy.special.botched_clip(_pf(a[2] - 0.25, a[3]), _pf(a[2] + 1.0, a[3]), a[0]), None, tags=('ew',))


def _gen_clip_bounds(rng, D, P, tier):
    """base points exactly ON the bounds of the interval, inside and outside (forward mode keeps the higher coefficients where
    a_min <= x_0 <= a_max, bounds included: the reverse sweep has to use the same mask)"""
    n = rng.randint(5, 7)
    x = rand_coeffs(rng, (D, P, n), -1, 1)
    for p in range(P):
        vals = [-0.5, 1.25, 0.25, -2.0, 3.0] + [rng.choice([-0.5, 1.25, 0.5]) for _ in range(n - 5)]
        rng.shuffle(vals)
        x[0, p] = vals
    return [U(x)]


op('clip:bounds', _gen_clip_bounds, lambda a: algopy.special.botched_clip(-0.5, 1.25, a[0]), lambda z: np.clip(z[0], -0.5, 1.25), tags=('ew',))
op('rpow:su', _gen_rpow, lambda a: a[0] ** a[1], lambda z: z[0] ** z[1], tags=('arith',))


# structural
def _gen_mat(rng, D, P, tier, lo=1, hi=3):
    return rand_coeffs(rng, (D, P, rng.randint(lo, hi), rng.randint(lo, hi)), -2, 2)


def _gen_distinct(rng, D, P, shape):
    # base points pairwise distinct within every direction (no ties for max / argmax), different per direction
    x = rand_coeffs(rng, (D, P) + shape, -2, 2)
    n = int(np.prod(shape))
    for p in range(P):
        vals = rng.sample([k / 8.0 for k in range(-24, 25)] if n <= 40 else [k / 16.0 for k in range(-48, 49)], n)
        x[0, p] = np.array(vals).reshape(shape)
    return x


def _gen_max_ties(rng, D, P, tier):
    # several entries share the maximal zeroth coefficient exactly (a kink of max): which of them is taken is a convention, but it
    # must not depend on the truncation degree, the other directions or the memory layout
    n = rng.randint(2, 5)
    x = rand_coeffs(rng, (D, P, n), -2, 2)
    for p in range(P):
        vals = [k / 8.0 for k in range(-16, 9)]
        x[0, p] = np.array([rng.choice(vals) for _ in range(n)])
        top = float(np.max(x[0, p])) + 0.5
        for i in rng.sample(range(n), rng.randint(2, n)):
            x[0, p, i] = top
    return [U(x)]


op('max:ties', _gen_max_ties, lambda a: UTPM.max(a[0]), lambda z: np.max(z[0]), tags=('shape',))
op('max', lambda rng, D, P, t: [U(_gen_distinct(rng, D, P, (rng.randint(1, 5),)))], lambda a: UTPM.max(a[0]),
   lambda z: np.max(z[0]), tags=('shape',))


def _gen_maxmin(rng, D, P, tier):
    shape = _shape(rng, tier)
    both = _gen_distinct(rng, D, P, (2,) + tuple(shape))
    return [U(np.ascontiguousarray(both[:, :, 0])), U(np.ascontiguousarray(both[:, :, 1]))]


op('maximum', _gen_maxmin, lambda a: UTPM.maximum(a[0], a[1]), lambda z: np.maximum(z[0], z[1]), tags=('elementwise',))
op('minimum', _gen_maxmin, lambda a: UTPM.minimum(a[0], a[1]), lambda z: np.minimum(z[0], z[1]), tags=('elementwise',))
op('sum', lambda rng, D, P, t: [U(rand_coeffs(rng, (D, P) + tuple(rng.randint(1, 3) for _ in range(rng.randint(1, 3))), -2, 2))],
   lambda a: algopy.sum(a[0]), lambda z: np.sum(z[0]), tags=('shape',))


def _gen_sum_axis(rng, D, P, tier):
    s = tuple(rng.randint(1, 3) for _ in range(rng.randint(1, 3)))
    return [U(rand_coeffs(rng, (D, P) + s, -2, 2)), Kp(rng.randint(-len(s), len(s) - 1))]


def _gen_sum_axes(rng, D, P, tier):
    """a TUPLE of axes, non-negative and negative entries mixed (distinct array shapes per axis, so that a wrong axis shows in the shape)"""
    s = tuple(rng.sample([1, 2, 3, 4], rng.randint(1, 3)))
    k = rng.randint(1, len(s))
    axes = rng.sample(range(len(s)), k)
    axes = [a - len(s) if rng.random() < 0.6 else a for a in axes]
    return [U(rand_coeffs(rng, (D, P) + s, -2, 2)), Kp(axes)]


op('sum_axes', _gen_sum_axes, lambda a: algopy.sum(a[0], axis=tuple(a[1])), lambda z: np.sum(z[0], axis=tuple(z[1])), tags=('shape',))
op('sum_axis', _gen_sum_axis, lambda a: algopy.sum(a[0], axis=a[1]), lambda z: np.sum(z[0], axis=z[1]), tags=('shape',))
op('prod', lambda rng, D, P, t: [U(rand_coeffs(rng, (D, P, rng.randint(1, 4)), -2, 2))],
   lambda a: algopy.prod(a[0]), lambda z: np.prod(z[0]), tags=('shape',))
op('transpose', lambda rng, D, P, t: [U(_gen_mat(rng, D, P, t))], lambda a: a[0].T, lambda z: z[0].T, tags=('shape',))
op('trace', lambda rng, D, P, t: [U(gen_square(rng, D, P, rng.randint(1, 3)) if rng.random() < 0.5 else
                                    rand_coeffs(rng, (D, P, rng.randint(1, 5), rng.randint(1, 5)), -1, 1))], lambda a: algopy.trace(a[0]),
   lambda z: np.trace(z[0]), tags=('shape', 'linalg'))


def _gen_reshape(rng, D, P, tier):
    s, t = rng.choice([((2, 3), (3, 2)), ((2, 3), (6,)), ((4,), (2, 2)), ((2, 2, 3), (4, 3)), ((3,), (3, 1))])
    return [U(rand_coeffs(rng, (D, P) + s, -2, 2)), Kp(list(t))]


# multiplication by t^s (s >= 0): obeys the prefix and direction laws like every other Taylor operation
op('shift:pos', lambda rng, D, P, t: [U(rand_coeffs(rng, (D, P) + _shape(rng, t), -2, 2)), Kp(rng.randint(0, D))],
   lambda a: a[0].shift(a[1]), None, tags=('shape',))


def _gen_cplx(rng, D, P, tier):
    s = _shape(rng, tier)
    return [U(rand_coeffs(rng, (D, P) + s, -2, 2) + 1j * rand_coeffs(rng, (D, P) + s, -2, 2))]


op('real', _gen_cplx, lambda a: algopy.real(a[0]), lambda z: np.real(z[0]), tags=('shape',))
op('imag', _gen_cplx, lambda a: algopy.imag(a[0]), lambda z: np.imag(z[0]), tags=('shape',))
op('conjugate', _gen_cplx, lambda a: algopy.conjugate(a[0]), lambda z: np.conjugate(z[0]), tags=('shape',))


def _gen_fft_axis(rng, D, P, tier):
    s = tuple(rng.randint(1, 4) for _ in range(rng.randint(1, 3)))
    return [U(rand_coeffs(rng, (D, P) + s, -2, 2)), Kp(rng.randint(-len(s), len(s) - 1))]


op('fft_axis', _gen_fft_axis, lambda a: algopy.fft.fft(a[0], axis=a[1]), lambda z: np.fft.fft(z[0], axis=z[1]), tags=('shape',))
op('ifft_axis', _gen_fft_axis, lambda a: algopy.fft.ifft(a[0], axis=a[1]), lambda z: np.fft.ifft(z[0], axis=z[1]), tags=('shape',))
op('reshape', _gen_reshape, lambda a: algopy.reshape(a[0], tuple(a[1])), lambda z: np.reshape(z[0], tuple(z[1])), tags=('shape',))
op('diag', lambda rng, D, P, t: [U(rand_coeffs(rng, (D, P, rng.randint(1, 3)), -2, 2))], lambda a: algopy.diag(a[0]),
   lambda z: np.diag(z[0]), tags=('shape',))
op('diag:extract', lambda rng, D, P, t: [U(rand_coeffs(rng, (D, P, rng.randint(1, 4), rng.randint(1, 4)), -2, 2))], lambda a: algopy.diag(a[0]),
   lambda z: np.diag(z[0]), tags=('shape',))
def _gen_diag_k(rng, D, P, tier):
    """the k-th diagonal of square, tall and wide matrices, every offset NumPy accepts (also the outermost ones of length 1)"""
    m, n = rng.choice([(3, 3), (3, 5), (5, 3), (2, 4), (4, 2), (1, 4), (4, 1)])
    return [U(rand_coeffs(rng, (D, P, m, n), -2, 2)), Kp(rng.randint(-(m - 1), n - 1))]


op('diag:extract-k', _gen_diag_k, lambda a: algopy.diag(a[0], k=a[1]), lambda z: np.diag(z[0], k=z[1]), tags=('shape',))
op('diag:build-k', lambda rng, D, P, t: [U(rand_coeffs(rng, (D, P, rng.randint(1, 3)), -2, 2)), Kp(rng.randint(-2, 2))], lambda a: algopy.diag(a[0], k=a[1]),
   lambda z: np.diag(z[0], k=z[1]), tags=('shape',))
op('tril:k', lambda rng, D, P, t: [U(rand_coeffs(rng, (D, P) + rng.choice([(3, 3), (2, 4), (4, 2)]), -2, 2)), Kp(rng.randint(-2, 2))], lambda a: algopy.tril(a[0], k=a[1]),
   lambda z: np.tril(z[0], k=z[1]), tags=('shape',))
op('triu:k', lambda rng, D, P, t: [U(rand_coeffs(rng, (D, P) + rng.choice([(3, 3), (2, 4), (4, 2)]), -2, 2)), Kp(rng.randint(-2, 2))], lambda a: algopy.triu(a[0], k=a[1]),
   lambda z: np.triu(z[0], k=z[1]), tags=('shape',))
op('triu', lambda rng, D, P, t: [U(gen_square(rng, D, P, rng.randint(1, 3)))], lambda a: algopy.triu(a[0]),
   lambda z: np.triu(z[0]), tags=('shape',))
op('tril', lambda rng, D, P, t: [U(gen_square(rng, D, P, rng.randint(1, 3)))], lambda a: algopy.tril(a[0]),
   lambda z: np.tril(z[0]), tags=('shape',))
op('neg', lambda rng, D, P, t: [U(rand_coeffs(rng, (D, P) + _shape(rng, t), -2, 2))], lambda a: -a[0], lambda z: -z[0], tags=('shape',))


def _gen_getitem(rng, D, P, tier):
    s = tuple(rng.randint(1, 3) for _ in range(rng.randint(1, 3)))
    idx = []
    for n in s[: rng.randint(1, len(s))]:
        idx.append(rng.choice([rng.randint(-n, n - 1), slice(None), slice(0, n, 2), slice(None, None, -1)]))
    return [U(rand_coeffs(rng, (D, P) + s, -2, 2)), Kp(idx)]


op('getitem', _gen_getitem, lambda a: a[0][tuple(a[1])], lambda z: z[0][tuple(z[1])], tags=('shape',))


# linear algebra
def _gen_dot(rng, D, P, tier):
    kind = rng.choice(['mm', 'mv', 'vm', 'vv', 'mm', 'Am', 'mA', 'Av', 'vA'])
    n, k, m = rng.randint(1, 3), rng.randint(1, 3), rng.randint(1, 3)
    sx = {'m': (n, k), 'v': (k,), 'A': (n, k)}[kind[0]]
    sy = {'m': (k, m), 'v': (k,), 'A': (k, m)}[kind[1]]
    if kind[0] == 'v' and kind[1] in 'mA':
        sx = (k,)
    x = U(rand_coeffs(rng, (D, P) + sx, -2, 2)) if kind[0] != 'A' else A(rand_coeffs(rng, sx, -2, 2))
    y = U(rand_coeffs(rng, (D, P) + sy, -2, 2)) if kind[1] != 'A' else A(rand_coeffs(rng, sy, -2, 2))
    return [x, y]


op('dot', _gen_dot, lambda a: algopy.dot(a[0], a[1]), lambda z: np.dot(z[0], z[1]), tags=('linalg',))


def _gen_dot_rank3(rng, D, P, tier):
    """numpy.dot with an operand of rank >= 3 (sum over the last axis of x and the second-to-last of y)"""
    kind = rng.choice(['3m', 'm3', '33', '3v', 'v3', '3A', 'A3'])
    k = rng.randint(1, 3)
    sh = {'3': lambda last: (2, rng.randint(1, 3), k) if last else (2, k, rng.randint(1, 3)),
          'm': lambda last: (rng.randint(1, 3), k) if last else (k, rng.randint(1, 3)), 'v': lambda last: (k,)}
    sh['A'] = sh['3']
    sx, sy = sh[kind[0]](True), sh[kind[1]](False)
    x = U(rand_coeffs(rng, (D, P) + sx, -2, 2)) if kind[0] != 'A' else A(rand_coeffs(rng, sx, -2, 2))
    y = U(rand_coeffs(rng, (D, P) + sy, -2, 2)) if kind[1] != 'A' else A(rand_coeffs(rng, sy, -2, 2))
    return [x, y]


op('dot:rank3', _gen_dot_rank3, lambda a: algopy.dot(a[0], a[1]), lambda z: np.dot(z[0], z[1]), tags=('linalg',))


# rank-3 dot with a COMPLEX intermediate next to a real operand (real input and output)
op('dot:rank3-complex', lambda rng, D, P, t: [U(rand_coeffs(rng, (D, P, 4), -2, 2))],
   lambda a: algopy.real(algopy.dot(algopy.fft.fft(a[0]).reshape((1, 2, 2)), a[0].reshape((2, 2)))), None, tags=('linalg',))
op('dot:complex-rank3', lambda rng, D, P, t: [U(rand_coeffs(rng, (D, P, 4), -2, 2))],
   lambda a: algopy.imag(algopy.dot(a[0].reshape((2, 2)), algopy.fft.fft(a[0]).reshape((2, 2, 1)))), None, tags=('linalg',))


def _gen_outer(rng, D, P, tier):
    n = rng.randint(1, 3)
    m = rng.choice([n, n, rng.randint(1, 3)])
    kind = rng.choice(['uu', 'uu', 'ua', 'au'])
    x = U(rand_coeffs(rng, (D, P, n), -2, 2)) if kind[0] == 'u' else A(rand_coeffs(rng, (n,), -2, 2))
    y = U(rand_coeffs(rng, (D, P, m), -2, 2)) if kind[1] == 'u' else A(rand_coeffs(rng, (m,), -2, 2))
    return [x, y]


op('outer', _gen_outer, lambda a: algopy.outer(a[0], a[1]), lambda z: np.outer(z[0], z[1]), tags=('linalg',))
op('inv', lambda rng, D, P, t: [U(gen_square(rng, D, P, rng.randint(1, 3)))], lambda a: algopy.inv(a[0]),
   lambda z: np.linalg.inv(z[0]), tags=('linalg',))


def _gen_solve(rng, D, P, tier):
    n, k = rng.randint(1, 3), rng.randint(1, 2)
    kind = rng.choice(['uu', 'uu', 'au', 'ua'])
    Am = U(gen_square(rng, D, P, n)) if kind[0] == 'u' else A(gen_square(rng, 1, 1, n)[0, 0])
    b = U(rand_coeffs(rng, (D, P, n, k), -2, 2)) if kind[1] == 'u' else A(rand_coeffs(rng, (n, k), -2, 2))
    return [Am, b]


op('solve', _gen_solve, lambda a: algopy.solve(a[0], a[1]), lambda z: np.linalg.solve(z[0], z[1]), tags=('linalg',))
op('det', lambda rng, D, P, t: [U(gen_square(rng, D, P, rng.randint(1, 3)))], lambda a: algopy.det(a[0]),
   lambda z: np.linalg.det(z[0]), tags=('linalg',))


def _gen_logdet(rng, D, P, tier):
    # positive definite, or a general well-conditioned matrix (determinant of either sign; logdet = log|det| as numpy.linalg.slogdet)
    return [U(gen_square(rng, D, P, rng.randint(1, 3), rng.choice(['spd', 'general', 'general'])))]


def _gen_expm(rng, D, P, tier, amps=(1e-3, 0.05, 0.3, 0.5)):
    n = rng.randint(1, 3)
    x = rand_coeffs(rng, (D, P, n, n), -0.5, 0.5)
    # every direction gets the same 1-norm: the Pade order chosen from the norms is then the same for the directions together
    # and for each of them alone (with different orders the results differ by the Pade remainder, not by rounding; directions in
    # different ranges are compared with the exponential series by C07)
    amp = rng.choice(list(amps))
    for p in range(P):
        a = rand_coeffs(rng, (n, n), -1, 1) + np.eye(n) * 0.25
        if np.linalg.norm(a, 1) < 0.1:
            a = np.eye(n)
        x[0, p] = a / np.linalg.norm(a, 1) * amp
    return [U(x)]


op('expm', _gen_expm, lambda a: algopy.expm(a[0]), lambda z: scipy.linalg.expm(z[0]), tags=('linalg',))
op('expm_higham', lambda rng, D, P, t: _gen_expm(rng, D, P, t, (1e-3, 0.05, 0.4, 0.6, 1.5, 1.9)), lambda a: algopy.expm_higham_2005(a[0]),
   lambda z: scipy.linalg.expm(z[0]), tags=('linalg',))
# 1-norms above theta_13: the scaling-and-squaring branch (raises NameError on the unchanged tree, which every check skips; should it
# ever run, it must obey the properties like everything else -- e.g. leave its operand alone)
op('expm_higham:large', lambda rng, D, P, t: _gen_expm(rng, D, P, t, (6.0, 8.0, 11.0)), lambda a: algopy.expm_higham_2005(a[0]), None,
   tags=('linalg',))


def _gen_det_pivots(rng, D, P, tier):
    """3x3 matrices whose dominant entries sit on a different (row-permuted) diagonal in every direction: partial pivoting takes a
    different sequence of row exchanges per direction, on every case"""
    perms = [[0, 1, 2], [2, 1, 0], [1, 2, 0], [2, 0, 1], [0, 2, 1], [1, 0, 2]]
    rng.shuffle(perms)
    x = rand_coeffs(rng, (D, P, 3, 3), -1, 1)
    for p in range(P):
        A0 = rand_coeffs(rng, (3, 3), -1, 1) * 0.5 + 4 * np.eye(3)
        x[0, p] = A0[perms[p % 6]]
    return [U(x)]


op('det:pivots', _gen_det_pivots, lambda a: algopy.det(a[0]), lambda z: np.linalg.det(z[0]), tags=('linalg',))


def _gen_det_singular(rng, D, P, tier):
    """integer matrices whose zeroth coefficient is singular in at least one direction (det is a polynomial in the entries:
    smooth there); ranks n-1 and lower, also the zero matrix"""
    n = rng.randint(1, 3)
    x = np.round(rand_coeffs(rng, (D, P, n, n), -2, 2))
    for p in range(P):
        if p > 0 and rng.random() < 0.4:
            x[0, p] = np.round(rand_coeffs(rng, (n, n), -2, 2)) + 3 * np.eye(n)      # a regular direction next to a singular one
            continue
        how = rng.choice(['zero', 'row', 'col', 'rank1']) if n > 1 else 'zero'
        A0 = np.round(rand_coeffs(rng, (n, n), -2, 2))
        if how == 'zero':
            A0[...] = 0
        elif how == 'row':
            A0[n - 1] = 2 * A0[0]
        elif how == 'col':
            A0[:, 0] = -A0[:, n - 1]
        else:
            A0 = np.outer(A0[0], A0[:, 0])
        x[0, p] = A0
    return [U(x)]


def _gen_det_mixed_cond(rng, D, P, tier):
    """a badly scaled but regular direction (diag(2^27, 2^-27, ...) up to a rotation-free perturbation) next to a direction with a
    singular zeroth coefficient: how the regular direction is computed must not depend on its neighbour"""
    n = rng.choice([2, 3])
    x = rand_coeffs(rng, (D, P, n, n), -1, 1)
    for p in range(P):
        if p == P - 1 and P >= 2:
            x[0, p] = 0.0                                       # singular (zero) base point
        else:
            d = [2.0 ** 27, 2.0 ** -27] + ([1.5] if n == 3 else [])
            x[0, p] = np.diag(d)
    return [U(x)]


op('det:mixed-cond', _gen_det_mixed_cond, lambda a: algopy.det(a[0]), lambda z: np.linalg.det(z[0]), tags=('linalg',))
op('det:singular', _gen_det_singular, lambda a: algopy.det(a[0]), lambda z: np.linalg.det(z[0]), tags=('linalg',))
op('logdet', _gen_logdet, lambda a: algopy.logdet(a[0]), lambda z: np.linalg.slogdet(z[0])[1], tags=('linalg',))
op('qr', lambda rng, D, P, t: [U(gen_tall(rng, D, P, *rng.choice([(2, 2), (3, 3), (3, 2), (4, 2)])))],
   lambda a: algopy.qr(a[0]), lambda z: np.linalg.qr(z[0]), tags=('linalg', 'factor'))
op('qr_full', lambda rng, D, P, t: [U(gen_tall(rng, D, P, *rng.choice([(2, 2), (3, 2), (4, 2)])))],
   lambda a: algopy.qr_full(a[0]), lambda z: scipy.linalg.qr(z[0]), tags=('linalg', 'factor'))
op('cholesky', lambda rng, D, P, t: [U(gen_square(rng, D, P, rng.randint(1, 3), 'spd'))],
   lambda a: algopy.cholesky(a[0]), lambda z: np.linalg.cholesky(z[0]), tags=('linalg', 'factor'))
op('lu', lambda rng, D, P, t: [U(gen_square(rng, D, P, rng.randint(1, 3)))],
   lambda a: algopy.lu(a[0]), lambda z: scipy.linalg.lu(z[0]), tags=('linalg', 'factor'))
op('lu2', lambda rng, D, P, t: [U(gen_square(rng, D, P, rng.randint(1, 3)))],
   lambda a: UTPM.lu2(a[0]), None, tags=('linalg', 'factor'))
op('lu_factor', lambda rng, D, P, t: [U(gen_square(rng, D, P, rng.randint(1, 3)))],
   lambda a: UTPM.lu_factor(a[0]), None, tags=('linalg', 'factor'))
op('eigh', lambda rng, D, P, t: [U(gen_square(rng, D, P, rng.randint(1, 3), 'sym'))],
   lambda a: algopy.eigh(a[0]), lambda z: np.linalg.eigh(z[0]), tags=('linalg', 'factor'))
def _twice(F):
    """the same output of a multi-output operation taken twice (F = qr(A); F[0] ... F[0]): two item reads of one tuple-valued node"""
    a1, b, a2 = F[0], F[1], F[0]
    return a1 * 1.5 + algopy.dot(a2, b) if np.ndim(a1) == np.ndim(b) == 2 else a1 * 1.5 + a2 * a2 + algopy.sum(b)


op('qr:twice', lambda rng, D, P, t: [U(gen_tall(rng, D, P, 3, 3))], lambda a: _twice(algopy.qr(a[0])), None, tags=('linalg', 'factor'))
op('eigh:twice', lambda rng, D, P, t: [U(gen_square(rng, D, P, 3, 'sym'))], lambda a: _twice(algopy.eigh(a[0])), None, tags=('linalg', 'factor'))
op('lu:twice', lambda rng, D, P, t: [U(gen_square(rng, D, P, 3))], lambda a: (lambda F: F[1] * 1.5 + algopy.dot(F[1], F[2]))(algopy.lu(a[0])), None,
   tags=('linalg', 'factor'))


def _gen_pow_big(rng, D, P, tier):
    """Python-int exponents beyond 64 (square and multiply); base points near one so that the power stays of order one"""
    s = _shape(rng, tier)
    r = rng.choice([65, 70, 100, 129])
    x = rand_coeffs(rng, (D, P) + s, -1, 1) / float(r)
    x[0] = 1.0 + rand_coeffs(rng, (P,) + s, -1, 1) / float(r)
    return [U(x), Kp(r)]


op('pow:big', _gen_pow_big, lambda a: a[0] ** int(a[1]), lambda z: z[0] ** int(z[1]), tags=('arith',))


def _gen_qr_rankdef(rng, D, P, tier):
    # square matrices; ONE direction has a rank-deficient base point (the kernels detect the rank of A_0 per direction)
    n = rng.choice([3, 4])
    x = gen_tall(rng, D, P, n, n)
    p = rng.randrange(P)
    r = rng.randint(1, n - 1)
    B = rand_coeffs(rng, (n, r), -1, 1)
    C = rand_coeffs(rng, (r, n), -1, 1)
    x[0, p] = B @ C
    return [U(x)]


op('qr:rankdef', _gen_qr_rankdef, lambda a: algopy.qr(a[0]), None, tags=('linalg', 'factor'))


def _gen_qr_eps(rng, D, P, tier):
    # wide matrices with small (but accepted) pivots in R_0 and an explicit rank threshold; some higher coefficient is large
    m, n = rng.choice([(3, 4), (3, 4), (2, 3), (3, 5)])
    x = rand_coeffs(rng, (D, P, m, n), -1, 1)
    for p in range(P):
        Q0 = rand_orth(rng, m)
        R0 = np.triu(rand_coeffs(rng, (m, n), -1, 1))
        for i, dv in enumerate([1.0, 0.0625, 0.046875][:m]):
            R0[i, i] = dv * rng.choice([-1, 1])
        x[0, p] = Q0 @ R0
    if D >= 2:
        x[rng.randrange(1, D)] *= 32.0
    if D >= 3:
        x[D - 1] *= 32.0         # the last coefficient is always large: every shorter truncation drops it
    return [U(x)]


def _gen_qr_wide(rng, D, P, tier):
    m, n = rng.choice([(2, 3), (2, 4), (3, 4), (3, 5)])
    a = gen_tall(rng, D, P, m, m)
    return [U(np.concatenate([a, rand_coeffs(rng, (D, P, m, n - m), -1, 1)], axis=3))]


op('qr:wide', _gen_qr_wide, lambda a: algopy.qr(a[0]), lambda z: np.linalg.qr(z[0]), tags=('linalg', 'factor'))
op('qr:eps', _gen_qr_eps, lambda a: UTPM.qr(a[0], epsilon=2.0 ** -7), None, tags=('linalg', 'factor'))


def _gen_svd(rng, D, P, tier, scale=1.0):
    """matrices with distinct, well separated singular values in every direction"""
    m, n = rng.choice([(2, 2), (3, 3), (3, 2), (2, 3)])
    x = rand_coeffs(rng, (D, P, m, n), -1, 1)
    for p in range(P):
        Um, Vm = rand_orth(rng, m), rand_orth(rng, n)
        k = min(m, n)
        sv = sorted(rng.sample([0.5, 1.0, 2.0, 3.0, 4.5], k), reverse=True)
        S_ = np.zeros((m, n))
        S_[:k, :k] = np.diag(sv)
        x[0, p] = Um @ S_ @ Vm.T
    return [U(x * scale)]


op('svd', _gen_svd, lambda a: algopy.svd(a[0]), None, tags=('linalg', 'factor'))
# data of order 2^-34 with the documented threshold keyword scaled accordingly (power-of-two scaling is exact)
op('svd:eps', lambda rng, D, P, t: _gen_svd(rng, D, P, t, 2.0 ** -34), lambda a: algopy.svd(a[0], epsilon=1e-8 * 2.0 ** -34), None,
   tags=('linalg', 'factor'))


def _gen_svd_scales(rng, D, P, tier):
    """directions of very different magnitude (exact power-of-two scaling of whole directions): a decision taken for one direction
    (coinciding / vanishing singular values in the reverse sweep) must not depend on the size of another one"""
    x = _gen_svd(rng, D, P, tier)[0]['v']
    while x.shape[2] > x.shape[3]:
        x = _gen_svd(rng, D, P, tier)[0]['v']
    for p in range(1, P):
        x[:, p] *= 2.0 ** (14 * p)
    return [U(x)]


op('svd:scales', _gen_svd_scales, lambda a: algopy.svd(a[0]), None, tags=('linalg', 'factor'))


def _gen_eigh_closegap(rng, D, P, tier):
    """symmetric matrices with two close but distinct eigenvalues (gap 1e-5, far above the threshold 1e-8) and large
    coefficients of order >= 2: whether two eigenvalues count as repeated is decided by the zeroth coefficient alone"""
    n = rng.choice([2, 3])
    x = rand_coeffs(rng, (D, P, n, n), -1, 1)
    for p in range(P):
        Q = rand_orth(rng, n)
        lam = [1.0, 1.0 + 1e-5] + ([3.0] if n == 3 else [])
        x[0, p] = Q @ np.diag(lam) @ Q.T
    x[2:] *= 2.0 ** 14
    for d in range(D):
        for p in range(P):
            x[d, p] = (x[d, p] + x[d, p].T) / 2
    return [U(x)]


op('eigh:closegap', _gen_eigh_closegap, lambda a: algopy.eigh(a[0]), None, tags=('linalg', 'factor'))


def _gen_eigh_mixed(rng, D, P, tier):
    # symmetric matrices whose base point has an exactly repeated eigenvalue in ONE direction only
    n = rng.randint(2, 3)
    x = gen_square(rng, D, P, n, 'sym')
    p = rng.randrange(P)
    lam = [2.0, 2.0, 3.5][:n] if rng.random() < 0.5 else [-1.0, 0.5, 0.5][:n] if n == 3 else [1.5, 1.5]
    x[0, p] = np.diag(np.array(sorted(lam)))      # exactly representable: the repeated pair is exact
    return [U(x)]


# eigenvectors of a repeated eigenvalue are fixed by the higher coefficients: Q_0 legitimately depends on D and is not NumPy's choice
def _eigh1_call(A):
    r = algopy.eigh1(A)
    return [r[0], r[1]] if isinstance(r, algopy.Function) else r[:2]      # traced: `L, Q, b = eigh1(A)` unpacks the node


# the relaxed decomposition of level 1 (block diagonal L in the clusters of A_0); the third output (block boundaries) is not a polynomial
op('eigh1', lambda rng, D, P, t: [U(gen_square(rng, D, P, rng.randint(1, 3), 'sym'))],
   lambda a: _eigh1_call(a[0]), None, tags=('linalg', 'factor'))
op('eigh1:mixed', _gen_eigh_mixed, lambda a: _eigh1_call(a[0]), None, tags=('linalg', 'factor'))
op('eigh:mixed', _gen_eigh_mixed, lambda a: algopy.eigh(a[0]), None, tags=('linalg', 'factor', 'no-trunc'))
op('symvec', lambda rng, D, P, t: [U(gen_square(rng, D, P, rng.randint(1, 3), 'spd'))],
   lambda a: algopy.symvec(a[0]), None, tags=('shape',))
for _uplo in ('L', 'U'):
    # the triangular storage conventions read one triangle only: general (non-symmetric) matrices
    op('symvec:' + _uplo, lambda rng, D, P, t: [U(gen_square(rng, D, P, rng.randint(2, 3), 'general'))],
       (lambda u: lambda a: algopy.symvec(a[0], u))(_uplo), None, tags=('shape',))
op('vecsym', lambda rng, D, P, t: [U(rand_coeffs(rng, (D, P, rng.choice([1, 3, 6])), -2, 2))],
   lambda a: algopy.vecsym(a[0]), None, tags=('shape',))


# ----------------------------------------------------------------------------------
def gen_case(rng, tier, name=None, D=None, P=None):
    name = name or rng.choice(sorted(OPS))
    Dmax = 5 if tier == 'quick' else 7
    D = D or rng.randint(1, Dmax)
    if name.startswith('ew:') and c01.TABLE[name[3:]]['model'] == 'slowgeneric':
        D = min(D, 5)
    P = P or rng.choice([1, 2, 3])
    args = OPS[name]['gen'](rng, D, P, tier)
    return {'op': name, 'D': D, 'P': P, 'args': args}


def build_args(case):
    out = []
    for a in case['args']:
        if a['k'] == 'U':
            out.append(UTPM(np.array(a['v'], dtype=float)))
        elif a['k'] == 'A':
            out.append(np.array(a['v'], dtype=float))
        else:
            v = a['v']
            if isinstance(v, list) and a['k'] == 'K':
                v = [x for x in v]
            out.append(v)
    return out


def call(case, args=None):
    """returns ('ok', [ndarray,…]) or ('exc', text)"""
    args = args if args is not None else build_args(case)
    try:
        r = OPS[case['op']]['call'](args)
    except Exception as ex:
        return ('exc', type(ex).__name__ + ':' + str(ex)[:120])
    if isinstance(r, UTPM):
        r = [r]
    outs = []
    for o in r:
        if isinstance(o, UTPM):
            outs.append(np.array(o.data))
        elif isinstance(o, np.ndarray):
            outs.append(np.array(o))
        else:
            outs.append(o)
    return ('ok', outs)


def map_U(case, f):
    """new case with every UTPM coefficient array replaced by f(array)"""
    c = dict(case)
    c['args'] = [({'k': 'U', 'v': f(np.array(a['v']))} if a['k'] == 'U' else a) for a in case['args']]
    return c


def nontrivial(case):
    return case['D'] >= 2 and any(a['k'] == 'U' and np.any(np.array(a['v'])[1:] != 0) for a in case['args'])
