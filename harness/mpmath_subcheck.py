"""Run with the tooling interpreter (python3-vt: mpmath is installed there, not in /venv): nthderiv.tan / tanh, which the library
exports only when mpmath is importable.  Orders 0..4 at scalar and array points against the closed forms in tan / tanh, printed as
one JSON line {"ok": bool, "failures": [...]} (or {"skipped": reason})."""
import json, math, os, sys
sys.path.insert(0, os.environ.get('ALGOPY_REPO', '/repo'))
try:
    import mpmath  # noqa
    import numpy as np
    from algopy import nthderiv as nd
    if not hasattr(nd, 'tan'):
        raise ImportError('nthderiv.tan not exported')
except Exception as ex:
    print(json.dumps({'skipped': '%s: %s' % (type(ex).__name__, ex)}))
    sys.exit(0)


def tan_d(x, n):
    t = math.tan(x)
    s = 1 + t * t
    return [t, s, 2 * t * s, 2 * s * s + 4 * t * t * s, 16 * t * s * s + 8 * t ** 3 * s][n]


def tanh_d(x, n):
    t = math.tanh(x)
    s = 1 - t * t
    return [t, s, -2 * t * s, -2 * s * s + 4 * t * t * s, 16 * t * s * s - 8 * t ** 3 * s][n]


fails = []
for name, ref in (('tan', tan_d), ('tanh', tanh_d)):
    f = getattr(nd, name)
    for x in (1.0, -0.375, 0.25):
        for n in range(5):
            want = ref(x, n)
            forms = {'float': x, 'np.float64': np.float64(x), '0-d array': np.array(x), 'array': np.array([x, x]), 'list': [x]}
            for lab, arg in forms.items():
                try:
                    got = np.ravel(np.asarray(f(arg, n=n), dtype=complex))[0]
                except Exception as ex:
                    fails.append('%s(%s as %s, n=%d) raised %s' % (name, x, lab, n, type(ex).__name__))
                    continue
                if abs(got.imag) > 1e-9 * max(1, abs(want)) or abs(got.real - want) > 1e-9 * max(1.0, abs(want)):
                    fails.append('%s(%s as %s, n=%d) = %r, closed form %r' % (name, x, lab, n, got, want))
print(json.dumps({'ok': not fails, 'failures': fails[:6], 'checked': 2 * 3 * 5 * 5}))
