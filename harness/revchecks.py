"""Reverse-sweep variants of the relational properties (C11 directions, C12 truncation) on generated
tracer programs: the adjoints of the independents, computed by cg.pullback, must commute with
projecting onto one direction / truncating to D' coefficients."""
import numpy as np
from common import *
import programs
from programs import gen_program, run_program, trace

KINDS = ['ew', 'ew', 'bin', 'bin', 'binc', 'getitem', 'sum', 'transpose', 'reshape', 'dot', 'dotc', 'outer', 'prod', 'buffer', 'linalg', 'fftfilter']


def make_case(rng, tier, D=None, P=None):
    prog = gen_program(rng, maxsteps=4 if tier == 'quick' else 7, kinds=KINDS)
    D = D or rng.randint(2, 4)
    P = P or rng.choice([1, 2, 3])
    xs = []
    for sh in prog['inputs']:
        x = rand_coeffs(rng, (D, P) + tuple(sh), -1, 1)
        x[0] = rand_coeffs(rng, (P,) + tuple(sh), -programs.BOX, programs.BOX)
        xs.append(x)
    return {'prog': prog, 'D': D, 'P': P, 'xs': xs, 'seed': rng.randrange(1 << 30)}


def sweep(prog, xs, ybar_fn):
    """returns (y data, [xbar data]) or None"""
    with np.errstate(all='ignore'):
        cg, fx, fy = trace(prog, [UTPM(np.array(x, dtype=float).copy()) for x in xs])
        if not isinstance(fy.x, UTPM):
            return None
        yb = ybar_fn(fy.x.data.shape)
        cg.pullback([UTPM(yb.copy())])
    return np.array(fy.x.data), [np.array(f.xbar.data) for f in fx]


def full_seed(case, shape):
    r = np.random.RandomState(case['seed'])
    yb = np.round(r.uniform(-1, 1, size=shape) * 8) / 8
    yb[yb == 0] = 0.5
    return yb


def direction_adjoint_fails(case):
    prog, D, P = case['prog'], case['D'], case['P']
    xs = [np.array(x) for x in case['xs']]
    try:
        full = sweep(prog, xs, lambda shp: full_seed(case, shp))
    except Exception:
        return None
    if full is None:
        return None
    y, xbars = full
    if not all(np.all(np.isfinite(b)) for b in xbars):
        return None
    ybfull = full_seed(case, y.shape)
    for p in range(P):
        try:
            one = sweep(prog, [x[:, p:p + 1] for x in xs], lambda shp: ybfull[:, p:p + 1])
        except Exception as ex:
            return 'direction-adjoint-exception: the reverse sweep of direction %d alone raised %s' % (p, type(ex).__name__)
        for i, (a, b) in enumerate(zip(xbars, one[1])):
            if not close(a[:, p], b[:, 0], 1e-8):
                return 'direction-adjoint: the adjoint of input %d in direction %d of a %d-direction sweep differs from the sweep of direction %d alone (max diff %s)' % (
                    i, p, P, p, maxdiff(a[:, p], b[:, 0]))
    return None


def truncation_adjoint_fails(case):
    prog, D, P = case['prog'], case['D'], case['P']
    xs = [np.array(x) for x in case['xs']]
    try:
        full = sweep(prog, xs, lambda shp: full_seed(case, shp))
    except Exception:
        return None
    if full is None:
        return None
    y, xbars = full
    if not all(np.all(np.isfinite(b)) for b in xbars):
        return None
    ybfull = full_seed(case, y.shape)
    for Dp in range(1, D):
        try:
            part = sweep(prog, [x[:Dp] for x in xs], lambda shp: ybfull[:Dp])
        except Exception as ex:
            return 'truncation-adjoint-exception: the reverse sweep with D\'=%d raised %s' % (Dp, type(ex).__name__)
        for i, (a, b) in enumerate(zip(xbars, part[1])):
            if not close(a[:Dp], b, 1e-8):
                return 'truncation-adjoint: the first %d adjoint coefficients of input %d computed with D=%d differ from the sweep with D\'=%d (max diff %s)' % (
                    Dp, i, D, Dp, maxdiff(a[:Dp], b))
    return None


# ---------------------------------------------------------------------------------------------
# the same two relations for single registered operations (ops.py): the operation is recorded with
# Function-wrapped operands; generators in ops.py give every direction its own base point, and for
# the LU family its own pivot sequence
def op_sweep(case, ybar_of, extra=None):
    """returns ([y data], [xbar data of the UTPM operands]) or None when the operation cannot be recorded.
    extra='both': every UTPM operand x gets a second consumer x*x recorded AFTER the operation (its adjoint is non-zero
    when the operation's pullback runs); extra='only': a graph with those consumers alone"""
    import ops
    from algopy import CGraph, Function
    with np.errstate(all='ignore'):
        cg = CGraph()
        raw = ops.build_args(case)
        fargs = [Function(a) if isinstance(a, UTPM) else a for a in raw]
        if extra == 'only':
            # the consumers alone: the operation is NOT recorded (its pullback must not touch these adjoints at all)
            outs = [f * f for f in fargs if isinstance(f, Function)]
        else:
            r = ops.OPS[case['op']]['call'](fargs)
            if isinstance(r, Function) and isinstance(r.x, tuple):
                r = [r[i] for i in range(len(r.x))]          # several outputs: one Function per output, as `l, Q = eigh(A)` does
            outs = [o for o in (r if isinstance(r, (tuple, list)) else [r]) if isinstance(o, Function) and isinstance(o.x, UTPM)]
            if extra == 'both':
                if not outs:
                    return None
                outs = outs + [f * f for f in fargs if isinstance(f, Function)]
        cg.trace_off()
        if not outs:
            return None
        cg.independentFunctionList = [f for f in fargs if isinstance(f, Function)]
        cg.dependentFunctionList = outs
        ybs = [ybar_of(i, o.x.data.shape) for i, o in enumerate(outs)]
        cg.pullback([UTPM(yb.copy()) for yb in ybs])
    return [np.array(o.x.data) for o in outs], [np.array(f.xbar.data) for f in cg.independentFunctionList]


def _op_seed(case, i, shape):
    r = np.random.RandomState((case.get('seed', 0) + 7919 * i) % (1 << 31))
    yb = np.round(r.uniform(-1, 1, size=shape) * 8) / 8
    yb[yb == 0] = 0.5
    return yb


def _op_full(case):
    try:
        full = op_sweep(case, lambda i, shp: _op_seed(case, i, shp))
    except Exception:
        return None
    if full is None or not all(np.all(np.isfinite(b)) for b in full[1]):
        return None
    return full


def op_direction_adjoint_fails(case):
    import ops
    full = _op_full(case)
    if full is None:
        return None
    ys, xbars = full
    P = case['P']
    for p in range(P):
        sub = ops.map_U(case, lambda v: v[:, p:p + 1])
        sub['P'] = 1
        try:
            one = op_sweep(sub, lambda i, shp: _op_seed(case, i, ys[i].shape)[:, p:p + 1])
        except Exception as ex:
            return 'direction-adjoint-op-exception-%s: the reverse sweep of direction %d alone raised %s' % (case['op'], p, type(ex).__name__)
        for i, (a, b) in enumerate(zip(xbars, one[1])):
            if not close(a[:, p], b[:, 0], 1e-8):
                return 'direction-adjoint-op-%s: the adjoint of operand %d in direction %d of a %d-direction reverse sweep differs from the sweep of direction %d alone (max diff %s)' % (
                    case['op'], i, p, P, p, maxdiff(a[:, p], b[:, 0]))
    return None


def op_truncation_adjoint_fails(case):
    import ops
    full = _op_full(case)
    if full is None:
        return None
    ys, xbars = full
    D = case['D']
    for Dp in range(1, D):
        sub = ops.map_U(case, lambda v: v[:Dp])
        sub['D'] = Dp
        try:
            part = op_sweep(sub, lambda i, shp: _op_seed(case, i, ys[i].shape)[:Dp])
        except Exception as ex:
            return 'truncation-adjoint-op-exception-%s: the reverse sweep with D\'=%d raised %s' % (case['op'], Dp, type(ex).__name__)
        for i, (a, b) in enumerate(zip(xbars, part[1])):
            if not close(a[:Dp], b, 1e-8):
                return 'truncation-adjoint-op-%s: the first %d adjoint coefficients of operand %d computed with D=%d differ from the sweep with D\'=%d (max diff %s)' % (
                    case['op'], Dp, i, D, Dp, maxdiff(a[:Dp], b))
    return None


def op_superposition_fails(case):
    """the reverse sweep is linear and accumulates: with a second consumer x*x of every operand recorded after the
    operation, xbar(op outputs and consumers seeded) == xbar(op outputs seeded) + xbar(consumers seeded)"""
    try:
        a = op_sweep(case, lambda i, shp: _op_seed(case, i, shp))
        if a is None or not all(np.all(np.isfinite(b)) for b in a[1]):
            return None
        nop = len(a[0])
        b = op_sweep(case, lambda i, shp: _op_seed(case, nop + i, shp), extra='only')
        c = op_sweep(case, lambda i, shp: _op_seed(case, i, shp), extra='both')
    except Exception:
        return None
    if b is None or c is None:
        return None
    for i, (xa, xb, xc) in enumerate(zip(a[1], b[1], c[1])):
        if not (np.all(np.isfinite(xb)) and np.all(np.isfinite(xc))):
            return None
        if not close(xc, xa + xb, 1e-8):
            return ('superposition-%s: the adjoint of operand %d with a second consumer recorded after the operation is not the sum of '
                    'the two separate adjoints (max diff %s): a pullback overwrites instead of accumulating' % (case['op'], i, maxdiff(xc, xa + xb)))
    return None


def _cauchy_pair(a, b):
    D, P = a.shape[:2]
    a2, b2 = a.reshape(D, P, -1), b.reshape(D, P, -1)
    out = np.zeros((D, P))
    for d in range(D):
        for k in range(d + 1):
            out[d] += np.sum(a2[k] * b2[d - k], axis=1)
    return out


# operations that are not differentiable (or whose factors are not unique) at the generated points: rank-deficient and
# full QR, repeated eigenvalues; operations defined on symmetric matrices get symmetric directions
OP_ADJOINT_SKIP = {'det:mixed-cond', 'clip:bounds', 'sign:kink', 'absolute:kink', 'max:ties', 'qr:rankdef', 'qr:eps', 'qr_full', 'eigh1', 'eigh1:mixed', 'eigh:closegap'}
OP_ADJOINT_SYM = {'cholesky', 'eigh', 'eigh:mixed', 'eigh:twice'}


def op_adjoint_fails(case):
    """the adjoint identity of C03 for one registered operation driven through the tracer: with random output adjoints ybar_i
    and input directions v_j, sum_j <xbar_j, v_j> == sum_i <ybar_i, F_i'(x) v> modulo t^D, the tangent F'(x) v taken from
    forward propagation alone (degree doubling: coefficients D..2D-1 of F(x + t^D v) - F(x))"""
    import ops
    if case['op'] in OP_ADJOINT_SKIP:
        return None
    full = _op_full(case)
    if full is None:
        # a documented refusal (NotImplementedError, an assertion naming the unsupported case) is what the property allows;
        # a dtype CASTING error inside a pullback is not a refusal but a pullback that does not complete
        try:
            op_sweep(case, lambda i, shp: _op_seed(case, i, shp))
        except Exception as ex:
            if 'Cannot cast ufunc' in str(ex):
                return 'adjoint-op-casting-%s: the reverse sweep raised a dtype casting error (real operand next to a complex intermediate); the library provides this pullback' % case['op']
        return None
    ys, xbars = full
    D, P = case['D'], case['P']
    r = np.random.RandomState(case.get('seed', 0) % (1 << 31))
    vs = []
    sym = case['op'] in OP_ADJOINT_SYM

    def pad(a):
        z = np.zeros((2 * D,) + a.shape[1:])
        z[:D] = a
        return z

    def pad_v(a):
        v = np.round(r.uniform(-1, 1, size=a.shape) * 8) / 8
        if sym and v.ndim == 4 and v.shape[2] == v.shape[3]:
            v = (v + v.transpose(0, 1, 3, 2)) / 2           # the operation is defined on symmetric matrices only
        vs.append(v)
        z = pad(a)
        z[D:] = v
        return z
    try:
        with np.errstate(all='ignore'):
            s2, y2 = ops.call(ops.map_U(case, lambda a: pad(np.array(a, dtype=float))))
            s3, y3 = ops.call(ops.map_U(case, lambda a: pad_v(np.array(a, dtype=float))))
    except Exception:
        return None
    if s2 != 'ok' or s3 != 'ok':
        return None
    y2 = [o for o in y2 if isinstance(o, np.ndarray) and o.ndim >= 2 and o.shape[0] == 2 * D]
    y3 = [o for o in y3 if isinstance(o, np.ndarray) and o.ndim >= 2 and o.shape[0] == 2 * D]
    if len(y2) != len(ys) or len(vs) != len(xbars) or any(a.shape[1:] != b.shape[1:] for a, b in zip(y2, ys)):
        return None
    if not all(np.all(np.isfinite(a)) and np.all(np.isfinite(b)) for a, b in zip(y2, y3)):
        return None
    if any(np.iscomplexobj(a) for a in list(ys) + list(xbars) + list(y2) + list(y3)):
        return None          # complex values: the real inner product below does not apply (covered by the fft programs)
    lhs = sum(_cauchy_pair(xb, v) for xb, v in zip(xbars, vs))
    rhs = sum(_cauchy_pair(_op_seed(case, i, ys[i].shape), (y3[i] - y2[i])[D:]) for i in range(len(ys)))
    if case['op'] == 'eigh:mixed':
        # one direction has an exactly repeated eigenvalue at its base point (eigenvectors not differentiable there): the identity
        # is required in the other directions, whose adjoints must not be affected by the degenerate one
        x0 = np.array([a['v'] for a in case['args'] if a['k'] == 'U'][0], dtype=float)[0]
        ok = [p for p in range(P) if np.min(np.diff(np.linalg.eigvalsh(x0[p]))) > 0.1]
        if not ok:
            return None
        lhs, rhs = lhs[:, ok], rhs[:, ok]
    scale = max(1.0, float(np.max(np.abs(lhs))), float(np.max(np.abs(rhs))))
    if np.max(np.abs(lhs - rhs)) > 1e-7 * scale:
        d_bad = int(np.argmax(np.max(np.abs(lhs - rhs), axis=1) > 1e-7 * scale))
        return "adjoint-op-%s: <xbar,v> != <ybar,F'(x)v> at order %d (%.6g vs %.6g)" % (case['op'], d_bad, lhs[d_bad].ravel()[0], rhs[d_bad].ravel()[0])
    return None


def reversible_ops(for_truncation=True):
    import ops
    return [n for n in sorted(ops.OPS) if not n.startswith('ibin') and (not for_truncation or 'no-trunc' not in ops.OPS[n]['tags'])]


def svd_rankdef_sweeps_fail(case):
    """svd of a rank-deficient matrix (M <= N, a vanishing singular value) recorded once: several reverse sweeps with different
    seeds after ONE forward evaluation each give the adjoint a fresh graph gives, and the forward values (s in particular)
    are what they were before the sweeps -- also for a direct call of UTPM.pb_svd (arguments unchanged)"""
    A = np.array(case['A'])
    seeds = [np.array(sd) for sd in case['seeds']]

    def record():
        cg = algopy.CGraph()
        fa = algopy.Function(UTPM(A.copy()))
        U_, s_, V_ = algopy.svd(fa)
        cg.trace_off()
        cg.independentFunctionList = [fa]
        cg.dependentFunctionList = [s_]
        return cg, fa, s_
    try:
        with np.errstate(all='ignore'):
            cg, fa, fs = record()
            s_before = np.array(fs.x.data)
            for k, sd in enumerate(seeds):
                cg.pullback([UTPM(sd.copy())])
                got = np.array(fa.xbar.data)
                cg2, fa2, fs2 = record()
                cg2.pullback([UTPM(sd.copy())])
                want = np.array(fa2.xbar.data)
                if not np.array_equal(np.array(fs.x.data), s_before):
                    return 'svd-rankdef-forward-value: the singular values held by the graph changed during reverse sweep %d (%s -> %s)' % (
                        k + 1, s_before.ravel().tolist()[:4], np.array(fs.x.data).ravel().tolist()[:4])
                if not (np.all(np.isfinite(got)) == np.all(np.isfinite(want))) or not close(got, want, 1e-9):
                    return 'svd-rankdef-sweep: reverse sweep %d after one forward evaluation differs from the same sweep on a fresh graph' % (k + 1)
            # direct call of the pullback: no argument is modified
            a = UTPM(A.copy())
            U_, s_, V_ = UTPM.svd(a)
            args = [UTPM(np.zeros_like(U_.data)), UTPM(seeds[0].copy()), UTPM(np.zeros_like(V_.data)), a, U_, s_, V_]
            before = [np.array(z.data) for z in args]
            UTPM.pb_svd(*args)
            for nm, z, b in zip(('Ubar', 'sbar', 'Vbar', 'A', 'U', 's', 'V'), args, before):
                if not np.array_equal(z.data, b, equal_nan=True):
                    return 'svd-rankdef-pb-mutates: UTPM.pb_svd modified its argument %s' % nm
    except Exception as ex:
        return 'svd-rankdef-exception: %s' % (type(ex).__name__ + ':' + str(ex)[:80])
    return None


def svd_rankdef_case(rng):
    D, P = rng.choice([(1, 1), (2, 1), (2, 2)])
    m, n = rng.choice([(2, 3), (2, 2), (2, 4)])
    A = rand_coeffs(rng, (D, P, m, n), -1, 1)
    for p in range(P):
        u = rand_coeffs(rng, (m, 1), -1, 1) + 1.5
        v = rand_coeffs(rng, (1, n), -1, 1) + 1.5
        A[0, p] = u @ v                                    # rank one: one singular value vanishes
    return {'op': 'svd-rankdef', 'D': D, 'P': P, 'A': A, 'seeds': [rand_coeffs(rng, (D, P, m), -1, 1) + 0.125 for _ in range(3)]}
