"""Reverse-sweep variants of the relational properties (C11 directions, C12 truncation) on generated
tracer programs: the adjoints of the independents, computed by cg.pullback, must commute with
projecting onto one direction / truncating to D' coefficients."""
import numpy as np
from common import *
import programs
from programs import gen_program, run_program, trace

KINDS = ['ew', 'ew', 'bin', 'bin', 'binc', 'getitem', 'sum', 'transpose', 'reshape', 'dot', 'dotc', 'outer', 'prod', 'buffer', 'linalg']


def make_case(rng, tier, D=None, P=None):
    prog = gen_program(rng, maxsteps=4 if tier == 'quick' else 7, kinds=KINDS)
    D = D or rng.randint(2, 4)
    P = P or rng.choice([1, 2, 3])
    xs = []
    for sh in prog['inputs']:
        x = rand_coeffs(rng, (D, P) + tuple(sh), -1, 1)
        x[0] = rand_coeffs(rng, (P,) + tuple(sh), -programs.BOX, programs.BOX)
        xs.append(x)
    return {'prog': prog, 'D': D, 'P': P, 'xs': xs, 'seed': rng.randrange(1 << 30)}


def sweep(prog, xs, ybar_fn):
    """returns (y data, [xbar data]) or None"""
    with np.errstate(all='ignore'):
        cg, fx, fy = trace(prog, [UTPM(np.array(x, dtype=float).copy()) for x in xs])
        if not isinstance(fy.x, UTPM):
            return None
        yb = ybar_fn(fy.x.data.shape)
        cg.pullback([UTPM(yb.copy())])
    return np.array(fy.x.data), [np.array(f.xbar.data) for f in fx]


def full_seed(case, shape):
    r = np.random.RandomState(case['seed'])
    yb = np.round(r.uniform(-1, 1, size=shape) * 8) / 8
    yb[yb == 0] = 0.5
    return yb


def direction_adjoint_fails(case):
    prog, D, P = case['prog'], case['D'], case['P']
    xs = [np.array(x) for x in case['xs']]
    try:
        full = sweep(prog, xs, lambda shp: full_seed(case, shp))
    except Exception:
        return None
    if full is None:
        return None
    y, xbars = full
    if not all(np.all(np.isfinite(b)) for b in xbars):
        return None
    ybfull = full_seed(case, y.shape)
    for p in range(P):
        try:
            one = sweep(prog, [x[:, p:p + 1] for x in xs], lambda shp: ybfull[:, p:p + 1])
        except Exception as ex:
            return 'direction-adjoint-exception: the reverse sweep of direction %d alone raised %s' % (p, type(ex).__name__)
        for i, (a, b) in enumerate(zip(xbars, one[1])):
            if not close(a[:, p], b[:, 0], 1e-8):
                return 'direction-adjoint: the adjoint of input %d in direction %d of a %d-direction sweep differs from the sweep of direction %d alone (max diff %s)' % (
                    i, p, P, p, maxdiff(a[:, p], b[:, 0]))
    return None


def truncation_adjoint_fails(case):
    prog, D, P = case['prog'], case['D'], case['P']
    xs = [np.array(x) for x in case['xs']]
    try:
        full = sweep(prog, xs, lambda shp: full_seed(case, shp))
    except Exception:
        return None
    if full is None:
        return None
    y, xbars = full
    if not all(np.all(np.isfinite(b)) for b in xbars):
        return None
    ybfull = full_seed(case, y.shape)
    for Dp in range(1, D):
        try:
            part = sweep(prog, [x[:Dp] for x in xs], lambda shp: ybfull[:Dp])
        except Exception as ex:
            return 'truncation-adjoint-exception: the reverse sweep with D\'=%d raised %s' % (Dp, type(ex).__name__)
        for i, (a, b) in enumerate(zip(xbars, part[1])):
            if not close(a[:Dp], b, 1e-8):
                return 'truncation-adjoint: the first %d adjoint coefficients of input %d computed with D=%d differ from the sweep with D\'=%d (max diff %s)' % (
                    Dp, i, D, Dp, maxdiff(a[:Dp], b))
    return None
