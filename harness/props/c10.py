"""C10 — zeroth coefficient, shapes and comparisons follow NumPy.

Oracle on the implementation: for every registered public operation, op(x).data[0,p] equals
the NumPy/SciPy reference applied to the zeroth coefficients of direction p, with the same
shape/len/size/ndim; comparison operators equal numpy.all of the comparison of zeroth
coefficients; dispatchers called with plain arrays return exactly NumPy's result.
Correspondence: coefficient 0 of the model equals the same reference (kernels of C01/C02)."""
import operator
import numpy as np
import scipy.linalg
from common import *
import ops
from props import c01

RULE = ('cases = (operation, D, P, shapes, values) from ops.py + comparison cases + plain-array dispatcher cases; '
        'non-trivial = D>=2 with a non-zero higher coefficient (the zeroth coefficient must be unaffected by it); distinct by hash')
ASSUMPTIONS = ['references: numpy / numpy.linalg / scipy.linalg / scipy.special functions of the same name',
               'factor matrices fixed only up to sign/layout (eig, svd) are excluded here and covered by C08']

UNIQUE_FACTOR = {'qr', 'qr_full', 'cholesky', 'lu', 'eigh'}

# element-wise functions whose zeroth coefficient is the very NumPy/SciPy function applied to x_0: exact equality,
# also at base points of tiny magnitude (where e.g. log1p / expm1 differ from log(1+x) / exp(x)-1)
EXACT_ZEROTH = {'exp', 'expm1', 'log', 'log1p', 'sqrt', 'sin', 'cos', 'tan', 'arcsin', 'arccos', 'arctan', 'sinh', 'cosh', 'tanh',
                'erf', 'erfi', 'dawsn', 'gammaln', 'psi', 'expit', 'absolute', 'negative', 'square', 'reciprocal'}


def tiny_base_points(rng, case):
    """put a few base points of tiny magnitude into an element-wise case (where the domain allows it)"""
    name = case['op'][3:]
    dom = c01.TABLE[name]['dom']
    if dom not in ('any', 'small', 'tan', 'unit', 'pos') or name in ('log', 'sqrt', 'reciprocal', 'gammaln', 'psi', 'pow_real', 'pow_negint'):
        return
    x = np.array(case['args'][0]['v'])
    flat = x[0].reshape(-1)
    for _ in range(rng.randint(1, 2)):
        v = rng.choice([1e-10, 3e-17, 1e-30, 2.5e-9])
        if dom != 'pos' and rng.random() < 0.5:
            v = -v
        flat[rng.randrange(flat.size)] = v
    case['args'][0]['v'] = x


def layout_fails(case):
    """the value of a public operation depends on the values of its arguments only, not on their memory layout:
    the same data handed over Fortran-ordered (what A.T gives) or as a strided view gives the same result"""
    from props.c14 import relayout
    st, out = ops.call(case)
    if st != 'ok':
        return None
    for layout in ('F', 'strided'):
        args = ops.build_args(case)
        args = [UTPM(relayout(a.data, layout)) if isinstance(a, UTPM) and a.data.ndim >= 3 else
                (relayout(a, layout) if isinstance(a, np.ndarray) else a) for a in args]
        st2, out2 = ops.call(case, args)
        if st2 != 'ok':
            return 'layout-exception-%s: raises %s for %s-layout arguments, not for C-ordered ones' % (case['op'], out2, layout)
        if len(out) != len(out2):
            return 'layout-arity-%s' % case['op']
        for i, (a, b) in enumerate(zip(out, out2)):
            if isinstance(a, np.ndarray) and isinstance(b, np.ndarray):
                if a.shape != b.shape:
                    return 'layout-shape-%s: output %d has shape %s for %s-layout arguments, %s for C-ordered ones' % (case['op'], i, b.shape, layout, a.shape)
                if np.all(np.isfinite(a)) and not close(a, b, tol=1e-9):
                    return 'layout-value-%s: output %d differs between %s-layout and C-ordered arguments holding the same values (max diff %s)' % (
                        case['op'], i, layout, maxdiff(a, b))
    return None


INT_PROBES = {'sqrt': (algopy.sqrt, np.sqrt), 'exp': (algopy.exp, np.exp), 'sin': (algopy.sin, np.sin), 'tanh': (algopy.tanh, np.tanh),
              'reciprocal': (lambda x: 1 / x, lambda a: 1 / a), 'truediv': (lambda x: x / x[::-1], lambda a: a / a[::-1]),
              'log': (algopy.log, np.log), 'inv': (lambda x: algopy.inv(algopy.reshape(algopy.tile(x, 2), (2, 2)) + np.eye(2) * 5),
                                                     lambda a: np.linalg.inv(np.tile(a, 2).reshape(2, 2) + np.eye(2) * 5))}


def intdtype_fails(case):
    """a polynomial whose coefficient array has an integer dtype (UTPM(numpy.array([[2, 3]])...)): the zeroth coefficient of the
    result is what NumPy returns for the integer zeroth coefficient (NumPy promotes to float)"""
    name = case['op'].split(':', 1)[1]
    f, g = INT_PROBES[name]
    x = np.array(case['x'], dtype=int)
    try:
        with np.errstate(all='ignore'):
            y = f(UTPM(x.copy()))
    except Exception as ex:
        return 'intdtype-exception-%s: raises %s on integer-typed coefficients although NumPy accepts the integer zeroth coefficient' % (name, type(ex).__name__)
    for p in range(x.shape[1]):
        ref = np.asarray(g(x[0, p]))
        if y.data[0, p].shape != ref.shape or not np.allclose(np.asarray(y.data[0, p], dtype=float), ref, rtol=1e-12, atol=1e-12):
            return 'intdtype-%s: integer-typed coefficients: the zeroth coefficient %s is not the NumPy result %s (truncated to integers)' % (
                name, np.asarray(y.data[0, p]).tolist(), ref.tolist())
    return None


# recorded (not repaired) defect: see known_findings.json K-int-dtype
FINDINGS = {'K-int-dtype': lambda case, what: str(case.get('op', '')).startswith('intdtype:') and what.startswith('intdtype-')}


def zeroth_fails(case):
    o = ops.OPS[case['op']]
    if o['ref'] is None:
        return None
    st, out = ops.call(case)
    args = ops.build_args(case)
    if st != 'ok':
        # NumPy accepts these arguments (zeroth coefficients) but the overloaded function raises
        try:
            with np.errstate(all='ignore'):
                ref = o['ref']([a.data[0, 0] if isinstance(a, UTPM) else a for a in args])
        except Exception:
            return None
        if ref is None:
            return None
        return 'exception-%s: raises %s although NumPy accepts the same arguments' % (case['op'], out)
    for p in range(case['P']):
        z = [a.data[0, p] if isinstance(a, UTPM) else a for a in args]
        try:
            with np.errstate(all='ignore'):
                ref = o['ref'](z)
        except Exception as ex:
            return None
        if ref is None:
            return None
        refs = list(ref) if isinstance(ref, tuple) else [ref]
        if len(refs) != len(out):
            return 'arity-%s: %d outputs, NumPy reference has %d' % (case['op'], len(out), len(refs))
        for i, (a, r) in enumerate(zip(out, refs)):
            r = np.asarray(r)
            if a.ndim < 2:
                return 'shape-%s: output %d is not a (D,P)+shape array' % (case['op'], i)
            if a.shape[2:] != r.shape:
                return 'shape-%s: output %d has coefficient shape %s, NumPy gives %s' % (case['op'], i, a.shape[2:], r.shape)
            if a.shape[1] <= p:
                return 'shape-%s: output %d has %d direction(s), the operands have %d' % (case['op'], i, a.shape[1], case['P'])
            if case['op'].startswith('ew:') and case['op'][3:] in EXACT_ZEROTH and not np.array_equal(np.asarray(a[0, p]), r):
                return 'zeroth-exact-%s: direction %d: the zeroth coefficient is not exactly what the NumPy/SciPy function returns for x_0 (max relative diff %s)' % (
                    case['op'], p, float(np.max(np.abs(np.asarray(a[0, p]) - r) / np.maximum(np.abs(r), 1e-300))))
            if not close(a[0, p], r, tol=1e-10):
                return 'zeroth-%s: output %d, direction %d: zeroth coefficient differs from the NumPy/SciPy result (max diff %s)' % (
                    case['op'], i, p, maxdiff(a[0, p], r))
    return None


def shape_attrs_fail(rng):
    shape = rand_shape(rng, 3, 3)
    D, P = rng.randint(1, 4), rng.randint(1, 3)
    x = UTPM(rand_coeffs(rng, (D, P) + shape, -2, 2))
    ref = np.zeros(shape)
    case = {'op': 'attrs', 'D': D, 'P': P, 'shape': list(shape)}
    if x.shape != ref.shape or x.size != ref.size or x.ndim != ref.ndim:
        return case, 'attrs: shape/size/ndim %s/%s/%s differ from NumPy %s/%s/%s' % (x.shape, x.size, x.ndim, ref.shape, ref.size, ref.ndim)
    if ref.ndim >= 1 and len(x) != len(ref):
        return case, 'attrs: len %d differs from NumPy %d' % (len(x), len(ref))
    return case, None


def traced_fails(case):
    """the same operation on traced operands (Function nodes): the node's value, shape and zeroth coefficient are those of
    the direct call"""
    from algopy import CGraph, Function
    st, direct = ops.call(case)
    if st != 'ok':
        return None
    try:
        with np.errstate(all='ignore'):
            cg = CGraph()
            raw = ops.build_args(case)
            fargs = [Function(a) if isinstance(a, UTPM) else a for a in raw]
            r = ops.OPS[case['op']]['call'](fargs)
            cg.trace_off()
    except Exception:
        return None          # not every operation can be recorded (C03 allows raising at recording time)
    if isinstance(r, Function) and isinstance(r.x, tuple):
        r = list(r.x)
    outs = r if isinstance(r, (list, tuple)) else [r]
    vals = []
    for o in outs:
        v = o.x if isinstance(o, Function) else o
        vals.append(np.array(v.data) if isinstance(v, UTPM) else v)
    if len(vals) != len(direct):
        return 'traced-arity-%s: %d outputs when traced, %d when called directly' % (case['op'], len(vals), len(direct))
    for i, (a, b) in enumerate(zip(vals, direct)):
        if isinstance(b, np.ndarray):
            if not isinstance(a, np.ndarray) or a.shape != b.shape:
                return 'traced-shape-%s: output %d of the traced call has shape %s, the direct call %s' % (case['op'], i, getattr(a, 'shape', None), b.shape)
            if case['op'].startswith('expm_higham') and close(a, b, 1e-13):
                continue           # a traced argument takes the branch-free order 13: another approximant of the same accuracy (rounding)
            if not np.array_equal(a, b, equal_nan=True):
                return 'traced-value-%s: output %d of the traced call differs from the direct call (max diff %s)' % (case['op'], i, maxdiff(a, b))
    return None


CMP = {'lt': operator.lt, 'le': operator.le, 'gt': operator.gt, 'ge': operator.ge, 'eq': operator.eq}


def cmp_case(rng):
    shape = rand_shape(rng, 2, 3)
    D, P = rng.randint(1, 4), rng.randint(1, 3)
    x = rand_coeffs(rng, (D, P) + shape, -1, 1, bits=1) if False else np.round(rand_coeffs(rng, (D, P) + shape, -1, 1) * 2) / 2
    mode = rng.choice(['equal', 'shift', 'random', 'scalar', 'rank'])
    if mode == 'rank' and len(shape) == 0:
        mode = 'random'
    if mode == 'rank':
        # operands of different rank (a polynomial compared with one of its rows / a scalar polynomial): NumPy broadcasting
        # within every direction
        ysh = shape[rng.randint(1, len(shape)):]
        y = np.round(rand_coeffs(rng, (D, P) + tuple(ysh), -1, 1) * 2) / 2
        if rng.random() < 0.5:
            y[0] = x[0].reshape((P, -1) + tuple(ysh)).min(axis=1) - rng.choice([0.0, 0.5])       # a lower bound of every entry
    elif mode == 'equal':
        y = x.copy()
    elif mode == 'shift':
        y = x + rng.choice([-0.5, 0.5])
        if rng.random() < 0.5 and y[0].size:
            y[0].reshape(-1)[rng.randrange(y[0].size)] = x[0].reshape(-1)[0]
    else:
        y = np.round(rand_coeffs(rng, (D, P) + shape, -1, 1) * 2) / 2
    # higher coefficients must not matter
    y[1:] = rand_coeffs(rng, y[1:].shape, -3, 3)
    if rng.random() < 0.2 and x[0].size:
        # special values in a zeroth coefficient: NumPy's comparisons with nan are all False (so `x <= y` is not `not (x > y)`), inf orders as usual
        tgt = x if rng.random() < 0.5 else y
        tgt[0].reshape(-1)[rng.randrange(tgt[0].size)] = rng.choice([float('nan'), float('inf'), float('-inf'), float('nan')])
    return {'op': 'cmp', 'cmp': rng.choice(sorted(CMP)), 'mode': mode, 'D': D, 'P': P, 'x': x, 'y': y,
            'scalar': rng.choice([-0.5, 0.0, 0.5]), 'swap': rng.random() < 0.5}


def cmp_fails(case):
    x, y = UTPM(np.array(case['x'])), UTPM(np.array(case['y']))
    f = CMP[case['cmp']]
    if case['mode'] == 'self':
        # the polynomial compared with ITSELF (the same object: the usual NaN test `x == x`)
        got = bool(f(x, x))
        want = bool(np.all(f(x.data[0], x.data[0])))
    elif case['mode'] == 'scalar':
        got = bool(f(x, case['scalar']))
        want = bool(np.all(f(x.data[0], case['scalar'])))
    elif case['mode'] == 'rank':
        sw = case.get('swap')
        a, b = (y, x) if sw else (x, y)
        try:
            got = bool(f(a, b))
        except Exception as ex:
            return 'compare-%s-exception: comparing polynomials of shapes %s and %s raised %s' % (case['cmp'], a.shape, b.shape, type(ex).__name__)
        want = all(bool(np.all(f(a.data[0, p], b.data[0, p]))) for p in range(x.data.shape[1]))
    else:
        got = bool(f(x, y))
        want = bool(np.all(f(x.data[0], y.data[0])))
    if got != want:
        return 'compare-%s: bool(x %s y) = %s, numpy.all on zeroth coefficients = %s' % (case['cmp'], case['cmp'], got, want)
    return None


PLAIN = ['exp', 'expm1', 'log', 'log1p', 'sqrt', 'sin', 'cos', 'tan', 'arcsin', 'arccos', 'arctan', 'sinh', 'cosh', 'tanh',
         'sign', 'absolute', 'square', 'negative', 'reciprocal', 'trace', 'diag', 'triu', 'tril', 'conjugate', 'transpose']
PLAIN_LINALG = ['inv', 'det', 'cholesky', 'qr', 'eigh']


def plain_case(rng):
    name = rng.choice(PLAIN + PLAIN_LINALG + ['dot', 'outer', 'sum', 'prod', 'solve', 'minimum', 'maximum', 'zeros', 'ones',
                                             'logdet', 'real', 'imag'])
    n = rng.randint(1, 3)
    a = np.abs(rand_coeffs(rng, (n, n), -1, 1)) * 0.4 + 0.1
    if name in PLAIN_LINALG or name in ('solve', 'logdet'):
        a = a @ a.T + n * np.eye(n)
    return {'op': 'plain', 'name': name, 'a': a, 'b': np.abs(rand_coeffs(rng, (n, n), -1, 1)) + 0.5}


PLAIN_ARGS = {
    # calls with the further arguments of the NumPy function (positional and by keyword) on plain arrays
    'transpose-axes': (lambda m, a: m.transpose(a, axes=(1, 0)), 'transpose'), 'transpose-axes-pos': (lambda m, a: m.transpose(a, (1, 0)), 'transpose'),
    'reshape-order-F': (lambda m, a: m.reshape(a, (a.size,), 'F'), 'reshape'), 'reshape-order-kw': (lambda m, a: m.reshape(a, (a.size,), order='C'), 'reshape'),
    'conjugate-out': (lambda m, a: m.conjugate(a + 1j * a, out=np.zeros(a.shape, dtype=complex)), 'conjugate'),
    'diag-k': (lambda m, a: m.diag(a, k=1), 'diag'), 'triu-k': (lambda m, a: m.triu(a, k=-1), 'triu'), 'tril-k': (lambda m, a: m.tril(a, 1), 'tril'),
    'trace-offset': (lambda m, a: m.trace(a, offset=0), 'trace'), 'tile-reps': (lambda m, a: m.tile(a, (2, 1)), 'tile'),
    'sum-axis': (lambda m, a: m.sum(a, axis=0), 'sum'), 'exp-scalar': (lambda m, a: m.exp(a[0, 0]), 'exp'), 'sqrt-npscalar': (lambda m, a: m.sqrt(np.float64(a[0, 0])), 'sqrt'),
}


def plain_fails(case):
    name = case['name']
    a, b = np.array(case['a']), np.array(case['b'])
    if name in PLAIN_ARGS:
        f, fn = PLAIN_ARGS[name]
        want = f(np, a)
        try:
            got = f(algopy, a)
        except Exception as ex:
            return 'plain-%s: algopy.%s on a plain array with the arguments NumPy accepts raised %s' % (name, fn, type(ex).__name__ + ':' + str(ex)[:80])
        if isinstance(got, UTPM) or np.shape(got) != np.shape(want) or not np.array_equal(np.asarray(got), np.asarray(want)):
            return 'plain-%s: algopy.%s on a plain array differs from the NumPy function of the same name' % (name, fn)
        return None
    try:
        if name in PLAIN:
            got, want = getattr(algopy, name)(a), getattr(np, name)(a)
        elif name in PLAIN_LINALG:
            got, want = getattr(algopy, name)(a), getattr(np.linalg, name)(a)
        elif name in ('dot', 'outer', 'minimum', 'maximum'):
            got, want = getattr(algopy, name)(a, b), getattr(np, name)(a, b)
        elif name == 'solve':
            got, want = algopy.solve(a, b), np.linalg.solve(a, b)
        elif name in ('sum', 'prod', 'real', 'imag'):
            got, want = getattr(algopy, name)(a), getattr(np, name)(a)
        elif name in ('zeros', 'ones'):
            # every way NumPy lets the caller name a dtype (type object, NumPy scalar type, dtype object, string), and none
            dts = {'float': float, 'int': int, 'complex': complex, 'np.float32': np.float32, 'dtype-f4': np.dtype('f4'), 'str-f8': 'f8',
                   'str-int32': 'int32', 'str-complex': 'complex128', 'None': None}
            sh = [(2, 3), 3, (0,), [2, 2]][int(1000 * a[0, 0]) % 4]
            for dn, dt in sorted(dts.items()):
                got, want = getattr(algopy, name)(sh, dtype=dt), getattr(np, name)(sh, dtype=dt)
                if isinstance(got, UTPM) or np.asarray(got).dtype != want.dtype or not np.array_equal(got, want):
                    return 'plain-%s: algopy.%s(%s, dtype=%s) is not what numpy.%s returns (dtype %s instead of %s)' % (
                        name, name, sh, dn, name, np.asarray(got).dtype, want.dtype)
            got, want = getattr(algopy, name)(sh), getattr(np, name)(sh)
        elif name == 'logdet':
            got, want = algopy.logdet(a), np.linalg.slogdet(a)[1]
        else:
            return None
    except Exception as ex:
        return 'plain-%s: algopy.%s on plain arrays raised %s' % (name, name, type(ex).__name__ + ':' + str(ex)[:80])
    gs = list(got) if isinstance(got, tuple) else [got]
    ws = list(want) if isinstance(want, tuple) else [want]
    for g, w in zip(gs, ws):
        if isinstance(g, UTPM) or not np.array_equal(np.asarray(g), np.asarray(w)) or (name in ('zeros', 'ones') and np.asarray(g).dtype != np.asarray(w).dtype):
            return 'plain-%s: algopy.%s(ndarray) differs from the NumPy function of the same name' % (name, name)
    return None


def eig_case(rng):
    n = rng.randint(1, 3)
    D, P = rng.randint(1, 2), rng.randint(1, 2)
    kind = rng.choice(['real', 'hermitian', 'hermitian'])
    x = rand_coeffs(rng, (D, P, n, n), -1, 1)
    if kind == 'real':
        for p in range(P):
            V = rand_coeffs(rng, (n, n), -1, 1) + 2 * np.eye(n)
            x[0, p] = V @ np.diag(np.array(rng.sample([-2., -1., 0.5, 1.5, 3.], n))) @ np.linalg.inv(V)
    else:
        x = x + 1j * rand_coeffs(rng, x.shape, -1, 1)
        x = (x + np.conj(np.swapaxes(x, 2, 3))) / 2
        for p in range(P):
            x[0, p] += np.diag(np.array(rng.sample([-2., -1., 0.5, 1.5, 3.], n)))
    return {'op': 'eig0', 'kind': kind, 'D': D, 'P': P, 'x': x}


def eig_fails(case):
    """eig: eigenvectors are fixed only up to scaling, so the zeroth coefficients are compared through what NumPy's result
    satisfies as well: the eigenvalues are NumPy's (as a set) and A_0 Q_0 = Q_0 diag(lambda_0) with an invertible Q_0"""
    x = np.array(case['x'])
    try:
        l, Q = algopy.eig(UTPM(x.copy()))
    except Exception as ex:
        return 'eig0-exception: %s' % (type(ex).__name__ + ':' + str(ex)[:80])
    for p in range(x.shape[1]):
        l0, Q0, A0 = l.data[0, p], Q.data[0, p], x[0, p]
        w = np.linalg.eigvals(A0)
        if l0.shape != w.shape or not np.allclose(np.sort_complex(l0.astype(complex)), np.sort_complex(w.astype(complex)), atol=1e-9):
            return 'eig0-values: the zeroth coefficient of the eigenvalues is not numpy.linalg.eigvals(A_0) (direction %d, %s input)' % (p, case['kind'])
        if not np.allclose(A0 @ Q0, Q0 * l0[None, :], atol=1e-9) or abs(np.linalg.det(Q0)) < 1e-8:
            return 'eig0-vectors: the zeroth coefficients do not satisfy A_0 Q_0 = Q_0 diag(lambda_0) with invertible Q_0 (direction %d, %s input, Q dtype %s)' % (
                p, case['kind'], Q.data.dtype)
    return None


def replay_case(ctx, case):
    if case.get('op') == 'eig0':
        return eig_fails(case)
    if case.get('op') == 'cmp':
        return cmp_fails(case)
    if case.get('op') == 'plain':
        return plain_fails(case)
    if case.get('op') == 'attrs':
        return None
    if 'fn' in case:
        return c01.run_case(ctx, case)
    if str(case.get('op', '')).startswith('intdtype:'):
        return intdtype_fails(case)
    return zeroth_fails(case) or traced_fails(case) or layout_fails(case)


def run(ctx):
    # polynomials with an integer coefficient dtype (recorded finding K-int-dtype while it lasts)
    for name in sorted(INT_PROBES):
        for k in range(2):
            case = {'op': 'intdtype:' + name, 'D': 2, 'P': 2, 'x': np.array([[[2, 3], [3, 2]], [[1, 1], [1, 2]]]) + k}
            ctx.evaluations += 1
            ctx.count('int-dtype-probe')
            f = intdtype_fails(case)
            if f:
                ctx.report(case, 'failure', f)
    names = sorted(ops.OPS)
    n = len(names) * (25 if ctx.tier == "quick" else 200)
    for i in range(n):
        name = names[i % len(names)]
        case = ops.gen_case(ctx.rng, ctx.tier, name)
        if name.startswith('ew:') and name[3:] in EXACT_ZEROTH and ctx.rng.random() < 0.4 and np.array(case['args'][0]['v'])[0].size:
            tiny_base_points(ctx.rng, case)
            ctx.count('tiny-base-point')
        ctx.evaluations += 1
        ctx.count('op=' + case['op'].split(':')[0], 'D=%d' % case['D'])
        h = canon_hash(to_jsonable(case))
        if h not in ctx.hashes:
            ctx.hashes.add(h)
            if ops.nontrivial(case):
                ctx.nontrivial += 1
        if len(ctx.samples) < 3 and ops.nontrivial(case):
            ctx.samples.append(to_jsonable(case))
        f = zeroth_fails(case) or (traced_fails(case) if not case['op'].startswith('ibin') else None) or (
            layout_fails(case) if not case['op'].startswith('ibin') else None)
        if f:
            ctx.report(case, 'failure', f)
    for i in range(150 if ctx.tier == 'quick' else 2000):
        case = cmp_case(ctx.rng)
        ctx.evaluations += 1
        ctx.count('cmp=' + case['cmp'], 'cmpmode=' + case['mode'])
        f = cmp_fails(case)
        if f:
            ctx.report(case, 'failure', f)
    # every comparison x every special value (nan, +inf, -inf) in either operand, all other elements satisfying the comparison
    for cmpn in sorted(CMP):
        for special in (float('nan'), float('inf'), float('-inf')):
            for where in ('x', 'y', 'scalar-x'):
                D, P = ctx.rng.randint(1, 3), ctx.rng.randint(1, 2)
                x = np.round(rand_coeffs(ctx.rng, (D, P, 3), -1, 1) * 2) / 2
                y = x.copy()
                y[0] += {'lt': 1.0, 'le': 0.0, 'gt': -1.0, 'ge': 0.0, 'eq': 0.0}[cmpn]
                if where == 'scalar-x':
                    x[0] = 0.0 if cmpn in ('le', 'ge', 'eq') else (-1.0 if cmpn == 'lt' else 1.0)
                (y if where == 'y' else x)[0, P - 1, 1] = special
                case = {'op': 'cmp', 'cmp': cmpn, 'mode': 'scalar' if where == 'scalar-x' else 'special', 'D': D, 'P': P, 'x': x, 'y': y, 'scalar': 0.0}
                ctx.evaluations += 1
                ctx.count('cmp-special')
                f = cmp_fails(case)
                if f:
                    ctx.report(case, 'failure', f)
    # every comparison of a polynomial with itself (the same object), with and without a special value in the zeroth coefficient
    for cmpn in sorted(CMP):
        for special in (None, float('nan'), float('inf'), float('-inf')):
            for shp in ((), (3,), (2, 2)):
                D, P = ctx.rng.randint(1, 3), ctx.rng.randint(1, 2)
                x = np.round(rand_coeffs(ctx.rng, (D, P) + shp, -1, 1) * 2) / 2
                if special is not None:
                    x[0].reshape(-1)[-1] = special
                case = {'op': 'cmp', 'cmp': cmpn, 'mode': 'self', 'D': D, 'P': P, 'x': x, 'y': x, 'scalar': 0.0}
                ctx.evaluations += 1
                ctx.count('cmp-self')
                f = cmp_fails(case)
                if f:
                    ctx.report(case, 'failure', f)
    for i in range(40 if ctx.tier == 'quick' else 400):
        case = eig_case(ctx.rng)
        ctx.evaluations += 1
        ctx.count('eig0=' + case['kind'])
        f = eig_fails(case)
        if f:
            ctx.report(case, 'failure', f)
    for nm in sorted(PLAIN_ARGS):
        case = plain_case(ctx.rng)
        case['name'] = nm
        if np.array(case['a']).shape[0] < 2:
            case['a'] = np.abs(rand_coeffs(ctx.rng, (2, 3), -1, 1)) + 0.25
        ctx.evaluations += 1
        ctx.count('plain-args=' + nm)
        f = plain_fails(case)
        if f:
            ctx.report(case, 'failure', f)
    for i in range(100 if ctx.tier == 'quick' else 1000):
        case = plain_case(ctx.rng)
        ctx.evaluations += 1
        ctx.count('plain=' + case['name'])
        f = plain_fails(case)
        if f:
            ctx.report(case, 'failure', f)
    for i in range(30):
        case, f = shape_attrs_fail(ctx.rng)
        ctx.evaluations += 1
        if f:
            ctx.report(case, 'failure', f)
    # model tie: zeroth coefficient of the modelled kernels (C01 cases with D >= 1)
    for i in range(60 if ctx.tier == 'quick' else 600):
        case = c01.gen_case(ctx.rng, ctx.tier)
        ctx.evaluations += 1
        ctx.count('kernel=' + case['fn'])
        r = c01.run_case(ctx, case)
        if r:
            ctx.report(case, 'failure', r)
