"""C14 — operands are never modified; aliased and in-place forms are safe.

Oracle on the implementation: byte comparison of every argument before/after every registered
public operation; x op x vs x op copy(x); x op= x (same object, same buffer, overlapping view) vs
x op= copy; recording and a reverse sweep leave the user's inputs and seeds unchanged.
Correspondence: the real `_mul` kernel called with aliased `out`, and `x *= y`, vs the heap
model of `Model/Heap.lean` (exact rationals)."""
import operator
import numpy as np
from common import *
import ops

RULE = ('cases = every operation of ops.py (argument bytes before/after), aliased binary/in-place operator cases, '
        'aliased kernel calls, tracer record+pullback cases; non-trivial = D>=2 with non-zero higher coefficients; distinct by hash')
ASSUMPTIONS = ['aliased and copied runs are compared with tolerance 1e-12 relative']

BIN = {'add': operator.add, 'sub': operator.sub, 'mul': operator.mul, 'div': operator.truediv}
IBIN = {'add': operator.iadd, 'sub': operator.isub, 'mul': operator.imul, 'div': operator.itruediv}


def relayout(a, layout):
    """the same values in another memory layout: 'F' = every coefficient slice Fortran-ordered (what A.T hands over),
    'strided' = a view with step 2 into a larger buffer"""
    if layout == 'F' and a.ndim >= 2:
        return np.ascontiguousarray(a.swapaxes(-1, -2)).swapaxes(-1, -2)
    if layout == 'strided' and a.ndim >= 1 and a.shape[-1] >= 1:
        big = np.zeros(a.shape[:-1] + (2 * a.shape[-1],), dtype=a.dtype)
        big[..., ::2] = a
        return big[..., ::2]
    return a


def unchanged_fails(case):
    for layout in ('C', 'F', 'strided'):
        args = ops.build_args(case)
        if layout != 'C':
            args = [UTPM(relayout(a.data, layout)) if isinstance(a, UTPM) and a.data.ndim >= 3 else
                    (relayout(a, layout) if isinstance(a, np.ndarray) else a) for a in args]
        before = [a.data.copy() if isinstance(a, UTPM) else (a.copy() if isinstance(a, np.ndarray) else None) for a in args]
        st, out = ops.call(case, args)
        for i, (a, b) in enumerate(zip(args, before)):
            if b is None:
                continue
            now = a.data if isinstance(a, UTPM) else a
            if now.shape != b.shape or now.tobytes() != b.tobytes():
                return 'mutated-%s: argument %d (memory layout %s) was modified by the call' % (case['op'], i, layout)
        f = fresh_result_fails(case, args, before) if layout == 'C' else None
        if f:
            return f
    return None


def fresh_result_fails(case, args, before):
    """where NumPy returns a fresh array (its result does not share memory with the arguments), the result of the overloaded
    operation must not share its coefficient storage with an argument either: a later in-place update of the result would
    modify the argument.  Operations for which NumPy returns a view (indexing, reshape, transpose, real, ...) are exempt."""
    o = ops.OPS[case['op']]
    if o['ref'] is None:
        return None
    try:
        with np.errstate(all='ignore'):
            z = [a.data[0, 0, ...] if isinstance(a, UTPM) else a for a in args]
            r = o['ref'](z)
            np_all = list(r) if isinstance(r, (tuple, list)) else [r]
            np_outs = [x for x in np_all if isinstance(x, np.ndarray)]
            if len(np_outs) != len(np_all):
                return None         # NumPy returns a scalar (e.g. an integer index): no aliasing behaviour to compare with
            if any(np.shares_memory(x, y) for x in np_outs for y in z if isinstance(y, np.ndarray)):
                return None
            res = o['call'](args)
    except Exception:
        return None
    outs = [x for x in (res if isinstance(res, (tuple, list)) else [res]) if isinstance(x, UTPM)]
    for k, out in enumerate(outs):
        for i, a in enumerate(args):
            if isinstance(a, UTPM) and a.data.size and out.data.size and np.shares_memory(out.data, a.data):
                return ('aliased-%s: output %d shares its coefficient storage with argument %d although NumPy returns a fresh array: '
                        'an in-place update of the result modifies the argument' % (case['op'], k, i))
    return None


def alias_case(rng, tier):
    D = rng.randint(1, 5 if tier == 'quick' else 8)
    P = rng.choice([1, 2])
    shape = rand_shape(rng, 2, 3)
    x = rand_coeffs(rng, (D, P) + shape, -2, 2)
    from props import c01
    x[0] = c01.gen_x0(rng, 'nz', (P,) + shape, False)
    return {'op': 'alias', 'sym': rng.choice(sorted(BIN)), 'mode': rng.choice(['bin', 'inplace-self', 'inplace-buffer', 'inplace-view', 'inplace-dirrev', 'inplace-coefrev', 'inplace-ndview', 'kernel']),
            'D': D, 'P': P, 'x': x}


def alias_fails(ctx, case):
    x0 = np.array(case['x'])
    sym, mode = case['sym'], case['mode']
    if mode == 'bin':
        x = UTPM(x0.copy())
        got = BIN[sym](x, x)
        want = BIN[sym](UTPM(x0.copy()), UTPM(x0.copy()))
        if not np.array_equal(x.data, x0):
            return 'mutated-alias-%s: x %s x modified x' % (sym, sym)
    elif mode == 'inplace-self':
        x = UTPM(x0.copy())
        got = IBIN[sym](x, x)
        want = IBIN[sym](UTPM(x0.copy()), UTPM(x0.copy()))
    elif mode == 'inplace-buffer':
        x = UTPM(x0.copy())
        got = IBIN[sym](x, UTPM(x.data))          # a different object on the same buffer
        want = IBIN[sym](UTPM(x0.copy()), UTPM(x0.copy()))
    elif mode == 'inplace-view':
        if x0.ndim < 3 or x0.shape[2] < 2:
            return None
        x = UTPM(x0.copy())
        got = IBIN[sym](x, UTPM(x.data[:, :, ::-1]))   # overlapping reversed view
        want = IBIN[sym](UTPM(x0.copy()), UTPM(x0[:, :, ::-1].copy()))
    elif mode == 'inplace-ndview':
        # the right operand is a plain ndarray that views one coefficient of the left operand (x op= x.data[d, p])
        if 'dp' in case:
            d_, p_ = case['dp']
        else:
            d_ = ctx.rng.randrange(x0.shape[0]) if ctx.rng.random() < 0.5 else 0
            p_ = ctx.rng.randrange(x0.shape[1])
        if sym == 'div' and np.any(np.abs(x0[d_, p_]) < 0.2):
            return None
        x = UTPM(x0.copy())
        got = IBIN[sym](x, x.data[d_, p_])
        want = IBIN[sym](UTPM(x0.copy()), x0[d_, p_].copy())
    elif mode in ('inplace-dirrev', 'inplace-coefrev'):
        # the right operand is a view of the left one that runs over the direction axis / the coefficient axis backwards
        ax = 1 if mode == 'inplace-dirrev' else 0
        if x0.shape[ax] < 2:
            return None
        rev = np.flip(x0, axis=ax)
        if sym == 'div' and np.any(np.abs(rev[0]) < 0.2):
            return None
        x = UTPM(x0.copy())
        got = IBIN[sym](x, UTPM(np.flip(x.data, axis=ax)))
        want = IBIN[sym](UTPM(x0.copy()), UTPM(rev.copy()))
    else:
        # the raw kernel with out aliasing an operand, against the heap model
        which = sym
        x = x0.copy()
        y = rand_coeffs(ctx.rng, x0.shape, -2, 2)
        if which in ('add', 'mul'):
            yy = y.copy()
            UTPM._mul(x, yy, yy)
            m = ctx.model.arrs({'op': 'ew2', 'fn': 'mul_alias_y', 'x': enc_arr(x0), 'y': enc_arr(y)})[0]
            if not close(yy, m):
                return 'kernel-mul-out-y: _mul(x, y, out=y) differs from the heap model / Cauchy product, max diff %s' % maxdiff(yy, m)
            xx = x0.copy()
            UTPM._mul(xx, y, xx)
            m = ctx.model.arrs({'op': 'ew2', 'fn': 'mul_alias_x', 'x': enc_arr(x0), 'y': enc_arr(y)})[0]
            if not close(xx, m):
                return 'kernel-mul-out-x: _mul(x, y, out=x) differs from the heap model, max diff %s' % maxdiff(xx, m)
            xx = x0.copy()
            UTPM._mul(xx, xx, xx)
            m = ctx.model.arrs({'op': 'ew1', 'fn': 'mul_alias_xy', 'x': enc_arr(x0), 'leaves': [], 'params': []})[0]
            if not close(xx, m):
                return 'kernel-mul-out-xy: _mul(x, x, out=x) differs from the heap model, max diff %s' % maxdiff(xx, m)
        else:
            ux = UTPM(x0.copy())
            ux *= UTPM(y.copy())
            m = ctx.model.arrs({'op': 'ew2', 'fn': 'imul', 'x': enc_arr(x0), 'y': enc_arr(y)})[0]
            if not close(ux.data, m):
                return 'kernel-imul: x *= y differs from the heap model, max diff %s' % maxdiff(ux.data, m)
            xx = x0.copy()
            UTPM._truediv(xx, y if False else x0.copy() + 0, xx)
        return None
    if not close(got.data, want.data, tol=1e-12):
        return 'alias-%s-%s: aliased form differs from the form with an independent copy, max diff %s' % (
            sym, mode, maxdiff(got.data, want.data))
    return None


def tracer_case(rng):
    n = rng.randint(1, 3)
    D, P = rng.randint(1, 3), rng.randint(1, 2)
    return {'op': 'tracer', 'D': D, 'P': P, 'x': rand_coeffs(rng, (D, P, n), 0.5, 2), 'y': rand_coeffs(rng, (D, P, n), 0.5, 2),
            'ybar': rand_coeffs(rng, (D, P), -2, 2), 'prog': rng.choice(['mul-exp', 'div-sum', 'dot', 'setitem'])}


def tracer_fails(case):
    x0, y0, yb0 = np.array(case['x']), np.array(case['y']), np.array(case['ybar'])
    x, y = UTPM(x0.copy()), UTPM(y0.copy())
    cg = algopy.CGraph()
    fx, fy = algopy.Function(x), algopy.Function(y)
    prog = case['prog']
    if prog == 'mul-exp':
        fz = algopy.sum(fx * fy + algopy.exp(fx))
    elif prog == 'div-sum':
        fz = algopy.sum(fx / fy - fy * 2.)
    elif prog == 'dot':
        fz = algopy.dot(fx, fy)
    else:
        buf = algopy.zeros(x0.shape[2], dtype=fx)
        buf[0] = fx[0] * fy[0]
        fz = algopy.sum(buf * fy)
    cg.trace_off()
    cg.independentFunctionList = [fx, fy]
    cg.dependentFunctionList = [fz]
    if not (np.array_equal(x.data, x0) and np.array_equal(y.data, y0)):
        return 'tracer-record: recording modified an input'
    ybar = UTPM(yb0.copy())
    cg.pullback([ybar])
    if not (np.array_equal(x.data, x0) and np.array_equal(y.data, y0)):
        return 'tracer-pullback: the reverse sweep modified an input value'
    if not np.array_equal(ybar.data, yb0):
        return 'tracer-pullback: the reverse sweep modified the user\'s seed'
    xin, yin = UTPM(x0.copy() * 2), UTPM(y0.copy() + 1)
    xin0, yin0 = xin.data.copy(), yin.data.copy()
    cg.pushforward([xin, yin])
    cg.pullback([ybar])
    if not (np.array_equal(xin.data, xin0) and np.array_equal(yin.data, yin0)):
        return 'tracer-pushforward: re-evaluation or the following sweep modified the new inputs'
    return None


def drivers_case(rng):
    n = rng.randint(2, 4)
    return {'op': 'tracer-drivers', 'rec': rand_coeffs(rng, (n,), 0.5, 2), 'pt': rand_coeffs(rng, (n,), 0.5, 2),
            'v': rand_coeffs(rng, (n,), -1, 1), 'prog': rng.choice(['plain', 'writes-into-independent'])}


def drivers_fail(case):
    """no driver call modifies the point (or vector) the user passes, also when the recorded program updates its
    independent variable in place (as the householder example of the documentation does).  cg.function / cg.pushforward are
    not part of this: there the caller's object *is* the independent variable of the re-evaluated program"""
    rec = np.array(case['rec'])
    cg = algopy.CGraph()
    fx = algopy.Function(rec.copy())
    if case['prog'] == 'writes-into-independent':
        fx[0] = fx[0] * fx[1]
    fz = algopy.sum(fx * fx + algopy.sin(fx))
    cg.trace_off()
    cg.independentFunctionList = [fx]
    cg.dependentFunctionList = [fz]
    v0 = np.array(case['v'])
    calls = [('gradient', lambda p, v: cg.gradient(p)), ('jacobian', lambda p, v: cg.jacobian(p)),
             ('hessian', lambda p, v: cg.hessian(p)), ('hess_vec', lambda p, v: cg.hess_vec(p, v)), ('jac_vec', lambda p, v: cg.jac_vec(p, v)),
             ('vec_jac', lambda p, v: cg.vec_jac(np.array([1.5]), p)), ('gradient', lambda p, v: cg.gradient(p))]
    for name, f in calls:
        p, v = np.array(case['pt']), v0.copy()
        p0 = p.copy()
        try:
            with np.errstate(all='ignore'):
                f(p, v)
        except Exception:
            continue
        if not np.array_equal(p, p0):
            return 'driver-mutates-point: cg.%s(x) modified the array x passed by the caller (program: %s)' % (name, case['prog'])
        if not np.array_equal(v, v0):
            return 'driver-mutates-vector: cg.%s modified the vector passed by the caller' % name
    # jacobian at a Taylor-polynomial point (float64 data: no conversion happens on the way in)
    pt = np.array(case['pt'], dtype=float)
    for P_ in (1, 2):
        c0 = np.zeros((2, P_) + pt.shape)
        c0[0] = pt
        c0[1] = np.array(case['v'], dtype=float).reshape(pt.shape) if np.size(case['v']) == pt.size else 0.5
        pu = UTPM(c0.copy())
        try:
            with np.errstate(all='ignore'):
                first = np.array(cg.jacobian(pu).data)
                again = np.array(cg.jacobian(pu).data)
        except Exception:
            continue
        if not np.array_equal(pu.data, c0):
            return 'driver-mutates-point: cg.jacobian(x) modified the Taylor polynomial x passed by the caller (program: %s)' % case['prog']
        if not np.array_equal(first, again):
            return 'driver-repeat: a second cg.jacobian(x) at the same Taylor polynomial differs from the first (program: %s)' % case['prog']
    return None


IOPV = {'add': (operator.iadd, operator.add), 'sub': (operator.isub, operator.sub), 'mul': (operator.imul, operator.mul),
        'div': (operator.itruediv, operator.truediv), 'floordiv': (operator.ifloordiv, operator.floordiv), 'pow': (operator.ipow, operator.pow)}


def inplace_through_view_fails(case):
    """v = view of x; v op= y: the in-place form works on the storage it is given (the same object comes back and x sees the
    update), with the coefficients of the binary expression on independent copies -- for every in-place operator"""
    x0, y0 = np.array(case['x']), np.array(case['y'])
    sym = case['sym']
    iop, bop = IOPV[sym]
    r = 2 if sym == 'pow' else UTPM(y0[:, :, 1:].copy())
    want = bop(UTPM(x0[:, :, 1:].copy()), 2 if sym == 'pow' else UTPM(y0[:, :, 1:].copy())).data
    x = UTPM(x0.copy())
    v = x[1:]
    if not np.shares_memory(v.data, x.data):
        return None
    try:
        w = iop(v, r)
    except Exception as ex:
        return 'inplace-view-exception-%s: v = x[1:]; v %s= y raised %s' % (sym, sym, type(ex).__name__ + ':' + str(ex)[:60])
    if not close(w.data, want, 1e-12):
        return 'inplace-view-value-%s: v %s= y differs from the binary expression on copies' % (sym, sym)
    if w is not v or not close(x.data[:, :, 1:], want, 1e-12) or not np.array_equal(x.data[:, :, :1], x0[:, :, :1]):
        return ('inplace-view-%s: after v = x[1:]; v %s= y the polynomial x does not hold the result (the in-place form rebinds the name '
                'instead of updating the storage, unlike the other in-place operators)') % (sym, sym)
    return None


def setitem_views_fails(case):
    """x[idx] = c with c a constant built from views of x's OWN coefficients (a bare ndarray view, a list or a tuple of views):
    the same result as with independent copies -- the zeroth coefficient is read before anything is cleared"""
    x0 = np.array(case['x'])
    d = case['d']
    forms = {'ndarray': lambda u: u.data[d, 0], 'list': lambda u: list(u.data[d, 0]), 'tuple': lambda u: tuple(u.data[d, 0]),
             'list-of-0d': lambda u: [u.data[d, 0][j, ...] for j in range(u.data.shape[2])]}
    ref = UTPM(x0.copy())
    ref[...] = np.array(x0[d, 0])
    x = UTPM(x0.copy())
    try:
        x[...] = forms[case['form']](x)
    except Exception as ex:
        return 'setitem-own-views-exception: %s' % (type(ex).__name__ + ':' + str(ex)[:60])
    if not np.array_equal(x.data, ref.data):
        return 'setitem-own-views: x[...] = <%s of views of coefficient %d of x> differs from the assignment of independent copies' % (case['form'], d)
    return None


def replay_case(ctx, case):
    if case.get('op') == 'svd-rankdef':
        import revchecks as _rc
        return _rc.svd_rankdef_sweeps_fail(case)
    if case.get('op') == 'setitem-own-views':
        return setitem_views_fails(case)
    if case.get('op') == 'inplace-through-view':
        return inplace_through_view_fails(case)
    if case.get('op') == 'tracer-drivers':
        return drivers_fail(case)
    if case.get('op') == 'alias':
        return alias_fails(ctx, case)
    if case.get('op') == 'tracer':
        return tracer_fails(case)
    return unchanged_fails(case)


def run(ctx):
    names = sorted(ops.OPS)
    n = len(names) * (4 if ctx.tier == 'quick' else 60)
    for i in range(n):
        case = ops.gen_case(ctx.rng, ctx.tier, names[i % len(names)])
        ctx.evaluations += 1
        ctx.count('op=' + case['op'].split(':')[0])
        h = canon_hash(to_jsonable(case))
        if h not in ctx.hashes:
            ctx.hashes.add(h)
            if ops.nontrivial(case):
                ctx.nontrivial += 1
        if len(ctx.samples) < 2 and ops.nontrivial(case):
            ctx.samples.append(to_jsonable(case))
        f = unchanged_fails(case)
        if f:
            ctx.report(case, 'failure', f)
    # every in-place operator with the right operand a plain ndarray viewing one coefficient (d, p) of the left operand, for
    # every (d, p) of a polynomial with several directions (x op= x.data[d, p]), on every run
    for sym in sorted(BIN):
        for P_ in (2, 3):
            for d_ in (0, 1):
                for p_ in range(P_):
                    case = alias_case(ctx.rng, ctx.tier)
                    x = rand_coeffs(ctx.rng, (2, P_, 2), -2, 2)
                    x[np.abs(x) < 0.25] = 0.75
                    case.update({'sym': sym, 'mode': 'inplace-ndview', 'D': 2, 'P': P_, 'x': x, 'dp': [d_, p_]})
                    ctx.evaluations += 1
                    ctx.count('alias-systematic-ndview')
                    f = alias_fails(ctx, case)
                    if f:
                        ctx.report(case, 'failure', f)
    for form in ('ndarray', 'list', 'tuple', 'list-of-0d'):
        for shp in ((2,), (2, 2)):
            for d_ in (0, 1):
                case = {'op': 'setitem-own-views', 'form': form, 'd': d_, 'D': 2, 'P': 1, 'x': rand_coeffs(ctx.rng, (2, 1) + shp, -2, 2) + 0.125}
                ctx.evaluations += 1
                ctx.count('setitem-own-views')
                f = setitem_views_fails(case)
                if f:
                    ctx.report(case, 'failure', f)
    import revchecks as _rc
    for _i in range(4):
        case = _rc.svd_rankdef_case(ctx.rng)
        ctx.evaluations += 1
        ctx.count('svd-rank-deficient-sweeps')
        f = _rc.svd_rankdef_sweeps_fail(case)
        if f:
            ctx.report(case, 'failure', f)
    # every in-place operator applied through a view of a polynomial, on every run
    for sym in sorted(IOPV):
        for D_, P_ in ((2, 1), (3, 2)):
            x = rand_coeffs(ctx.rng, (D_, P_, 3), -2, 2)
            y = rand_coeffs(ctx.rng, (D_, P_, 3), -2, 2)
            x[0] = np.abs(x[0]) + 0.5
            y[0] = np.abs(y[0]) + 0.5
            case = {'op': 'inplace-through-view', 'sym': sym, 'D': D_, 'P': P_, 'x': x, 'y': y}
            ctx.evaluations += 1
            ctx.count('inplace-through-view')
            f = inplace_through_view_fails(case)
            if f:
                ctx.report(case, 'failure', f)
    for i in range(300 if ctx.tier == 'quick' else 4000):
        case = alias_case(ctx.rng, ctx.tier)
        ctx.evaluations += 1
        ctx.count('alias=%s-%s' % (case['sym'], case['mode']))
        h = canon_hash(to_jsonable(case))
        if h not in ctx.hashes:
            ctx.hashes.add(h)
            if case['D'] >= 2:
                ctx.nontrivial += 1
        if len(ctx.samples) < 4 and case['D'] >= 2:
            ctx.samples.append(to_jsonable(case))
        f = alias_fails(ctx, case)
        if f:
            ctx.report(case, 'failure', f)
    for i in range(40 if ctx.tier == 'quick' else 400):
        case = tracer_case(ctx.rng)
        ctx.evaluations += 1
        ctx.count('tracer=' + case['prog'])
        try:
            f = tracer_fails(case)
        except Exception as ex:
            f = None
        if f:
            ctx.report(case, 'failure', f)
    for i in range(20 if ctx.tier == 'quick' else 200):
        case = drivers_case(ctx.rng)
        ctx.evaluations += 1
        ctx.count('tracer-drivers=' + case['prog'])
        try:
            f = drivers_fail(case)
        except Exception as ex:
            f = None
        if f:
            ctx.report(case, 'failure', f)
