"""C09 — forward-mode derivative drivers are exact.

Correspondence: the seed tables of init_jacobian / init_hessian / init_hess_vec and the extraction formulas
of extract_hessian / extract_hess_vec vs the Lean model, for every N <= 6 (quick) / 9 (thorough).
Oracle on the implementation:
 * polynomial programs with integer coefficients at integer points: Jacobian, J v, Hessian, H v and all
   distinct d-th order partial derivatives / multi-index factorial (d <= 3 quick, 4 thorough) equal the exact
   analytic derivatives (rational arithmetic);
 * generated smooth programs: the Hessian extracted from init_hessian seeding reproduces the second
   Taylor coefficient of the program along arbitrary directions (Taylor propagation only), and
   extract_jacobian reproduces first coefficients along arbitrary directions."""
import itertools
import math
import numpy as np
from fractions import Fraction as F
from common import *
import programs
from programs import gen_program, run_program

RULE = ('seed/extraction tables for every N up to the bound (exhaustive); polynomial programs (<= 4 monomials, exponents <= 3) at integer points; '
        'generated smooth programs R^N -> R with random directions; non-trivial = N >= 2; distinct by hash')
ASSUMPTIONS = ['exact analytic derivatives of polynomial programs computed in rational arithmetic', 'tolerance 1e-8 relative for smooth programs']


def tables_fail(ctx, N):
    x = np.arange(1, N + 1, dtype=float)
    m = ctx.model.ask({'op': 'drivers', 'what': 'hess_dirs', 'N': N})['r']
    got = UTPM.init_hessian(x).data
    want = np.array([[float(F(v)) for v in r] for r in m]).reshape(-1, N)
    if got.shape != (3, N * (N + 1) // 2, N) or not np.array_equal(got[1], want) or not np.array_equal(got[0], np.tile(x, (want.shape[0], 1))) or np.any(got[2] != 0):
        return 'init_hessian-N%d: seed directions differ from the model table' % N
    mj = ctx.model.ask({'op': 'drivers', 'what': 'jac_dirs', 'N': N})['r']
    gj = UTPM.init_jacobian(x).data
    if gj.shape != (2, N, N) or not np.array_equal(gj[1], np.array([[float(F(v)) for v in r] for r in mj])):
        return 'init_jacobian-N%d: seed directions differ from the model table' % N
    v = np.array([(-1) ** i * (i + 2) / 4 for i in range(N)])
    mv = ctx.model.ask({'op': 'drivers', 'what': 'hess_vec_dirs', 'N': N, 'v': [enc_num(a) for a in v]})['r']
    gv = UTPM.init_hess_vec(x, v).data
    if gv.shape != (3, 2 * N + 1, N) or not np.array_equal(gv[1], np.array([[float(F(a)) for a in r] for r in mv])):
        return 'init_hess_vec-N%d: seed directions differ from the model table' % N
    # extraction on arbitrary second-order coefficients
    rs = np.random.RandomState(N)
    c2 = np.round(rs.uniform(-3, 3, size=N * (N + 1) // 2) * 8) / 8
    y = UTPM(np.zeros((3, c2.size)))
    y.data[2] = c2
    H = UTPM.extract_hessian(N, y)
    mH = ctx.model.ask({'op': 'drivers', 'what': 'extract_hessian', 'N': N, 'c2': [enc_num(a) for a in c2]})['r']
    if not np.array_equal(H, np.array([[float(F(a)) for a in r] for r in mH])):
        return 'extract_hessian-N%d: differs from the model extraction formulas' % N
    c2v = np.round(rs.uniform(-3, 3, size=2 * N + 1) * 8) / 8
    yv = UTPM(np.zeros((3, 2 * N + 1)))
    yv.data[2] = c2v
    Hv = UTPM.extract_hess_vec(N, yv)
    mHv = ctx.model.ask({'op': 'drivers', 'what': 'extract_hess_vec', 'N': N, 'c2': [enc_num(a) for a in c2v]})['r']
    if not np.array_equal(Hv, np.array([float(F(a)) for a in mHv])):
        return 'extract_hess_vec-N%d: differs from the model extraction formula' % N
    return None


# ---- polynomial programs -----------------------------------------------------------------
def poly_case(rng, tier):
    N = rng.randint(1, 4)
    terms = [(rng.randint(-3, 3), [rng.randint(0, 3) for _ in range(N)]) for _ in range(rng.randint(1, 4))]
    return {'op': 'poly', 'N': N, 'terms': terms, 'x': [rng.randint(-3, 3) for _ in range(N)],
            'v': [rng.choice([rng.randint(-2, 2), rng.randint(-8, 8) / 4.0]) for _ in range(N)],
            'xkind': rng.choice(['float', 'int-array', 'int-list']), 'clobber': rng.random() < 0.3,
            'd': rng.randint(1, 4 if tier == 'quick' else 5)}     # d >= 4: multi-indices with two entries >= 2


def poly_sep_case(rng, tier):
    """a separable polynomial sum_n c_n x_n^{e_n} at an integer point whose components differ by many orders of magnitude: the pure
    d-th order partials differ by far more than 1e12, each is a single exactly representable term"""
    N = rng.randint(2, 3)
    d = rng.randint(2, 3)
    exps = [rng.randint(d, d + 2) for _ in range(N)]
    terms = []
    for n_ in range(N):
        e = [0] * N
        e[n_] = exps[n_]
        terms.append((rng.choice([1, 2, -3]), e))
    xs = [rng.choice([1, 2, -1]) for _ in range(N)]
    big = rng.randrange(N)
    xs[big] = rng.choice([10 ** 5, 10 ** 6, -10 ** 5])
    terms[big] = (terms[big][0], [0 if i != big else max(exps[big], d + 2) for i in range(N)])
    return {'op': 'poly', 'N': N, 'terms': terms, 'x': xs, 'v': [1.0] * N, 'xkind': 'float', 'd': d, 'sep': True}


def scalar_point_fails(case):
    """a function of one real variable seeded at a scalar point (Python float / int, 0-d array): p(x) = sum_k c_k x^k"""
    cs, x0, v = case['c'], case['x'], case['v']
    kind = case['kind']
    pt = {'float': float(x0), 'int': int(x0), 'nd0': np.array(float(x0)), 'np.float64': np.float64(x0)}[kind]

    def f(x):
        tot = 0 * x
        for k, c in enumerate(cs):
            t = c + 0 * x
            for _ in range(k):
                t = t * x
            tot = tot + t
        return tot
    d1 = float(sum(F(c) * k * F(x0) ** (k - 1) for k, c in enumerate(cs) if k >= 1))
    try:
        J = UTPM.extract_jacobian(f(UTPM.init_jacobian(pt)))
        Jv = UTPM.extract_jac_vec(f(UTPM.init_jac_vec(pt, v)))
    except Exception as ex:
        return 'scalar-point-exception: seeding at the scalar point %r (%s) raised %s' % (pt, kind, type(ex).__name__ + ':' + str(ex)[:80])
    if not close(np.ravel(J), np.array([d1]), 1e-10) or not close(np.ravel(Jv), np.array([d1 * v]), 1e-10):
        return 'scalar-point: derivative at the scalar point %r (%s): jacobian %s, jac_vec %s, exact %r and %r' % (pt, kind, np.ravel(J), np.ravel(Jv), d1, d1 * v)
    return None


def peval(terms, xs):
    tot = 0
    for c, e in terms:
        t = c
        for xi, ei in zip(xs, e):
            for _ in range(ei):
                t = t * xi
        tot = tot + t
    return tot


def falling(e, k):
    r = 1
    for i in range(k):
        r *= (e - i)
    return r


def exact_partial(terms, xs, alpha):
    """d^alpha p (x) exactly"""
    tot = F(0)
    for c, e in terms:
        if any(a > ei for a, ei in zip(alpha, e)):
            continue
        t = F(c)
        for xi, ei, a in zip(xs, e, alpha):
            t *= falling(ei, a) * F(xi) ** (ei - a)
        tot += t
    return tot


def poly_fails(case):
    N, terms, d = case['N'], case['terms'], case['d']
    xs = case['x']

    def f(x):
        return peval(terms, [x[i] for i in range(N)]) + 0 * x[0]
    xk = case.get('xkind', 'float')
    x = np.array(xs, dtype=float) if xk == 'float' else (np.array(xs, dtype=int) if xk == 'int-array' else [int(a) for a in xs])
    v = np.array(case['v'], dtype=float)
    unit = lambda i: tuple(1 if j == i else 0 for j in range(N))
    g = np.array([float(exact_partial(terms, xs, unit(i))) for i in range(N)])
    H = np.array([[float(exact_partial(terms, xs, tuple(a + b for a, b in zip(unit(i), unit(j))))) for j in range(N)] for i in range(N)])
    if case.get('clobber'):
        # a caller obtained the interpolation data for this (N, d) from the public helper earlier and overwrote ITS arrays: the
        # drivers must not be affected
        import algopy.exact_interpolation as ei_
        G_, r_ = ei_.generate_Gamma_and_rays(N, d)
        G_[...] = 7.0
        r_[...] = 0
    try:
        J = UTPM.extract_jacobian(f(UTPM.init_jacobian(x)))
        Jv = UTPM.extract_jac_vec(f(UTPM.init_jac_vec(x, v)))
        Hh = UTPM.extract_hessian(N, f(UTPM.init_hessian(x)))
        Hv = UTPM.extract_hess_vec(N, f(UTPM.init_hess_vec(x, v)))
        T = UTPM.extract_tensor(N, f(UTPM.init_tensor(d, np.asarray(x, dtype=float))), as_full_matrix=False)
    except Exception as ex:
        return 'poly-exception: %s' % (type(ex).__name__ + ':' + str(ex)[:100])
    # reading a result is repeatable: an extractor neither modifies the evaluated polynomial nor returns a window into it
    for nm, ext, y_ in (('jacobian', lambda y: UTPM.extract_jacobian(y), f(UTPM.init_jacobian(x))),
                        ('jac_vec', lambda y: UTPM.extract_jac_vec(y), f(UTPM.init_jac_vec(x, v))),
                        ('hessian', lambda y: UTPM.extract_hessian(N, y), f(UTPM.init_hessian(x))),
                        ('hess_vec', lambda y: UTPM.extract_hess_vec(N, y), f(UTPM.init_hess_vec(x, v))),
                        ('tensor', lambda y: UTPM.extract_tensor(N, y), f(UTPM.init_tensor(d, np.asarray(x, dtype=float))))):
        before = np.array(y_.data)
        first = np.array(ext(y_))
        second = np.array(ext(y_))
        if not np.array_equal(before, y_.data):
            return 'poly-%s-mutates: extract_%s modified the coefficients of the polynomial it reads' % (nm, nm)
        if not np.array_equal(first, second, equal_nan=True):
            return 'poly-%s-repeat: a second extract_%s of the same result differs from the first' % (nm, nm)
        r_ = ext(y_)
        if isinstance(r_, np.ndarray) and r_.size and np.shares_memory(r_, y_.data):
            return 'poly-%s-window: extract_%s returns a window into the polynomial it reads (rescaling the result rewrites the polynomial)' % (nm, nm)
    if not close(np.ravel(J), g, 1e-10):
        return 'poly-jacobian: extract_jacobian differs from the exact gradient'
    if not close(np.ravel(Jv), np.array([g @ v]), 1e-10):
        return 'poly-jac_vec: extract_jac_vec differs from the exact J v'
    if not close(Hh, H, 1e-10):
        return 'poly-hessian: extract_hessian differs from the exact Hessian'
    if not close(Hv, H @ v, 1e-10):
        return 'poly-hess_vec: extract_hess_vec differs from the exact H v'
    import algopy.exact_interpolation as ei
    mi = ei.generate_multi_indices(N, d)
    want = np.array([float(exact_partial(terms, xs, tuple(int(a) for a in alpha)) / math.prod(math.factorial(int(a)) for a in alpha)) for alpha in mi])
    if not close(np.ravel(T), want, 1e-8):
        return 'poly-tensor: extract_tensor (d=%d) differs from the exact partial derivatives / multi-index factorial' % d
    # the point given as a column / row matrix: refused, or the same first-order partials (never derivatives at other points)
    g_ = np.array([float(exact_partial(terms, xs, unit(i))) for i in range(N)])
    for shp in ((N, 1), (1, N)):
        try:
            with np.errstate(all='ignore'):
                Tv = np.asarray(UTPM.extract_tensor(N, f(UTPM.init_tensor(1, np.asarray(x, dtype=float).reshape(shp))), as_full_matrix=False), dtype=float)
        except Exception:
            continue
        if Tv.size != N or not close(np.ravel(Tv), g_, 1e-8):
            return 'poly-tensor-point-shape: init_tensor(1, point of shape %s) is accepted but the extracted first-order partials are %s, exact %s' % (
                shp, np.ravel(Tv).tolist()[:6], g_.tolist())
    if case.get('sep'):
        # entry by entry: the pure partials of a separable polynomial come from one ray each (no cancellation)
        for k_, alpha in enumerate(mi):
            if sum(1 for a in alpha if a) == 1 and abs(np.ravel(T)[k_] - want[k_]) > 1e-9 * abs(want[k_]):
                return 'poly-tensor-entry: extract_tensor (d=%d) entry %s is %r, exact value %r (other entries are larger by many orders of magnitude)' % (
                    d, [int(a) for a in alpha], float(np.ravel(T)[k_]), float(want[k_]))
    # the default (full array) mode of extract_tensor: the symmetric rank-d array of all partial derivatives
    if d <= 3:
        try:
            Tf = np.asarray(UTPM.extract_tensor(N, f(UTPM.init_tensor(d, np.asarray(x, dtype=float)))), dtype=float)
        except Exception as ex:
            return 'poly-tensor-full-exception: extract_tensor (d=%d, default as_full_matrix) raised %s' % (d, type(ex).__name__)
        wantf = np.zeros((N,) * d)
        for idx in itertools.product(range(N), repeat=d):
            alpha = tuple(sum(1 for i in idx if i == n_) for n_ in range(N))
            wantf[idx] = float(exact_partial(terms, xs, alpha))
        if Tf.shape != wantf.shape or not close(Tf, wantf, 1e-8):
            return 'poly-tensor-full: extract_tensor (d=%d) in its default full-array mode is not the array of all d-th order partial derivatives (shape %s)' % (d, Tf.shape)
    # the same seed point given as a matrix (row-major order of the variables) in every memory layout
    for (r, c) in [(a, N // a) for a in range(1, N + 1) if N % a == 0]:
        Xc = np.array(xs, dtype=float).reshape(r, c)
        for lay, X in (('C', Xc), ('F', np.asfortranarray(Xc)), ('T', np.ascontiguousarray(Xc.T).T),
                       ('strided', np.repeat(Xc, 2, axis=1)[:, ::2])):
            try:
                Hm = UTPM.extract_hessian(N, f(UTPM.init_hessian(X)))
                xm = UTPM.init_jacobian(X)
                Jm = UTPM.extract_jacobian(f(algopy.reshape(xm, (N,))))
                xv = UTPM.init_jac_vec(X, v.reshape(r, c))
                Jvm = UTPM.extract_jac_vec(f(algopy.reshape(xv, (N,))))
            except Exception as ex:
                return 'poly-layout-exception: seed of shape %s, layout %s: %s' % ((r, c), lay, type(ex).__name__ + ':' + str(ex)[:80])
            if not close(Hm, H, 1e-10):
                return 'poly-hessian-layout: init_hessian with a %s-layout seed of shape %s: Hessian differs from the exact one at the row-major point' % (lay, (r, c))
            if not close(np.ravel(Jm), g, 1e-10):
                return 'poly-jacobian-layout: init_jacobian with a %s-layout seed of shape %s: Jacobian differs' % (lay, (r, c))
            if not close(np.ravel(Jvm), np.array([g @ v]), 1e-10):
                return 'poly-jac_vec-layout: init_jac_vec with a %s-layout seed of shape %s: J v differs' % (lay, (r, c))
    return None


# ---- smooth programs -------------------------------------------------------------------------
def smooth_case(rng, tier):
    N = rng.randint(1, 4)
    kinds = ['ew', 'ew', 'bin', 'bin', 'binc', 'getitem', 'sum', 'dot', 'prod', 'reshape', 'outer']
    prog = gen_program(rng, input_shapes=[(N,)], maxsteps=5, out_scalar=True, kinds=kinds)
    return {'op': 'smooth', 'N': N, 'prog': prog, 'x': rand_coeffs(rng, (N,), -programs.BOX, programs.BOX),
            'dirs': [rand_coeffs(rng, (N,), -1, 1) for _ in range(3)]}


def smooth_fails(case):
    N, prog = case['N'], case['prog']
    x = np.array(case['x'])
    try:
        with np.errstate(all='ignore'):
            g = np.ravel(UTPM.extract_jacobian(run_program(prog, [UTPM.init_jacobian(x)])))
            H = UTPM.extract_hessian(N, run_program(prog, [UTPM.init_hessian(x)]))
            Hv = None
            for v in case['dirs']:
                v = np.array(v)
                c = np.zeros((3, 1, N))
                c[0, 0], c[1, 0] = x, v
                y = run_program(prog, [UTPM(c)])
                c1, c2 = float(np.ravel(y.data[1])[0]), float(np.ravel(y.data[2])[0])
                if not (np.isfinite(c1) and np.isfinite(c2) and np.all(np.isfinite(H)) and np.all(np.isfinite(g))):
                    return None
                if abs(c1 - g @ v) > 1e-8 * max(1, abs(c1)):
                    return 'smooth-jacobian: extract_jacobian does not reproduce the first Taylor coefficient along a direction'
                if abs(c2 - 0.5 * v @ H @ v) > 1e-8 * max(1, abs(c2)):
                    return 'smooth-hessian: extract_hessian does not reproduce the second Taylor coefficient along a direction (%.6g vs %.6g)' % (0.5 * v @ H @ v, c2)
                hv = UTPM.extract_hess_vec(N, run_program(prog, [UTPM.init_hess_vec(x, v)]))
                if not close(hv, H @ v, 1e-7):
                    return 'smooth-hess_vec: extract_hess_vec differs from H v of the extracted Hessian'
    except Exception:
        return None
    return None


# ---- array-valued polynomial programs: every output rank ---------------------------------------
def arrpoly_case(rng, tier):
    N = rng.randint(2, 4)
    rank = rng.choice([1, 2, 2, 3])
    oshape = [rng.randint(1, N) for _ in range(rank)]
    return {'op': 'arrpoly', 'N': N, 'oshape': oshape, 'x': [rng.randint(-3, 3) for _ in range(N)],
            'v': [rng.randint(-2, 2) for _ in range(N)], 'c': rng.randint(1, 3)}


def arrpoly_fails(case):
    """F[i,j,…] = x[i] * x[j]^2 * … pattern with exact integer derivatives; output of rank 1, 2 or 3"""
    import itertools
    N, oshape, c = case['N'], tuple(case['oshape']), case['c']
    xs = [F(a) for a in case['x']]
    v = np.array(case['v'], dtype=float)

    def entry(x, idx):
        # x[i0] * x[i1]^2 * x[i2]^3 … + c * x[last]
        t = 1
        for k, i in enumerate(idx):
            for _ in range(k + 1):
                t = t * x[i]
        return t + c * x[idx[-1]]

    def f(x):
        out = algopy.zeros(oshape, dtype=x)
        for idx in itertools.product(*[range(s) for s in oshape]):
            out[idx] = entry(x, idx)
        return out
    J = np.zeros(oshape + (N,))
    h = F(1, 1)
    for idx in itertools.product(*[range(s) for s in oshape]):
        for n in range(N):
            # exact partial derivative of a polynomial: symbolic differentiation by hand
            tot = F(0)
            for k, i in enumerate(idx):
                if i == n:
                    term = F(k + 1) * xs[i] ** k
                    for k2, i2 in enumerate(idx):
                        if k2 != k:
                            term *= xs[i2] ** (k2 + 1)
                    tot += term
            if idx[-1] == n:
                tot += c
            J[idx + (n,)] = float(tot)
    x = np.array(case['x'], dtype=float)
    try:
        Jv = UTPM.extract_jac_vec(f(UTPM.init_jac_vec(x, v)))
        Jf = UTPM.extract_jacobian(f(UTPM.init_jacobian(x)))
    except Exception as ex:
        return 'arrpoly-exception: %s' % (type(ex).__name__ + ':' + str(ex)[:100])
    # reading an ARRAY-valued result is repeatable too (entries of y.data are views there, not scalars): no extractor modifies the
    # evaluated polynomial, a second read and the read of one component afterwards give the same numbers
    for nm, ext, mk_ in ((('jacobian', lambda y: UTPM.extract_jacobian(y), lambda: f(UTPM.init_jacobian(x))),
                         ('jac_vec', lambda y: UTPM.extract_jac_vec(y), lambda: f(UTPM.init_jac_vec(x, v))),
                         ('hessian', lambda y: UTPM.extract_hessian(N, y), lambda: f(UTPM.init_hessian(x))),
                         ('hess_vec', lambda y: UTPM.extract_hess_vec(N, y), lambda: f(UTPM.init_hess_vec(x, v))),
                         ('tensor', lambda y: UTPM.extract_tensor(N, y), lambda: f(UTPM.init_tensor(2, x)))) if case.get('reads', True) else ()):
        try:
            y_ = mk_()
            before = np.array(y_.data)
            first = np.array(ext(y_))
            second = np.array(ext(y_))
        except Exception as ex:
            return 'arrpoly-%s-exception: %s' % (nm, type(ex).__name__ + ':' + str(ex)[:80])
        if not np.array_equal(before, y_.data):
            return 'arrpoly-%s-mutates: extract_%s modified the coefficients of the array-valued polynomial it reads' % (nm, nm)
        if not np.array_equal(first, second, equal_nan=True):
            return 'arrpoly-%s-repeat: a second extract_%s of the same array-valued result differs from the first' % (nm, nm)
        r_ = ext(y_)
        if isinstance(r_, np.ndarray) and r_.size and np.shares_memory(r_, y_.data):
            return 'arrpoly-%s-window: extract_%s returns a window into the array-valued polynomial it reads' % (nm, nm)
    want = J @ v
    if np.shape(Jv) != want.shape or not close(Jv, want, 1e-10):
        return 'arrpoly-jac_vec: extract_jac_vec of an output of shape %s has shape %s / differs from the exact J v' % (oshape, np.shape(Jv))
    if np.shape(Jf) != J.shape or not close(Jf, J, 1e-10):
        return 'arrpoly-jacobian: extract_jacobian of an output of shape %s has shape %s / differs from the exact Jacobian' % (oshape, np.shape(Jf))
    # the tensor drivers with an array-valued function (d = 1: the first-order partials of every entry), both extraction modes
    import algopy.exact_interpolation as ei
    mi = ei.generate_multi_indices(N, 1)
    wantT = np.array([J[..., int(np.argmax(alpha))] for alpha in mi])
    for full in (False, True):
        try:
            T = np.asarray(UTPM.extract_tensor(N, f(UTPM.init_tensor(1, x)), as_full_matrix=full), dtype=float)
        except Exception as ex:
            return 'arrpoly-tensor-exception: extract_tensor (d=1, as_full_matrix=%s) of an output of shape %s raised %s' % (full, oshape, type(ex).__name__ + ':' + str(ex)[:60])
        wt = wantT if not full else np.moveaxis(J, -1, 0)
        if T.shape != wt.shape or not close(T, wt, 1e-9):
            return 'arrpoly-tensor: extract_tensor (d=1, as_full_matrix=%s) of an output of shape %s has shape %s / differs from the exact first-order partials' % (full, oshape, T.shape)
    # second-order drivers with an array-valued function: the Hessian / Hessian-vector product of every entry (the entry-wise
    # scalar programs are tied to the exact derivatives by the polynomial cases), value axes leading or trailing
    idxs = list(itertools.product(*[range(s_) for s_ in oshape]))
    try:
        Hs = np.array([UTPM.extract_hessian(N, entry(UTPM.init_hessian(x), idx)) for idx in idxs]).reshape(oshape + (N, N))
        Ha = np.asarray(UTPM.extract_hessian(N, f(UTPM.init_hessian(x))))
        Hva = np.asarray(UTPM.extract_hess_vec(N, f(UTPM.init_hess_vec(x, v))))
    except Exception as ex:
        return 'arrpoly-hessian-exception: the second-order drivers of an output of shape %s raised %s' % (oshape, type(ex).__name__ + ':' + str(ex)[:60])
    nd_ = len(oshape)
    Hs_lead = np.moveaxis(np.moveaxis(Hs, -1, 0), -1, 0)            # (N, N) + oshape
    if not ((Ha.shape == Hs.shape and close(Ha, Hs, 1e-9)) or (Ha.shape == Hs_lead.shape and close(Ha, Hs_lead, 1e-9))):
        return 'arrpoly-hessian: extract_hessian of an output of shape %s (result shape %s) does not hold the Hessians of the entries' % (oshape, Ha.shape)
    Hv_t = Hs @ v                                                     # oshape + (N,)
    Hv_l = np.moveaxis(Hv_t, -1, 0)
    if not ((Hva.shape == Hv_t.shape and close(Hva, Hv_t, 1e-9)) or (Hva.shape == Hv_l.shape and close(Hva, Hv_l, 1e-9))):
        return 'arrpoly-hess_vec: extract_hess_vec of an output of shape %s (result shape %s) does not hold H v of the entries' % (oshape, Hva.shape)
    # a complex-valued function of the real variables: the drivers return the complex derivatives (real and imaginary part
    # are the derivatives of the real and imaginary part of the function)
    def g(x_):
        z = x_[0] + 1j * x_[1 % N]
        return z * z * x_[N - 1] + c * z
    try:
        parts = {}
        for nm, part in (('real', algopy.real), ('imag', algopy.imag)):
            parts[nm] = (np.asarray(UTPM.extract_hessian(N, part(g(UTPM.init_hessian(x))))), np.asarray(UTPM.extract_hess_vec(N, part(g(UTPM.init_hess_vec(x, v))))),
                         np.asarray(UTPM.extract_jacobian(part(g(UTPM.init_jacobian(x))))))
        Hc = np.asarray(UTPM.extract_hessian(N, g(UTPM.init_hessian(x))))
        Hvc = np.asarray(UTPM.extract_hess_vec(N, g(UTPM.init_hess_vec(x, v))))
        Jc = np.asarray(UTPM.extract_jacobian(g(UTPM.init_jacobian(x))))
    except Exception as ex:
        return 'cplxpoly-exception: the drivers of a complex-valued function raised %s' % (type(ex).__name__ + ':' + str(ex)[:60])
    for nm, got, k in (('hessian', Hc, 0), ('hess_vec', Hvc, 1), ('jacobian', Jc, 2)):
        want_c = parts['real'][k] + 1j * parts['imag'][k]
        if got.shape != want_c.shape or not close(got, want_c, 1e-9):
            return 'cplxpoly-%s: for a complex-valued function extract_%s is not (derivatives of the real part) + i (derivatives of the imaginary part); result dtype %s' % (nm, nm, got.dtype)
    # a complex seed point (polynomials are entire): every driver expands at the point given, not at its real part
    z = x + 1j * np.array(case['v'], dtype=float)

    def q(x_):
        return x_[0] * x_[0] * x_[N - 1] + c * x_[1 % N] * x_[0]
    qz = np.zeros(N, dtype=complex)                      # exact gradient of q at z
    qz[0] += 2 * z[0] * z[N - 1] + c * z[1 % N]
    qz[N - 1] += z[0] * z[0]
    qz[1 % N] += c * z[0]
    try:
        Jz = np.asarray(UTPM.extract_jacobian(q(UTPM.init_jacobian(z))))
        Jvz = np.asarray(UTPM.extract_jac_vec(q(UTPM.init_jac_vec(z, v))))
        Tz = np.asarray(UTPM.extract_tensor(N, q(UTPM.init_tensor(1, z)), as_full_matrix=True))
        Hz = np.asarray(UTPM.extract_hessian(N, q(UTPM.init_hessian(z))))
        T2 = np.asarray(UTPM.extract_tensor(N, q(UTPM.init_tensor(2, z)), as_full_matrix=True))
    except Exception as ex:
        return 'cplxpoint-exception: the drivers at a complex seed point raised %s' % (type(ex).__name__ + ':' + str(ex)[:60])
    for nm, got, want_ in (('jacobian', Jz, qz), ('jac_vec', Jvz, qz @ v), ('tensor(d=1)', Tz.reshape(-1), qz), ('tensor(d=2) vs hessian', T2, Hz)):
        if np.shape(got) != np.shape(want_) or not close(got, want_, 1e-9):
            return 'cplxpoint-%s: at a complex seed point the driver does not return the derivative at that point (result dtype %s)' % (nm, np.asarray(got).dtype)
    return None


# ---- smooth program at an integer point given in integer types: same derivatives as at the float point ---------------
def intpoint_case(rng, tier):
    N = rng.randint(1, 4)
    return {'op': 'intpoint', 'N': N, 'x': [rng.randint(-3, 3) for _ in range(N)], 'v': [rng.randint(-2, 2) / 2.0 for _ in range(N)],
            'kind': rng.choice(['list', 'int64', 'int32', 'int16', 'uint8', 'bool'])}


def intpoint_fails(case):
    N = case['N']
    xs = [abs(a) for a in case['x']] if case['kind'] == 'uint8' else ([int(a % 2) for a in case['x']] if case['kind'] == 'bool' else case['x'])
    v = np.array(case['v'])
    xi = list(xs) if case['kind'] == 'list' else np.array(xs, dtype=case['kind'])
    xf = np.array(xs, dtype=float)

    def f(x):
        return algopy.sum(algopy.sin(x) * x) + algopy.exp(0.5 * x[0])
    res = {}
    for tag, x in (('int', xi), ('float', xf)):
        try:
            with np.errstate(all='ignore'):
                res[tag] = (np.asarray(UTPM.extract_jacobian(f(UTPM.init_jacobian(x))), dtype=float),
                            np.asarray(UTPM.extract_jac_vec(f(UTPM.init_jac_vec(x, v))), dtype=float),
                            np.asarray(UTPM.extract_hessian(N, f(UTPM.init_hessian(x))), dtype=float),
                            np.asarray(UTPM.extract_hess_vec(N, f(UTPM.init_hess_vec(x, v))), dtype=float),
                            np.asarray(UTPM.extract_tensor(N, f(UTPM.init_tensor(2, x))), dtype=float),
                            np.asarray(UTPM.extract_tensor(N, f(UTPM.init_tensor(3, x)), as_full_matrix=False), dtype=float))
        except Exception as ex:
            if tag == 'float':
                return None
            return 'intpoint-exception: a driver raised %s at the integer point %s given as %s' % (type(ex).__name__, xs, case['kind'])
    for name, a, b in zip(('jacobian', 'jac_vec', 'hessian', 'hess_vec', 'tensor(d=2)', 'tensor(d=3)'), res['int'], res['float']):
        if a.shape != b.shape or not close(a, b, 1e-12 if not name.startswith('tensor') else 1e-9):
            return 'intpoint-%s: at the integer point %s given as %s the result differs from the one at the same point given as float (max diff %s)' % (
                name, xs, case['kind'], maxdiff(a, b) if a.shape == b.shape else 'shape')
    return None


# ---- nested seeds (forward over forward): the seed point is a vector of Taylor polynomials x_i + t v_i -------------
def nested_case(rng, tier):
    N = rng.randint(2, 5)
    return {'op': 'nested', 'N': N, 'c': rng.randint(-3, 3), 'x': [rng.randint(-4, 4) for _ in range(N)],
            'v': [rng.randint(-3, 3) for _ in range(N)]}


def nested_fails(case):
    """F_i = x_i x_{i+1} + c x_i^2 (i < N-1), R^N -> R^(N-1); with nested seeds the extracted Jacobian is the Taylor
    polynomial J(x) + t dJ/dt, and J is linear in x, so dJ/dt along v is J(v)"""
    N, c = case['N'], case['c']
    x, v = np.array(case['x'], dtype=float), np.array(case['v'], dtype=float)

    def Fm(X):
        return X[:N - 1] * X[1:] + c * X[:N - 1] * X[:N - 1]

    def Jex(z):
        J = np.zeros((N - 1, N))
        for i in range(N - 1):
            J[i, i] = z[i + 1] + 2 * c * z[i]
            J[i, i + 1] = z[i]
        return J
    try:
        Jp = UTPM.extract_jacobian(Fm(UTPM.init_jacobian(x)))
        inner = UTPM.init_jac_vec(x, v)
        xs = np.array([inner[i] for i in range(N)], dtype=object)
        Jn = UTPM.extract_jacobian(Fm(UTPM.init_jacobian(xs)))
    except Exception as ex:
        return 'nested-exception: %s' % (type(ex).__name__ + ':' + str(ex)[:100])
    if np.shape(Jp) != (N - 1, N) or not np.array_equal(np.asarray(Jp, dtype=float), Jex(x)):
        return 'nested-plain-jacobian: extract_jacobian differs from the exact Jacobian'
    if not isinstance(Jn, UTPM) or Jn.data.shape != (2, 1, N - 1, N):
        return 'nested-shape: extract_jacobian with nested seeds returned %s' % (getattr(getattr(Jn, 'data', None), 'shape', type(Jn).__name__),)
    if not np.array_equal(Jn.data[0, 0], Jex(x)) or not np.array_equal(Jn.data[1, 0], Jex(v)):
        return 'nested-jacobian: with nested seeds (x_i + t v_i) the extracted Jacobian is not J(x) + t dJ/dt (exact integer polynomial map)'
    return None


# ---- two tensor computations interleaved: seed A, seed B, extract A, extract B ---------------------------------
def interleave_case(rng, tier):
    (NA, dA), (NB, dB) = rng.choice([((3, 3), (4, 2)), ((4, 2), (3, 3)), ((2, 3), (4, 1)), ((2, 2), (3, 1)), ((1, 2), (1, 3)),
                                     ((1, 4), (1, 2)), ((2, 2), (2, 3)), ((3, 2), (2, 2))])

    def mk(N):
        return ([(rng.randint(-3, 3) or 1, [rng.randint(0, 3) for _ in range(N)]) for _ in range(rng.randint(1, 3))],
                [rng.randint(-2, 2) for _ in range(N)])
    tA, xA = mk(NA)
    tB, xB = mk(NB)
    return {'op': 'interleave', 'A': {'N': NA, 'd': dA, 'terms': tA, 'x': xA}, 'B': {'N': NB, 'd': dB, 'terms': tB, 'x': xB}}


def interleave_fails(case):
    import algopy.exact_interpolation as ei
    A, B = case['A'], case['B']

    def f(terms, N):
        return lambda x: peval(terms, [x[i] for i in range(N)]) + 0 * x[0]

    def want(P_):
        mi = ei.generate_multi_indices(P_['N'], P_['d'])
        return np.array([float(exact_partial(P_['terms'], P_['x'], tuple(int(a) for a in al)) / math.prod(math.factorial(int(a)) for a in al)) for al in mi])
    try:
        yA = f(A['terms'], A['N'])(UTPM.init_tensor(A['d'], np.asarray(A['x'], dtype=float)))
        yB = f(B['terms'], B['N'])(UTPM.init_tensor(B['d'], np.asarray(B['x'], dtype=float)))
        TA = UTPM.extract_tensor(A['N'], yA, as_full_matrix=False)
        TB = UTPM.extract_tensor(B['N'], yB, as_full_matrix=False)
    except Exception as ex:
        return 'interleave-exception: %s' % (type(ex).__name__ + ':' + str(ex)[:100])
    if not close(np.ravel(TA), want(A), 1e-8):
        return 'interleave-tensor: extract_tensor for (N=%d, d=%d) is wrong when another problem (N=%d, d=%d) was seeded in between' % (A['N'], A['d'], B['N'], B['d'])
    if not close(np.ravel(TB), want(B), 1e-8):
        return 'interleave-tensor: extract_tensor for (N=%d, d=%d) is wrong after extracting (N=%d, d=%d)' % (B['N'], B['d'], A['N'], A['d'])
    return None


def empty_value_fails():
    """a program whose value is an EMPTY array (differences of neighbours of a vector of length one): every driver returns the
    empty derivative array of the right shape"""
    def res(x):
        return x[1:] * x[1:] - x[:-1] * x[:-1]
    x, v = np.array([3.0]), np.array([1.0])
    try:
        J = np.asarray(UTPM.extract_jacobian(res(UTPM.init_jacobian(x))))
        Jv = np.asarray(UTPM.extract_jac_vec(res(UTPM.init_jac_vec(x, v))))
    except Exception as ex:
        return 'empty-value-exception: a driver raised %s for a program with an empty value' % (type(ex).__name__ + ':' + str(ex)[:60])
    if J.shape != (0, 1) or Jv.shape != (0,):
        return 'empty-value-shape: Jacobian shape %s (expected (0, 1)), J v shape %s (expected (0,))' % (J.shape, Jv.shape)
    return None


def utp_drivers_fail(case):
    """the drivers called on the exported convenience class algopy.UTP give the same seeds and the same derivatives as on UTPM"""
    x, v = np.array(case['x'], dtype=float), np.array(case['v'], dtype=float)
    N = x.size

    def f(z):
        return z[0] * z[0] * z[N - 1] + 3.0 * z[N - 1] * z[N - 1] * z[N - 1] + z[0]
    pairs = [('jacobian', lambda C: C.init_jacobian(x), lambda C, y: C.extract_jacobian(y)), ('jac_vec', lambda C: C.init_jac_vec(x, v), lambda C, y: C.extract_jac_vec(y)),
             ('hessian', lambda C: C.init_hessian(x), lambda C, y: C.extract_hessian(N, y)), ('hess_vec', lambda C: C.init_hess_vec(x, v), lambda C, y: C.extract_hess_vec(N, y)),
             ('tensor', lambda C: C.init_tensor(3, x), lambda C, y: C.extract_tensor(N, y))]
    for nm, init, ext in pairs:
        want_seed = init(UTPM)
        want = np.asarray(ext(UTPM, f(want_seed)))
        try:
            seed = init(algopy.UTP)
            got = np.asarray(ext(algopy.UTP, f(seed)))
        except Exception as ex:
            return 'utpclass-driver-exception-%s: through algopy.UTP raised %s' % (nm, type(ex).__name__ + ':' + str(ex)[:70])
        if seed.data.shape != want_seed.data.shape or not np.array_equal(seed.data, want_seed.data):
            return 'utpclass-driver-seed-%s: UTP.init_%s gives a coefficient array of shape %s, UTPM.init_%s %s' % (nm, nm, seed.data.shape, nm, want_seed.data.shape)
        if got.shape != want.shape or not close(got, want, 1e-12):
            return 'utpclass-driver-%s: the derivative obtained through algopy.UTP differs from the one through UTPM' % nm
    return None


def replay_case(ctx, case):
    if case.get('op') == 'utp-drivers':
        return utp_drivers_fail(case)
    if case.get('op') == 'empty-value':
        return empty_value_fails()
    if case.get('op') == 'interleave':
        return interleave_fails(case)
    if case.get('op') == 'nested':
        return nested_fails(case)
    if case.get('op') == 'intpoint':
        return intpoint_fails(case)
    if case.get('op') == 'arrpoly':
        return arrpoly_fails(case)
    if case.get('op') == 'scalar-point':
        return scalar_point_fails(case)
    if case.get('op') == 'poly':
        return poly_fails(case)
    if case.get('op') == 'smooth':
        return smooth_fails(case)
    return tables_fail(ctx, case['N'])


def run(ctx):
    ctx.evaluations += 1
    ctx.count('empty-value')
    f_ = empty_value_fails()
    if f_:
        ctx.report({'op': 'empty-value'}, 'failure', f_)
    for N_ in (1, 2, 3):
        case = {'op': 'utp-drivers', 'x': rand_coeffs(ctx.rng, (N_,), -2, 2), 'v': rand_coeffs(ctx.rng, (N_,), -1, 1)}
        ctx.evaluations += 1
        ctx.count('utpclass-drivers')
        f_ = utp_drivers_fail(case)
        if f_:
            ctx.report(case, 'failure', f_)
    rng = ctx.rng
    Nmax = 6 if ctx.tier == 'quick' else 9
    for N in range(1, Nmax + 1):
        ctx.evaluations += 1
        ctx.count('tables')
        if N >= 2:
            ctx.nontrivial += 1
        f = tables_fail(ctx, N)
        if f:
            ctx.report({'op': 'tables', 'N': N}, 'failure', f)
    for i in range(200 if ctx.tier == 'quick' else 1000):
        case = poly_sep_case(rng, ctx.tier) if i % 10 == 9 else poly_case(rng, ctx.tier)
        ctx.evaluations += 1
        ctx.count('poly-separable-scales' if case.get('sep') else 'poly', 'N=%d' % case['N'], 'd=%d' % case['d'])
        h = canon_hash(case)
        if h not in ctx.hashes:
            ctx.hashes.add(h)
            if case['N'] >= 2:
                ctx.nontrivial += 1
        if len(ctx.samples) < 2 and case['N'] >= 2:
            ctx.samples.append(case)
        f = poly_fails(case)
        if f:
            ctx.report(case, 'failure', f)
    for kind in ('float', 'int', 'nd0', 'np.float64'):
        for rep in range(3):
            case = {'op': 'scalar-point', 'c': [rng.randint(-3, 3) for _ in range(rng.randint(2, 5))], 'x': rng.randint(-3, 3), 'v': rng.choice([2.0, -1.5, 1.0]), 'kind': kind}
            ctx.evaluations += 1
            ctx.count('scalar-point=' + kind)
            f = scalar_point_fails(case)
            if f:
                ctx.report(case, 'failure', f)
    for i in range(40 if ctx.tier == 'quick' else 400):
        case = intpoint_case(rng, ctx.tier)
        if i < 6:
            case['kind'] = ['list', 'int64', 'int32', 'int16', 'uint8', 'bool'][i]       # every kind on every run
            if case['N'] < 2:
                case['N'], case['x'], case['v'] = 3, [1, 0, 1], [0.5, -1.0, 1.5]
        ctx.evaluations += 1
        ctx.count('int-point=' + case['kind'])
        f = intpoint_fails(case)
        if f:
            ctx.report(case, 'failure', f)
    for i in range(40 if ctx.tier == 'quick' else 400):
        case = nested_case(rng, ctx.tier)
        ctx.evaluations += 1
        ctx.count('nested-seeds')
        f = nested_fails(case)
        if f:
            ctx.report(case, 'failure', f)
    for i in range(40 if ctx.tier == 'quick' else 400):
        case = interleave_case(rng, ctx.tier)
        ctx.evaluations += 1
        ctx.count('interleave')
        h = canon_hash(case)
        if h not in ctx.hashes:
            ctx.hashes.add(h)
            ctx.nontrivial += 1
        f = interleave_fails(case)
        if f:
            ctx.report(case, 'failure', f)
    for i in range(60 if ctx.tier == 'quick' else 800):
        case = arrpoly_case(rng, ctx.tier)
        case['reads'] = (i % 8 == 0)             # the repeated reads of every extractor (second-order seeds: costly) on every 8th case
        ctx.evaluations += 1
        ctx.count('arrpoly', 'rank=%d' % len(case['oshape']))
        h = canon_hash(case)
        if h not in ctx.hashes:
            ctx.hashes.add(h)
            ctx.nontrivial += 1
        f = arrpoly_fails(case)
        if f:
            ctx.report(case, 'failure', f)
    for i in range(150 if ctx.tier == 'quick' else 2000):
        case = smooth_case(rng, ctx.tier)
        ctx.evaluations += 1
        ctx.count('smooth', 'N=%d' % case['N'])
        h = canon_hash(to_jsonable(case))
        if h not in ctx.hashes:
            ctx.hashes.add(h)
            if case['N'] >= 2:
                ctx.nontrivial += 1
        f = smooth_fails(case)
        if f:
            ctx.report(case, 'failure', f)
