"""C05 — replaying a recorded graph reproduces the program.

Oracle on the implementation:
 (a) while recording, every traced value equals the value of the same program run directly on the
     unwrapped operands;
 (b) cg.function(new inputs) equals the program run directly on those inputs — plain arrays or UTPMs
     of any (D,P) unrelated to the recording, several replays in any order, programs with buffers /
     views / overwrites / keyword arguments;
 (c) recording structure: IDs are positions, every argument node precedes its user, one node per
     executed operation while tracing is on, nothing is recorded while tracing is off.
Correspondence: the recording invariant of the Lean tracer state machine (`Model/Tracer.lean`) is
replayed on the same operation sequence (node count, IDs, argument IDs)."""
import numpy as np
from common import *
import programs
from programs import gen_program, run_program, trace

RULE = ('cases = (program, recording input kind/(D,P), list of replay inputs with other kinds/(D,P)); non-trivial = program has >= 3 steps '
        'and at least one replay uses a different kind or (D,P) than the recording; distinct by hash')
ASSUMPTIONS = ['values compared with tolerance 1e-12 relative (same floating point operations expected)']


def mk_input(rng, shape, kind, D, P):
    if kind == 'nd':
        return rand_coeffs(rng, tuple(shape), -programs.BOX, programs.BOX)
    x = rand_coeffs(rng, (D, P) + tuple(shape), -1, 1)
    x[0] = rand_coeffs(rng, (P,) + tuple(shape), -programs.BOX, programs.BOX)
    return x


def wrap(a, kind):
    return np.array(a) if kind == 'nd' else UTPM(np.array(a))


def val(o):
    return np.array(o.data) if isinstance(o, UTPM) else np.asarray(o)


def make_case(rng, tier, prog0=None):
    kinds = ['ew', 'ew', 'bin', 'bin', 'binc', 'getitem', 'sum', 'transpose', 'reshape', 'dot', 'dotc', 'outer', 'prod', 'buffer', 'buffer', 'powbin', 'fftfilter', 'symvec', 'maxmin', 'bufferiop', 'tri', 'cplxparts', 'setarr', 'realalias']
    prog = gen_program(rng, maxsteps=6 if tier == 'quick' else 12, kinds=kinds)
    if rng.random() < 0.08:
        # symvec of a non-symmetric square matrix with an explicit UPLO through the dispatcher, then vecsym, then whatever follows
        n = rng.choice([2, 3])
        prog = {'inputs': [[n, n]], 'steps': [{'op': 'symvec', 'a': 0, 'UPLO': rng.choice(['L', 'U', 'F'])}, {'op': 'vecsym', 'a': 1},
                                               {'op': 'bin', 'fn': 'mul', 'a': 2, 'b': 0}], 'out': 3, 'out_shape': [n, n]}
    if rng.random() < 0.06:
        # a traced base raised to a traced exponent: (x*x + 1) ** (0.5*x + 1), followed by whatever the generator appends
        n = rng.choice([2, 3])
        prog = {'inputs': [[n]], 'steps': [{'op': 'ew', 'fn': 'pow2', 'a': 0}, {'op': 'binc', 'fn': 'add', 'a': 1, 'c': 1.0, 'side': 'r'},
                                            {'op': 'binc', 'fn': 'mul', 'a': 0, 'c': 0.5, 'side': 'r'}, {'op': 'binc', 'fn': 'add', 'a': 3, 'c': 1.0, 'side': 'r'},
                                            {'op': 'bin', 'fn': 'pow', 'a': 2, 'b': 4}], 'out': 5, 'out_shape': [n]}
    if prog0 is not None:
        prog = prog0
    rec_kind = rng.choice(['nd', 'ut', 'ut'])
    D, P = rng.randint(1, 3), rng.randint(1, 2)
    rec = [mk_input(rng, s, rec_kind, D, P) for s in prog['inputs']]
    replays = []
    kinds_forced = ['nd', 'ut'] if prog0 is not None else []      # the fixed single-operation programs: replays of both kinds
    for _ in range(max(len(kinds_forced), rng.randint(1, 3 if tier == 'quick' else 6))):
        k = kinds_forced.pop() if kinds_forced else rng.choice(['nd', 'ut', 'ut'])
        D2, P2 = rng.randint(1, 4), rng.randint(1, 3)
        replays.append({'kind': k, 'D': D2, 'P': P2, 'xs': [mk_input(rng, s, k, D2, P2) for s in prog['inputs']]})
    return {'prog': prog, 'rec_kind': rec_kind, 'D': D, 'P': P, 'rec': rec, 'replays': replays,
            'fft_axis': rng.choice([None, 0, 1, -1]) if rng.random() < 0.25 else None}


def program_with_kwargs(prog, axis):
    """optionally append an fft over a given axis (a node recorded with keyword arguments)"""
    return prog


def check(case):
    prog = case['prog']
    tag = 'program'
    rec_in = [wrap(a, case['rec_kind']) for a in case['rec']]
    try:
        with np.errstate(all='ignore'):
            direct = run_program(prog, [wrap(a, case['rec_kind']) for a in case['rec']])
    except Exception:
        return None
    try:
        with np.errstate(all='ignore'):
            cg, fx, fy = trace(prog, rec_in)
    except Exception as ex:
        return 'record-exception: recording raised %s although the direct run succeeds' % (type(ex).__name__ + ':' + str(ex)[:80])
    if not isinstance(fy, algopy.Function):
        return 'record-untraced: the program run on traced operands returned a %s, not a traced node (an operation escaped the recording)' % type(fy).__name__
    # (a) values while recording
    if not close(val(fy.x), val(direct), 1e-12):
        return 'record-value: traced value differs from the direct evaluation while recording'
    # (c) structure
    fl = cg.functionList
    if cg.functionCount != len(fl):
        return 'structure: functionCount != len(functionList)'
    for pos, f in enumerate(fl):
        if f.ID != pos:
            return 'structure: node at position %d has ID %s' % (pos, f.ID)
        for a in f.args:
            if isinstance(a, algopy.Function) and a is not f and not (a.ID < f.ID):
                return 'structure: node %d uses a later node %d' % (f.ID, a.ID)
    n_before = len(fl)
    # nothing is recorded while tracing is off
    try:
        run_program(prog, [algopy.Function(wrap(a, case['rec_kind'])) for a in case['rec']])
    except Exception:
        pass
    if len(cg.functionList) != n_before:
        return 'structure: %d nodes were recorded while tracing was off' % (len(cg.functionList) - n_before)
    # (b) replays
    order = list(range(len(case['replays'])))
    for r in order + order[::-1]:
        rp = case['replays'][r]
        try:
            with np.errstate(all='ignore'):
                want = run_program(prog, [wrap(a, rp['kind']) for a in rp['xs']])
        except Exception:
            continue
        try:
            with np.errstate(all='ignore'):
                got = cg.function([wrap(a, rp['kind']) for a in rp['xs']])[0]
        except Exception as ex:
            return 'replay-exception: replay with %s inputs (D=%d,P=%d) raised %s' % (rp['kind'], rp['D'], rp['P'], str(ex).strip().splitlines()[-1][:100])
        if type(got) != type(want) and not (np.isscalar(got) or np.isscalar(want)):
            return 'replay-type: replay returned %s, direct evaluation %s' % (type(got).__name__, type(want).__name__)
        if not close(val(got), val(want), 1e-12):
            return 'replay-value: replay with %s inputs (recorded with %s) differs from the direct evaluation, max diff %s' % (
                rp['kind'], case['rec_kind'], maxdiff(val(got), val(want)))
    return None


# ---- correspondence with the recording state machine of the Lean model ------------------
FN = {}


def fid(name):
    return FN.setdefault(name, len(FN))


def expected_ops(prog):
    """the operations the overloads must record for this program, with argument node IDs (None = not modelled)"""
    ops = []
    var2node = {}
    nid = [0]

    def emit(name, args):
        ops.append({'f': fid(name), 'args': args})
        nid[0] += 1
        return nid[0] - 1
    for i, _ in enumerate(prog['inputs']):
        var2node[i] = emit('Id', [{'n': nid[0]}])          # Function(x): Id node whose argument is itself
    nv = len(prog['inputs'])
    for st in prog['steps']:
        op = st['op']
        if op == 'ew' and st['fn'] in ('csub', 'cdiv', 'cpow'):
            return None                                   # compound steps: several nodes, not modelled
        if op == 'ew':
            name = {'pow2': 'pow', 'pow3': 'pow', 'powm2': 'pow', 'pow1.5': 'pow', 'polygammaA': 'polygamma'}.get(st['fn'], st['fn'])
            args = [{'n': var2node[st['a']]}] + ([{'c': 0}] if name == 'pow' else [])
            if name == 'polygamma':
                args = [{'c': 0}] + args              # polygamma(m, x): the order is a constant argument
            var2node[nv] = emit(name, args)
        elif op == 'bin':
            var2node[nv] = emit({'add': 'add', 'sub': 'sub', 'mul': 'mul', 'div': 'truediv', 'pow': 'pow'}[st['fn']], [{'n': var2node[st['a']]}, {'n': var2node[st['b']]}])
        elif op == 'binc':
            a = var2node[st['a']]
            fn = st['fn']
            if st['side'] == 'r':
                c = emit('Id', [{'n': nid[0]}])
                var2node[nv] = emit({'add': 'add', 'sub': 'sub', 'mul': 'mul', 'div': 'truediv'}[fn], [{'n': a}, {'n': c}])
            elif fn in ('add', 'mul'):
                c = emit('Id', [{'n': nid[0]}])
                var2node[nv] = emit(fn, [{'n': a}, {'n': c}])
            elif fn == 'sub':
                ng = emit('neg', [{'n': a}])
                c = emit('Id', [{'n': nid[0]}])
                var2node[nv] = emit('add', [{'n': ng}, {'n': c}])
            else:
                c = emit('Id', [{'n': nid[0]}])
                var2node[nv] = emit('truediv', [{'n': c}, {'n': a}])
        elif op in ('getitem',):
            var2node[nv] = emit('getitem', [{'n': var2node[st['a']]}, {'c': 0}])
        elif op == 'sum':
            var2node[nv] = emit('sum', [{'n': var2node[st['a']]}])
        elif op == 'prod':
            var2node[nv] = emit('prod', [{'n': var2node[st['a']]}])
        elif op == 'transpose':
            var2node[nv] = emit('transpose', [{'n': var2node[st['a']]}])
        elif op == 'reshape':
            var2node[nv] = emit('reshape', [{'n': var2node[st['a']]}, {'c': 0}])
        elif op == 'dot':
            var2node[nv] = emit('dot', [{'n': var2node[st['a']]}, {'n': var2node[st['b']]}])
        elif op == 'outer':
            var2node[nv] = emit('outer', [{'n': var2node[st['a']]}, {'n': var2node[st['b']]}])
        elif op == 'dotc':
            c = emit('Id', [{'n': nid[0]}])
            a = var2node[st['a']]
            var2node[nv] = emit('dot', [{'n': a}, {'n': c}] if st['side'] == 'r' else [{'n': c}, {'n': a}])
        elif op in ('zeros', 'ones'):
            var2node[nv] = emit(op, [{'c': 0}, {'n': var2node[st['like']]}, {'c': 0}])
        elif op == 'setitem':
            emit('setitem', [{'n': var2node[st['buf']]}, {'c': 0}, {'n': var2node[st['val']]}])
            continue
        else:
            return None
        nv += 1
    return ops


def structure_mismatch(ctx, case):
    prog = case['prog']
    ops = expected_ops(prog)
    if ops is None:
        return None
    try:
        cg, fx, fy = trace(prog, [wrap(a, case['rec_kind']) for a in case['rec']])
    except Exception:
        return None
    m = ctx.model.ask({'op': 'tracer', 'ops': ops + ['off', {'f': 0, 'args': []}]})
    got = []
    for f in cg.functionList:
        got.append((f.func.__name__.strip('_'), f.ID, [a.ID if isinstance(a, algopy.Function) else None for a in f.args]))
    want = []
    inv = {v: k for k, v in FN.items()}
    for nd in m['nodes']:
        want.append((inv[nd['f']].strip('_'), nd['id'], [a.get('n') for a in nd['args']]))
    if len(got) != len(want) or m['count'] != cg.functionCount:
        return 'structure-count: %d nodes recorded, the recording model expects %d' % (len(got), len(want))
    for g, w in zip(got, want):
        if g != w:
            return 'structure-node: recorded node %s differs from the recording model %s' % (g, w)
    return None


def kwargs_check(rng):
    """nodes recorded with keyword arguments (fft/ifft with axis, n; sum with axis)"""
    shape = (rng.randint(2, 3), rng.randint(2, 3))
    axis = rng.choice([0, 1, -1, -2])
    which = rng.choice(['fft', 'ifft', 'sum'])
    x0 = rand_coeffs(rng, shape, -1, 1)
    x1 = rand_coeffs(rng, shape, -1, 1)
    case = {'op': 'kwargs', 'which': which, 'axis': axis, 'x0': x0, 'x1': x1}
    return case


def kwargs_fails(case):
    which, axis = case['which'], case['axis']
    f = {'fft': lambda z: algopy.fft.fft(z, axis=axis), 'ifft': lambda z: algopy.fft.ifft(z, axis=axis),
         'sum': lambda z: algopy.sum(z, axis=axis)}[which]
    cg = algopy.CGraph()
    x = algopy.Function(np.array(case['x0']))
    y = f(x)
    cg.trace_off()
    cg.independentFunctionList = [x]
    cg.dependentFunctionList = [y]
    got = cg.function([np.array(case['x1'])])[0]
    want = f(np.array(case['x1']))
    if np.shape(got) != np.shape(want) or not np.allclose(got, want, rtol=1e-12, atol=1e-12):
        return 'replay-kwargs-%s: %s(x, axis=%d) recorded, replay differs from the direct evaluation' % (which, which, axis)
    return None


def two_graphs(rng):
    """two graphs recorded one after the other; trace_on/off toggles; each replays its own program"""
    p1 = gen_program(rng, maxsteps=4, kinds=['ew', 'bin', 'binc', 'sum'])
    p2 = gen_program(rng, maxsteps=4, kinds=['ew', 'bin', 'binc', 'sum'])
    return {'op': 'two', 'p1': p1, 'p2': p2,
            'a': [rand_coeffs(rng, tuple(s), -1, 1) for s in p1['inputs']], 'b': [rand_coeffs(rng, tuple(s), -1, 1) for s in p2['inputs']],
            'a2': [rand_coeffs(rng, tuple(s), -1, 1) for s in p1['inputs']], 'b2': [rand_coeffs(rng, tuple(s), -1, 1) for s in p2['inputs']]}


def two_fails(case):
    try:
        cg1, fx1, fy1 = trace(case['p1'], [np.array(a) for a in case['a']])
        n1 = len(cg1.functionList)
        cg2, fx2, fy2 = trace(case['p2'], [np.array(a) for a in case['b']])
        if len(cg1.functionList) != n1:
            return 'two-graphs: recording the second graph added nodes to the first'
        w1 = run_program(case['p1'], [np.array(a) for a in case['a2']])
        w2 = run_program(case['p2'], [np.array(a) for a in case['b2']])
        g2 = cg2.function([np.array(a) for a in case['b2']])[0]
        g1 = cg1.function([np.array(a) for a in case['a2']])[0]
        g2b = cg2.function([np.array(a) for a in case['b2']])[0]
    except Exception as ex:
        return None
    if not (close(np.asarray(g1), np.asarray(w1), 1e-12) and close(np.asarray(g2), np.asarray(w2), 1e-12) and close(np.asarray(g2b), np.asarray(w2), 1e-12)):
        return 'two-graphs: interleaved evaluation of two graphs gives wrong values'
    return None


def cmp_case(rng):
    n = rng.randint(1, 4)
    x = np.round(rand_coeffs(rng, (n,), -1, 1) * 2) / 2
    kind = rng.choice(['scalar', 'ndarray', 'function', 'utpm', 'reflected'])
    other = x.copy()
    for i in range(n):
        if rng.random() < 0.5:
            other[i] += rng.choice([-0.5, 0.5])          # the other entries are exact ties
    return {'op': 'tracer-cmp', 'cmp': rng.choice(['lt', 'le', 'gt', 'ge']), 'kind': kind, 'x': x, 'other': other,
            'c': float(x[rng.randrange(n)])}


def cmp_fails(case):
    """comparisons with a traced operand give what the same comparison gives on the unwrapped values (ties included), so a
    data-dependent branch takes the same path while recording"""
    import operator
    from algopy import CGraph, Function
    f = getattr(operator, case['cmp'])
    x, other, kind = np.array(case['x']), np.array(case['other']), case['kind']
    cg = CGraph()
    fx = Function(x.copy())
    try:
        if kind == 'scalar':
            got, want = f(fx, case['c']), f(x, case['c'])
        elif kind == 'ndarray':
            got, want = f(fx, other.copy()), f(x, other)
        elif kind == 'function':
            got, want = f(fx, Function(other.copy())), f(x, other)
        elif kind == 'reflected':
            got, want = f(case['c'], fx), f(case['c'], x)
        else:
            ux, uo = UTPM(x.reshape((1, 1) + x.shape).copy()), UTPM(other.reshape((1, 1) + other.shape).copy())
            got, want = f(Function(ux), Function(uo)), f(ux, uo)
    except Exception as ex:
        return 'tracer-cmp-exception-%s-%s: %s' % (case['cmp'], kind, type(ex).__name__ + ':' + str(ex)[:60])
    finally:
        cg.trace_off()
    if np.shape(got) != np.shape(want) or not np.array_equal(np.asarray(got), np.asarray(want)):
        return 'tracer-cmp-%s-%s: the comparison on the traced operand gives %s, on the unwrapped values %s' % (
            case['cmp'], kind, np.asarray(got).tolist(), np.asarray(want).tolist())
    return None


def workarray_replay_fails(case):
    """a program that accumulates into the rows of a work array wrapped by hand (owning storage or a view of a larger
    allocation; updates through view nodes): every replay equals the direct run with a fresh work array"""
    D, P = case['D'], case['P']

    def prog(x, acc):
        r0, r1 = acc[0], acc[1]
        r0 += x
        r1 += x * x
        r0 += r1
        return acc * acc

    def fresh():
        z = np.zeros((2, D, P, 2, 3))[0] if case['nonowning'] else np.zeros((D, P, 2, 3))
        return UTPM(z)
    rec = np.array(case['rec'])
    cg = algopy.CGraph()
    fx = algopy.Function(UTPM(rec.copy()))
    fy = prog(fx, algopy.Function(fresh()))
    cg.trace_off()
    cg.independentFunctionList = [fx]
    cg.dependentFunctionList = [fy]
    if not close(fy.x.data, prog(UTPM(rec.copy()), fresh()).data, 1e-12):
        return 'workarray-record-value: traced value differs from the direct run while recording'
    for k, pt in enumerate(case['pts']):
        pt = np.array(pt)
        want = prog(UTPM(pt.copy()), fresh()).data
        try:
            got = cg.function([UTPM(pt.copy())])[0].data
        except Exception as ex:
            return 'workarray-replay-exception: %s' % (type(ex).__name__ + ':' + str(ex)[:60])
        if not close(got, want, 1e-12):
            return 'workarray-replay: replay number %d differs from the direct run with a fresh work array (max diff %s; non-owning storage: %s)' % (
                k + 1, maxdiff(got, want), case['nonowning'])
    return None


TIE_PROGRAMS = {
    'min(x,x*x)': lambda x: algopy.minimum(x, x * x), 'min(x*x,x)': lambda x: algopy.minimum(x * x, x),
    'max(x,x*x)': lambda x: algopy.maximum(x, x * x), 'max(x*x,x)': lambda x: algopy.maximum(x * x, x),
    'min(x,2x-x*x)+max(x,x*x*x)': lambda x: algopy.minimum(x, 2.0 * x - x * x) + algopy.maximum(x, x * x * x),
}


def tie_program_fails(case):
    """selections between two traced operands whose base points TIE exactly in some entries (x vs x*x at 0 and 1) while their
    higher coefficients differ: the replay picks the same operand as the direct run, entry by entry"""
    f = TIE_PROGRAMS[case['prog']]
    rec = np.array(case['rec'])
    cg = algopy.CGraph()
    fx = algopy.Function(UTPM(rec.copy()) if case['rec_kind'] == 'utpm' else rec[0, 0].copy())
    fy = f(fx)
    cg.trace_off()
    cg.independentFunctionList = [fx]
    cg.dependentFunctionList = [fy]
    want0 = f(UTPM(rec.copy()) if case['rec_kind'] == 'utpm' else rec[0, 0].copy())
    if not close(val(fy.x), val(want0), 1e-12):
        return 'tie-record-value: %s: traced value differs from the direct run while recording (tied base points)' % case['prog']
    for k, pt in enumerate(case['pts']):
        pt = np.array(pt)
        want = f(UTPM(pt.copy())).data
        try:
            got = cg.function([UTPM(pt.copy())])[0].data
        except Exception as ex:
            return 'tie-replay-exception: %s' % (type(ex).__name__ + ':' + str(ex)[:60])
        if got.shape != want.shape or not close(got, want, 1e-12):
            return 'tie-replay: %s: replay number %d differs from the direct run at tied base points (max diff %s)' % (case['prog'], k + 1, maxdiff(got, want))
    return None


def buffer0d_fails(case):
    """a 0-d work array allocated by the program (algopy.zeros / ones with shape ()) and updated in place by a helper function
    (NumPy and UTPM update a 0-d ARRAY in place, unlike a Python scalar): traced value and replays equal the direct run"""
    def accumulate(out, v):
        out += v

    def scale(out, v):
        out *= v

    def prog(x):
        total = algopy.zeros((), dtype=x) if case['alloc'] == 'zeros' else algopy.ones((), dtype=x)
        for i in range(3):
            accumulate(total, x[i] * x[i])
        if case['alloc'] == 'ones':
            scale(total, x[0])
        if case.get('copy'):
            # a private copy of the 0-d work array, updated by a helper as well (ndarray.copy() / UTPM.copy() of a 0-d array is a 0-d array)
            acc = total.copy()
            accumulate(acc, x[1])
            return acc * 1.0 + total
        return total * 1.0
    mk = lambda a, kind: UTPM(np.array(a).copy()) if kind == 'utpm' else np.array(a)[0, 0].copy()
    rec = case['rec']
    want0 = prog(mk(rec, case['rec_kind']))
    cg = algopy.CGraph()
    fx = algopy.Function(mk(rec, case['rec_kind']))
    try:
        fy = prog(fx)
    except Exception as ex:
        cg.trace_off()
        return 'buffer0d-record-exception: %s' % (type(ex).__name__ + ':' + str(ex)[:60])
    cg.trace_off()
    cg.independentFunctionList = [fx]
    cg.dependentFunctionList = [fy]
    if not close(val(fy.x), val(want0), 1e-12):
        return 'buffer0d-record-value: the traced value of a program accumulating into a 0-d work array (%s) differs from the direct run while recording' % case['alloc']
    for k, (kind, pt) in enumerate(case['pts']):
        want = prog(mk(pt, kind))
        try:
            got = cg.function([mk(pt, kind)])[0]
        except Exception as ex:
            return 'buffer0d-replay-exception: replay on %s raised %s' % (kind, type(ex).__name__ + ':' + str(ex)[:60])
        if np.shape(val(got)) != np.shape(val(want)) or not close(val(got), val(want), 1e-12):
            return 'buffer0d-replay: replay number %d (on %s, recorded on %s) differs from the direct run (0-d work array, %s)' % (k + 1, kind, case['rec_kind'], case['alloc'])
    return None


def deepcopy_midrecord_fails(case):
    """copy.deepcopy of a FINISHED graph A in the middle of the recording of another graph B (and while no graph is recording):
    B keeps recording into B -- every operation of its program is in B, after its operands, and B replays as the direct run;
    nothing is added to A; with recording off nothing is recorded afterwards either"""
    import copy
    a0, b0 = np.array(case['a']), np.array(case['b'])
    cgA = algopy.CGraph()
    fa = algopy.Function(a0.copy())
    fya = algopy.sum(fa * fa)
    cgA.trace_off()
    cgA.independentFunctionList = [fa]
    cgA.dependentFunctionList = [fya]
    nA = len(cgA.functionList)
    prog = lambda x: algopy.sum(algopy.sin(x) * x) + x[0] * x[1]
    cgB = algopy.CGraph()
    fb = algopy.Function(b0.copy())
    u = algopy.sin(fb) * fb
    snap = copy.deepcopy(cgA)                       # <- in the middle of B's program
    fyb = algopy.sum(u) + fb[0] * fb[1]
    cgB.trace_off()
    cgB.independentFunctionList = [fb]
    cgB.dependentFunctionList = [fyb]
    if len(cgA.functionList) != nA:
        return 'deepcopy-midrecord: %d operation(s) of graph B were recorded into the finished graph A after copy.deepcopy(A)' % (len(cgA.functionList) - nA)
    names = [f.func.__name__ if hasattr(f.func, '__name__') else str(f.func) for f in cgB.functionList]
    if len(cgB.functionList) != 8:
        return 'deepcopy-midrecord-structure: graph B holds %d nodes after copy.deepcopy(A) in the middle of its recording, its program has 8 (%s)' % (len(cgB.functionList), names)
    for pt in case['pts']:
        pt = np.array(pt)
        try:
            got = float(np.asarray(cgB.function([pt.copy()])[0]))
            gA = float(np.asarray(snap.function([pt.copy()])[0]))
        except Exception as ex:
            return 'deepcopy-midrecord-exception: %s' % (type(ex).__name__ + ':' + str(ex)[:60])
        if not np.isclose(got, float(prog(pt)), rtol=1e-12, atol=1e-13):
            return 'deepcopy-midrecord-replay: graph B replays %r, the direct run gives %r (copy.deepcopy of another graph in the middle of its recording)' % (got, float(prog(pt)))
        if not np.isclose(gA, float(np.sum(pt * pt)), rtol=1e-12, atol=1e-13):
            return 'deepcopy-midrecord-copy: the copy of graph A replays %r, its program gives %r' % (gA, float(np.sum(pt * pt)))
    n_before = len(cgB.functionList)
    copy.deepcopy(cgB)                              # recording is off
    w = fb * 2.0 + fyb
    if len(cgB.functionList) != n_before or len(cgA.functionList) != nA:
        return 'deepcopy-recording-off: an operation executed after copy.deepcopy(graph) with recording off was recorded'
    return None


def replay_case(ctx, case):
    if case.get('op') == 'deepcopy-midrecord':
        return deepcopy_midrecord_fails(case)
    if case.get('op') == 'buffer0d':
        return buffer0d_fails(case)
    if case.get('op') == 'tie-program':
        return tie_program_fails(case)
    if case.get('op') == 'workarray-replay':
        return workarray_replay_fails(case)
    if case.get('op') == 'tracer-cmp':
        return cmp_fails(case)
    if case.get('late'):
        return late_check(case)
    if case.get('op') == 'kwargs':
        return kwargs_fails(case)
    if case.get('op') == 'two':
        return two_fails(case)
    return check(case)


def late_case(rng, tier):
    """a program in two stages: x is wrapped, stage 1 runs on it, only then the second independent y is wrapped;
    the independents are listed in another order than they were created"""
    prog = gen_program(rng, input_shapes=[rng.choice([(2,), (3,)])], maxsteps=4,
                       kinds=['ew', 'bin', 'binc', 'getitem', 'sum', 'buffer', 'reshape'])
    c = make_case(rng, tier)
    c['prog'] = prog
    c['late'] = True
    c['order'] = rng.choice(['yx', 'yx', 'xy'])
    c['rec'] = [mk_input(rng, prog['inputs'][0], c['rec_kind'], c['D'], c['P']), mk_input(rng, (), c['rec_kind'], c['D'], c['P'])]
    for r in c['replays']:
        r['xs'] = [mk_input(rng, prog['inputs'][0], r['kind'], r['D'], r['P']), mk_input(rng, (), r['kind'], r['D'], r['P'])]
    return c


def late_check(case):
    prog = case['prog']

    def direct(x, y):
        u = run_program(prog, [x])
        return u * y + y
    try:
        with np.errstate(all='ignore'):
            want0 = direct(wrap(case['rec'][0], case['rec_kind']), wrap(case['rec'][1], case['rec_kind']))
            cg = algopy.CGraph()
            fx = algopy.Function(wrap(case['rec'][0], case['rec_kind']))
            fu = run_program(prog, [fx])
            fyv = algopy.Function(wrap(case['rec'][1], case['rec_kind']))      # wrapped only now
            fz = fu * fyv + fyv
            cg.trace_off()
    except Exception:
        return None
    yx = case['order'] == 'yx'
    cg.independentFunctionList = [fyv, fx] if yx else [fx, fyv]
    cg.dependentFunctionList = [fz]
    if not close(val(fz.x), val(want0), 1e-12):
        return 'late-record-value: traced value differs from the direct evaluation while recording'
    for rp in case['replays'] + case['replays'][::-1]:
        xv, yv = wrap(rp['xs'][0], rp['kind']), wrap(rp['xs'][1], rp['kind'])
        try:
            with np.errstate(all='ignore'):
                want = direct(wrap(rp['xs'][0], rp['kind']), wrap(rp['xs'][1], rp['kind']))
        except Exception:
            continue
        try:
            with np.errstate(all='ignore'):
                got = cg.function([yv, xv] if yx else [xv, yv])[0]
        except Exception as ex:
            return 'late-replay-exception: replay of a graph whose second independent was wrapped after stage 1 raised %s' % (
                str(ex).strip().splitlines()[-1][:100])
        if type(got) != type(want) and not (np.isscalar(got) or np.isscalar(want)):
            return 'late-replay-type: replay returned %s, direct evaluation %s (independents listed as %s)' % (type(got).__name__, type(want).__name__, case['order'])
        if not close(val(got), val(want), 1e-12):
            return 'late-replay-value: replay differs from the direct evaluation when the independents are listed as %s and y was wrapped after stage 1' % case['order']
    return None


def run(ctx):
    rng = ctx.rng
    for nonowning in (False, True):
        for D_, P_ in ((1, 1), (2, 2)):
            case = {'op': 'workarray-replay', 'nonowning': nonowning, 'D': D_, 'P': P_, 'rec': rand_coeffs(rng, (D_, P_, 3), -2, 2),
                    'pts': [rand_coeffs(rng, (D_, P_, 3), -2, 2) for _ in range(3)]}
            ctx.evaluations += 1
            ctx.count('hand-wrapped-work-array')
            f = workarray_replay_fails(case)
            if f:
                ctx.report(case, 'failure', f)
    for _i in range(2):
        case = {'op': 'deepcopy-midrecord', 'a': rand_coeffs(rng, (3,), -2, 2), 'b': rand_coeffs(rng, (3,), -2, 2), 'pts': [rand_coeffs(rng, (3,), -2, 2) for _ in range(2)]}
        ctx.evaluations += 1
        ctx.count('deepcopy-of-a-graph-while-recording')
        f = deepcopy_midrecord_fails(case)
        if f:
            ctx.report(case, 'failure', f)
    for alloc in ('zeros', 'ones'):
        for rec_kind in ('ndarray', 'utpm'):
            case = {'op': 'buffer0d', 'alloc': alloc, 'rec_kind': rec_kind, 'copy': alloc == 'zeros' and rec_kind == 'utpm' or alloc == 'ones' and rec_kind == 'ndarray',
                    'rec': rand_coeffs(rng, (3, 2, 3), -2, 2),
                    'pts': [['ndarray', rand_coeffs(rng, (1, 1, 3), -2, 2)], ['utpm', rand_coeffs(rng, (3, 2, 3), -2, 2)], ['utpm', rand_coeffs(rng, (2, 1, 3), -2, 2)],
                            ['ndarray', rand_coeffs(rng, (1, 1, 3), -2, 2)]]}
            ctx.evaluations += 1
            ctx.count('0-d-work-array')
            f = buffer0d_fails(case)
            if f:
                ctx.report(case, 'failure', f)
    for name in sorted(TIE_PROGRAMS):
        for rec_kind in ('ndarray', 'utpm'):
            def tied(D_, P_):
                a = rand_coeffs(rng, (D_, P_, 5), -2, 2)
                a[0, :, :] = np.array([0.0, 1.0, -0.5, 2.0, 1.0])          # ties of x and x*x at 0 and 1
                return a
            case = {'op': 'tie-program', 'prog': name, 'rec_kind': rec_kind, 'rec': tied(3, 2), 'pts': [tied(3, 2), tied(2, 1), tied(4, 3)]}
            ctx.evaluations += 1
            ctx.count('tie-program')
            f = tie_program_fails(case)
            if f:
                ctx.report(case, 'failure', f)
    for i in range(60 if ctx.tier == 'quick' else 600):
        case = late_case(rng, ctx.tier)
        ctx.evaluations += 1
        ctx.count('late-wrap=' + case['order'])
        f = late_check(case)
        if f:
            ctx.report(case, 'failure', f)
    # one program per recordable operation on every run (element-wise functions, structural and linear-algebra nodes),
    # then generated programs
    from props import c03
    singles = c03.single_op_programs(rng)
    for i in range(len(singles) + (300 if ctx.tier == 'quick' else 4000)):
        case = make_case(rng, ctx.tier, singles[i] if i < len(singles) else None)
        ctx.evaluations += 1
        for o in programs.ops_used(case['prog']):
            ctx.count('op=' + o.split(':')[0])
        ctx.count('rec=' + case['rec_kind'])
        h = canon_hash(to_jsonable(case))
        if h not in ctx.hashes:
            ctx.hashes.add(h)
            if len(case['prog']['steps']) >= 3 and any(r['kind'] != case['rec_kind'] or (r['D'], r['P']) != (case['D'], case['P']) for r in case['replays']):
                ctx.nontrivial += 1
        if len(ctx.samples) < 2 and len(case['prog']['steps']) >= 4:
            ctx.samples.append(to_jsonable(case))
        f = check(case)
        if f:
            ctx.report(case, 'failure', f)
        else:
            f = structure_mismatch(ctx, case)
            if f:
                ctx.report(case, 'failure', f)
            else:
                ctx.count('structure-compared')
    for i in range(120 if ctx.tier == 'quick' else 1200):
        case = cmp_case(rng)
        ctx.evaluations += 1
        ctx.count('tracer-cmp=%s-%s' % (case['cmp'], case['kind']))
        f = cmp_fails(case)
        if f:
            ctx.report(case, 'failure', f)
    for i in range(40 if ctx.tier == 'quick' else 400):
        case = kwargs_check(rng)
        ctx.evaluations += 1
        ctx.count('kwargs=' + case['which'])
        f = kwargs_fails(case)
        if f:
            ctx.report(case, 'failure', f)
    for i in range(30 if ctx.tier == 'quick' else 300):
        case = two_graphs(rng)
        ctx.evaluations += 1
        ctx.count('two-graphs')
        f = two_fails(case)
        if f:
            ctx.report(case, 'failure', f)
