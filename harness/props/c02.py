"""C02 — arithmetic is exact truncated power-series arithmetic for every operand mix.

Correspondence: `x op y` through the real operators (all operand kinds, both orders, broadcast
shape pairs, real/complex) vs the L2 model in exact (Gaussian) rational arithmetic.
Oracle on the implementation: ring identities in exact fractions ((x/y)*y == x, x*y Cauchy
product computed independently) and the dtype rule (complex in => complex out)."""
import operator
import math
import numpy as np
from common import *
from props import c01

RULE = ('cases = (operator, kind of each operand in {UTPM, int, float, complex, numpy.float64, numpy.complex128, ndarray f/c}, '
        'order, broadcast shape pair incl. constant arrays with more dimensions than the polynomial, D, P, real/complex '
        'values) from one PRNG; non-trivial = D>=2, a non-zero higher coefficient, and kinds or shapes differ; distinct by hash')
ASSUMPTIONS = ['divisor base coefficients bounded away from 0 (|y_0| >= 0.5)', 'tolerance 1e-9 relative']

OPS = {'add': operator.add, 'sub': operator.sub, 'mul': operator.mul, 'div': operator.truediv}
IOPS = {'add': operator.iadd, 'sub': operator.isub, 'mul': operator.imul, 'div': operator.itruediv}
SCALARS = ['int', 'float', 'complex', 'np.float64', 'np.complex128', 'np.int64', 'np.float32', 'np.float16', 'np.complex64', 'bigint']


def mk_scalar(rng, kind, nz=False):
    # (the neutral elements 1, 1.0, -1 are ordinary operands too: a shortcut taken for them must still return a fresh object)
    v = rng.choice([2, -3, 1, 4, 1, -1]) if kind in ('int', 'np.int64') else rng.choice([0.5, -1.25, 1.5, 2.0, -0.75, 1.0, 1.0, -1.0])
    if kind == 'int':
        return int(v)
    if kind == 'bigint':
        # a Python int beyond 64 bits (exactly representable as a float): NumPy treats it as a float constant
        return rng.choice([2 ** 64, -(2 ** 70), 3 * 2 ** 80, 2 ** 63])
    if kind == 'np.int64':
        return np.int64(v)
    if kind == 'float':
        return float(v)
    if kind == 'np.float64':
        return np.float64(v)
    if kind in ('np.float32', 'np.float16'):
        # exactly representable in the narrow type, reciprocal not (3, 5, 0.75, ...)
        w = rng.choice([3.0, -1.5, 0.75, 5.0, -6.0, 2.0])
        return np.float32(w) if kind == 'np.float32' else np.float16(w)
    im = rng.choice([0.5, -1.0, 2.0])
    if kind == 'np.complex64':
        return np.complex64(complex(rng.choice([3.0, -1.5, 0.75]), im))
    if kind == 'complex':
        return complex(v, im)
    return np.complex128(complex(v, im))


def bshape_pair(rng, maxdim):
    """a broadcastable pair (s1, s2); s2 may have fewer, equal or more dims"""
    nd = rng.randint(0, maxdim)
    full = tuple(rng.randint(1, 3) for _ in range(nd))
    def sub(s):
        s = tuple(n if rng.random() < 0.7 else 1 for n in s)
        return s[rng.randint(0, len(s)):] if rng.random() < 0.5 else s
    return sub(full), sub(full)


def gen_case(rng, tier):
    opn = rng.choice(['add', 'sub', 'mul', 'div'])
    form = rng.choice(['bin', 'bin', 'bin', 'inplace'])
    D = rng.choice([1, 2, 3, 4, 5]) if tier == 'quick' else rng.randint(1, 8)
    P = rng.choice([1, 2, 3])
    kinds = rng.choice([('U', 'U'), ('U', 'U'), ('U', 'S'), ('S', 'U'), ('U', 'A'), ('A', 'U')])
    if form == 'inplace' and kinds[0] != 'U':
        kinds = ('U', kinds[0])
    s1, s2 = bshape_pair(rng, 2 if tier == 'quick' else 3)
    cl = rng.random() < 0.2
    cr = rng.random() < 0.2

    def operand(kind, shape, cplx, divisor):
        if kind == 'U':
            x = rand_coeffs(rng, (D, P) + shape, -2, 2, sparse=rng.choice([0, 0, 0.5]), cplx=cplx)
            if divisor:
                x[0] = c01.gen_x0(rng, 'nz', (P,) + shape, cplx)
            return {'k': 'U', 'v': x}
        if kind == 'A':
            a = c01.gen_x0(rng, 'nz', shape, cplx)
            if not cplx and rng.random() < 0.2:
                a = np.array(np.round(a) + (np.round(a) == 0), dtype=np.int64)
            elif not cplx and rng.random() < 0.25:
                # the other real dtypes NumPy promotes to float64 against a float polynomial: unsigned and narrow
                # signed integers (incl. the most negative value), float32 (exactly representable values), bool
                dt = rng.choice(['uint8', 'uint16', 'uint64', 'int8', 'int32', 'float32', 'bool'])
                if dt == 'bool':
                    a = np.array(np.round(np.abs(a)) % 2 == 1)
                    if divisor:
                        a = np.ones(a.shape, dtype=bool)
                elif dt == 'float32':
                    a = (np.round(a * 4) / 4 + (np.round(a * 4) == 0)).astype(np.float32)
                elif dt.startswith('uint'):
                    a = np.array(np.abs(np.round(a)) + (np.round(a) == 0), dtype=dt)
                else:
                    a = np.array(np.round(a) + (np.round(a) == 0), dtype=dt)
                    if dt == 'int8' and a.size and rng.random() < 0.5:
                        a.flat[0] = -128
                return {'k': 'A', 'v': a, 'dt': dt}
            return {'k': 'A', 'v': a}
        sk = rng.choice(SCALARS)
        return {'k': 'S', 'sk': sk, 'v': mk_scalar(rng, sk)}

    if form == 'inplace':
        # result must have the shape of the left operand: right operand broadcasts into it
        full = tuple(max(a, b) for a, b in zip((1,) * (max(len(s1), len(s2)) - len(s1)) + s1,
                                               (1,) * (max(len(s1), len(s2)) - len(s2)) + s2))
        s1 = full
        if len(s2) > len(s1):
            s2 = s2[len(s2) - len(s1):]
    left = operand(kinds[0], s1, cl, False)
    right = operand(kinds[1], s2, cr, opn == 'div')
    return {'op': opn, 'form': form, 'D': D, 'P': P, 'l': left, 'r': right}


def obj(a):
    if a['k'] == 'U':
        return UTPM(np.array(a['v']))
    if a['k'] == 'A':
        return np.array(a['v'], dtype=a['dt']) if a.get('dt') else np.array(a['v'])
    v = a['v']
    sk = a.get('sk')
    if sk in ('int', 'bigint'):
        return int(v)
    if sk == 'nd0-int':
        return np.array(int(v))
    if sk == 'bool':
        return bool(v)
    if sk == 'float':
        return float(v)
    if sk == 'complex':
        return complex(v)
    if sk == 'np.float64':
        return np.float64(v)
    if sk == 'np.complex128':
        return np.complex128(v)
    if sk == 'np.int64':
        return np.int64(v)
    if sk in ('np.int8', 'np.uint8', 'np.int16'):
        return getattr(np, sk[3:])(v)
    if sk == 'np.float32':
        return np.float32(v)
    if sk == 'np.float16':
        return np.float16(v)
    if sk == 'np.complex64':
        return np.complex64(v)
    return v


def is_cplx(a):
    return bool(np.iscomplexobj(np.asarray(a['v'])) or a.get('sk') in ('complex', 'np.complex128', 'np.complex64'))


def run_impl(case):
    l, r = obj(case['l']), obj(case['r'])
    l0 = l.data.copy() if isinstance(l, UTPM) else None
    r0 = r.data.copy() if isinstance(r, UTPM) else (r.copy() if isinstance(r, np.ndarray) else None)
    try:
        if case['form'] == 'inplace':
            z = IOPS[case['op']](l, r)
        else:
            z = OPS[case['op']](l, r)
    except Exception as ex:
        return ('exc', type(ex).__name__ + ':' + str(ex)[:100])
    if not isinstance(z, UTPM):
        return ('exc', 'result is %s, not UTPM' % type(z).__name__)
    if case['form'] != 'inplace' and l0 is not None and not np.array_equal(l0, l.data):
        return ('mutated', 'left operand modified')
    if case['form'] != 'inplace' and z.data.size and any(isinstance(o, UTPM) and np.shares_memory(z.data, o.data) for o in (l, r)):
        return ('mutated', 'the result of the binary expression shares its coefficient storage with an operand (an in-place update of one changes the other)')
    if r0 is not None and not np.array_equal(r0, r.data if isinstance(r, UTPM) else r):
        return ('mutated', 'right operand modified')
    return ('ok', np.array(z.data))


def enc_operand(a, cplx):
    if a['k'] == 'S':
        return enc_num(a['v'], cplx)
    return enc_arr(np.array(a['v']), cplx)


def run_model(ctx, case):
    cplx = is_cplx(case['l']) or is_cplx(case['r'])
    kind = {'U': 'u', 'S': 's', 'A': 'a'}[case['l']['k']] + {'U': 'u', 'S': 's', 'A': 'a'}[case['r']['k']]
    req = {'op': 'bin', 'fn': case['op'], 'kind': kind, 'f': 'QI' if cplx else 'Q',
           'x': enc_operand(case['l'], cplx), 'y': enc_operand(case['r'], cplx)}
    r = ctx.model.arrs(req)
    return r if isinstance(r, str) else r[0]


def np_broadcastable(case):
    """does NumPy accept this shape pair (constants as degree-0 polynomials)?"""
    def shp(a):
        if a['k'] == 'U':
            return np.array(a['v']).shape[2:]
        if a['k'] == 'A':
            return np.array(a['v']).shape
        return ()
    try:
        return np.broadcast_shapes(shp(case['l']), shp(case['r']))
    except ValueError:
        return None


def run_case(ctx, case):
    st, z = run_impl(case)
    m = run_model(ctx, case)
    cplx_in = is_cplx(case['l']) or is_cplx(case['r'])
    tag = '%s-%s%s-%s' % (case['op'], case['l']['k'], case['r']['k'], case['form'])
    if st == 'mutated':
        return 'mutated-%s: %s' % (tag, z)
    if case['form'] == 'inplace':
        # in-place: defined when the result fits into the left operand (shape and dtype)
        if isinstance(m, str):
            return None
        lshape = np.array(case['l']['v']).shape
        if m.shape != lshape:
            return None
        if cplx_in and not is_cplx(case['l']):
            return None   # complex into a real buffer: not a "non-in-place result"
        if st == 'exc':
            return 'exception-%s: in-place form raised %s' % (tag, z)
        if not close(z, m):
            return 'mismatch-%s: in-place result differs from the binary expression, max diff %s' % (tag, maxdiff(z, m))
        return None
    if isinstance(m, str):
        # model says the shapes do not broadcast: the implementation must not return garbage silently
        if st == 'ok' and np_broadcastable(case) is None:
            return 'shape-%s: NumPy-incompatible shapes accepted, result shape %s' % (tag, z.shape)
        return None
    if st == 'exc':
        return 'exception-%s: raised %s' % (tag, z)
    if cplx_in and not np.iscomplexobj(z):
        return 'dtype-%s: real/complex mix returned dtype %s (imaginary part dropped)' % (tag, z.dtype)
    if z.dtype == object:
        return 'dtype-%s: the result holds Python objects (dtype object) instead of numbers' % tag
    if not close(z, m):
        return 'mismatch-%s: differs from exact power-series arithmetic, max diff %s' % (tag, maxdiff(z, m))
    dm = model_dtype(ctx, case)
    if dm is not None and dtname(z.dtype) != dm:
        return 'dtypetable-%s: result dtype %s, dtype calculus of the model says %s' % (tag, z.dtype, dm)
    return None


def dtname(dt):
    dt = np.dtype(dt)
    return 'c128' if dt.kind == 'c' else ('f64' if dt.kind == 'f' else 'i64')


def model_dtype(ctx, case):
    l, r = case['l'], case['r']
    if l['k'] == 'U':
        u, o, refl = l, r, False
    elif r['k'] == 'U':
        u, o, refl = r, l, True
    else:
        return None
    if o['k'] == 'U':
        kind, dt = 'utpm', dtname(np.array(o['v']).dtype)
    elif o['k'] == 'A':
        kind, dt = 'ndarray', dtname(np.array(o['v']).dtype)
    else:
        sk = o['sk']
        kind = {'int': 'pyint', 'bigint': 'pyint', 'float': 'pyfloat', 'complex': 'pycomplex'}.get(sk, 'npscalar')
        dt = {'np.float64': 'f64', 'np.complex128': 'c128', 'np.complex64': 'c128', 'np.int64': 'i64'}.get(sk, 'f64')
    req = {'op': 'dtype', 'aop': case['op'], 'self': dtname(np.array(u['v']).dtype), 'kind': kind, 'dt': dt, 'refl': refl}
    r = ctx.model.ask(req)
    return r.get('dt')


# ----- pow forms -------------------------------------------------------------------
def gen_pow(rng, tier):
    D = rng.choice([1, 2, 3, 4, 5])
    P = rng.choice([1, 2])
    shape = rand_shape(rng, 2, 3)
    form = rng.choice(['scalar_exp', 'scalar_exp', 'scalar_base', 'poly_exp'])
    x = rand_coeffs(rng, (D, P) + shape, -1, 1)
    x[0] = c01.gen_x0(rng, 'pos', (P,) + shape, False)
    case = {'op': 'pow', 'form': form, 'D': D, 'P': P, 'x': x}
    if form == 'scalar_exp':
        sk = rng.choice(['int', 'int', 'float', 'np.float64', 'np.int64', 'complex'])
        if sk in ('int', 'np.int64'):
            v = rng.choice([0, 1, 2, 3, 4, -1, -2])
            if v >= 0 and x[0].size:
                # non-negative Python-int exponents are plain products: defined for every base point, also 0 and negative ones
                flat = x[0].reshape(-1)
                flat[rng.randrange(flat.size)] = 0.0
                if flat.size > 1:
                    flat[rng.randrange(flat.size)] = -abs(flat[rng.randrange(flat.size)]) - 0.25
        elif sk == 'complex':
            v = complex(rng.choice([0.5, 1.5, 2.0]), rng.choice([1.0, -0.5]))
        else:
            v = rng.choice([0.5, 1.5, -0.5, 2.0, 3.0, 2.5])
        case['r'] = {'k': 'S', 'sk': sk, 'v': v}
    elif form == 'scalar_base':
        sk = rng.choice(['int', 'float', 'np.float64', 'np.int8', 'np.uint8', 'np.int16', 'np.float16', 'np.float32', 'bigint'])
        case['r'] = {'k': 'S', 'sk': sk, 'v': rng.choice([2, 3]) if sk in ('int', 'np.int8', 'np.uint8', 'np.int16') else rng.choice([0.5, 1.5, 2.5])}
        if sk == 'bigint':
            case['r']['v'] = rng.choice([2 ** 64, 10 ** 30])         # a Python int beyond 64 bits
        if rng.random() < 0.25:
            # a complex exponent polynomial; the real base may then be negative (principal branch, as NumPy: (-2.)**(1+1j))
            case['x'] = x = x + 1j * rand_coeffs(rng, x.shape, -1, 1)
            if sk in ('int', 'float', 'np.float64') and rng.random() < 0.6:
                case['r']['v'] = -case['r']['v']
    else:
        y = rand_coeffs(rng, (D, P) + shape, -1, 1)
        if rng.random() < 0.25:
            # a complex exponent polynomial over a real base polynomial (also with negative base points)
            y = y + 1j * rand_coeffs(rng, y.shape, -1, 1)
            if rng.random() < 0.5:
                x[0] = -x[0]
            if rng.random() < 0.4:
                y = (np.round(y * 8) / 8).astype(np.complex64)      # a narrow complex exponent over a float64 base: NumPy promotes to complex128
        case['y'] = y
    if form == 'scalar_exp' and rng.random() < 0.15 and case['r']['sk'] in ('int', 'np.int64') and case['r']['v'] >= 0:
        case['r']['sk'] = rng.choice(['nd0-int', 'bool']) if case['r']['v'] <= 1 else 'nd0-int'      # 0-d integer array / bool as exponent
    return case


def run_pow(ctx, case):
    x = np.array(case['x'])
    ux = UTPM(x.copy())
    form = case['form']
    try:
        if form == 'scalar_exp':
            r = obj(case['r'])
            z = ux ** r
        elif form == 'scalar_base':
            r = obj(case['r'])
            z = r ** ux
        else:
            z = ux ** UTPM(np.array(case['y']))
    except Exception as ex:
        return 'exception-pow-%s: raised %s' % (form, type(ex).__name__ + ':' + str(ex)[:80])
    z = np.array(z.data)
    tag = 'pow-%s' % form
    if form == 'scalar_exp':
        rv = case['r']['v']
        sk = case['r']['sk']
        cplx = sk == 'complex'
        if cplx and not np.iscomplexobj(z):
            return 'dtype-pow-scalar_exp: x**complex returned dtype %s (imaginary part dropped)' % z.dtype
        if sk in ('int', 'np.int64', 'nd0-int', 'bool') and rv >= 0:
            m = ctx.model.arrs({'op': 'ew1', 'fn': 'pownat', 'x': enc_arr(x), 'leaves': [], 'params': [], 'n': int(rv)})
        else:
            y0 = x[0] ** rv
            m = ctx.model.arrs({'op': 'ew1', 'fn': 'powreal', 'f': 'QI' if cplx else 'Q', 'x': enc_arr(x, cplx),
                                'leaves': [enc_arr(y0, cplx)], 'params': [enc_num(rv, cplx)]})
        m = m[0]
    elif form == 'scalar_base':
        # r**x = exp(log(r) * x)  (utpm.py:433-434)
        cx = np.iscomplexobj(x)
        import cmath
        # the logarithm of the base in double precision, whatever its scalar type; complex (principal branch) for a complex exponent
        lr = cmath.log(complex(float(obj(case['r'])))) if cx else math.log(float(obj(case['r'])))
        sx = x * lr
        m = ctx.model.arrs(dict({'op': 'ew1', 'fn': 'exp', 'x': enc_arr(sx, cx), 'leaves': [enc_arr(np.exp(sx[0]), cx)], 'params': []},
                                **({'f': 'QI'} if cx else {})))[0]
        if cx and not np.iscomplexobj(z):
            return 'dtype-pow-scalar_base: r**x with complex x returned dtype %s' % z.dtype
    else:
        # x**y = exp(log(x) * y)  (utpm.py:425-426): compose the three model kernels
        yv = np.array(case['y'])
        cx = np.iscomplexobj(yv)
        fk = {'f': 'QI'} if cx else {}
        xc = x.astype(complex) if cx else x
        lg = ctx.model.arrs(dict({'op': 'ew1', 'fn': 'log', 'x': enc_arr(xc, cx), 'leaves': [enc_arr(np.log(xc[0]), cx)], 'params': []}, **fk))[0]
        pr = ctx.model.arrs(dict({'op': 'bin', 'fn': 'mul', 'kind': 'uu', 'x': enc_arr(lg, cx), 'y': enc_arr(yv, cx)}, **fk))[0]
        m = ctx.model.arrs(dict({'op': 'ew1', 'fn': 'exp', 'x': enc_arr(pr, cx), 'leaves': [enc_arr(np.exp(pr[0]), cx)], 'params': []}, **fk))[0]
        if cx and not np.iscomplexobj(z):
            return 'dtype-pow-poly_exp: x**y with complex y returned dtype %s' % z.dtype
        if z.dtype != np.result_type(x.dtype, yv.dtype):
            return 'dtype-pow-poly_exp: x**y with coefficient dtypes %s and %s returned dtype %s (NumPy: %s)' % (x.dtype, yv.dtype, z.dtype, np.result_type(x.dtype, yv.dtype))
    if not close(z, m, tol=1e-8):
        return 'mismatch-%s: differs from the power in R[t]/(t^D), max diff %s' % (tag, maxdiff(z, m))
    return None


def inplace_view_case(rng, tier):
    D = rng.randint(2, 5)
    P = rng.choice([1, 2])
    n = rng.randint(2, 3)
    from props import c01 as _c01
    x = rand_coeffs(rng, (D, P, n, n), -2, 2)
    x[0] = _c01.gen_x0(rng, 'nz', (P, n, n), False)
    return {'op': rng.choice(['add', 'sub', 'mul', 'div']), 'form': 'inplace-view', 'D': D, 'P': P, 'x': x,
            'view': rng.choice(['T', 'rev', 'same-buffer'])}


def inplace_view_fails(case):
    x0 = np.array(case['x'])
    x = UTPM(x0.copy())
    v = {'T': lambda u: u.T, 'rev': lambda u: UTPM(u.data[:, :, ::-1, ::-1]), 'same-buffer': lambda u: UTPM(u.data)}[case['view']]
    y = v(x)
    ycopy = UTPM(np.array(y.data))
    want = OPS[case['op']](UTPM(x0.copy()), ycopy)
    try:
        got = IOPS[case['op']](x, y)
    except Exception as ex:
        return 'exception-%s-inplace-view: raised %s' % (case['op'], type(ex).__name__)
    if not close(got.data, want.data, 1e-10):
        return 'mismatch-%s-inplace-view: x %s= <%s view of x> differs from the binary expression x %s copy(view), max diff %s' % (
            case['op'], case['op'], case['view'], case['op'], maxdiff(got.data, want.data))
    return None


def oracle_fails(case):
    """ring identities on the implementation alone: (x/y)*y == x ; (x*y)/y == x"""
    if case.get('op') not in ('mul', 'div') or case['form'] != 'bin':
        return None
    if case['l']['k'] != 'U' or case['r']['k'] != 'U':
        return None
    l, r = obj(case['l']), obj(case['r'])
    if np.any(np.abs(r.data[0]) < 0.4):
        return None
    try:
        z = OPS[case['op']](l, r)
        back = (z * r) if case['op'] == 'div' else (z / r)
        lb = UTPM._broadcast_arrays(l.data, back.data)[0]
    except Exception:
        return None
    if not close(back.data, lb, tol=1e-7):
        return 'ring-%s: (x %s y) inverse-op y != x on the implementation, max diff %s' % (
            case['op'], case['op'], maxdiff(back.data, lb))
    return None


def nontrivial(case):
    if case.get('op') == 'pow':
        return case['D'] >= 2 and bool(np.any(np.array(case['x'])[1:] != 0))
    hi = any(a['k'] == 'U' and np.any(np.array(a['v'])[1:] != 0) for a in (case['l'], case['r']))
    differ = case['l']['k'] != case['r']['k'] or np.asarray(case['l']['v']).shape != np.asarray(case['r']['v']).shape
    return case['D'] >= 2 and hi and differ


# ---- the exported convenience class algopy.UTP (UTPM with another constructor) ---------------------------------------
UTP_FNS = {
    'add': lambda a, b: a + b, 'sub': lambda a, b: a - b, 'mul': lambda a, b: a * b, 'div': lambda a, b: a / b,
    'floordiv': lambda a, b: a // b, 'pow2': lambda a, b: a ** 2, 'pow0.5': lambda a, b: a ** 0.5, 'powm1': lambda a, b: a ** -1,
    'powu': lambda a, b: a ** b, 'neg': lambda a, b: -a, 'radd': lambda a, b: 1.5 + a, 'rsub': lambda a, b: 1.5 - a,
    'rmul': lambda a, b: 1.5 * a, 'rdiv': lambda a, b: 1.5 / a, 'rpow': lambda a, b: 1.5 ** a, 'mulc': lambda a, b: a * 1.5,
    'divc': lambda a, b: a / 1.5, 'mixed-mul': lambda a, b: algopy.UTPM(a.data) * b, 'mixed-div': lambda a, b: algopy.UTPM(a.data) / b,
}

def utp_class_case(rng, fn, vectorized):
    D, P = rng.randint(1, 4), (rng.randint(1, 3) if vectorized else 1)
    shape = rand_shape(rng, 2, 3)
    x = rand_coeffs(rng, (D, P) + shape, -2, 2)
    y = rand_coeffs(rng, (D, P) + shape, -2, 2)
    x[0] = c01.gen_x0(rng, 'pos', (P,) + shape, False)
    y[0] = c01.gen_x0(rng, 'pos', (P,) + shape, False)
    return {'op': 'utpclass', 'fn': fn, 'vectorized': vectorized, 'D': D, 'P': P, 'x': x, 'y': y}


def utp_class_fails(case):
    """operators on algopy.UTP objects (documented as UTPM with a friendlier constructor) against the same operators on UTPM"""
    x, y = np.array(case['x'], dtype=float), np.array(case['y'], dtype=float)
    f = UTP_FNS[case['fn']]

    def mk(a):
        return algopy.UTP(a.copy(), vectorized=True) if case['vectorized'] else algopy.UTP(a[:, 0].copy())
    try:
        want = f(UTPM(x.copy()), UTPM(y.copy()))
        ux, uy = mk(x), mk(y)
        if ux.data.shape != x.shape:
            return 'utpclass-constructor: UTP(...).data has shape %s, expected %s' % (ux.data.shape, x.shape)
        got = f(ux, uy)
    except Exception as ex:
        return 'utpclass-exception-%s: %s' % (case['fn'], type(ex).__name__ + ':' + str(ex)[:80])
    if got.data.shape != want.data.shape:
        return 'utpclass-layout-%s: result coefficient array has shape %s, the same operation on UTPM gives %s' % (case['fn'], got.data.shape, want.data.shape)
    if not close(got.data, want.data, 1e-12):
        return 'utpclass-value-%s: coefficients differ from the same operation on UTPM' % case['fn']
    return None


def systematic_utp_class(ctx):
    for fn in sorted(UTP_FNS):
        for vectorized in (False, True):
            case = utp_class_case(ctx.rng, fn, vectorized)
            ctx.evaluations += 1
            ctx.count('utpclass=' + fn)
            res = utp_class_fails(case)
            if res is not None:
                ctx.report(case, 'failure', res)


def dispatch(ctx, case):
    if case.get('op') == 'utpclass':
        return utp_class_fails(case)
    if case.get('op') == 'intarr-pow':
        return intarr_pow_fails(case, ctx)
    if case.get('op') == 'intbase-pow':
        return intbase_pow_fails(case)
    if case.get('op') == 'arrbase-pow':
        return arrbase_pow_fails(case)
    if case.get('op') == 'list-operand':
        return list_operand_fails(case)
    if case.get('op') == 'one-element-const':
        return one_element_const_fails(case)
    if case.get('op') == 'bigexp-pow':
        return bigexp_pow_fails(ctx, case)
    if case.get('form') == 'inplace-view':
        return inplace_view_fails(case)
    if case.get('op') == 'pow':
        return run_pow(ctx, case)
    return run_case(ctx, case)


def run(ctx):
    n = 500 if ctx.tier == 'quick' else 8000
    for i in range(n // 10):
        case = inplace_view_case(ctx.rng, ctx.tier)
        ctx.evaluations += 1
        ctx.count('op=' + case['op'], 'form=inplace-view', 'view=' + case['view'])
        f = inplace_view_fails(case)
        if f:
            ctx.report(case, 'failure', f)
    systematic_pow(ctx)
    systematic_const_dtypes(ctx)
    systematic_utp_class(ctx)
    systematic_neutral(ctx)
    systematic_narrow_scalars(ctx)
    systematic_intarr_pow(ctx)
    systematic_pow_dtypes(ctx)
    systematic_intbase_pow(ctx)
    systematic_arrbase_pow(ctx)
    systematic_list_operands(ctx)
    systematic_bigexp_pow(ctx)
    systematic_one_element_const(ctx)
    for i in range(n):
        case = gen_pow(ctx.rng, ctx.tier) if i % 6 == 5 else gen_case(ctx.rng, ctx.tier)
        ctx.evaluations += 1
        if case['op'] == 'pow':
            ctx.count('op=pow', 'pow:' + case['form'])
        else:
            ctx.count('op=' + case['op'], 'kinds=%s%s' % (case['l']['k'], case['r']['k']), 'form=' + case['form'],
                      'cplx' if (is_cplx(case['l']) or is_cplx(case['r'])) else 'real',
                      'D=%d' % case['D'])
            if case['r']['k'] == 'S':
                ctx.count('scalar=' + case['r']['sk'])
        h = canon_hash(to_jsonable(case))
        if h not in ctx.hashes:
            ctx.hashes.add(h)
            if nontrivial(case):
                ctx.nontrivial += 1
        if len(ctx.samples) < 3 and nontrivial(case):
            ctx.samples.append(to_jsonable(case))
        res = dispatch(ctx, case)
        if res is None and case['op'] != 'pow':
            res = oracle_fails(case)
        if res is not None:
            ctx.report(case, 'failure', res)


def systematic_const_dtypes(ctx):
    """every operator x every narrow / unsigned / bool dtype of a constant array x both sides x binary and in-place form"""
    rng = ctx.rng
    for opn in ('add', 'sub', 'mul', 'div'):
        for dt in ('uint8', 'uint16', 'uint64', 'int8', 'int32', 'float32', 'bool'):
            for side in ('UA', 'AU', 'inplace'):
                D, P = rng.randint(1, 3), rng.randint(1, 2)
                x = rand_coeffs(rng, (D, P, 3), -2, 2)
                x[0] = c01.gen_x0(rng, 'nz', (P, 3), False)
                if dt == 'bool':
                    a = np.array([True, False, True]) if opn != 'div' or side != 'UA' and side != 'inplace' else np.ones(3, dtype=bool)
                elif dt == 'float32':
                    a = np.array([0.75, -1.5, 3.0], dtype=np.float32)
                elif dt.startswith('uint'):
                    a = np.array([1, 2, 3], dtype=dt)
                else:
                    a = np.array([-128 if dt == 'int8' else -7, 2, 3], dtype=dt)
                A = {'k': 'A', 'v': a, 'dt': dt}
                U_ = {'k': 'U', 'v': x}
                if side == 'AU':
                    case = {'op': opn, 'form': 'bin', 'D': D, 'P': P, 'l': A, 'r': U_}
                else:
                    case = {'op': opn, 'form': 'inplace' if side == 'inplace' else 'bin', 'D': D, 'P': P, 'l': U_, 'r': A}
                ctx.evaluations += 1
                ctx.count('op=' + opn, 'const-dtype=' + dt)
                res = run_case(ctx, case)
                if res is not None:
                    ctx.report(case, 'failure', res)


def systematic_neutral(ctx):
    """every operator with the neutral / absorbing Python scalars (1, 1.0, 0, 0.0, -1) on either side, binary and in-place"""
    rng = ctx.rng
    for opn in ('add', 'sub', 'mul', 'div'):
        for sk, v in (('int', 1), ('float', 1.0), ('int', 0), ('float', 0.0), ('int', -1), ('np.float64', 1.0)):
            for side in ('US', 'SU', 'inplace'):
                if opn == 'div' and v == 0 and side != 'SU':
                    continue
                D, P = rng.randint(1, 3), rng.randint(1, 2)
                x = rand_coeffs(rng, (D, P, 2), -2, 2)
                x[0] = c01.gen_x0(rng, 'nz', (P, 2), False)
                S_ = {'k': 'S', 'sk': sk, 'v': v}
                U_ = {'k': 'U', 'v': x}
                if side == 'SU':
                    case = {'op': opn, 'form': 'bin', 'D': D, 'P': P, 'l': S_, 'r': U_}
                else:
                    case = {'op': opn, 'form': 'inplace' if side == 'inplace' else 'bin', 'D': D, 'P': P, 'l': U_, 'r': S_}
                ctx.evaluations += 1
                ctx.count('neutral-scalar')
                res = run_case(ctx, case)
                if res is not None:
                    ctx.report(case, 'failure', res)


def systematic_narrow_scalars(ctx):
    """every operator with a narrow NumPy scalar (float32 / float16 / complex64) whose reciprocal is not representable in its own
    type, on either side, binary and in-place (the scalar counts as a double / complex double constant)"""
    rng = ctx.rng
    for opn in ('add', 'sub', 'mul', 'div'):
        for sk, v in (('np.float32', 3.0), ('np.float16', 3.0), ('np.float32', -6.0), ('np.float16', 5.0), ('np.complex64', complex(3.0, 0.5))):
            for side in ('US', 'SU', 'inplace'):
                if side == 'inplace' and sk == 'np.complex64':
                    continue
                D, P = rng.randint(1, 3), rng.randint(1, 2)
                x = rand_coeffs(rng, (D, P, 2), -2, 2)
                x[0] = c01.gen_x0(rng, 'nz', (P, 2), False)
                S_ = {'k': 'S', 'sk': sk, 'v': v}
                U_ = {'k': 'U', 'v': x}
                if side == 'SU':
                    case = {'op': opn, 'form': 'bin', 'D': D, 'P': P, 'l': S_, 'r': U_}
                else:
                    case = {'op': opn, 'form': 'inplace' if side == 'inplace' else 'bin', 'D': D, 'P': P, 'l': U_, 'r': S_}
                ctx.evaluations += 1
                ctx.count('narrow-scalar')
                res = run_case(ctx, case)
                if res is not None:
                    ctx.report(case, 'failure', res)


def intarr_pow_fails(case, ctx=None):
    """x ** r with r an ndarray of non-negative integers: entry by entry the power with the Python int r[i] (the product; tied
    to the model by the scalar-exponent cases), whatever the container / integer dtype of the exponent, also at zero base points"""
    x = np.array(case['x'])
    r = np.array(case['r'], dtype=case['dtype'])
    with np.errstate(all='ignore'):
        try:
            y = UTPM(x.copy()) ** r
        except Exception as ex:
            return 'intarr-pow-exception: x ** integer array raised %s' % (type(ex).__name__ + ':' + str(ex)[:80])
        rb = np.broadcast_to(r, x.shape[2:])
        if y.data.shape != x.shape:
            return 'intarr-pow-shape: result shape %s for x of shape %s' % (y.data.shape, x.shape)
        for idx in np.ndindex(*x.shape[2:]):
            sel = (slice(None), slice(None)) + idx
            want = (UTPM(x[sel].copy()) ** int(rb[idx])).data
            if not np.allclose(y.data[sel], want, rtol=1e-12, atol=1e-13, equal_nan=False):
                return 'intarr-pow: entry %s of x ** %s array differs from x[i] ** %d (base point %s): %s vs %s' % (
                    idx, r.dtype, int(rb[idx]), x[0][(slice(None),) + idx].tolist(), y.data[sel].ravel().tolist()[:6], want.ravel().tolist()[:6])
        if ctx is not None:
            # the tie of the model the theorem C02.pow_int_array_entry is about: masked products up to the largest exponent
            rmax = int(np.abs(r.astype(int)).max())
            for e in sorted(set(int(v) for v in rb.ravel())):
                lv = [enc_arr(np.zeros(x[0].shape))] * (rmax - abs(e))
                m = ctx.model.arrs({'op': 'ew1', 'fn': 'powmask', 'x': enc_arr(x), 'leaves': lv, 'params': [], 'n': abs(e)})
                if isinstance(m, str):
                    return 'intarr-pow-model: the model rejected the case (%s)' % m[:80]
                mask = np.broadcast_to(rb == e, x.shape)
                if e < 0:
                    # a negative exponent: the reciprocal series of the masked product (entries with a zero base point excluded)
                    mm = np.asarray(m[0], dtype=float)
                    mm[:, ~np.broadcast_to(rb == e, x.shape)[0]] = 1.0
                    m = ctx.model.arrs({'op': 'ew1', 'fn': 'recip', 'x': enc_arr(mm), 'leaves': [], 'params': []})
                    if isinstance(m, str):
                        return 'intarr-pow-model: the model rejected the case (%s)' % m[:80]
                if not np.allclose(y.data[mask], np.asarray(m[0], dtype=float)[mask], rtol=1e-12, atol=1e-13):
                    return 'mismatch-intarr-pow: entries with exponent %d differ from the masked-product model (largest exponent %d)' % (e, rmax)
    return None


def arrbase_pow_fails(case):
    """r ** x with r an ARRAY (or nested list) of positive bases of the same, lower or HIGHER rank than x: the result has NumPy's
    broadcast shape and entry by entry it is the scalar-base power r[i] ** x[j] (tied to the model by the scalar_base cases)"""
    x = np.array(case['x'])
    r = np.array(case['r'], dtype=float)
    D, P = x.shape[:2]
    with np.errstate(all='ignore'):
        try:
            y = (r.tolist() if case.get('list') else r) ** UTPM(x.copy())
        except Exception as ex:
            return 'arrbase-pow-exception: array ** x raised %s (base shape %s, x shape %s)' % (type(ex).__name__ + ':' + str(ex)[:60], r.shape, x.shape[2:])
        if not isinstance(y, UTPM):
            return 'arrbase-pow-type: array ** x returned %s' % type(y).__name__
        bs = np.broadcast_shapes(r.shape, x.shape[2:])
        if y.data.shape != (D, P) + bs:
            return 'arrbase-pow-shape: array ** x has coefficient shape %s, expected %s (base shape %s, x shape %s)' % (y.data.shape, (D, P) + bs, r.shape, x.shape[2:])
        rb = np.broadcast_to(r, bs)
        xb = np.broadcast_to(x.reshape((D, P) + (1,) * (len(bs) - (x.ndim - 2)) + x.shape[2:]), (D, P) + bs)
        for idx in np.ndindex(*bs):
            sel = (slice(None), slice(None)) + idx
            want = (float(rb[idx]) ** UTPM(xb[sel].copy())).data
            if not np.allclose(y.data[sel], want, rtol=1e-12, atol=1e-13):
                return 'arrbase-pow: entry %s of array ** x differs from the scalar-base power %r ** x[...] (base shape %s, x shape %s, P=%d)' % (
                    idx, float(rb[idx]), r.shape, x.shape[2:], P)
    return None


LIST_FORMS = {
    'x + c': lambda x, c: x + c, 'x - c': lambda x, c: x - c, 'x * c': lambda x, c: x * c, 'x / c': lambda x, c: x / c,
    'c + x': lambda x, c: c + x, 'c - x': lambda x, c: c - x, 'c * x': lambda x, c: c * x, 'c / x': lambda x, c: c / x,
    'x += c': lambda x, c: operator.iadd(x, c), 'x -= c': lambda x, c: operator.isub(x, c), 'x *= c': lambda x, c: operator.imul(x, c),
    'x /= c': lambda x, c: operator.itruediv(x, c), 'x ** c': lambda x, c: x ** c, 'c ** x': lambda x, c: c ** x, 'x **= c': lambda x, c: operator.ipow(x, c),
}


def list_operand_fails(case):
    """a constant given as a Python list / tuple / nested list (NumPy accepts ndarray + list): the same coefficients as with the
    constant given as an ndarray"""
    x = np.array(case['x'])
    c = np.array(case['c'])
    f = LIST_FORMS[case['form']]
    want = f(UTPM(x.copy()), c.copy()).data
    cl = c.tolist() if case['container'] == 'list' else tuple(c.tolist())
    try:
        got = f(UTPM(x.copy()), cl)
    except Exception as ex:
        return 'list-operand-exception: %s with the constant given as a %s raised %s (the ndarray works)' % (case['form'], case['container'], type(ex).__name__ + ':' + str(ex)[:50])
    if not isinstance(got, UTPM) or got.data.shape != want.shape or not np.array_equal(got.data, want):
        return 'list-operand: %s with the constant given as a %s differs from the same constant given as an ndarray' % (case['form'], case['container'])
    return None


def systematic_list_operands(ctx):
    rng = ctx.rng
    for form in sorted(LIST_FORMS):
        for container, cs in (('list', (3,)), ('tuple', (3,)), ('list', (2, 3))):
            x = rand_coeffs(rng, (3, 2) + ((2, 3) if len(cs) == 2 or rng.random() < 0.5 else (3,)), -2, 2)
            x[0] = np.abs(x[0]) + 0.5
            c = np.abs(rand_coeffs(rng, cs, -2, 2)) + 0.5
            case = {'op': 'list-operand', 'form': form, 'container': container, 'D': 3, 'P': 2, 'x': x, 'c': c}
            ctx.evaluations += 1
            ctx.count('operand=list')
            res = list_operand_fails(case)
            if res is not None:
                ctx.report(case, 'failure', res)


def systematic_arrbase_pow(ctx):
    rng = ctx.rng
    for how in ('same', 'lower', 'higher', 'higherP', 'higherD', 'scalar-x-P', 'scalar-x-D'):
        for as_list in (False, True):
            D, P = rng.randint(2, 4), 2
            s = rng.choice([(3,), (2, 3)])
            if how.startswith('scalar-x'):
                s = ()
            rs = {'same': s, 'lower': s[-1:], 'higher': (4,) + s, 'higherP': (P,) + s, 'higherD': (D,) + s, 'scalar-x-P': (P,), 'scalar-x-D': (D,)}[how]
            x = rand_coeffs(rng, (D, P) + s, -1, 1)
            r = np.array([rng.choice([2.0, 0.5, 3.0, 1.5]) for _ in range(int(np.prod(rs)))]).reshape(rs)
            r.reshape(-1)[0], r.reshape(-1)[-1] = 2.0, 3.0
            case = {'op': 'arrbase-pow', 'D': D, 'P': P, 'x': x, 'r': r.tolist(), 'list': as_list, 'how': how}
            ctx.evaluations += 1
            ctx.count('rpow:array-base')
            res = arrbase_pow_fails(case)
            if res is not None:
                ctx.report(case, 'failure', res)


def systematic_intarr_pow(ctx):
    rng = ctx.rng
    for dtype in ('int64', 'int32', 'uint8', 'bool'):
        for rs in ('same', 'one', 'last'):
            D, P = rng.randint(2, 4), rng.randint(1, 2)
            s = rng.choice([(3,), (2, 3)])
            x = rand_coeffs(rng, (D, P) + s, -2, 2)
            x[0].reshape(P, -1)[:, 0] = 0.0
            x[0].reshape(P, -1)[:, 1] = -0.75
            shp = {'same': s, 'one': (1,), 'last': s[-1:]}[rs]
            r = np.array([rng.choice([0, 1] if dtype == 'bool' else [0, 1, 2, 3, 4]) for _ in range(int(np.prod(shp)))]).reshape(shp)
            if dtype != 'bool' and rs != 'one':
                r.reshape(-1)[0] = 2
            if dtype in ('int64', 'int32') and rs == 'same':
                r.reshape(-1)[-1] = -1                 # mixed signs: a negative exponent elsewhere in the array (non-zero base there)
                r.reshape(-1)[-2] = -2 if r.size > 2 else r.reshape(-1)[-2]
            case = {'op': 'intarr-pow', 'D': D, 'P': P, 'x': x, 'r': r.tolist(), 'dtype': dtype}
            ctx.evaluations += 1
            ctx.count('pow:int-array')
            res = intarr_pow_fails(case, ctx)
            if res is not None:
                ctx.report(case, 'failure', res)


def systematic_pow(ctx):
    """every non-negative Python-int exponent at base points 0, negative and positive, D >= 2"""
    for v in list(range(0, 5)) + [7, 15, 16, 17, 24]:
        case = gen_pow(ctx.rng, ctx.tier)
        while case['D'] < 2 or np.array(case['x'])[0].size == 0:
            case = gen_pow(ctx.rng, ctx.tier)
        case['form'] = 'scalar_exp'
        case.pop('y', None)
        case['r'] = {'k': 'S', 'sk': 'int' if (v % 2 == 0 or v > 7) else 'np.int64', 'v': v}      # NumPy integer exponents too
        x = np.array(np.real(np.array(case['x'])), dtype=float)
        flat = x[0].reshape(-1)
        flat[0] = 0.0
        if flat.size > 1:
            flat[1] = -0.75
        case['x'] = x
        ctx.evaluations += 1
        ctx.count('op=pow', 'pow:systematic')
        res = dispatch(ctx, case)
        if res is not None:
            ctx.report(case, 'failure', res)


def systematic_pow_dtypes(ctx):
    """a narrow complex exponent polynomial (complex64) over a float64 base polynomial, positive and negative base points: the
    result has NumPy's promoted dtype and double-precision coefficients, on every run"""
    rng = ctx.rng
    for neg in (False, True):
        for D, P in ((2, 1), (3, 2)):
            x = rand_coeffs(rng, (D, P, 2), -1, 1)
            x[0] = rand_coeffs(rng, (P, 2), 0.5, 2.0) + 2.0 ** -30           # not representable in single precision
            if neg:
                x[0] = -x[0]
            y = (np.round((rand_coeffs(rng, (D, P, 2), -1, 1) + 1j * rand_coeffs(rng, (D, P, 2), -1, 1)) * 8) / 8).astype(np.complex64)
            case = {'op': 'pow', 'form': 'poly_exp', 'D': D, 'P': P, 'x': x, 'y': y}
            ctx.evaluations += 1
            ctx.count('op=pow', 'pow:systematic-dtypes')
            res = dispatch(ctx, case)
            if res is not None:
                ctx.report(case, 'failure', res)


def intbase_pow_fails(case):
    """x ** r with the coefficients of x stored in an INTEGER dtype and a float exponent: the result is allocated in NumPy's
    promoted dtype (float), so the coefficients are those of the float copy of the same polynomial"""
    x = np.array(case['x'])
    xi = x.astype(case['dtype'])
    r = case['r']
    with np.errstate(all='ignore'):
        want = (UTPM(xi.astype(float)) ** r).data
        try:
            got = (UTPM(xi.copy()) ** r).data
        except Exception as ex:
            return 'intbase-pow-exception: %s' % (type(ex).__name__ + ':' + str(ex)[:60])
    if got.dtype.kind in 'iub' or not close(got, want, 1e-12):
        return 'intbase-pow: x ** %r with %s coefficients differs from the float copy of the same polynomial (result dtype %s)' % (r, case['dtype'], got.dtype)
    return None


def bigexp_pow_fails(ctx, case):
    """x ** r for a LARGE Python int r (beyond the repeated-product range, also beyond 64 bits): returns, and equals the
    square-and-multiply model in exact rational arithmetic (`powBinS`, theorem C02.pow_large_int_exponent)"""
    import signal
    x = np.array(case['x'])
    r = int(case['r'])

    class _Timeout(Exception):
        pass

    def _alarm(signum, frame):
        raise _Timeout()
    old = signal.signal(signal.SIGALRM, _alarm)
    signal.alarm(20)
    try:
        with np.errstate(all='ignore'):
            z = (UTPM(x.copy()) ** r).data
    except _Timeout:
        return 'bigexp-pow-hang: x ** %d did not return within 20 s' % r
    except Exception as ex:
        return 'bigexp-pow-exception: x ** %d raised %s' % (r, type(ex).__name__ + ':' + str(ex)[:60])
    finally:
        signal.alarm(0)
        signal.signal(signal.SIGALRM, old)
    m = ctx.model.arrs({'op': 'ew1', 'fn': 'powbin', 'x': enc_arr(x), 'leaves': [], 'params': [], 'n': r})
    if isinstance(m, str):
        return 'bigexp-pow-model: the model rejected the case (%s)' % m[:80]
    want = np.asarray(m[0], dtype=float)
    if not np.all(np.isfinite(want)):
        return None
    # (relative to the size of the polynomial: a coefficient that cancels exactly in rational arithmetic is 1e-16 in floating point)
    if z.shape != want.shape or not np.allclose(z, want, rtol=1e-9, atol=1e-12 * max(1.0, float(np.max(np.abs(want))))):
        return 'mismatch-bigexp-pow: x ** %d differs from the square-and-multiply model, max diff %s' % (r, maxdiff(z, want))
    return None


def systematic_bigexp_pow(ctx):
    for r in (65, 100, 129, 1000, 2 ** 64, 2 ** 64 + 3):
        D, P = 4, ctx.rng.randint(1, 2)
        x = rand_coeffs(ctx.rng, (D, P, 2), -1, 1) / float(r)                 # (1 + u/r)^r stays of order one
        x[0] = 1.0
        x[0, :, 1] = 0.0 if r < 2 ** 63 else 1.0                                  # a zero base point too (small enough exponents)
        case = {'op': 'bigexp-pow', 'D': D, 'P': P, 'x': x, 'r': str(r)}
        ctx.evaluations += 1
        ctx.count('pow:large-int-exponent')
        res = bigexp_pow_fails(ctx, case)
        if res is not None:
            ctx.report(case, 'failure', res)


def one_element_const_fails(case):
    """a constant ndarray with exactly ONE element but rank >= 1 on either side of every operator: the result has NumPy's broadcast
    shape (the one-element axes count), with the coefficients of the same operation on the lifted constant"""
    x = np.array(case['x'])
    c = np.array(case['c'])
    f = OPS[case['opn']]
    lift = np.zeros((x.shape[0], x.shape[1]) + c.shape)
    lift[0] = c
    for side in ('cx', 'xc'):
        try:
            with np.errstate(all='ignore'):
                got = (f(c, UTPM(x.copy())) if side == 'cx' else f(UTPM(x.copy()), c)).data
                want = (f(UTPM(lift.copy()), UTPM(x.copy())) if side == 'cx' else f(UTPM(x.copy()), UTPM(lift.copy()))).data
        except Exception as ex:
            return 'one-element-const-exception-%s: %s' % (case['opn'], type(ex).__name__ + ':' + str(ex)[:60])
        if got.shape != want.shape or not close(got, want, 1e-12):
            return 'one-element-const-%s: %s with a constant of shape %s and a polynomial of shape %s gives coefficient shape %s, expected %s' % (
                case['opn'], 'c op x' if side == 'cx' else 'x op c', c.shape, x.shape[2:], got.shape[2:], want.shape[2:])
    return None


def systematic_one_element_const(ctx):
    for opn in ('add', 'sub', 'mul', 'div'):
        for cshape, xshape in (((1, 1), (3,)), ((1,), ()), ((1, 1, 1), (2, 2))):
            D, P = ctx.rng.randint(1, 3), ctx.rng.randint(1, 2)
            x = rand_coeffs(ctx.rng, (D, P) + xshape, -2, 2)
            x[0] = c01.gen_x0(ctx.rng, 'nz', (P,) + xshape, False)
            case = {'op': 'one-element-const', 'opn': opn, 'D': D, 'P': P, 'x': x, 'c': np.full(cshape, 2.5)}
            ctx.evaluations += 1
            ctx.count('one-element-constant')
            res = one_element_const_fails(case)
            if res is not None:
                ctx.report(case, 'failure', res)


def systematic_intbase_pow(ctx):
    for dtype in ('int64', 'int32', 'uint8'):
        for r in (0.5, 1.5, -1.0, -0.5, 2.5, np.float64(0.5)):
            D, P = ctx.rng.randint(2, 3), ctx.rng.randint(1, 2)
            x = np.floor(rand_coeffs(ctx.rng, (D, P, 3), 0, 6))
            x[0] = np.floor(rand_coeffs(ctx.rng, (P, 3), 2, 9))          # positive base points, exact small integers
            case = {'op': 'intbase-pow', 'D': D, 'P': P, 'x': x, 'dtype': dtype, 'r': float(r)}
            ctx.evaluations += 1
            ctx.count('pow:int-dtype-base')
            res = intbase_pow_fails(case)
            if res is not None:
                ctx.report(case, 'failure', res)


def run_case_replay(ctx, case):
    return dispatch(ctx, case)
replay_case = dispatch
