"""C08 — matrix factorizations satisfy their defining equations modulo t^D.

Oracle on the implementation (the property itself): residuals of the defining polynomial identities
   qr / qr_full : Q R = A, Q^T Q = I, R upper triangular
   cholesky     : L L^T = A, L lower triangular
   lu           : P L U = A, L unit lower, U upper, P a constant permutation
   eigh         : A Q = Q diag(lambda), Q^T Q = I, lambda_0 ascending (distinct and repeated eigenvalues)
   eig (D <= 2) : A Q = Q diag(lambda)
   svd          : U diag(s) V^T = A, U^T U = I, V^T V = I, s_0 descending and non-negative
all as truncated polynomial products per direction, and the zeroth coefficients equal to what
NumPy/SciPy return for A_0 (qr, cholesky, lu, eigh).
Correspondence: the order-by-order step equations of `_qr_rectangular` (square case) and `_cholesky`
that the Lean theorems are about are evaluated on the implementation's output."""
import itertools
import numpy as np
import scipy.linalg
from common import *
import ops

RULE = ('cases = (factorization, D, P, shape (square/tall/wide), base matrix satisfying the regularity condition by construction, '
        'different base matrices per direction, arbitrary higher coefficients, repeated eigenvalues splitting at order k); non-trivial = D>=2; distinct by hash')
ASSUMPTIONS = ['residual tolerance 1e-8 relative', 'repeated eigenvalues are exactly repeated in A_0 (constructed)']


def tmul(a, b):
    D = a.shape[0]
    out = np.zeros((D,) + (a[0] @ b[0]).shape, dtype=np.result_type(a.dtype, b.dtype, float))
    for d in range(D):
        for c in range(d + 1):
            out[d] += a[c] @ b[d - c]
    return out


def tT(a):
    return np.swapaxes(a, -1, -2)


def const(M, D):
    z = np.zeros((D,) + M.shape)
    z[0] = M
    return z


def diag_series(l):
    D, n = l.shape
    out = np.zeros((D, n, n))
    for d in range(D):
        out[d] = np.diag(l[d])
    return out


def gen_sym_repeated(rng, D, P, n, split_order):
    """A(t) = Q0 diag(lam) Q0^T + t^k S_k + ..., with a repeated eigenvalue in lam"""
    x = np.zeros((D, P, n, n))
    for p in range(P):
        Q = ops.rand_orth(rng, n)
        lam = sorted(rng.sample([-2., -1., 0.5, 1.5, 3.], n - 1))
        i = rng.randrange(n - 1)
        lam = lam[:i + 1] + [lam[i]] + lam[i + 1:]
        x[0, p] = Q @ np.diag(lam) @ Q.T
        for d in range(1, D):
            if d >= split_order:
                S = rand_coeffs(rng, (n, n), -1, 1)
                x[d, p] = (S + S.T) / 2
    return x


def make_case(rng, tier):
    kind = rng.choice(['qr', 'qr', 'qr_full', 'cholesky', 'lu', 'lu2', 'lu_factor', 'eigh', 'eigh_rep', 'eig', 'svd'])
    D = rng.randint(1, 4 if tier == 'quick' else 6)
    P = rng.choice([1, 2])
    c = {'op': kind, 'D': D, 'P': P}
    if kind == 'qr':
        m, n = rng.choice([(2, 2), (3, 3), (3, 2), (4, 2), (2, 3), (2, 4), (4, 3)])
        if m >= n:
            c['x'] = ops.gen_tall(rng, D, P, m, n)
        else:
            a = ops.gen_tall(rng, D, P, m, m)
            c['x'] = np.concatenate([a, rand_coeffs(rng, (D, P, m, n - m), -1, 1)], axis=3)
    elif kind == 'qr_full':
        m, n = rng.choice([(2, 2), (3, 2), (4, 2), (3, 3), (4, 3)])
        c['x'] = ops.gen_tall(rng, D, P, m, n)
    elif kind == 'cholesky':
        c['x'] = ops.gen_square(rng, D, P, rng.randint(1, 4), 'spd')
    elif kind in ('lu', 'lu2', 'lu_factor'):
        c['x'] = ops.gen_square(rng, D, P, rng.randint(1, 4), 'general')
        if rng.random() < 0.25:
            # complex matrix polynomial (P L U = A involves no transposes: meaningful for complex data)
            c['x'] = c['x'] + 0.5j * rand_coeffs(rng, c['x'].shape, -1, 1)
        elif rng.random() < 0.1:
            # D = 1 is the plain factorization, which exists for a singular matrix too
            c['D'] = 1
            c['x'] = ops._gen_det_singular(rng, 1, P, tier)[0]['v']
    elif kind == 'eigh':
        c['x'] = ops.gen_square(rng, D, P, rng.randint(1, 4), 'sym')
    elif kind == 'eigh_rep':
        n = rng.randint(2, 4)
        c['split'] = rng.randint(1, max(1, D))
        c['x'] = gen_sym_repeated(rng, D, P, n, c['split'])
    elif kind == 'eig':
        c['D'] = D = min(D, 2)
        n = rng.randint(1, 3)
        x = rand_coeffs(rng, (D, P, n, n), -1, 1)
        for p in range(P):
            V = rand_coeffs(rng, (n, n), -1, 1) + 2 * np.eye(n)
            lam = np.array(rng.sample([-2., -1., 0.5, 1.5, 3.], n))
            x[0, p] = V @ np.diag(lam) @ np.linalg.inv(V)
        if rng.random() < 0.35:
            # a complex Hermitian matrix polynomial: real eigenvalues at every order, genuinely complex eigenvectors
            x = x + 1j * rand_coeffs(rng, x.shape, -1, 1)
            x = (x + np.conj(np.swapaxes(x, 2, 3))) / 2
            for p in range(P):
                x[0, p] += np.diag(np.array(rng.sample([-2., -1., 0.5, 1.5, 3.], n)))
        c['x'] = x
    else:
        m, n = rng.choice([(2, 2), (3, 3), (3, 2), (2, 3)])
        x = rand_coeffs(rng, (D, P, m, n), -1, 1)
        for p in range(P):
            U = ops.rand_orth(rng, m)
            V = ops.rand_orth(rng, n)
            k = min(m, n)
            s = sorted(rng.sample([0.5, 1.0, 2.0, 3.0, 4.5], k), reverse=True)
            S = np.zeros((m, n))
            S[:k, :k] = np.diag(s)
            x[0, p] = U @ S @ V.T
        if P >= 2 and rng.random() < 0.3:
            # ONE direction whose whole path has rank one (a singular value vanishing identically; the singular values
            # stay distinct); the other directions have full rank
            p = rng.randrange(P)
            a, b = rand_coeffs(rng, (m, 1), -1, 1) + 0.5, rand_coeffs(rng, (1, n), -1, 1) + 0.5
            for d in range(D):
                x[d, p] = (1.0 if d == 0 else 0.5 ** d) * (a @ b)
            c['rankdef_dir'] = p
        c['x'] = x
    if kind in ('qr', 'qr_full', 'cholesky', 'eigh', 'eigh_rep') and rng.random() < 0.35:
        c['out_seed'] = rng.randrange(1 << 30)      # caller-supplied result buffers holding stale non-zero data
    if kind in ('eigh', 'eigh_rep', 'svd') and rng.random() < 0.5 and 'out_seed' not in c:
        # data not of order one: A(t) * 2^k with the documented threshold keyword scaled accordingly.  Scaling by a power
        # of two is exact in floating point, so the factors must be those of the unscaled matrix (eigen/singular values * 2^k)
        c['scale_log2'] = rng.choice([33, -33, 20, -20])
    if kind in ('qr', 'qr_full', 'cholesky', 'lu') and rng.random() < 0.3 and 'out_seed' not in c:
        # data of small / large magnitude (exact power-of-two scaling; pivots of R_0 around 1e-9 are far above the default
        # rank threshold 1e-14): R, U scale with A, L of Cholesky with its square root, Q and L of LU not at all
        c['scale_log2'] = rng.choice([-30, -24, 20])
    if 'out_seed' not in c and rng.random() < 0.3:
        c['layout'] = 'F'
    if kind == 'qr' and 'out_seed' not in c and 'scale_log2' not in c and rng.random() < 0.2:
        # data far below the default rank threshold with the documented keyword: UTPM.qr(A, epsilon=...) for every shape
        c['scale_log2'] = -52
        c['qr_eps'] = 1e-40
    return c


def _amax(a):
    a = np.abs(np.asarray(a))
    return float(a.max()) if a.size else 0.0


def check(c):
    kind, D, P = c['op'], c['D'], c['P']
    x = np.array(c['x'])
    scale = 2.0 ** c.get('scale_log2', 0)
    x = x * scale
    A = UTPM(x.copy())
    if c.get('layout') == 'F' and x.ndim == 4:
        # every coefficient slice Fortran-ordered (what A.T hands over): LAPACK may then work in place on the operand
        A = UTPM(np.ascontiguousarray(x.swapaxes(-1, -2)).swapaxes(-1, -2))
    tol = 1e-8
    def stale(*shape):
        r_ = np.random.RandomState(c['out_seed'] % (1 << 31))
        return UTPM(np.round(r_.uniform(-4, 4, size=(D, P) + shape) * 8) / 8)
    try:
        with np.errstate(all='ignore'):
            if 'out_seed' in c and kind == 'qr' and x.shape[2] >= x.shape[3]:
                Q, R = UTPM.qr(A, out=(stale(x.shape[2], x.shape[3]), stale(x.shape[3], x.shape[3])))
            elif 'out_seed' in c and kind == 'qr_full':
                Q, R = UTPM.qr_full(A, out=(stale(x.shape[2], x.shape[2]), stale(x.shape[2], x.shape[3])))
            elif 'out_seed' in c and kind == 'cholesky':
                L = UTPM.cholesky(A, out=stale(x.shape[2], x.shape[3]))
            elif 'out_seed' in c and kind in ('eigh', 'eigh_rep'):
                l, Q = UTPM.eigh(A, out=(stale(x.shape[2]), stale(x.shape[2], x.shape[3])))
            elif kind == 'qr' and 'qr_eps' in c:
                Q, R = UTPM.qr(A, epsilon=c['qr_eps'])
            elif kind == 'qr':
                Q, R = algopy.qr(A)
            elif kind == 'qr_full':
                Q, R = algopy.qr_full(A)
            elif kind == 'cholesky':
                L = algopy.cholesky(A)
            elif kind == 'lu':
                W, L, U = algopy.lu(A)
            elif kind == 'lu2':
                PIV, L, U = UTPM.lu2(A)
                W = UTPM(np.zeros(A.data.shape))
                for p_ in range(P):
                    W.data[0, p_] = algopy.utils.piv2mat(PIV.data[0, p_].astype(int))
            elif kind == 'lu_factor':
                LUp, PIV = UTPM.lu_factor(A)
                W = UTPM(np.zeros(A.data.shape))
                L = UTPM(np.tril(LUp.data, -1))
                U = UTPM(np.triu(LUp.data))
                for p_ in range(P):
                    W.data[0, p_] = algopy.utils.piv2mat(PIV.data[0, p_].astype(int))
                    L.data[0, p_] += np.eye(A.data.shape[2])
            elif kind in ('eigh', 'eigh_rep'):
                l, Q = algopy.eigh(A) if 'scale_log2' not in c else UTPM.eigh(A, epsilon=1e-8 * scale)
            elif kind == 'eig':
                l, Q = algopy.eig(A)
            else:
                U, s, V = algopy.svd(A) if 'scale_log2' not in c else UTPM.svd(A, epsilon=1e-8 * scale)
    except Exception as ex:
        msg = str(ex).strip().splitlines()
        return '%s-exception: raised %s' % (kind, (msg[-1] if msg else type(ex).__name__)[:120])
    if not np.array_equal(A.data, x):
        return '%s-mutated: the argument was modified' % kind
    if 'scale_log2' in c:
        x = x / scale
        if kind == 'svd':
            s = UTPM(s.data / scale)
        elif kind in ('qr', 'qr_full'):
            R = UTPM(R.data / scale)
        elif kind == 'cholesky':
            L = UTPM(L.data / 2.0 ** (c['scale_log2'] // 2))
        elif kind == 'lu':
            U = UTPM(U.data / scale)
        else:
            l = UTPM(l.data / scale)
    for p in range(P):
        a = x[:, p]
        m, n = a.shape[1:]
        if kind in ('qr', 'qr_full'):
            q, r = Q.data[:, p], R.data[:, p]
            k = q.shape[2]
            if not close(tmul(q, r), a, tol):
                return '%s-QR: Q R != A modulo t^D (max diff %s)' % (kind, maxdiff(tmul(q, r), a))
            if m >= n or kind == 'qr_full':
                if not close(tmul(tT(q), q), const(np.eye(k), D), tol):
                    return '%s-QtQ: Q^T Q != I modulo t^D' % kind
            else:
                if not close(tmul(tT(q), q), const(np.eye(k), D), tol):
                    return '%s-QtQ: Q^T Q != I modulo t^D' % kind
            if _amax(np.tril(r, -1)) > tol * max(1, _amax(r)):
                return '%s-R-upper: R is not upper triangular at every order' % kind
            q0, r0 = (np.linalg.qr(a[0]) if kind == 'qr' else scipy.linalg.qr(a[0]))
            same = (np.array_equal(q[0], q0) and np.array_equal(r[0], r0)) if m >= n else (
                np.allclose(q[0], q0, rtol=1e-12, atol=1e-12) and np.allclose(r[0], r0, rtol=1e-12, atol=1e-12))
            if not same:
                return '%s-zeroth: zeroth coefficients are not what NumPy/SciPy return for A_0' % kind
            if kind == 'qr':
                f = step_equations_fail('qr', a, (q, r))
                if f:
                    return f
        elif kind == 'cholesky':
            l_ = L.data[:, p]
            if not close(tmul(l_, tT(l_)), a, tol):
                return 'cholesky-LLt: L L^T != A modulo t^D (max diff %s)' % maxdiff(tmul(l_, tT(l_)), a)
            if _amax(np.triu(l_, 1)) > tol * max(1, _amax(l_)):
                return 'cholesky-lower: L is not lower triangular at every order'
            if not np.array_equal(l_[0], np.linalg.cholesky(a[0])):
                return 'cholesky-zeroth: L_0 is not numpy.linalg.cholesky(A_0)'
            f = step_equations_fail('cholesky', a, (l_,))
            if f:
                return f
        elif kind in ('lu', 'lu2', 'lu_factor'):
            w, l_, u = W.data[:, p], L.data[:, p], U.data[:, p]
            if np.any(w[1:] != 0):
                return 'lu-P-constant: the permutation has non-zero higher coefficients'
            if not close(tmul(w, tmul(l_, u)), a, tol):
                return 'lu-PLU: P L U != A modulo t^D (max diff %s)' % maxdiff(tmul(w, tmul(l_, u)), a)
            if _amax(np.triu(l_, 1)) > tol or _amax(np.tril(u, -1)) > tol * max(1, _amax(u)):
                return 'lu-triangular: L not lower or U not upper at every order'
            dg = np.array([np.diag(l_[d]) for d in range(D)])
            if not close(dg, const(np.ones(m), D), tol):
                return 'lu-unit: L does not have a unit diagonal (1 + 0 t + ...)'
            f = step_equations_fail('lu', a, (w, l_, u))
            if f:
                return f
            w0, l0, u0 = scipy.linalg.lu(a[0])
            if not (np.array_equal(w[0], w0) and np.array_equal(l_[0], l0) and np.array_equal(u[0], u0)):
                return 'lu-zeroth: zeroth coefficients are not scipy.linalg.lu(A_0)'
        elif kind in ('eigh', 'eigh_rep'):
            lam, q = l.data[:, p], Q.data[:, p]
            if not close(tmul(a, q), tmul(q, diag_series(lam)), 1e-7):
                return '%s-AQ: A Q != Q diag(lambda) modulo t^D (max diff %s)' % (kind, maxdiff(tmul(a, q), tmul(q, diag_series(lam))))
            if not close(tmul(tT(q), q), const(np.eye(m), D), 1e-7):
                return '%s-QtQ: Q^T Q != I modulo t^D' % kind
            if np.any(np.diff(lam[0]) < -1e-12):
                return '%s-order: lambda_0 is not ascending' % kind
            if kind == 'eigh' and not np.allclose(lam[0], np.linalg.eigh(a[0])[0], rtol=1e-12, atol=1e-12):
                return 'eigh-zeroth: lambda_0 differs from numpy.linalg.eigh(A_0)'
            if 'scale_log2' not in c:
                f = step_equations_fail('eigh', a, (lam, q))
                if f:
                    return f
        elif kind == 'eig':
            lam, q = l.data[:, p], Q.data[:, p]
            qc = q.astype(complex)
            lhs = tmul_c(a.astype(complex), qc)
            rhs = tmul_c(qc, np.array([np.diag(lam[d]) for d in range(D)]).astype(complex))
            if not close(lhs, rhs, 1e-7):
                return 'eig-AQ: A Q != Q diag(lambda) modulo t^D'
        else:
            u, sv, v = U.data[:, p], s.data[:, p], V.data[:, p]
            k = sv.shape[1]
            S = np.zeros((D, m, n))
            for d in range(D):
                S[d, :k, :k] = np.diag(sv[d])
            if not close(tmul(u, tmul(S, tT(v))), a, 1e-7):
                return 'svd-USVt: U diag(s) V^T != A modulo t^D (max diff %s)' % maxdiff(tmul(u, tmul(S, tT(v))), a)
            if not close(tmul(tT(u), u), const(np.eye(u.shape[2]), D), 1e-7) or not close(tmul(tT(v), v), const(np.eye(v.shape[2]), D), 1e-7):
                return 'svd-orth: U or V is not orthogonal modulo t^D'
            smax = max(float(_amax(sv[0])), 1e-300)
            if np.any(sv[0] < -1e-12 * smax) or np.any(np.diff(sv[0]) > 1e-12 * smax):      # a vanishing singular value is 0 up to rounding
                return 'svd-order: s_0 is not non-negative and descending'
    return None


def step_equations_fail(kind, a, outs):
    """the order-d step equations that the Lean theorems (Proofs/Factor.lean) take as hypotheses,
    evaluated on the implementation's output (square QR, Cholesky, LU)"""
    D, n, m = a.shape
    if kind == 'qr' and n == m:
        q, r = outs
        if D == 1:
            return None                  # no step equations for the plain factorization
        Rinv = np.linalg.inv(r[0])
        PLm = np.tril(np.ones((n, n)), -1)
        for d in range(1, D):
            H = a[d] - sum((q[k] @ r[d - k] for k in range(1, d)), np.zeros((n, n)))
            S = -0.5 * sum((q[k].T @ q[d - k] for k in range(1, d)), np.zeros((n, n)))
            X = PLm * (q[0].T @ H @ Rinv - S)
            X = X - X.T
            if not close(r[d], q[0].T @ H - (S + X) @ r[0], 1e-8) or not close(q[d], q[0] @ (S + X), 1e-8):
                return 'qr-step: the order-%d step equations of _qr_rectangular (model of the theorem) do not hold on the output' % d
    if kind == 'qr' and n > m and D > 1:
        # QRTallStep (Proofs/FactorTall.lean): M > N rows than columns; the last step is Q_d = (H - Q_0 R_d) R_0^{-1}
        q, r = outs
        M_, N_ = n, m
        Rinv = np.linalg.inv(r[0])
        PLm = np.tril(np.ones((N_, N_)), -1)
        for d in range(1, D):
            H = a[d] - sum((q[k] @ r[d - k] for k in range(1, d)), np.zeros((M_, N_)))
            S = -0.5 * sum((q[k].T @ q[d - k] for k in range(1, d)), np.zeros((N_, N_)))
            X = PLm * (q[0].T @ H @ Rinv - S)
            X = X - X.T
            if not close(r[d], q[0].T @ H - (S + X) @ r[0], 1e-8) or not close(q[d], (H - q[0] @ r[d]) @ Rinv, 1e-8):
                return 'qr-tall-step: the order-%d step equations of _qr_rectangular for a tall matrix (model of the theorem) do not hold on the output' % d
    if kind == 'qr' and n < m and D > 1:
        # wide QR (Proofs/FactorWide.lean): the hypotheses of qr_wide_defining_equation on the output -- the square step equations on
        # the first M columns (Q, R1) and R2 = Q(t)^T A2(t) as a polynomial product
        q, r = outs
        M_ = n
        f = step_equations_fail('qr', a[:, :, :M_], (q, r[:, :, :M_]))
        if f:
            return f
        for d in range(D):
            want = sum((q[k].T @ a[d - k][:, M_:] for k in range(d + 1)), np.zeros((M_, m - M_)))
            if not close(r[d][:, M_:], want, 1e-8):
                return 'qr-wide-step: R2 is not the order-%d coefficient of Q(t)^T A2(t) (model of the theorem) on the output' % d
    if kind == 'cholesky':
        l_, = outs
        L0inv = np.linalg.inv(l_[0])
        for d in range(1, D):
            dF = sum((l_[d - k] @ l_[k].T for k in range(1, d)), np.zeros((n, n))) - a[d]
            G = L0inv @ dF @ L0inv.T
            Phi = np.tril(G, -1) + 0.5 * np.diag(np.diag(G))
            if not close(l_[d], -(l_[0] @ Phi), 1e-8):
                return 'cholesky-step: the order-%d step equation of _cholesky (model of the theorem) does not hold on the output' % d
    if kind == 'eigh':
        # Eigh1Step (Proofs/EighStep.lean): for distinct eigenvalues UTPM.eigh is one call of _eigh1 on the whole
        # matrix; for repeated eigenvalues the relaxed problem is solved by UTPM._eigh1 itself (block diagonal L)
        lam, q = outs
        gaps = np.abs(np.subtract.outer(lam[0], lam[0]))[~np.eye(n, dtype=bool)]
        if n > 1 and gaps.min() <= 1e-6:
            Lh, Qh = np.zeros((D, n, n)), np.zeros((D, n, n))
            UTPM._eigh1(Lh, Qh, a.copy())
            q, Lm = Qh, Lh
        else:
            Lm = np.array([np.diag(lam[d]) for d in range(D)])
        l0 = np.diag(Lm[0])
        same = np.abs(np.subtract.outer(l0, l0)) <= 1e-8
        with np.errstate(divide='ignore'):
            Hm = np.where(same, 0.0, 1.0 / np.where(same, 1.0, l0[None, :] - l0[:, None]))
        for d in range(1, D):
            G = sum((q[k].T @ q[d - k] for k in range(1, d)), np.zeros((n, n)))
            S = -0.5 * G
            F = np.zeros((n, n))
            for i in range(d):
                for j in range(d):
                    k = d - i - j
                    if 0 <= k < d:
                        F += q[i].T @ a[j] @ q[k]
            Km = F + q[0].T @ a[d] @ q[0] + S @ Lm[0] + Lm[0] @ S
            X = Km * Hm
            if not close(Lm[d], np.where(same, Km, 0.0), 1e-7) or not close(q[d], q[0] @ (X + S), 1e-7):
                return 'eigh-step: the order-%d step equations of _eigh1 (model of the theorem) do not hold on the output' % d
    if kind == 'lu':
        w, l_, u = outs
        if D > 1:
            L0inv, U0inv = np.linalg.inv(l_[0]), np.linalg.inv(u[0])
        for d in range(1, D):
            dF = w[0].T @ a[d] - sum((l_[d - k] @ u[k] for k in range(1, d)), np.zeros((n, n)))
            F_ = L0inv @ dF @ U0inv
            if not close(u[d], np.triu(F_) @ u[0], 1e-8) or not close(l_[d], l_[0] @ np.tril(F_, -1), 1e-8):
                return 'lu-step: the order-%d step equations of UTPM.lu (model of the theorem) do not hold on the output' % d
    return None


def tmul_c(a, b):
    D = a.shape[0]
    out = np.zeros((D,) + (a[0] @ b[0]).shape, dtype=complex)
    for d in range(D):
        for c in range(d + 1):
            out[d] += a[c] @ b[d - c]
    return out


def qr_inplace_fails(case):
    """the in-place form UTPM.qr(B, out=(Q, B)) (R overwrites the matrix, as cholesky(A, out=A) and eigh(A, out=(l, A)) allow):
    the same factors as the call with separate buffers"""
    x = np.array(case['x'])
    D, P, M, N = x.shape
    K = min(M, N)
    try:
        Qw, Rw = UTPM.qr(UTPM(x.copy()))
        B = UTPM(x.copy())
        Q = UTPM(np.zeros((D, P, M, K)))
        Qg, Rg = UTPM.qr(B, out=(Q, B[:K, :] if M > N else B))
    except Exception as ex:
        return 'qr-inplace-exception: %s (shape %dx%d)' % (type(ex).__name__ + ':' + str(ex)[:80], M, N)
    if not close(Qg.data, Qw.data, 1e-10) or not close(Rg.data, Rw.data, 1e-10):
        return 'qr-inplace: UTPM.qr(B, out=(Q, B)) of a %dx%d matrix polynomial differs from the call with separate buffers (max diff in R %s)' % (
            M, N, maxdiff(Rg.data, Rw.data))
    return None


def replay_case(ctx, case):
    if case.get('op') == 'qr-inplace':
        return qr_inplace_fails(case)
    if case.get('op') == 'utpclass-table':
        import utpcheck
        return utpcheck.replay(case)
    return check(case)


def permuted_lu_cases(rng):
    """every row permutation of a 3x3 base matrix (and some of 4x4) for each LU entry point"""
    perms = list(itertools.permutations(range(3))) + [(1, 2, 3, 0), (3, 0, 1, 2), (2, 3, 0, 1), (1, 0, 3, 2)]
    out = []
    for perm in perms:
        n = len(perm)
        for kind in ('lu', 'lu2', 'lu_factor'):
            D, P = rng.randint(2, 3), rng.choice([1, 2])
            x = rand_coeffs(rng, (D, P, n, n), -1, 1)
            base = rand_coeffs(rng, (n, n), -1, 1) + 4 * np.eye(n)
            for p_ in range(P):
                x[0, p_] = (base + 0.25 * rand_coeffs(rng, (n, n), -1, 1))[list(perm)]
            out.append({'op': kind, 'D': D, 'P': P, 'x': x})
    return out


def run(ctx):
    import utpcheck
    utpcheck.run(ctx, 'C08')
    rng = ctx.rng
    for c in permuted_lu_cases(rng):
        ctx.evaluations += 1
        ctx.count('permuted=' + c['op'])
        try:
            f = check(c)
        except Exception as ex:
            f = 'exception-%s: %s' % (c['op'], type(ex).__name__ + ':' + str(ex)[:100])
        if f:
            ctx.report(c, 'failure', f)
    # eigh / svd on data far below (and above) the default threshold with the documented keyword, one and several directions,
    # on every run
    for kind in ('eigh', 'svd'):
        for P_ in (1, 2, 3):
            for sc in (-33, 20):
                c = None
                for _ in range(400):
                    c_ = make_case(rng, ctx.tier)
                    if c_['op'] == kind and c_['P'] == min(P_, 2) and c_['D'] >= 2 and 'out_seed' not in c_:
                        c = c_
                        break
                if c is None:
                    continue                     # (no suitable case drawn this time)
                c['scale_log2'] = sc
                if P_ == 3:
                    x_ = np.array(c['x'])
                    c['x'] = np.concatenate([x_, x_[:, :1] * 1.0], axis=1)
                    c['P'] = x_.shape[1] + 1
                    c.pop('rankdef_dir', None)
                ctx.evaluations += 1
                ctx.count('threshold-keyword=' + kind)
                try:
                    f = check(c)
                except Exception as ex:
                    f = 'exception-%s: %s' % (c['op'], type(ex).__name__ + ':' + str(ex)[:100])
                if f:
                    ctx.report(c, 'failure', f)
    # qr with the documented epsilon keyword on data far below the default rank threshold: square, tall and wide, on every run
    for (m_, n_) in ((2, 2), (3, 3), (3, 2), (4, 2), (2, 3), (2, 4), (3, 5)):
        for P_ in (1, 2):
            D_ = rng.randint(2, 4)
            if m_ >= n_:
                x_ = ops.gen_tall(rng, D_, P_, m_, n_)
            else:
                x_ = np.concatenate([ops.gen_tall(rng, D_, P_, m_, m_), rand_coeffs(rng, (D_, P_, m_, n_ - m_), -1, 1)], axis=3)
            c = {'op': 'qr', 'D': D_, 'P': P_, 'x': x_, 'scale_log2': -52, 'qr_eps': 1e-40}
            ctx.evaluations += 1
            ctx.count('threshold-keyword=qr')
            try:
                f = check(c)
            except Exception as ex:
                f = 'exception-%s: %s' % (c['op'], type(ex).__name__ + ':' + str(ex)[:100])
            if f:
                ctx.report(c, 'failure', f)
    for (m_, n_) in ((2, 2), (3, 3), (2, 4), (2, 3), (3, 5)):
        for D_, P_ in ((1, 1), (3, 2)):
            x_ = ops.gen_tall(rng, D_, P_, m_, n_) if m_ >= n_ else np.concatenate([ops.gen_tall(rng, D_, P_, m_, m_), rand_coeffs(rng, (D_, P_, m_, n_ - m_), -1, 1)], axis=3)
            case = {'op': 'qr-inplace', 'D': D_, 'P': P_, 'x': x_}
            ctx.evaluations += 1
            ctx.count('qr-inplace-form')
            f = qr_inplace_fails(case)
            if f:
                ctx.report(case, 'failure', f)
    # the plain factorization (D = 1) of rank-deficient matrices, and matrices without rows / columns at every D: the factors
    # exist (QR of any matrix; empty factors), nothing needs to be inverted
    for kind in ('qr_full', 'qr'):
        for A0 in ([[1., 0.], [2., 0.], [3., 0.]], [[1., 0.], [0., 0.]], [[0., 0.], [0., 0.]], [[0., 1.], [0., 2.]], [[1., 2.], [2., 4.], [0., 0.]]):
            for P_ in (1, 2):
                a0 = np.array(A0)
                c = {'op': kind, 'D': 1, 'P': P_, 'x': np.stack([a0] * P_)[None]}
                ctx.evaluations += 1
                ctx.count('degenerate=' + kind)
                try:
                    f = check(c)
                except Exception as ex:
                    f = 'exception-%s: %s (D = 1, rank-deficient matrix)' % (c['op'], type(ex).__name__ + ':' + str(ex)[:100])
                if f:
                    ctx.report(c, 'failure', f)
    for kind, shp in (('qr_full', (0, 0)), ('qr', (0, 0)), ('svd', (3, 0)), ('svd', (0, 0)), ('cholesky', (0, 0)), ('lu', (0, 0)), ('eigh', (0, 0))):
        for D_, P_ in ((1, 1), (2, 1), (3, 2)):
            c = {'op': kind, 'D': D_, 'P': P_, 'x': np.zeros((D_, P_) + shp)}
            ctx.evaluations += 1
            ctx.count('empty=' + kind)
            try:
                f = check(c)
            except Exception as ex:
                f = 'exception-%s: %s (matrix of shape %s)' % (c['op'], type(ex).__name__ + ':' + str(ex)[:100], shp)
            if f:
                ctx.report(c, 'failure', f)
    # every factorization of polynomials with whole orders exactly zero (A0 + t^2 A2 + t^3 A3; A0 + t A1 + t^3 A3; odd orders zero;
    # affine A0 + t A1 carried to D = 4), in one direction only or in all: on every run
    for kind in ('qr', 'qr-tall', 'qr-wide', 'qr_full', 'cholesky', 'lu', 'lu2', 'lu_factor', 'eigh', 'svd'):
        for pat in ('order1-zero', 'order2-zero', 'odd-orders-zero', 'affine'):
            for where in ('all', 'first'):
                D_, P_ = 4, 2
                if kind in ('qr', 'qr_full'):
                    x_ = ops.gen_tall(rng, D_, P_, 3, 3)
                elif kind == 'qr-tall':
                    x_ = ops.gen_tall(rng, D_, P_, 4, 2)
                elif kind == 'qr-wide':
                    x_ = np.concatenate([ops.gen_tall(rng, D_, P_, 2, 2), rand_coeffs(rng, (D_, P_, 2, 2), -1, 1)], axis=3)
                elif kind == 'cholesky':
                    x_ = ops.gen_square(rng, D_, P_, 3, 'spd')
                elif kind == 'eigh':
                    x_ = ops.gen_square(rng, D_, P_, 3, 'sym')
                elif kind == 'svd':
                    x_ = None
                    for _ in range(400):
                        c_ = make_case(rng, ctx.tier)
                        if c_['op'] == 'svd' and c_['P'] == 2 and c_['D'] == 4 and 'rankdef_dir' not in c_:
                            x_ = np.array(c_['x'])
                            break
                    if x_ is None:
                        continue
                else:
                    x_ = ops.gen_square(rng, D_, P_, 3, 'general')
                x_ = np.array(x_)
                sl = slice(None) if where == 'all' else slice(0, 1)
                if pat == 'order1-zero':
                    x_[1, sl] = 0
                elif pat == 'order2-zero':
                    x_[2, sl] = 0
                elif pat == 'odd-orders-zero':
                    x_[1::2, sl] = 0
                else:
                    x_[2:, sl] = 0
                c = {'op': kind.split('-')[0], 'D': D_, 'P': P_, 'x': x_}
                ctx.evaluations += 1
                ctx.count('sparse-orders=' + kind)
                try:
                    f = check(c)
                except Exception as ex:
                    f = 'exception-%s: %s (polynomial with vanishing orders: %s)' % (c['op'], type(ex).__name__ + ':' + str(ex)[:100], pat)
                if f:
                    ctx.report(c, 'failure', f)
    for i in range(300 if ctx.tier == 'quick' else 4000):
        c = make_case(rng, ctx.tier)
        ctx.evaluations += 1
        ctx.count('op=' + c['op'], 'D=%d' % c['D'], 'shape=%dx%d' % tuple(np.array(c['x']).shape[2:]))
        h = canon_hash(to_jsonable(c))
        if h not in ctx.hashes:
            ctx.hashes.add(h)
            if c['D'] >= 2:
                ctx.nontrivial += 1
        if len(ctx.samples) < 3 and c['D'] >= 2:
            ctx.samples.append(to_jsonable(c))
        try:
            f = check(c)
        except Exception as ex:
            f = 'harness-exception-%s: %s' % (c['op'], type(ex).__name__ + ':' + str(ex)[:100])
        if f:
            ctx.report(c, 'failure', f)
