"""C07 — linear-algebra functions propagate matrix Taylor polynomials correctly.

Correspondence: dot (matrix ranks, constant operand on either side), inv, solve (UTPM/UTPM, constant A, constant b)
of the real code vs the Lean matrix-series model (exact rationals; zeroth-order inverses as leaves).
Oracle on the implementation: residuals A(t) inv(A)(t) = I, A(t) X(t) = B(t), det via the Leibniz formula in
Taylor arithmetic, logdet = log|det|, trace, outer, dot of every rank combination against an element-wise
Cauchy product, matrix exponential (Pade) against the truncated power series of exp in Taylor arithmetic."""
import itertools
import numpy as np
from common import *
import ops

RULE = ('cases = (function, D, P, sizes 1..4, operand kinds {UTPM,UTPM},{UTPM,ndarray},{ndarray,UTPM}, rank combinations, '
        'well-conditioned base matrices incl. ones that need row pivoting, arbitrary higher coefficients); non-trivial = D>=2; distinct by hash')
ASSUMPTIONS = ['zeroth-order inverses from numpy.linalg.inv as leaves of the model', 'tolerance 1e-9 relative (1e-7 for expm)']


def tmul(a, b):
    """Cauchy product of matrix series a (D,n,k), b (D,k,m)"""
    D = a.shape[0]
    out = np.zeros((D,) + (a[0] @ b[0]).shape)
    for d in range(D):
        for c in range(d + 1):
            out[d] += a[c] @ b[d - c]
    return out


def make_case(rng, tier):
    kind = rng.choice(['dot', 'dot', 'inv', 'solve', 'solve', 'det', 'logdet', 'trace', 'outer', 'expm'])
    D = rng.randint(1, 4 if tier == 'quick' else 6)
    P = rng.choice([1, 2])
    n = rng.randint(1, 3 if tier == 'quick' else 4)
    c = {'op': kind, 'D': D, 'P': P}
    if kind == 'dot':
        sub = rng.choice(['mm', 'mv', 'vm', 'vv', 'Am', 'mA', 'Av', 'vA'])
        k, m = rng.randint(1, 3), rng.randint(1, 3)
        sx = {'m': (n, k), 'v': (k,), 'A': (n, k)}[sub[0]]
        sy = {'m': (k, m), 'v': (k,), 'A': (k, m)}[sub[1]]
        c['sub'] = sub
        c['x'] = rand_coeffs(rng, ((D, P) if sub[0] != 'A' else ()) + sx, -2, 2)
        c['y'] = rand_coeffs(rng, ((D, P) if sub[1] != 'A' else ()) + sy, -2, 2)
    elif kind == 'trace' and rng.random() < 0.6:
        c['x'] = rand_coeffs(rng, (D, P, rng.randint(1, 5), rng.randint(1, 5)), -2, 2)      # tall / wide / square
    elif kind in ('inv', 'det', 'logdet', 'trace'):
        c['x'] = ops.gen_square(rng, D, P, n, 'spd' if (kind == 'logdet' and rng.random() < 0.4) else 'general')   # logdet = log|det|: either sign
        if kind == 'det' and rng.random() < 0.25:
            c['x'] = ops._gen_det_singular(rng, D, P, tier)[0]['v']        # singular zeroth coefficient: det is smooth there too
    elif kind == 'solve':
        sub = rng.choice(['uu', 'uu', 'au', 'ua'])
        k = rng.randint(1, 3)
        c['sub'] = sub
        c['x'] = ops.gen_square(rng, D, P, n) if sub[0] == 'u' else ops.gen_square(rng, 1, 1, n)[0, 0]
        c['y'] = rand_coeffs(rng, ((D, P) if sub[1] == 'u' else ()) + (n, k), -2, 2)
    elif kind == 'outer':
        m = rng.randint(1, 3)
        c['x'], c['y'] = rand_coeffs(rng, (D, P, n), -2, 2), rand_coeffs(rng, (D, P, m), -2, 2)
    else:
        # every Pade order the library offers, each with a base point inside that order's range
        q = rng.choice([7, 7, 3, 5, 9, 13])
        c['q'] = q
        amp = {3: 0.003, 5: 0.05, 7: 0.5, 9: 0.5, 13: 0.5}[q]
        c['x'] = rand_coeffs(rng, (D, P, n, n), -0.5, 0.5)
        c['x'][0] = rand_coeffs(rng, (P, n, n), -amp, amp)
        if rng.random() < 0.3:
            # the driver that picks the Pade order itself from the 1-norm (expm_higham_2005): every direction has its own norm,
            # in a different order's range (below theta_13 / 2.5: above, the scaling branch is not usable, NameError on the unchanged tree)
            c['q'] = 'higham'
            for p in range(P):
                a = rand_coeffs(rng, (n, n), -1, 1) + np.eye(n) * 0.25
                if np.linalg.norm(a, 1) < 0.1:
                    a = np.eye(n)
                c['x'][0, p] = a / np.linalg.norm(a, 1) * rng.choice([1e-3, 0.05, 0.4, 0.6, 1.5, 1.9])
    return c


def pade_table_fails(ctx, c):
    import importlib
    compound = importlib.import_module('algopy.linalg.compound')
    q, xv = int(c['q']), float(c['x'])
    Uc, Vc = getattr(compound, '_expm_pade%d' % q)(np.array([[xv]]), np.eye(1))
    r = ctx.model.ask({'op': 'pade', 'q': q, 'x': enc_num(xv)})
    Um, Vm = float(F(r['U'])), float(F(r['V']))
    if abs(float(Uc[0, 0]) - Um) > 1e-12 * max(1.0, abs(Um)) or abs(float(Vc[0, 0]) - Vm) > 1e-12 * max(1.0, abs(Vm)):
        return 'pade-table-%d: _expm_pade%d([[x]]) gives U, V = %r, %r; the model tables give %r, %r' % (q, q, float(Uc[0, 0]), float(Vc[0, 0]), Um, Vm)
    # through the public entry point: expm_pade([[x]], q) = (U + V) / (V - U), and it is exp(x) up to the Pade remainder
    got = float(algopy.expm_pade(np.array([[xv]]), q)[0, 0])
    want = (Um + Vm) / (Vm - Um)
    if abs(got - want) > 1e-12 * max(1.0, abs(want)):
        return 'pade-table-%d: expm_pade([[x]], %d) = %r, the model tables give %r' % (q, q, got, want)
    return None


def check(ctx, c):
    kind, D, P = c['op'], c['D'], c['P']
    if kind == 'pade-table':
        return pade_table_fails(ctx, c)
    x = np.array(c['x'])
    if kind == 'dot':
        sub = c['sub']
        y = np.array(c['y'])
        X = UTPM(x.copy()) if sub[0] != 'A' else x.copy()
        Y = UTPM(y.copy()) if sub[1] != 'A' else y.copy()
        try:
            z = algopy.dot(X, Y)
        except Exception as ex:
            return 'dot-exception-%s: %s' % (sub, type(ex).__name__ + ':' + str(ex)[:80])
        for p in range(P):
            a = x[:, p] if sub[0] != 'A' else np.concatenate([x[None], np.zeros((D - 1,) + x.shape)])
            b = y[:, p] if sub[1] != 'A' else np.concatenate([y[None], np.zeros((D - 1,) + y.shape)])
            want = np.array([sum(np.dot(a[k], b[d - k]) for k in range(d + 1)) for d in range(D)])
            if z.data[:, p].shape != want.shape:
                return 'dot-shape-%s: result coefficient shape %s, NumPy gives %s' % (sub, z.data[:, p].shape[1:], want.shape[1:])
            if not close(z.data[:, p], want):
                return 'dot-%s: differs from the Cauchy product of numpy.dot, max diff %s' % (sub, maxdiff(z.data[:, p], want))
        if sub in ('mm', 'Am', 'mA'):
            m = ctx.model.arrs({'op': 'mat', 'what': 'dot', 'x': enc_arr(x), 'y': enc_arr(y), 'xk': 'u' if sub[0] != 'A' else 'a', 'yk': 'u' if sub[1] != 'A' else 'a'})
            if isinstance(m, str) or not close(z.data, m[0]):
                return 'dot-model-%s: differs from the matrix-series model' % sub
        return None
    if kind == 'outer':
        y = np.array(c['y'])
        z = algopy.outer(UTPM(x.copy()), UTPM(y.copy()))
        for p in range(P):
            want = np.array([sum(np.outer(x[k, p], y[d - k, p]) for k in range(d + 1)) for d in range(D)])
            if z.data[:, p].shape != want.shape or not close(z.data[:, p], want):
                return 'outer: differs from the Cauchy product of numpy.outer'
        return None
    if kind == 'inv':
        Y = algopy.inv(UTPM(x.copy()))
        l0 = np.array([np.linalg.inv(x[0, p]) for p in range(P)])
        m = ctx.model.arrs({'op': 'mat', 'what': 'inv', 'x': enc_arr(x), 'l0': enc_arr(l0)})
        if isinstance(m, str) or not close(Y.data, m[0]):
            return 'inv-model: differs from the matrix-series model, max diff %s' % (maxdiff(Y.data, m[0]) if not isinstance(m, str) else m)
        n = x.shape[2]
        for p in range(P):
            I = np.zeros((D, n, n))
            I[0] = np.eye(n)
            if not close(tmul(x[:, p], Y.data[:, p]), I, 1e-8) or not close(tmul(Y.data[:, p], x[:, p]), I, 1e-8):
                return 'inv-residual: A(t) inv(A)(t) != I modulo t^D'
        return None
    if kind == 'solve':
        sub = c['sub']
        y = np.array(c['y'])
        A = UTPM(x.copy()) if sub[0] == 'u' else x.copy()
        B = UTPM(y.copy()) if sub[1] == 'u' else y.copy()
        try:
            X = algopy.solve(A, B)
        except Exception as ex:
            return 'solve-exception-%s: %s' % (sub, type(ex).__name__ + ':' + str(ex)[:80])
        for p in range(P):
            a = x[:, p] if sub[0] == 'u' else np.concatenate([x[None], np.zeros((D - 1,) + x.shape)])
            b = y[:, p] if sub[1] == 'u' else np.concatenate([y[None], np.zeros((D - 1,) + y.shape)])
            if X.data[:, p].shape != b.shape or not close(tmul(a, X.data[:, p]), b, 1e-8):
                return 'solve-residual-%s: A(t) X(t) != B(t) modulo t^D' % sub
        l0 = np.array([np.linalg.inv(x[0, p]) for p in range(P)]) if sub[0] == 'u' else np.linalg.inv(x)[None]
        m = ctx.model.arrs({'op': 'mat', 'what': 'solve', 'kind': sub, 'x': enc_arr(x if sub[0] == 'u' else y), 'y': enc_arr(y), 'l0': enc_arr(l0)})
        if isinstance(m, str) or not close(X.data, m[0], 1e-8):
            return 'solve-model-%s: differs from the matrix-series model' % sub
        return None
    if kind == 'trace':
        t = algopy.trace(UTPM(x.copy()))
        want = np.trace(x, axis1=2, axis2=3)
        if t.data.shape != want.shape or not close(t.data, want):
            return 'trace: differs from the coefficient-wise trace'
        return None
    if kind in ('det', 'logdet'):
        n = x.shape[2]
        # Leibniz formula in Taylor arithmetic (independent of LU)
        det = UTPM(np.zeros((D, P)))
        X = UTPM(x.copy())
        for perm in itertools.permutations(range(n)):
            sgn = np.linalg.det(np.eye(n)[list(perm)])
            term = UTPM(np.zeros((D, P)))
            term.data[0] = sgn
            for i in range(n):
                term = term * X[i, perm[i]]
            det = det + term
        if kind == 'det':
            try:
                got = algopy.det(UTPM(x.copy()))
            except Exception as ex:
                return 'det-exception: raised %s (zeroth coefficients with determinants %s)' % (
                    type(ex).__name__ + ':' + str(ex)[:60], [round(float(np.linalg.det(x[0, p])), 6) for p in range(P)])
            if not close(got.data, det.data, 1e-8):
                return 'det: differs from the Leibniz formula in Taylor arithmetic, max diff %s' % maxdiff(got.data, det.data)
        else:
            got = algopy.logdet(UTPM(x.copy()))
            # log|det| (numpy.linalg.slogdet(A)[1], which is what algopy.logdet returns for a plain array): smooth for either sign
            absdet = UTPM(det.data * np.sign(det.data[0]))
            want = algopy.log(absdet)
            if not close(got.data, want.data, 1e-8):
                return 'logdet: differs from log|det| in Taylor arithmetic (signs of the determinants at the base points: %s)' % np.sign(det.data[0]).tolist()
        return None
    if kind == 'expm':
        q = c.get('q', 7)
        if q == 'higham':
            if max(np.linalg.norm(x[0, p], 1) for p in range(P)) >= 2.09:
                return None          # the scaling-and-squaring branch raises NameError on the unchanged tree (documented, outside)
            got = algopy.expm_higham_2005(UTPM(x.copy()))
        else:
            got = algopy.expm(UTPM(x.copy())) if (q == 7 and D % 2 == 0) else algopy.expm_pade(UTPM(x.copy()), q)
        X = UTPM(x.copy())
        n = x.shape[2]
        term = UTPM(np.zeros((D, P, n, n)))
        for p in range(P):
            term.data[0, p] = np.eye(n)
        tot = term.clone()
        for k in range(1, 45):
            term = algopy.dot(term, X) / float(k)
            tot = tot + term
        if not close(got.data, tot.data, 1e-7):
            return 'expm: differs from the exponential series in Taylor arithmetic, max diff %s' % maxdiff(got.data, tot.data)
        return None
    return None


# ---- real/complex and mixed dtypes (oracle only): the result is the NumPy product of the promoted operands --------------
def dtype_case(rng, tier):
    kind = rng.choice(['dot', 'dot', 'outer', 'solve', 'inv', 'det'])
    D, P, n = rng.randint(1, 4), rng.choice([1, 2]), rng.randint(1, 3)
    kinds = rng.choice(['uu', 'ua', 'au']) if kind in ('dot', 'outer', 'solve') else 'u'
    dts = rng.choice(['rc', 'cr', 'cc']) if len(kinds) == 2 else 'c'
    c = {'op': 'dtype', 'fn': kind, 'D': D, 'P': P, 'kinds': kinds, 'dts': dts}

    def arr(shape, u, cplx, square=False):
        if square:
            a = ops.gen_square(rng, D, P, n) if u else ops.gen_square(rng, 1, 1, n)[0, 0]
            if cplx:
                a = a + 0.25j * rand_coeffs(rng, a.shape, -1, 1)
            return a
        a = rand_coeffs(rng, ((D, P) if u else ()) + shape, -2, 2)
        return a + 1j * rand_coeffs(rng, a.shape, -2, 2) if cplx else a
    if kind == 'dot':
        sub = rng.choice(['mm', 'mv', 'vm', 'vv'])
        k, m = rng.randint(1, 3), rng.randint(1, 3)
        c['x'] = arr({'m': (n, k), 'v': (k,)}[sub[0]], kinds[0] == 'u', dts[0] == 'c')
        c['y'] = arr({'m': (k, m), 'v': (k,)}[sub[1]], kinds[1] == 'u', dts[1] == 'c')
    elif kind == 'outer':
        # operands of any rank (numpy.outer flattens them): row / column vectors and matrices next to plain vectors
        def oshape(k):
            return rng.choice([(k,), (k,), (1, k), (k, 1), (2, k)])
        c['dts'] = dts = rng.choice(['rr', 'rr', dts])
        c['x'] = arr(oshape(n), kinds[0] == 'u', dts[0] == 'c')
        c['y'] = arr(oshape(rng.randint(1, 3)), kinds[1] == 'u', dts[1] == 'c')
    elif kind == 'solve':
        c['x'] = arr(None, kinds[0] == 'u', dts[0] == 'c', square=True)
        c['y'] = arr((n, rng.randint(1, 2)), kinds[1] == 'u', dts[1] == 'c')
    else:
        c['x'] = arr(None, True, True, square=True)
    return c


def dtype_check(ctx, c):
    fn, D, P, kinds = c['fn'], c['D'], c['P'], c['kinds']
    x = np.array(c['x'])

    def lift(a, u):
        if u:
            return a
        z = np.zeros((D, P) + a.shape, dtype=a.dtype)
        z[0] = a
        return z

    def cauchy(a, b, f):
        return np.array([[sum(f(a[k, p], b[d - k, p]) for k in range(d + 1)) for p in range(P)] for d in range(D)])
    import warnings
    with warnings.catch_warnings():
        warnings.simplefilter('error', np.exceptions.ComplexWarning)
        try:
            if fn in ('dot', 'outer', 'solve'):
                y = np.array(c['y'])
                X = UTPM(x.copy()) if kinds[0] == 'u' else x.copy()
                Y = UTPM(y.copy()) if kinds[1] == 'u' else y.copy()
                z = getattr(algopy, fn)(X, Y)
            else:
                z = getattr(algopy, fn)(UTPM(x.copy()))
        except Exception as ex:
            return 'dtype-exception-%s-%s-%s: %s' % (fn, kinds, c['dts'], type(ex).__name__ + ':' + str(ex)[:80])
    if fn in ('dot', 'outer'):
        want = cauchy(lift(x, kinds[0] == 'u'), lift(y, kinds[1] == 'u'), np.dot if fn == 'dot' else np.outer)
        if z.data.shape != want.shape or z.data.dtype != want.dtype or not close(z.data, want):
            return 'dtype-%s-%s-%s: result (dtype %s) differs from the Cauchy product of numpy.%s on the promoted operands (dtype %s)' % (
                fn, kinds, c['dts'], z.data.dtype, fn, want.dtype)
    elif fn == 'solve':
        b = lift(y, kinds[1] == 'u')
        if z.data.shape != b.shape or not close(cauchy(lift(x, kinds[0] == 'u'), z.data, np.dot), b, 1e-8):
            return 'dtype-solve-%s-%s: A(t) X(t) != B(t) modulo t^D' % (kinds, c['dts'])
    elif fn == 'inv':
        n = x.shape[2]
        I = lift(np.eye(n) + 0j, False)
        if not close(cauchy(x, z.data, np.dot), I, 1e-8):
            return 'dtype-inv: A(t) inv(A)(t) != I modulo t^D for complex A'
    else:
        n = x.shape[2]
        det = UTPM(np.zeros((D, P), dtype=complex))
        X = UTPM(x.copy())
        for perm in itertools.permutations(range(n)):
            term = UTPM(np.zeros((D, P), dtype=complex))
            term.data[0] = np.linalg.det(np.eye(n)[list(perm)])
            for i in range(n):
                term = term * X[i, perm[i]]
            det = det + term
        if not close(z.data, det.data, 1e-8):
            return 'dtype-det: complex det differs from the Leibniz formula in Taylor arithmetic, max diff %s' % maxdiff(z.data, det.data)
    return None


def replay_case(ctx, case):
    if case.get('op') == 'utpclass-table':
        import utpcheck
        return utpcheck.replay(case)
    if case.get('op') == 'dtype':
        return dtype_check(ctx, case)
    return check(ctx, case)


def run(ctx):
    import utpcheck
    utpcheck.run(ctx, 'C07')
    rng = ctx.rng
    for i in range(300 if ctx.tier == 'quick' else 4000):
        c = make_case(rng, ctx.tier)
        ctx.evaluations += 1
        ctx.count('op=' + c['op'] + (':' + c['sub'] if 'sub' in c else ''), 'D=%d' % c['D'])
        h = canon_hash(to_jsonable(c))
        if h not in ctx.hashes:
            ctx.hashes.add(h)
            if c['D'] >= 2:
                ctx.nontrivial += 1
        if len(ctx.samples) < 3 and c['D'] >= 2:
            ctx.samples.append(to_jsonable(c))
        try:
            f = check(ctx, c)
        except Exception as ex:
            f = 'exception-%s: %s' % (c['op'], type(ex).__name__ + ':' + str(ex)[:100])
        if f:
            ctx.report(c, 'failure', f)
    # dot / outer / solve with one operand constant in t (all higher coefficients exactly zero) but with a different zeroth
    # coefficient in every direction, and with whole orders missing (sparse patterns): on every run
    for kind in ('dot', 'outer', 'solve'):
        for which in ('x', 'y'):
            for pat in ('const', 'odd-orders-zero'):
                D, P, n = 3, rng.choice([2, 3]), 2
                if kind == 'dot':
                    c = {'op': 'dot', 'D': D, 'P': P, 'sub': 'mm', 'x': rand_coeffs(rng, (D, P, n, 2), -2, 2), 'y': rand_coeffs(rng, (D, P, 2, 3), -2, 2)}
                elif kind == 'outer':
                    c = {'op': 'outer', 'D': D, 'P': P, 'x': rand_coeffs(rng, (D, P, n), -2, 2), 'y': rand_coeffs(rng, (D, P, 3), -2, 2)}
                else:
                    c = {'op': 'solve', 'D': D, 'P': P, 'sub': 'uu', 'x': ops.gen_square(rng, D, P, n), 'y': rand_coeffs(rng, (D, P, n, 2), -2, 2)}
                a = np.array(c[which])
                if pat == 'const':
                    a[1:] = 0
                else:
                    a[1::2] = 0
                c[which] = a
                ctx.evaluations += 1
                ctx.count('op=%s:sparse-%s' % (kind, pat))
                try:
                    f = check(ctx, c)
                except Exception as ex:
                    f = 'exception-%s: %s' % (c['op'], type(ex).__name__ + ':' + str(ex)[:100])
                if f:
                    ctx.report(c, 'failure', f)
    # dot with a CONSTANT ndarray on either side and a polynomial whose interior orders vanish (y0 + y2 t^2; odd orders zero; order 2 zero)
    for sub in ('Am', 'Av', 'mA', 'vA'):
        for pat in ('order1-zero', 'order2-zero', 'odd-orders-zero'):
            D, P, k = 4, 2, 2
            sx = {'m': (3, k), 'v': (k,), 'A': (3, k)}[sub[0]]
            sy = {'m': (k, 2), 'v': (k,), 'A': (k, 2)}[sub[1]]
            c = {'op': 'dot', 'D': D, 'P': P, 'sub': sub, 'x': rand_coeffs(rng, ((D, P) if sub[0] != 'A' else ()) + sx, -2, 2),
                 'y': rand_coeffs(rng, ((D, P) if sub[1] != 'A' else ()) + sy, -2, 2)}
            which = 'y' if sub[0] == 'A' else 'x'
            a = np.array(c[which])
            if pat == 'order1-zero':
                a[1] = 0
            elif pat == 'order2-zero':
                a[2] = 0
            else:
                a[1::2] = 0
            c[which] = a
            ctx.evaluations += 1
            ctx.count('op=dot:constant-operand-sparse-%s' % pat)
            try:
                f = check(ctx, c)
            except Exception as ex:
                f = 'exception-%s: %s' % (c['op'], type(ex).__name__ + ':' + str(ex)[:100])
            if f:
                ctx.report(c, 'failure', f)
    # the one-operand matrix functions on polynomials with whole orders exactly zero (A0 + t^2 A2 + t^3 A3; A0 + t A1 + t^3 A3; odd orders
    # zero; affine A0 + t A1 carried to D = 4 -- what seeding at a stationary point or a Hessian-type seed produces), the pattern in
    # one direction only or in all: on every run
    for kind in ('inv', 'det', 'logdet', 'trace', 'expm'):
        for pat in ('order1-zero', 'order2-zero', 'odd-orders-zero', 'affine'):
            for where in ('all', 'first'):
                D, P, n = 4, 2, rng.choice([2, 3])
                c = {'op': kind, 'D': D, 'P': P}
                if kind == 'expm':
                    c['q'] = 7
                    c['x'] = rand_coeffs(rng, (D, P, n, n), -0.5, 0.5)
                else:
                    c['x'] = ops.gen_square(rng, D, P, n)
                a = np.array(c['x'])
                sl = slice(None) if where == 'all' else slice(0, 1)
                if pat == 'order1-zero':
                    a[1, sl] = 0
                elif pat == 'order2-zero':
                    a[2, sl] = 0
                elif pat == 'odd-orders-zero':
                    a[1::2, sl] = 0
                else:
                    a[2:, sl] = 0
                c['x'] = a
                ctx.evaluations += 1
                ctx.count('op=%s:sparse-%s' % (kind, pat))
                try:
                    f = check(ctx, c)
                except Exception as ex:
                    f = 'exception-%s: %s' % (c['op'], type(ex).__name__ + ':' + str(ex)[:100])
                if f:
                    ctx.report(c, 'failure', f)
    # solve with a CONSTANT right-hand side and a matrix polynomial whose odd orders vanish (A(t) = A0 + t^2 A2 + ...)
    for P_ in (1, 2):
        A_ = ops.gen_square(rng, 4, P_, 2)
        A_[1::2] = 0
        c = {'op': 'solve', 'D': 4, 'P': P_, 'sub': 'ua', 'x': A_, 'y': rand_coeffs(rng, (2, 2), -2, 2)}
        ctx.evaluations += 1
        ctx.count('op=solve:sparse-constant-rhs')
        try:
            f = check(ctx, c)
        except Exception as ex:
            f = 'exception-%s: %s' % (c['op'], type(ex).__name__ + ':' + str(ex)[:100])
        if f:
            ctx.report(c, 'failure', f)
    # trace of every rectangular shape up to 5 x 5 (tall by one, by two or more rows, wide), on every run
    for (r_, c_) in [(a_, b_) for a_ in range(1, 6) for b_ in range(1, 6)]:
        D, P = rng.randint(1, 3), rng.randint(1, 2)
        c = {'op': 'trace', 'D': D, 'P': P, 'x': rand_coeffs(rng, (D, P, r_, c_), -2, 2)}
        ctx.evaluations += 1
        ctx.count('op=trace:every-shape')
        f = check(ctx, c)
        if f:
            ctx.report(c, 'failure', f)
    # expm_higham_2005 with directions whose norms lie in different Pade ranges, in both orders (the order must be the one the
    # largest direction needs)
    for k_, amps in enumerate([(1e-3, 1.9), (1.9, 1e-3), (0.05, 0.6), (0.6, 0.05), (0.2, 1.2, 1e-3), (1e-3, 1.9), (0.05, 0.6, 1.9), (0.2, 0.01)]):
        # (the last three with D = 1: for D > 1 the method takes the highest order whatever the norms)
        D, P, n = (1 if k_ >= 5 else rng.randint(1, 3)), len(amps), rng.randint(2, 3)
        x = rand_coeffs(rng, (D, P, n, n), -0.5, 0.5)
        for p_, amp in enumerate(amps):
            a = rand_coeffs(rng, (n, n), -1, 1) * 0.002
            a[:, p_ % n] += 1.0          # the column that carries the 1-norm differs from direction to direction (the others are tiny)
            x[0, p_] = a / np.linalg.norm(a, 1) * amp
        c = {'op': 'expm', 'D': D, 'P': P, 'q': 'higham', 'x': x}
        ctx.evaluations += 1
        ctx.count('op=expm:higham-mixed-norms')
        try:
            f = check(ctx, c)
        except Exception as ex:
            f = 'exception-expm: %s' % (type(ex).__name__ + ':' + str(ex)[:100])
        if f:
            ctx.report(c, 'failure', f)
    # expm_higham_2005 with MANY coefficients at small base points (the [m/m] approximant chosen from the norm alone agrees with exp
    # through degree 2m only: the method must take the degree of the polynomial into account)
    for D_, amp in ((8, 0.0), (8, 0.01), (10, 0.0), (12, 0.2), (6, 0.005)):
        n = rng.randint(1, 2)
        x = rand_coeffs(rng, (D_, 1, n, n), -0.5, 0.5)
        a = rand_coeffs(rng, (n, n), -1, 1) + 1.5 * np.eye(n)              # (never the zero matrix)
        x[0, 0] = a / np.linalg.norm(a, 1) * amp
        c = {'op': 'expm', 'D': D_, 'P': 1, 'q': 'higham', 'x': x}
        ctx.evaluations += 1
        ctx.count('op=expm:higham-many-coefficients')
        try:
            f = check(ctx, c)
        except Exception as ex:
            f = 'exception-expm: %s' % (type(ex).__name__ + ':' + str(ex)[:100])
        if f:
            ctx.report(c, 'failure', f)
    # the Pade tables: `_expm_pade<q>` on 1x1 arguments against the model's U, V (the theorems `expm_pade_tables_match_exp` talk
    # about exactly these tables and this even/odd evaluation)
    for q in (3, 5, 7, 9, 13):
        for k in range(4):
            xv = dyadic(rng, -1.5, 1.5)
            c = {'op': 'pade-table', 'q': q, 'x': xv, 'D': 1, 'P': 1}
            ctx.evaluations += 1
            ctx.count('op=pade-table')
            f = pade_table_fails(ctx, c)
            if f:
                ctx.report(c, 'failure', f)
    # every row permutation of a 3x3 (and some 4x4) base matrix, for inv / det / every solve variant: LU pivoting of each kind
    perms = list(itertools.permutations(range(3))) + [(1, 2, 3, 0), (3, 0, 1, 2), (2, 3, 0, 1), (1, 0, 3, 2)]
    for perm in perms:
        n = len(perm)
        for kind, sub in [('solve', 'uu'), ('solve', 'au'), ('solve', 'ua'), ('inv', None), ('det', None)]:
            D, P = rng.randint(2, 3), rng.choice([1, 2])
            c = {'op': kind, 'D': D, 'P': P}
            base = rand_coeffs(rng, (n, n), -1, 1) + 4 * np.eye(n)
            xfull = rand_coeffs(rng, (D, P, n, n), -1, 1)
            for p_ in range(P):
                xfull[0, p_] = (base + 0.25 * rand_coeffs(rng, (n, n), -1, 1))[list(perm)]
            if kind == 'solve':
                c['sub'] = sub
                c['x'] = xfull if sub[0] == 'u' else xfull[0, 0]
                c['y'] = rand_coeffs(rng, ((D, P) if sub[1] == 'u' else ()) + (n, 2), -2, 2)
            else:
                c['x'] = xfull
            ctx.evaluations += 1
            ctx.count('permuted=' + kind)
            try:
                f = check(ctx, c)
            except Exception as ex:
                f = 'exception-%s: %s' % (c['op'], type(ex).__name__ + ':' + str(ex)[:100])
            if f:
                ctx.report(c, 'failure', f)
    for i in range(150 if ctx.tier == 'quick' else 2000):
        c = dtype_case(rng, ctx.tier)
        ctx.evaluations += 1
        ctx.count('dtype=%s:%s:%s' % (c['fn'], c['kinds'], c['dts']))
        h = canon_hash(to_jsonable(c))
        if h not in ctx.hashes:
            ctx.hashes.add(h)
            if c['D'] >= 2:
                ctx.nontrivial += 1
        try:
            f = dtype_check(ctx, c)
        except Exception as ex:
            f = 'exception-dtype-%s: %s' % (c['fn'], type(ex).__name__ + ':' + str(ex)[:100])
        if f:
            ctx.report(c, 'failure', f)
