"""C17 — conversions between representations are lossless and mutually inverse.

Correspondence: shift, symvec/vecsym (F/L/U), base_and_dirs2utpm / utpm2base_and_dirs / utpm2dirs,
piv2mat / piv2det of the real code vs the Lean model.  Oracle on the implementation: the round
trips themselves (bit-wise), as_utpm / ndarray2utpm element law, combine_blocks block law, and for
every pivot vector (all of them for N <= 4 quick / 5 thorough): W L U = A and det(A) = sign*prod(diag U)
against scipy.linalg.lu_factor on a matrix realising that pivot vector."""
import itertools
import numpy as np
import scipy.linalg
from common import *
from algopy import utils

RULE = ('random shapes/D/P/values for the array conversions; ALL pivot vectors with i <= piv[i] < N for N <= 4 (quick) / 5 (thorough), '
        'each realised by a matrix via scipy.linalg.lu_factor when producible; non-trivial = D>=2 (arrays) or a non-identity pivot vector; distinct by hash')
ASSUMPTIONS = ['LAPACK pivot semantics: for i = 0..N-1 exchange rows i and piv[i]']


def mk(rng, tier):
    kind = rng.choice(['shift', 'symvec', 'vecsym', 'basedirs', 'utpm2dirs', 'as_utpm', 'combine'])
    D, P = rng.randint(1, 5), rng.randint(1, 3)
    case = {'op': kind, 'D': D, 'P': P}
    if kind == 'shift':
        shape = rand_shape(rng, 2, 3)
        case['x'] = rand_coeffs(rng, (D, P) + shape, -2, 2)
        case['s'] = rng.randint(-2 * D - 2, 2 * D + 2)           # also shifts by more than the number of coefficients
    elif kind == 'symvec':
        N = rng.randint(1, 4)
        x = rand_coeffs(rng, (D, P, N, N), -2, 2)
        case['uplo'] = rng.choice(['F', 'L', 'U'])
        case['sym'] = rng.random() < 0.6
        if case['sym']:
            x = x + x.transpose(0, 1, 3, 2)
        case['x'] = x
    elif kind == 'vecsym':
        N = rng.randint(1, 4)
        case['N'] = N
        case['x'] = rand_coeffs(rng, (D, P, N * (N + 1) // 2), -2, 2)
        if rng.random() < 0.3:
            case['x'] = case['x'] + 1j * rand_coeffs(rng, (D, P, N * (N + 1) // 2), -2, 2)      # complex values lose nothing either
    elif kind == 'basedirs':
        shape = rand_shape(rng, 2, 3)
        case['x'] = rand_coeffs(rng, shape, -2, 2)
        case['V'] = rand_coeffs(rng, shape + (P, D), -2, 2)
        case['xkind'] = rng.choice(['float', 'float', 'int-array', 'int-list', 'float32', 'complex'])
        if case['xkind'] == 'complex':
            case['x'] = case['x'] + 1j * rand_coeffs(rng, shape, -2, 2)
            case['V'] = case['V'] + 1j * rand_coeffs(rng, shape + (P, D), -2, 2)
        if case['xkind'] not in ('float', 'complex'):
            case['x'] = np.round(case['x'] * 2)        # integer-valued base point, non-integer directions
    elif kind == 'utpm2dirs':
        case['x'] = rand_coeffs(rng, (D, P) + rand_shape(rng, 2, 3), -2, 2)
    elif kind == 'as_utpm':
        outer = tuple(rng.randint(1, 3) for _ in range(rng.randint(1, 2)))
        inner = rand_shape(rng, 1, 2)
        case['outer'] = list(outer)
        case['x'] = rand_coeffs(rng, (int(np.prod(outer)), D, P) + inner, -2, 2)
        if rng.random() < 0.3:
            case['x'] = case['x'] + 1j * rand_coeffs(rng, (int(np.prod(outer)), D, P) + inner, -2, 2)      # complex elements
    else:
        r1, r2, c1, c2 = [rng.randint(1, 2) for _ in range(4)]
        case['blocks'] = [[rand_coeffs(rng, (D, P, r, c), -2, 2) for c in (c1, c2)] for r in (r1, r2)]
    return case


def vecsym_length_fails(case):
    v = np.array(case['x'])
    L = v.shape[2]
    tri = any(n_ * (n_ + 1) // 2 == L for n_ in range(1, L + 1))
    for entry in ('dispatcher', 'method'):
        try:
            A = algopy.vecsym(UTPM(v.copy())) if entry == 'dispatcher' else UTPM.vecsym(UTPM(v.copy()))
        except Exception as ex:
            if tri:
                return 'vecsym-length-exception: vecsym of a vector of triangular length %d raised %s' % (L, type(ex).__name__)
            continue
        back = algopy.symvec(A)
        if back.data.shape != v.shape or not np.array_equal(back.data, v):
            return 'vecsym-length: vecsym accepted a vector of length %d and symvec returns %d entries (information lost)' % (L, back.data.shape[-1])
    return None


def mixed_container_fails(case):
    """a container whose elements are polynomials of different coefficient dtypes (real first, complex later and vice versa) and
    plain constants: every element is found again unchanged (nothing dropped, whatever the order)"""
    D, P = case['D'], case['P']
    elems, want = [], []
    for kind, v in zip(case['kinds'], case['vals']):
        v = np.array(v)
        if kind == 'const':
            c = complex(v.ravel()[0]) if np.iscomplexobj(v) else float(v.ravel()[0])
            elems.append(np.float64(c) if (not isinstance(c, complex) and len(elems) % 2 == 0) else c)     # Python and NumPy scalars
            w = np.zeros((D, P), dtype=complex if isinstance(c, complex) else float)
            w[0] = c
            want.append(w)
        else:
            elems.append(UTPM(v.copy()))
            want.append(v)
    for name, f in (('as_utpm', UTPM.as_utpm), ('ndarray2utpm', utils.ndarray2utpm)):
        try:
            y = f(list(elems))
        except Exception as ex:
            return '%s-mixed-exception: raised %s for element kinds %s' % (name, type(ex).__name__ + ':' + str(ex)[:60], case['kinds'])
        for i, w in enumerate(want):
            got = y.data[:, :, i]
            if got.shape != w.shape or not np.array_equal(got, w):
                return '%s-mixed: element %d (%s) is not found again unchanged (element kinds %s, result dtype %s)' % (
                    name, i, case['kinds'][i], case['kinds'], y.data.dtype)
    return None


def traced_container_fails(case):
    """ndarray2utpm on a container of TRACED polynomials (its prototype search accepts tracer nodes): the traced value equals the
    conversion of the untraced elements, also with a plain constant in the first slot, and the recorded graph replays"""
    x0 = np.array(case['x'])
    kind = case['kind']

    def build(x):
        els = [[x[0] * x[1], x[2]], [x[1], x[0] * x[2]]]
        if kind == 'const-first':
            els[0][0] = 2.0
        if kind == 'complex-later':
            els[1][0] = 1j * x[1]               # a complex polynomial after real ones: the result is complex
        if kind == 'complex-constant-later':
            els[1][1] = 2j
        return utils.ndarray2utpm(els)
    ux = UTPM(x0.copy())
    want = build(ux)
    if case.get('rec') == 'ndarray':
        # the graph recorded at a PLAIN array point (Function(ndarray)): value while recording and the replay on a polynomial
        p0 = x0[0, 0].copy()
        wantp = build(p0)
        cgp = algopy.CGraph()
        fp = algopy.Function(p0.copy())
        try:
            fyp = build(fp)
        except Exception as ex:
            cgp.trace_off()
            return 'traced-container-exception: ndarray2utpm of elements traced at a plain array point (%s) raised %s' % (kind, type(ex).__name__ + ':' + str(ex)[:60])
        cgp.trace_off()
        cgp.independentFunctionList = [fp]
        cgp.dependentFunctionList = [fyp]
        if np.asarray(fyp.x).shape != np.asarray(wantp).shape or not np.array_equal(np.asarray(fyp.x), np.asarray(wantp)):
            return 'traced-container-value: the conversion traced at a plain array point differs from the conversion of the untraced elements (%s)' % kind
        gotp = cgp.function([UTPM(x0.copy())])[0]
        if not isinstance(gotp, UTPM) or gotp.data.shape != want.data.shape or not np.array_equal(gotp.data, want.data):
            return 'traced-container-replay: the replay of a graph recorded at a plain array point differs from the direct conversion (%s)' % kind
        return None
    cg = algopy.CGraph()
    fx = algopy.Function(UTPM(x0.copy()))
    try:
        fy = build(fx)
    except Exception as ex:
        return 'traced-container-exception: ndarray2utpm of traced elements (%s) raised %s; the same container of untraced polynomials converts' % (
            kind, type(ex).__name__ + ':' + str(ex)[:60])
    cg.trace_off()
    cg.independentFunctionList = [fx]
    cg.dependentFunctionList = [fy]
    if not isinstance(fy, algopy.Function) or not np.array_equal(fy.x.data, want.data):
        return 'traced-container-value: the traced conversion differs from the conversion of the untraced elements (%s)' % kind
    x1 = x0 + 0.25
    got = cg.function([UTPM(x1.copy())])[0]
    if not np.array_equal(got.data, build(UTPM(x1.copy())).data):
        return 'traced-container-replay: the replay at another point differs from the direct conversion (%s)' % kind
    return None


def vector_elements_fails(case):
    """a container (object array or list) whose elements are VECTOR-valued polynomials: both converters stack them, every element
    is found again unchanged (result shape = container shape + element shape)"""
    a, b = np.array(case['a']), np.array(case['b'])
    els = [UTPM(a.copy()), UTPM(b.copy())]
    if case['container'] == 'object-array':
        c = np.empty(2, dtype=object)
        c[0], c[1] = els
    else:
        c = els
    for name, f in (('as_utpm', UTPM.as_utpm), ('ndarray2utpm', utils.ndarray2utpm)):
        try:
            y = f(c)
        except Exception as ex:
            return '%s-vector-elements-exception: raised %s for a %s of vector-valued polynomials' % (name, type(ex).__name__ + ':' + str(ex)[:60], case['container'])
        want = np.stack([a, b], axis=2)
        if y.data.shape != want.shape or not np.array_equal(y.data, want):
            return '%s-vector-elements: a %s of two polynomials of shape %s gives a coefficient array of shape %s (expected %s): elements are not found again' % (
                name, case['container'], a.shape[2:], y.data.shape, want.shape)
    return None


def traced_roundtrip_fails(case):
    """the round trip symvec(vecsym(v), UPLO) recorded on the tracer: lossless in forward mode, and its reverse sweep hands the
    seed back unchanged (the round trip is the identity map, so is its adjoint) -- for every storage convention"""
    v0, wb = np.array(case['v']), np.array(case['wbar'])
    for uplo in ('F', 'L', 'U'):
        cg = algopy.CGraph()
        fv = algopy.Function(UTPM(v0.copy()))
        fw = algopy.symvec(algopy.vecsym(fv), uplo)
        cg.trace_off()
        cg.independentFunctionList = [fv]
        cg.dependentFunctionList = [fw]
        if not np.array_equal(fw.x.data, v0):
            return 'traced-roundtrip-forward: symvec(vecsym(v), %s) is not v on the tracer' % uplo
        cg.pullback([UTPM(wb.copy())])
        if not close(fv.xbar.data, wb, 1e-12):
            return 'traced-roundtrip-reverse: the reverse sweep of symvec(vecsym(v), %s) does not return the seed (max diff %s)' % (uplo, maxdiff(fv.xbar.data, wb))
    return None


def run_one(ctx, case):
    if case['op'] == 'vector-elements':
        return vector_elements_fails(case)
    if case['op'] == 'traced-roundtrip':
        return traced_roundtrip_fails(case)
    if case['op'] == 'traced-container':
        return traced_container_fails(case)
    k = case['op']
    if k == 'vecsym-length':
        return vecsym_length_fails(case)
    if k == 'mixed-container':
        return mixed_container_fails(case)
    if k == 'shift':
        x = np.array(case['x'])
        s = int(case['s'])
        D = x.shape[0]
        u = UTPM(x.copy())
        try:
            y = u.shift(s)
        except Exception as ex:
            return 'shift-exception: shift(%d) raised %s' % (s, type(ex).__name__)
        m = ctx.model.arrs({'op': 'conv', 'what': 'shift', 'x': enc_arr(x), 's': s})[0]
        if not np.array_equal(y.data, m):
            return 'shift-mismatch: shift(%d) differs from the model' % s
        back = y.shift(-s).data
        want = x.copy()
        if s > 0:
            want[max(D - s, 0):] = 0
        elif s < 0:
            want[:min(-s, D)] = 0
        if not np.array_equal(back, want):
            return 'shift-roundtrip: shift(shift(x,%d),%d) is not x on the retained part' % (s, -s)
        if not np.array_equal(u.data, x):
            return 'shift-mutated: shift modified its argument'
        return None
    if k == 'symvec':
        x = np.array(case['x'])
        v = algopy.symvec(UTPM(x.copy()), case['uplo'])
        m = ctx.model.arrs({'op': 'conv', 'what': 'symvec', 'x': enc_arr(x), 'uplo': case['uplo']})[0]
        if not close(v.data, m, 1e-12):
            return 'symvec-mismatch-%s: differs from the model' % case['uplo']
        # every dispatch path of the global function: ndarray, traced UTPM, traced ndarray, method forms
        from algopy import CGraph, Function
        for d in range(x.shape[0]):
            for p_ in range(x.shape[1]):
                if not close(algopy.symvec(x[d, p_].copy(), case['uplo']), m[d, p_], 1e-12):
                    return 'symvec-ndarray-%s: algopy.symvec(ndarray) differs from the model' % case['uplo']
        cg = CGraph()
        fA = Function(UTPM(x.copy()))
        fv = algopy.symvec(fA, case['uplo'])
        fv2 = fA.symvec(case['uplo'])
        fn = algopy.symvec(Function(x[0, 0].copy()), case['uplo'])
        fback = algopy.vecsym(fv)
        cg.trace_off()
        if not close(fv.x.data, m, 1e-12) or not close(fv2.x.data, m, 1e-12):
            return 'symvec-traced-%s: algopy.symvec(Function) differs from the model' % case['uplo']
        if not close(fn.x, m[0, 0], 1e-12):
            return 'symvec-traced-ndarray-%s: algopy.symvec(Function(ndarray)) differs from the model' % case['uplo']
        if not np.array_equal(fback.x.data, algopy.vecsym(v).data):
            return 'vecsym-traced: algopy.vecsym(Function) differs from algopy.vecsym(UTPM)'
        if not np.array_equal(UTPM.symvec(UTPM(x.copy()), case['uplo']).data, v.data):
            return 'symvec-method-%s: UTPM.symvec differs from algopy.symvec' % case['uplo']
        A = algopy.vecsym(v)
        # vecsym(symvec(A, uplo)) is the symmetric matrix the storage convention denotes
        a_ = x
        want = {'F': 0.5 * (a_ + a_.transpose(0, 1, 3, 2)),
                'U': np.triu(a_) + np.triu(a_, 1).transpose(0, 1, 3, 2),
                'L': np.tril(a_) + np.tril(a_, -1).transpose(0, 1, 3, 2)}[case['uplo']]
        if not close(A.data, want, 1e-12):
            return 'symvec-roundtrip-%s: vecsym(symvec(A,%s)) is not the matrix denoted by the stored triangle' % (case['uplo'], case['uplo'])
        if case['uplo'] == 'F' and case['sym']:
            if not np.array_equal(A.data, x):
                return 'symvec-roundtrip: vecsym(symvec(A)) != A for symmetric A'
        # plain ndarray path
        a0 = x[0, 0]
        if case['sym'] and not np.array_equal(utils.vecsym(utils.symvec(a0, case['uplo'])), a0):
            return 'symvec-roundtrip-ndarray: vecsym(symvec(A,%s)) != A for symmetric ndarray A' % case['uplo']
        return None
    if k == 'vecsym':
        v = np.array(case['x'])
        A = algopy.vecsym(UTPM(v.copy()))
        cz = bool(np.iscomplexobj(v))
        m = ctx.model.arrs(dict({'op': 'conv', 'what': 'vecsym', 'x': enc_arr(v, cz), 'N': case['N']}, **({'f': 'QI'} if cz else {})))[0]
        if not np.array_equal(A.data, m):
            return 'vecsym-mismatch: differs from the model'
        if not np.array_equal(algopy.symvec(A).data, v):
            return 'vecsym-roundtrip: symvec(vecsym(v)) != v'
        return None
    if k == 'basedirs':
        x, V = np.array(case['x']), np.array(case['V'])
        xk = case.get('xkind', 'float')
        xin = x if xk in ('float', 'complex') else (x.astype(int) if xk == 'int-array' else (x.astype(int).tolist() if xk == 'int-list' else x.astype(np.float32)))
        try:
            u = utils.base_and_dirs2utpm(xin, V)
        except Exception as ex:
            return 'basedirs-exception: base_and_dirs2utpm raised %s for a base point given as %s' % (type(ex).__name__, xk)
        cz = bool(np.iscomplexobj(x) or np.iscomplexobj(V))
        fz = {'f': 'QI'} if cz else {}
        m = ctx.model.arrs(dict({'op': 'conv', 'what': 'base_dirs2utpm', 'x': enc_arr(x, cz), 'V': enc_arr(V, cz)}, **fz))[0]
        if not np.array_equal(u.data, m):
            return 'basedirs-mismatch: base_and_dirs2utpm differs from the model'
        x2, V2 = utils.utpm2base_and_dirs(u)
        mm = ctx.model.arrs(dict({'op': 'conv', 'what': 'utpm2base_dirs', 'x': enc_arr(u.data, cz)}, **fz))
        if not (np.array_equal(x2, mm[0]) and np.array_equal(V2, mm[1])):
            return 'basedirs-mismatch: utpm2base_and_dirs differs from the model'
        if not (np.array_equal(x2, x) and np.array_equal(V2, V)):
            return 'basedirs-roundtrip: utpm2base_and_dirs(base_and_dirs2utpm(x,V)) != (x,V)'
        u2 = utils.base_and_dirs2utpm(x2, V2)
        if not np.array_equal(u2.data, u.data):
            return 'basedirs-roundtrip: converse round trip differs'
        # the extracted arrays are the caller's own: a later in-place update of the polynomial (or of the arrays) must not
        # change what was extracted (the round trip from the saved pair still gives the polynomial that was converted)
        saved = u.data.copy()
        for arr, nm in ((x2, 'base point'), (V2, 'directions')):
            if isinstance(arr, np.ndarray) and arr.size and np.shares_memory(arr, u.data):
                return 'basedirs-alias: the %s returned by utpm2base_and_dirs is a view of the polynomial' % nm
        for arr, nm in ((u.data, 'base_and_dirs2utpm result'),):
            for src, sn in ((np.asarray(xin) if isinstance(xin, np.ndarray) else None, 'base point'), (V, 'directions')):
                if src is not None and src.size and np.shares_memory(arr, src):
                    return 'basedirs-alias: the %s is a view of the caller\'s %s' % (nm, sn)
        u.data[...] *= 2.0
        if not np.array_equal(utils.base_and_dirs2utpm(x2, V2).data, saved):
            return 'basedirs-alias: the pair extracted earlier changed when the polynomial was updated in place'
        return None
    if k == 'utpm2dirs':
        x = np.array(case['x'])
        Vb = utils.utpm2dirs(UTPM(x))
        m = ctx.model.arrs({'op': 'conv', 'what': 'utpm2dirs', 'x': enc_arr(x)})[0]
        if not np.array_equal(Vb, m):
            return 'utpm2dirs-mismatch: differs from the model'
        return None
    if k == 'as_utpm':
        x = np.array(case['x'])
        outer = tuple(case['outer'])
        elems = [UTPM(x[i].copy()) for i in range(x.shape[0])]
        cont = np.empty(len(elems), dtype=object)
        for i, e in enumerate(elems):
            cont[i] = e
        cont = cont.reshape(outer)
        # the same container in several memory layouts (C order, Fortran order, a transposed view of the transposed
        # container, a strided view) and as nested lists
        layouts = [('C', cont), ('F', np.asfortranarray(cont))]
        if cont.ndim == 2:
            layouts.append(('T-view', np.ascontiguousarray(cont.T).T))
            big = np.empty((outer[0], 2 * outer[1]), dtype=object)
            big[:, ::2] = cont
            layouts.append(('strided', big[:, ::2]))
        # the tie of the model the theorems C17.container_shape / container_element are about: the whole coefficient array
        cz = bool(np.iscomplexobj(x))
        m = ctx.model.arrs(dict({'op': 'conv', 'what': 'container', 'x': enc_arr(x, cz), 'outer': [int(k) for k in outer]}, **({'f': 'QI'} if cz else {})))
        if isinstance(m, str):
            return 'container-model: the model rejected the case (%s)' % m[:80]
        for nm_, f_ in (('as_utpm', UTPM.as_utpm), ('ndarray2utpm', utils.ndarray2utpm)):
            ym = f_(cont)
            if ym.data.shape != np.asarray(m[0]).shape or not np.array_equal(ym.data, m[0]):
                return 'container-mismatch: %s of a container of shape %s differs from the model (result shape %s, model %s)' % (
                    nm_, outer, ym.data.shape, np.asarray(m[0]).shape)
        for lname, c_ in layouts:
            y = UTPM.as_utpm(c_)
            for idx in np.ndindex(*outer):
                if not np.array_equal(y[idx].data, c_[idx].data):
                    return 'as_utpm-%s: (as_utpm xs)[%s] != xs[%s] for a container in layout %s' % (lname, idx, idx, lname)
            if x.ndim == 3:   # scalar elements: ndarray2utpm too
                y2 = utils.ndarray2utpm(c_)
                for idx in np.ndindex(*outer):
                    if not np.array_equal(y2[idx].data, c_[idx].data):
                        return 'ndarray2utpm-%s: element %s differs' % (lname, idx)
        y3 = UTPM.as_utpm(cont.tolist())
        for idx in np.ndindex(*outer):
            if not np.array_equal(y3[idx].data, cont[idx].data):
                return 'as_utpm-list: (as_utpm nested list)[%s] != xs[%s]' % (idx, idx)
        return None
    if k == 'combine':
        B = [[UTPM(np.array(b)) for b in row] for row in case['blocks']]
        X = np.empty((2, 2), dtype=object)     # object array: a nested list of UTPMs is not accepted by NumPy 2
        for i in range(2):
            for j in range(2):
                X[i, j] = B[i][j]
        Y = UTPM.combine_blocks(X)
        r0 = B[0][0].data.shape[2]
        c0 = B[0][0].data.shape[3]
        exp = np.concatenate([np.concatenate([b.data for b in row], axis=3) for row in B], axis=2)
        if not np.array_equal(Y.data, exp):
            return 'combine_blocks: block law violated'
        return None
    return None


def all_pivots(N):
    return itertools.product(*[range(i, N) for i in range(N)])


def realise(piv, rng):
    """a matrix for which lu_factor returns exactly this pivot vector, or None"""
    N = len(piv)
    for attempt in range(20):
        L = np.tril(rand_coeffs(rng, (N, N), -0.4, 0.4), -1) + np.eye(N)
        Um = np.triu(rand_coeffs(rng, (N, N), -1, 1), 1) + np.diag([rng.choice([-1, 1]) * dyadic(rng, 2, 3) for _ in range(N)])
        PA = L @ Um
        A = PA.copy()
        for i in reversed(range(N)):
            A[[i, piv[i]]] = A[[piv[i], i]]
        lu, p2 = scipy.linalg.lu_factor(A)
        if list(p2) == list(piv):
            return A
    return None


def pivot_fails(ctx, piv, rng):
    piv = list(piv)
    N = len(piv)
    m = ctx.model.ask({'op': 'piv', 'piv': piv})
    W = utils.piv2mat(np.array(piv))
    if W.tolist() != [[float(v) for v in row] for row in m['W']]:
        return 'piv2mat-mismatch: differs from the model for piv=%s' % piv
    det = utils.piv2det(np.array(piv))
    if int(det) != int(m['det']):
        return 'piv2det-mismatch: %s vs model %s for piv=%s' % (det, m['det'], piv)
    if abs(np.linalg.det(W) - det) > 1e-9:
        return 'piv2det: det(piv2mat(piv)) != piv2det(piv) for piv=%s' % piv
    A = realise(piv, rng)
    if A is None:
        return None
    lu, p2 = scipy.linalg.lu_factor(A)
    L = np.tril(lu, -1) + np.eye(N)
    Um = np.triu(lu)
    if not np.allclose(W @ L @ Um, A, atol=1e-10):
        return 'piv2mat: P L U != A for piv=%s' % piv
    if abs(np.linalg.det(A) - det * np.prod(np.diag(Um))) > 1e-8 * max(1, abs(np.linalg.det(A))):
        return 'piv2det: det(A) != sign*prod(diag(U)) for piv=%s' % piv
    # the UTPM wrappers
    Au = UTPM(A.reshape((1, 1, N, N)))
    PIV, Lu, Uu = UTPM.lu2(Au)
    if not np.array_equal(UTPM.piv2mat(PIV).data[0, 0], W):
        return 'UTPM.piv2mat differs from utils.piv2mat for piv=%s' % piv
    # the pivot vector returned by UTPM.lu_factor converts the same way
    try:
        LUf, PIVf = UTPM.lu_factor(UTPM(A.reshape((1, 1, N, N)).copy()))
        Wf = UTPM.piv2mat(PIVf).data[0, 0]
        df = UTPM.piv2det(PIVf)
    except Exception as ex:
        return 'lu_factor-pivots: the pivot vector returned by UTPM.lu_factor cannot be converted (piv2mat / piv2det raised %s) for piv=%s' % (type(ex).__name__, piv)
    if not np.array_equal(Wf, W):
        return 'lu_factor-pivots: piv2mat of the pivots returned by UTPM.lu_factor differs from utils.piv2mat for piv=%s' % piv
    return None


def multi_pivot_fails(pivs, rng):
    """P directions whose base matrices need different row exchanges: the UTPM wrappers per direction"""
    P = len(pivs)
    N = len(pivs[0])
    mats = [realise(list(pv), rng) for pv in pivs]
    if any(m is None for m in mats):
        return None
    D = 2
    A = np.zeros((D, P, N, N))
    for p, m in enumerate(mats):
        A[0, p] = m
    A[1] = rand_coeffs(rng, (P, N, N), -1, 1)
    PIV, L, U = UTPM.lu2(UTPM(A.copy()))
    W = UTPM.piv2mat(PIV)
    sg = UTPM.piv2det(PIV)
    for p in range(P):
        if list(PIV.data[0, p]) != list(pivs[p]):
            return None
        if not np.array_equal(W.data[0, p], utils.piv2mat(np.array(pivs[p]))):
            return 'UTPM.piv2mat-directions: direction %d of %d gets the permutation of another direction (pivots %s)' % (p, P, [list(v) for v in pivs])
        if sg.data[0, p] != utils.piv2det(np.array(pivs[p])):
            return 'UTPM.piv2det-directions: direction %d of %d gets the sign of another direction' % (p, P)
        if not np.allclose(W.data[0, p] @ L.data[0, p] @ U.data[0, p], A[0, p], atol=1e-10):
            return 'UTPM.piv2mat-directions: P L U != A in direction %d' % p
    return None


def replay_case(ctx, case):
    if case.get('op') == 'multipivot':
        import random
        return multi_pivot_fails([tuple(p) for p in case['pivs']], random.Random(0))
    if case.get('op') == 'pivot':
        import random
        return pivot_fails(ctx, case['piv'], random.Random(0))
    return run_one(ctx, case)


def run(ctx):
    n = 300 if ctx.tier == 'quick' else 4000
    for i in range(n):
        case = mk(ctx.rng, ctx.tier)
        ctx.evaluations += 1
        ctx.count('op=' + case['op'])
        h = canon_hash(to_jsonable(case))
        if h not in ctx.hashes:
            ctx.hashes.add(h)
            if case['D'] >= 2:
                ctx.nontrivial += 1
        if len(ctx.samples) < 3 and case['D'] >= 2:
            ctx.samples.append(to_jsonable(case))
        try:
            f = run_one(ctx, case)
        except Exception as ex:
            f = 'exception-%s: %s' % (case['op'], type(ex).__name__ + ':' + str(ex)[:100])
        if f:
            ctx.report(case, 'failure', f)
    for container in ('object-array', 'list'):
        for D_, P_, sh in ((2, 1, (4,)), (1, 2, (2, 2)), (2, 2, (1,))):
            case = {'op': 'vector-elements', 'container': container, 'D': D_, 'P': P_, 'a': rand_coeffs(ctx.rng, (D_, P_) + sh, -2, 2),
                    'b': rand_coeffs(ctx.rng, (D_, P_) + sh, -2, 2)}
            ctx.evaluations += 1
            ctx.count('op=vector-elements')
            try:
                f = run_one(ctx, case)
            except Exception as ex:
                f = 'exception-%s: %s' % (case['op'], type(ex).__name__ + ':' + str(ex)[:100])
            if f:
                ctx.report(case, 'failure', f)
    for L_ in (3, 6):
        for D_, P_ in ((1, 1), (2, 2)):
            case = {'op': 'traced-roundtrip', 'D': D_, 'P': P_, 'v': rand_coeffs(ctx.rng, (D_, P_, L_), -2, 2), 'wbar': rand_coeffs(ctx.rng, (D_, P_, L_), -2, 2) + 0.125}
            ctx.evaluations += 1
            ctx.count('op=traced-roundtrip')
            try:
                f = run_one(ctx, case)
            except Exception as ex:
                f = 'exception-%s: %s' % (case['op'], type(ex).__name__ + ':' + str(ex)[:100])
            if f:
                ctx.report(case, 'failure', f)
    for kind in ('plain', 'const-first', 'complex-later', 'complex-constant-later'):
        for D_, P_ in ((1, 1), (3, 2)):
            case = {'op': 'traced-container', 'kind': kind, 'D': D_, 'P': P_, 'x': rand_coeffs(ctx.rng, (D_, P_, 3), -2, 2), 'rec': 'ndarray' if D_ == 1 else 'utpm'}
            ctx.evaluations += 1
            ctx.count('op=traced-container')
            try:
                f = run_one(ctx, case)
            except Exception as ex:
                f = 'exception-%s: %s' % (case['op'], type(ex).__name__ + ':' + str(ex)[:100])
            if f:
                ctx.report(case, 'failure', f)
    # every shift amount from -(2D+2) to 2D+2 for small D, on every run
    for D_ in (1, 2, 3):
        for s_ in range(-2 * D_ - 2, 2 * D_ + 3):
            case = {'op': 'shift', 'D': D_, 'P': 2, 'x': rand_coeffs(ctx.rng, (D_, 2, 2), -2, 2) + 0.125, 's': s_}
            ctx.evaluations += 1
            ctx.count('op=shift-systematic')
            try:
                f = run_one(ctx, case)
            except Exception as ex:
                f = 'exception-%s: %s' % (case['op'], type(ex).__name__ + ':' + str(ex)[:100])
            if f:
                ctx.report(case, 'failure', f)
    # vecsym for every vector length 1..36: a triangular length N(N+1)/2 gives the N x N matrix from which symvec returns the
    # vector unchanged; any other length has no symmetric matrix -- it must be rejected, never silently shortened
    for L in range(1, 37):
        for (D_, P_) in ((1, 1), (2, 2)):
            v = rand_coeffs(ctx.rng, (D_, P_, L), -2, 2)
            case = {'op': 'vecsym-length', 'D': D_, 'P': P_, 'x': v}
            ctx.evaluations += 1
            ctx.count('op=vecsym-length')
            f = vecsym_length_fails(case)
            if f:
                ctx.report(case, 'failure', f)
    for i in range(40 if ctx.tier == 'quick' else 400):
        D_, P_ = ctx.rng.randint(1, 3), ctx.rng.randint(1, 2)
        kinds = ['float'] + [ctx.rng.choice(['float', 'complex', 'float32', 'const', 'const']) for _ in range(ctx.rng.randint(1, 3))]
        if ctx.rng.random() < 0.4:
            kinds[0] = ctx.rng.choice(['complex', 'float32'])
        if i % 3 == 0:
            kinds = ['const'] + kinds            # the constant in the first slot (at least one polynomial follows)
        vals = []
        for kd in kinds:
            if kd == 'const':
                vals.append(np.array([ctx.rng.choice([1.5, -2.0, 0.25])]) if ctx.rng.random() < 0.7 else np.array([1.5 - 0.5j]))
            elif kd == 'complex':
                vals.append(rand_coeffs(ctx.rng, (D_, P_), -2, 2) + 1j * rand_coeffs(ctx.rng, (D_, P_), -2, 2))
            elif kd == 'float32':
                vals.append(rand_coeffs(ctx.rng, (D_, P_), -2, 2).astype(np.float32))
            else:
                vals.append(rand_coeffs(ctx.rng, (D_, P_), -2, 2) + 2.0 ** -40)      # not representable in float32
        case = {'op': 'mixed-container', 'D': D_, 'P': P_, 'kinds': kinds, 'vals': vals}
        ctx.evaluations += 1
        ctx.count('op=mixed-container')
        f = mixed_container_fails(case)
        if f:
            ctx.report(case, 'failure', f)
    Nmax = 4 if ctx.tier == 'quick' else 5
    realised = 0
    for N in range(1, Nmax + 1):
        for piv in all_pivots(N):
            ctx.evaluations += 1
            ctx.count('pivotN=%d' % N)
            if any(p != i for i, p in enumerate(piv)):
                ctx.nontrivial += 1
            f = pivot_fails(ctx, piv, ctx.rng)
            if f:
                ctx.report({'op': 'pivot', 'piv': list(piv)}, 'failure', f)
    for i in range(60 if ctx.tier == 'quick' else 600):
        N = ctx.rng.randint(2, 4)
        allp = list(all_pivots(N))
        pivs = [ctx.rng.choice(allp) for _ in range(ctx.rng.randint(2, 3))]
        ctx.evaluations += 1
        ctx.count('multi-direction-pivots')
        f = multi_pivot_fails(pivs, ctx.rng)
        if f:
            ctx.report({'op': 'multipivot', 'pivs': [list(p) for p in pivs]}, 'failure', f)
    ctx.exhaustive = False
    ctx.dist['pivot_vectors_exhaustive_up_to_N'] = Nmax
