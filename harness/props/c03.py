"""C03 — reverse mode agrees with forward mode at every Taylor order.

Oracle on the implementation (the property itself): for a generated program F, input curve x(t),
seed ybar(t) (non-symmetric, non-zero at all orders) and direction v(t):
      <xbar(t), v(t)>  ==  <ybar(t), F'(x(t)) v(t)>   mod t^D, for every direction p,
where xbar comes from cg.pullback and F'(x(t))v(t) from forward propagation alone: evaluating the
program directly on UTPMs of degree 2D at x(t) and at x(t) + t^D v(t); the coefficients D..2D-1 of the
difference are exactly F'(x(t))v(t) mod t^D.
Correspondence: the series-level pullback kernels, called through the tracer with its real positional
binding, against the Lean model `Model/Pullback.lean` (exact)."""
import numpy as np
from common import *
import programs
from programs import gen_program, run_program, trace

RULE = ('cases = (program from the typed generator or a single-op program for every differentiable op, D, P, input curve, '
        'seed, direction) from one PRNG; non-trivial = D>=2, seed and direction non-zero at every order; distinct by hash')
ASSUMPTIONS = ['tolerance 1e-7 relative on the two pairings', 'factorisation pullbacks are exercised through uniquely defined outputs only']


def cauchy_pair(a, b):
    """sum over elements of the truncated Cauchy product: a, b of shape (D,P)+s -> (D,P)"""
    D, P = a.shape[:2]
    a2 = a.reshape(D, P, -1)
    b2 = b.reshape(D, P, -1)
    out = np.zeros((D, P))
    for d in range(D):
        for k in range(d + 1):
            out[d] += np.sum(a2[k] * b2[d - k], axis=1)
    return out


def make_case(rng, tier, prog=None, single=None):
    if prog is None:
        prog = gen_program(rng, maxsteps=5 if tier == 'quick' else 9)
    D = rng.choice([1, 2, 3, 3] if tier == 'quick' else [1, 2, 3, 4, 5])
    P = rng.choice([1, 1, 2])
    xs, vs = [], []
    for sh in prog['inputs']:
        x = rand_coeffs(rng, (D, P) + tuple(sh), -1, 1)
        x[0] = rand_coeffs(rng, (P,) + tuple(sh), -programs.BOX, programs.BOX)
        xs.append(x)
        vs.append(rand_coeffs(rng, (D, P) + tuple(sh), -1, 1))
    return {'prog': prog, 'D': D, 'P': P, 'xs': xs, 'vs': vs, 'ybar_seed': rng.randrange(1 << 30)}


def adjoint_fails(case):
    prog, D, P = case['prog'], case['D'], case['P']
    xs = [np.array(x, dtype=float) for x in case['xs']]
    vs = [np.array(v, dtype=float) for v in case['vs']]
    used = sorted(programs.ops_used(prog))
    tag = '+'.join(used) if len(used) <= 2 else 'program'
    # forward (direct UTPM evaluation, no tracer)
    try:
        with np.errstate(all='ignore'):
            y = run_program(prog, [UTPM(x.copy()) for x in xs])
    except Exception as ex:
        return None      # forward problems are judged by other properties
    if not isinstance(y, UTPM) or not np.all(np.isfinite(y.data)):
        return None
    r = np.random.RandomState(case['ybar_seed'])
    ybar = np.round(r.uniform(-1, 1, size=y.data.shape) * 8) / 8
    ybar[ybar == 0] = 0.5
    # reverse
    try:
        with np.errstate(all='ignore'):
            cg, fx, fy = trace(prog, [UTPM(x.copy()) for x in xs])
            cg.pullback([UTPM(ybar.copy())])
    except Exception as ex:
        msg = str(ex).strip().splitlines()
        short = [l for l in msg if 'Error' in l or 'error' in l][-1:] or msg[-1:]
        return 'exception-%s: the reverse sweep raised (%s)' % (tag, short[0][:140] if short else type(ex).__name__)
    xbars = []
    for f, x in zip(fx, xs):
        if not isinstance(f.xbar, UTPM) or f.xbar.data.shape != x.shape:
            return 'shape-%s: xbar of an independent has shape %s, expected %s' % (tag, getattr(getattr(f.xbar, 'data', None), 'shape', None), x.shape)
        xbars.append(np.array(f.xbar.data))
    # tangent by degree doubling
    def pad(a):
        z = np.zeros((2 * D,) + a.shape[1:])
        z[:D] = a
        return z
    try:
        with np.errstate(all='ignore'):
            y2 = run_program(prog, [UTPM(pad(x)) for x in xs])
            zs = []
            for x, v in zip(xs, vs):
                z = pad(x)
                z[D:] = v
                zs.append(z)
            y3 = run_program(prog, [UTPM(z) for z in zs])
    except Exception:
        return None
    dy = (y3.data - y2.data)[D:]
    if not (np.all(np.isfinite(dy)) and all(np.all(np.isfinite(xb)) for xb in xbars)):
        return 'nan-%s: non-finite adjoint or tangent' % tag
    lhs = sum(cauchy_pair(xb, v) for xb, v in zip(xbars, vs))
    rhs = cauchy_pair(ybar, dy)
    scale = max(1.0, float(np.max(np.abs(lhs))), float(np.max(np.abs(rhs))))
    if np.max(np.abs(lhs - rhs)) > 1e-7 * scale:
        d_bad = int(np.argmax(np.max(np.abs(lhs - rhs), axis=1) > 1e-7 * scale))
        return 'adjoint-%s: <xbar,v> != <ybar,F\'(x)v> at order %d (%.6g vs %.6g)' % (
            tag, d_bad, lhs[d_bad].ravel()[0], rhs[d_bad].ravel()[0])
    # a second reverse sweep of the same trace with another seed (rows of a Jacobian are assembled this way):
    # the identity must hold for it as well
    ybar2 = np.round(r.uniform(-1, 1, size=y.data.shape) * 8) / 8
    ybar2[ybar2 == 0] = -0.25
    try:
        with np.errstate(all='ignore'):
            cg.pullback([UTPM(ybar2.copy())])
    except Exception as ex:
        return 'exception-second-sweep-%s: the second reverse sweep raised %s' % (tag, type(ex).__name__)
    xbars2 = [np.array(f.xbar.data) for f in fx]
    if all(np.all(np.isfinite(xb)) for xb in xbars2):
        lhs2 = sum(cauchy_pair(xb, v) for xb, v in zip(xbars2, vs))
        rhs2 = cauchy_pair(ybar2, dy)
        scale2 = max(1.0, float(np.max(np.abs(lhs2))), float(np.max(np.abs(rhs2))))
        if np.max(np.abs(lhs2 - rhs2)) > 1e-7 * scale2:
            return 'adjoint-second-sweep-%s: <xbar,v> != <ybar,F\'(x)v> for a second reverse sweep of the same trace' % tag
    return None


def single_op_programs(rng):
    """one program per differentiable operation, so that every pb_* is driven through the tracer"""
    progs = []
    for fn in sorted(programs.TRACEABLE):
        for _ in range(30):
            p = gen_program(rng, input_shapes=[(3,)], maxsteps=1, kinds=['ew'], allow={'ew:' + fn})
            if p['steps']:
                progs.append(p)
                break
        else:
            # need a positive argument: exp first
            p = {'inputs': [[3]], 'steps': [{'op': 'ew', 'fn': 'square', 'a': 0}, {'op': 'binc', 'fn': 'add', 'a': 1, 'c': 0.75, 'side': 'r'},
                                            {'op': 'ew', 'fn': fn, 'a': 2}], 'out': 3, 'out_shape': [3]}
            if fn == 'logit':
                p['steps'] = [{'op': 'ew', 'fn': 'expit', 'a': 0}, {'op': 'ew', 'fn': fn, 'a': 1}]
                p['out'] = 2
            progs.append(p)
    # broadcasting assignments into a 2-D buffer: buf[0:2, :] = x (vector over rows), buf[:, 1] = x[0] (scalar over a column)
    progs.append({'inputs': [[3]], 'steps': [{'op': 'zeros', 'shape': [2, 3], 'like': 0}, {'op': 'setbc', 'buf': 1, 'val': 0, 'mode': 'rows'},
                                              {'op': 'ew', 'fn': 'pow2', 'a': 1}], 'out': 2, 'out_shape': [2, 3]})
    progs.append({'inputs': [[3]], 'steps': [{'op': 'zeros', 'shape': [2, 3], 'like': 0}, {'op': 'setbc', 'buf': 1, 'val': 0, 'mode': 'rows'},
                                              {'op': 'getitem', 'a': 0, 'idx': [0], 'bare': False},
                                              {'op': 'setbc', 'buf': 1, 'val': 2, 'mode': 'col', 'k': 1}, {'op': 'ew', 'fn': 'sin', 'a': 1}],
                  'out': 3, 'out_shape': [2, 3]})
    for ax_shape, ax in [((3,), 0), ((2, 3), 0), ((2, 3), 1), ((3, 2), -2), ((2, 2), -1)]:
        progs.append({'inputs': [list(ax_shape)], 'steps': [{'op': 'fftfilter', 'a': 0, 'axis': ax}], 'out': 1, 'out_shape': list(ax_shape)})
    for k in ['bin', 'binc', 'getitem', 'sum', 'transpose', 'reshape', 'dot', 'dotc', 'outer', 'prod', 'buffer']:
        for rep in range(6):
            shapes = [rng.choice([(2,), (3,), (2, 2), (2, 3)])]
            if k in ('bin', 'dot', 'outer'):
                shapes.append(rng.choice([(2,), (3,), (2, 2), (3, 2)]))
            p = gen_program(rng, input_shapes=shapes, maxsteps=2 if k in ('transpose', 'reshape') else 1, kinds=[k])
            if p['steps']:
                progs.append(p)
    # a buffer entry written twice (the second write overwrites the first) with a non-linear consumer afterwards, and an
    # in-place accumulator buf[0] = buf[0]*x[1]; buf[0] = buf[0]*x[2]: the stored old contents matter for every sweep
    progs.append({'inputs': [[3]], 'steps': [{'op': 'zeros', 'shape': [1], 'like': 0}, {'op': 'getitem', 'a': 0, 'idx': [0], 'bare': False},
                                              {'op': 'setitem', 'buf': 1, 'idx': [0], 'val': 2}, {'op': 'getitem', 'a': 0, 'idx': [1], 'bare': False},
                                              {'op': 'setitem', 'buf': 1, 'idx': [0], 'val': 3}, {'op': 'ew', 'fn': 'pow2', 'a': 1}],
                  'out': 4, 'out_shape': [1]})
    progs.append({'inputs': [[3]], 'steps': [{'op': 'zeros', 'shape': [2], 'like': 0}, {'op': 'getitem', 'a': 0, 'idx': [0], 'bare': True},
                                              {'op': 'setitem', 'buf': 1, 'idx': [0], 'val': 2}, {'op': 'getitem', 'a': 0, 'idx': [1], 'bare': False},
                                              {'op': 'setitem', 'buf': 1, 'idx': [1], 'val': 3},
                                              {'op': 'getitem', 'a': 1, 'idx': [0], 'bare': True}, {'op': 'bin', 'fn': 'mul', 'a': 4, 'b': 3},
                                              {'op': 'setitem', 'buf': 1, 'idx': [0], 'val': 5},
                                              {'op': 'getitem', 'a': 1, 'idx': [0], 'bare': False}, {'op': 'getitem', 'a': 0, 'idx': [2], 'bare': False},
                                              {'op': 'bin', 'fn': 'mul', 'a': 6, 'b': 7}, {'op': 'setitem', 'buf': 1, 'idx': [0], 'val': 8},
                                              {'op': 'ew', 'fn': 'sin', 'a': 1}],
                  'out': 9, 'out_shape': [2]})
    for kind in ['inv', 'solve', 'det', 'logdet', 'trace', 'qr', 'cholesky', 'eigh', 'eighQ', 'lu', 'svd', 'qr_full', 'cinv', 'csolve', 'csolve_rhs', 'cexpm']:
        for n in (2, 3):
            sym = kind in ('cholesky', 'eigh', 'eighQ', 'logdet')
            perms = [list(range(n))] if sym else [list(range(n)), list(range(n))[::-1]] + ([[1, 2, 0], [2, 0, 1]] if n == 3 else [])
            for perm in perms:
                progs.append({'inputs': [[n * n]], 'steps': [{'op': 'mkmat', 'a': 0, 'n': n, 'sym': sym, 'kind': kind, 'perm': perm},
                                                             {'op': 'la', 'kind': kind, 'a': 1}], 'out': 2, 'out_shape': []})
    # (inverse) transform of REAL data, real and imaginary parts used (the adjoint of the real argument stays real)
    for ax_shape, ax in [((3,), 0), ((2, 3), 0), ((2, 3), -1)]:
        for inv in (False, True):
            progs.append({'inputs': [list(ax_shape)], 'steps': [{'op': 'fftparts', 'a': 0, 'axis': ax, 'inv': inv}], 'out': 1, 'out_shape': list(ax_shape)})
    # outer product with a constant vector on either side
    for side in ('l', 'r'):
        progs.append({'inputs': [[3]], 'steps': [{'op': 'outerc', 'a': 0, 'c': [0.5, -1.5], 'side': side}], 'out': 1,
                      'out_shape': [3, 2] if side == 'r' else [2, 3]})
    # dot with operands of rank 3 (NumPy: last axis of a with the second-to-last of b)
    for sa, sb in [((2, 2, 3), (3,)), ((2, 2, 3), (3, 2)), ((3,), (2, 3, 2)), ((2, 3), (2, 3, 2))]:
        progs.append({'inputs': [list(sa), list(sb)], 'steps': [{'op': 'dot', 'a': 0, 'b': 1}], 'out': 2, 'out_shape': list(np.dot(np.zeros(sa), np.zeros(sb)).shape)})
    # the factorized / inverted matrix has a second consumer recorded after the node (its adjoint is non-zero when the
    # node's pullback runs), square and rectangular (tall, wide) QR
    for kind in ['inv', 'solve', 'det', 'logdet', 'trace', 'qr', 'cholesky', 'eigh', 'lu', 'svd', 'qr_full']:
        progs.append({'inputs': [[6]], 'steps': [{'op': 'mkmat', 'a': 0, 'n': 2, 'sym': kind in ('cholesky', 'eigh', 'logdet'), 'kind': kind, 'perm': [0, 1]},
                                                 {'op': 'la', 'kind': kind, 'a': 1, 'post': True}], 'out': 2, 'out_shape': []})
    for (n, nc) in [(3, 2), (2, 3), (4, 2), (2, 4)]:
        for post in (False, True):
            progs.append({'inputs': [[n * nc]], 'steps': [{'op': 'mkmat', 'a': 0, 'n': n, 'cols': nc, 'sym': False, 'kind': 'qr', 'perm': list(range(n))},
                                                          {'op': 'la', 'kind': 'qr', 'a': 1, 'post': post}], 'out': 2, 'out_shape': []})
    # outer with a transposed (non-contiguous, rank-2) operand whose matrix has another consumer recorded after the outer node:
    # the operand's adjoint is a non-contiguous view of an adjoint that is already non-zero when the pullback of outer runs
    progs.append({'inputs': [[2, 3], [2]], 'steps': [{'op': 'transpose', 'a': 0, 'how': 'T'}, {'op': 'outer', 'a': 2, 'b': 1},
                                                      {'op': 'bin', 'fn': 'mul', 'a': 0, 'b': 0}, {'op': 'reshape', 'a': 4, 'shape': [6], 'how': 'fn'},
                                                      {'op': 'dot', 'a': 5, 'b': 3}], 'out': 6, 'out_shape': [2]})
    progs.append({'inputs': [[2, 3], [2]], 'steps': [{'op': 'transpose', 'a': 0, 'how': 'fn'}, {'op': 'outer', 'a': 1, 'b': 2},
                                                      {'op': 'bin', 'fn': 'mul', 'a': 0, 'b': 0}, {'op': 'reshape', 'a': 4, 'shape': [6], 'how': 'fn'},
                                                      {'op': 'dot', 'a': 3, 'b': 5}], 'out': 6, 'out_shape': [2]})
    progs.append({'inputs': [[2, 2]], 'steps': [{'op': 'getitem', 'a': 0, 'idx': [slice(None, None, -1)], 'bare': False}, {'op': 'outer', 'a': 1, 'b': 0},
                                                 {'op': 'bin', 'fn': 'mul', 'a': 0, 'b': 0}, {'op': 'reshape', 'a': 3, 'shape': [4], 'how': 'fn'},
                                                 {'op': 'dot', 'a': 2, 'b': 4}], 'out': 5, 'out_shape': [4]})
    # reshape of non-contiguous data for which numpy.reshape still returns a VIEW (an axis is split or a length-1 axis added):
    # column slice -> (N,1), column slice -> (2,2), transpose -> (M,N,1)
    progs.append({'inputs': [[2, 2]], 'steps': [{'op': 'getitem', 'a': 0, 'idx': [slice(None), 1], 'bare': False}, {'op': 'reshape', 'a': 1, 'shape': [2, 1], 'how': 'fn'},
                                                 {'op': 'ew', 'fn': 'pow2', 'a': 2}], 'out': 3, 'out_shape': [2, 1]})
    progs.append({'inputs': [[4, 2]], 'steps': [{'op': 'getitem', 'a': 0, 'idx': [slice(None), 1], 'bare': False}, {'op': 'reshape', 'a': 1, 'shape': [2, 2], 'how': 'method'},
                                                 {'op': 'ew', 'fn': 'sin', 'a': 2}], 'out': 3, 'out_shape': [2, 2]})
    progs.append({'inputs': [[2, 3]], 'steps': [{'op': 'transpose', 'a': 0, 'how': 'T'}, {'op': 'reshape', 'a': 1, 'shape': [3, 2, 1], 'how': 'fn'},
                                                 {'op': 'ew', 'fn': 'pow2', 'a': 2}], 'out': 3, 'out_shape': [3, 2, 1]})
    progs.append({'inputs': [[4, 2]], 'steps': [{'op': 'getitem', 'a': 0, 'idx': [slice(0, 4, 2), 0], 'bare': False}, {'op': 'reshape', 'a': 1, 'shape': [1, 2], 'how': 'fn'},
                                                 {'op': 'ew', 'fn': 'pow2', 'a': 2}], 'out': 3, 'out_shape': [1, 2]})
    # augmented assignment through a slice view of a filled buffer, every operator (row = buf[lo:hi]; row op= c)
    for fn, c_ in (('mul', 2.0), ('add', 1.5), ('sub', -0.5), ('div', 2.0), ('pow', 2), ('pow', 3)):
        for lo, hi in ((0, 2), (1, 2)):
            steps = [{'op': 'zeros', 'shape': [3], 'like': 0}]
            for i in range(3):
                steps.append({'op': 'getitem', 'a': 0, 'idx': [i], 'bare': False})
                steps.append({'op': 'setitem', 'buf': 1, 'idx': [i], 'val': 2 + i})
            steps.append({'op': 'iopview', 'buf': 1, 'lo': lo, 'hi': hi, 'fn': fn, 'c': c_})
            steps.append({'op': 'ew', 'fn': 'sin', 'a': 1})
            progs.append({'inputs': [[3]], 'steps': steps, 'out': 5, 'out_shape': [3]})
    # trace of rectangular (tall and wide) matrices
    for (n_, nc_) in [(3, 2), (2, 3)]:
        progs.append({'inputs': [[n_ * nc_]], 'steps': [{'op': 'mkmat', 'a': 0, 'n': n_, 'cols': nc_, 'sym': False, 'kind': 'trace', 'perm': list(range(n_))},
                                                       {'op': 'la', 'kind': 'trace', 'a': 1, 'post': True}], 'out': 2, 'out_shape': []})
    # transposed (non-contiguous) data into reshape, sum over every axis of a matrix, views of views
    progs.append({'inputs': [[2, 3]], 'steps': [{'op': 'transpose', 'a': 0, 'how': 'T'}, {'op': 'reshape', 'a': 1, 'shape': [6], 'how': 'fn'}], 'out': 2, 'out_shape': [6]})
    for ax in (0, 1, -1, -2, None):
        progs.append({'inputs': [[2, 2]], 'steps': [{'op': 'sum', 'a': 0, 'axis': ax}], 'out': 1, 'out_shape': []})
        progs.append({'inputs': [[2, 3]], 'steps': [{'op': 'sum', 'a': 0, 'axis': ax}], 'out': 1, 'out_shape': []})
    # item assignment whose right-hand side carries leading length-1 axes that NumPy strips (y[0] = reshape(x, (1, 3)), (1,1,3) into
    # a (2,3) buffer): the adjoint of the right-hand side is the adjoint of the slice, entry by entry
    progs.append({'inputs': [[3]], 'steps': [{'op': 'zeros', 'shape': [2, 3], 'like': 0}, {'op': 'reshape', 'a': 0, 'shape': [1, 3], 'how': 'fn'},
                                              {'op': 'setitem', 'buf': 1, 'idx': [0], 'val': 2}, {'op': 'bin', 'fn': 'mul', 'a': 0, 'b': 0},
                                              {'op': 'setitem', 'buf': 1, 'idx': [1], 'val': 3}], 'out': 1, 'out_shape': [2, 3]})
    progs.append({'inputs': [[3]], 'steps': [{'op': 'zeros', 'shape': [2, 3], 'like': 0}, {'op': 'ew', 'fn': 'sin', 'a': 0},
                                              {'op': 'reshape', 'a': 2, 'shape': [1, 1, 3], 'how': 'fn'},
                                              {'op': 'setitem', 'buf': 1, 'idx': [slice(None)], 'val': 3}], 'out': 1, 'out_shape': [2, 3]})
    # a Python list / tuple assigned into a slice of a traced buffer (NumPy and UTPM accept it as the constant it is)
    for form in ('list', 'tuple', 'array'):
        progs.append({'inputs': [[3]], 'steps': [{'op': 'zeros', 'shape': [3], 'like': 0}, {'op': 'setarr', 'buf': 1, 'lo': 0, 'hi': 2, 'c': [4.0, 5.0], 'zerod': False, 'form': form},
                                                  {'op': 'getitem', 'a': 0, 'idx': [0], 'bare': False}, {'op': 'getitem', 'a': 0, 'idx': [1], 'bare': False},
                                                  {'op': 'bin', 'fn': 'mul', 'a': 2, 'b': 3}, {'op': 'setitem', 'buf': 1, 'idx': [2], 'val': 4},
                                                  {'op': 'bin', 'fn': 'mul', 'a': 1, 'b': 0}, {'op': 'bin', 'fn': 'mul', 'a': 5, 'b': 0}], 'out': 6, 'out_shape': [3]})
    # a private copy of a traced value made with the standard copy protocol, then written into
    for how in ('deepcopy', 'method'):
        progs.append({'inputs': [[3]], 'steps': [{'op': 'deepcopy', 'a': 0, 'how': how}, {'op': 'getitem', 'a': 0, 'idx': [1], 'bare': False},
                                                  {'op': 'binc', 'fn': 'mul', 'a': 2, 'c': 2.0, 'side': 'r'}, {'op': 'setitem', 'buf': 1, 'idx': [0], 'val': 3},
                                                  {'op': 'bin', 'fn': 'mul', 'a': 1, 'b': 0}], 'out': 4, 'out_shape': [3]})
    # an entry read through the public .flat attribute of a matrix
    progs.append({'inputs': [[2, 2]], 'steps': [{'op': 'flatget', 'a': 0, 'i': 3}, {'op': 'getitem', 'a': 0, 'idx': [0, 0], 'bare': False},
                                                 {'op': 'bin', 'fn': 'mul', 'a': 1, 'b': 2}], 'out': 3, 'out_shape': []})
    progs.append({'inputs': [[2, 3]], 'steps': [{'op': 'ew', 'fn': 'sin', 'a': 0}, {'op': 'flatget', 'a': 1, 'i': 4}, {'op': 'flatget', 'a': 0, 'i': 1},
                                                 {'op': 'bin', 'fn': 'mul', 'a': 2, 'b': 3}], 'out': 4, 'out_shape': []})
    return progs


def reshape_copy_inplace_fails(case):
    """a traced value whose coefficient array is a NON-contiguous block (a column block of a larger array) is reshaped -- NumPy then
    returns a copy -- and the reshaped value is updated in place: the reverse sweep is the adjoint of THAT program (the direct run
    leaves the block untouched), y = sum(2 v) + sum(A) = 3 sum(A)"""
    X = np.array(case['X'])
    D, P = X.shape[:2]
    cg = algopy.CGraph()
    fA = algopy.Function(UTPM(X.copy())[:, :2])
    if fA.x.data.flags['C_CONTIGUOUS']:
        return None
    v = algopy.reshape(fA, (4,))
    if case['form'] == 'imul':
        v *= 2.0
        fy = algopy.sum(v) + algopy.sum(fA)
        want = 3.0
    else:
        v[0] = 5.0
        fy = algopy.sum(v * v) + algopy.sum(fA)
        want = None
    cg.trace_off()
    cg.independentFunctionList = [fA]
    cg.dependentFunctionList = [fy]
    yb = np.zeros((D, P))
    yb[0] = 1.0
    try:
        cg.pullback([UTPM(yb)])
    except Exception as ex:
        return 'reshape-copy-inplace-exception: %s' % (type(ex).__name__ + ':' + str(ex)[:80])
    xb = np.array(fA.xbar.data)
    a = np.array(fA.x.data)
    if want is not None:
        ref = np.zeros_like(xb)
        ref[0] = want
    else:
        # d/dA [ sum_{k>=1} A_flat[k]^2 + 25 + sum(A) ]: xbar(t) = ybar * (2 A(t) masked + 1)
        m = np.ones((2, 2)); m[0, 0] = 0.0
        ref = 2.0 * a * m
        ref[0] += 1.0
    if xb.shape != ref.shape or not np.allclose(xb, ref, rtol=1e-12, atol=1e-13):
        return ('reshape-copy-inplace: the adjoint of a non-contiguous value that is reshaped (a copy) and then updated in place (%s) is %s at order 0, '
                'the program gives %s') % (case['form'], xb[0].ravel().tolist(), ref[0].ravel().tolist())
    return None


# --------------------------------------------------------------------------------------
# correspondence: series-level pullback kernels, driven through the tracer, vs the Lean model
import math
import scipy.special as sp
PB1 = {
    # name: (traced callable, domain, model fn, leaves(x0), params, n)
    'exp': (lambda f: algopy.exp(f), 'any', 'exp', lambda x0: [], [], 0),
    'log': (lambda f: algopy.log(f), 'pos', 'log', lambda x0: [], [], 0),
    'sqrt': (lambda f: algopy.sqrt(f), 'pos', 'sqrt', lambda x0: [], [], 0),
    'square': (lambda f: algopy.square(f), 'any', 'square', lambda x0: [], [], 0),
    'reciprocal': (lambda f: algopy.reciprocal(f), 'pos', 'reciprocal', lambda x0: [], [], 0),
    'negative': (lambda f: algopy.negative(f), 'any', 'negative', lambda x0: [], [], 0),
    'neg': (lambda f: -f, 'any', 'neg', lambda x0: [], [], 0),
    'sign': (lambda f: algopy.sign(f), 'pos', 'sign', lambda x0: [], [], 0),
    'absolute': (lambda f: algopy.absolute(f), 'nz', 'absolute', lambda x0: [np.sign(x0)], [], 0),
    'pow3': (lambda f: f ** 3, 'any', 'pownat', lambda x0: [], [], 3),
    'pow2': (lambda f: f ** 2, 'any', 'pownat', lambda x0: [], [], 2),
    'pow1': (lambda f: f ** 1, 'any', 'pownat', lambda x0: [], [], 1),
    'pow0': (lambda f: f ** 0, 'any', 'pownat', lambda x0: [], [], 0),
    'powm2': (lambda f: f ** (-2), 'pos', 'powreal', lambda x0: [], [-2.0], 0),
    'pow1.5': (lambda f: f ** 1.5, 'pos', 'powreal', lambda x0: [], [1.5], 0),
    'sin': (lambda f: algopy.sin(f), 'any', 'sin', lambda x0: [np.sin(x0), np.cos(x0)], [], 0),
    'cos': (lambda f: algopy.cos(f), 'any', 'cos', lambda x0: [np.sin(x0), np.cos(x0)], [], 0),
    'tan': (lambda f: algopy.tan(f), 'tan', 'tan', lambda x0: [np.sin(x0), np.cos(x0)], [], 0),
    'expm1': (lambda f: algopy.expm1(f), 'any', 'expm1', lambda x0: [np.exp(x0)], [], 0),
    'log1p': (lambda f: algopy.log1p(f), 'pos', 'log1p', lambda x0: [], [], 0),
    'logit': (lambda f: algopy.special.logit(f), '01', 'logit', lambda x0: [], [], 0),
    'expit': (lambda f: algopy.special.expit(f), 'any', 'expit', lambda x0: [np.exp(x0)], [], 0),
    'erf': (lambda f: algopy.special.erf(f), 'any', 'erf', lambda x0: [np.exp(-x0 * x0)], [2. / math.sqrt(math.pi)], 0),
    'erfi': (lambda f: algopy.special.erfi(f), 'small', 'erfi', lambda x0: [np.exp(x0 * x0)], [2. / math.sqrt(math.pi)], 0),
    'dawsn': (lambda f: algopy.special.dawsn(f), 'any', 'dawsn', lambda x0: [sp.dawsn(x0)], [], 0),
}
PB2 = {'add': lambda a, b: a + b, 'sub': lambda a, b: a - b, 'mul': lambda a, b: a * b, 'div': lambda a, b: a / b}


def make_pb_case(rng, tier):
    from props import c01
    D = rng.randint(1, 4 if tier == 'quick' else 6)
    P = rng.choice([1, 2])
    shape = rand_shape(rng, 2, 3)
    if rng.random() < 0.75:
        name = rng.choice(sorted(PB1))
        x = rand_coeffs(rng, (D, P) + shape, -1, 1)
        x[0] = c01.gen_x0(rng, PB1[name][1], (P,) + shape, False)
        return {'pb': 1, 'fn': name, 'D': D, 'P': P, 'x': x, 'ybar': rand_coeffs(rng, (D, P) + shape, -2, 2)}
    name = rng.choice(sorted(PB2))
    x = rand_coeffs(rng, (D, P) + shape, -2, 2)
    y = rand_coeffs(rng, (D, P) + shape, -2, 2)
    y[0] = c01.gen_x0(rng, 'nz', (P,) + shape, False)
    return {'pb': 2, 'fn': name, 'D': D, 'P': P, 'x': x, 'y': y, 'ybar': rand_coeffs(rng, (D, P) + shape, -2, 2)}


def pb_mismatch(ctx, case):
    x = np.array(case['x'])
    ybar = np.array(case['ybar'])
    cg = algopy.CGraph()
    fx = algopy.Function(UTPM(x.copy()))
    if case['pb'] == 1:
        call, dom, mfn, leaves, params, n = PB1[case['fn']]
        fy = call(fx)
        cg.trace_off()
        cg.independentFunctionList = [fx]
        cg.dependentFunctionList = [fy]
        cg.pullback([UTPM(ybar.copy())])
        got = np.array(fx.xbar.data)
        lv = [np.asarray(l, dtype=float).reshape(x[0].shape) for l in leaves(x[0])]
        m = ctx.model.arrs({'op': 'pb1', 'fn': mfn, 'ybar': enc_arr(ybar), 'x': enc_arr(x), 'y': enc_arr(np.array(fy.x.data)),
                            'leaves': [enc_arr(l) for l in lv], 'params': [enc_num(p) for p in params], 'n': n})
        if isinstance(m, str):
            return 'model-error: ' + m
        if not close(got, m[0]):
            return 'pullback-%s: xbar from the reverse sweep differs from the modelled pullback kernel, max diff %s' % (case['fn'], maxdiff(got, m[0]))
        return None
    y = np.array(case['y'])
    fy_in = algopy.Function(UTPM(y.copy()))
    fz = PB2[case['fn']](fx, fy_in)
    cg.trace_off()
    cg.independentFunctionList = [fx, fy_in]
    cg.dependentFunctionList = [fz]
    cg.pullback([UTPM(ybar.copy())])
    m = ctx.model.arrs({'op': 'pb2', 'fn': case['fn'], 'zbar': enc_arr(ybar), 'x': enc_arr(x), 'y': enc_arr(y), 'z': enc_arr(np.array(fz.x.data))})
    if isinstance(m, str):
        return 'model-error: ' + m
    if not (close(np.array(fx.xbar.data), m[0]) and close(np.array(fy_in.xbar.data), m[1])):
        return 'pullback-%s: adjoints of the binary operator differ from the modelled pullback' % case['fn']
    return None


def search(ctx, case, what):
    """a model/implementation disagreement on a pullback kernel: does the adjoint identity fail on the implementation?"""
    import random
    rng = random.Random(12345)
    fn = case.get('fn')
    if case.get('pb') == 1:
        ew = {'pow3': 'pow3', 'pow2': 'pow2', 'powm2': 'powm2', 'pow1.5': 'pow1.5'}.get(fn, fn)
        if ew not in programs.EW:
            return None
        prog = {'inputs': [[3]], 'steps': [{'op': 'ew', 'fn': 'square', 'a': 0}, {'op': 'binc', 'fn': 'add', 'a': 1, 'c': 0.75, 'side': 'r'},
                                           {'op': 'ew', 'fn': ew, 'a': 2}], 'out': 3, 'out_shape': [3]}
        if ew in ('logit', 'arcsin', 'tan'):
            prog['steps'] = [{'op': 'ew', 'fn': 'expit', 'a': 0}, {'op': 'ew', 'fn': ew, 'a': 1}]
            prog['out'] = 2
    elif case.get('pb') == 2:
        prog = {'inputs': [[3], [3]], 'steps': [{'op': 'ew', 'fn': 'square', 'a': 1}, {'op': 'binc', 'fn': 'add', 'a': 2, 'c': 0.75, 'side': 'r'},
                                                {'op': 'bin', 'fn': fn, 'a': 0, 'b': 3}], 'out': 4, 'out_shape': [3]}
    else:
        return None
    for _ in range(40):
        c = make_case(rng, 'thorough', prog=prog)
        f = adjoint_fails(c)
        if f:
            return (c, f)
    return None


# ---- matrix pullback kernels vs the formulas whose adjoint identities are proved (Proofs/MatPullback.lean) ----------
def _tm(a, b):
    D = a.shape[0]
    out = np.zeros((D,) + (a[0] @ b[0]).shape)
    for d in range(D):
        for c in range(d + 1):
            out[d] += a[c] @ b[d - c]
    return out


def _tT(a):
    return np.transpose(a, (0, 2, 1))


def make_matpb_case(rng, tier):
    import ops
    fn = rng.choice(['dot', 'inv', 'solve', 'trace', 'det'])
    D, P, n = rng.randint(1, 4), rng.choice([1, 2]), rng.randint(1, 3)
    c = {'matpb': fn, 'D': D, 'P': P}
    if fn == 'dot':
        k, m = rng.randint(1, 3), rng.randint(1, 3)
        c['x'], c['y'] = rand_coeffs(rng, (D, P, n, k), -2, 2), rand_coeffs(rng, (D, P, k, m), -2, 2)
        c['zbar'] = rand_coeffs(rng, (D, P, n, m), -1, 1)
    elif fn == 'solve':
        k = rng.randint(1, 2)
        c['x'], c['y'] = ops.gen_square(rng, D, P, n), rand_coeffs(rng, (D, P, n, k), -2, 2)
        c['zbar'] = rand_coeffs(rng, (D, P, n, k), -1, 1)
    else:
        c['x'] = ops.gen_square(rng, D, P, n)
        c['zbar'] = rand_coeffs(rng, (D, P, n, n) if fn == 'inv' else (D, P), -1, 1)
    return c


def matpb_mismatch(case):
    fn, D, P = case['matpb'], case['D'], case['P']
    x, zb = np.array(case['x']), np.array(case['zbar'])
    X, ZB = UTPM(x.copy()), UTPM(zb.copy())
    if fn == 'dot':
        y = np.array(case['y'])
        Y = UTPM(y.copy())
        Z = UTPM.dot(X, Y)
        xbar, ybar = UTPM.pb_dot(ZB, X, Y, Z)
        for p in range(P):
            if not close(xbar.data[:, p], _tm(zb[:, p], _tT(y[:, p])), 1e-9) or not close(ybar.data[:, p], _tm(_tT(x[:, p]), zb[:, p]), 1e-9):
                return 'matpb-dot: pb_dot differs from (Zbar Y^T, X^T Zbar) in Taylor arithmetic'
    elif fn == 'inv':
        Y = UTPM.inv(X)
        xbar = UTPM.pb_inv(ZB, X, Y)
        for p in range(P):
            yp = Y.data[:, p]
            if not close(xbar.data[:, p], -_tm(_tT(yp), _tm(zb[:, p], _tT(yp))), 1e-8):
                return 'matpb-inv: pb_inv differs from -Y^T Ybar Y^T in Taylor arithmetic'
    elif fn == 'solve':
        y = np.array(case['y'])
        B = UTPM(y.copy())
        Z = UTPM.solve(X, B)
        xbar, bbar = UTPM.pb_solve(ZB, X, B, Z)
        Yi = UTPM.inv(X)
        for p in range(P):
            T = _tm(_tT(Yi.data[:, p]), zb[:, p])
            if not close(bbar.data[:, p], T, 1e-8) or not close(xbar.data[:, p], -_tm(T, _tT(Z.data[:, p])), 1e-8):
                return 'matpb-solve: pb_solve differs from (Bbar = Y^T Zbar, Xbar = -Bbar Z^T) in Taylor arithmetic'
    elif fn == 'trace':
        yv = UTPM.trace(X)
        xbar = UTPM.pb_trace(ZB, X, yv)
        n = x.shape[2]
        want = zb[:, :, None, None] * np.eye(n)
        if not close(xbar.data, want, 1e-12):
            return 'matpb-trace: pb_trace differs from ybar * I'
    else:
        yv = UTPM.det(X)
        xbar = UTPM.pb_det(ZB, X, yv)
        Yi = UTPM.inv(X)
        for p in range(P):
            # Xbar = (ybar * det X) Y^T as series
            s = np.array([sum(zb[c_, p] * yv.data[d - c_, p] for c_ in range(d + 1)) for d in range(D)])
            want = np.array([sum(s[c_] * _tT(Yi.data[:, p])[d - c_] for c_ in range(d + 1)) for d in range(D)])
            if not close(xbar.data[:, p], want, 1e-7):
                return 'matpb-det: pb_det differs from ybar det(X) inv(X)^T in Taylor arithmetic'
    return None


def multiout_case(rng):
    D, P, n = rng.randint(1, 3), rng.randint(1, 2), rng.randint(3, 5)
    lo2 = rng.randint(0, n - 2)
    return {'multiout': rng.choice(['views', 'views', 'same-node', 'row-col', 'view-and-whole']), 'D': D, 'P': P, 'x': rand_coeffs(rng, (D, P, n), -2, 2),
            'a': [0, rng.randint(lo2 + 1, n - 1) + 1], 'b': [lo2, n], 'seed': rng.randrange(1 << 30)}


def multiout_fails(case):
    """several dependent outputs that are overlapping views of one array (or the same node listed twice): the adjoint of an
    entry reached by two outputs is the sum of the two seeds.  z = x*x, outputs u = z[a0:a1], v = z[b0:b1] (or rows / columns
    of the reshaped array): xbar = 2 x (ubar scattered + vbar scattered) in Taylor arithmetic"""
    from algopy import CGraph, Function
    x = np.array(case['x'], dtype=float)
    D, P, n = x.shape
    r = np.random.RandomState(case['seed'])
    mode = case['multiout']
    cg = CGraph()
    fx = Function(UTPM(x.copy()))
    fz = fx * fx
    if mode == 'same-node':
        outs, idxs = [fz, fz], [slice(None), slice(None)]
    elif mode == 'view-and-whole':
        outs, idxs = [fz[case['a'][0]:case['a'][1]], fz], [slice(case['a'][0], case['a'][1]), slice(None)]
    elif mode == 'row-col' and n == 4:
        fm = algopy.reshape(fz, (2, 2))
        outs, idxs = [fm[0], fm[:, 0]], [np.array([0, 1]), np.array([0, 2])]
    else:
        outs = [fz[case['a'][0]:case['a'][1]], fz[case['b'][0]:case['b'][1]]]
        idxs = [slice(case['a'][0], case['a'][1]), slice(case['b'][0], case['b'][1])]
    cg.trace_off()
    cg.independentFunctionList = [fx]
    cg.dependentFunctionList = outs
    seeds = []
    zbar = np.zeros((D, P, n))
    for o, ix in zip(outs, idxs):
        sb = np.round(r.uniform(-1, 1, size=o.x.data.shape) * 8) / 8 + 0.0625
        seeds.append(sb)
        zbar[:, :, ix] += sb
    try:
        cg.pullback([UTPM(sb.copy()) for sb in seeds])
    except Exception as ex:
        return 'multiout-exception-%s: the reverse sweep raised %s' % (mode, type(ex).__name__)
    want = (UTPM(zbar) * (UTPM(x.copy()) * 2.0)).data
    got = fx.xbar.data
    if got.shape != want.shape or not close(got, want, 1e-10):
        return ('multiout-%s: with %d dependent outputs that overlap in memory the adjoint is not the sum of the contributions of all '
                'outputs (max diff %s)' % (mode, len(outs), maxdiff(got, want)))
    return None


def svd_repeated_fails(case):
    """y = sum(s*s) with (U, s, V) = svd(A) is the polynomial ||A||_F^2: its adjoint is 2 ybar A at EVERY matrix, also where
    singular values coincide or vanish (only sbar is non-zero; the singular vectors are not used)"""
    A = np.array(case['A'])
    D, P = A.shape[:2]
    yb = np.array(case['ybar'])
    cg = algopy.CGraph()
    fa = algopy.Function(UTPM(A.copy()))
    try:
        with np.errstate(all='ignore'):
            U_, s_, V_ = algopy.svd(fa)
            fy = algopy.sum(s_ * s_)
            cg.trace_off()
            cg.independentFunctionList = [fa]
            cg.dependentFunctionList = [fy]
            cg.pullback([UTPM(yb.copy())])
    except Exception as ex:
        return 'svd-repeated-exception: %s' % (type(ex).__name__ + ':' + str(ex)[:80])
    want = (UTPM(yb.reshape(D, P, 1, 1) * np.ones(A.shape)) * UTPM(A.copy()) * 2.0).data
    got = fa.xbar.data
    if not np.all(np.isfinite(got)) or not close(got, want, 1e-8):
        return ('svd-repeated: the adjoint of sum(s*s) through svd is not 2*ybar*A at a matrix with coinciding / vanishing singular '
                'values (finite: %s, max diff %s)') % (bool(np.all(np.isfinite(got))), maxdiff(got, want))
    return None


def jacobian_utpm_fails(case):
    """the reverse sweeps behind CGraph.jacobian at a Taylor-polynomial point with several directions and several outputs:
    F(x) = A sin(x), so J(x(t)) = A diag(cos x(t)), computed by forward arithmetic alone"""
    A, x = np.array(case['A']), np.array(case['x'])
    cg = algopy.CGraph()
    fx = algopy.Function(x[0, 0].copy())
    fy = algopy.dot(A, algopy.sin(fx))
    cg.trace_off()
    cg.independentFunctionList = [fx]
    cg.dependentFunctionList = [fy]
    try:
        got = cg.jacobian(UTPM(x.copy())).data
    except Exception as ex:
        return 'jacobian-utpm-exception: %s' % (str(ex).strip().splitlines()[-1][:100])
    c = algopy.cos(UTPM(x.copy())).data                       # (D, P, N)
    want = A[None, None, :, :] * c[:, :, None, :]
    if got.shape != want.shape or not close(got, want, 1e-10):
        return 'jacobian-utpm: the rows of cg.jacobian(x(t)) (reverse sweeps, %d directions, %d outputs) differ from A diag(cos x(t)) computed in forward mode (max diff %s)' % (
            x.shape[1], A.shape[0], maxdiff(got, want) if got.shape == want.shape else 'shape')
    return None


def replay_case(ctx, case):
    if case.get('op') == 'reshape-copy-inplace':
        return reshape_copy_inplace_fails(case)
    if case.get('op') == 'jacobian-utpm':
        return jacobian_utpm_fails(case)
    if case.get('op') == 'svd-repeated':
        return svd_repeated_fails(case)
    if case.get('multiout'):
        return multiout_fails(case)
    if case.get('superpos'):
        import revchecks
        return revchecks.op_superposition_fails(case)
    if case.get('opadj'):
        import revchecks
        return revchecks.op_adjoint_fails(case)
    if 'matpb' in case:
        return matpb_mismatch(case)
    if 'pb' in case:
        return pb_mismatch(ctx, case)
    return adjoint_fails(case)


def run(ctx):
    rng = ctx.rng
    for form_ in ('imul', 'setitem'):
        case = {'op': 'reshape-copy-inplace', 'form': form_, 'D': 2, 'P': 1, 'X': rand_coeffs(rng, (2, 1, 2, 4), -2, 2) + 0.125}
        ctx.evaluations += 1
        ctx.count('reshape-copy-then-inplace')
        f_ = reshape_copy_inplace_fails(case)
        if f_:
            ctx.report(case, 'failure', f_)

    def do(case, kind):
        ctx.evaluations += 1
        for o in programs.ops_used(case['prog']):
            ctx.count('op=' + o)
        ctx.count('D=%d' % case['D'], 'P=%d' % case['P'], kind)
        h = canon_hash(to_jsonable(case))
        if h not in ctx.hashes:
            ctx.hashes.add(h)
            if case['D'] >= 2:
                ctx.nontrivial += 1
        if len(ctx.samples) < 3 and case['D'] >= 2 and len(case['prog']['steps']) >= 3:
            ctx.samples.append(to_jsonable(case))
        f = adjoint_fails(case)
        if f:
            ctx.report(case, 'failure', f)

    reps = 2 if ctx.tier == 'quick' else 12
    for p in single_op_programs(rng):
        for _ in range(reps):
            do(make_case(rng, ctx.tier, prog=p), 'single-op')
    for i in range(250 if ctx.tier == 'quick' else 4000):
        do(make_case(rng, ctx.tier), 'generated')
    # every registered operation with a second consumer of its operands recorded after it: adjoints accumulate
    import ops, revchecks
    for name in revchecks.reversible_ops(for_truncation=False):
        mixed = name.endswith(':mixed')          # needs two directions (one degenerate, one regular): more cases, always P = 2
        zb = name == 'pow:uai'                   # zero base points: the adjoint must not come from a quotient y / x
        for k in range((6 if mixed or zb else 2) if ctx.tier == 'quick' else 25):
            case = ops.gen_case(rng, ctx.tier, name, P=2 if mixed else rng.choice([1, 2]), D=rng.randint(2 if zb else 1, 3))
            case['seed'] = rng.randrange(1 << 30)
            case['superpos'] = True
            ctx.evaluations += 1
            ctx.count('superposition')
            f = revchecks.op_superposition_fails(case)
            if f:
                ctx.report(case, 'failure', f)
            # the adjoint identity itself for the operation alone (every registered operation, every operand kind)
            c2 = dict(case)
            del c2['superpos']
            c2['opadj'] = True
            ctx.evaluations += 1
            ctx.count('op-adjoint')
            f = revchecks.op_adjoint_fails(c2)
            if f:
                ctx.report(c2, 'failure', f)
    for (D_, P_, M_) in ((1, 3, 2), (2, 2, 2), (2, 3, 3), (1, 1, 2)):
        case = {'op': 'jacobian-utpm', 'D': D_, 'P': P_, 'A': rand_coeffs(rng, (M_, 3), -2, 2), 'x': rand_coeffs(rng, (D_, P_, 3), -2, 2)}
        ctx.evaluations += 1
        ctx.count('jacobian-utpm')
        f = jacobian_utpm_fails(case)
        if f:
            ctx.report(case, 'failure', f)
    # svd at matrices with coinciding / vanishing singular values, through a function of the singular values alone
    for A0 in ([[1., 0.], [0., 1.]], [[0., 1.], [1., 0.]], [[2., 0., 0.], [0., 1., 0.], [0., 0., 1.]], [[1., 0., 0.], [0., 1., 0.]],
               [[1., 0., 0.], [0., 0., 0.]], [[2., 0.], [0., -2.]]):
        for D_, P_ in ((1, 1), (2, 1), (3, 2)):
            a0 = np.array(A0)
            A_ = rand_coeffs(rng, (D_, P_) + a0.shape, -1, 1)
            A_[0] = a0
            case = {'op': 'svd-repeated', 'A': A_, 'ybar': rand_coeffs(rng, (D_, P_), -2, 2) + 0.125}
            ctx.evaluations += 1
            ctx.count('svd-repeated')
            f = svd_repeated_fails(case)
            if f:
                ctx.report(case, 'failure', f)
    # several dependent outputs overlapping in memory
    for i in range(40 if ctx.tier == 'quick' else 400):
        case = multiout_case(rng)
        ctx.evaluations += 1
        ctx.count('multiout=' + case['multiout'])
        f = multiout_fails(case)
        if f:
            ctx.report(case, 'failure', f)
    # matrix pullback kernels vs the formulas of Proofs/MatPullback.lean
    for i in range(120 if ctx.tier == 'quick' else 1500):
        case = make_matpb_case(rng, ctx.tier)
        ctx.evaluations += 1
        ctx.count('matpb=' + case['matpb'])
        try:
            f = matpb_mismatch(case)
        except Exception as ex:
            f = 'exception-matpb-%s: %s' % (case['matpb'], (str(ex).strip().splitlines() or [type(ex).__name__])[-1][:100])
        if f:
            ctx.report(case, 'failure', f)
    # correspondence of the modelled pullback kernels (functional: the proved local adjoint is about these)
    for i in range(200 if ctx.tier == 'quick' else 3000):
        case = make_pb_case(rng, ctx.tier)
        ctx.evaluations += 1
        ctx.count('pbkernel=' + case['fn'])
        try:
            f = pb_mismatch(ctx, case)
        except Exception as ex:
            f = 'exception-pb-%s: %s' % (case['fn'], str(ex).strip().splitlines()[-1][:100])
        if f:
            # a disagreement with the model is decided by the adjoint identity on the implementation
            prog = None
            ctx.report(case, 'disagreement', f)
