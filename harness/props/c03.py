"""C03 — reverse mode agrees with forward mode at every Taylor order.

Oracle on the implementation (the property itself): for a generated program F, input curve x(t),
seed ybar(t) (non-symmetric, non-zero at all orders) and direction v(t):
      <xbar(t), v(t)>  ==  <ybar(t), F'(x(t)) v(t)>   mod t^D, for every direction p,
where xbar comes from cg.pullback and F'(x(t))v(t) from forward propagation alone: evaluating the
program directly on UTPMs of degree 2D at x(t) and at x(t) + t^D v(t); the coefficients D..2D-1 of the
difference are exactly F'(x(t))v(t) mod t^D.
Correspondence: the series-level pullback kernels, called through the tracer with its real positional
binding, against the Lean model `Model/Pullback.lean` (exact)."""
import numpy as np
from common import *
import programs
from programs import gen_program, run_program, trace

RULE = ('cases = (program from the typed generator or a single-op program for every differentiable op, D, P, input curve, '
        'seed, direction) from one PRNG; non-trivial = D>=2, seed and direction non-zero at every order; distinct by hash')
ASSUMPTIONS = ['tolerance 1e-7 relative on the two pairings', 'factorisation pullbacks are exercised through uniquely defined outputs only']


def cauchy_pair(a, b):
    """sum over elements of the truncated Cauchy product: a, b of shape (D,P)+s -> (D,P)"""
    D, P = a.shape[:2]
    a2 = a.reshape(D, P, -1)
    b2 = b.reshape(D, P, -1)
    out = np.zeros((D, P))
    for d in range(D):
        for k in range(d + 1):
            out[d] += np.sum(a2[k] * b2[d - k], axis=1)
    return out


def make_case(rng, tier, prog=None, single=None):
    if prog is None:
        prog = gen_program(rng, maxsteps=5 if tier == 'quick' else 9)
    D = rng.choice([1, 2, 3, 3] if tier == 'quick' else [1, 2, 3, 4, 5])
    P = rng.choice([1, 1, 2])
    xs, vs = [], []
    for sh in prog['inputs']:
        x = rand_coeffs(rng, (D, P) + tuple(sh), -1, 1)
        x[0] = rand_coeffs(rng, (P,) + tuple(sh), -programs.BOX, programs.BOX)
        xs.append(x)
        vs.append(rand_coeffs(rng, (D, P) + tuple(sh), -1, 1))
    return {'prog': prog, 'D': D, 'P': P, 'xs': xs, 'vs': vs, 'ybar_seed': rng.randrange(1 << 30)}


def adjoint_fails(case):
    prog, D, P = case['prog'], case['D'], case['P']
    xs = [np.array(x, dtype=float) for x in case['xs']]
    vs = [np.array(v, dtype=float) for v in case['vs']]
    used = sorted(programs.ops_used(prog))
    tag = '+'.join(used) if len(used) <= 2 else 'program'
    # forward (direct UTPM evaluation, no tracer)
    try:
        with np.errstate(all='ignore'):
            y = run_program(prog, [UTPM(x.copy()) for x in xs])
    except Exception as ex:
        return None      # forward problems are judged by other properties
    if not isinstance(y, UTPM) or not np.all(np.isfinite(y.data)):
        return None
    r = np.random.RandomState(case['ybar_seed'])
    ybar = np.round(r.uniform(-1, 1, size=y.data.shape) * 8) / 8
    ybar[ybar == 0] = 0.5
    # reverse
    try:
        with np.errstate(all='ignore'):
            cg, fx, fy = trace(prog, [UTPM(x.copy()) for x in xs])
            cg.pullback([UTPM(ybar.copy())])
    except Exception as ex:
        msg = str(ex).strip().splitlines()
        short = [l for l in msg if 'Error' in l or 'error' in l][-1:] or msg[-1:]
        return 'exception-%s: the reverse sweep raised (%s)' % (tag, short[0][:140] if short else type(ex).__name__)
    xbars = []
    for f, x in zip(fx, xs):
        if not isinstance(f.xbar, UTPM) or f.xbar.data.shape != x.shape:
            return 'shape-%s: xbar of an independent has shape %s, expected %s' % (tag, getattr(getattr(f.xbar, 'data', None), 'shape', None), x.shape)
        xbars.append(np.array(f.xbar.data))
    # tangent by degree doubling
    def pad(a):
        z = np.zeros((2 * D,) + a.shape[1:])
        z[:D] = a
        return z
    try:
        with np.errstate(all='ignore'):
            y2 = run_program(prog, [UTPM(pad(x)) for x in xs])
            zs = []
            for x, v in zip(xs, vs):
                z = pad(x)
                z[D:] = v
                zs.append(z)
            y3 = run_program(prog, [UTPM(z) for z in zs])
    except Exception:
        return None
    dy = (y3.data - y2.data)[D:]
    if not (np.all(np.isfinite(dy)) and all(np.all(np.isfinite(xb)) for xb in xbars)):
        return 'nan-%s: non-finite adjoint or tangent' % tag
    lhs = sum(cauchy_pair(xb, v) for xb, v in zip(xbars, vs))
    rhs = cauchy_pair(ybar, dy)
    scale = max(1.0, float(np.max(np.abs(lhs))), float(np.max(np.abs(rhs))))
    if np.max(np.abs(lhs - rhs)) > 1e-7 * scale:
        d_bad = int(np.argmax(np.max(np.abs(lhs - rhs), axis=1) > 1e-7 * scale))
        return 'adjoint-%s: <xbar,v> != <ybar,F\'(x)v> at order %d (%.6g vs %.6g)' % (
            tag, d_bad, lhs[d_bad].ravel()[0], rhs[d_bad].ravel()[0])
    return None


def single_op_programs(rng):
    """one program per differentiable operation, so that every pb_* is driven through the tracer"""
    progs = []
    for fn in sorted(programs.TRACEABLE):
        for _ in range(30):
            p = gen_program(rng, input_shapes=[(3,)], maxsteps=1, kinds=['ew'], allow={'ew:' + fn})
            if p['steps']:
                progs.append(p)
                break
        else:
            # need a positive argument: exp first
            p = {'inputs': [[3]], 'steps': [{'op': 'ew', 'fn': 'square', 'a': 0}, {'op': 'binc', 'fn': 'add', 'a': 1, 'c': 0.75, 'side': 'r'},
                                            {'op': 'ew', 'fn': fn, 'a': 2}], 'out': 3, 'out_shape': [3]}
            if fn == 'logit':
                p['steps'] = [{'op': 'ew', 'fn': 'expit', 'a': 0}, {'op': 'ew', 'fn': fn, 'a': 1}]
                p['out'] = 2
            progs.append(p)
    for k in ['bin', 'binc', 'getitem', 'sum', 'transpose', 'reshape', 'dot', 'dotc', 'outer', 'prod', 'buffer']:
        for rep in range(6):
            shapes = [rng.choice([(2,), (3,), (2, 2), (2, 3)])]
            if k in ('bin', 'dot', 'outer'):
                shapes.append(rng.choice([(2,), (3,), (2, 2), (3, 2)]))
            p = gen_program(rng, input_shapes=shapes, maxsteps=2 if k in ('transpose', 'reshape') else 1, kinds=[k])
            if p['steps']:
                progs.append(p)
    for kind in ['inv', 'solve', 'det', 'logdet', 'trace', 'qr', 'cholesky', 'eigh', 'lu', 'svd', 'qr_full']:
        for n in (2, 3):
            progs.append({'inputs': [[n * n]], 'steps': [{'op': 'mkmat', 'a': 0, 'n': n, 'sym': kind in ('cholesky', 'eigh', 'logdet'), 'kind': kind},
                                                         {'op': 'la', 'kind': kind, 'a': 1}], 'out': 2, 'out_shape': []})
    # transposed (non-contiguous) data into reshape, sum over every axis of a matrix, views of views
    progs.append({'inputs': [[2, 3]], 'steps': [{'op': 'transpose', 'a': 0, 'how': 'T'}, {'op': 'reshape', 'a': 1, 'shape': [6], 'how': 'fn'}], 'out': 2, 'out_shape': [6]})
    for ax in (0, 1, -1, -2, None):
        progs.append({'inputs': [[2, 2]], 'steps': [{'op': 'sum', 'a': 0, 'axis': ax}], 'out': 1, 'out_shape': []})
        progs.append({'inputs': [[2, 3]], 'steps': [{'op': 'sum', 'a': 0, 'axis': ax}], 'out': 1, 'out_shape': []})
    return progs


def replay_case(ctx, case):
    return adjoint_fails(case)


def run(ctx):
    rng = ctx.rng

    def do(case, kind):
        ctx.evaluations += 1
        for o in programs.ops_used(case['prog']):
            ctx.count('op=' + o)
        ctx.count('D=%d' % case['D'], 'P=%d' % case['P'], kind)
        h = canon_hash(to_jsonable(case))
        if h not in ctx.hashes:
            ctx.hashes.add(h)
            if case['D'] >= 2:
                ctx.nontrivial += 1
        if len(ctx.samples) < 3 and case['D'] >= 2 and len(case['prog']['steps']) >= 3:
            ctx.samples.append(to_jsonable(case))
        f = adjoint_fails(case)
        if f:
            ctx.report(case, 'failure', f)

    reps = 2 if ctx.tier == 'quick' else 12
    for p in single_op_programs(rng):
        for _ in range(reps):
            do(make_case(rng, ctx.tier, prog=p), 'single-op')
    for i in range(250 if ctx.tier == 'quick' else 4000):
        do(make_case(rng, ctx.tier), 'generated')
