"""C04 — graph derivative drivers return the derivatives at the requested point.

Oracle on the implementation: for a generated program F: R^N -> R^M recorded at one point (with
ndarray or UTPM(D',P') inputs) and evaluated at another, each of
gradient / jacobian / jac_vec / vec_jac / hessian / hess_vec / vec_hess / vec_hess_vec
equals the corresponding derivative of the program at the evaluation point obtained from forward
propagation alone (the UTPM forward drivers applied to the program run directly), and, for
polynomial programs with integer coefficients at integer points, the exact analytic derivative
(computed in exact rational arithmetic by forward propagation of `Fraction` objects).
jacobian(UTPM) must be the Taylor expansion of every Jacobian entry along the curve."""
import numpy as np
from fractions import Fraction as F
from common import *
import programs
from programs import gen_program, run_program, trace

RULE = ('cases = (program R^N->R^M, recording point & kind, evaluation point != recording point, vectors v,w, driver); '
        'non-trivial = program has >= 2 steps and the evaluation point differs from the recording point; distinct by hash')
ASSUMPTIONS = ['reference derivatives by forward propagation of the same program (C01/C02/C07-validated) and exact rational arithmetic for polynomial programs',
               'tolerance 1e-8 relative']

KINDS = ['ew', 'ew', 'bin', 'bin', 'binc', 'getitem', 'sum', 'dot', 'dotc', 'prod', 'buffer', 'buffer', 'bufferconst', 'bufferiop', 'reshape', 'outer', 'linalg', 'tri', 'cplxparts', 'setarr', 'realalias', 'maxmin']


def make_case(rng, tier, prog=None):
    N = rng.randint(1, 4)
    scalar = rng.random() < 0.6
    if prog is not None:
        # a fixed program with one vector input
        N = prog['inputs'][0][0]
        scalar = len(prog['out_shape']) == 0
        prog = {k: (list(v) if isinstance(v, list) else v) for k, v in prog.items()}
    else:
        prog = gen_program(rng, input_shapes=[(N,)], maxsteps=5 if tier == 'quick' else 9, out_scalar=scalar, kinds=KINDS)
    if not scalar and len(prog['out_shape']) != 1:
        # flatten to a vector output
        n = int(np.prod(prog['out_shape']))
        if len(prog['out_shape']) == 0:
            scalar = True
        else:
            prog['steps'].append({'op': 'reshape', 'a': prog['out'], 'shape': [n], 'how': 'fn'})
            prog['out'] += 1 if False else 0
            prog['out'] = len(prog['inputs']) + sum(1 for s in prog['steps'] if s['op'] not in ('setitem', 'setbc', 'setconst', 'iopview')) - 1
            prog['out_shape'] = [n]
    rec_kind = rng.choice(['nd', 'ut'])
    D, P = rng.randint(1, 3), rng.randint(1, 2)
    if rec_kind == 'nd':
        rec = rand_coeffs(rng, (N,), -programs.BOX, programs.BOX)
    else:
        rec = rand_coeffs(rng, (D, P, N), -1, 1)
        rec[0] = rand_coeffs(rng, (P, N), -programs.BOX, programs.BOX)
    return {'prog': prog, 'N': N, 'scalar': scalar, 'rec_kind': rec_kind, 'rec': rec,
            'x': rand_coeffs(rng, (N,), -programs.BOX, programs.BOX),
            'v': rand_coeffs(rng, (N,), -1, 1), 'w_seed': rng.randrange(1 << 30),
            'curve': rand_coeffs(rng, (rng.randint(2, 3), rng.randint(1, 2), N), -1, 1)}


def fwd(prog, x_utpm):
    return run_program(prog, [x_utpm])


def ref_derivs(case):
    """reference derivatives at case['x'] by forward mode on the program itself"""
    prog, x, v = case['prog'], np.array(case['x']), np.array(case['v'])
    N = case['N']
    y = fwd(prog, UTPM.init_jacobian(x))
    J = np.atleast_2d(UTPM.extract_jacobian(y))          # (M,N)
    if J.shape[-1] != N:
        J = J.reshape(-1, N)
    M = J.shape[0]
    out = {'J': J, 'M': M}
    # second order: for each output component m the Hessian via init_hessian
    yh = fwd(prog, UTPM.init_hessian(x))
    H = []
    if yh.data.ndim == 2:
        H = [UTPM.extract_hessian(N, yh)]
    else:
        for m in range(M):
            H.append(UTPM.extract_hessian(N, UTPM(yh.data.reshape(yh.data.shape[:2] + (-1,))[:, :, m])))
    out['H'] = np.array(H)      # (M,N,N)
    return out


def drivers_fail(case):
    prog, N = case['prog'], case['N']
    x, v = np.array(case['x']), np.array(case['v'])
    rec = np.array(case['rec'])
    rec_in = rec if case['rec_kind'] == 'nd' else UTPM(rec)
    try:
        with np.errstate(all='ignore'):
            ref = ref_derivs(case)
            cg, fx, fy = trace(prog, [rec_in])
    except Exception:
        return None
    if not np.all(np.isfinite(ref['J'])) or not np.all(np.isfinite(ref['H'])):
        return None
    M = ref['M']
    w = np.round(np.random.RandomState(case['w_seed']).uniform(-1, 1, size=M) * 8) / 8
    tol = 1e-8

    def cmp(name, got, want):
        got, want = np.asarray(got, dtype=float), np.asarray(want, dtype=float)
        if got.shape != want.shape:
            if got.size == want.size:
                got = got.reshape(want.shape)
            else:
                return '%s-shape: returned shape %s, expected %s' % (name, got.shape, want.shape)
        if not close(got, want, tol):
            return '%s: differs from the derivative at the requested point (max diff %s; recorded with %s at another point)' % (
                name, maxdiff(got, want), case['rec_kind'])
        return None

    def bare_sweeps(cg_, x_):
        """a driver call followed by two more reverse sweeps of the same forward evaluation (unit seed): each returns the gradient"""
        cg_.gradient(x_)
        outs = []
        for _ in range(2):
            y_ = cg_.dependentFunctionList[0].x
            if isinstance(y_, UTPM):
                yb = y_.zeros_like()
                yb.data[0] = 1.0
            else:
                yb = np.ones_like(np.asarray(y_, dtype=float))
            cg_.pullback([yb])
            xb = cg_.independentFunctionList[0].xbar
            outs.append(np.array(xb.data[0, 0] if isinstance(xb, UTPM) else xb, dtype=float))
        if not np.allclose(outs[0], outs[1], rtol=1e-12, atol=1e-12):
            return np.full_like(outs[0], np.nan)
        return outs[1]

    calls = []
    if case['scalar']:
        calls += [('gradient', lambda: cg.gradient(x), ref['J'][0]),
                  ('hessian', lambda: cg.hessian(x), ref['H'][0]),
                  ('hess_vec', lambda: cg.hess_vec(x, v), ref['H'][0] @ v),
                  ('gradient-again', lambda: cg.gradient(x), ref['J'][0]),
                  ('gradient-then-sweeps', lambda: bare_sweeps(cg, x), ref['J'][0])]
    else:
        calls += [('jacobian', lambda: cg.jacobian(x), ref['J']),
                  ('vec_jac', lambda: cg.vec_jac(w, x), w @ ref['J']),
                  ('vec_hess', lambda: cg.vec_hess(w, x), np.einsum('m,mij->ij', w, ref['H'])),
                  ('vec_hess_vec', lambda: cg.vec_hess_vec(w, x, v), np.einsum('m,mij,j->i', w, ref['H'], v))]
    calls.append(('jac_vec', lambda: cg.jac_vec(x, v), ref['J'] @ v if not case['scalar'] else (ref['J'] @ v)[0]))
    for name, f, want in calls:
        try:
            with np.errstate(all='ignore'):
                got = f()
        except Exception as ex:
            msg = str(ex).strip().splitlines()
            return '%s-exception: raised %s' % (name, (msg[-1] if msg else type(ex).__name__)[:120])
        r = cmp(name, got, want)
        if r:
            return r
    # jacobian of a UTPM argument: Taylor expansion of every Jacobian entry along the curve
    if not case['scalar']:
        c = np.array(case['curve'])
        c[0] = x
        Dc, Pc = c.shape[:2]
        try:
            with np.errstate(all='ignore'):
                Ju = cg.jacobian(UTPM(c.copy()))
                # reference: forward mode with N extra directions per curve direction is not available in one sweep;
                # use the adjoint identity instead: for every w, v: sum_m w_m (J(t) v)_m == d/ds-free forward tangent
                pad = np.zeros((2 * Dc, Pc, N))
                pad[:Dc] = c
                y2 = fwd(prog, UTPM(pad.copy()))
                pad[Dc] = v
                y3 = fwd(prog, UTPM(pad))
        except Exception as ex:
            msg = str(ex).strip().splitlines()
            return 'jacobian-utpm-exception: raised %s' % ((msg[-1] if msg else type(ex).__name__)[:120])
        dy = (y3.data - y2.data)[Dc:]                      # (Dc,Pc,M) = J(x(t)) v  mod t^Dc
        if not isinstance(Ju, UTPM) or Ju.data.shape != (Dc, Pc, M, N):
            return 'jacobian-utpm-shape: jacobian(UTPM) returned %s' % (getattr(getattr(Ju, 'data', None), 'shape', type(Ju).__name__),)
        Jv = np.einsum('dpmn,n->dpm', Ju.data, v)
        if not close(Jv, dy.reshape(Jv.shape), 1e-7):
            return 'jacobian-utpm: jacobian(UTPM) is not the Taylor expansion of the Jacobian along the curve (max diff %s)' % maxdiff(Jv, dy.reshape(Jv.shape))
    return None


# ---- polynomial programs with integer coefficients at integer points: exact analytic derivatives
def poly_case(rng):
    N = rng.randint(1, 3)
    # p(x) = sum_k c_k prod_i x_i^{e_ki}
    terms = [(rng.randint(-3, 3), [rng.randint(0, 3) for _ in range(N)]) for _ in range(rng.randint(1, 4))]
    return {'op': 'poly', 'N': N, 'terms': terms, 'rec': [rng.randint(-3, 3) for _ in range(N)],
            'x': [rng.randint(-3, 3) for _ in range(N)], 'v': [rng.randint(-2, 2) for _ in range(N)],
            'xkind': rng.choice(['float', 'float', 'int-array', 'int-list']), 'w': rng.choice([0.5, -1.25, 2.0])}


def poly_eval(terms, xs):
    tot = 0
    for c, e in terms:
        t = c
        for xi, ei in zip(xs, e):
            for _ in range(ei):
                t = t * xi
        tot = tot + t
    return tot


def poly_fails(case):
    N, terms = case['N'], case['terms']

    def f(x):
        return poly_eval(terms, [x[i] for i in range(N)]) + 0 * x[0]
    cg = algopy.CGraph()
    fx = algopy.Function(np.array(case['rec'], dtype=float))
    fy = f(fx)
    cg.trace_off()
    cg.independentFunctionList = [fx]
    cg.dependentFunctionList = [fy]
    xk = case.get('xkind', 'float')
    x = np.array(case['x'], dtype=float) if xk == 'float' else (np.array(case['x'], dtype=int) if xk == 'int-array' else [int(a) for a in case['x']])
    v = np.array(case['v'], dtype=float)
    w = np.array([case.get('w', 1.0)])
    # exact gradient / hessian by differentiating monomials
    g = [F(0)] * N
    H = [[F(0)] * N for _ in range(N)]
    xs = [F(a) for a in case['x']]
    for c, e in terms:
        for i in range(N):
            if e[i] == 0:
                continue
            ei = list(e)
            ei[i] -= 1
            g[i] += F(c) * e[i] * poly_eval([(1, ei)], xs)
            for j in range(N):
                if ei[j] == 0:
                    continue
                eij = list(ei)
                eij[j] -= 1
                H[i][j] += F(c) * e[i] * ei[j] * poly_eval([(1, eij)], xs)
    g = np.array([float(a) for a in g])
    H = np.array([[float(a) for a in row] for row in H])
    try:
        got_g = cg.gradient(x)
        if isinstance(got_g, list):          # a list argument is answered with a list (one gradient per independent)
            got_g = got_g[0]
        got_H = cg.hessian(x)
        got_Hv = cg.hess_vec(x, v)
    except Exception as ex:
        return 'poly-exception: %s' % (str(ex).strip().splitlines()[-1][:100])
    if not (close(got_g, g, 1e-10) and close(got_H, H, 1e-10) and close(got_Hv, H @ v, 1e-10)):
        return 'poly: gradient/hessian of a polynomial program differ from the exact analytic derivatives (point given as %s)' % xk
    # the weighted and Jacobian drivers on the same program seen as R^N -> R^1
    cg2 = algopy.CGraph()
    fx2 = algopy.Function(np.array(case['rec'], dtype=float))
    fy2 = algopy.zeros(1, dtype=fx2)
    fy2[0] = f(fx2)
    cg2.trace_off()
    cg2.independentFunctionList = [fx2]
    cg2.dependentFunctionList = [fy2]
    try:
        got = {'jacobian': (np.asarray(cg2.jacobian(x), dtype=float), g.reshape(1, N)),
               'jac_vec': (np.asarray(cg2.jac_vec(x, v), dtype=float), np.array([g @ v])),
               'vec_jac': (np.asarray(cg2.vec_jac(w, x), dtype=float), w[0] * g),
               'vec_hess': (np.asarray(cg2.vec_hess(w, x), dtype=float), w[0] * H),
               'vec_hess_vec': (np.asarray(cg2.vec_hess_vec(w, x, v), dtype=float), w[0] * (H @ v))}
    except Exception as ex:
        return 'poly-exception-weighted: %s' % (str(ex).strip().splitlines()[-1][:100])
    for name, (a, b) in got.items():
        if np.shape(a) != np.shape(b) or not close(a, b, 1e-10):
            return 'poly-%s: differs from the exact analytic derivative (point given as %s)' % (name, xk)
    return None


def higham_case(rng, pair=None):
    """f(x) = <C, expm_higham_2005(X)> recorded at a point of one norm band of the method and evaluated at a point of another
    (all norms below the scaling threshold)"""
    bands = [0.005, 0.1, 0.6, 1.5]
    br, be = pair or rng.sample(bands, 2)
    n = rng.choice([2, 3])

    def point(norm):
        a = rand_coeffs(rng, (n, n), -1, 1)
        a[0, 0] += 1.0
        return (a * (norm / np.linalg.norm(a, 1))).ravel()
    return {'op': 'higham', 'n': n, 'xr': point(br), 'xe': point(be), 'C': rand_coeffs(rng, (n, n), -1, 1), 'v': rand_coeffs(rng, (n * n,), -1, 1)}


def higham_fails(case):
    n = case['n']
    C = np.array(case['C'])

    def f(x):
        return algopy.sum(algopy.expm_higham_2005(algopy.reshape(x, (n, n))) * C)

    def record(x0):
        cg = algopy.CGraph()
        fx = algopy.Function(np.array(x0, dtype=float))
        fy = f(fx)
        cg.trace_off()
        cg.independentFunctionList = [fx]
        cg.dependentFunctionList = [fy]
        return cg
    xr, xe, v = np.array(case['xr']), np.array(case['xe']), np.array(case['v'])
    try:
        other, here = record(xr), record(xe)
        got = {'gradient': other.gradient(xe), 'jac_vec': other.jac_vec(xe, v), 'hess_vec': other.hess_vec(xe, v)}
        want = {'gradient': here.gradient(xe), 'jac_vec': here.jac_vec(xe, v), 'hess_vec': here.hess_vec(xe, v)}
        fw = UTPM.extract_jacobian(f(UTPM.init_jacobian(xe)))
    except Exception as ex:
        return 'higham-exception: %s' % (str(ex).strip().splitlines()[-1][:100])
    if not close(want['gradient'], fw, 1e-8):
        return 'higham-gradient: the graph recorded at the evaluation point differs from forward mode (max diff %s)' % maxdiff(want['gradient'], fw)
    for k in got:
        if not close(got[k], want[k], 1e-8):
            return ('higham-%s: the graph recorded at a point of 1-norm %.3g gives a different %s at a point of 1-norm %.3g than the graph '
                    'recorded there (max diff %s)') % (k, np.linalg.norm(xr.reshape(n, n), 1), k, np.linalg.norm(xe.reshape(n, n), 1), maxdiff(got[k], want[k]))
    return None


def svd_point_fails(case):
    """f(x) = sum(s*s), s = singular values of reshape(x, (m, n)) -- the polynomial |x|^2 -- recorded at a generic point and
    evaluated at points with coinciding / vanishing singular values: gradient 2x, Hessian 2I, as in forward mode"""
    m, n = case['shape']
    xr, xe = np.array(case['xr']), np.array(case['xe'])
    cg = algopy.CGraph()
    fx = algopy.Function(xr.copy())
    U_, s_, V_ = algopy.svd(algopy.reshape(fx, (m, n)))
    fy = algopy.sum(s_ * s_)
    cg.trace_off()
    cg.independentFunctionList = [fx]
    cg.dependentFunctionList = [fy]
    try:
        with np.errstate(all='ignore'):
            g = cg.gradient(xe)
            vj = cg.vec_jac(np.array([1.5]), xe)
            H = cg.hessian(xe)
    except Exception as ex:
        return 'svd-point-exception: %s' % (str(ex).strip().splitlines()[-1][:100])
    if not close(g, 2 * xe, 1e-8) or not close(vj, 3 * xe, 1e-8):
        return 'svd-point-gradient: the gradient of sum(s*s) at a matrix with coinciding / vanishing singular values is not 2x (got %s)' % np.asarray(g).tolist()
    if not close(H, 2 * np.eye(xe.size), 1e-7):
        return 'svd-point-hessian: the Hessian of sum(s*s) at a matrix with coinciding / vanishing singular values is not 2I'
    return None


def workarray_drivers_fail(case):
    """f(x) = sum((x^2 + 3x)^2) accumulated in a work array wrapped by hand (acc = Function(zeros); acc += x*x; acc += 3*x --
    two updates of the same entries, the first reading the old content): every driver, at points other than the recording
    point and repeatedly, returns the analytic derivatives"""
    xr = np.array(case['rec'])
    cg = algopy.CGraph()
    fx = algopy.Function(xr.copy())
    # the work array holds Taylor polynomials with the (D, P) = (1, 1) of the gradient driver; owning / non-owning storage
    buf = np.zeros((2, 1, 1, xr.size))[0] if case.get('view') else np.zeros((1, 1, xr.size))
    acc = algopy.Function(UTPM(buf))
    if case.get('through_view'):
        lo, hi = acc[:1], acc[1:]
        lo += fx[:1] * fx[:1]
        hi += fx[1:] * fx[1:]
    else:
        acc += fx * fx
    acc += 3.0 * fx
    fy = algopy.sum(acc * acc)
    cg.trace_off()
    cg.independentFunctionList = [fx]
    cg.dependentFunctionList = [fy]
    for x in case['pts']:
        x = np.array(x)
        u = x * x + 3 * x
        g = 2 * u * (2 * x + 3)
        H = np.diag(2 * (2 * x + 3) ** 2 + 4 * u)
        v = np.array(case['v'])
        try:
            got = {'gradient': (cg.gradient(x), g), 'gradient-again': (cg.gradient(x), g), 'vec_jac': (cg.vec_jac(np.array([2.0]), x), 2 * g)}
        except Exception as ex:
            return 'workarray-drivers-exception: %s' % (str(ex).strip().splitlines()[-1][:100])
        for k, (a, b) in got.items():
            if not close(np.asarray(a, dtype=float), np.asarray(b, dtype=float), 1e-9):
                return 'workarray-drivers-%s: differs from the analytic derivative of sum((x^2+3x)^2) at %s (work array wrapped by hand)' % (k, x.tolist())
    return None


def empty_output_fails(case):
    """programs R^N -> R^0 (an empty selection / a product with a matrix without rows): jacobian is the empty (0, N) array, for a
    plain point and for a Taylor-polynomial point, jac_vec the empty vector, vec_jac zero -- and the graph stays usable"""
    rec, pt = np.array(case['rec']), np.array(case['pt'])
    N = rec.size
    cg = algopy.CGraph()
    fx = algopy.Function(rec.copy())
    fy = algopy.dot(np.zeros((0, N)), fx * fx) if case['prog'] == 'dot' else fx[N:] * 2.0
    cg.trace_off()
    cg.independentFunctionList = [fx]
    cg.dependentFunctionList = [fy]
    try:
        J = np.asarray(cg.jacobian(pt.copy()))
        c0 = np.zeros((2, 1, N))
        c0[0, 0], c0[1, 0] = pt, 1.0
        JU = cg.jacobian(UTPM(c0))
        jv = np.asarray(cg.jac_vec(pt.copy(), np.ones(N)))
        vj = np.asarray(cg.vec_jac(np.zeros(0), pt.copy()))
    except Exception as ex:
        return 'empty-output-exception: a driver raised %s for a program with an empty value (%s)' % (type(ex).__name__ + ':' + str(ex)[:60], case['prog'])
    if J.shape != (0, N) or JU.data.shape != (2, 1, 0, N) or jv.shape != (0,) or vj.shape != (N,) or np.any(vj != 0):
        return 'empty-output-shape: jacobian %s (expected (0, %d)), jacobian(UTPM) %s, jac_vec %s, vec_jac %s for a program with an empty value' % (
            J.shape, N, JU.data.shape, jv.shape, vj.tolist())
    return None


def replay_case(ctx, case):
    if case.get('op') == 'empty-output':
        return empty_output_fails(case)
    if case.get('op') == 'workarray-drivers':
        return workarray_drivers_fail(case)
    if case.get('op') == 'svd-point':
        return svd_point_fails(case)
    if case.get('op') == 'poly':
        return poly_fails(case)
    if case.get('op') == 'higham':
        return higham_fails(case)
    return drivers_fail(case)


def run(ctx):
    rng = ctx.rng
    # the fixed programs with an augmented assignment through a slice view of a buffer (every operator, one- and two-element
    # views), through the drivers on every run; then generated programs
    from props import c03
    fixed = [p_ for p_ in c03.single_op_programs(rng) if len(p_['inputs']) == 1 and len(p_['inputs'][0]) == 1
             and any(st['op'] == 'iopview' for st in p_['steps'])]
    for i in range(len(fixed) + (250 if ctx.tier == 'quick' else 3000)):
        case = make_case(rng, ctx.tier, fixed[i] if i < len(fixed) else None)
        ctx.evaluations += 1
        for o in programs.ops_used(case['prog']):
            ctx.count('op=' + o.split(':')[0])
        ctx.count('rec=' + case['rec_kind'], 'scalar' if case['scalar'] else 'vector')
        h = canon_hash(to_jsonable(case))
        if h not in ctx.hashes:
            ctx.hashes.add(h)
            if len(case['prog']['steps']) >= 2:
                ctx.nontrivial += 1
        if len(ctx.samples) < 2 and len(case['prog']['steps']) >= 3:
            ctx.samples.append(to_jsonable(case))
        f = drivers_fail(case)
        if f:
            ctx.report(case, 'failure', f)
    for shape, xe in (((2, 2), [1., 0., 0., 1.]), ((2, 2), [0., 2., -2., 0.]), ((2, 2), [3., 0., 0., -3.]), ((2, 3), [1., 0., 0., 0., 0., 0.]),
                      ((2, 3), [1., 0., 0., 0., 1., 0.])):
        case = {'op': 'svd-point', 'shape': list(shape), 'xr': np.arange(1., len(xe) + 1.) + rand_coeffs(rng, (len(xe),), -0.25, 0.25), 'xe': np.array(xe)}
        ctx.evaluations += 1
        ctx.count('svd-at-repeated-singular-values')
        f = svd_point_fails(case)
        if f:
            ctx.report(case, 'failure', f)
    for prog_ in ('dot', 'slice'):
        case = {'op': 'empty-output', 'prog': prog_, 'rec': rand_coeffs(rng, (3,), -2, 2), 'pt': rand_coeffs(rng, (3,), -2, 2)}
        ctx.evaluations += 1
        ctx.count('empty-output')
        f = empty_output_fails(case)
        if f:
            ctx.report(case, 'failure', f)
    for view in (False, True):
        for through_view in (False, True):
            case = {'op': 'workarray-drivers', 'view': view, 'through_view': through_view, 'rec': rand_coeffs(rng, (2,), -2, 2),
                    'pts': [rand_coeffs(rng, (2,), -2, 2) for _ in range(3)], 'v': rand_coeffs(rng, (2,), -1, 1)}
            ctx.evaluations += 1
            ctx.count('hand-wrapped-work-array')
            f = workarray_drivers_fail(case)
            if f:
                ctx.report(case, 'failure', f)
    for i in range(12 if ctx.tier == 'quick' else 120):
        case = higham_case(rng, [(0.005, 1.5), (0.005, 0.6), (0.1, 1.5), (0.1, 2.0), (1.5, 0.005)][i] if i < 5 else None)
        ctx.evaluations += 1
        ctx.count('higham-recording-point')
        f = higham_fails(case)
        if f:
            ctx.report(case, 'failure', f)
    for i in range(60 if ctx.tier == 'quick' else 600):
        case = poly_case(rng)
        ctx.evaluations += 1
        ctx.count('poly')
        f = poly_fails(case)
        if f:
            ctx.report(case, 'failure', f)
