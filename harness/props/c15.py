"""C15 — exact-interpolation coefficients reconstruct mixed partial derivatives.

Correspondence (exhaustive over the (N,d) table): generate_multi_indices, gamma(i,j),
generate_Gamma_and_rays, increment, multi_index_binomial, convert_multi_indices_to_pos of the real
code vs the exact-rational Lean model.  Oracle on the implementation: the identity
sum_j Gamma[i,j] ray_j^alpha = delta(i,alpha) evaluated with the implementation's own Gamma."""
import itertools
import math
import numpy as np
from fractions import Fraction as F
from common import *
import algopy.exact_interpolation as ei

RULE = ('exhaustive: every (N,d) of the table (N+d <= 7 quick, <= 8 thorough), every pair of multi-indices (i,j) of degree d; '
        'increment on every (i,k) of the boxes; non-trivial = N>=2 and d>=2; distinct by (N,d,i,j)')
ASSUMPTIONS = ['Gamma is compared to the exact rational model with tolerance 1e-9 (the implementation sums floats)']


def table(tier):
    lim = 7 if tier == 'quick' else 8
    tab = [(N, d) for N in range(1, 6) for d in range(1, 6) if N + d <= lim and N * d <= (12 if tier == 'quick' else 16)]
    # high degrees for few variables (the smallest entries of Gamma are 1/d^d: 2.6e-9 for d = 9, 1.1e-13 for d = 12)
    tab += [(1, 6), (1, 7), (1, 9), (1, 10), (1, 12), (2, 6), (2, 9), (3, 6)]
    if tier != 'quick':
        tab += [(1, 8), (1, 11), (1, 13), (1, 14), (2, 7), (2, 8), (2, 10), (3, 7)]
    return tab


def check_nd(ctx, N, d):
    """returns failure string or None"""
    J = ei.generate_multi_indices(N, d)
    mJ = ctx.model.ask({'op': 'interp', 'what': 'multi_indices', 'N': N, 'd': d})['r']
    if J.tolist() != mJ:
        return 'multi-indices-%d-%d: generate_multi_indices differs from the model (length %d vs %d)' % (N, d, len(J), len(mJ))
    # the enumeration property itself on the implementation
    want = sorted(t for t in itertools.product(range(d + 1), repeat=N) if sum(t) == d)
    if sorted(map(tuple, J.tolist())) != want:
        return 'multi-indices-%d-%d: not every monomial of degree d exactly once' % (N, d)
    G, rays = ei.generate_Gamma_and_rays(N, d)
    mG = ctx.model.ask({'op': 'interp', 'what': 'Gamma', 'N': N, 'd': d})['r']
    mGf = np.array([[float(F(v)) for v in row] for row in mG])
    ctx.pairs += G.size
    if not close(G, mGf) or np.max(np.abs(G - mGf)) > 1e-7 * np.max(np.abs(mGf)):
        return 'Gamma-%d-%d: generate_Gamma_and_rays differs from the exact model, max diff %s (largest entry %s)' % (
            N, d, maxdiff(G, mGf), float(np.max(np.abs(mGf))))
    if not np.array_equal(rays, J):
        return 'rays-%d-%d: rays differ from the multi-index list' % (N, d)
    # identity with the implementation's own Gamma
    for a in J:
        col = np.array([float(np.prod([float(r[n]) ** int(a[n]) for n in range(N)])) for r in rays])
        lhs = G @ col
        rhs = np.array([1.0 if np.array_equal(i, a) else 0.0 for i in J])
        if not np.allclose(lhs, rhs, atol=1e-8 * max(1.0, np.abs(G).max() * np.abs(col).max())):
            return 'identity-%d-%d: sum_j Gamma[i,j] ray_j^alpha != delta(i,alpha) for alpha=%s' % (N, d, a.tolist())
    return None


def helpers(ctx, N, d):
    J = ei.generate_multi_indices(N, d)
    for i in J[: 6]:
        box = list(itertools.product(*[range(int(c) + 1) for c in i]))
        for k in box[:-1][: 40]:
            got = ei.increment(np.array(i), np.array(k)).tolist()
            m = ctx.model.ask({'op': 'interp', 'what': 'increment', 'i': [int(v) for v in i], 'k': list(map(int, k))})['r']
            ctx.evaluations += 1
            if got != m:
                return 'increment: increment(%s,%s) = %s, model %s' % (i.tolist(), list(k), got, m)
        for j in J[: 4]:
            got = ei.multi_index_binomial(i, j)
            m = float(F(ctx.model.ask({'op': 'interp', 'what': 'binomial', 'i': [str(int(v)) for v in i], 'j': [int(v) for v in j]})['r']))
            ctx.evaluations += 1
            if abs(got - m) > 1e-9 * max(1, abs(m)):
                return 'binomial: multi_index_binomial(%s,%s) = %s, model %s' % (i.tolist(), j.tolist(), got, m)
    # ray^alpha (multi_index_pow) for one multi-index and for the whole stack of multi-indices, multi_index_factorial
    rays = J
    for r in rays[: 4]:
        want = [int(np.prod([int(r[n]) ** int(a[n]) for n in range(N)])) for a in J]
        got1 = [float(ei.multi_index_pow(np.array(r), np.array(a))) for a in J]
        gotS = np.asarray(ei.multi_index_pow(np.array(r), np.array(J)), dtype=float)
        ctx.evaluations += 1
        if gotS.shape != (len(J),) or not np.allclose(got1, want, rtol=1e-12) or not np.allclose(gotS, want, rtol=1e-12):
            return 'multi_index_pow-%d-%d: ray^alpha for the ray %s differs from the exact monomials (one multi-index at a time: %s, stacked: shape %s)' % (
                N, d, r.tolist(), np.allclose(got1, want, rtol=1e-12), gotS.shape)
    for a in J[: 6]:
        wantf = 1
        for k in a:
            wantf *= math.factorial(int(k))
        if int(ei.multi_index_factorial(np.array(a))) != wantf:
            return 'multi_index_factorial: %s! = %s, exact %s' % (a.tolist(), ei.multi_index_factorial(np.array(a)), wantf)
    pos = ei.convert_multi_indices_to_pos(J).tolist()
    mpos = [ctx.model.ask({'op': 'interp', 'what': 'pos', 'i': [int(v) for v in i]})['r'] for i in J]
    if pos != mpos:
        return 'pos: convert_multi_indices_to_pos differs from the model'
    # ... and on the same multi-indices in another row order / a selection of rows (every row is a multi-index of degree d):
    # row m of the result is the position list of row m
    if len(J) > 1:
        for lab, rows in (('reversed', list(range(len(J)))[::-1]), ('rotated', list(range(1, len(J))) + [0]), ('last rows only', list(range(len(J) // 2, len(J))))):
            try:
                pr = ei.convert_multi_indices_to_pos(np.array(J)[rows]).tolist()
            except Exception as ex:
                return 'pos-row-order: convert_multi_indices_to_pos raised %s for the multi-indices of (%d, %d) in the order "%s"' % (type(ex).__name__, N, d, lab)
            if pr != [mpos[k] for k in rows]:
                return 'pos-row-order: convert_multi_indices_to_pos differs from the model for the multi-indices of (%d, %d) in the order "%s"' % (N, d, lab)
    return None


def replay_case(ctx, case):
    ctx.pairs = 0
    if case.get('reconstruct'):
        return reconstruct_fails(case['N'], case['d']) or reconstruct_fails(case['N'], case['d'], 'bool') or reconstruct_fails(case['N'], case['d'], 'int32')
    if case.get('cold_start'):
        import importlib
        importlib.reload(ei)
    if case.get('second_request'):
        N, d = case['N'], case['d']
        J = ei.generate_multi_indices(N, d)
        J[...] = (J > 0)
        G, rays = ei.generate_Gamma_and_rays(N, d)
        G[...] = 7.0
        rays[...] = 0
    return check_nd(ctx, case['N'], case['d']) or helpers(ctx, case['N'], case['d'])


def reconstruct_fails(N, d, kind='float'):
    """the consequence the property states: Gamma times the d-th Taylor coefficients along the rays gives the partial
    derivatives divided by the multi-index factorial -- for every monomial of degree d (exact integer data), and the full
    derivative array holds each of them at EVERY permutation of its index tuple"""
    import itertools
    mi = ei.generate_multi_indices(N, d)
    x0 = np.arange(1, N + 1, dtype=float) * 0.5
    if kind != 'float':
        # the point given in an integer / boolean type: the rays written into the seed must still be the generated ray set
        x0 = (np.arange(1, N + 1) % 2).astype(kind)
    for a_i, alpha in enumerate(mi):
        def f(x):
            t = 1.0
            for n in range(N):
                for _ in range(int(alpha[n])):
                    t = t * x[n]
            return t + 0 * x[0]
        y = f(UTPM.init_tensor(d, x0))
        vec = np.asarray(UTPM.extract_tensor(N, y, as_full_matrix=False), dtype=float).ravel()
        want = np.zeros(len(mi))
        want[a_i] = 1.0                                            # d^alpha x^alpha / alpha! = 1, every other d-th order partial vanishes
        if vec.shape != want.shape or not np.allclose(vec, want, atol=1e-8):
            return 'reconstruct-N%d-d%d: Gamma times the Taylor coefficients of the monomial x^%s is not the unit vector' % (N, d, alpha.tolist())
        full = np.asarray(UTPM.extract_tensor(N, y, as_full_matrix=True), dtype=float)
        fact = math.prod(math.factorial(int(a)) for a in alpha)
        pos = [n for n in range(N) for _ in range(int(alpha[n]))]
        wantf = np.zeros((N,) * d)
        for perm in set(itertools.permutations(pos)):
            wantf[perm] = fact
        if full.shape != wantf.shape or not np.allclose(full, wantf, atol=1e-7):
            return 'reconstruct-full-N%d-d%d: the derivative array of the monomial x^%s does not hold d^alpha f = %d at every permutation of the index tuple' % (
                N, d, alpha.tolist(), fact)
    return None


def run(ctx):
    ctx.pairs = 0
    ctx.exhaustive = True
    for (N, d) in table(ctx.tier):
        case = {'N': N, 'd': d}
        ctx.evaluations += 1
        ctx.count('N=%d' % N, 'd=%d' % d)
        if N >= 2 and d >= 2:
            ctx.nontrivial += 1
        if len(ctx.samples) < 3 and N >= 2 and d >= 2:
            ctx.samples.append(case)
        f = check_nd(ctx, N, d) or helpers(ctx, N, d)
        if f:
            ctx.report(case, 'failure', f)
            continue
        # the results are the caller's to keep: overwriting the returned arrays, and asking for other (N', d') in between,
        # must not change what the next request for (N, d) returns
        J = ei.generate_multi_indices(N, d)
        J[...] = (J > 0)
        G, rays = ei.generate_Gamma_and_rays(N, d)
        G[...] = 7.0
        rays[...] = 0
        ei.generate_Gamma_and_rays(max(1, N - 1), d + 1)
        ei.generate_multi_indices(N + 1, max(1, d - 1))
        f = check_nd(ctx, N, d)
        if f:
            ctx.report(dict(case, second_request=True), 'failure', 'after-mutation-' + f)
    for (N, d) in [(2, 2), (2, 3), (3, 2), (3, 3), (2, 4), (4, 3)][:6 if ctx.tier != 'quick' else 5]:
        ctx.evaluations += 1
        ctx.count('reconstruct')
        try:
            f = reconstruct_fails(N, d) or reconstruct_fails(N, d, 'bool') or reconstruct_fails(N, d, 'int32')
        except Exception as ex:
            f = 'reconstruct-exception-N%d-d%d: %s' % (N, d, type(ex).__name__ + ':' + str(ex)[:80])
        if f:
            ctx.report({'N': N, 'd': d, 'reconstruct': True}, 'failure', f)
    # cold start: module-level state as in a fresh process (reload), then (N, d) requested first thing, in descending and
    # shuffled order of d -- a memo table must not depend on which degrees were asked for before
    import importlib
    tab = [(N, d) for (N, d) in table(ctx.tier) if d >= 2]
    order = sorted(tab, key=lambda t: (-t[1], t[0]))
    shuffled = list(tab)
    ctx.rng.shuffle(shuffled)
    for (N, d) in order[:len(order) if ctx.tier != 'quick' else 12] + shuffled[:len(shuffled) if ctx.tier != 'quick' else 12]:
        importlib.reload(ei)
        ctx.evaluations += 1
        ctx.count('cold-start')
        f = check_nd(ctx, N, d)
        if f:
            ctx.report({'N': N, 'd': d, 'cold_start': True}, 'failure', 'cold-start-' + f)
    importlib.reload(ei)
    ctx.dist['gamma_pairs_compared'] = ctx.pairs
