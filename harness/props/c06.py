"""C06 — results are independent of call history.

Oracle on the implementation: a random history of calls on one recorded graph
   forward evaluation at (point, D, P, kind) | reverse sweep with a seed | any driver call |
   recording and evaluating a second graph
is executed; the expected result of every call is computed from its arguments alone on a FRESH
graph (recorded anew, at the call's own point where that is possible) and compared.  In particular
several reverse sweeps after one forward evaluation must each return the adjoints of a single sweep,
and node values must be unchanged by a reverse sweep."""
import numpy as np
from common import *
import programs
from programs import gen_program, run_program, trace
from props import c04, c05

RULE = ('cases = (program, recording inputs, history of <= 6 (quick) / 15 (thorough) calls over {pushforward, pullback, drivers, second graph}); '
        'non-trivial = history has >= 3 calls including a pullback that is not the first call after its pushforward; distinct by hash')
ASSUMPTIONS = ['expected results come from a fresh recording of the same program (its correctness is C03/C04/C05)', 'tolerance 1e-10 relative']

KINDS = ['ew', 'ew', 'bin', 'bin', 'binc', 'getitem', 'sum', 'dot', 'prod', 'buffer', 'buffer', 'reshape', 'transpose', 'outer', 'fftfilter', 'tri', 'cplxparts', 'setarr', 'realalias', 'maxmin']


def make_case(rng, tier):
    N = rng.randint(1, 3)
    prog = gen_program(rng, input_shapes=[(N,)], maxsteps=5 if tier == 'quick' else 8, out_scalar=True, kinds=KINDS)
    # make tan appear often: it is a kernel with two outputs sharing work arrays
    if rng.random() < 0.3:
        prog['steps'].append({'op': 'binc', 'fn': 'mul', 'a': prog['out'], 'c': 0.01, 'side': 'r'})
        prog['steps'].append({'op': 'ew', 'fn': 'tan', 'a': programs.nvars(prog) - 1})
        prog['out'] = programs.nvars(prog) - 1
    L = rng.randint(2, 6 if tier == 'quick' else 15)
    hist = []
    for _ in range(L):
        k = rng.choice(['push', 'push', 'pull', 'pull', 'pull', 'pull', 'pull', 'gradient', 'hessian', 'hess_vec', 'jac_vec', 'function', 'other-graph', 'vec_jac'])
        D, P = rng.randint(1, 3), rng.randint(1, 2)
        x = rand_coeffs(rng, (D, P, N), -1, 1)
        x[0] = rand_coeffs(rng, (P, N), -programs.BOX, programs.BOX)
        if rng.random() < 0.5:
            # values with a full mantissa (x + 1 - 1 != x): a kernel that "restores" a stored value only up to rounding shows
            x = x * (1.0 + 2.0 ** -27) + 2.0 ** -31 * np.array([rng.random() for _ in range(x.size)]).reshape(x.shape)
        hist.append({'k': k, 'x': x, 'pt': rand_coeffs(rng, (N,), -programs.BOX, programs.BOX), 'v': rand_coeffs(rng, (N,), -1, 1),
                     'seed': rng.randrange(1 << 30), 'kind': rng.choice(['ut', 'ut', 'nd']),
                     'dt': rng.choice(['float', 'float', 'float', 'int', 'complex'])})
    def step(k, dt, D=1, P=1, kind='nd'):
        x = rand_coeffs(rng, (D, P, N), -1, 1)
        x[0] = rand_coeffs(rng, (P, N), -programs.BOX, programs.BOX)
        return {'k': k, 'x': x, 'pt': rand_coeffs(rng, (N,), -programs.BOX, programs.BOX), 'v': rand_coeffs(rng, (N,), -1, 1),
                'seed': rng.randrange(1 << 30), 'kind': kind, 'dt': dt}
    r_ = rng.random()
    if r_ < 0.2:
        # the same driver at an integer-typed point and then at a float point (same shapes, another dtype of the forward values)
        k_ = rng.choice(['gradient', 'vec_jac', 'hessian'])
        hist = [step(k_, 'int'), step(k_, 'float')] + hist
    elif r_ < 0.35:
        # a real forward + reverse sweep followed by a complex one with the same (D, P)
        D_, P_ = rng.randint(1, 2), rng.randint(1, 2)
        hist = [step('push', 'float', D_, P_, 'ut'), step('pull', 'float', D_, P_, 'ut'), step('push', 'complex', D_, P_, 'ut'),
                step('pull', 'complex', D_, P_, 'ut')] + hist
    return {'prog': prog, 'N': N, 'rec': rand_coeffs(rng, (N,), -programs.BOX, programs.BOX), 'hist': hist}


def seed_for(shape, s):
    yb = np.round(np.random.RandomState(s).uniform(-1, 1, size=shape) * 8) / 8
    yb[yb == 0] = 0.25
    return yb


def conv(a, dt):
    """the call's arguments in another dtype: integer-valued with an integer dtype, or complex"""
    a = np.asarray(a, dtype=float)
    if dt == 'int':
        return np.round(a).astype(int)
    if dt == 'complex':
        return a + 0.25j * a[..., ::-1]
    return a


def fresh_ok(prog, h, k, hx, hpt, call=None):
    """calls with integer or complex arguments are part of the history only when the same call on a fresh graph
    is defined (no exception, finite result)"""
    try:
        with np.errstate(all='ignore'):
            if k in ('push', 'pull'):
                w = c05.val(run_program(prog, [UTPM(hx.copy()) if h['kind'] == 'ut' else hx[0, 0].copy()]))
            elif k == 'function':
                w = np.asarray(run_program(prog, [hpt.copy()]))
            else:
                cg2, fx2, fy2 = trace(prog, [hpt.copy()])
                w = np.asarray(call(cg2))
        return bool(np.all(np.isfinite(w)))
    except Exception:
        return False


def docgraph_fails(order):
    """the graph of the CGraph.gradient docstring (recorded from a Python list, scalar output): every driver answers the same
    whatever was called before (jacobian / vec_jac must not size their seed from what the last evaluation left in the node)"""
    cg = algopy.CGraph()
    x = algopy.Function([3., 7.])
    y = x[0] * x[1]
    cg.trace_off()
    cg.independentFunctionList = [x]
    cg.dependentFunctionList = [y]
    p = np.array([1., 2.])
    want = {'gradient': np.array([2., 1.]), 'jacobian': np.array([[2., 1.]]), 'vec_jac': np.array([4., 2.]), 'function': np.array(2.),
            'jac_vec': np.array(4.)}
    calls = {'gradient': lambda: cg.gradient(p), 'jacobian': lambda: cg.jacobian(p), 'vec_jac': lambda: cg.vec_jac(np.array([2.]), p),
             'function': lambda: cg.function([[1., 2.]])[0], 'jac_vec': lambda: cg.jac_vec(p, np.array([1., 2.]))}
    done = []
    for k in order:
        try:
            got = np.asarray(calls[k](), dtype=float)
        except Exception as ex:
            return 'docgraph-exception: cg.%s raised %s after %s (graph of the gradient docstring, recorded from a list)' % (k, type(ex).__name__, done or ['recording'])
        if got.size != want[k].size or not np.allclose(got.reshape(want[k].shape), want[k]):
            return 'docgraph-%s: returned %s after %s, expected %s' % (k, got.tolist(), done or ['recording'], want[k].tolist())
        done.append(k)
    return None


def inplace_program_fails(order, pt, v):
    """a recorded program that updates its independent variable in place (x[0] = x[0]*x[1]; the householder example of the
    documentation does the same): every driver answers the same whatever was called before, at plain and at Taylor-polynomial
    points -- the value of the closed form f(x) = sum(u*u + sin(u)), u = (x0*x1, x1, ...)"""
    def record():
        cg = algopy.CGraph()
        fx = algopy.Function(np.array([0.5, -1.5, 2.0][:len(pt)]))
        fx[0] = fx[0] * fx[1]
        fz = algopy.sum(fx * fx + algopy.sin(fx))
        cg.trace_off()
        cg.independentFunctionList = [fx]
        cg.dependentFunctionList = [fz]
        return cg
    pt = np.array(pt, dtype=float)
    c0 = np.zeros((2, 2) + pt.shape)
    c0[0] = pt
    c0[1, 0] = v
    c0[1, 1] = v[::-1]
    calls = {'gradient': lambda g: g.gradient(pt.copy()), 'jacobian': lambda g: g.jacobian(pt.copy()),
             'jacobian-utpm': lambda g: g.jacobian(UTPM(c0.copy())).data, 'hess_vec': lambda g: g.hess_vec(pt.copy(), np.array(v)),
             'jacobian-utpm-same-object': None}
    cg = record()
    held = UTPM(c0.copy())                   # one caller-owned polynomial passed again and again
    done = []
    for k in order:
        try:
            if k == 'jacobian-utpm-same-object':
                got = np.array(cg.jacobian(held).data)
                want = np.array(record().jacobian(UTPM(c0.copy())).data)
            else:
                got = np.asarray(calls[k](cg), dtype=float)
                want = np.asarray(calls[k](record()), dtype=float)
        except Exception as ex:
            return 'inplace-program-exception: cg.%s raised %s after %s' % (k, type(ex).__name__, done or ['recording'])
        if got.shape != want.shape or not np.allclose(got, want, rtol=1e-12, atol=1e-13):
            return 'inplace-program-%s: after %s the call differs from the same call on a fresh graph (program updates its independent in place)' % (k, done or ['recording'])
        done.append(k)
    return None


def workarray_fails(case):
    """a work array wrapped by hand (acc = Function(UTPM(zeros)); acc += x; acc += x*x; y = acc*acc -- the idiom of the library's
    own tests and of documentation/examples/covariance_matrix_computation.py): every identical (forward, reverse) pair answers
    the same, y = (p + p^2)^2 and xbar = ybar * 2(p + p^2)(1 + 2p)"""
    D, P = case['D'], case['P']
    x0, pt, yb = np.array(case['rec']), np.array(case['pt']), np.array(case['ybar'])
    cg = algopy.CGraph()
    fx = algopy.Function(UTPM(x0.copy()))
    # (the storage of the work array may be owned by it or be a view of a larger allocation)
    acc = algopy.Function(UTPM(np.zeros((2,) + x0.shape)[0] if case.get('nonowning') else np.zeros(x0.shape)))
    if case['form'] == 'iadd':
        acc += fx
        acc += fx * fx
    elif case['form'] == 'view-iadd':
        lo, hi = acc[:1], acc[1:]                    # the updates go through views of the work array
        lo += fx[:1]
        hi += fx[1:]
        acc += fx * fx
    else:
        acc[...] = acc + fx
        acc[...] = acc + fx * fx
    fy = acc * acc
    cg.trace_off()
    cg.independentFunctionList = [fx]
    cg.dependentFunctionList = [fy]
    p_ = UTPM(pt.copy())
    s_ = p_ + p_ * p_
    want_y = (s_ * s_).data
    want_xbar = (UTPM(yb.copy()) * 2.0 * s_ * (1.0 + 2.0 * p_)).data
    for k in range(case['n']):
        try:
            cg.pushforward([UTPM(pt.copy())])
            y = np.array(fy.x.data)
            cg.pullback([UTPM(yb.copy())])
            xb = np.array(fx.xbar.data)
        except Exception as ex:
            return 'workarray-exception: call %d raised %s' % (k + 1, type(ex).__name__ + ':' + str(ex)[:60])
        if not close(y, want_y, 1e-10):
            return 'workarray-forward: forward evaluation number %d of the same point differs from the program value (max diff %s)' % (k + 1, maxdiff(y, want_y))
        if not close(xb, want_xbar, 1e-10):
            return 'workarray-reverse: reverse sweep number %d with the same seed differs from the adjoint (max diff %s)' % (k + 1, maxdiff(xb, want_xbar))
    return None


def workarray_ndarray_fails(case):
    """the same hand-wrapped work array in a graph recorded and evaluated in plain NumPy arithmetic (Function(ndarray)): every
    call of cg.function over a history of points returns the program value (p + p^2)^2 of ITS point"""
    x0 = np.array(case['rec'], dtype=float)
    cg = algopy.CGraph()
    fx = algopy.Function(x0.copy())
    acc = algopy.Function(np.zeros((2,) + x0.shape)[0] if case.get('nonowning') else np.zeros(x0.shape))
    if case['form'] == 'iadd':
        acc += fx
        acc += fx * fx
    elif case['form'] == 'view-iadd':
        lo, hi = acc[:1], acc[1:]
        lo += fx[:1]
        hi += fx[1:]
        acc += fx * fx
    else:
        acc[...] = acc + fx
        acc[...] = acc + fx * fx
    fy = acc * acc
    cg.trace_off()
    cg.independentFunctionList = [fx]
    cg.dependentFunctionList = [fy]
    for k, pt in enumerate(case['pts']):
        pt = np.array(pt, dtype=float)
        try:
            y = np.array(cg.function([pt.copy()])[0], dtype=float)
        except Exception as ex:
            return 'workarray-ndarray-exception: call %d raised %s' % (k + 1, type(ex).__name__ + ':' + str(ex)[:60])
        want = (pt + pt * pt) ** 2
        if y.shape != want.shape or not close(y, want, 1e-10):
            return 'workarray-ndarray: call %d of cg.function on a graph recorded with plain arrays differs from the program value at its point (max diff %s)' % (
                k + 1, maxdiff(y, want))
    return None


def graph_deepcopy_fails(case):
    """copy.deepcopy of a recorded graph is a graph of the same program: evaluations of the copy and of the original, in any
    interleaving, return the values and gradients of f(x) = sum(x*x) + x[0]*x[1] at THEIR points"""
    import copy
    f = lambda z: float(np.sum(z * z) + z[0] * z[1])
    g = lambda z: 2 * z + np.array([z[1], z[0]] + [0.0] * (z.size - 2))
    cg = algopy.CGraph()
    fx = algopy.Function(np.array(case['rec'], dtype=float))
    fy = algopy.sum(fx * fx) + fx[0] * fx[1]
    cg.trace_off()
    cg.independentFunctionList = [fx]
    cg.dependentFunctionList = [fy]
    try:
        cg2 = copy.deepcopy(cg)
        graphs = {'original': cg, 'copy': cg2}
        for k, (which, pt) in enumerate(case['calls']):
            pt = np.array(pt, dtype=float)
            y = float(np.asarray(graphs[which].function([pt.copy()])[0]))
            if not np.isclose(y, f(pt), rtol=1e-12, atol=1e-13):
                return 'graph-deepcopy-value: call %d (cg.function on the %s) returned %r, the program value is %r' % (k + 1, which, y, f(pt))
            gr = np.asarray(graphs[which].gradient(pt.copy()), dtype=float)
            if gr.shape != pt.shape or not np.allclose(gr, g(pt), rtol=1e-12, atol=1e-13):
                return 'graph-deepcopy-gradient: call %d (cg.gradient on the %s) differs from the gradient of the program' % (k + 1, which)
    except Exception as ex:
        return 'graph-deepcopy-exception: %s' % (type(ex).__name__ + ':' + str(ex)[:80])
    return None


def graph_deepcopy_sweep_fails(case):
    """copy.deepcopy of an EVALUATED graph with view nodes (x[0], A.T): a reverse sweep on the copy -- without a forward evaluation
    of the copy first -- returns what the same sweep returns on the original"""
    import copy
    x1 = np.array(case['x1'], dtype=float)
    W = np.array(case['W'], dtype=float)
    for prog in ('getitem', 'transpose'):
        cg = algopy.CGraph()
        if prog == 'getitem':
            fx = algopy.Function(UTPM(np.array(case['rec'], dtype=float).reshape(1, 1, 3)))
            fy = fx[0] * algopy.sum(fx * fx)
            pt = UTPM(x1.reshape(1, 1, 3).copy())
        else:
            fx = algopy.Function(UTPM(np.array(case['rec'] * 2, dtype=float).reshape(1, 1, 2, 3)))
            fy = algopy.sum(fx.T * W)
            pt = UTPM(np.concatenate([x1, x1 * 0.5]).reshape(1, 1, 2, 3).copy())
        cg.trace_off()
        cg.independentFunctionList = [fx]
        cg.dependentFunctionList = [fy]
        try:
            cg.pushforward([pt])
            cg.pullback([UTPM(np.ones((1, 1)))])
            want = np.array(fx.xbar.data)
            cg2 = copy.deepcopy(cg)
            cg2.pullback([UTPM(np.ones((1, 1)))])
            got = np.array(cg2.independentFunctionList[0].xbar.data)
        except Exception as ex:
            return 'graph-deepcopy-sweep-exception: %s' % (type(ex).__name__ + ':' + str(ex)[:80])
        if got.shape != want.shape or not np.allclose(got, want, rtol=1e-12, atol=1e-13):
            return 'graph-deepcopy-sweep: the reverse sweep on a deep copy of an evaluated graph (%s view node) gives %s, the original %s' % (
                prog, got.ravel().tolist()[:6], want.ravel().tolist()[:6])
    return None


def graph_deepcopy_workarray_fails(case):
    """a graph with a hand-wrapped work array, evaluated forward at x1, deep-copied, the COPY evaluated at x2: a reverse sweep on
    the original (no new forward evaluation) still answers for x1 -- the copy has its own work array"""
    import copy
    x1, x2 = np.array(case['x1'], dtype=float), np.array(case['x2'], dtype=float)
    f = lambda z: float((z[0] * z[1]) ** 2 + np.sin(z[0]) ** 2)
    g = lambda z: np.array([2 * z[0] * z[1] ** 2 + 2 * np.sin(z[0]) * np.cos(z[0]), 2 * z[0] ** 2 * z[1]])
    mk = lambda z: UTPM(z.reshape(1, 1, 2).copy())
    cg = algopy.CGraph()
    fx = algopy.Function(mk(np.array(case['rec'], dtype=float)))
    acc = algopy.Function(UTPM(np.zeros((1, 1, 2))))
    acc[0] = fx[0] * fx[1]
    acc[1] = algopy.sin(fx[0])
    fy = algopy.sum(acc * acc)
    cg.trace_off()
    cg.independentFunctionList = [fx]
    cg.dependentFunctionList = [fy]
    try:
        cg.pushforward([mk(x1)])
        cg2 = copy.deepcopy(cg)
        y2 = float(cg2.function([mk(x2)])[0].data.ravel()[0])
        cg.pullback([UTPM(np.ones((1, 1)))])
        gb = np.array(fx.xbar.data).ravel()
        g2 = np.asarray(cg2.gradient(x2.copy()), dtype=float).ravel()
    except Exception as ex:
        return 'graph-deepcopy-workarray-exception: %s' % (type(ex).__name__ + ':' + str(ex)[:80])
    if not np.isclose(y2, f(x2), rtol=1e-12, atol=1e-13) or not np.allclose(g2, g(x2), rtol=1e-12, atol=1e-13):
        return 'graph-deepcopy-workarray-copy: the copy of a graph with a work array does not evaluate / differentiate its program'
    if not np.allclose(gb, g(x1), rtol=1e-12, atol=1e-13):
        return ('graph-deepcopy-workarray: after an evaluation of the deep COPY at another point the reverse sweep of the original answers %s, '
                'its own evaluation point gives %s (the copy shares the work array)') % (gb.tolist(), g(x1).tolist())
    return None


def workarray_results_fail(case):
    """the dependent variable IS a work array wrapped by hand (F(x) = (x0 x1, x1 x2, x2 x0) written entry by entry): what a call
    returned stays what it was when later calls are made (results are values, not windows into the graph's storage)"""
    pts = [np.array(p_) for p_ in case['pts']]
    cg = algopy.CGraph()
    fx = algopy.Function(UTPM(np.array(case['rec']).reshape(1, 1, 3)))
    fy = algopy.Function(UTPM(np.zeros((1, 1, 3))))
    for i in range(3):
        fy[i] = fx[i] * fx[(i + 1) % 3]
    cg.trace_off()
    cg.independentFunctionList = [fx]
    cg.dependentFunctionList = [fy]
    F = lambda p_: np.array([p_[0] * p_[1], p_[1] * p_[2], p_[2] * p_[0]])
    try:
        held = [cg.function([UTPM(p_.reshape(1, 1, 3).copy())])[0] for p_ in pts]
        for k, (h, p_) in enumerate(zip(held, pts)):
            if not close(np.asarray(h.data).ravel(), F(p_), 1e-12):
                return 'workarray-result-changed: the value returned by call %d of cg.function changed when later calls were made' % (k + 1)
    except Exception as ex:
        return 'workarray-results-exception: %s' % (type(ex).__name__ + ':' + str(ex)[:60])
    return None


def workarray_model_mismatch(ctx, case):
    """the sequence of values of a graph with a hand-wrapped accumulator (cells: 0 = acc, 1 = x, 2 = x*x; writes acc += x,
    acc += x*x; output acc) over a history of evaluations, against the executable model `accHistory` with the undo step"""
    from fractions import Fraction
    rec, calls = case['rec'], case['calls']
    cg = algopy.CGraph()
    fx = algopy.Function(np.array([float(rec)]))
    acc = algopy.Function(np.zeros(1))
    acc += fx
    acc += fx * fx
    cg.trace_off()
    cg.independentFunctionList = [fx]
    cg.dependentFunctionList = [acc]
    got = []
    for c in calls:
        got.append(float(np.asarray(cg.function([np.array([float(c)])])[0]).ravel()[0]))
    fr = lambda v: str(Fraction(v))
    m = ctx.model.ask({'op': 'workarray', 'undo': True, 'ws': [[0, 1], [0, 2]], 'h0': ['0', '0', '0'], 'rec': [[1, fr(rec)], [2, fr(rec * rec)]],
                       'calls': [[[1, fr(c)], [2, fr(c * c)]] for c in calls], 'out': 0})['r']
    want = [float(Fraction(v)) for v in m]
    if not np.allclose(got, want, rtol=1e-12, atol=1e-13):
        return 'workarray-model: the values over the history %s are %s, the model of the evaluation with undo gives %s' % (calls, got, want)
    return None


def history_fails(case):
    prog, N = case['prog'], case['N']
    try:
        with np.errstate(all='ignore'):
            cg, fx, fy = trace(prog, [np.array(case['rec'])])
    except Exception:
        return None
    last_push = None      # inputs of the last forward evaluation (what a pullback refers to)
    held = {}             # input objects handed over before (reused, refilled in place, by later calls of the same kind)
    for step, h in enumerate(case['hist']):
        k = h['k']
        dt = h.get('dt', 'float')
        hx = conv(h['x'], dt)
        hpt = conv(h['pt'], dt if dt != 'complex' else 'float')
        drv = None
        if k in ('gradient', 'hessian', 'hess_vec', 'jac_vec', 'vec_jac'):
            v_ = np.array(h['v'])
            drv = {'gradient': lambda g: g.gradient(hpt), 'hessian': lambda g: g.hessian(hpt), 'hess_vec': lambda g: g.hess_vec(hpt, v_),
                   'jac_vec': lambda g: g.jac_vec(hpt, v_), 'vec_jac': lambda g: g.vec_jac(np.array([1.5]), hpt)}[k]
        if dt != 'float' and not (k == 'pull' and last_push is not None) and k != 'other-graph':
            if not fresh_ok(prog, h, k, hx, hpt, drv):
                continue
        try:
            with np.errstate(all='ignore'):
                if k == 'push' or (k == 'pull' and last_push is None):
                    xin = UTPM(hx.copy()) if h['kind'] == 'ut' else hx[0, 0].copy()
                    # the caller may hand over the very same object again, refilled in place with the new point
                    key = 'push-' + h['kind']
                    old_in = held.get(key)
                    old_arr = old_in.data if isinstance(old_in, UTPM) else old_in
                    new_arr = xin.data if isinstance(xin, UTPM) else xin
                    if h.get('reuse', True) and old_arr is not None and old_arr.shape == new_arr.shape and old_arr.dtype == new_arr.dtype:
                        old_arr[...] = new_arr
                        xin = old_in
                    held[key] = xin
                    cg.pushforward([xin])
                    got = c05.val(cg.dependentFunctionList[0].x)
                    want = c05.val(run_program(prog, [UTPM(hx.copy()) if h['kind'] == 'ut' else hx[0, 0].copy()]))
                    last_push = dict(h, x=hx) if h['kind'] == 'ut' else None
                    name = 'pushforward'
                elif k == 'pull':
                    xs = np.array(last_push['x'])
                    if last_push.get('dt', 'float') != 'float':
                        # a reverse sweep after an integer/complex forward evaluation belongs to the history only if it is defined on a fresh graph
                        try:
                            cgf, fxf, fyf = trace(prog, [UTPM(xs.copy())])
                            cgf.pullback([UTPM(seed_for(fyf.x.data.shape, h['seed']))])
                            if not np.all(np.isfinite(fxf[0].xbar.data)):
                                continue
                        except Exception:
                            continue
                    snap = [c05.val(f.x).copy() if isinstance(f.x, (UTPM, np.ndarray)) else None for f in cg.functionList]
                    yb = seed_for(cg.dependentFunctionList[0].x.data.shape, h['seed'])
                    cg.pullback([UTPM(yb.copy())])
                    got = np.array(cg.independentFunctionList[0].xbar.data)
                    for f, s0 in zip(cg.functionList, snap):
                        if s0 is not None and isinstance(f.x, (UTPM, np.ndarray)):
                            now = c05.val(f.x)
                            if now.shape != s0.shape or not np.array_equal(now, s0):
                                return 'pullback-mutates-values: node %d (%s) has a different forward value after cg.pullback' % (f.ID, f.func.__name__)
                    cg2, fx2, fy2 = trace(prog, [UTPM(xs.copy())])
                    cg2.pullback([UTPM(yb.copy())])
                    want = np.array(fx2[0].xbar.data)
                    name = 'pullback'
                elif k == 'function':
                    pin = hpt.copy()
                    old_arr = held.get('function')
                    if h.get('reuse', True) and old_arr is not None and old_arr.shape == pin.shape and old_arr.dtype == pin.dtype:
                        old_arr[...] = pin
                        pin = old_arr
                    held['function'] = pin
                    got = np.asarray(cg.function([pin])[0])
                    want = np.asarray(run_program(prog, [hpt.copy()]))
                    last_push = None
                    name = 'function'
                elif k == 'other-graph':
                    p2 = gen_program(np.random.RandomState(h['seed']) and __import__('random').Random(h['seed']), maxsteps=3, kinds=['ew', 'bin', 'sum'])
                    cgo, fxo, fyo = trace(p2, [rand_coeffs(__import__('random').Random(h['seed']), tuple(s), -1, 1) for s in p2['inputs']])
                    cgo.function([rand_coeffs(__import__('random').Random(h['seed'] + 1), tuple(s), -1, 1) for s in p2['inputs']])
                    continue
                else:
                    pt, call = hpt, drv
                    got = np.asarray(call(cg))
                    cg2, fx2, fy2 = trace(prog, [pt.copy()])
                    want = np.asarray(call(cg2))
                    last_push = None
                    name = k
        except Exception as ex:
            msg = str(ex).strip().splitlines()
            return 'exception-%s: call %d of the history (%s) raised %s' % (k, step, k, (msg[-1] if msg else type(ex).__name__)[:120])
        if got.shape != want.shape:
            return 'history-%s: call %d returned shape %s, a fresh graph gives %s' % (name, step, got.shape, want.shape)
        if not close(got, want, 1e-10):
            prev = [hh['k'] for hh in case['hist'][:step]]
            return 'history-%s: call %d (%s) after %s differs from the same call on a fresh graph (max diff %s)' % (
                name, step, name, prev, maxdiff(got, want))
    return None


def kernel_cases(rng):
    """one history per differentiable operation: a forward evaluation at generic (full-mantissa) values followed by three
    reverse sweeps — every pullback kernel must leave all forward values bit-identical"""
    from props import c03
    out = []
    for prog in c03.single_op_programs(rng) + c03.single_op_programs(rng):
        if len(prog['inputs']) != 1 or len(prog['inputs'][0]) != 1:
            continue
        N = prog['inputs'][0][0]
        D, P = rng.randint(2, 3), 2
        x = rand_coeffs(rng, (D, P, N), -1, 1)
        x[0] = rand_coeffs(rng, (P, N), -programs.BOX, programs.BOX)
        x = x * (1.0 + 2.0 ** -27) + 2.0 ** -31 * np.array([rng.random() for _ in range(x.size)]).reshape(x.shape)
        hist = [{'k': 'push', 'x': x, 'pt': x[0, 0], 'v': x[0, 0], 'seed': rng.randrange(1 << 30), 'kind': 'ut', 'dt': 'float'}]
        for _ in range(3):
            hist.append({'k': 'pull', 'x': x, 'pt': x[0, 0], 'v': x[0, 0], 'seed': rng.randrange(1 << 30), 'kind': 'ut', 'dt': 'float'})
        out.append({'prog': prog, 'N': N, 'rec': rand_coeffs(rng, (N,), -programs.BOX, programs.BOX), 'hist': hist})
    return out


def nontrivial(case):
    ks = [h['k'] for h in case['hist']]
    return len(ks) >= 3 and any(ks[i] == 'pull' and ks[i - 1] in ('pull',) for i in range(1, len(ks)))


def replay_case(ctx, case):
    if case.get('op') == 'svd-rankdef':
        import revchecks as _rc
        return _rc.svd_rankdef_sweeps_fail(case)
    if 'docgraph' in case:
        return docgraph_fails(case['docgraph'])
    if 'inplace_program' in case:
        return inplace_program_fails(case['inplace_program'], case['pt'], case['v'])
    if case.get('op') == 'workarray':
        return workarray_fails(case)
    if case.get('op') == 'workarray-results':
        return workarray_results_fail(case)
    if case.get('op') == 'workarray-ndarray':
        return workarray_ndarray_fails(case)
    if case.get('op') == 'graph-deepcopy':
        return graph_deepcopy_fails(case)
    if case.get('op') == 'graph-deepcopy-workarray':
        return graph_deepcopy_workarray_fails(case)
    if case.get('op') == 'graph-deepcopy-sweep':
        return graph_deepcopy_sweep_fails(case)
    if case.get('op') == 'workarray-model':
        return workarray_model_mismatch(ctx, case)
    return history_fails(case)


def run(ctx):
    rng = ctx.rng
    names = ['gradient', 'jacobian', 'vec_jac', 'function', 'jac_vec']
    for i in range(20 if ctx.tier == 'quick' else 120):
        order = [rng.choice(names) for _ in range(rng.randint(1, 5))]
        ctx.evaluations += 1
        ctx.count('docgraph-history')
        f = docgraph_fails(order)
        if f:
            ctx.report({'docgraph': order}, 'failure', f)
    for form in ('iadd', 'setitem', 'view-iadd'):
        for D_, P_ in ((1, 1), (2, 2)):
            case = {'op': 'workarray', 'form': form, 'nonowning': (D_ == 2), 'D': D_, 'P': P_, 'n': 3, 'rec': rand_coeffs(rng, (D_, P_, 3), -2, 2),
                    'pt': rand_coeffs(rng, (D_, P_, 3), -2, 2), 'ybar': rand_coeffs(rng, (D_, P_, 3), -1, 1) + 0.125}
            ctx.evaluations += 1
            ctx.count('hand-wrapped-work-array')
            f = workarray_fails(case)
            if f:
                ctx.report(case, 'failure', f)
    for form in ('iadd', 'setitem', 'view-iadd'):
        for nonowning in (False, True):
            pts = [rand_coeffs(rng, (3,), -2, 2) for _ in range(3)]
            case = {'op': 'workarray-ndarray', 'form': form, 'nonowning': nonowning, 'rec': rand_coeffs(rng, (3,), -2, 2), 'pts': pts + [pts[0]]}
            ctx.evaluations += 1
            ctx.count('hand-wrapped-work-array-ndarray')
            f = workarray_ndarray_fails(case)
            if f:
                ctx.report(case, 'failure', f)
    for i in range(2):
        case = {'op': 'graph-deepcopy-sweep', 'rec': rand_coeffs(rng, (3,), -2, 2).tolist(), 'x1': rand_coeffs(rng, (3,), -2, 2) + 0.125, 'W': rand_coeffs(rng, (3, 2), -2, 2) + 0.125}
        ctx.evaluations += 1
        ctx.count('graph-deepcopy-sweep')
        f = graph_deepcopy_sweep_fails(case)
        if f:
            ctx.report(case, 'failure', f)
    for i in range(2):
        case = {'op': 'graph-deepcopy-workarray', 'rec': rand_coeffs(rng, (2,), -2, 2), 'x1': rand_coeffs(rng, (2,), -2, 2) + 0.125, 'x2': rand_coeffs(rng, (2,), -2, 2) - 0.375}
        ctx.evaluations += 1
        ctx.count('graph-deepcopy-workarray')
        f = graph_deepcopy_workarray_fails(case)
        if f:
            ctx.report(case, 'failure', f)
    for i in range(3):
        case = {'op': 'graph-deepcopy', 'rec': rand_coeffs(rng, (3,), -2, 2),
                'calls': [[rng.choice(['copy', 'original']) if j else 'copy', rand_coeffs(rng, (3,), -2, 2)] for j in range(4)]}
        ctx.evaluations += 1
        ctx.count('graph-deepcopy')
        f = graph_deepcopy_fails(case)
        if f:
            ctx.report(case, 'failure', f)
    for i in range(3):
        case = {'op': 'workarray-results', 'rec': rand_coeffs(rng, (3,), -2, 2), 'pts': [rand_coeffs(rng, (3,), -2, 2) for _ in range(3)]}
        ctx.evaluations += 1
        ctx.count('work-array-results-kept')
        f = workarray_results_fail(case)
        if f:
            ctx.report(case, 'failure', f)
    for i in range(6 if ctx.tier == 'quick' else 60):
        case = {'op': 'workarray-model', 'rec': rng.choice([0.5, -1.5, 2.0]), 'calls': [rng.choice([0.5, -0.25, 1.5, 2.0, -1.0]) for _ in range(rng.randint(2, 5))]}
        ctx.evaluations += 1
        ctx.count('work-array-model-tie')
        f = workarray_model_mismatch(ctx, case)
        if f:
            ctx.report(case, 'disagreement', f)
    import revchecks as _rc
    for _i in range(4):
        case = _rc.svd_rankdef_case(rng)
        ctx.evaluations += 1
        ctx.count('svd-rank-deficient-sweeps')
        f = _rc.svd_rankdef_sweeps_fail(case)
        if f:
            ctx.report(case, 'failure', f)
    names2 = ['gradient', 'jacobian', 'jacobian-utpm', 'hess_vec', 'jacobian-utpm-same-object']
    for i in range(12 if ctx.tier == 'quick' else 120):
        order = (['jacobian-utpm-same-object'] * 3) if i == 0 else [rng.choice(names2) for _ in range(rng.randint(2, 5))]
        n_ = rng.choice([2, 3])
        case = {'inplace_program': order, 'pt': rand_coeffs(rng, (n_,), -2, 2), 'v': rand_coeffs(rng, (n_,), -1, 1)}
        ctx.evaluations += 1
        ctx.count('inplace-program-history')
        f = inplace_program_fails(order, case['pt'], case['v'])
        if f:
            ctx.report(case, 'failure', f)
    for case in kernel_cases(rng):
        ctx.evaluations += 1
        ctx.count('kernel-history')
        hh = canon_hash(to_jsonable(case))
        if hh not in ctx.hashes:
            ctx.hashes.add(hh)
            ctx.nontrivial += 1
        f = history_fails(case)
        if f:
            ctx.report(case, 'failure', f)
    for i in range(400 if ctx.tier == 'quick' else 4000):
        case = make_case(rng, ctx.tier)
        ctx.evaluations += 1
        for o in programs.ops_used(case['prog']):
            ctx.count('op=' + o.split(':')[0])
        for h in case['hist']:
            ctx.count('call=' + h['k'])
        ctx.count('len=%d' % len(case['hist']))
        hh = canon_hash(to_jsonable(case))
        if hh not in ctx.hashes:
            ctx.hashes.add(hh)
            if nontrivial(case):
                ctx.nontrivial += 1
        if len(ctx.samples) < 2 and nontrivial(case):
            ctx.samples.append(to_jsonable(case))
        f = history_fails(case)
        if f:
            ctx.report(case, 'failure', f)
