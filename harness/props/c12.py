"""C12 — low-order coefficients do not depend on the truncation degree.

(1) property oracle on the implementation: op(x)[:D'] == op(x[:D']) for every D' < D, for every
    registered public operation (ops.py);
(2) correspondence of the kernels the theorems are about (element-wise recurrences and
    arithmetic) with the Lean model, at D and at a truncation D'."""
import numpy as np
import algopy
from algopy import UTPM
from common import *
import ops
from props import c01
import revchecks

RULE = ('cases = (operation, D, P, shapes, coefficients) from ops.py generators; every D\' in 1..D-1 re-evaluated on '
        'truncated inputs; non-trivial = D>=2 and some non-zero higher input coefficient; distinct by case hash')
ASSUMPTIONS = ['two runs of the implementation are compared with tolerance 1e-10 relative (NumPy may sum in a different order)',
               'eigh with repeated eigenvalues (D-dependent deflation) is exercised only in the thorough tier']

SKIP = set()


def truncation_fails(case):
    st, full = ops.call(case)
    if st != 'ok':
        return None  # other properties judge exceptions
    D = case['D']
    for Dp in range(1, D):
        sub = ops.map_U(case, lambda v: v[:Dp])
        sub['D'] = Dp
        st2, part = ops.call(sub)
        if st2 != 'ok':
            return 'truncation-%s: raises %s with D\'=%d but not with D=%d' % (case['op'], part, Dp, D)
        for i, (a, b) in enumerate(zip(full, part)):
            if not isinstance(a, np.ndarray):
                continue
            a = np.asarray(a)
            b = np.asarray(b)
            if a.ndim < 2 or b.ndim < 2 or a.shape[0] != D:
                continue
            if not close(a[:Dp], b, tol=1e-10):
                return 'truncation-%s: output %d computed with D=%d differs in its first %d coefficients from the result with D\'=%d (max diff %s)' % (
                    case['op'], i, D, Dp, Dp, maxdiff(a[:Dp], b))
    return None


def branch_fails(case):
    """a data-dependent branch `u = x*y if x <cmp> y else x-y` takes the same path, and gives the same low-order
    coefficients, whatever the number of coefficients carried"""
    from props import c10
    f = c10.CMP[case['cmp']]
    x, y = np.array(case['x']), np.array(case['y'])
    D = case['D']

    def prog(xd, yd):
        a, b = UTPM(xd.copy()), UTPM(yd.copy())
        if case['mode'] == 'scalar':
            t = bool(f(a, case['scalar']))
        else:
            t = bool(f(a, b))
        return t, (a * b if t else a - b).data
    try:
        t_full, u_full = prog(x, y)
    except Exception:
        return None            # operands that cannot be compared / combined: judged by C10, not a truncation question
    for Dp in range(1, D):
        t, u = prog(x[:Dp], y[:Dp])
        if t != t_full:
            return 'truncation-branch-%s: the comparison is %s with D=%d but %s with D\'=%d' % (case['cmp'], t_full, D, t, Dp)
        if not np.array_equal(u_full[:Dp], u, equal_nan=True) and not close(u_full[:Dp], u, 1e-12):
            return 'truncation-branch-%s: the branch result differs in its first %d coefficients' % (case['cmp'], Dp)
    return None


def driver_more_coefficients_fails(case):
    """the forward drivers read fixed orders (Jacobian, J v: order 1; Hessian, H v: order 2): evaluating the seeded polynomial with
    MORE coefficients (the seed padded with vanishing higher orders) never changes the derivatives already obtained"""
    x0, v = np.array(case['x']), np.array(case['v'])
    N = x0.size
    f = lambda x: algopy.sin(x[0]) * x[1] + x[0] * x[1] * x[N - 1] + algopy.exp(x[N - 1] * 0.5) * x[0] * x[0]
    for nm, init, ext in (('jacobian', lambda: UTPM.init_jacobian(x0), lambda y: UTPM.extract_jacobian(y)),
                          ('jac_vec', lambda: UTPM.init_jac_vec(x0, v), lambda y: UTPM.extract_jac_vec(y)),
                          ('hessian', lambda: UTPM.init_hessian(x0), lambda y: UTPM.extract_hessian(N, y)),
                          ('hess_vec', lambda: UTPM.init_hess_vec(x0, v), lambda y: UTPM.extract_hess_vec(N, y))):
        seed = init()
        want = np.array(ext(f(seed)))
        for extra in (1, 2):
            padded = UTPM(np.concatenate([seed.data, np.zeros((extra,) + seed.data.shape[1:])], axis=0))
            try:
                got = np.array(ext(f(padded)))
            except Exception as ex:
                return 'driver-more-coefficients-exception: extract_%s of a result with %d more coefficient(s) raised %s' % (nm, extra, type(ex).__name__)
            if got.shape != want.shape or not np.allclose(got, want, rtol=1e-13, atol=1e-14):
                return 'driver-more-coefficients: extract_%s of the program evaluated with %d more coefficient(s) differs from the result with the seeded degree (max diff %s)' % (
                    nm, extra, maxdiff(got, want))
    return None


def run_case(ctx, case):
    if case.get('op') == 'driver-more-coefficients':
        return driver_more_coefficients_fails(case)
    if case.get('op') == 'cmp':
        return branch_fails(case)
    if 'prog' in case:
        return revchecks.truncation_adjoint_fails(case)
    if case.get('rev'):
        return revchecks.op_truncation_adjoint_fails(case)
    if 'fn' in case:       # a C01-style kernel case
        return c01.run_case(ctx, case)
    return truncation_fails(case)


def run(ctx):
    for N_ in (2, 3):
        case = {'op': 'driver-more-coefficients', 'x': rand_coeffs(ctx.rng, (N_,), -1, 1), 'v': rand_coeffs(ctx.rng, (N_,), -1, 1)}
        ctx.evaluations += 1
        ctx.count('driver-more-coefficients')
        f_ = driver_more_coefficients_fails(case)
        if f_:
            ctx.report(case, 'failure', f_)
    names = sorted(n for n in ops.OPS if 'no-trunc' not in ops.OPS[n]['tags'])
    n = len(names) * (6 if ctx.tier == 'quick' else 80)
    for i in range(n):
        name = names[i % len(names)]
        case = ops.gen_case(ctx.rng, ctx.tier, name, D=ctx.rng.randint(2, 5 if ctx.tier == 'quick' else 8))
        ctx.evaluations += 1
        ctx.count('op=' + case['op'].split(':')[0], 'D=%d' % case['D'], 'P=%d' % case['P'])
        h = canon_hash(to_jsonable(case))
        if h not in ctx.hashes:
            ctx.hashes.add(h)
            if ops.nontrivial(case):
                ctx.nontrivial += 1
        if len(ctx.samples) < 3 and ops.nontrivial(case):
            ctx.samples.append(to_jsonable(case))
        f = truncation_fails(case)
        if f:
            ctx.report(case, 'failure', f)
    # operations whose code consults a threshold (rank / repeated-eigenvalue decisions): more cases, always with D >= 3, so that
    # a decision that looks at coefficients which a shorter truncation drops is exercised on every run
    for name in [n_ for n_ in names if n_.endswith(':eps') or n_.endswith(':closegap') or n_.endswith(':rankdef')]:
        for k in range(12 if ctx.tier == 'quick' else 60):
            case = ops.gen_case(ctx.rng, ctx.tier, name, D=ctx.rng.randint(3, 5))
            ctx.evaluations += 1
            ctx.count('threshold-op=' + name)
            f = truncation_fails(case)
            if f:
                ctx.report(case, 'failure', f)
    # reverse sweep: low-order adjoint coefficients do not depend on the truncation degree
    for i in range(120 if ctx.tier == 'quick' else 1500):
        case = revchecks.make_case(ctx.rng, ctx.tier, D=ctx.rng.randint(2, 4 if ctx.tier == 'quick' else 6))
        ctx.evaluations += 1
        ctx.count('reverse-sweep')
        h = canon_hash(to_jsonable(case))
        if h not in ctx.hashes:
            ctx.hashes.add(h)
            ctx.nontrivial += 1
        f = revchecks.truncation_adjoint_fails(case)
        if f:
            ctx.report(case, 'failure', f)
    # data-dependent branches on comparisons
    from props import c10
    for i in range(200 if ctx.tier == 'quick' else 3000):
        case = c10.cmp_case(ctx.rng)
        ctx.evaluations += 1
        ctx.count('branch=' + case['cmp'])
        h = canon_hash(to_jsonable(case))
        if h not in ctx.hashes:
            ctx.hashes.add(h)
            if case['D'] >= 2:
                ctx.nontrivial += 1
        f = branch_fails(case)
        if f:
            ctx.report(case, 'failure', f)
    # reverse sweep of single operations
    for name in revchecks.reversible_ops():
        for k in range(3 if ctx.tier == 'quick' else 40):
            case = ops.gen_case(ctx.rng, ctx.tier, name, D=ctx.rng.randint(2, 5))
            case['seed'] = ctx.rng.randrange(1 << 30)
            case['rev'] = True
            ctx.evaluations += 1
            ctx.count('reverse-op')
            h = canon_hash(to_jsonable(case))
            if h not in ctx.hashes:
                ctx.hashes.add(h)
                ctx.nontrivial += 1
            f = revchecks.op_truncation_adjoint_fails(case)
            if f:
                ctx.report(case, 'failure', f)
    # the tie of the kernels the theorems talk about: model vs implementation at D and D'
    m = 120 if ctx.tier == 'quick' else 1500
    for i in range(m):
        case = c01.gen_case(ctx.rng, ctx.tier)
        ctx.evaluations += 1
        ctx.count('kernel=' + case['fn'])
        r = c01.run_case(ctx, case)
        if r:
            ctx.report(case, 'failure', r)
        if case['D'] >= 2:
            Dp = ctx.rng.randint(1, case['D'] - 1)
            sub = dict(case)
            sub['x'] = np.array(case['x'])[:Dp]
            sub['D'] = Dp
            r = c01.run_case(ctx, sub)
            if r:
                ctx.report(sub, 'failure', r)


replay_case = run_case
