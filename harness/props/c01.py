"""C01 — elementary functions return the Taylor coefficients of f(x(t)).

Correspondence: real UTPM method (float64 / complex128) vs the L0 model evaluated in exact
rational arithmetic on the same inputs and the same NumPy/SciPy leaf values.
Oracle (independent of the Lean model, implementation only): Taylor coefficients of the
composite by a Cauchy integral on a small circle (FFT), for analytic f."""
import math
import numpy as np
import scipy.special as sp
from common import *

RULE = ('cases = (function, D, P, shape, coefficients) drawn from one PRNG; x_0 inside the domain of smoothness, '
        'higher coefficients dyadic rationals in [-2,2] with random sparsity, per-direction base points; '
        'non-trivial = D>=2 and some non-zero higher coefficient; distinct by hash of the canonical case')
ASSUMPTIONS = ['NumPy/SciPy leaf values f(x_0) are taken from the same library call the code makes',
               'IEEE rounding: comparison tolerance 1e-9 relative to max(1,|model|)']


def _pg(n, x):
    return sp.polygamma(n, x)


def poch(a, n):
    r = 1.0
    for k in range(n):
        r *= (a + k)
    return r


# name -> dict(call, model, leaves, dom, cplx_ok, cauchy)
def _mk():
    T = {}

    def add(name, call, model, leaves, dom='any', nout=1, out=0, params=lambda c: [], n=lambda c: 0,
            cplx=False, f=None, prm=None):
        T[name] = dict(call=call, model=model, leaves=leaves, dom=dom, nout=nout, out=out, params=params, n=n,
                       cplx=cplx, f=f, prm=prm)

    add('exp', lambda x, c: algopy.exp(x), 'exp', lambda x0, c: [np.exp(x0)], cplx=True, f=np.exp)
    add('log', lambda x, c: algopy.log(x), 'log', lambda x0, c: [np.log(x0)], dom='pos', cplx=True, f=np.log)
    add('sqrt', lambda x, c: algopy.sqrt(x), 'sqrt', lambda x0, c: [np.sqrt(x0)], dom='pos', cplx=True, f=np.sqrt)
    add('expm1', lambda x, c: algopy.expm1(x), 'expm1', lambda x0, c: [np.exp(x0), np.expm1(x0)], f=np.expm1)
    add('log1p', lambda x, c: algopy.log1p(x), 'log1p', lambda x0, c: [np.log1p(x0)], dom='pos', f=np.log1p)
    add('sin', lambda x, c: algopy.sin(x), 'sincos', lambda x0, c: [np.sin(x0), np.cos(x0)], nout=2, out=0, cplx=True, f=np.sin)
    add('cos', lambda x, c: algopy.cos(x), 'sincos', lambda x0, c: [np.sin(x0), np.cos(x0)], nout=2, out=1, cplx=True, f=np.cos)
    add('tan', lambda x, c: algopy.tan(x), 'tansec2', lambda x0, c: [np.tan(x0), 1. / (np.cos(x0) * np.cos(x0))],
        dom='tan', nout=2, out=0, f=np.tan)
    add('arcsin', lambda x, c: algopy.arcsin(x), 'arcsin',
        lambda x0, c: [np.arcsin(x0), np.cos(np.arcsin(x0))], dom='unit', nout=2, out=0, f=np.arcsin)
    add('arccos', lambda x, c: algopy.arccos(x), 'arcsin',
        lambda x0, c: [np.arccos(x0), -np.sin(np.arccos(x0))], dom='unit', nout=2, out=0, f=np.arccos)
    add('arctan', lambda x, c: algopy.arctan(x), 'arctan', lambda x0, c: [np.arctan(x0)], nout=2, out=0, f=np.arctan)
    add('sinh', lambda x, c: algopy.sinh(x), 'sinhcosh', lambda x0, c: [np.sinh(x0), np.cosh(x0)], nout=2, out=0, f=np.sinh)
    add('cosh', lambda x, c: algopy.cosh(x), 'sinhcosh', lambda x0, c: [np.sinh(x0), np.cosh(x0)], nout=2, out=1, f=np.cosh)
    add('tanh', lambda x, c: algopy.tanh(x), 'tanhsech2',
        lambda x0, c: [np.tanh(x0), 1 - np.tanh(x0) * np.tanh(x0)], nout=2, out=0, f=np.tanh)
    # the pair-returning methods (both members, tied to both outputs of the coupled recurrences)
    add('sincos_s', lambda x, c: x.sincos()[0], 'sincos', lambda x0, c: [np.sin(x0), np.cos(x0)], nout=2, out=0, cplx=True, f=np.sin)
    add('sincos_c', lambda x, c: x.sincos()[1], 'sincos', lambda x0, c: [np.sin(x0), np.cos(x0)], nout=2, out=1, cplx=True, f=np.cos)
    add('sinhcosh_s', lambda x, c: x.sinhcosh()[0], 'sinhcosh', lambda x0, c: [np.sinh(x0), np.cosh(x0)], nout=2, out=0, f=np.sinh)
    add('sinhcosh_c', lambda x, c: x.sinhcosh()[1], 'sinhcosh', lambda x0, c: [np.sinh(x0), np.cosh(x0)], nout=2, out=1, f=np.cosh)
    add('tansec2_t', lambda x, c: x.tansec2()[0], 'tansec2', lambda x0, c: [np.tan(x0), 1. / (np.cos(x0) * np.cos(x0))],
        dom='tan', nout=2, out=0, f=np.tan)
    add('tansec2_z', lambda x, c: x.tansec2()[1], 'tansec2', lambda x0, c: [np.tan(x0), 1. / (np.cos(x0) * np.cos(x0))],
        dom='tan', nout=2, out=1, f=lambda z: 1. / (np.cos(z) * np.cos(z)))
    add('reciprocal', lambda x, c: algopy.reciprocal(x), 'recip', lambda x0, c: [], dom='nz', cplx=True, f=lambda z: 1 / z)
    add('square', lambda x, c: algopy.square(x), 'square', lambda x0, c: [], cplx=True, f=lambda z: z * z)
    add('negative', lambda x, c: algopy.negative(x), 'neg', lambda x0, c: [], cplx=True, f=lambda z: -z)
    # powers: python int >= 0 (all x0), python int < 0 and float exponents (x0 > 0)
    add('pow_nat', lambda x, c: x ** (int(c['r']) if int(c['r']) % 2 == 0 else np.int64(c['r'])), 'pownat', lambda x0, c: [], n=lambda c: int(c['r']),
        prm=lambda rng: {'r': rng.choice([0, 1, 2, 3, 4, 5, 5, 8, 16, 17, 21])}, cplx=True, f=None)
    def _ipow(x, r):
        z = UTPM(x.data.copy())         # the in-place form x **= r on a copy of the argument
        z **= r
        return z
    add('ipow_nat', lambda x, c: _ipow(x, int(c['r'])), 'pownat', lambda x0, c: [], n=lambda c: int(c['r']),
        prm=lambda rng: {'r': rng.choice([0, 1, 2, 3, 4, 5, 7, 8])}, cplx=True, f=None)
    add('ipow_real', lambda x, c: _ipow(x, float(c['r'])), 'powreal', lambda x0, c: [x0 ** float(c['r'])], dom='pos',
        params=lambda c: [c['r']], prm=lambda rng: {'r': rng.choice([0.5, 1.5, -0.5, 2.5, -2.0])}, f=None)
    add('pow_negint', lambda x, c: x ** int(c['r']), 'powreal', lambda x0, c: [x0 ** int(c['r'])], dom='pos',
        params=lambda c: [c['r']], prm=lambda rng: {'r': rng.choice([-1, -2, -3])}, f=None)
    add('pow_real', lambda x, c: x ** float(c['r']), 'powreal', lambda x0, c: [x0 ** float(c['r'])], dom='pos',
        params=lambda c: [c['r']], prm=lambda rng: {'r': rng.choice([0.5, 1.5, -0.5, 2.5, 2.0, 3.0, -1.25])}, f=None)
    add('erf', lambda x, c: algopy.special.erf(x), 'erf',
        lambda x0, c: [np.exp(-(x0 * x0)), sp.erf(x0)], params=lambda c: [2. / math.sqrt(math.pi)], f=sp.erf)
    add('erfi', lambda x, c: algopy.special.erfi(x), 'erfi',
        lambda x0, c: [np.exp(x0 * x0), sp.erfi(x0)], params=lambda c: [2. / math.sqrt(math.pi)], dom='small', f=sp.erfi)
    add('dawsn', lambda x, c: algopy.special.dawsn(x), 'dawsn', lambda x0, c: [sp.dawsn(x0)], f=sp.dawsn)
    add('logit', lambda x, c: algopy.special.logit(x), 'logit', lambda x0, c: [sp.logit(x0)], dom='01',
        f=lambda z: np.log(z) - np.log(1 - z))
    add('expit', lambda x, c: algopy.special.expit(x), 'expit', lambda x0, c: [np.exp(x0), sp.expit(x0)],
        f=lambda z: 1 / (1 + np.exp(-z)))
    # Faa di Bruno family: derivative leaves from SciPy directly (independent of algopy.nthderiv)
    add('gammaln', lambda x, c: algopy.special.gammaln(x), 'slowgeneric',
        lambda x0, c: [sp.gammaln(x0)] + [_pg(n - 1, x0) for n in range(1, c['D'])], dom='gamneg', f=sp.loggamma)
    add('psi', lambda x, c: algopy.special.psi(x), 'slowgeneric',
        lambda x0, c: [_pg(n, x0) for n in range(c['D'])], dom='gamneg', f=sp.psi)
    add('polygamma', lambda x, c: algopy.special.polygamma(int(c['m']), x), 'slowgeneric',
        lambda x0, c: [_pg(int(c['m']) + n, x0) for n in range(c['D'])], dom='gamneg',
        prm=lambda rng: {'m': rng.choice([0, 1, 2, 3])}, f=None)
    add('hyperu', lambda x, c: algopy.special.hyperu(c['a'], c['b'], x), 'slowgeneric',
        lambda x0, c: [((-1) ** n) * poch(c['a'], n) * sp.hyperu(c['a'] + n, c['b'] + n, x0) for n in range(c['D'])],
        dom='gam', prm=lambda rng: {'a': rng.choice([0.5, 1.0, 1.5, 2.0, 0.3, 3.7, -0.5, -1.5, -1.3, -2.5, -1.0, -2.0]), 'b': rng.choice([0.5, 1.5, 2.5, -0.5])}, f=None)
    # kink functions, away from the kink
    # (every entry point: the dispatcher, the builtin, the methods; base points of ordinary size and tiny non-zero ones,
    # which are away from the kink as well)
    add('absolute', lambda x, c: algopy.absolute(x), 'absolute', lambda x0, c: [np.sign(x0), np.absolute(x0)], dom='kink')
    add('abs', lambda x, c: abs(x), 'absolute', lambda x0, c: [np.sign(x0), np.absolute(x0)], dom='kink')
    add('abs_method', lambda x, c: x.abs(), 'absolute', lambda x0, c: [np.sign(x0), np.absolute(x0)], dom='kink')
    add('fabs_method', lambda x, c: x.fabs(), 'absolute', lambda x0, c: [np.sign(x0), np.absolute(x0)], dom='kink')
    add('sign', lambda x, c: algopy.sign(x), 'sign', lambda x0, c: [np.sign(x0)], dom='kink')
    add('clip', lambda x, c: UTPM.botched_clip(c['lo'], c['hi'], x), 'clip',
        lambda x0, c: [np.clip(x0, c['lo'], c['hi']),
                       np.logical_and(x0 <= c['hi'], x0 >= c['lo']).astype(float)], dom='clip',
        prm=lambda rng: {'lo': -0.5, 'hi': 0.75})
    # one-sided clipping (numpy.clip(x, None, hi) / numpy.clip(x, lo, None)): the missing bound is infinite
    add('clip_hi_only', lambda x, c: algopy.special.botched_clip(None, c['hi'], x), 'clip',
        lambda x0, c: [np.clip(x0, None, c['hi']), (x0 <= c['hi']).astype(float)], dom='clip', prm=lambda rng: {'lo': -0.5, 'hi': 0.75})
    add('clip_lo_only', lambda x, c: algopy.special.botched_clip(c['lo'], None, x), 'clip',
        lambda x0, c: [np.clip(x0, c['lo'], None), (x0 >= c['lo']).astype(float)], dom='clip', prm=lambda rng: {'lo': -0.5, 'hi': 0.75})
    return T


TABLE = _mk()


def gen_x0(rng, dom, shape, cplx):
    def one():
        if dom == 'any':
            v = dyadic(rng, -2, 2)
        elif dom == 'small':
            v = dyadic(rng, -1, 1)
        elif dom == 'pos':
            v = dyadic(rng, 0.5, 3.0)
        elif dom == 'nz':
            v = rng.choice([-1, 1]) * dyadic(rng, 0.5, 2.0)
        elif dom == 'kink':
            v = rng.choice([-1, 1]) * dyadic(rng, 0.5, 2.0)
            if rng.random() < 0.25:
                v = rng.choice([-1, 1]) * rng.choice([2.0 ** -20, 2.0 ** -30, 1e-9, 2.0 ** -40, 1e-14, 2.0 ** -200])
        elif dom == 'tan':
            v = dyadic(rng, -1.1, 1.1)
        elif dom == 'unit':
            v = dyadic(rng, -0.8, 0.8)
        elif dom == '01':
            v = dyadic(rng, 0.15, 0.85)
        elif dom in ('gam', 'gamneg'):
            v = dyadic(rng, 0.75, 4.0)
            if dom == 'gamneg' and not cplx and rng.random() < 0.25:
                # negative non-integer points: log|Gamma|, psi, polygamma are analytic between the poles
                v = -rng.randint(0, 2) - rng.choice([0.25, 0.375, 0.5, 0.625, 0.75])
        elif dom == 'clip':
            v = rng.choice([dyadic(rng, -2, -0.625), dyadic(rng, -0.375, 0.625), dyadic(rng, 0.875, 2)])
        else:
            raise ValueError(dom)
        if dom in ('any', 'small', 'tan', 'unit') and rng.random() < 0.08:
            return 0.0              # the base point exactly 0 (x**k with k >= 0, erf, sin, … are smooth there)
        if cplx:
            if dom in ('pos',):
                return complex(v, dyadic(rng, -0.5, 0.5))
            if dom == 'nz':
                return complex(v, dyadic(rng, -1, 1))
            return complex(v, dyadic(rng, -1, 1))
        return v
    a = np.empty(shape, dtype=complex if cplx else float)
    flat = a.reshape(-1)
    for i in range(flat.size):
        flat[i] = one()
    return a


def gen_case(rng, tier, name=None, cplx=None):
    name = name or rng.choice(sorted(TABLE))
    e = TABLE[name]
    Dmax = 6 if tier == 'quick' else 9
    D = rng.choice([1, 2, 3, 4, 5, Dmax, Dmax])
    if e['model'] == 'slowgeneric':
        D = min(D, 6)
    P = rng.choice([1, 1, 2, 3])
    shape = rand_shape(rng, 2 if tier == 'quick' else 3, 3)
    cplx = (e['cplx'] and rng.random() < 0.25) if cplx is None else (bool(cplx) and e['cplx'])
    sparse = rng.choice([0.0, 0.0, 0.3, 0.7, 1.0])
    x = rand_coeffs(rng, (D, P) + shape, -1.0, 1.0, sparse=sparse, cplx=cplx)
    if D >= 3 and rng.random() < 0.2:
        # structured sparsity: whole coefficient orders vanish (x(t) = x0 + x2 t^2 + ..., even/odd series) while others do not
        pat = rng.choice(['first', 'odd', 'even', 'random'])
        for d in range(1, D):
            if (pat == 'first' and d == 1) or (pat == 'odd' and d % 2 == 1) or (pat == 'even' and d % 2 == 0) or (pat == 'random' and rng.random() < 0.5):
                x[d] = 0
    x[0] = gen_x0(rng, e['dom'], (P,) + shape, cplx)
    case = {'fn': name, 'D': D, 'P': P, 'shape': list(shape), 'cplx': cplx, 'x': x}
    if e['prm']:
        case.update(e['prm'](rng))
    return case


def run_impl(case):
    e = TABLE[case['fn']]
    x = UTPM(np.array(case['x']))
    before = x.data.copy()
    try:
        y = e['call'](x, case)
    except Exception as ex:
        return ('exc', type(ex).__name__ + ':' + str(ex)[:100])
    if not np.array_equal(before, x.data):
        return ('mutated-input', None)
    return ('ok', np.array(y.data))


def run_model(ctx, case):
    e = TABLE[case['fn']]
    x = np.array(case['x'])
    cplx = bool(case['cplx'])
    leaves = e['leaves'](x[0], case)
    req = {'op': 'ew1', 'fn': e['model'], 'f': 'QI' if cplx else 'Q', 'x': enc_arr(x, cplx),
           'leaves': [enc_arr(np.asarray(l, dtype=complex if cplx else float).reshape(x[0].shape), cplx) for l in leaves],
           'params': [enc_num(p, cplx) for p in e['params'](case)], 'n': int(e['n'](case)), 'nout': e['nout']}
    r = ctx.model.arrs(req)
    if isinstance(r, str):
        return r
    return r[e['out']]


def sing_dist(name, dom, x0):
    """distance from x0 to the nearest singularity of f (lower bound)"""
    a = np.abs(x0)
    if dom == 'pos':
        return np.min(x0 + (1 if name == 'log1p' else 0))
    if dom == 'nz':
        return np.min(a)
    if dom == 'tan':
        return np.min(np.pi / 2 - a)
    if dom == 'unit':
        return np.min(1 - a)
    if dom == '01':
        return np.min(np.minimum(x0, 1 - x0))
    if dom in ('gam', 'gamneg'):
        # poles at 0, -1, -2, ...
        return np.min(np.where(x0 > 0, x0, np.minimum(x0 - np.floor(x0), np.ceil(x0) - x0)))
    if name in ('arctan', 'tanh', 'expit'):
        return 1.0
    return 10.0


def cauchy_oracle(case):
    """Taylor coefficients of f(x(t)) by an FFT on a circle; returns (coefficients, usable orders) or None"""
    e = TABLE[case['fn']]
    f = e['f']
    if f is None:
        return None
    x = np.array(case['x'])
    D = case['D']
    N = 64
    dist = float(sing_dist(case['fn'], e['dom'], x[0].real if np.iscomplexobj(x) else x[0]))
    if np.iscomplexobj(x):
        dist = min(dist, 0.5 * float(np.min(np.abs(x[0]))) if e['dom'] in ('pos', 'nz') else dist)
    tot = float(np.max(np.sum(np.abs(x[1:]), axis=0))) if D > 1 else 0.0
    # |x(t) - x0| <= r * sum_k |x_k| for r <= 1: keep the image of the circle inside half the distance
    r = min(0.25, 0.45 * dist / max(tot, 1e-9))
    if r < 0.02:
        return None
    k = np.arange(N)
    t = r * np.exp(2j * np.pi * k / N)
    xt = np.zeros((N,) + x.shape[1:], dtype=complex)
    for d in range(D):
        xt = xt + x[d][None] * (t ** d).reshape((N,) + (1,) * (x.ndim - 1))
    with np.errstate(all='ignore'):
        if case['fn'] == 'gammaln' and not np.iscomplexobj(x):
            # log|Gamma| continued analytically off the real axis (loggamma has its branch cut on the negative axis)
            ft = np.log(sp.gamma(xt) * np.sign(sp.gamma(x[0]))[None])
        else:
            ft = f(xt)
    if not np.all(np.isfinite(ft)):
        return None
    c = np.fft.fft(ft, axis=0) / N
    out = np.array([c[d] / r ** d for d in range(D)])
    noise = 1e-14 * float(np.max(np.abs(ft)))
    usable = [d for d in range(D) if noise / r ** d < 1e-8]
    return (out if case['cplx'] else out.real), usable


def run_case(ctx, case):
    """returns None if fine, else a string describing the problem; reports through ctx"""
    st, y = run_impl(case)
    if st == 'mutated-input':
        return 'mutated-input: %s modified its argument' % case['fn']
    m = run_model(ctx, case)
    if st == 'exc':
        return 'exception: %s raised %s inside the domain of smoothness' % (case['fn'], y)
    if isinstance(m, str):
        return 'model-error: %s' % m
    if not close(y, m):
        return 'mismatch-%s: implementation differs from the proved recurrence, max diff %s' % (case['fn'], maxdiff(y, m))
    return None


def oracle_fails(case):
    st, y = run_impl(case)
    if st != 'ok':
        return '%s: %s' % (st, y)
    o = cauchy_oracle(case)
    if o is None:
        return None
    coeffs, usable = o
    if not usable:
        return None
    if y.shape != coeffs.shape:
        return 'taylor-%s: result shape %s' % (case['fn'], y.shape)
    if not close(y[usable], coeffs[usable], tol=1e-6):
        return 'taylor-%s: coefficients differ from (1/d!) d^d/dt^d f(x(t)) (Cauchy integral), max diff %s' % (
            case['fn'], maxdiff(y[usable], coeffs[usable]))
    return None


def nontrivial(case):
    x = np.array(case['x'])
    return case['D'] >= 2 and bool(np.any(x[1:] != 0))


def run(ctx):
    n = 300 if ctx.tier == 'quick' else 6000
    names = sorted(TABLE)
    # every function gets real cases, and every complex-capable function complex ones, on every run
    plan = []
    for rep in range(3):
        plan += [(nm, False) for nm in names]
        plan += [(nm, True) for nm in names if TABLE[nm]['cplx']]
    for i in range(max(n, len(plan))):
        name, cp = plan[i] if i < len(plan) else (None, None)
        case = gen_case(ctx.rng, ctx.tier, name, cp)
        ctx.evaluations += 1
        ctx.count('fn=' + case['fn'], 'D=%d' % case['D'], 'P=%d' % case['P'], 'ndim=%d' % len(case['shape']),
                  'cplx' if case['cplx'] else 'real')
        h = canon_hash(to_jsonable(case))
        if h not in ctx.hashes:
            ctx.hashes.add(h)
            if nontrivial(case):
                ctx.nontrivial += 1
        if len(ctx.samples) < 3 and nontrivial(case):
            ctx.samples.append(to_jsonable(case))
        res = run_case(ctx, case)
        ofail = oracle_fails(case) if (res is not None or i % 3 == 0) else None
        if ofail:
            ctx.report(case, 'failure', ofail)
        elif res is not None:
            # functional property: the proved model *is* the property's answer on this input
            ctx.report(case, 'failure', res)
    for fn_ in ('minimum', 'maximum'):
        for N_ in (2, 3):
            D_ = ctx.rng.randint(1, 3)
            x_ = rand_coeffs(ctx.rng, (D_, N_, N_), -2, 2)
            s_ = rand_coeffs(ctx.rng, (D_, N_), -2, 2) + 0.0625
            case = {'op': 'minmax-rank', 'fn': fn_, 'D': D_, 'P': N_, 'x': x_, 's': s_}
            ctx.evaluations += 1
            ctx.count('fn=%s:rank-mismatch' % fn_)
            res = minmax_rank_fails(case)
            if res:
                ctx.report(case, 'failure', res)
    for fn_ in ('minimum', 'maximum'):
        for dx_, dy_ in (('float32', 'float64'), ('float16', 'float64'), ('float32', 'float32')):
            x_ = rand_coeffs(ctx.rng, (3, 2, 3), -2, 2)
            y_ = rand_coeffs(ctx.rng, (3, 2, 3), -2, 2) * (1.0 + 2.0 ** -40)          # not representable in float32
            y_[0] = x_[0] + np.array([0.5, -0.5, 0.25])
            y_[2, :, 0] = 1e40 if dy_ != 'float32' else 2.0
            case = {'op': 'minmax-dtype', 'fn': fn_, 'D': 3, 'P': 2, 'x': x_, 'y': y_, 'dx': dx_, 'dy': dy_}
            ctx.evaluations += 1
            ctx.count('fn=%s:mixed-dtype' % fn_)
            res = minmax_dtype_fails(case)
            if res:
                ctx.report(case, 'failure', res)
    # base points exactly 0 where f is smooth there (every natural exponent of x**k; sin, erf, … )
    zero_ok = [n for n in sorted(TABLE) if TABLE[n]['dom'] in ('any', 'small', 'tan', 'unit')]
    for name in zero_ok:
        prms = [{'r': r} for r in list(range(6)) + [9, 15, 16, 17, 24]] if name == 'pow_nat' else [None]
        for prm in prms:
            case = gen_case(ctx.rng, ctx.tier, name, False)
            while case['D'] < 2:
                case = gen_case(ctx.rng, ctx.tier, name, False)
            if prm:
                case.update(prm)
            x = np.array(case['x'])
            x[0].reshape(x.shape[1], -1)[0, 0] = 0.0
            if x.shape[0] >= 2:
                x[1].reshape(x.shape[1], -1)[0, 0] = 1.0       # a non-zero first-order coefficient at that entry
            case['x'] = x
            ctx.evaluations += 1
            ctx.count('zero-base-point')
            res = run_case(ctx, case) or oracle_fails(case)
            if res:
                ctx.report(case, 'failure', res)
    # kink functions at tiny non-zero base points whose first-order coefficient has the opposite sign (away from the kink:
    # the sign is that of the base point alone)
    for name in [n for n in sorted(TABLE) if TABLE[n]['dom'] == 'kink']:
        for tiny in (1e-9, -2.0 ** -30, 1e-14):
            case = gen_case(ctx.rng, ctx.tier, name, False)
            while case['D'] < 2:
                case = gen_case(ctx.rng, ctx.tier, name, False)
            x = np.array(case['x'])
            x[0].reshape(x.shape[1], -1)[:, 0] = tiny
            x[1].reshape(x.shape[1], -1)[:, 0] = -np.sign(tiny) * 0.75
            case['x'] = x
            ctx.evaluations += 1
            ctx.count('tiny-base-point')
            res = run_case(ctx, case) or oracle_fails(case)
            if res:
                ctx.report(case, 'failure', res)
    # the tails of the sigmoid functions: the first-order coefficient f'(x0) x1 is tiny there but not zero; it must be accurate
    # relative to its own size (log(expit(x)) has derivative ~1 at x = -40: a zero coefficient gives 0)
    # (tanh is not probed: the library's own test_sign_tanh relies on tanh(200 x) having an exactly vanishing derivative)
    for name, pts, dfun in (('expit', [-20.0, -30.0, -40.0, 25.0], lambda v: sp.expit(v) * sp.expit(-v)),):
        for x0v in pts:
            x = np.array([[x0v], [1.0], [0.0]])
            case = {'fn': name, 'D': 3, 'P': 1, 'shape': [], 'cplx': False, 'x': x, 'tail': True}
            ctx.evaluations += 1
            ctx.count('tail-relative-accuracy')
            res = tail_fails(case)
            if res:
                ctx.report(case, 'failure', res)
    # the first-order coefficient vanishes identically while higher ones do not: x(t) = x0 + x2 t^2 + ...
    for name in sorted(TABLE):
        case = gen_case(ctx.rng, ctx.tier, name, False)
        while case['D'] < 3:
            case = gen_case(ctx.rng, ctx.tier, name, False)
        x = np.array(case['x'])
        x[1] = 0
        x[2] = rand_coeffs(ctx.rng, x[2].shape, 0.25, 1.0)
        case['x'] = x
        ctx.evaluations += 1
        ctx.count('zero-first-order')
        res = run_case(ctx, case) or oracle_fails(case)
        if res:
            ctx.report(case, 'failure', res)
    # numpy.<f>(UTPM) entry point (ufunc method dispatch): element-wise object array
    for name in ['exp', 'sin', 'cos', 'sqrt', 'log', 'tanh', 'arctan']:
        case = gen_case(ctx.rng, ctx.tier, name)
        if len(case['shape']) != 1 or case['cplx']:
            continue
        ctx.evaluations += 1
        ctx.count('entry=numpy.' + name)
        x = UTPM(np.array(case['x']))
        a = getattr(np, name)(x)
        b = getattr(algopy, name)(x)
        ok = isinstance(a, np.ndarray) and a.shape == tuple(case['shape']) and all(
            close(a[i].data, b[i].data) for i in range(a.shape[0]))
        if not ok:
            ctx.report(case, 'failure', 'numpy-entry-%s: numpy.%s(UTPM) differs from algopy.%s(UTPM)' % (name, name, name))


    # the exported class algopy.UTP (UTPM with another constructor): every function gives the coefficients it gives for UTPM
    for name in sorted(TABLE):
        for vectorized in (False, True):
            case = gen_case(ctx.rng, ctx.tier, name, False)
            x = np.array(case['x'])
            if not vectorized:
                x = x[:, :1]
                case['x'], case['P'] = x, 1
            case['utp'] = 'vectorized' if vectorized else 'plain'
            ctx.evaluations += 1
            ctx.count('entry=UTP')
            res = utp_fails(case)
            if res:
                ctx.report(case, 'failure', res)


TAIL_DERIV = {'expit': lambda v: sp.expit(v) * sp.expit(-v), 'tanh': lambda v: 1.0 / np.cosh(v) ** 2}


def tail_fails(case):
    x = np.array(case['x'], dtype=float)
    st, y = run_impl(case)
    if st != 'ok':
        return 'tail-exception-%s: %s' % (case['fn'], y)
    want = float(TAIL_DERIV[case['fn']](x[0, 0])) * x[1, 0]
    got = float(y[1, 0])
    if not np.isfinite(got) or abs(got - want) > 1e-9 * abs(want):
        return 'tail-%s: at x0 = %r the first-order coefficient is %r, f\'(x0) x1 = %r (relative error %.3g)' % (
            case['fn'], float(x[0, 0]), got, want, abs(got - want) / abs(want))
    return None


def utp_fails(case):
    e = TABLE[case['fn']]
    x = np.array(case['x'])
    st, want = run_impl(case)
    if st != 'ok':
        return None
    u = algopy.UTP(x.copy(), vectorized=True) if case['utp'] == 'vectorized' else algopy.UTP(x[:, 0].copy())
    try:
        y = e['call'](u, case)
    except Exception as ex:
        return 'utpclass-exception-%s: %s' % (case['fn'], type(ex).__name__ + ':' + str(ex)[:80])
    if y.data.shape != want.shape or not close(y.data, want, 1e-12):
        return 'utpclass-%s: on a UTP object the result coefficient array has shape %s (UTPM: %s) or other values' % (case['fn'], y.data.shape, want.shape)
    return None


def search(ctx, case, what):
    return None


def minmax_rank_fails(case):
    """minimum / maximum of operands of DIFFERENT rank (a vector against a scalar polynomial, as many directions as entries, the
    init_jacobian set-up): either refused, or entry i is minimum / maximum of x[i] and s -- never a mix of directions"""
    x, s_ = np.array(case['x']), np.array(case['s'])
    fn = getattr(algopy, case['fn'])
    want = np.stack([fn(UTPM(x[:, :, i].copy()), UTPM(s_.copy())).data for i in range(x.shape[2])], axis=2)
    for a, b, lab in ((UTPM(x.copy()), UTPM(s_.copy()), 'x, s'), (UTPM(s_.copy()), UTPM(x.copy()), 's, x')):
        try:
            got = fn(a, b).data
        except (NotImplementedError, ValueError):
            continue
        except Exception as ex:
            return 'minmax-rank-exception: algopy.%s(%s) raised %s' % (case['fn'], lab, type(ex).__name__)
        if got.shape != want.shape or not close(got, want, 1e-12):
            return 'minmax-rank: algopy.%s(%s) of a vector and a scalar polynomial (P = N = %d) is not the entry-wise %s (directions mixed)' % (
                case['fn'], lab, x.shape[2], case['fn'])
    return None


def minmax_dtype_fails(case):
    """minimum / maximum of operands of DIFFERENT coefficient dtypes (float32 / float16 against float64): away from
    ties the result has exactly the coefficients of the selected operand, whichever operand comes first"""
    fn = getattr(algopy, case['fn'])
    x = np.array(case['x']).astype(case['dx'])
    y = np.array(case['y']).astype(case['dy'])
    pick_x = (x[0] < y[0]) if case['fn'] == 'minimum' else (x[0] > y[0])
    want = np.where(pick_x, x.astype(np.result_type(x, y)), y.astype(np.result_type(x, y)))
    for a, b, lab in ((x, y, '%s, %s' % (case['dx'], case['dy'])), (y, x, '%s, %s' % (case['dy'], case['dx']))):
        try:
            with np.errstate(all='ignore'):
                got = fn(UTPM(a.copy()), UTPM(b.copy())).data
        except Exception as ex:
            return 'minmax-dtype-exception: algopy.%s of %s operands raised %s' % (case['fn'], lab, type(ex).__name__)
        if got.shape != want.shape or not np.array_equal(got, want):
            return 'minmax-dtype: algopy.%s of %s operands does not return the coefficients of the selected operand (result dtype %s)' % (case['fn'], lab, got.dtype)
    return None


def replay_case(ctx, case):
    if case.get('op') == 'minmax-dtype':
        return minmax_dtype_fails(case)
    if case.get('op') == 'minmax-rank':
        return minmax_rank_fails(case)
    if case.get('tail'):
        return tail_fails(case)
    if case.get('utp'):
        return utp_fails(case)
    return run_case(ctx, case) or oracle_fails(case)
