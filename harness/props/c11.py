"""C11 — directions are propagated independently.

Oracle on the implementation: for every registered public operation and every direction p,
op(x)[:, p] == op(x[:, p:p+1])[:, 0] (different base points per direction by construction).
Correspondence of the element-wise kernels and binary operators the theorems are about: the
model is evaluated on the full P-direction input and on each single direction."""
import numpy as np
from common import *
import ops
from props import c01, c02
import revchecks
from props import c04
from programs import trace
import programs

RULE = ('cases = (operation, D, P>=2, shapes, coefficients with a different base point per direction) from ops.py; '
        'each direction re-evaluated alone; non-trivial = P>=2 and base points of two directions differ; distinct by hash')
ASSUMPTIONS = ['tolerance 1e-9 relative between the P-direction run and the single-direction run (vectorised kernels)']


def direction_fails(case):
    st, full = ops.call(case)
    if st != 'ok':
        return None
    P = case['P']
    for p in range(P):
        sub = ops.map_U(case, lambda v: v[:, p:p + 1])
        sub['P'] = 1
        st2, part = ops.call(sub)
        if st2 != 'ok':
            return 'direction-%s: direction %d alone raises %s' % (case['op'], p, part)
        for i, (a, b) in enumerate(zip(full, part)):
            if not isinstance(a, np.ndarray) or a.ndim < 2 or a.shape[1] != P or a.shape[0] != case['D']:
                continue
            if b.ndim < 2 or b.shape[1] != 1:
                return 'direction-%s: single-direction result has shape %s' % (case['op'], b.shape)
            if not close(a[:, p], b[:, 0], tol=1e-9):
                return 'direction-%s: output %d, direction %d of the %d-direction result differs from evaluating direction %d alone (max diff %s)' % (
                    case['op'], i, p, P, p, maxdiff(a[:, p], b[:, 0]))
    return None


def poisoned_direction_fails(case):
    """one direction carries non-finite higher-order coefficients (an overflow upstream in that direction only): the other
    directions are those of the evaluation without it -- a scratch buffer shared between directions would pass them on"""
    P, D = case['P'], case['D']
    if P < 2 or D < 2:
        return None
    bad = case.get('bad_dir', 0)

    def poison(v):
        v = np.array(v, dtype=float, copy=True)
        if v.ndim >= 2 and v.shape[0] == D and v.shape[1] == P and v[1, bad].size:
            v[1:, bad] = case.get('bad_val', np.inf)
        return v
    pc = ops.map_U(case, poison)
    with np.errstate(all='ignore'):
        st, full = ops.call(pc)
    if st != 'ok':
        return None
    for p in range(P):
        if p == bad:
            continue
        sub = ops.map_U(case, lambda v: v[:, p:p + 1])
        sub['P'] = 1
        with np.errstate(all='ignore'):
            st2, part = ops.call(sub)
        if st2 != 'ok':
            return None
        for i, (a, b) in enumerate(zip(full, part)):
            if not isinstance(a, np.ndarray) or a.ndim < 2 or a.shape[1] != P or a.shape[0] != D or b.ndim < 2 or b.shape[1] != 1:
                continue
            if not np.all(np.isfinite(b)):
                continue
            if not np.all(np.isfinite(a[:, p])) or not close(a[:, p], b[:, 0], tol=1e-9):
                return ('direction-poisoned-%s: with non-finite higher coefficients in direction %d, output %d of direction %d differs from '
                        'evaluating direction %d alone' % (case['op'], bad, i, p, p))
    return None


def nontrivial(case):
    if case['P'] < 2:
        return False
    for a in case['args']:
        if a['k'] == 'U':
            v = np.array(a['v'])
            if not np.array_equal(v[0, 0], v[0, 1]):
                return True
    return False


def jacobian_direction_fails(case):
    """cg.jacobian(UTPM with P directions)[:, p] == cg.jacobian(UTPM with direction p alone)[:, 0]: every direction
    has its own base point and higher coefficients, M >= 1 outputs"""
    prog = case['prog']
    c = np.array(case['jcurve'])
    try:
        with np.errstate(all='ignore'):
            cg, fx, fy = trace(prog, [np.array(case['rec'])])
            J = cg.jacobian(UTPM(c.copy()))
    except Exception:
        return None
    if not isinstance(J, UTPM) or not np.all(np.isfinite(J.data)):
        return None
    for p in range(c.shape[1]):
        try:
            with np.errstate(all='ignore'):
                Jp = cg.jacobian(UTPM(c[:, p:p + 1].copy()))
        except Exception as ex:
            return 'jacobian-direction-exception: direction %d alone raised %s' % (p, type(ex).__name__)
        if Jp.data.shape[2:] != J.data.shape[2:] or not close(J.data[:, p], Jp.data[:, 0], 1e-8):
            return ('jacobian-direction: direction %d of cg.jacobian(UTPM) differs from the result for that direction alone '
                    '(max diff %s)' % (p, maxdiff(J.data[:, p], Jp.data[:, 0]) if Jp.data.shape[2:] == J.data.shape[2:] else 'shape'))
    return None


def make_jacobian_case(rng, tier):
    base = c04.make_case(rng, tier)
    N = base['N']
    D, P = rng.randint(1, 3), rng.randint(2, 4)
    c = rand_coeffs(rng, (D, P, N), -1, 1)
    c[0] = rand_coeffs(rng, (P, N), -programs.BOX, programs.BOX)
    return {'prog': base['prog'], 'N': N, 'rec': rand_coeffs(rng, (N,), -programs.BOX, programs.BOX), 'jcurve': c, 'jacdir': True}


def eig_mixed_spectrum_fails(case):
    """UTPM.eig on several directions whose base matrices have DIFFERENT kinds of spectrum (real / complex-conjugate pairs, in any
    order): direction p of the joint result has the values of direction p evaluated alone"""
    x = np.array(case['x'])
    with np.errstate(all='ignore'):
        l, Q = UTPM.eig(UTPM(x.copy()))
        for p in range(x.shape[1]):
            l1, Q1 = UTPM.eig(UTPM(x[:, p:p + 1].copy()))
            for nm, a, b in (('eigenvalues', l.data[:, p], l1.data[:, 0]), ('eigenvectors', Q.data[:, p], Q1.data[:, 0])):
                if a.shape != b.shape or not np.allclose(np.asarray(a, dtype=complex), np.asarray(b, dtype=complex), rtol=1e-12, atol=1e-13):
                    return 'eig-mixed-spectrum: %s of direction %d depend on the other directions (spectra: %s)' % (nm, p, case['kinds'])
    return None


def eig_mixed_case(rng, kinds, D):
    n = 3
    x = rand_coeffs(rng, (D, len(kinds), n, n), -1, 1)
    for p, k in enumerate(kinds):
        if k == 'real':
            a = rand_coeffs(rng, (n, n), -1, 1)
            x[0, p] = a + a.T + np.diag([-3.0, 0.0, 3.0])
        else:
            c_, s_ = 0.5, rng.choice([1.0, 2.0])
            x[0, p] = np.array([[c_, -s_, 0.0], [s_, c_, 0.0], [0.25, 0.5, 3.0]])       # a rotation block: a complex-conjugate pair
    return {'eigmixed': True, 'x': x, 'kinds': list(kinds)}


def replay_case(ctx, case):
    if case.get('eigmixed'):
        return eig_mixed_spectrum_fails(case)
    if case.get('poisoned'):
        return poisoned_direction_fails(case)
    if case.get('jacdir'):
        return jacobian_direction_fails(case)
    if 'prog' in case:
        return revchecks.direction_adjoint_fails(case)
    if case.get('rev'):
        return revchecks.op_direction_adjoint_fails(case)
    if 'fn' in case:
        return c01.run_case(ctx, case)
    return direction_fails(case)


def run(ctx):
    names = sorted(ops.OPS)
    # every registered operation once with the FIRST of three directions carrying non-finite higher coefficients (leftovers of an
    # earlier direction in a shared scratch buffer reach the later ones), on every run
    for name in names:
        for bad_val in (float('inf'), float('nan')):
            case = ops.gen_case(ctx.rng, ctx.tier, name, P=3, D=3)
            case.update({'poisoned': True, 'bad_dir': 0, 'bad_val': bad_val})
            ctx.evaluations += 1
            ctx.count('poisoned-direction-systematic')
            f = poisoned_direction_fails(case)
            if f:
                ctx.report(case, 'failure', f)
    for kinds in (('real', 'complex'), ('complex', 'real'), ('real', 'real', 'complex'), ('real', 'real'), ('complex', 'complex')):
        for D_ in (1, 2):
            case = eig_mixed_case(ctx.rng, kinds, D_)
            ctx.evaluations += 1
            ctx.count('eig-mixed-spectrum')
            f = eig_mixed_spectrum_fails(case)
            if f:
                ctx.report(case, 'failure', f)
    n = len(names) * (8 if ctx.tier == 'quick' else 100)
    for i in range(n):
        name = names[i % len(names)]
        case = ops.gen_case(ctx.rng, ctx.tier, name, P=ctx.rng.choice([2, 2, 3, 4]))
        ctx.evaluations += 1
        ctx.count('op=' + case['op'].split(':')[0], 'P=%d' % case['P'], 'D=%d' % case['D'])
        h = canon_hash(to_jsonable(case))
        if h not in ctx.hashes:
            ctx.hashes.add(h)
            if nontrivial(case):
                ctx.nontrivial += 1
        if len(ctx.samples) < 3 and nontrivial(case):
            ctx.samples.append(to_jsonable(case))
        f = direction_fails(case)
        if f:
            ctx.report(case, 'failure', f)
        elif case['D'] >= 2 and i % 2 == 0:
            pc = dict(case)
            pc['poisoned'] = True
            pc['bad_dir'] = ctx.rng.randrange(case['P'] - 1)            # an earlier direction (later ones would see its leftovers)
            pc['bad_val'] = ctx.rng.choice([float('inf'), float('nan'), float('-inf')])
            ctx.evaluations += 1
            ctx.count('poisoned-direction')
            f = poisoned_direction_fails(pc)
            if f:
                ctx.report(pc, 'failure', f)
    # reverse sweep: adjoints of direction p from a P-direction sweep == sweep of direction p alone
    for i in range(120 if ctx.tier == 'quick' else 1500):
        case = revchecks.make_case(ctx.rng, ctx.tier, P=ctx.rng.choice([2, 3]))
        ctx.evaluations += 1
        ctx.count('reverse-sweep')
        h = canon_hash(to_jsonable(case))
        if h not in ctx.hashes:
            ctx.hashes.add(h)
            ctx.nontrivial += 1
        f = revchecks.direction_adjoint_fails(case)
        if f:
            ctx.report(case, 'failure', f)
    # reverse sweep of single operations (every direction has its own base point and, for det/logdet/lu, its own pivots)
    for name in revchecks.reversible_ops(for_truncation=False):
        for k in range((8 if name in ('det', 'det:pivots', 'logdet', 'lu', 'inv', 'solve', 'eigh:mixed') else 3) if ctx.tier == 'quick' else 40):
            case = ops.gen_case(ctx.rng, ctx.tier, name, P=ctx.rng.choice([2, 3]), D=ctx.rng.randint(1, 4))
            case['seed'] = ctx.rng.randrange(1 << 30)
            case['rev'] = True
            ctx.evaluations += 1
            ctx.count('reverse-op')
            h = canon_hash(to_jsonable(case))
            if h not in ctx.hashes:
                ctx.hashes.add(h)
                if nontrivial(case):
                    ctx.nontrivial += 1
            f = revchecks.op_direction_adjoint_fails(case)
            if f:
                ctx.report(case, 'failure', f)
    # graph drivers with a P-direction argument: jacobian(UTPM) direction by direction
    for i in range(60 if ctx.tier == 'quick' else 600):
        case = make_jacobian_case(ctx.rng, ctx.tier)
        ctx.evaluations += 1
        ctx.count('jacobian-utpm-direction')
        h = canon_hash(to_jsonable(case))
        if h not in ctx.hashes:
            ctx.hashes.add(h)
            ctx.nontrivial += 1
        f = jacobian_direction_fails(case)
        if f:
            ctx.report(case, 'failure', f)
    # tie of the modelled kernels: model on P directions and on each direction alone
    m = 80 if ctx.tier == 'quick' else 800
    for i in range(m):
        case = c01.gen_case(ctx.rng, ctx.tier)
        ctx.evaluations += 1
        ctx.count('kernel=' + case['fn'])
        r = c01.run_case(ctx, case)
        if r:
            ctx.report(case, 'failure', r)
        for p in range(case['P']):
            sub = dict(case)
            sub['x'] = np.array(case['x'])[:, p:p + 1]
            sub['P'] = 1
            r = c01.run_case(ctx, sub)
            if r:
                ctx.report(sub, 'failure', r)
