"""C16 — closed-form n-th derivatives are the true derivatives.

Correspondence: algopy.nthderiv.<f>(x, n=k) vs the closed form of the Lean model evaluated exactly
on the same float point and NumPy/SciPy leaf values.  Oracle on the implementation (independent of
the model): order n+1 is the derivative of order n (Cauchy integral / Richardson-free complex
contour where f is analytic and NumPy supports complex arguments; central differences in exact
arithmetic of the closed form otherwise)."""
import math
import os
import numpy as np
import scipy.special as sp
from fractions import Fraction as F
from common import *
from algopy import nthderiv as nd

RULE = ('cases = (function, n in 0..n_max, point of the declared domain away from singularities, parameters a,b,m); '
        'non-trivial = n >= 1; distinct by hash')
ASSUMPTIONS = ['leaf values exp(x), sin(x), polygamma(k,x), hyperu(a+n,b+n,x), … from NumPy/SciPy', 'tolerance 1e-9 relative (1e-6 for the contour oracle)']


def pg(k, x):
    return float(sp.polygamma(k, x))


# name -> (domain, leaves(x, n, prm) , model fn, extra request fields, complex-capable f for the oracle)
T = {
    'exp': ('all', lambda x, n, p: [np.exp(x)], 'exp', np.exp),
    'exp2': ('all', lambda x, n, p: [np.exp2(x), np.log(2)], 'exp2', lambda z: np.exp(z * np.log(2))),
    'expm1': ('all', lambda x, n, p: [np.expm1(x), np.exp(x)], 'expm1', lambda z: np.exp(z) - 1),
    'log': ('pos', lambda x, n, p: [np.log(x)], 'log', np.log),
    'log2': ('pos', lambda x, n, p: [np.log2(x), np.log(2)], 'logb', lambda z: np.log(z) / np.log(2)),
    'log10': ('pos', lambda x, n, p: [np.log10(x), np.log(10)], 'logb', lambda z: np.log(z) / np.log(10)),
    'log1p': ('pos', lambda x, n, p: [np.log1p(x)], 'log1p', lambda z: np.log(1 + z)),
    'sqrt': ('pos', lambda x, n, p: [np.sqrt(x)], 'sqrt', np.sqrt),
    'square': ('all', lambda x, n, p: [], 'square', lambda z: z * z),
    'negative': ('all', lambda x, n, p: [], 'negative', lambda z: -z),
    'reciprocal': ('nz', lambda x, n, p: [], 'reciprocal', lambda z: 1 / z),
    'sin': ('all', lambda x, n, p: [np.sin(x), np.cos(x)], 'sin', np.sin),
    'cos': ('all', lambda x, n, p: [np.sin(x), np.cos(x)], 'cos', np.cos),
    'sinh': ('all', lambda x, n, p: [np.sinh(x), np.cosh(x)], 'sinh', np.sinh),
    'cosh': ('all', lambda x, n, p: [np.sinh(x), np.cosh(x)], 'cosh', np.cosh),
    'arctanh': ('unit', lambda x, n, p: [np.arctanh(x)], 'arctanh', np.arctanh),
    'arctan': ('all', lambda x, n, p: [np.arctan(x)], 'arctan', np.arctan),
    'arcsin': ('unit', lambda x, n, p: [np.arcsin(x), 1 / np.sqrt(1 - x * x)], 'arcsin', np.arcsin),
    'arccos': ('unit', lambda x, n, p: [np.arccos(x), 1 / np.sqrt(1 - x * x)], 'arccos', np.arccos),
    'arcsinh': ('all', lambda x, n, p: [np.arcsinh(x), 1 / np.sqrt(1 + x * x)], 'arcsinh', np.arcsinh),
    'arccosh': ('gt1', lambda x, n, p: [np.arccosh(x), 1 / np.sqrt(x * x - 1)], 'arccosh', np.arccosh),
    'erf': ('all0', lambda x, n, p: [sp.erf(x), 2 / np.sqrt(np.pi) * np.exp(-x * x)], 'erf', sp.erf),
    'erfi': ('small0', lambda x, n, p: [sp.erfi(x), 2 / np.sqrt(np.pi) * np.exp(x * x)], 'erfi', sp.erfi),
    'gammaln': ('gam', lambda x, n, p: [sp.gammaln(x)] + [pg(k, x) for k in range(n + 1)], 'gammaln', sp.loggamma),
    'psi': ('gam', lambda x, n, p: [pg(k, x) for k in range(n + 1)], 'psi', sp.psi),
    'polygamma': ('gam', lambda x, n, p: [pg(k, x) for k in range(p['m'] + n + 1)], 'polygamma', None),
    'hyperu': ('gam', lambda x, n, p: [p['a']] + [float(sp.hyperu(p['a'] + k, p['b'] + k, x)) for k in range(n + 1)], 'hyperu', None),
    'rint': ('nonint', lambda x, n, p: [np.rint(x)], 'step', None),
    'fix': ('nonint', lambda x, n, p: [np.fix(x)], 'step', None),
    'floor': ('nonint', lambda x, n, p: [np.floor(x)], 'step', None),
    'ceil': ('nonint', lambda x, n, p: [np.ceil(x)], 'step', None),
    'trunc': ('nonint', lambda x, n, p: [np.trunc(x)], 'step', None),
    'sign': ('nz', lambda x, n, p: [np.sign(x)], 'step', None),
    'absolute': ('nz', lambda x, n, p: [np.absolute(x), np.sign(x)], 'absolute', None),
    'clip': ('clip', lambda x, n, p: [np.clip(x, p['lo'], p['hi']), float(p['lo'] <= x <= p['hi'])], 'clip', None),
}


def gen_x(rng, dom):
    if dom in ('all',):
        return dyadic(rng, -2, 2)
    if dom == 'all0':
        return rng.choice([0.0, dyadic(rng, -2, 2), dyadic(rng, -2, 2)])
    if dom == 'small0':
        return rng.choice([0.0, dyadic(rng, -1, 1), dyadic(rng, -1, 1)])
    if dom == 'pos':
        return dyadic(rng, 0.5, 3)
    if dom == 'nz':
        return rng.choice([-1, 1]) * dyadic(rng, 0.5, 2)
    if dom == 'unit':
        return dyadic(rng, -0.75, 0.75)
    if dom == 'gt1':
        return dyadic(rng, 1.5, 3)
    if dom == 'gam':
        return dyadic(rng, 0.75, 4)
    if dom == 'nonint':
        return rng.randint(-3, 3) + rng.choice([0.25, 0.375, 0.75])
    if dom == 'clip':
        return rng.choice([dyadic(rng, -2, -0.625), dyadic(rng, -0.375, 0.625), dyadic(rng, 0.875, 2)])
    raise ValueError(dom)


def gen_case(rng, tier, name=None):
    name = name or rng.choice(sorted(T))
    nmax = 6 if tier == 'quick' else 8
    n = rng.randint(0, nmax)
    if name in ('hyperu', 'polygamma', 'gammaln', 'psi'):
        n = min(n, 5)
    case = {'fn': name, 'n': n, 'x': gen_x(rng, T[name][0])}
    if name == 'polygamma':
        case['m'] = rng.choice([0, 1, 2, 3])
    if name == 'hyperu':
        case['a'] = rng.choice([0.5, 1.0, 1.5, 2.0, 0.3, 3.7, -0.5, -1.3, -2.5, -1.0, -2.0, -3.0])   # incl. (a)_n < 0 and the polynomial case
        case['b'] = rng.choice([0.5, 1.5, 2.5])
    if name == 'clip':
        case['lo'], case['hi'] = -0.5, 0.75
    return case


def impl(case, n=None):
    n = case['n'] if n is None else n
    x = np.array([case['x']])
    f = getattr(nd, case['fn'])
    if case['fn'] == 'polygamma':
        return float(f(case['m'], x, n=n)[0])
    if case['fn'] == 'hyperu':
        return float(f(case['a'], case['b'], x, n=n)[0])
    if case['fn'] == 'clip':
        return float(np.asarray(f(case['lo'], case['hi'], x, n=n))[0])
    return float(np.asarray(f(x, n=n))[0])


def model(ctx, case):
    dom, leaves, mfn, _ = T[case['fn']]
    x, n = case['x'], case['n']
    lv = [float(v) for v in leaves(x, n, case)]
    req = {'op': 'nth', 'fn': mfn, 'n': n, 'x': enc_num(x), 'leaves': [enc_num(v) for v in lv], 'm': int(case.get('m', 0))}
    r = ctx.model.ask(req)
    if 'error' in r:
        return 'error:' + r['error']
    return float(F(r['r']))


def run_case(ctx, case):
    try:
        with np.errstate(all='ignore'):
            y = impl(case)
    except Exception as ex:
        return 'exception-%s: nthderiv.%s(x, n=%d) raised %s' % (case['fn'], case['fn'], case['n'], type(ex).__name__)
    m = model(ctx, case)
    if isinstance(m, str):
        return 'model-error: ' + m
    if not np.isfinite(y) or abs(y - m) > 1e-9 * max(1.0, abs(m)):
        return 'mismatch-%s: nthderiv.%s(%r, n=%d) = %r, closed form gives %r' % (case['fn'], case['fn'], case['x'], case['n'], y, m)
    return None


TINY_FNS = ['sin', 'cos', 'sinh', 'cosh', 'exp', 'expm1', 'log1p', 'arctan', 'arcsinh', 'arcsin', 'arctanh', 'erf', 'erfi', 'square', 'negative', 'exp2']
SCALED_FNS = ['sqrt', 'log', 'log2', 'log10', 'log1p', 'reciprocal']


def scaled_point_fails(ctx, case):
    """points far from one (powers of two, exact in floating point): whenever the n-th derivative itself is an ordinary double
    (1e-302 < |value| < 1e302) the implementation returns it to rounding -- RELATIVE comparison with the exact closed form"""
    try:
        with np.errstate(all='ignore'):
            y = impl(case)
    except Exception as ex:
        return 'exception-%s: nthderiv.%s(x, n=%d) raised %s' % (case['fn'], case['fn'], case['n'], type(ex).__name__)
    try:
        m = model(ctx, case)
    except OverflowError:
        return None                                    # (the exact value is beyond the double range)
    if isinstance(m, str):
        return 'model-error: ' + m
    if not (1e-302 < abs(m) < 1e302):
        return None
    if not np.isfinite(y) or abs(y - m) > 1e-9 * abs(m):
        return 'scaled-point-%s: nthderiv.%s(%r, n=%d) = %r, closed form gives %r (an ordinary double)' % (case['fn'], case['fn'], case['x'], case['n'], y, m)
    return None


def oracle_fails(case):
    """order n of the implementation vs the n-th derivative of f by a Cauchy integral"""
    f = T[case['fn']][3]
    if f is None or case['n'] == 0:
        return None
    n, x = case['n'], case['x']
    dom = T[case['fn']][0]
    dist = {'unit': 1 - abs(x), 'pos': x + (1 if case['fn'] == 'log1p' else 0), 'nz': abs(x), 'gt1': x - 1, 'gam': x}.get(dom, 10.0)
    if case['fn'] in ('arctan', 'arcsinh'):
        dist = math.hypot(x, 1.0)
    N, r = 64, min(0.25, 0.4 * dist)
    k = np.arange(N)
    z = x + r * np.exp(2j * np.pi * k / N)
    with np.errstate(all='ignore'):
        fz = f(z)
    c = np.fft.fft(fz)[n] / N / r ** n * math.factorial(n)
    if not np.isfinite(c):
        return None
    with np.errstate(all='ignore'):
        y = impl(case)
    noise = 1e-13 * math.factorial(n) / r ** n * float(np.max(np.abs(fz)))
    if not np.isfinite(y) or abs(y - c.real) > 1e-6 * max(1.0, abs(c.real)) + noise:
        return 'derivative-%s: nthderiv.%s(%r, n=%d) = %r but the n-th derivative is %r' % (case['fn'], case['fn'], x, n, y, float(c.real))
    return None


def _call(case, x, n, out=None):
    f = getattr(nd, case['fn'])
    kw = {} if out is None else {'out': out}
    if case['fn'] == 'polygamma':
        return f(case['m'], x, n=n, **kw)
    if case['fn'] == 'hyperu':
        return f(case['a'], case['b'], x, n=n, **kw)
    if case['fn'] == 'clip':
        return f(case['lo'], case['hi'], x, n=n, **kw)
    return f(x, n=n, **kw)


def _in_dom(dom, k):
    return {'all': True, 'all0': True, 'small0': abs(k) <= 1, 'pos': k > 0, 'nz': k != 0, 'unit': k == 0, 'nonint': False, 'gam': k > 0,
            'gt1': k > 1, 'clip': True}.get(dom, False)


def calling_fails(ctx, case):
    """the documented calling conventions give the same derivative: no `out`, a fresh `out`, and `out` aliasing the
    argument (in place); the argument is not modified unless it is the output"""
    rng = __import__('random').Random(case.get('seed', 0))
    dom = T[case['fn']][0]
    xs = np.array([case['x']] + [gen_x(rng, dom) for _ in range(2)], dtype=float)
    if case.get('xs') is not None:
        xs = np.array(case['xs'], dtype=float)
    n = case['n']
    try:
        with np.errstate(all='ignore'):
            x0 = xs.copy()
            a = np.array(_call(case, x0, n), dtype=float)
            if not np.array_equal(x0, xs):
                return 'calling-mutated-%s: the argument was modified by nthderiv.%s(x, n=%d)' % (case['fn'], case['fn'], n)
            o = np.full_like(xs, 7.5)
            x1 = xs.copy()
            r = _call(case, x1, n, out=o)
            if not np.array_equal(x1, xs):
                return 'calling-mutated-%s: the argument was modified by nthderiv.%s(x, out=o, n=%d)' % (case['fn'], case['fn'], n)
            b = np.array(o, dtype=float)
            buf = xs.copy()
            _call(case, buf, n, out=buf)
            c = np.array(buf, dtype=float)
    except Exception as ex:
        return 'calling-exception-%s: nthderiv.%s with an out argument raised %s' % (case['fn'], case['fn'], type(ex).__name__)
    ok = lambda u, w: np.allclose(u, w, rtol=1e-12, atol=1e-300, equal_nan=True)
    # the point given as a plain Python float / a NumPy scalar / a 0-d array: the value of the one-element array call
    for sc, lab in ((float(xs[0]), 'Python float'), (np.float64(xs[0]), 'numpy.float64'), (np.array(xs[0]), '0-d array')):
        try:
            with np.errstate(all='ignore'):
                vs_ = np.asarray(_call(case, sc, n), dtype=float)
        except Exception as ex:
            return 'calling-scalar-exception-%s: nthderiv.%s raised %s for the point given as a %s (n=%d); the array call works' % (
                case['fn'], case['fn'], type(ex).__name__, lab, n)
        if vs_.size != 1 or not ok(vs_.ravel(), a.ravel()[:1]):
            return 'calling-scalar-%s: nthderiv.%s with the point given as a %s differs from the array call (n=%d)' % (case['fn'], case['fn'], lab, n)
    # integer-valued points of the domain given as an integer array: the same values as for the float array
    ipts = np.array([k for k in (1, 2, 3, -1, -2, 0) if _in_dom(dom, k)][:3])
    if ipts.size and not (case['fn'] == 'reciprocal' and n == 0):      # numpy.reciprocal itself truncates on integer arrays
        vf = vi = None
        try:
            with np.errstate(all='ignore'):
                vf = np.array(_call(case, ipts.astype(float), n), dtype=float)
        except Exception:
            vf = None
        if vf is not None and np.all(np.isfinite(vf)):
            try:
                with np.errstate(all='ignore'):
                    vi = np.array(_call(case, ipts.astype(int), n), dtype=float)
            except Exception as ex:
                return 'calling-int-exception-%s: nthderiv.%s raised %s at the integer points %s given as an int array (n=%d); the float call works' % (
                    case['fn'], case['fn'], type(ex).__name__, ipts.tolist(), n)
        if vf is not None and vi is not None and np.all(np.isfinite(vf)) and (vi.shape != vf.shape or not ok(vf, vi)):
            return 'calling-int-%s: nthderiv.%s at the integer points %s given as an int array differs from the float call (n=%d): %s vs %s' % (
                case['fn'], case['fn'], ipts.tolist(), n, vi.tolist(), vf.tolist())
    # LARGE integer points given in an integer type (an intermediate integer power wraps around in int64 long before the float
    # value overflows): the same values as at the float points, relative
    for pts_, dt_, orders in (((999, 65535, 99999), np.int64, (n,)), ((4000000000,), np.int64, (n,)), ((50000,), np.int32, (n,)), ((10, 7), np.int64, (n, 12, 20)),
                              ((10, 7), np.int32, (9, 11))):
        big = np.array([k for k in pts_ if _in_dom(dom, k)])
        for n_ in orders:
            if not (big.size and n_ >= 1 and case['fn'] not in ('reciprocal',)):
                continue
            try:
                with np.errstate(all='ignore'):
                    vfb = np.array(_call(case, big.astype(float), n_))
                    vib = np.array(_call(case, big.astype(dt_), n_))
            except Exception:
                continue
            if np.iscomplexobj(vfb) or not np.all(np.isfinite(vfb)) or not np.all(np.abs(vfb) > 1e-300):
                continue
            if np.iscomplexobj(vib) or vib.shape != vfb.shape or not np.allclose(np.asarray(vib, dtype=float), vfb, rtol=1e-9, atol=0, equal_nan=True):
                return 'calling-bigint-%s: nthderiv.%s at the integer points %s given as an %s array differs from the float call (n=%d): %s vs %s' % (
                    case['fn'], case['fn'], big.tolist(), np.dtype(dt_).name, n_, vib.tolist(), vfb.tolist())
    # the points given as a Python list / nested list (NumPy and SciPy accept array_like points): the same values as for the array
    for pts, lab in ((xs.tolist(), 'list'), ([xs.tolist()], 'nested list'), (tuple(xs.tolist()), 'tuple')):
        try:
            with np.errstate(all='ignore'):
                vl = np.array(_call(case, pts, n), dtype=float)
        except Exception as ex:
            return 'calling-list-exception-%s: nthderiv.%s raised %s for points given as a %s (n=%d); the array call works' % (
                case['fn'], case['fn'], type(ex).__name__, lab, n)
        if vl.size != a.size or not ok(vl.ravel(), a.ravel()):
            return 'calling-list-%s: nthderiv.%s with points given as a %s differs from the array call (n=%d)' % (case['fn'], case['fn'], lab, n)
    # array-valued parameters (SciPy's polygamma / hyperu broadcast them): entry k is the n-th derivative for parameter k
    if case['fn'] in ('polygamma', 'hyperu'):
        f = getattr(nd, case['fn'])
        try:
            with np.errstate(all='ignore'):
                if case['fn'] == 'polygamma':
                    ms = np.array([0, case['m'], 2][:xs.size])
                    va = np.array(f(ms, xs.copy(), n=n), dtype=float)
                    vs = np.array([float(f(int(m_), xs[k:k + 1].copy(), n=n)[0]) for k, m_ in enumerate(ms)])
                else:
                    as_ = np.array([case['a'], 0.5, 1.5][:xs.size])
                    va = np.array(f(as_, case['b'], xs.copy(), n=n), dtype=float)
                    vs = np.array([float(f(float(a_), case['b'], xs[k:k + 1].copy(), n=n)[0]) for k, a_ in enumerate(as_)])
        except Exception as ex:
            return 'calling-param-array-exception-%s: an array-valued parameter raised %s (n=%d)' % (case['fn'], type(ex).__name__, n)
        if np.all(np.isfinite(vs)) and (va.shape != vs.shape or not ok(va, vs)):
            return 'calling-param-array-%s: with an array-valued parameter entry k is not the n-th derivative for parameter k (n=%d): %s vs %s' % (
                case['fn'], n, va.tolist(), vs.tolist())
    if not ok(a, b):
        return 'calling-out-%s: nthderiv.%s(x, out=o, n=%d) differs from the value returned without out' % (case['fn'], case['fn'], n)
    if not ok(a, c):
        return 'calling-inplace-%s: nthderiv.%s(buf, out=buf, n=%d) is not the n-th derivative at the original points' % (case['fn'], case['fn'], n)
    return None


def replay_case(ctx, case):
    if case.get('op') == 'mpmath-subcheck':
        before = len(ctx.failures)
        mpmath_subcheck(ctx)
        return ctx.failures.pop()[1] if len(ctx.failures) > before else None
    if case.get('scaled'):
        return scaled_point_fails(ctx, case)
    if case.get('calling'):
        return calling_fails(ctx, case)
    return run_case(ctx, case)


HIGH_ORDER_FNS = ['exp', 'exp2', 'expm1', 'log', 'log2', 'log10', 'log1p', 'sqrt', 'reciprocal', 'sin', 'cos', 'sinh', 'cosh', 'arctanh']


def mpmath_subcheck(ctx):
    """nthderiv.tan / tanh exist only when mpmath is importable; it is in the tooling interpreter python3-vt, not in /venv: run the
    closed-form comparison there (skipped, and said so in the evidence, when that interpreter or mpmath is missing)"""
    import json as _json, shutil, subprocess
    exe = shutil.which('python3-vt')
    if not exe:
        ctx.count('mpmath-subcheck=skipped(no python3-vt)')
        return
    env = dict(os.environ, ALGOPY_REPO=os.environ.get('ALGOPY_REPO', '/repo'))
    try:
        out = subprocess.run([exe, os.path.join(os.path.dirname(os.path.dirname(os.path.abspath(__file__))), 'mpmath_subcheck.py')],
                             capture_output=True, text=True, timeout=300, env=env).stdout.strip().splitlines()
        res = _json.loads(out[-1])
    except Exception as ex:
        ctx.count('mpmath-subcheck=skipped(%s)' % type(ex).__name__)
        return
    if 'skipped' in res:
        ctx.count('mpmath-subcheck=skipped(mpmath)')
        return
    ctx.evaluations += res.get('checked', 0)
    ctx.count('mpmath-subcheck=run')
    if not res['ok']:
        ctx.report({'op': 'mpmath-subcheck', 'failures': res['failures']}, 'failure',
                   'mpmath-tan-tanh: nthderiv.tan / tanh differ from their closed forms (run under python3-vt): %s' % '; '.join(res['failures'][:3]))


def run(ctx):
    names = sorted(T)
    mpmath_subcheck(ctx)
    # high orders (beyond 20!, where a factorial no longer fits into 64-bit integers) of the functions whose closed form is a
    # single term (no cancellation): the same closed form of the model, in exact rational arithmetic
    for name in [n_ for n_ in HIGH_ORDER_FNS if n_ in T]:
        for n_ in (16, 21, 22, 25, 30):
            case = gen_case(ctx.rng, ctx.tier, name)
            case['n'] = n_
            ctx.evaluations += 1
            ctx.count('fn=' + name, 'high-order')
            f = run_case(ctx, case)
            if f:
                ctx.report(case, 'failure', f)
    for name in [n_ for n_ in SCALED_FNS if n_ in T]:
        for n_ in (1, 2, 3, 4, 5, 6):
            # ... in particular points where the value is close to the ends of the double range (x^(1/2-n), x^-n, x^-(n+1) near 2^+-990)
            edge = sorted(set(min(1000, int(990 / e_)) for e_ in (n_ - 0.5, n_, n_ + 1)))
            for k_ in [-k for k in edge] + [-280, -150, -60, 60, 150, 280] + edge:
                case = {'fn': name, 'n': n_, 'x': float(2.0 ** k_), 'scaled': True}
                ctx.evaluations += 1
                ctx.count('fn=' + name, 'scaled-point')
                f = scaled_point_fails(ctx, case)
                if f:
                    ctx.report(case, 'failure', f)
    # tiny non-zero points (powers of two): where the n-th derivative is itself tiny (odd functions at even orders, ...) it is
    # returned to rounding RELATIVE to its size -- for the functions whose closed forms involve no cancellation there
    for name in [n_ for n_ in TINY_FNS if n_ in T]:
        for x_ in (2.0 ** -28, -(2.0 ** -33), 2.0 ** -39, 2.0 ** -66):
            for n_ in (1, 2, 3, 4, 5, 6):
                case = {'fn': name, 'n': n_, 'x': float(x_), 'scaled': True}
                ctx.evaluations += 1
                ctx.count('fn=' + name, 'tiny-point')
                f = scaled_point_fails(ctx, case)
                if f:
                    ctx.report(case, 'failure', f)
    # sin / cos far from the origin (NumPy reduces large arguments exactly; the n-th derivative is +-sin / +-cos of the SAME point)
    for name in ('sin', 'cos'):
        for x_ in (1e10, -3e12, 1e16, 2.0 ** 60, 1e17):
            for n_ in (1, 2, 3, 4, 5):
                case = {'fn': name, 'n': n_, 'x': float(x_)}
                ctx.evaluations += 1
                ctx.count('fn=' + name, 'large-argument')
                f = run_case(ctx, case)
                if f:
                    ctx.report(case, 'failure', f)
    n = len(names) * (10 if ctx.tier == 'quick' else 150)
    for i in range(n):
        case = gen_case(ctx.rng, ctx.tier, names[i % len(names)])
        ctx.evaluations += 1
        ctx.count('fn=' + case['fn'], 'n=%d' % case['n'])
        h = canon_hash(case)
        if h not in ctx.hashes:
            ctx.hashes.add(h)
            if case['n'] >= 1:
                ctx.nontrivial += 1
        if len(ctx.samples) < 4 and case['n'] >= 2:
            ctx.samples.append(case)
        f = oracle_fails(case)
        if f:
            ctx.report(case, 'failure', f)
            continue
        r = run_case(ctx, case)
        if r:
            ctx.report(case, 'failure', r)
            continue
        cc = dict(case, calling=True, seed=ctx.rng.randrange(1 << 30))
        r = calling_fails(ctx, cc)
        if r:
            ctx.report(cc, 'failure', r)
    # the calling conventions (no out / fresh out / out aliasing the points) for EVERY function at orders 0, 1, 2 on every run,
    # with points on both sides of the interval for clip
    for name in names:
        for n_ in (0, 1, 2):
            case = gen_case(ctx.rng, ctx.tier, name)
            case['n'] = n_
            if name == 'clip':
                case['x'] = [0.25, 0.9, -0.7][n_]
                case['xs'] = [0.25, 0.9, -0.7, -0.5, 0.75]       # inside, above, below, and the two bounds, at every order
            cc = dict(case, calling=True, seed=ctx.rng.randrange(1 << 30))
            ctx.evaluations += 1
            ctx.count('calling-systematic')
            r = calling_fails(ctx, cc)
            if r:
                ctx.report(cc, 'failure', r)
    # hyperu with every kind of first parameter (positive, negative non-integer with (a)_n of either sign, negative integer) at
    # orders 1..3, on every run
    for a_ in (0.5, 2.0, -0.5, -1.3, -2.5, -1.0, -2.0):
        for n_ in (1, 2, 3):
            case = gen_case(ctx.rng, ctx.tier, 'hyperu')
            case['a'], case['n'] = a_, n_
            ctx.evaluations += 1
            ctx.count('fn=hyperu', 'hyperu-parameter-kinds')
            r = run_case(ctx, case)
            if r:
                ctx.report(case, 'failure', r)
    # the parameterised functions at every low order (array-valued parameters mixing order 0 with higher orders)
    for name in ('polygamma', 'hyperu'):
        for n_ in (0, 1, 2):
            for m_ in (0, 1, 3):
                case = gen_case(ctx.rng, ctx.tier, name)
                case['n'] = n_
                if name == 'polygamma':
                    case['m'] = m_
                cc = dict(case, calling=True, seed=ctx.rng.randrange(1 << 30))
                ctx.evaluations += 1
                ctx.count('calling-param-array')
                r = calling_fails(ctx, cc)
                if r:
                    ctx.report(cc, 'failure', r)
