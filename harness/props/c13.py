"""C13 — shape-manipulating operations act slice-wise like NumPy, with view semantics.

Oracle on the implementation: for every op and every (d,p): op(x).data[d,p] == numpy_op(x.data[d,p]);
basic indexing / transposition return views sharing memory with the parent (numpy.shares_memory), writing
through a view updates the parent, item assignment with UTPM / ndarray / scalar right-hand sides, constants set
the zeroth coefficient and clear the higher ones.
Correspondence ("mini-NumPy vs NumPy" and "UTPM vs mini-NumPy"): getitem with every kind of basic index,
reshape, transpose, sum over an axis, broadcast — real NumPy / UTPM vs the Lean model."""
import itertools
import numpy as np
from common import *

RULE = ('index expressions generated from {int, negative int, slice with (negative) step and None/out-of-range bounds, Ellipsis, newaxis}, '
        'bare and tupled, on shapes with extents 1..4 and rank <= 3; shape ops with all axes; non-trivial = D>=2 and rank>=1; '
        'thorough: exhaustive over all index expressions with <= 2 entries on extents <= 3')
ASSUMPTIONS = ['integer-valued float data, so slice-wise comparisons are exact']


def enc_idx(idx):
    out = []
    for i in idx:
        if i is Ellipsis:
            out.append('e')
        elif i is None:
            out.append('n')
        elif isinstance(i, slice):
            out.append({'s': [i.start, i.stop, i.step]})
        else:
            out.append({'i': int(i)})
    return out


def rand_index(rng, shape):
    idx = []
    k = rng.randint(0, len(shape))
    for n in shape[:k]:
        c = rng.random()
        if c < 0.35:
            idx.append(rng.randint(-n, n - 1))
        else:
            lo = rng.choice([None, None, rng.randint(-n - 1, n + 1)])
            hi = rng.choice([None, None, rng.randint(-n - 1, n + 1)])
            st = rng.choice([None, None, 1, 2, -1, -2])
            idx.append(slice(lo, hi, st))
    if rng.random() < 0.25:
        idx.insert(rng.randint(0, len(idx)), None)
    if rng.random() < 0.25 and k < len(shape) + 1:
        idx.insert(rng.randint(0, len(idx)), Ellipsis)
    return idx


def intdata(rng, shape):
    return np.array([float(rng.randint(-9, 9)) for _ in range(int(np.prod(shape)))]).reshape(shape)


def getitem_case(rng, tier, shape=None, idx=None):
    shape = shape or tuple(rng.randint(1, 4) for _ in range(rng.randint(1, 3)))
    D, P = rng.randint(1, 3), rng.randint(1, 3)
    return {'op': 'getitem', 'D': D, 'P': P, 'x': intdata(rng, (D, P) + tuple(shape)), 'idx': idx if idx is not None else rand_index(rng, shape),
            'bare': rng.random() < 0.3}


def getitem_fails(ctx, case):
    x = np.array(case['x'])
    idx = list(case['idx'])
    tidx = tuple(idx)
    key = tidx[0] if (case.get('bare') and len(tidx) == 1) else tidx
    D, P = x.shape[:2]
    # NumPy reference on one slice decides admissibility
    try:
        ref = x[0, 0][key]
        np_ok = True
    except Exception:
        np_ok = False
    u = UTPM(x.copy())
    try:
        y = u[key]
        ok = True
    except Exception as ex:
        ok = False
        err = type(ex).__name__
    # mini-NumPy vs NumPy
    m = ctx.model.arrs({'op': 'np', 'what': 'getitem', 'x': enc_arr(x[0, 0]), 'idx': enc_idx(idx)})
    if np_ok != (not isinstance(m, str)):
        return 'mini-numpy-getitem: model and NumPy disagree on admissibility of %r on shape %s' % (idx, x.shape[2:])
    if np_ok and not np.array_equal(np.asarray(m[0]).reshape(np.shape(ref)), ref):
        return 'mini-numpy-getitem: model differs from NumPy for %r on shape %s' % (idx, x.shape[2:])
    if not np_ok:
        if ok:
            return 'getitem-accepts: UTPM accepts index %r that NumPy rejects' % (idx,)
        return None
    if not ok:
        return 'getitem-exception: x[%r] raised %s although NumPy accepts it' % (idx, err)
    if y.data.shape != (D, P) + np.shape(ref):
        return 'getitem-shape: x[%r].data.shape = %s, slice-wise NumPy gives %s' % (idx, y.data.shape, (D, P) + np.shape(ref))
    for d in range(D):
        for p in range(P):
            if not np.array_equal(y.data[d, p], x[d, p][key]):
                return 'getitem-slice: x[%r] differs from NumPy on coefficient slice (%d,%d)' % (idx, d, p)
    if y.data.size and not np.shares_memory(y.data, u.data):
        return 'getitem-view: x[%r] does not share memory with x' % (idx,)
    mu = ctx.model.arrs({'op': 'np', 'what': 'utgetitem', 'x': enc_arr(x), 'idx': enc_idx(idx)})
    if isinstance(mu, str) or not np.array_equal(np.asarray(mu[0]).reshape(y.data.shape), y.data):
        return 'utgetitem-model: UTPM.__getitem__ differs from the (:,:)+idx model'
    # write through the view
    if y.data.size:
        y.data[...] = 77.0
        chk = x.copy()
        for d in range(D):
            for p in range(P):
                chk[d, p][key] = 77.0
        if not np.array_equal(u.data, chk):
            return 'getitem-writethrough: writing through x[%r] does not update the parent like NumPy' % (idx,)
    return None


def setitem_case(rng, tier):
    shape = tuple(rng.randint(1, 3) for _ in range(rng.randint(1, 3)))
    D, P = rng.randint(1, 3), rng.randint(1, 2)
    idx = rand_index(rng, shape)
    return {'op': 'setitem', 'D': D, 'P': P, 'x': intdata(rng, (D, P) + shape), 'idx': idx, 'bare': rng.random() < 0.4,
            'rhs': rng.choice(['utpm', 'utpm-bcast', 'scalar', 'ndarray', 'ndarray-selfview']), 'seed': rng.randrange(1 << 30)}


def setitem_fails(ctx, case):
    import random
    rng = random.Random(case['seed'])
    x = np.array(case['x'])
    idx = tuple(case['idx'])
    key = idx[0] if (case.get('bare') and len(idx) == 1) else idx
    D, P = x.shape[:2]
    try:
        tgt = x[0, 0][key]
    except Exception:
        return None
    tshape = np.shape(tgt)
    if int(np.prod(tshape)) == 0:
        return None
    u = UTPM(x.copy())
    want = x.copy()
    kind = case['rhs']
    if kind in ('utpm', 'utpm-bcast'):
        rs = tshape if kind == 'utpm' else tuple(n if rng.random() < 0.5 else 1 for n in tshape)[rng.randint(0, len(tshape)):]
        r = intdata(rng, (D, P) + tuple(rs))
        for d in range(D):
            for p in range(P):
                if tshape == ():
                    want[d, p][key] = r[d, p].reshape(()) if r[d, p].size == 1 else r[d, p]
                else:
                    want[d, p][key] = r[d, p]
        rhs = UTPM(r.copy())
    elif kind == 'scalar':
        c = float(rng.randint(-5, 5))
        for d in range(D):
            for p in range(P):
                want[d, p][key] = c if d == 0 else 0.0
        rhs = c
    elif kind == 'ndarray-selfview':
        # the constant is a view into the polynomial's own coefficient storage (any order, any direction)
        d0, p0 = rng.randrange(D), rng.randrange(P)
        c = u.data[d0, p0][key]
        cval = np.array(x[d0, p0][key])
        for d in range(D):
            for p in range(P):
                want[d, p][key] = cval if d == 0 else 0.0
        rhs = c
    else:
        c = intdata(rng, tshape)
        for d in range(D):
            for p in range(P):
                want[d, p][key] = c if d == 0 else 0.0
        rhs = c
    try:
        u[key] = rhs
    except Exception as ex:
        return 'setitem-exception-%s: x[%r] = <%s> raised %s although NumPy accepts the assignment slice-wise' % (kind, list(idx), kind, type(ex).__name__)
    if not np.array_equal(u.data, want):
        return 'setitem-%s: x[%r] = <%s> differs from the slice-wise NumPy assignment' % (kind, list(idx), kind)
    # the model the theorems are about (Model/Index.lean: utSetitem / utSetitemConst)
    if kind in ('utpm', 'utpm-bcast'):
        mm = ctx.model.arrs({'op': 'np', 'what': 'utsetitem', 'x': enc_arr(x), 'idx': enc_idx(idx), 'v': enc_arr(r)})
    else:
        mm = ctx.model.arrs({'op': 'np', 'what': 'utsetitemconst', 'x': enc_arr(x), 'idx': enc_idx(idx),
                             'v': enc_arr(np.asarray(cval if kind == 'ndarray-selfview' else rhs, dtype=float))})
    if isinstance(mm, str) or not np.array_equal(np.asarray(mm[0]).reshape(u.data.shape), u.data):
        return 'setitem-model-%s: x[%r] = <%s> differs from the model utSetitem%s' % (kind, list(idx), kind, '' if kind.startswith('utpm') else 'Const')
    return None


def overlap_case(rng, tier):
    D, P = rng.randint(1, 3), rng.randint(1, 2)
    n = rng.randint(2, 4)
    kind = rng.choice(['shift', 'reverse', 'transpose', 'strided', 'view-of-view', 'self'])
    shape = (n, n) if kind == 'transpose' else ((max(n, 4),) if kind in ('strided', 'view-of-view') else (n,))
    return {'op': 'setitem-overlap', 'kind': kind, 'D': D, 'P': P, 'x': intdata(rng, (D, P) + shape)}


def overlap_fails(ctx, case):
    x = np.array(case['x'])
    D, P = x.shape[:2]
    u = UTPM(x.copy())
    want = x.copy()
    k = case['kind']

    def npdo(a):
        if k == 'shift':
            a[1:] = a[:-1].copy()
        elif k == 'reverse':
            a[...] = a[::-1].copy()
        elif k == 'transpose':
            a[...] = a.T.copy()
        elif k == 'strided':
            a[::2] = a[1:1 + len(a[::2])].copy()
        elif k == 'view-of-view':
            v = a[1:]
            v[1:] = a[1:len(v)].copy()
        else:
            a[...] = a.copy()
    for d in range(D):
        for p in range(P):
            npdo(want[d, p])
    try:
        if k == 'shift':
            u[1:] = u[:-1]
        elif k == 'reverse':
            u[...] = u[::-1]
        elif k == 'transpose':
            u[...] = u.T
        elif k == 'strided':
            m = len(x[0, 0][::2])
            u[::2] = u[1:1 + m]
        elif k == 'view-of-view':
            v = u[1:]
            v[1:] = u[1:x.shape[2] - 1]
        else:
            u[...] = u
    except Exception as ex:
        return 'setitem-overlap-exception-%s: raised %s' % (k, type(ex).__name__)
    if not np.array_equal(u.data, want):
        return 'setitem-overlap-%s: assigning an overlapping view of the same data differs from NumPy applied to every coefficient slice' % k
    return None


SHAPEOPS = ['reshape', 'transpose', 'T', 'sum', 'tile', 'diag', 'diag2', 'triu', 'tril', 'trace', 'neg', 'conj', 'real', 'imag',
            'fft', 'ifft', 'zeros_like', 'ones_like', 'zeros', 'ones', 'symvec', 'vecsym']


def shapeop_case(rng, tier):
    op = rng.choice(SHAPEOPS)
    D, P = rng.randint(1, 3), rng.randint(1, 2)
    c = {'op': op, 'D': D, 'P': P}
    if op == 'reshape':
        s, t = rng.choice([((2, 3), (3, 2)), ((2, 3), (6,)), ((4,), (2, 2)), ((2, 2, 3), (4, 3)), ((3,), (3, 1)), ((6,), (1, 2, 3))])
        c['x'], c['shape'] = intdata(rng, (D, P) + s), list(t)
        # the forms NumPy accepts for a shape: tuple, list, Python int / NumPy integer (1-D target), tuple of NumPy integers, method call
        c['form'] = rng.choice(['tuple', 'tuple', 'list', 'npints', 'method', 'method-list', 'varargs'] + (['int', 'npint', 'method-npint'] if len(t) == 1 else []))
        if rng.random() < 0.3:
            c['shape'][rng.randrange(len(t))] = -1          # one inferred dimension
    elif op in ('transpose', 'T', 'triu', 'tril', 'trace', 'diag2'):
        if op in ('transpose', 'T'):
            # any number of array axes (NumPy's .T reverses all of them)
            c['x'] = intdata(rng, (D, P) + tuple(rng.randint(1, 3) for _ in range(rng.choice([0, 1, 2, 2, 3, 4, 5]))))
        else:
            # square, tall (also by two or more rows) and wide matrices
            c['x'] = intdata(rng, (D, P) + ((rng.randint(1, 3),) * 2 if rng.random() < 0.4 else (rng.randint(1, 5), rng.randint(1, 5))))
            if op != 'trace' and rng.random() < 0.5:
                c['k'] = rng.randint(-5, 5)        # off-diagonals, also beyond the matrix
            if op in ('triu', 'tril') and rng.random() < 0.4:
                # non-finite entries (e.g. log of a triangular matrix): the selected ones are kept, the discarded ones become 0
                xf = np.array(c['x'], dtype=float)
                for _ in range(rng.randint(1, 4)):
                    idx = tuple(rng.randrange(n_) for n_ in xf.shape)
                    xf[idx] = rng.choice([np.inf, -np.inf, np.nan])
                c['x'] = xf
    elif op == 'sum':
        s = tuple(rng.randint(1, 3) for _ in range(rng.randint(0, 3)))          # also a scalar polynomial (no array axes)
        c['x'], c['axis'] = intdata(rng, (D, P) + s), rng.choice([None] + list(range(-len(s), len(s))))
        if len(s) >= 2 and rng.random() < 0.3:
            k = rng.randint(1, len(s))
            c['axis'] = sorted(rng.sample(range(len(s)), k))                      # a tuple of axes
            if rng.random() < 0.5:
                c['axis'] = [a - len(s) for a in c['axis']]
    elif op == 'tile':
        c['x'], c['reps'] = intdata(rng, (D, P, rng.randint(1, 3))), rng.randint(1, 3)
    elif op == 'diag':
        c['x'] = intdata(rng, (D, P, rng.randint(1, 3)))
        if rng.random() < 0.4:
            c['k'] = rng.randint(-3, 3)
    elif op in ('symvec',):
        n = rng.randint(1, 3)
        a = intdata(rng, (D, P, n, n))
        c['uplo'] = rng.choice(['F', 'L', 'U', None])      # None: the default argument
        c['x'] = a + a.transpose(0, 1, 3, 2) if rng.random() < 0.3 else a     # triangular storage: the other triangle is unrelated
    elif op == 'vecsym':
        n = rng.randint(1, 3)
        c['x'] = intdata(rng, (D, P, n * (n + 1) // 2))
    elif op in ('conj', 'real', 'imag', 'fft', 'ifft'):
        s = tuple(rng.randint(1, 4) for _ in range(rng.randint(1, 3)))
        c['x'] = intdata(rng, (D, P) + s) + 1j * intdata(rng, (D, P) + s)
        if op in ('conj', 'real', 'imag') and rng.random() < 0.4:
            c['x'] = intdata(rng, (D, P) + s)          # real data: conj / real are the identity on the values, imag is zero
        c['axis'] = rng.choice(list(range(-len(s), len(s))))
        if op in ('fft', 'ifft') and rng.random() < 0.4:
            c['n'] = rng.randint(1, 6)          # truncating / zero-padding transform length
    else:
        c['x'] = intdata(rng, (D, P) + tuple(rng.randint(1, 3) for _ in range(rng.randint(0, 2))))
        if rng.random() < 0.12:
            c['x'] = intdata(rng, (D, P) + rng.choice([(0,), (2, 0), (0, 3)]))          # an empty array (an axis of length 0)
        if op in ('zeros', 'ones'):
            c['form'] = rng.choice(['tuple', 'tuple', 'list', 'npints', 'nparray'])
    return c


def np_symvec(a, uplo):
    """NumPy reference for symvec: the upper-triangular entries row by row of 0.5(A+A^T) ('F'), of A ('U'), of A^T ('L')"""
    a = np.asarray(a)
    iu = np.triu_indices(a.shape[0])
    if uplo == 'F':
        return (0.5 * (a + a.T))[iu]
    return a[iu] if uplo == 'U' else a.T[iu]


def _ax(a):
    return tuple(a) if isinstance(a, list) else a


def _shape_form(shape, form):
    """the shape argument in one of the forms NumPy accepts"""
    shape = tuple(int(k) for k in shape)
    form = (form or 'tuple').replace('method-', '').replace('method', 'tuple')
    if form == 'list':
        return list(shape)
    if form == 'npints':
        return tuple(np.int64(k) for k in shape)
    if form == 'nparray':
        return np.array(shape)
    if form == 'int':
        return shape[0]
    if form == 'npint':
        return np.prod(shape)          # numpy.int64, the usual x.reshape(numpy.prod(x.shape)) idiom
    return shape


def shapeop_fails(ctx, case):
    op = case['op']
    x = np.array(case['x'])
    D, P = x.shape[:2]
    u = UTPM(x.copy())
    fns = {
        'reshape': ((lambda v: algopy.reshape(v, tuple(case['shape']), 'C')) if case.get('form') == 'fn-order'
                    else (lambda v: v.reshape(tuple(case['shape']), order='C')) if case.get('form') == 'method-order-kw'
                    else (lambda v: v.reshape(*[int(k) for k in case['shape']])) if case.get('form') == 'varargs'
                    else (lambda v: v.reshape(_shape_form(case['shape'], case.get('form')))) if str(case.get('form')).startswith('method')
                    else (lambda v: algopy.reshape(v, _shape_form(case['shape'], case.get('form')))),
                    lambda a: np.reshape(a, _shape_form(case['shape'], case.get('form')))),
        'transpose': (lambda v: algopy.transpose(v), lambda a: a.T),
        'T': (lambda v: v.T, lambda a: a.T),
        'sum': (lambda v: algopy.sum(v, axis=_ax(case.get('axis'))), lambda a: np.sum(a, axis=_ax(case.get('axis')))),
        'tile': (lambda v: algopy.tile(v, case.get('reps')), lambda a: np.tile(a, case.get('reps'))),
        'diag': ((lambda v: algopy.diag(v, case['k'])) if 'k' in case else (lambda v: algopy.diag(v)), lambda a: np.diag(a, case.get('k', 0))),
        'diag2': ((lambda v: algopy.diag(v, k=case['k'])) if 'k' in case else (lambda v: algopy.diag(v)), lambda a: np.diag(a, case.get('k', 0))),
        'triu': ((lambda v: algopy.triu(v, case['k'])) if 'k' in case else (lambda v: algopy.triu(v)), lambda a: np.triu(a, case.get('k', 0))),
        'tril': ((lambda v: algopy.tril(v, k=case['k'])) if 'k' in case else (lambda v: algopy.tril(v)), lambda a: np.tril(a, case.get('k', 0))),
        'trace': (lambda v: algopy.trace(v), lambda a: np.trace(a)),
        'neg': (lambda v: -v, lambda a: -a),
        'conj': (lambda v: algopy.conjugate(v), lambda a: np.conjugate(a)),
        'real': (lambda v: algopy.real(v), lambda a: np.real(a)),
        'imag': (lambda v: algopy.imag(v), lambda a: np.imag(a)),
        'fft': (lambda v: algopy.fft.fft(v, n=case.get('n'), axis=case.get('axis', -1)), lambda a: np.fft.fft(a, n=case.get('n'), axis=case.get('axis', -1))),
        'ifft': (lambda v: algopy.fft.ifft(v, n=case.get('n'), axis=case.get('axis', -1)), lambda a: np.fft.ifft(a, n=case.get('n'), axis=case.get('axis', -1))),
        'zeros_like': (lambda v: algopy.zeros_like(v), lambda a: np.zeros_like(a)),
        'ones_like': (lambda v: algopy.ones_like(v), None),
        'zeros': (lambda v: algopy.zeros(_shape_form((2, 3), case.get('form')), dtype=v), None),
        'ones': (lambda v: algopy.ones(_shape_form((2, 3), case.get('form')), dtype=v), None),
        'symvec': ((lambda v: algopy.symvec(v)) if case.get('uplo') is None else (lambda v: algopy.symvec(v, case['uplo'])),
                   lambda a: np_symvec(a, case.get('uplo') or 'F')),
        'vecsym': (lambda v: algopy.vecsym(v), lambda a: algopy.utils.vecsym(a)),
    }
    f, g = fns[op]
    try:
        y = f(u)
    except Exception as ex:
        return 'shapeop-exception-%s: raised %s' % (op, type(ex).__name__ + ':' + str(ex)[:80])
    if not np.array_equal(u.data, x, equal_nan=True):
        return 'shapeop-mutated-%s: the argument was modified' % op
    if op in ('ones_like', 'ones', 'zeros'):
        shape = x.shape[2:] if op == 'ones_like' else (2, 3)
        want = np.zeros((D, P) + shape)
        if op != 'zeros':
            want[0] = 1.0
        if y.data.shape != want.shape or not np.array_equal(y.data, want):
            return 'shapeop-%s: not the constant polynomial' % op
        return None
    for d in range(D):
        for p in range(P):
            ref = g(x[d, p])
            got = y.data[d, p]
            if np.shape(got) != np.shape(ref) or not np.allclose(got, ref, rtol=1e-12, atol=1e-12, equal_nan=True):
                return 'shapeop-%s: coefficient slice (%d,%d) differs from the NumPy operation on that slice' % (op, d, p)
    if op == 'symvec':
        ul = case.get('uplo') or 'F'
        if not np.array_equal(algopy.symvec(x[0, 0].astype(float), ul), np_symvec(x[0, 0].astype(float), ul)):
            return 'shapeop-symvec-ndarray: algopy.symvec(ndarray, %s) differs from the NumPy reference' % ul
        if not np.array_equal(UTPM.symvec(UTPM(x.copy()), ul).data, y.data):
            return 'shapeop-symvec-method: UTPM.symvec(A, %s) differs from algopy.symvec(A, %s)' % (ul, ul)
    # the same operation on a traced operand (every dispatcher has a Function branch): same value and shape
    try:
        from algopy import CGraph, Function
        cg_ = CGraph()
        ft = f(Function(UTPM(x.copy())))
        cg_.trace_off()
        traced = ft.x if isinstance(ft, Function) else ft
    except Exception as ex:
        traced = None           # not every shape operation can be recorded
        if op == 'reshape':
            # every form of the shape / order arguments the polynomial itself accepts is accepted on a traced polynomial
            return 'shapeop-traced-exception-reshape: reshape (form %s) works on the polynomial but raises %s on the traced polynomial' % (
                case.get('form'), type(ex).__name__ + ':' + str(ex)[:60])
    if isinstance(traced, UTPM):
        if traced.data.shape != y.data.shape or not np.array_equal(traced.data, y.data, equal_nan=True):
            return 'shapeop-traced-%s: the traced call (Function operand) differs from the direct call on the same data' % op
    if op in ('transpose', 'T') and not np.shares_memory(y.data, u.data):
        return 'shapeop-view-%s: the transpose does not share memory with its parent' % op
    # where NumPy returns a fresh array, the result must not be a view of the argument (writing into it would update the parent)
    if g is not None and x.ndim >= 3 and y.data.size and op not in ('reshape', 'transpose', 'T', 'real', 'imag', 'diag', 'diag2'):
        sl = x[0, 0].copy()
        try:
            r0 = g(sl)
            fresh = isinstance(r0, np.ndarray) and not np.shares_memory(r0, sl)
        except Exception:
            fresh = False
        if fresh and np.shares_memory(y.data, u.data):
            return 'shapeop-alias-%s: the result shares memory with its argument although NumPy returns a fresh array' % op
    # model comparisons for the modelled structural ops
    if op == 'sum' and isinstance(case.get('axis'), int):
        m = ctx.model.arrs({'op': 'np', 'what': 'utsum', 'x': enc_arr(x), 'axis': int(case['axis'])})
        if isinstance(m, str) or not np.array_equal(np.asarray(m[0]).reshape(y.data.shape), y.data):
            return 'utsum-model: UTPM.sum(axis=%d) differs from the axis-arithmetic model' % case['axis']
    if op == 'reshape':
        # (an inferred dimension -1 is resolved by the element count; the resulting shape itself was compared with NumPy above)
        m = ctx.model.arrs({'op': 'np', 'what': 'reshape', 'x': enc_arr(x), 'shape': list(y.data.shape)})
        if isinstance(m, str) or not np.array_equal(m[0], y.data):
            return 'reshape-model: differs from the row-major model'
    if op in ('transpose', 'T'):
        m = ctx.model.arrs({'op': 'np', 'what': 'transpose', 'x': enc_arr(x), 'perm': [0, 1] + list(range(x.ndim - 1, 1, -1))})
        if isinstance(m, str) or not np.array_equal(m[0], y.data):
            return 'transpose-model: differs from the axis-permutation model'
    return None


def all_small_indices(n_entries_max=2):
    atoms = lambda n: [i for i in range(-n, n)] + [slice(None), slice(None, None, -1), slice(1, None), slice(None, -1), slice(0, n, 2),
                                                   slice(n, None, -2), slice(-1, None, -1)]
    for shape in [(1,), (2,), (3,), (2, 3), (3, 2), (1, 3)]:
        for k in range(0, min(n_entries_max, len(shape)) + 1):
            for combo in itertools.product(*[atoms(n) for n in shape[:k]]):
                for extra in [[], [Ellipsis], [None]]:
                    yield shape, list(combo) + extra
                    if extra:
                        yield shape, extra + list(combo)


TRACED_FORMS = {
    'algopy.transpose(x, None)': lambda v: algopy.transpose(v, None), 'algopy.transpose(x, axes=None)': lambda v: algopy.transpose(v, axes=None),
    'x.transpose(None)': lambda v: v.transpose(None), 'x.transpose()': lambda v: v.transpose(), 'x.conj()': lambda v: v.conj(),
    'x.conjugate()': lambda v: v.conjugate(),
}


ORDER_FORMS = {
    "algopy.reshape(x, s, 'F')": lambda v, s_: algopy.reshape(v, s_, 'F'), "algopy.reshape(x, s, order='F')": lambda v, s_: algopy.reshape(v, s_, order='F'),
    "x.reshape(s, 'F')": lambda v, s_: v.reshape(s_, 'F'), "x.reshape(s, order='F')": lambda v, s_: v.reshape(s_, order='F'),
    "UTPM.reshape(x, s, 'F')": lambda v, s_: UTPM.reshape(v, s_, 'F'),
}


def reshape_order_fails(case):
    """a memory order other than 'C' passed to reshape in any calling form: either refused (NotImplementedError) or NumPy's
    reshape with that order on every coefficient slice -- never silently the C-order result"""
    x = np.array(case['x'])
    shp = tuple(case['shape'])
    try:
        y = ORDER_FORMS[case['form']](UTPM(x.copy()), shp)
    except NotImplementedError:
        return None
    except Exception as ex:
        return 'reshape-order-exception: %s raised %s' % (case['form'], type(ex).__name__ + ':' + str(ex)[:60])
    for d in range(x.shape[0]):
        for p in range(x.shape[1]):
            if y.data[d, p].shape != shp or not np.array_equal(y.data[d, p], np.reshape(x[d, p], shp, order='F')):
                return "reshape-order: %s is neither refused nor numpy.reshape(..., order='F') on coefficient slice (%d,%d)" % (case['form'], d, p)
    return None


def like_dtype_fails(case):
    """zeros_like / ones_like of a polynomial with an explicit NumPy dtype (numpy.zeros_like(a, dtype=...)): still a polynomial with
    the same (D, P) and shape, every coefficient slice what NumPy returns for that slice (ones: the constant one)"""
    x = np.array(case['x'])
    dt = np.dtype(case['dtype'])
    f = algopy.zeros_like if case['fn'] == 'zeros_like' else algopy.ones_like
    try:
        y = f(UTPM(x.copy()), dtype=dt if case['form'] == 'dtype' else dt.type)
    except Exception as ex:
        return 'like-dtype-exception: algopy.%s(x, dtype=%s) raised %s' % (case['fn'], dt, type(ex).__name__ + ':' + str(ex)[:60])
    if not isinstance(y, UTPM) or y.data.shape != x.shape or y.data.dtype != dt:
        return 'like-dtype: algopy.%s(x, dtype=%s) is %s of data shape %s / dtype %s, expected a polynomial of data shape %s and that dtype' % (
            case['fn'], dt, type(y).__name__, getattr(getattr(y, 'data', None), 'shape', np.shape(y)), getattr(getattr(y, 'data', None), 'dtype', None), x.shape)
    want = np.zeros(x.shape, dtype=dt)
    if case['fn'] == 'ones_like':
        want[0] = 1
    if not np.array_equal(y.data, want):
        return 'like-dtype-value: algopy.%s(x, dtype=%s) does not hold the constant polynomial' % (case['fn'], dt)
    return None


def traced_form_fails(case):
    """call forms of NumPy's signatures that the polynomial accepts are accepted on a traced polynomial, with the same value"""
    x = np.array(case['x'])
    f = TRACED_FORMS[case['form']]
    want = f(UTPM(x.copy()))
    from algopy import CGraph, Function
    cg_ = CGraph()
    try:
        ft = f(Function(UTPM(x.copy())))
    except Exception as ex:
        return 'traced-form-exception: %s works on the polynomial but raises %s on the traced polynomial' % (case['form'], type(ex).__name__ + ':' + str(ex)[:60])
    finally:
        cg_.trace_off()
    if not isinstance(ft, Function) or ft.x.data.shape != want.data.shape or not np.array_equal(ft.x.data, want.data):
        return 'traced-form: %s on the traced polynomial differs from the call on the polynomial' % case['form']
    return None


def replay_case(ctx, case):
    if case.get('op') == 'traced-form':
        return traced_form_fails(case)
    if case.get('op') == 'reshape-order':
        return reshape_order_fails(case)
    if case.get('op') == 'like-dtype':
        return like_dtype_fails(case)
    if case.get('op') == 'utpclass-table':
        import utpcheck
        return utpcheck.replay(case)
    if case['op'] == 'getitem':
        return getitem_fails(ctx, case)
    if case['op'] == 'setitem':
        return setitem_fails(ctx, case)
    if case['op'] == 'setitem-overlap':
        return overlap_fails(ctx, case)
    return shapeop_fails(ctx, case)


def run(ctx):
    import utpcheck
    utpcheck.run(ctx, 'C13')
    rng = ctx.rng
    for fn_ in ('zeros_like', 'ones_like'):
        for dt_ in ('complex128', 'float64', 'float32'):
            for form_ in ('dtype', 'type'):
                case = {'op': 'like-dtype', 'fn': fn_, 'dtype': dt_, 'form': form_, 'D': 2, 'P': 2, 'x': rand_coeffs(rng, (2, 2, 3), -2, 2)}
                ctx.evaluations += 1
                ctx.count('like-with-dtype')
                f_ = like_dtype_fails(case)
                if f_:
                    ctx.report(case, 'failure', f_)
    for form_ in sorted(ORDER_FORMS):
        for shp_ in ((3, 2), (6,), (1, 6)):
            case = {'op': 'reshape-order', 'form': form_, 'shape': list(shp_), 'D': 2, 'P': 2, 'x': intdata(rng, (2, 2, 2, 3))}
            ctx.evaluations += 1
            ctx.count('reshape-order-argument')
            f_ = reshape_order_fails(case)
            if f_:
                ctx.report(case, 'failure', f_)
    for form_ in sorted(TRACED_FORMS):
        x_ = rand_coeffs(rng, (2, 2, 2, 3), -2, 2)
        case = {'op': 'traced-form', 'form': form_, 'D': 2, 'P': 2, 'x': (x_ + 0.5j * x_[::-1]) if 'conj' in form_ else x_}
        ctx.evaluations += 1
        ctx.count('traced-call-form')
        f_ = traced_form_fails(case)
        if f_:
            ctx.report(case, 'failure', f_)

    def do(case, f):
        ctx.evaluations += 1
        ctx.count('op=' + case['op'])
        h = canon_hash(to_jsonable(case))
        if h not in ctx.hashes:
            ctx.hashes.add(h)
            if case['D'] >= 2 and np.array(case['x']).ndim >= 3:
                ctx.nontrivial += 1
        if len(ctx.samples) < 3 and case['D'] >= 2 and case['op'] in ('getitem', 'setitem'):
            ctx.samples.append(to_jsonable(case))
        try:
            r = f(ctx, case)
        except Exception as ex:
            r = 'harness-exception-%s: %s' % (case['op'], type(ex).__name__ + ':' + str(ex)[:100])
        if r:
            ctx.report(case, 'failure', r)

    n = 400 if ctx.tier == 'quick' else 5000
    for i in range(n):
        do(getitem_case(rng, ctx.tier), getitem_fails)
    for i in range(n // 2):
        do(setitem_case(rng, ctx.tier), setitem_fails)
    for i in range(n // 4):
        do(overlap_case(rng, ctx.tier), overlap_fails)
    for i in range(n):
        do(shapeop_case(rng, ctx.tier), shapeop_fails)
    # symvec of NON-symmetric matrices for every storage convention (only the named triangle defines the matrix), on every run
    for uplo in ('F', 'L', 'U', None):
        for n_ in (2, 3):
            D_, P_ = rng.randint(1, 3), rng.randint(1, 2)
            xs = np.array(intdata(rng, (D_, P_, n_, n_)), dtype=float)
            xs = xs + np.triu(np.ones((n_, n_)), 1) * 7.0          # upper and lower triangle certainly differ
            if uplo in ('F', None):
                xs = xs + np.swapaxes(xs, 2, 3)
            do({'op': 'symvec', 'D': D_, 'P': P_, 'x': xs, 'uplo': uplo}, shapeop_fails)
    # sum over a tuple of axes with negative entries, on every run
    for axes in ([-1], [0, -1], [-2, -1], [-3], [1, -3], [-1, 0]):
        D_, P_ = rng.randint(1, 3), rng.randint(1, 2)
        do({'op': 'sum', 'D': D_, 'P': P_, 'x': intdata(rng, (D_, P_, 2, 3, 4)), 'axis': axes}, shapeop_fails)
    # tril / triu of matrices whose discarded triangle holds inf / nan, on every run
    for op_ in ('tril', 'triu'):
        for k_ in (-1, 0, 1):
            D_, P_ = rng.randint(1, 3), rng.randint(1, 2)
            xf = np.array(intdata(rng, (D_, P_, 3, 3)), dtype=float)
            for (r_, c_) in ((0, 2), (2, 0), (0, 1), (1, 0)):
                xf[:, :, r_, c_] = rng.choice([np.inf, -np.inf, np.nan])
            do({'op': op_, 'D': D_, 'P': P_, 'x': xf, 'k': k_}, shapeop_fails)
    # every form of the shape argument of reshape on every run (the separate-integers form of the method included)
    for t in ((3, 2), (6,), (1, 2, 3), (3, -1), (-1,)):
        for form in ['tuple', 'list', 'npints', 'method', 'method-list', 'varargs', 'fn-order', 'method-order-kw'] + (['int', 'npint', 'method-npint'] if len(t) == 1 else []):
            D_, P_ = rng.randint(1, 3), rng.randint(1, 2)
            do({'op': 'reshape', 'D': D_, 'P': P_, 'x': intdata(rng, (D_, P_, 2, 3)), 'shape': list(t), 'form': form}, shapeop_fails)
    if ctx.tier == 'thorough':
        cnt = 0
        for shape, idx in all_small_indices():
            do(getitem_case(rng, ctx.tier, shape=shape, idx=idx), getitem_fails)
            cnt += 1
        ctx.dist['exhaustive_small_index_expressions'] = cnt
