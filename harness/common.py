"""Shared infrastructure of the correspondence harness.

* forces `/repo` (the working tree) onto sys.path and asserts that algopy was imported
  from there (a stale copy lives in /venv's site-packages);
* talks to the compiled Lean model driver over JSON lines;
* exact encoding of floats / complex numbers as (Gaussian) rationals.
"""
import os, sys, json, subprocess, math, itertools, hashlib
from fractions import Fraction as F

REPO = os.environ.get('ALGOPY_REPO', '/repo')
VERIF = os.path.dirname(os.path.dirname(os.path.abspath(__file__)))
sys.dont_write_bytecode = True
os.environ['PYTHONDONTWRITEBYTECODE'] = '1'
if sys.path[0] != REPO:
    sys.path.insert(0, REPO)

import warnings
warnings.filterwarnings('ignore')
import numpy as np

try:
    import algopy
except Exception as e:  # an edit that breaks import is a broken build, not a violation
    print('BROKEN: cannot import algopy from %s: %r' % (REPO, e))
    sys.exit(2)
if not os.path.abspath(algopy.__file__).startswith(os.path.abspath(REPO) + os.sep):
    print('BROKEN: algopy imported from %s, not from %s' % (algopy.__file__, REPO))
    sys.exit(2)
from algopy import UTPM

np.seterr(all='ignore')

DRIVER = os.path.join(VERIF, 'lean', '.lake', 'build', 'bin', 'algopy_model')


# ----------------------------------------------------------------------------------
# exact encoding
def fr(x):
    """float / int / Fraction -> Fraction (exact)"""
    if isinstance(x, F):
        return x
    if isinstance(x, (int, np.integer)):
        return F(int(x))
    return F(float(x))


def enc_num(x, cplx=False):
    if cplx:
        z = complex(x)
        return '%s,%s' % (enc_num(z.real), enc_num(z.imag))
    q = fr(x)
    return str(q.numerator) if q.denominator == 1 else '%d/%d' % (q.numerator, q.denominator)


def enc_arr(a, cplx=False):
    a = np.asarray(a)
    return {'s': list(a.shape), 'd': [enc_num(v, cplx) for v in a.ravel().tolist()]}


def dec_num(s):
    if ',' in s:
        a, b = s.split(',')
        return complex(float(F(a)), float(F(b)))
    return float(F(s))


def dec_frac(s):
    if ',' in s:
        a, b = s.split(',')
        return (F(a), F(b))
    return F(s)


def dec_arr(j):
    shape = tuple(j['s'])
    vals = [dec_num(s) for s in j['d']]
    cplx = any(isinstance(v, complex) for v in vals)
    return np.array(vals, dtype=complex if cplx else float).reshape(shape)


# ----------------------------------------------------------------------------------
class Model:
    """the compiled Lean model (one subprocess, JSON lines)"""

    def __init__(self):
        if not os.path.exists(DRIVER):
            print('BROKEN: model driver %s not built (run setup_cmd)' % DRIVER)
            sys.exit(2)
        self.p = subprocess.Popen([DRIVER], stdin=subprocess.PIPE, stdout=subprocess.PIPE,
                                  text=True, bufsize=1)
        self.n = 0

    def ask(self, req):
        self.p.stdin.write(json.dumps(req) + '\n')
        self.p.stdin.flush()
        line = self.p.stdout.readline()
        self.n += 1
        if not line:
            raise RuntimeError('model driver died on %r' % (req,))
        return json.loads(line)

    def arrs(self, req):
        """returns list of numpy arrays or the string 'error:<what>'"""
        r = self.ask(req)
        if 'error' in r:
            return 'error:' + r['error']
        return [dec_arr(a) for a in r['r']]

    def close(self):
        try:
            self.p.stdin.close()
            self.p.wait(timeout=5)
        except Exception:
            self.p.kill()


# ----------------------------------------------------------------------------------
TOL = 1e-9


def close(impl, model, tol=TOL):
    """|impl - model| <= tol * max(1, |model|_inf), shapes equal, no nan"""
    impl = np.asarray(impl)
    model = np.asarray(model)
    if impl.shape != model.shape:
        return False
    if impl.size == 0:
        return True
    if not np.all(np.isfinite(impl)):
        return False
    scale = max(1.0, float(np.max(np.abs(model))))
    return bool(np.max(np.abs(impl - model)) <= tol * scale)


def maxdiff(impl, model):
    impl = np.asarray(impl)
    model = np.asarray(model)
    if impl.shape != model.shape:
        return 'shape %s vs %s' % (impl.shape, model.shape)
    if impl.size == 0:
        return 0.0
    return float(np.max(np.abs(impl - model)))


# ----------------------------------------------------------------------------------
# value generators (all randomness from the rng passed in)
def dyadic(rng, lo=-2.0, hi=2.0, bits=4):
    k = 1 << bits
    return rng.randint(int(lo * k), int(hi * k)) / k


def rand_coeffs(rng, shape, lo=-2.0, hi=2.0, sparse=0.0, cplx=False):
    a = np.empty(shape, dtype=complex if cplx else float)
    it = a.reshape(-1)
    for i in range(it.size):
        if rng.random() < sparse:
            it[i] = 0.0
        elif cplx:
            it[i] = complex(dyadic(rng, lo, hi), dyadic(rng, lo, hi))
        else:
            it[i] = dyadic(rng, lo, hi)
    return a


def rand_shape(rng, maxdim=2, maxext=3):
    nd = rng.choice([0, 1, 1, 2, 2, 3][: maxdim + 3]) if maxdim >= 3 else rng.choice([0, 1, 1, 2][: maxdim + 2])
    nd = min(nd, maxdim)
    return tuple(rng.randint(1, maxext) for _ in range(nd))


def canon_hash(obj):
    return hashlib.sha1(json.dumps(obj, sort_keys=True, default=str).encode()).hexdigest()


def to_jsonable(o):
    if isinstance(o, np.ndarray):
        if np.iscomplexobj(o):
            return {'__nd__': True, 'shape': list(o.shape), 'cplx': True,
                    'data': [[v.real, v.imag] for v in o.ravel().tolist()]}
        return {'__nd__': True, 'shape': list(o.shape), 'dtype': str(o.dtype), 'data': o.ravel().tolist()}
    if isinstance(o, (np.floating,)):
        return float(o)
    if isinstance(o, (np.integer,)):
        return int(o)
    if isinstance(o, complex):
        return {'__c__': [o.real, o.imag]}
    if isinstance(o, dict):
        return {k: to_jsonable(v) for k, v in o.items()}
    if isinstance(o, (list, tuple)):
        return [to_jsonable(v) for v in o]
    if isinstance(o, F):
        return {'__f__': str(o)}
    if isinstance(o, slice):
        return {'__slice__': [o.start, o.stop, o.step]}
    if o is Ellipsis:
        return {'__ellipsis__': True}
    return o


def from_jsonable(o):
    if isinstance(o, dict):
        if o.get('__nd__'):
            if o.get('cplx'):
                return np.array([complex(a, b) for a, b in o['data']], dtype=complex).reshape(o['shape'])
            return np.array(o['data'], dtype=o.get('dtype', 'float64')).reshape(o['shape'])
        if '__c__' in o:
            return complex(*o['__c__'])
        if '__f__' in o:
            return F(o['__f__'])
        if '__slice__' in o:
            return slice(*o['__slice__'])
        if '__ellipsis__' in o:
            return Ellipsis
        return {k: from_jsonable(v) for k, v in o.items()}
    if isinstance(o, list):
        return [from_jsonable(v) for v in o]
    return o
