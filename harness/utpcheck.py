"""The exported convenience class algopy.UTP (documented as UTPM with a friendlier constructor): every operation on UTP
objects gives the coefficients the same operation gives on UTPM objects holding the same data, in the (D,P)+shape layout.
Tables per property; used by C07, C08, C09 and C13 (operators and element-wise functions: C01 / C02)."""
import numpy as np
from common import *
import ops


def _sq(rng, D, P, n, kind):
    return ops.gen_square(rng, D, P, n, kind)


TABLES = {
    'C13': {
        'reshape-method': (lambda a: a.reshape((3, 2)), (2, 3)), 'reshape-fn': (lambda a: algopy.reshape(a, (6,)), (2, 3)),
        'reshape-varargs': (lambda a: a.reshape(3, 2), (2, 3)), 'T': (lambda a: a.T, (2, 3)), 'transpose': (lambda a: algopy.transpose(a), (2, 3)),
        'tile': (lambda a: algopy.tile(a, 2), (2, 3)), 'diag-of-matrix': (lambda a: algopy.diag(a), (3, 3)), 'diag-of-vector': (lambda a: algopy.diag(a), (3,)),
        'triu': (lambda a: algopy.triu(a), (3, 3)), 'tril': (lambda a: algopy.tril(a), (3, 3)), 'trace': (lambda a: algopy.trace(a), (3, 3)),
        'real': (lambda a: algopy.real(a), (2, 3)), 'imag': (lambda a: algopy.imag(a), (2, 3)), 'conjugate': (lambda a: algopy.conjugate(a), (2, 3)),
        'negative': (lambda a: -a, (2, 3)), 'sum-axis': (lambda a: algopy.sum(a, axis=0), (2, 3)), 'sum': (lambda a: algopy.sum(a), (2, 3)),
        'getitem': (lambda a: a[1:, ::2], (3, 3)), 'zeros_like': (lambda a: algopy.zeros_like(a), (2, 3)), 'ones_like': (lambda a: algopy.ones_like(a), (2, 3)),
        'zeros': (lambda a: algopy.zeros((2, 2), dtype=a), (2, 3)), 'ones': (lambda a: algopy.ones((2, 2), dtype=a), (2, 3)),
        'symvec': (lambda a: algopy.symvec(a + a.T), (3, 3)), 'vecsym': (lambda a: algopy.vecsym(a), (6,)),
        'fft': (lambda a: algopy.fft.fft(a, axis=0), (2, 3)), 'ifft': (lambda a: algopy.fft.ifft(a, axis=-1), (2, 3)),
    },
    'C07': {
        'dot': (lambda a: algopy.dot(a, a), 'general'), 'dot-const': (lambda a: algopy.dot(a, np.eye(3) * 2.0), 'general'),
        'outer': (lambda a: algopy.outer(a[0], a[1]), 'general'), 'inv': (lambda a: algopy.inv(a), 'general'),
        'solve': (lambda a: algopy.solve(a, a[:, :1] * 2.0 + 1.0), 'general'), 'det': (lambda a: algopy.det(a), 'general'),
        'logdet': (lambda a: algopy.logdet(a), 'spd'), 'trace': (lambda a: algopy.trace(a), 'general'), 'expm': (lambda a: algopy.expm(a * 0.05), 'general'),
    },
    'C08': {
        'qr': (lambda a: algopy.qr(a), 'general'), 'qr_full': (lambda a: algopy.qr_full(a), 'general'), 'cholesky': (lambda a: algopy.cholesky(a), 'spd'),
        'lu': (lambda a: algopy.lu(a), 'general'), 'eigh': (lambda a: algopy.eigh(a), 'sym'), 'svd': (lambda a: algopy.svd(a)[1], 'general'),
    },
}


def _datas(r):
    rs = r if isinstance(r, (tuple, list)) else [r]
    return [np.array(o.data) if isinstance(o, UTPM) else np.asarray(o) for o in rs]


def fails(prop, name, rng, vectorized):
    f, spec = TABLES[prop][name]
    D, P = rng.randint(1, 3), (rng.randint(1, 2) if vectorized else 1)
    if isinstance(spec, str):
        x = _sq(rng, D, P, 3, spec)
    else:
        x = rand_coeffs(rng, (D, P) + tuple(spec), -2, 2)

    def mk(a):
        return algopy.UTP(a.copy(), vectorized=True) if vectorized else algopy.UTP(a[:, 0].copy())
    try:
        with np.errstate(all='ignore'):
            want = _datas(f(UTPM(x.copy())))
    except Exception:
        return None
    try:
        with np.errstate(all='ignore'):
            got = _datas(f(mk(x)))
    except Exception as ex:
        return 'utpclass-exception-%s: on UTP objects raised %s; the same call on UTPM objects works' % (name, type(ex).__name__ + ':' + str(ex)[:70])
    for g, w in zip(got, want):
        if g.shape != w.shape:
            return 'utpclass-layout-%s: on UTP objects the result coefficient array has shape %s, on UTPM objects %s' % (name, g.shape, w.shape)
        if not close(g, w, 1e-10):
            return 'utpclass-value-%s: coefficients differ from the same operation on UTPM objects' % name
    return None


def run(ctx, prop):
    """every table entry of the property, both constructor forms, on every run"""
    for name in sorted(TABLES[prop]):
        for vectorized in (False, True):
            case = {'op': 'utpclass-table', 'prop': prop, 'name': name, 'vectorized': vectorized, 'seed': ctx.rng.randrange(1 << 30)}
            ctx.evaluations += 1
            ctx.count('utpclass=' + name)
            f = replay(case)
            if f:
                ctx.report(case, 'failure', f)


def replay(case):
    import random
    return fails(case['prop'], case['name'], random.Random(case['seed']), case['vectorized'])
