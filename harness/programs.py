"""Straight-line programs over the differentiable API (shared by C03, C04, C05, C06).

A program is JSON-able:
    {'inputs': [shape, ...], 'steps': [step, ...], 'out': var}
Variables are numbered: inputs first, then one per value-producing step.  The same step list is
interpreted on tracer nodes (algopy.Function), on UTPM instances and on plain ndarrays, because
every step only uses the public algopy namespace.

The generator tracks an interval [lo, hi] for the zeroth coefficient of every variable (valid
for all inputs in the box [-1.5, 1.5]^n), so that log/sqrt/division/inverse are only applied
inside their domain of smoothness — at the recording point *and* at any other evaluation point.
"""
import math
import numpy as np
import algopy
from algopy import UTPM

BOX = 1.5

# element-wise functions: name -> (callable, interval map, domain predicate)
def _mono(f):
    return lambda lo, hi: (f(lo), f(hi))


def _sym_even(f):
    # even function increasing in |x|
    def g(lo, hi):
        m = 0.0 if lo <= 0 <= hi else min(abs(lo), abs(hi))
        M = max(abs(lo), abs(hi))
        return f(m), f(M)
    return g


EW = {
    'sin': (algopy.sin, lambda lo, hi: (-1.0, 1.0), lambda lo, hi: True),
    'cos': (algopy.cos, lambda lo, hi: (-1.0, 1.0), lambda lo, hi: True),
    'tanh': (algopy.tanh, _mono(math.tanh), lambda lo, hi: True),
    'arctan': (algopy.arctan, _mono(math.atan), lambda lo, hi: True),
    'sinh': (algopy.sinh, _mono(math.sinh), lambda lo, hi: hi < 3 and lo > -3),
    'cosh': (algopy.cosh, _sym_even(math.cosh), lambda lo, hi: hi < 3 and lo > -3),
    'exp': (algopy.exp, _mono(math.exp), lambda lo, hi: hi < 3),
    'expm1': (algopy.expm1, _mono(math.expm1), lambda lo, hi: hi < 3),
    'square': (algopy.square, _sym_even(lambda v: v * v), lambda lo, hi: max(abs(lo), abs(hi)) < 6),
    'negative': (algopy.negative, lambda lo, hi: (-hi, -lo), lambda lo, hi: True),
    'log': (algopy.log, _mono(math.log), lambda lo, hi: lo > 0.2),
    'log1p': (algopy.log1p, _mono(math.log1p), lambda lo, hi: lo > -0.7),
    'sqrt': (algopy.sqrt, _mono(math.sqrt), lambda lo, hi: lo > 0.2),
    'reciprocal': (algopy.reciprocal, lambda lo, hi: (1 / hi, 1 / lo), lambda lo, hi: lo > 0.2),
    'tan': (algopy.tan, _mono(math.tan), lambda lo, hi: lo > -1.2 and hi < 1.2),
    'arcsin': (algopy.arcsin, _mono(math.asin), lambda lo, hi: lo > -0.8 and hi < 0.8),
    'arccos': (algopy.arccos, lambda lo, hi: (math.acos(hi), math.acos(lo)), lambda lo, hi: lo > -0.8 and hi < 0.8),
    'erf': (algopy.special.erf, _mono(math.erf), lambda lo, hi: True),
    'expit': (algopy.special.expit, _mono(lambda v: 1 / (1 + math.exp(-v))), lambda lo, hi: True),
    'logit': (algopy.special.logit, _mono(lambda v: math.log(v / (1 - v))), lambda lo, hi: lo > 0.15 and hi < 0.85),
    'dawsn': (algopy.special.dawsn, lambda lo, hi: (-0.6, 0.6), lambda lo, hi: True),
    'gammaln': (algopy.special.gammaln, lambda lo, hi: (-0.2, max(math.lgamma(lo), math.lgamma(hi))), lambda lo, hi: lo > 0.6 and hi < 5),
    'psi': (algopy.special.psi, lambda lo, hi: (-2.0, 2.0), lambda lo, hi: lo > 0.6 and hi < 5),
    # polygamma with an ARRAY of orders (one per entry; the array is a constant held by the recorded node)
    'polygammaA': (lambda x: algopy.special.polygamma((np.arange(int(np.prod(x.shape))) % 3).reshape(x.shape), x),
                   lambda lo, hi: (-12.0, 5.0), lambda lo, hi: lo > 0.6 and hi < 5),
    'absolute': (algopy.absolute, _sym_even(abs), lambda lo, hi: lo > 0.2 or hi < -0.2),
    'sign': (algopy.sign, lambda lo, hi: (-1.0, 1.0), lambda lo, hi: lo > 0.2 or hi < -0.2),
    'conjugate': (algopy.conjugate, lambda lo, hi: (lo, hi), lambda lo, hi: True),      # on real data: the identity, still one node
    'real': (algopy.real, lambda lo, hi: (lo, hi), lambda lo, hi: True),                  # on real data: the identity
    'imag': (algopy.imag, lambda lo, hi: (0.0, 0.0), lambda lo, hi: True),                # on real data: zero
    # real value -> complex intermediate -> real value, through subtraction / division / power nodes whose result is complex while
    # one operand is real
    'csub': (lambda x: algopy.imag(x * (1.0 + 2.0j) - x) + algopy.real(x - x * (0.5 + 1.0j)), lambda lo, hi: (2.5 * lo, 2.5 * hi),
             lambda lo, hi: max(abs(lo), abs(hi)) < 6),
    'cdiv': (lambda x: algopy.imag(x * (1.0 + 2.0j) / (x * x + 1.0)) + algopy.imag((2.0 + 1.0j) / (x * x + 1.0)), lambda lo, hi: (-1.0, 2.0),
             lambda lo, hi: max(abs(lo), abs(hi)) < 4),
    'cpow': (lambda x: algopy.real((x * x + 1.0) ** (1.0 + 1.0j)), lambda lo, hi: (-(max(abs(lo), abs(hi)) ** 2 + 1), max(abs(lo), abs(hi)) ** 2 + 1),
             lambda lo, hi: max(abs(lo), abs(hi)) < 3),
    'pow2': (lambda x: x ** 2, _sym_even(lambda v: v * v), lambda lo, hi: max(abs(lo), abs(hi)) < 6),
    'pow3': (lambda x: x ** 3, _mono(lambda v: v ** 3), lambda lo, hi: max(abs(lo), abs(hi)) < 4),
    'powm2': (lambda x: x ** (-2), lambda lo, hi: (1 / hi ** 2, 1 / lo ** 2), lambda lo, hi: lo > 0.3),
    'pow1.5': (lambda x: x ** 1.5, _mono(lambda v: v ** 1.5), lambda lo, hi: lo > 0.2 and hi < 8),
}

BIN = {'add': lambda a, b: a + b, 'sub': lambda a, b: a - b, 'mul': lambda a, b: a * b, 'div': lambda a, b: a / b,
       'pow': lambda a, b: a ** b}


# element-wise functions the tracer can record (Function has a method / pb_* exists)
TRACEABLE = {'sin', 'cos', 'tan', 'exp', 'expm1', 'square', 'negative', 'log', 'log1p', 'sqrt', 'reciprocal', 'erf', 'expit',
             'logit', 'dawsn', 'gammaln', 'psi', 'absolute', 'sign', 'pow2', 'pow3', 'powm2', 'pow1.5', 'conjugate', 'real', 'imag', 'polygammaA', 'csub', 'cdiv', 'cpow'}


def _imul(a, b):
    c = [a[0] * b[0], a[0] * b[1], a[1] * b[0], a[1] * b[1]]
    return min(c), max(c)


def _bin_iv(fn, a, b):
    if fn == 'add':
        return a[0] + b[0], a[1] + b[1]
    if fn == 'sub':
        return a[0] - b[1], a[1] - b[0]
    if fn == 'mul':
        return _imul(a, b)
    return _imul(a, (1 / b[1], 1 / b[0]))


def bshape(s, t):
    try:
        return tuple(np.broadcast_shapes(s, t))
    except ValueError:
        return None


class Gen:
    def __init__(self, rng, n_inputs=1, maxsteps=8, allow=None, size=3):
        self.rng = rng
        self.vars = []      # dicts: shape, iv, buf(bool), view_of
        self.steps = []
        self.maxsteps = maxsteps
        self.allow = allow
        self.size = size

    def new(self, shape, iv, **kw):
        d = {'shape': tuple(shape), 'iv': (float(iv[0]), float(iv[1]))}
        d.update(kw)
        self.vars.append(d)
        return len(self.vars) - 1

    def pick(self, pred=lambda v: True):
        c = [i for i, v in enumerate(self.vars) if pred(v) and not v.get('dead')]
        return self.rng.choice(c) if c else None

    def ok_mag(self, iv):
        return -40 < iv[0] <= iv[1] < 40

    # ---- step constructors: return True if a step was added
    def s_ew(self):
        names = [n for n in EW if (self.allow is None and n in TRACEABLE) or (self.allow is not None and (('ew:' + n) in self.allow or 'ew' in self.allow))]
        self.rng.shuffle(names)
        for n in names[:6]:
            a = self.pick(lambda v: EW[n][2](*v['iv']))
            if a is None:
                continue
            iv = EW[n][1](*self.vars[a]['iv'])
            if not self.ok_mag(iv):
                continue
            self.steps.append({'op': 'ew', 'fn': n, 'a': a})
            self.new(self.vars[a]['shape'], iv)
            return True
        return False

    def s_bin(self):
        fn = self.rng.choice(['add', 'sub', 'mul', 'div', 'mul', 'add'])
        a = self.pick()
        b = self.pick(lambda v: bshape(self.vars[a]['shape'], v['shape']) is not None and (fn != 'div' or v['iv'][0] > 0.2))
        if b is None:
            return False
        iv = _bin_iv(fn, self.vars[a]['iv'], self.vars[b]['iv'])
        if not self.ok_mag(iv):
            return False
        self.steps.append({'op': 'bin', 'fn': fn, 'a': a, 'b': b})
        self.new(bshape(self.vars[a]['shape'], self.vars[b]['shape']), iv)
        return True

    def s_maxmin(self):
        """element-wise maximum / minimum of two values of the same shape through the public dispatcher"""
        a = self.pick(lambda v: not v.get('buf'))
        if a is None:
            return False
        sh = self.vars[a]['shape']
        b = self.pick(lambda v: v['shape'] == sh and v is not self.vars[a] and not v.get('buf'))
        if b is None:
            return False
        fn = self.rng.choice(['maximum', 'minimum'])
        self.steps.append({'op': 'maxmin', 'fn': fn, 'a': a, 'b': b})
        (l1, h1), (l2, h2) = self.vars[a]['iv'], self.vars[b]['iv']
        self.new(sh, (max(l1, l2), max(h1, h2)) if fn == 'maximum' else (min(l1, l2), min(h1, h2)))
        return True

    def s_powbin(self):
        """base ** exponent with both operands program values (forward evaluation only: the reverse sweep documents
        NotImplementedError for a polynomial exponent)"""
        a = self.pick(lambda v: v['iv'][0] > 0.3 and v['iv'][1] < 8)
        if a is None:
            return False
        b = self.pick(lambda v: bshape(self.vars[a]['shape'], v['shape']) is not None and max(abs(v['iv'][0]), abs(v['iv'][1])) <= 3)
        if b is None:
            return False
        la = (math.log(self.vars[a]['iv'][0]), math.log(self.vars[a]['iv'][1]))
        e = _imul(la, self.vars[b]['iv'])
        iv = (math.exp(e[0]), math.exp(e[1]))
        if not self.ok_mag(iv):
            return False
        self.steps.append({'op': 'bin', 'fn': 'pow', 'a': a, 'b': b})
        self.new(bshape(self.vars[a]['shape'], self.vars[b]['shape']), iv)
        return True

    def s_binc(self):
        fn = self.rng.choice(['add', 'sub', 'mul', 'div'])
        side = self.rng.choice(['r', 'l'])
        a = self.pick(lambda v: not (fn == 'div' and side == 'l') or v['iv'][0] > 0.2)
        if a is None:
            return False
        kind = self.rng.choice(['float', 'float', 'int', 'array', 'array_bigger'])
        sh = self.vars[a]['shape']
        if kind == 'float':
            c = self.rng.choice([0.5, 1.5, 2.0, -1.25, 3.0])
            cshape = ()
        elif kind == 'int':
            c = self.rng.choice([2, 3, -2])
            cshape = ()
        else:
            cshape = tuple(n if self.rng.random() < 0.7 else 1 for n in sh)
            if kind == 'array_bigger' and len(sh) < 2:
                cshape = (self.rng.randint(2, 3),) + cshape
            c = np.array([self.rng.choice([0.5, 1.5, 2.0, -1.25, 3.0]) for _ in range(int(np.prod(cshape)))]).reshape(cshape)
        cv = np.asarray(c, dtype=float)
        if fn == 'div' and side == 'r' and np.any(np.abs(cv) < 0.2):
            return False
        civ = (float(cv.min()), float(cv.max()))
        if fn == 'div' and side == 'r':
            # division by a constant of either sign: handle by multiplication interval with 1/c
            inv = 1.0 / cv
            iv = _imul(self.vars[a]['iv'], (float(inv.min()), float(inv.max())))
        else:
            iv = _bin_iv(fn, self.vars[a]['iv'], civ) if side == 'r' else _bin_iv(fn, civ, self.vars[a]['iv'])
        if not self.ok_mag(iv):
            return False
        self.steps.append({'op': 'binc', 'fn': fn, 'a': a, 'c': c, 'side': side})
        self.new(bshape(sh, cshape), iv)
        return True

    def s_getitem(self):
        a = self.pick(lambda v: len(v['shape']) >= 1)
        if a is None:
            return False
        sh = self.vars[a]['shape']
        idx = []
        for n in sh[: self.rng.randint(1, len(sh))]:
            idx.append(self.rng.choice([self.rng.randint(-n, n - 1), slice(None), slice(0, n, 2), slice(None, None, -1), slice(1, None)]))
        if self.rng.random() < 0.15:
            idx.insert(self.rng.randint(0, len(idx)), None)
        if self.rng.random() < 0.15 and len(idx) < len(sh):
            idx.append(Ellipsis)
        try:
            nshape = np.zeros(sh)[tuple(idx)].shape
        except Exception:
            return False
        if int(np.prod(nshape)) == 0:
            return False
        bare = len(idx) == 1 and self.rng.random() < 0.5
        self.steps.append({'op': 'getitem', 'a': a, 'idx': idx, 'bare': bare})
        self.new(nshape, self.vars[a]['iv'], view=True)
        return True

    def s_sum(self):
        a = self.pick(lambda v: len(v['shape']) >= 1)
        if a is None:
            return False
        sh = self.vars[a]['shape']
        axis = self.rng.choice([None] + list(range(-len(sh), len(sh))))
        n = int(np.prod(sh)) if axis is None else sh[axis]
        iv = (self.vars[a]['iv'][0] * n, self.vars[a]['iv'][1] * n) if self.vars[a]['iv'][0] <= 0 else (self.vars[a]['iv'][0] * n, self.vars[a]['iv'][1] * n)
        lo, hi = self.vars[a]['iv']
        iv = (min(lo * n, lo), max(hi * n, hi)) if n >= 1 else (lo, hi)
        iv = (lo * n if lo < 0 else lo * n, hi * n if hi > 0 else hi * n)
        if not self.ok_mag(iv):
            return False
        nshape = () if axis is None else tuple(s for i, s in enumerate(sh) if i != axis % len(sh))
        self.steps.append({'op': 'sum', 'a': a, 'axis': axis})
        self.new(nshape, iv)
        return True

    def s_prod(self):
        a = self.pick(lambda v: len(v['shape']) == 1 and max(abs(v['iv'][0]), abs(v['iv'][1])) < 2.5)
        if a is None:
            return False
        n = self.vars[a]['shape'][0]
        M = max(abs(self.vars[a]['iv'][0]), abs(self.vars[a]['iv'][1])) ** n
        self.steps.append({'op': 'prod', 'a': a})
        self.new((), (-M, M))
        return True

    def s_transpose(self):
        a = self.pick(lambda v: len(v['shape']) == 2)
        if a is None:
            return False
        self.steps.append({'op': 'transpose', 'a': a, 'how': self.rng.choice(['T', 'fn'])})
        self.new(self.vars[a]['shape'][::-1], self.vars[a]['iv'], view=True, noncontig=True)
        return True

    def s_reshape(self):
        a = self.pick(lambda v: int(np.prod(v['shape'])) in (2, 3, 4, 6, 9))
        if a is None:
            return False
        n = int(np.prod(self.vars[a]['shape']))
        opts = {2: [(2,), (1, 2), (2, 1)], 3: [(3,), (3, 1), (1, 3)], 4: [(4,), (2, 2)], 6: [(6,), (2, 3), (3, 2)], 9: [(9,), (3, 3)]}[n]
        t = self.rng.choice(opts)
        self.steps.append({'op': 'reshape', 'a': a, 'shape': list(t), 'how': self.rng.choice(['fn', 'method', 'varargs'])})
        self.new(t, self.vars[a]['iv'], view=True)
        return True

    def s_dot(self):
        a = self.pick(lambda v: len(v['shape']) in (1, 2))
        if a is None:
            return False
        sa = self.vars[a]['shape']
        b = self.pick(lambda v: len(v['shape']) in (1, 2) and v['shape'][0] == sa[-1])
        if b is None:
            return False
        sb = self.vars[b]['shape']
        k = sa[-1]
        M = max(abs(x) for x in self.vars[a]['iv']) * max(abs(x) for x in self.vars[b]['iv']) * k
        if M > 40:
            return False
        nshape = sa[:-1] + sb[1:]
        self.steps.append({'op': 'dot', 'a': a, 'b': b})
        self.new(nshape, (-M, M))
        return True

    def s_dotc(self):
        a = self.pick(lambda v: len(v['shape']) in (1, 2))
        if a is None:
            return False
        sa = self.vars[a]['shape']
        side = self.rng.choice(['l', 'r'])
        if side == 'r':
            cshape = (sa[-1],) + ((self.rng.randint(1, 3),) if self.rng.random() < 0.6 else ())
        else:
            cshape = ((self.rng.randint(1, 3),) if self.rng.random() < 0.6 else ()) + (sa[0],)
        c = np.array([self.rng.choice([0.5, 1.0, -1.5, 2.0]) for _ in range(int(np.prod(cshape)))]).reshape(cshape)
        M = max(abs(x) for x in self.vars[a]['iv']) * 2 * max(cshape)
        if M > 40:
            return False
        nshape = (sa[:-1] + cshape[1:]) if side == 'r' else (cshape[:-1] + sa[1:])
        self.steps.append({'op': 'dotc', 'a': a, 'c': c, 'side': side})
        self.new(nshape, (-M, M))
        return True

    def s_outer(self):
        # mostly vectors; also matrices (numpy.outer flattens operands of any rank)
        rk = (1, 2) if self.rng.random() < 0.3 else (1,)
        a = self.pick(lambda v: len(v['shape']) in rk and int(np.prod(v['shape'])) <= 4)
        b = self.pick(lambda v: len(v['shape']) in rk and int(np.prod(v['shape'])) <= 4)
        if a is None or b is None:
            return False
        iv = _imul(self.vars[a]['iv'], self.vars[b]['iv'])
        if not self.ok_mag(iv):
            return False
        self.steps.append({'op': 'outer', 'a': a, 'b': b})
        self.new((int(np.prod(self.vars[a]['shape'])), int(np.prod(self.vars[b]['shape']))), iv)
        return True

    def s_buffer(self):
        """allocate a buffer with zeros(…, dtype=x), fill all entries from existing values, maybe overwrite"""
        src = self.pick(lambda v: len(v['shape']) <= 1)
        if src is None:
            return False
        n = self.rng.randint(1, 3)
        fill = self.rng.choice(['zeros', 'zeros', 'ones'])
        self.steps.append({'op': fill, 'shape': [n], 'like': src})
        f0 = 1.0 if fill == 'ones' else 0.0
        buf = self.new((n,), (f0, f0), buf=True)
        lo, hi = f0, f0
        views = []          # views of the buffer: their value changes with later writes, so their interval is the hull
        writes = list(range(n))
        if fill == 'ones' and n > 1:
            writes = writes[:self.rng.randint(0, n - 1)]      # some entries keep the constant 1
        if self.rng.random() < 0.5:
            writes.append(self.rng.randrange(n))        # overwrite one entry
        for k in writes:
            v = self.pick(lambda w: int(np.prod(w['shape'])) == 1 or w['shape'] == ())
            if v is None:
                v = self.pick(lambda w: len(w['shape']) >= 1 and not w.get('buf'))
                if v is None:
                    continue
                # take an element
                idx = [self.rng.randrange(s) for s in self.vars[v]['shape']]
                self.steps.append({'op': 'getitem', 'a': v, 'idx': idx, 'bare': False})
                v = self.new((), self.vars[v]['iv'], view=True)
            if self.vars[v]['shape'] != ():
                self.steps.append({'op': 'sum', 'a': v, 'axis': None})
                v = self.new((), self.vars[v]['iv'])
            self.steps.append({'op': 'setitem', 'buf': buf, 'idx': [k], 'val': v})
            lo, hi = min(lo, self.vars[v]['iv'][0]), max(hi, self.vars[v]['iv'][1])
            self.vars[buf]['iv'] = (lo, hi)             # keep current: the buffer itself may be picked as a source below
            if self.rng.random() < 0.3:
                # read the entry back (a view of the buffer) and use it
                self.steps.append({'op': 'getitem', 'a': buf, 'idx': [k], 'bare': True})
                views.append(self.new((), (lo, hi), view=True))
        self.vars[buf]['iv'] = (lo, hi)
        # in-place accumulation: buf[k] = buf[k] * w (the old entry is read through a view, used non-linearly and then
        # overwritten; the same entry may be updated twice)
        for _ in range(self.rng.choice([0, 0, 1, 2])):
            k = self.rng.randrange(n)
            w = self.pick(lambda u: (int(np.prod(u['shape'])) == 1 or u['shape'] == ()) and max(abs(u['iv'][0]), abs(u['iv'][1])) <= 3
                          and not any(u is self.vars[g_] for g_ in views) and u is not self.vars[buf])
            if w is None or max(abs(lo), abs(hi)) > 6:
                break
            self.steps.append({'op': 'getitem', 'a': buf, 'idx': [k], 'bare': self.rng.random() < 0.5})
            g = self.new((), (lo, hi), view=True)
            views.append(g)
            ws = self.vars[w]['shape']
            if ws != ():
                self.steps.append({'op': 'sum', 'a': w, 'axis': None})
                w = self.new((), self.vars[w]['iv'])
            iv = _imul((lo, hi), self.vars[w]['iv'])
            self.steps.append({'op': 'bin', 'fn': 'mul', 'a': g, 'b': w})
            m = self.new((), iv)
            self.steps.append({'op': 'setitem', 'buf': buf, 'idx': [k], 'val': m})
            lo, hi = min(lo, iv[0]), max(hi, iv[1])
            self.vars[buf]['iv'] = (lo, hi)
        for g in views:
            self.vars[g]['iv'] = (lo, hi)
        self.vars[buf]['views'] = views
        return True

    def widen(self, buf, iv):
        """a later write into a buffer changes the value of the buffer and of every view of it"""
        self.vars[buf]['iv'] = iv
        for g in self.vars[buf].get('views', []):
            self.vars[g]['iv'] = (min(iv[0], self.vars[g]['iv'][0]), max(iv[1], self.vars[g]['iv'][1]))

    def s_bufferconst(self):
        """a buffer as in s_buffer, then an entry that is already active (written from a traced value, possibly read back and
        used) is overwritten by a constant: the adjoint arriving for that entry afterwards must not reach the old writer"""
        n0 = len(self.steps)
        if not self.s_buffer():
            return False
        sets = [st for st in self.steps[n0:] if st['op'] == 'setitem']
        if not sets:
            return True
        st = self.rng.choice(sets)
        c = self.rng.choice([2.0, -0.5, 0.0, 1.25])
        self.steps.append({'op': 'setconst', 'buf': st['buf'], 'idx': list(st['idx']), 'c': c})
        lo, hi = self.vars[st['buf']]['iv']
        self.widen(st['buf'], (min(lo, c), max(hi, c)))
        return True

    def s_bufferiop(self):
        """a buffer as in s_buffer, then an augmented assignment through a slice view of it: row = buf[lo:hi]; row op= c
        (NumPy and UTPM update the buffer in place through the view)"""
        n0 = len(self.steps)
        if not self.s_buffer():
            return False
        sets = [st for st in self.steps[n0:] if st['op'] == 'setitem']
        if not sets:
            return True
        buf = sets[0]['buf']
        n = self.vars[buf]['shape'][0]
        lo = self.rng.randrange(n)
        hi = self.rng.randint(lo + 1, n)
        fn = self.rng.choice(['mul', 'add', 'sub', 'div', 'pow'])
        c = self.rng.choice([2.0, -0.5, 1.5])
        l, h = self.vars[buf]['iv']
        if fn == 'pow':
            c = self.rng.choice([2, 3])
            if max(abs(l), abs(h)) > 3:
                fn, c = 'mul', 0.5
        self.steps.append({'op': 'iopview', 'buf': buf, 'lo': lo, 'hi': hi, 'fn': fn, 'c': c})
        m_ = max(abs(l), abs(h))
        cand = ({'mul': [l * c, h * c], 'div': [l / c, h / c], 'add': [l + c, h + c], 'sub': [l - c, h - c]}[fn] if fn != 'pow'
                else [-(m_ ** c), m_ ** c])
        self.widen(buf, (min(l, *cand), max(h, *cand)))
        return True

    def s_buffer2d(self):
        """a 2-D buffer filled by broadcasting assignments: buf[0:m, :] = vector, buf[:, k] = scalar"""
        vec = self.pick(lambda v: len(v['shape']) == 1 and not v.get('buf'))
        if vec is None:
            return False
        n = self.vars[vec]['shape'][0]
        m = self.rng.randint(2, 3)
        self.steps.append({'op': 'zeros', 'shape': [m, n], 'like': vec})
        buf = self.new((m, n), (0.0, 0.0), buf=True)
        self.steps.append({'op': 'setbc', 'buf': buf, 'val': vec, 'mode': 'rows'})
        lo, hi = min(0.0, self.vars[vec]['iv'][0]), max(0.0, self.vars[vec]['iv'][1])
        if self.rng.random() < 0.6:
            sc = self.pick(lambda v: v['shape'] == () and not v.get('view'))
            if sc is not None:
                k = self.rng.randrange(n)
                self.steps.append({'op': 'setbc', 'buf': buf, 'val': sc, 'mode': 'col', 'k': k})
                lo, hi = min(lo, self.vars[sc]['iv'][0]), max(hi, self.vars[sc]['iv'][1])
        self.vars[buf]['iv'] = (lo, hi)
        return True

    def s_cplxparts(self):
        """real value -> complex intermediate z (x*(1+2j) or fft(x)) -> real value, where real(z) / imag(z) are taken while z has
        another consumer recorded before or after, or twice (the adjoint of z is accumulated from several nodes)"""
        a = self.pick(lambda v: len(v['shape']) in (1, 2) and max(abs(v['iv'][0]), abs(v['iv'][1])) <= 2.5 and not v.get('buf'))
        if a is None:
            return False
        sh = self.vars[a]['shape']
        src = self.rng.choice(['scale', 'fft'])
        mode = self.rng.choice(['imag_then', 'then_imag', 'imag_twice', 'real_then', 'then_real', 'real_twice', 'imag_real'])
        m = max(abs(self.vars[a]['iv'][0]), abs(self.vars[a]['iv'][1])) * (3.0 if src == 'scale' else float(sh[-1]))
        M = m * m + 2 * m
        if M > 60:
            return False
        self.steps.append({'op': 'cplxparts', 'a': a, 'src': src, 'mode': mode})
        self.new(sh, (-M, M))
        return True

    def s_tri(self):
        """lower / upper triangle of a matrix value"""
        a = self.pick(lambda v: len(v['shape']) == 2 and not v.get('buf'))
        if a is None:
            return False
        lo, hi = self.vars[a]['iv']
        st = {'op': 'tri', 'fn': self.rng.choice(['tril', 'triu']), 'a': a}
        if self.rng.random() < 0.5:
            st['k'] = self.rng.choice([-1, 0, 1])                  # the diagonal offset, positional or by keyword
            st['kw'] = self.rng.random() < 0.5
        self.steps.append(st)
        self.new(self.vars[a]['shape'], (min(lo, 0.0), max(hi, 0.0)))
        return True

    def s_setarr(self):
        """a buffer as in s_buffer, then a slice (or one entry) of it is overwritten by a constant ndarray"""
        n0 = len(self.steps)
        if not self.s_buffer():
            return False
        sets = [st for st in self.steps[n0:] if st['op'] == 'setitem']
        if not sets:
            return True
        buf = sets[0]['buf']
        n = self.vars[buf]['shape'][0]
        lo = self.rng.randrange(n)
        hi = self.rng.randint(lo + 1, n)
        c = [self.rng.choice([2.0, -0.5, 0.0, 1.25]) for _ in range(hi - lo)]
        self.steps.append({'op': 'setarr', 'buf': buf, 'lo': lo, 'hi': hi, 'c': c, 'zerod': hi - lo == 1 and self.rng.random() < 0.5,
                           'form': self.rng.choice(['array', 'array', 'list', 'tuple'])})
        l, h = self.vars[buf]['iv']
        self.widen(buf, (min([l] + c), max([h] + c)))
        return True

    def s_realalias(self):
        """a (real) buffer as in s_buffer, r = real(buffer) (NumPy: the array itself), then a write through one of the two
        names and a read through the other"""
        n0 = len(self.steps)
        if not self.s_buffer():
            return False
        sets = [st for st in self.steps[n0:] if st['op'] == 'setitem']
        if not sets:
            return True
        buf = sets[0]['buf']
        n = self.vars[buf]['shape'][0]
        v = self.pick(lambda w: w['shape'] == () and not w.get('buf') and max(abs(w['iv'][0]), abs(w['iv'][1])) <= 6)
        if v is None:
            return True
        k = self.rng.randrange(n)
        self.steps.append({'op': 'realalias', 'buf': buf, 'k': k, 'val': v, 'mirror': self.rng.random() < 0.5})
        l, h = self.vars[buf]['iv']
        iv = (min(l, self.vars[v]['iv'][0]), max(h, self.vars[v]['iv'][1]))
        self.widen(buf, iv)
        self.new((n,), iv, view=True, buf=True)
        return True

    def s_fftfilter(self):
        """a real-linear filter through the complex FFT along one axis: real(ifft(fft(x, axis) * H, axis))"""
        a = self.pick(lambda v: len(v['shape']) in (1, 2) and max(abs(v['iv'][0]), abs(v['iv'][1])) <= 6)
        if a is None:
            return False
        sh = self.vars[a]['shape']
        axis = self.rng.choice(list(range(-len(sh), len(sh))))
        M = max(abs(self.vars[a]['iv'][0]), abs(self.vars[a]['iv'][1])) * 3.0 * sh[axis]
        if M > 40:
            return False
        self.steps.append({'op': 'fftfilter', 'a': a, 'axis': axis})
        self.new(sh, (-M, M))
        return True

    def s_symvec(self):
        """symvec of a square (non-symmetric) matrix with every UPLO through the public dispatcher, or vecsym of a vector
        of triangular length; the matrix stays available to later steps (a second consumer after the node)"""
        a = self.pick(lambda v: (len(v['shape']) == 2 and v['shape'][0] == v['shape'][1] and v['shape'][0] <= 3) or
                      (len(v['shape']) == 1 and v['shape'][0] in (1, 3, 6)))
        if a is None:
            return False
        sh = self.vars[a]['shape']
        if len(sh) == 2:
            n = sh[0]
            self.steps.append({'op': 'symvec', 'a': a, 'UPLO': self.rng.choice(['F', 'L', 'U', None])})
            self.new((n * (n + 1) // 2,), self.vars[a]['iv'])
        else:
            n = {1: 1, 3: 2, 6: 3}[sh[0]]
            self.steps.append({'op': 'vecsym', 'a': a})
            self.new((n, n), self.vars[a]['iv'])
        return True

    def s_linalg(self):
        """well-conditioned matrix from a vector/matrix value, then inv / solve / det / logdet / trace / factorisation outputs"""
        a = self.pick(lambda v: int(np.prod(v['shape'])) >= 1 and max(abs(v['iv'][0]), abs(v['iv'][1])) <= 6)
        if a is None:
            return False
        n = self.rng.choice([2, 2, 3])
        kind = self.rng.choice(['inv', 'solve', 'det', 'logdet', 'trace', 'qr', 'cholesky', 'eigh', 'eighQ', 'lu', 'svd', 'qr_full', 'eig', 'cinv', 'csolve', 'csolve_rhs', 'cexpm'])
        if self.allow is not None and ('la:' + kind) not in self.allow and 'la' not in self.allow:
            return False
        sym = kind in ('cholesky', 'eigh', 'eighQ', 'eig') or (kind == 'logdet' and self.rng.random() < 0.4)
        perm = list(range(n))
        if not sym and self.rng.random() < 0.6:
            self.rng.shuffle(perm)           # dominant entries off the diagonal: LU needs row exchanges (incl. 3-cycles)
        self.steps.append({'op': 'mkmat', 'a': a, 'n': n, 'sym': sym, 'kind': kind, 'perm': perm})
        m = self.new((n, n), (-2.0, 6.0))
        self.steps.append({'op': 'la', 'kind': kind, 'a': m})
        shape = {'inv': (n, n), 'solve': (n,), 'det': (), 'logdet': (), 'trace': (), 'qr': (n, n), 'cholesky': (n, n),
                 'eigh': (n,), 'eighQ': (n, n), 'lu': (n, n), 'svd': (n,), 'qr_full': (n, n), 'eig': (n,),
                 'cinv': (n, n), 'csolve': (n,), 'csolve_rhs': (n,), 'cexpm': (n, n)}[kind]
        self.new(shape, (-20.0, 20.0))
        return True

    def generate(self, input_shapes, out_scalar=False, kinds=None):
        for sh in input_shapes:
            self.new(sh, (-BOX, BOX))
        kinds = kinds or ['ew', 'ew', 'bin', 'bin', 'binc', 'getitem', 'sum', 'transpose', 'reshape', 'dot', 'dotc',
                          'outer', 'prod', 'buffer', 'linalg', 'fftfilter', 'buffer2d', 'symvec', 'bufferconst', 'bufferiop',
                          'cplxparts', 'tri', 'setarr', 'realalias', 'maxmin']
        nsteps = self.rng.randint(1, self.maxsteps)
        tries = 0
        made = 0
        while made < nsteps and tries < 60:
            tries += 1
            k = self.rng.choice(kinds)
            if getattr(self, 's_' + k)():
                made += 1
        out = len(self.vars) - 1
        while self.vars[out].get('buf') and out > 0 and self.rng.random() < 0.5:
            out -= 1
        if out_scalar and self.vars[out]['shape'] != ():
            self.steps.append({'op': 'sum', 'a': out, 'axis': None})
            out = self.new((), (-100, 100))
        return {'inputs': [list(s) for s in input_shapes], 'steps': self.steps, 'out': out,
                'out_shape': list(self.vars[out]['shape'])}


def gen_program(rng, input_shapes=None, maxsteps=8, out_scalar=False, kinds=None, allow=None):
    if input_shapes is None:
        input_shapes = [rng.choice([(2,), (3,), (2, 2), (2, 3), (4,)])]
        if rng.random() < 0.3:
            input_shapes.append(rng.choice([(2,), (3,), (2, 2), ()]))
    g = Gen(rng, maxsteps=maxsteps, allow=allow)
    return g.generate(input_shapes, out_scalar=out_scalar, kinds=kinds)


# --------------------------------------------------------------------------------------
def _mkmat(v, n, sym, perm=None, cols=None):
    """n x n (or n x cols) well conditioned matrix built from the entries of v with the public API only"""
    flat = algopy.reshape(v, (int(np.prod(np.shape(v.x) if hasattr(v, 'x') else v.shape)),)) if len(v.shape) != 1 else v
    m = flat.shape[0] if not hasattr(flat, 'x') else flat.shape[0]
    t = algopy.sin(flat * 0.5)
    nc = cols if cols else n
    M = algopy.zeros((n, nc), dtype=v)
    for i in range(n):
        for j in range(nc):
            e = t[(i * nc + j) % m] * 0.4
            if sym and j < i:
                continue
            M[(perm[i] if perm else i), j] = e + (3.0 + i if i == j else 0.0)
            if sym and j > i:
                M[j, i] = e + 0.0
    return M


def _la(kind, M, post=False):
    if post:
        # the matrix has a second consumer recorded *after* the linear-algebra node: its adjoint is already non-zero
        # when the pullback of that node runs (accumulate, do not overwrite)
        r = _la(kind, M)
        return r + algopy.sum(M * M)
    if kind == 'inv':
        return algopy.inv(M)
    if kind == 'solve':
        n = M.shape[0]
        b = M[:, 0:1] * 2.0 + 1.0
        return algopy.reshape(algopy.solve(M, b), (n,))
    if kind == 'cinv':            # the matrix is a complex intermediate of a program with real input and output
        return algopy.imag(algopy.inv(M * (1.0 + 1.0j)))
    if kind == 'csolve':
        n = M.shape[0]
        b = M[:, 0:1] * 2.0j + 1.0
        return algopy.imag(algopy.reshape(algopy.solve(M * (1.0 + 1.0j), b), (n,)))
    if kind == 'csolve_rhs':      # real matrix, complex right-hand side
        n = M.shape[0]
        return algopy.imag(algopy.reshape(algopy.solve(M, M[:, 0:1] * (1.0 + 2.0j) + 1.0j), (n,)))
    if kind == 'cexpm':
        return algopy.real(algopy.expm(M * (0.05 + 0.05j)))
    if kind == 'det':
        return algopy.det(M)
    if kind == 'logdet':
        return algopy.logdet(M)
    if kind == 'trace':
        return algopy.trace(M)
    if kind == 'qr':
        Q, R = algopy.qr(M)
        if M.shape[0] != M.shape[1]:
            return algopy.dot(Q, R * R) + algopy.sum(Q * Q) + algopy.sum(R)
        return algopy.dot(Q, R * R)
    if kind == 'qr_full':
        Q, R = algopy.qr_full(M)
        return algopy.dot(Q, R * R)
    if kind == 'cholesky':
        return algopy.cholesky(M)
    if kind == 'eigh':
        l, Q = algopy.eigh(M)
        return l
    if kind == 'eighQ':
        # the eigenvectors enter through sign-invariant expressions: Q diag(l) Q^T (= M) and the element-wise squares
        l, Q = algopy.eigh(M)
        return algopy.dot(Q * l, Q.T) + Q * Q * 0.5
    if kind == 'eig':
        l, Q = algopy.eig(M)
        return l
    if kind == 'lu':
        W, L, U = algopy.lu(M)
        return algopy.dot(L, U * U)
    if kind == 'svd':
        U, s, V = algopy.svd(M)
        return s
    raise ValueError(kind)


def run_program(prog, inputs):
    """inputs: list of Function / UTPM / ndarray; returns the output value (same kind)"""
    vals = list(inputs)
    for st in prog['steps']:
        op = st['op']
        if op == 'ew':
            vals.append(EW[st['fn']][0](vals[st['a']]))
        elif op == 'bin':
            vals.append(BIN[st['fn']](vals[st['a']], vals[st['b']]))
        elif op == 'binc':
            c = st['c']
            c = np.array(c) if isinstance(c, (list, np.ndarray)) else c
            vals.append(BIN[st['fn']](vals[st['a']], c) if st['side'] == 'r' else BIN[st['fn']](c, vals[st['a']]))
        elif op == 'getitem':
            idx = tuple(st['idx'])
            vals.append(vals[st['a']][idx[0]] if st.get('bare') and len(idx) == 1 else vals[st['a']][idx])
        elif op == 'deepcopy':
            import copy as _copy
            vals.append(_copy.deepcopy(vals[st['a']]) if st.get('how', 'deepcopy') == 'deepcopy' else vals[st['a']].copy())
        elif op == 'flatget':
            vals.append(vals[st['a']].flat[st['i']])
        elif op == 'sum':
            vals.append(algopy.sum(vals[st['a']]) if st['axis'] is None else algopy.sum(vals[st['a']], axis=st['axis']))
        elif op == 'prod':
            vals.append(algopy.prod(vals[st['a']]))
        elif op == 'transpose':
            vals.append(vals[st['a']].T if st['how'] == 'T' else algopy.transpose(vals[st['a']]))
        elif op == 'reshape':
            how = st.get('how')
            vals.append(vals[st['a']].reshape(tuple(st['shape'])) if how == 'method' else
                        vals[st['a']].reshape(*st['shape']) if how == 'varargs' else algopy.reshape(vals[st['a']], tuple(st['shape'])))
        elif op == 'dot':
            vals.append(algopy.dot(vals[st['a']], vals[st['b']]))
        elif op == 'dotc':
            c = np.array(st['c'])
            vals.append(algopy.dot(vals[st['a']], c) if st['side'] == 'r' else algopy.dot(c, vals[st['a']]))
        elif op == 'outer':
            vals.append(algopy.outer(vals[st['a']], vals[st['b']]))
        elif op == 'maxmin':
            vals.append(getattr(algopy, st['fn'])(vals[st['a']], vals[st['b']]))
        elif op == 'symvec':
            vals.append(algopy.symvec(vals[st['a']]) if st['UPLO'] is None else algopy.symvec(vals[st['a']], UPLO=st['UPLO']))
        elif op == 'vecsym':
            vals.append(algopy.vecsym(vals[st['a']]))
        elif op == 'fftfilter':
            v = vals[st['a']]
            n = v.shape[st['axis']]
            hshape = [1] * len(v.shape)
            hshape[st['axis']] = n
            H = ((1.0 + 0.25 * np.arange(n)) + 0.5j * (np.arange(n) % 2)).reshape(hshape)
            vals.append(algopy.real(algopy.fft.ifft(algopy.fft.fft(v, axis=st['axis']) * H, axis=st['axis'])))
        elif op == 'fftparts':
            # real and imaginary part of the (inverse) transform of real data, combined into a real value
            v = vals[st['a']]
            z = (algopy.fft.ifft if st['inv'] else algopy.fft.fft)(v, axis=st['axis'])
            vals.append(algopy.real(z) * 0.75 + algopy.imag(z) * 1.25)
        elif op == 'cplxparts':
            v = vals[st['a']]
            z = v * (1.0 + 2.0j) if st['src'] == 'scale' else algopy.fft.fft(v, axis=-1)
            mode = st['mode']
            if mode == 'imag_then':
                i_ = algopy.imag(z)
                vals.append(i_ + algopy.real(z * z))
            elif mode == 'then_imag':
                w = algopy.real(z * z)
                vals.append(algopy.imag(z) + w)
            elif mode == 'imag_twice':
                vals.append(algopy.imag(z) * algopy.imag(z))
            elif mode == 'real_then':
                r_ = algopy.real(z)
                vals.append(r_ + algopy.imag(z * z))
            elif mode == 'then_real':
                w = algopy.imag(z * z)
                vals.append(algopy.real(z) + w)
            elif mode == 'real_twice':
                vals.append(algopy.real(z) * algopy.real(z))
            else:
                i_ = algopy.imag(z)
                r_ = algopy.real(z)
                vals.append(i_ * r_ + algopy.real(z * z) * 0.5)
        elif op == 'tri':
            if 'k' not in st:
                vals.append(getattr(algopy, st['fn'])(vals[st['a']]))
            elif st.get('kw'):
                vals.append(getattr(algopy, st['fn'])(vals[st['a']], k=st['k']))
            else:
                vals.append(getattr(algopy, st['fn'])(vals[st['a']], st['k']))
        elif op == 'setarr':
            if st.get('zerod'):
                vals[st['buf']][st['lo']] = np.array(st['c'][0])
            elif st.get('form') == 'list':
                vals[st['buf']][st['lo']:st['hi']] = [float(v) for v in st['c']]        # a Python list as the assigned value
            elif st.get('form') == 'tuple':
                vals[st['buf']][st['lo']:st['hi']] = tuple(float(v) for v in st['c'])
            else:
                vals[st['buf']][st['lo']:st['hi']] = np.array(st['c'])
        elif op == 'realalias':
            r = algopy.real(vals[st['buf']])
            if st['mirror']:
                vals[st['buf']][st['k']] = vals[st['val']]
            else:
                r[st['k']] = vals[st['val']]
            vals.append(r)
        elif op == 'outerc':
            c = np.array(st['c'])
            vals.append(algopy.outer(vals[st['a']], c) if st['side'] == 'r' else algopy.outer(c, vals[st['a']]))
        elif op == 'zeros':
            vals.append(algopy.zeros(tuple(st['shape']), dtype=vals[st['like']]))
        elif op == 'ones':
            vals.append(algopy.ones(tuple(st['shape']), dtype=vals[st['like']]))
        elif op == 'setitem':
            idx = tuple(st['idx'])
            vals[st['buf']][idx[0] if len(idx) == 1 else idx] = vals[st['val']]
        elif op == 'iopview':
            row = vals[st['buf']][st['lo']:st['hi']]
            if st['fn'] == 'mul':
                row *= st['c']
            elif st['fn'] == 'add':
                row += st['c']
            elif st['fn'] == 'sub':
                row -= st['c']
            elif st['fn'] == 'pow':
                row **= st['c']
            else:
                row /= st['c']
        elif op == 'setconst':
            idx = tuple(st['idx'])
            vals[st['buf']][idx[0] if len(idx) == 1 else idx] = st['c']
        elif op == 'setbc':
            if st['mode'] == 'rows':
                vals[st['buf']][0:vals[st['buf']].shape[0], :] = vals[st['val']]
            else:
                vals[st['buf']][:, st['k']] = vals[st['val']]
        elif op == 'mkmat':
            vals.append(_mkmat(vals[st['a']], st['n'], st['sym'], st.get('perm'), st.get('cols')))
        elif op == 'la':
            vals.append(_la(st['kind'], vals[st['a']], st.get('post', False)))
        else:
            raise ValueError(op)
    return vals[prog['out']]


NOVALUE = ('setitem', 'iopview', 'setconst', 'setbc', 'setarr')


def nvars(prog):
    """number of values (inputs and step results) of a program"""
    return len(prog['inputs']) + sum(1 for st in prog['steps'] if st['op'] not in NOVALUE)


def trace(prog, xs):
    """record the program with the given input values; returns (cg, input nodes, output node)"""
    cg = algopy.CGraph()
    fx = [algopy.Function(x) for x in xs]
    fy = run_program(prog, fx)
    cg.trace_off()
    cg.independentFunctionList = fx
    cg.dependentFunctionList = [fy]
    return cg, fx, fy


def ops_used(prog):
    s = set()
    for st in prog['steps']:
        if st['op'] == 'ew':
            s.add('ew:' + st['fn'])
        elif st['op'] in ('bin', 'binc'):
            s.add(st['op'] + ':' + st['fn'])
        elif st['op'] == 'la':
            s.add('la:' + st['kind'])
        else:
            s.add(st['op'])
    return s
