import AlgopyVerif.Model.Dispatch
/-!
# JSON-lines driver for the executable model (`lean_exe algopy_model`)

One request per line, one answer per line.  Rationals are strings `"p/q"`, Gaussian
rationals `"p/q,r/s"`, arrays `{"s":[shape],"d":[numbers]}`.  The driver never prints
floats.  Imports only `Model/*` (Mathlib-free) and `Lean.Data.Json`.
-/
open Lean AV

partial def loop (stdin stdout : IO.FS.Stream) : IO Unit := do
  let line ← stdin.getLine
  if line.isEmpty then return ()
  let ans : Json :=
    match Json.parse line with
    | .error e => Json.mkObj [("error", Json.str s!"parse:{e}")]
    | .ok j =>
      match AV.handle j with
      | .ok r => r
      | .error e => Json.mkObj [("error", Json.str e)]
  stdout.putStrLn (Json.compress ans)
  stdout.flush
  loop stdin stdout

def main : IO Unit := do
  loop (← IO.getStdin) (← IO.getStdout)
