import AlgopyVerif.Model.Basic
import AlgopyVerif.Model.Series
import AlgopyVerif.Model.NdArray
import AlgopyVerif.Model.Utpm
import AlgopyVerif.Model.QI
