import AlgopyVerif.Model.Series
/-!
# Forward-mode derivative drivers (`UTPM.init_*/extract_*`, utpm.py:1680-1910): seed tables and
extraction index arithmetic.
-/
namespace AV
section
variable {K : Type} [Add K] [Mul K] [Sub K] [Neg K] [Div K] [Zero K] [One K] [NatCast K]

/-- unit vector `e_n` of length `N` -/
def unitVec (N n : Nat) : List K := (List.range N).map fun i => if i = n then 1 else 0

/-- `init_jacobian`: direction `n` is `e_n` -/
def jacDirs (N : Nat) : List (List K) := (List.range N).map fun n => unitVec N n

/-- `init_hessian` (utpm.py:1813-1838): block `n` (`n = 0 … N-1`) holds the `n+1` directions
`e_n, e_n + e_{n-1}, …, e_n + e_0` -/
def hessDirs (N : Nat) : List (List K) :=
  (List.range N).flatMap fun n => (List.range (n+1)).map fun j =>
    (List.range N).map fun i => (if i = n then (1:K) else 0) + (if j ≠ 0 ∧ i = n - j then 1 else 0)

/-- position of `e_n` : `sum(range(n+1))` -/
def hessA (n : Nat) : Nat := n * (n + 1) / 2
/-- position of `e_n + e_m` (`m < n`): `sum(range(n+2)) - m - 1` -/
def hessK (n m : Nat) : Nat := (n + 1) * (n + 2) / 2 - m - 1

/-- `extract_hessian` from the second-order coefficients `c2[k]` of the `N(N+1)/2` directions -/
def extractHessian (N : Nat) (c2 : List K) (n m : Nat) : K :=
  if n = m then nat 2 * co c2 (hessA n)
  else
    let hi := max n m
    let lo := min n m
    co c2 (hessK hi lo) - co c2 (hessA hi) - co c2 (hessA lo)

/-- `init_hess_vec`: `e_0 … e_{N-1}`, `v + e_0 … v + e_{N-1}`, `v` -/
def hessVecDirs (N : Nat) (v : List K) : List (List K) :=
  (jacDirs N) ++ ((List.range N).map fun n => (List.range N).map fun i => co v i + (if i = n then 1 else 0)) ++ [v]

/-- `extract_hess_vec`: `Hv[n] = -c2[n] + c2[n+N] - c2[2N]` -/
def extractHessVec (N : Nat) (c2 : List K) (n : Nat) : K := -(co c2 n) + co c2 (n + N) - co c2 (2 * N)

end
end AV

namespace AV
/-- table check: `hessDirs N` holds `e_n` at `hessA n` and `e_n + e_m` at `hessK n m`, and has `N(N+1)/2` entries -/
def hessTableOK (N : Nat) : Bool :=
  (hessDirs (K := Rat) N).length == N * (N + 1) / 2 &&
  (List.range N).all fun n =>
    ((hessDirs (K := Rat) N).getD (hessA n) [] == unitVec N n) &&
    (List.range n).all fun m =>
      (hessDirs (K := Rat) N).getD (hessK n m) [] == addS (unitVec N n) (unitVec N m)

/-- `hessVecDirs`: positions `n`, `n+N`, `2N` -/
def hessVecTableOK (N : Nat) (v : List Rat) : Bool :=
  (hessVecDirs N v).length == 2 * N + 1 &&
  ((hessVecDirs N v).getD (2 * N) [] == v) &&
  (List.range N).all fun n =>
    ((hessVecDirs N v).getD n [] == unitVec N n) &&
    ((hessVecDirs N v).getD (n + N) [] == addS v (unitVec N n))
end AV
