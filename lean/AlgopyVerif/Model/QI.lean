/-!
# Complex numbers over a coefficient type: `Cx K = K × K`; Gaussian rationals `QI = Cx Rat`
(Mathlib-free), the complex coefficient field of the executable model.  Generic in `K` so that the same
definitions are evaluated on `Rat` in the driver and interpreted in `ℂ` (through `K = ℝ`) in the theorems.
-/
namespace AV

structure Cx (K : Type) where
  re : K
  im : K
deriving BEq, DecidableEq, Repr

abbrev QI := Cx Rat

namespace Cx
section
variable {K : Type} [Add K] [Mul K] [Sub K] [Neg K] [Div K] [Zero K] [One K] [NatCast K]
instance : Zero (Cx K) := ⟨⟨0, 0⟩⟩
instance : One (Cx K) := ⟨⟨1, 0⟩⟩
instance : Add (Cx K) := ⟨fun a b => ⟨a.re + b.re, a.im + b.im⟩⟩
instance : Sub (Cx K) := ⟨fun a b => ⟨a.re - b.re, a.im - b.im⟩⟩
instance : Neg (Cx K) := ⟨fun a => ⟨-a.re, -a.im⟩⟩
instance : Mul (Cx K) := ⟨fun a b => ⟨a.re * b.re - a.im * b.im, a.re * b.im + a.im * b.re⟩⟩
def normSq (a : Cx K) : K := a.re * a.re + a.im * a.im
instance : Div (Cx K) := ⟨fun a b =>
  let n := normSq b
  ⟨(a.re * b.re + a.im * b.im) / n, (a.im * b.re - a.re * b.im) / n⟩⟩
instance : NatCast (Cx K) := ⟨fun n => ⟨(n : K), 0⟩⟩
def conj (a : Cx K) : Cx K := ⟨a.re, -a.im⟩
end
end Cx
end AV
