/-!
# Gaussian rationals `QI = Rat × Rat` (Mathlib-free), the complex coefficient field of
the executable model.
-/
namespace AV

structure QI where
  re : Rat
  im : Rat
deriving BEq, DecidableEq, Repr

namespace QI
instance : Zero QI := ⟨⟨0, 0⟩⟩
instance : One QI := ⟨⟨1, 0⟩⟩
instance : Add QI := ⟨fun a b => ⟨a.re + b.re, a.im + b.im⟩⟩
instance : Sub QI := ⟨fun a b => ⟨a.re - b.re, a.im - b.im⟩⟩
instance : Neg QI := ⟨fun a => ⟨-a.re, -a.im⟩⟩
instance : Mul QI := ⟨fun a b => ⟨a.re * b.re - a.im * b.im, a.re * b.im + a.im * b.re⟩⟩
def normSq (a : QI) : Rat := a.re * a.re + a.im * a.im
instance : Div QI := ⟨fun a b =>
  let n := normSq b
  ⟨(a.re * b.re + a.im * b.im) / n, (a.im * b.re - a.re * b.im) / n⟩⟩
instance : NatCast QI := ⟨fun n => ⟨(n : Rat), 0⟩⟩
def conj (a : QI) : QI := ⟨a.re, -a.im⟩
end QI
end AV
