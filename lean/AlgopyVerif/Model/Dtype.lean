/-!
# dtype calculus of the arithmetic operators (`utpm/utpm.py:293-529`), branch by branch
-/
namespace AV

inductive DT | i64 | f64 | c128
deriving DecidableEq, Repr

/-- `numpy.promote_types` restricted to the three dtypes that occur -/
def DT.promote : DT → DT → DT
  | .c128, _ => .c128
  | _, .c128 => .c128
  | .f64, _ => .f64
  | _, .f64 => .f64
  | .i64, .i64 => .i64

/-- kinds of the non-UTPM operand -/
inductive OKind
  | utpm (dt : DT) | pyint | pyfloat | pycomplex | npscalar (dt : DT) | ndarray (dt : DT)
deriving DecidableEq, Repr

def OKind.isComplex : OKind → Bool
  | .utpm .c128 | .pycomplex | .npscalar .c128 | .ndarray .c128 => true
  | _ => false

/-- dtype `type(rhs)` maps to in `numpy.promote_types(self.data.dtype, type(rhs))` -/
def OKind.asDT : OKind → DT
  | .utpm dt | .npscalar dt | .ndarray dt => dt
  | .pyint => .i64
  | .pyfloat => .f64
  | .pycomplex => .c128

/-- NumPy's value-independent ("weak" Python scalar) promotion in `self.data * rhs`, `self.data / rhs` -/
def weakPromote (self : DT) : OKind → DT
  | .pyint => self
  | .pyfloat => DT.promote self .f64
  | .pycomplex => .c128
  | k => DT.promote self k.asDT

inductive AOp | add | sub | mul | div
deriving DecidableEq, Repr

/-- true division never returns an integer array -/
def divDT (d : DT) : DT := match d with | .i64 => .f64 | d => d

/-- result dtype of `x op other` / `other op x` (x a UTPM with dtype `self`), as the code computes it:
scalar `+ -`: `promote_types(self, type(rhs))`; scalar `* /`: NumPy on the data array; ndarray:
`promote_types` / NumPy; UTPM: `promote_types`; reflected `/` (after the fix of `__rtruediv__`):
numerator buffer of dtype `promote_types(self, rhs)`, then UTPM/UTPM. -/
def resultDT (op : AOp) (self : DT) (other : OKind) (reflected : Bool) : DT :=
  match op, other, reflected with
  | .add, k, _ | .sub, k, _ => DT.promote self k.asDT
  | .mul, .utpm dt, _ => DT.promote self dt
  | .mul, k, _ => weakPromote self k
  | .div, .utpm dt, _ => DT.promote self dt
  | .div, k, false => divDT (weakPromote self k)
  | .div, k, true => DT.promote (DT.promote self k.asDT) self

end AV
