/-!
# L0 basics (Mathlib-free, executable)

`build` is the single combinator that carries every coefficient recurrence of
`algopy/utpm/algorithms.py`: entry `d` of the result is `step` applied to the
first `d` entries.  `sumRange lo hi f = Σ_{k=lo}^{hi-1} f k`.
-/
namespace AV

/-- build a list of length `n` where entry `d` is `step (first d entries)` -/
def build {α : Type} (step : List α → α) : Nat → List α
  | 0 => []
  | n+1 => let acc := build step n; acc ++ [step acc]

/-- `Σ_{k=lo}^{hi-1} f k` (left fold, starting from 0) -/
def sumRange {K : Type} [Add K] [Zero K] (lo hi : Nat) (f : Nat → K) : K :=
  (List.range (hi - lo)).foldl (fun s i => s + f (lo + i)) 0

/-- sum of a list -/
def sumL {K : Type} [Add K] [Zero K] (l : List K) : K := l.foldl (· + ·) 0

/-- product of a list of naturals -/
def prodN (l : List Nat) : Nat := l.foldl (· * ·) 1

def fact : Nat → Nat
  | 0 => 1
  | n+1 => (n+1) * fact n

/-- the constant series `c + 0 t + …` of length `D` -/
def constS {K : Type} [Zero K] (c : K) (D : Nat) : List K :=
  (List.range D).map fun d => if d = 0 then c else 0

end AV
