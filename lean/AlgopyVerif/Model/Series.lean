import AlgopyVerif.Model.Basic
/-!
# L0: truncated power series recurrences of `algopy/utpm/algorithms.py`

A series is a `List K` of length `D` (coefficient `d` at index `d`).  Every function
here mirrors one kernel of `RawAlgorithmsMixIn`; leaf values computed by NumPy/SciPy on
the zeroth coefficient (`numpy.exp(x[0])`, …) are *parameters*.

The file is Mathlib-free and generic in the coefficient type: it runs on `Rat` and on
Gaussian rationals in the driver and is instantiated at fields in the proofs.
-/
namespace AV
section
variable {K : Type} [Add K] [Mul K] [Sub K] [Neg K] [Div K] [Zero K] [One K] [NatCast K]

/-- coefficient access with default 0 -/
@[inline] def co (x : List K) (k : Nat) : K := x.getD k 0

/-- `(n : K)` -/
@[inline] def nat (n : Nat) : K := ((n : Nat) : K)

/-! ## ring operations -/

/-- algorithms.py:287-320 `_mul` : `z_d = Σ_{k=0}^{d} x_k y_{d-k}` -/
def mulS (x y : List K) : List K :=
  (List.range x.length).map fun d => sumRange 0 (d+1) fun k => co x k * co y (d-k)

def addS (x y : List K) : List K := (List.range x.length).map fun d => co x d + co y d
def subS (x y : List K) : List K := (List.range x.length).map fun d => co x d - co y d
def negS (x : List K) : List K := x.map fun a => -a
def scaleS (c : K) (x : List K) : List K := x.map fun a => c * a

/-- algorithms.py:378-392 `_truediv` : `z_d = 1/y_0 * (x_d - Σ_{k<d} z_k y_{d-k})` -/
def divStep (x y : List K) (acc : List K) : K :=
  let d := acc.length
  (1 / co y 0) * (co x d - sumRange 0 d fun k => co acc k * co y (d-k))
def divS (x y : List K) : List K := build (divStep x y) x.length

/-- algorithms.py:394-418 `_reciprocal` -/
def recipStep (y : List K) (acc : List K) : K :=
  let d := acc.length
  (1 / co y 0) * ((if d = 0 then (1:K) else 0) - sumRange 0 d fun k => co acc k * co y (d-k))
def recipS (y : List K) : List K := build (recipStep y) y.length

/-- algorithms.py:636-655 `_square` (half sum, doubled, plus the middle square) -/
def squareS (x : List K) : List K :=
  (List.range x.length).map fun d =>
    let dh := (d+1) / 2
    let s : K := if d = 0 then 0 else sumRange 0 dh fun k => (co x k * co x (d-k)) * nat 2
    if (d+1) % 2 = 1 then s + co x dh * co x dh else s

/-- algorithms.py:663-674 `_sqrt` : `y_k = 1/(2 y_0) (x_k - Σ_{j=1}^{k-1} y_j y_{k-j})` -/
def sqrtStep (y0 : K) (x : List K) (acc : List K) : K :=
  let k := acc.length
  if k = 0 then y0 else
    (1 / (nat 2 * co acc 0)) * (co x k - sumRange 1 k fun j => co acc j * co acc (k-j))
def sqrtS (y0 : K) (x : List K) : List K := build (sqrtStep y0 x) x.length

/-- algorithms.py:688-707 `_exp` : `y_d = (Σ_{k=1}^{d} y_{d-k} (k x_k)) / d` -/
def expStep (y0 : K) (x : List K) (acc : List K) : K :=
  let d := acc.length
  if d = 0 then y0 else
    (sumRange 1 (d+1) fun k => co acc (d-k) * (co x k * nat k)) / nat d
def expS (y0 : K) (x : List K) : List K := build (expStep y0 x) x.length

/-- algorithms.py:810-830 `_log`; the first loop builds `ỹ_d = d·y_d`,
the second divides by `d`. -/
def logTildeStep (y0 : K) (x : List K) (acc : List K) : K :=
  let d := acc.length
  if d = 0 then y0 else
    (co x d * nat d - sumRange 1 d fun j => co x (d-j) * co acc j) / co x 0
def logS (y0 : K) (x : List K) : List K :=
  let yt := build (logTildeStep y0 x) x.length
  (List.range x.length).map fun d => if d = 0 then co yt 0 else co yt d / nat d

/-- algorithms.py:506-512 `_pow_real`, general (real exponent) branch -/
def powRealStep (r : K) (y0 : K) (x : List K) (acc : List K) : K :=
  let d := acc.length
  if d = 0 then y0 else
    ((r * (sumRange 1 (d+1) fun k => co acc (d-k) * nat k * co x k)
      - (sumRange 1 d fun k => co x (d-k) * nat k * co acc k)) / co x 0) / nat d
def powRealS (r : K) (y0 : K) (x : List K) : List K := build (powRealStep r y0 x) x.length

/-- algorithms.py:481-498 `_pow_real`, `type(r)==int and r>=0` branches.
For `r ≥ 3` the code runs `y = x; repeat (r-1) times: y = x*y`. -/
def powNatS (r : Nat) (x : List K) : List K :=
  match r with
  | 0 => constS 1 x.length
  | 1 => x
  | 2 => squareS x
  | r+3 => (List.range (r+2)).foldl (fun y _ => mulS x y) x

/-- algorithms.py `_pow_real`, `type(r) == int and r > 64` (also Python ints beyond 64 bits): square and multiply,
`y = 1; base = x; while e > 0: if e & 1: y = base*y; e >>= 1; if e > 0: base = base*base` (the fuel bounds the loop) -/
def powBinLoop : Nat → Nat → List K → List K → List K
  | 0, _, _, acc => acc
  | fuel+1, e, base, acc =>
    if e = 0 then acc else
      let acc' := if e % 2 = 1 then mulS base acc else acc
      if e / 2 = 0 then acc' else powBinLoop fuel (e / 2) (mulS base base) acc'
def powBinS (r : Nat) (x : List K) : List K := powBinLoop (r + 1) r x (constS 1 x.length)

/-- algorithms.py `_pow_real`, branch for an ndarray of non-negative integer exponents, seen at one entry of
the array: `y = 1; for n in 1..m: y = where(r >= n, x*y, y)`, where `r` is the entry's exponent and `m` the
largest exponent of the array (so `m ≥ r`). -/
def powMaskS (r m : Nat) (x : List K) : List K :=
  (List.range m).foldl (fun y n => if n + 1 ≤ r then mulS x y else y) (constS 1 x.length)

/-! ## coupled recurrences (two series built together) -/

/-- algorithms.py:915-932 `_sincos` -/
def sincosStep (s0 c0 : K) (x : List K) (acc : List (K × K)) : K × K :=
  let d := acc.length
  if d = 0 then (s0, c0) else
    let s := (sumRange 1 (d+1) fun k => nat k * co x k * ((acc.getD (d-k) (0,0)).2)) / nat d
    let c := (sumRange 1 (d+1) fun k => (-(nat k : K)) * co x k * ((acc.getD (d-k) (0,0)).1)) / nat d
    (s, c)
def sincosS (s0 c0 : K) (x : List K) : List K × List K :=
  (build (sincosStep s0 c0 x) x.length).unzip

/-- algorithms.py:999-1015 `_sinhcosh` -/
def sinhcoshStep (s0 c0 : K) (x : List K) (acc : List (K × K)) : K × K :=
  let d := acc.length
  if d = 0 then (s0, c0) else
    let s := (sumRange 1 (d+1) fun k => nat k * co x k * ((acc.getD (d-k) (0,0)).2)) / nat d
    let c := (sumRange 1 (d+1) fun k => nat k * co x k * ((acc.getD (d-k) (0,0)).1)) / nat d
    (s, c)
def sinhcoshS (s0 c0 : K) (x : List K) : List K × List K :=
  (build (sinhcoshStep s0 c0 x) x.length).unzip

/-- algorithms.py:885-902 `_tansec2`; `z_d` uses the freshly computed `y_d`. -/
def tansec2Step (y0 z0 : K) (x : List K) (acc : List (K × K)) : K × K :=
  let d := acc.length
  if d = 0 then (y0, z0) else
    let y := (sumRange 1 (d+1) fun k => nat k * co x k * ((acc.getD (d-k) (0,0)).2)) / nat d
    let yy : Nat → K := fun j => if j = d then y else (acc.getD j (0,0)).1
    let z := (nat 2 * (sumRange 1 (d+1) fun k => nat k * yy k * yy (d-k))) / nat d
    (y, z)
def tansec2S (y0 z0 : K) (x : List K) : List K × List K :=
  (build (tansec2Step y0 z0 x) x.length).unzip

/-- algorithms.py:1017-1033 `_tanhsech2` -/
def tanhsech2Step (y0 z0 : K) (x : List K) (acc : List (K × K)) : K × K :=
  let d := acc.length
  if d = 0 then (y0, z0) else
    let y := (sumRange 1 (d+1) fun k => nat k * co x k * ((acc.getD (d-k) (0,0)).2)) / nat d
    let yy : Nat → K := fun j => if j = d then y else (acc.getD j (0,0)).1
    let z := (-(nat 2 : K)) * (sumRange 1 (d+1) fun k => nat k * yy k * yy (d-k)) / nat d
    (y, z)
def tanhsech2S (y0 z0 : K) (x : List K) : List K × List K :=
  (build (tanhsech2Step y0 z0 x) x.length).unzip

/-- algorithms.py:943-977 `_arcsin` / `_arccos` (they differ only in the base values) -/
def arcsinStep (y0 z0 : K) (x : List K) (acc : List (K × K)) : K × K :=
  let d := acc.length
  if d = 0 then (y0, z0) else
    let y := (nat d * co x d
        - sumRange 1 d fun k => nat k * (acc.getD k (0,0)).1 * (acc.getD (d-k) (0,0)).2)
        / ((acc.getD 0 (0,0)).2 * nat d)
    let yy : Nat → K := fun j => if j = d then y else (acc.getD j (0,0)).1
    let z := (-(sumRange 1 (d+1) fun k => nat k * yy k * co x (d-k))) / nat d
    (y, z)
def arcsinS (y0 z0 : K) (x : List K) : List K × List K :=
  (build (arcsinStep y0 z0 x) x.length).unzip

/-- algorithms.py:979-995 `_arctan`; `z = 1 + x²` is built alongside -/
def arctanStep (y0 : K) (x : List K) (acc : List (K × K)) : K × K :=
  let d := acc.length
  if d = 0 then (y0, 1 + co x 0 * co x 0) else
    let y := (nat d * co x d
        - sumRange 1 d fun k => nat k * (acc.getD k (0,0)).1 * (acc.getD (d-k) (0,0)).2)
        / ((acc.getD 0 (0,0)).2 * nat d)
    let z := (nat 2 * (sumRange 1 (d+1) fun k => nat k * co x k * co x (d-k))) / nat d
    (y, z)
def arctanS (y0 : K) (x : List K) : List K × List K :=
  (build (arctanStep y0 x) x.length).unzip

/-! ## helpers used by the special functions -/

/-- algorithms.py:38-50 `_plus_const` -/
def plusConstS (x : List K) (c : K) : List K :=
  (List.range x.length).map fun d => if d = 0 then co x 0 + c else co x d

/-- algorithms.py:88-111 `_black_f_white_fprime` :
`y_d = (Σ_{c=0}^{d-1} fp_{d-1-c} x_{c+1} (c+1)) / d` -/
def blackWhiteS (f0 : K) (fp x : List K) : List K :=
  (List.range x.length).map fun d =>
    if d = 0 then f0 else
      (sumRange 0 d fun c => co fp (d-1-c) * co x (c+1) * nat (c+1)) / nat d

/-- one update of `accum` in `_eval_slow_generic` (algorithms.py:80-82):
`accum[i] = Σ_{j<i} accum[j] x[i-j]` for `i = D-2 … 1` (descending, so only old values
are read), then `accum[0] = 0`. `accum` has length `D-1`. -/
def accumNext (x accum : List K) : List K :=
  (List.range accum.length).map fun i =>
    if i = 0 then 0 else sumRange 0 i fun j => co accum j * co x (i-j)

/-- algorithms.py:52-86 `_eval_slow_generic`; `derivs[n] = f^{(n)}(x_0)` -/
def slowGenericS (derivs : List K) (x : List K) : List K :=
  let D := x.length
  let rec go (fuel d : Nat) (accum : List K) (y : List K) : List K :=
    match fuel with
    | 0 => y
    | fuel+1 =>
      let accum := if d = 1 then x.drop 1 else accumNext x accum
      let y := (List.range D).map fun i =>
        if i = 0 then co y 0 else co y i + co derivs d * co accum (i-1) / nat (fact d)
      go fuel (d+1) accum y
  go (D-1) 1 [] ((List.range D).map fun i => if i = 0 then co derivs 0 else 0)

/-- algorithms.py:113-159 `_taylor_polynomials_of_ode_solutions`
(`b(u) v'(u) - a(u) v(u) = c(u)`), state = (s, e, ṽ, v) filled for `k = 0 … D-1`. -/
def odeS (a b c u : List K) (v0 : K) : List K :=
  let D := u.length
  let ut : Nat → K := fun j => if j = 0 then co u 0 else co u j * nat j
  let step (st : List K × List K × List K) (k : Nat) : List K × List K × List K :=
    let (e, vt, v) := st
    let (vt, v) :=
      if k = 0 then (vt ++ [v0], v ++ [v0]) else
        let s1 := sumRange 1 (k+1) fun j => (co c (k-j) + co e (k-j)) * ut j
        let s2 := sumRange 1 k fun j => co b (k-j) * co vt j
        let vtk := (s1 - s2) / co b 0
        (vt ++ [vtk], v ++ [vtk / nat k])
    let ek : K := if k < D-1 then sumRange 0 (k+1) fun j => co a j * co v (k-j) else 0
    (e ++ [ek], vt, v)
  ((List.range D).foldl step ([], [], [])).2.2

/-! ## kink functions (mask semantics of the code) -/

/-- algorithms.py:587-604 `_absolute` : `z_0 = |x_0|`, `z_d = x_d * sign(x_0)` -/
def absoluteS (sgn0 abs0 : K) (x : List K) : List K :=
  (List.range x.length).map fun d => if d = 0 then abs0 else co x d * sgn0

/-- algorithms.py:758-766 `_sign` -/
def signS (sgn0 : K) (x : List K) : List K := constS sgn0 x.length

/-- algorithms.py:323-355 `_minimum/_maximum` : `xmask * x_d + (1 - xmask) * y_d` -/
def selectS (xmask : K) (x y : List K) : List K :=
  (List.range x.length).map fun d => xmask * co x d + (1 - xmask) * co y d

/-- algorithms.py:776-791 `_botched_clip` on a clone of x: `y_0 = clip(x_0)`, `y_d = x_d * mask` -/
def clipS (clip0 mask : K) (x : List K) : List K :=
  (List.range x.length).map fun d => if d = 0 then clip0 else co x d * mask

/-! ## compositions used by UTPM methods -/

/-- algorithms.py:717-721 `_expm1` -/
def expm1S (e0 em0 : K) (x : List K) : List K := blackWhiteS em0 (expS e0 x) x
/-- algorithms.py:840-844 `_log1p` -/
def log1pS (l0 : K) (x : List K) : List K := blackWhiteS l0 (recipS (plusConstS x 1)) x
/-- algorithms.py:730-734 `_logit` -/
def logitS (l0 : K) (x : List K) : List K := blackWhiteS l0 (recipS (subS x (squareS x))) x
/-- algorithms.py `_expit`: the code forms the derivative series as the product `b·c`, `b = 1/(1+exp x)`, `c = 1/(1+exp(−x))`
(accurate in floating point for negative `x_0`); in exact arithmetic `c = 1 − b`, so this is the series `b − b²` the model evaluates -/
def expitS (e0 f0 : K) (x : List K) : List K :=
  let b := recipS (plusConstS (expS e0 x) 1)
  blackWhiteS f0 (subS b (squareS b)) x
/-- algorithms.py:1035-1039 `_erf` : `c = 2/√π` (float leaf), `e0 = exp(-x_0²)` -/
def erfS (c e0 f0 : K) (x : List K) : List K :=
  blackWhiteS f0 (scaleS c (expS e0 (negS (squareS x)))) x
/-- algorithms.py:1048-1052 `_erfi` -/
def erfiS (c e0 f0 : K) (x : List K) : List K :=
  blackWhiteS f0 (scaleS c (expS e0 (squareS x))) x
/-- algorithms.py:855-876 `_dawsn` : `a = -2u, b = 1, c = 1` -/
def dawsnS (v0 : K) (x : List K) : List K :=
  odeS (scaleS (-(nat 2 : K)) x) (constS 1 x.length) (constS 1 x.length) x v0

end
end AV
