import AlgopyVerif.Model.Series
import AlgopyVerif.Model.NdArray
import AlgopyVerif.Model.Utpm
/-!
# Conversions between representations (`algopy/utils.py`, `UTPM.shift/as_utpm`)
-/
namespace AV
open NdArray
section
variable {K : Type} [Add K] [Mul K] [Sub K] [Neg K] [Div K] [Zero K] [One K] [NatCast K]
attribute [local instance] inh0

/-- `UTPM.shift(s)` on one series (utpm.py:1628-1650, after the repair of `s = 0`):
`s > 0`: `[0,…,0,x_0,…,x_{D-1-s}]`; `s ≤ 0`: `[x_{-s},…,x_{D-1},0,…,0]`. -/
def shiftS (s : Int) (x : List K) : List K :=
  let D := x.length
  if s > 0 then
    (List.range D).map fun d => if d < s.toNat then 0 else co x (d - s.toNat)
  else
    (List.range D).map fun d => if d + (-s).toNat < D then co x (d + (-s).toNat) else 0

/-- the pairs `(row, col)` with `row ≤ col < N` in the order `symvec`/`vecsym` walk them -/
def triPairs (N : Nat) : List (Nat × Nat) :=
  (List.range N).flatMap fun r => (List.range (N - r)).map fun k => (r, r + k)

/-- `utils.symvec(A, UPLO)` for a matrix given as a function -/
def symvecF (N : Nat) (uplo : Char) (A : Nat → Nat → K) : List K :=
  (triPairs N).map fun (r, c) =>
    if uplo = 'F' then (A r c + A c r) / nat 2      -- 0.5 * (A[row,col] + A[col,row])
    else if uplo = 'L' then A c r                    -- A[m,n], m ≥ n
    else A r c                                       -- 'U': A[n,m]

/-- `utils.vecsym(v)` : entry `(r, c)` is `v[count]` of the pair `(min r c, max r c)` -/
def vecsymF (N : Nat) (v : List K) (r c : Nat) : K :=
  co v ((triPairs N).idxOf (min r c, max r c))

/-- `utils.piv2mat`'s index vector: `swap = arange(N)`, then for `i = 0..N-1` exchange
`swap[i]` and `swap[piv[i]]` -/
def pivSwap (piv : List Nat) : List Nat :=
  (List.range piv.length).foldl (fun sw i =>
    let a := sw.getD i 0
    let b := sw.getD (piv.getD i 0) 0
    (sw.set i b).set (piv.getD i 0) a) (List.range piv.length)

/-- `numpy.eye(N)[:, swap]` : `W[i][j] = 1` iff `i = swap[j]` -/
def piv2matF (piv : List Nat) (i j : Nat) : Nat := if i = (pivSwap piv).getD j 0 then 1 else 0

/-- `utils.piv2det` -/
def piv2detF (piv : List Nat) : Int :=
  if ((List.range piv.length).filter fun i => piv.getD i 0 ≠ i).length % 2 = 0 then 1 else -1

/-- `utils.base_and_dirs2utpm(x, V)`: `x.shape = s`, `V.shape = s ++ [P, D]` → `(D+1, P) + s` -/
def baseDirs2utpm (x V : NdArray K) : NdArray K :=
  let s := x.shape
  let P := V.shape.getD s.length 0
  let D := V.shape.getD (s.length + 1) 0
  ofFn ((D+1) :: P :: s) fun i =>
    match i with
    | d :: p :: idx => if d = 0 then x.get idx else V.get (idx ++ [p, d - 1])
    | _ => 0

/-- `utils.utpm2base_and_dirs(u)` -/
def utpm2baseDirs (u : NdArray K) : NdArray K × NdArray K :=
  let D := utD u - 1
  let P := utP u
  let s := utShape u
  (ofFn s fun idx => u.get (0 :: 0 :: idx),
   ofFn (s ++ [P, D]) fun i =>
     let idx := i.take s.length
     let p := i.getD s.length 0
     let d := i.getD (s.length + 1) 0
     u.get ((d + 1) :: p :: idx))

/-- `utils.utpm2dirs(u)`: transpose to `s ++ [P, D]` -/
def utpm2dirs (u : NdArray K) : NdArray K :=
  let s := utShape u
  ofFn (s ++ [utP u, utD u]) fun i =>
    u.get (i.getD (s.length + 1) 0 :: i.getD s.length 0 :: i.take s.length)

/-- `UTPM.as_utpm` / `utils.ndarray2utpm` on a container of shape `outer` whose `n = Π outer` elements are polynomials with the
same coefficient shape `(D, P) + e`, given stacked as one array `X` of shape `(n, D, P) + e` (row-major order of the container):
the result has shape `(D, P) + outer + e` and `out[d, p, o…, e…] = X[ravel o, d, p, e…]` -/
def containerToUtpm (outer : List Nat) (X : NdArray K) : NdArray K :=
  let D := X.shape.getD 1 0
  let P := X.shape.getD 2 0
  let e := X.shape.drop 3
  ofFn (D :: P :: (outer ++ e)) fun i =>
    match i with
    | d :: p :: rest => X.get (ravel outer (rest.take outer.length) :: d :: p :: rest.drop outer.length)
    | _ => 0

end
end AV
