import AlgopyVerif.Model.Series
/-!
# Series-level pullback kernels (`_pb_*` of `utpm/algorithms.py`, `pb_*` of `utpm/utpm.py`)

Every function returns the *new* adjoint buffer(s) of the argument(s): `out += …` of the code.
`x, y, z` are forward values, `…bar` adjoints; all are series of the same length.
-/
namespace AV
section
variable {K : Type} [Add K] [Mul K] [Sub K] [Neg K] [Div K] [Zero K] [One K] [NatCast K]

/-- algorithms.py:357-368 `_amul` : `z += x * y` -/
def amulS (z x y : List K) : List K := addS z (mulS x y)

/-- `pb_add` (same shapes): `xbar += zbar`, `ybar += zbar` -/
def pbAdd (zbar xbar ybar : List K) : List K × List K := (addS xbar zbar, addS ybar zbar)
/-- `pb_sub`: `xbar += zbar`, `ybar -= zbar` -/
def pbSub (zbar xbar ybar : List K) : List K × List K := (addS xbar zbar, subS ybar zbar)
/-- `pb_mul`: `xbar += zbar * y`, `ybar += zbar * x` -/
def pbMul (zbar x y xbar ybar : List K) : List K × List K :=
  (addS xbar (mulS zbar y), addS ybar (mulS zbar x))
/-- `pb_truediv` (utpm.py:2462-2485): `tmp = zbar / y; xbar += tmp; ybar -= tmp * z` -/
def pbDiv (zbar y z xbar ybar : List K) : List K × List K :=
  let tmp := divS zbar y
  (addS xbar tmp, subS ybar (mulS tmp z))
/-- `pb_neg`: `xbar -= ybar` -/
def pbNeg (ybar xbar : List K) : List K := subS xbar ybar

/-- `_pb_exp`: `xbar += ybar * y` -/
def pbExp (ybar y xbar : List K) : List K := amulS xbar ybar y
/-- `_pb_log`: `xbar += ybar / x` -/
def pbLog (ybar x xbar : List K) : List K := addS xbar (divS ybar x)
/-- `_pb_sqrt`: `tmp = ybar / y; tmp /= 2; xbar += tmp` -/
def pbSqrt (ybar y xbar : List K) : List K := addS xbar ((divS ybar y).map fun a => a / nat 2)
/-- `_pb_square`: `xbar += ybar * (2 x)` -/
def pbSquare (ybar x xbar : List K) : List K := amulS xbar ybar (x.map fun a => a * nat 2)
/-- `_pb_reciprocal`: `xbar += ybar * (-(1 / x²))` -/
def pbReciprocal (ybar x xbar : List K) : List K := amulS xbar ybar (negS (recipS (squareS x)))
/-- `_pb_negative`: `xbar += ybar * (-1)` -/
def pbNegative (ybar xbar : List K) : List K := amulS xbar ybar (constS (-1) ybar.length)
/-- `_pb_sign`: `xbar += ybar * 0` -/
def pbSign (ybar xbar : List K) : List K := amulS xbar ybar (constS 0 ybar.length)
/-- `_pb_absolute`: `xbar += ybar * sign(x_0)` (constant polynomial) -/
def pbAbsolute (sgn0 : K) (ybar xbar : List K) : List K := amulS xbar ybar (constS sgn0 ybar.length)
/-- `_pb_pow_real`, `type(r) == int and r > 0`: `xbar += ybar * (r x^{r-1})` (repaired code: `r ≥ 0`) -/
def pbPowNat (r : Nat) (ybar x xbar : List K) : List K :=
  if r = 0 then xbar else addS xbar (mulS ybar ((powNatS (r-1) x).map fun a => a * nat r))
/-- `_pb_pow_real`, general branch: `xbar += r * (ybar * (y / x))` -/
def pbPowReal (r : K) (ybar x y xbar : List K) : List K :=
  addS xbar ((mulS ybar (divS y x)).map fun a => a * r)
/-- `pb_sin` (utpm.py:650-661): `c = cos(x)` recomputed, `xbar += sbar * c` -/
def pbSin (s0 c0 : K) (sbar x xbar : List K) : List K := amulS xbar sbar (sincosS s0 c0 x).2
/-- `pb_cos`: `xbar += cbar * (-s)` -/
def pbCos (s0 c0 : K) (cbar x xbar : List K) : List K := amulS xbar cbar (negS (sincosS s0 c0 x).1)
/-- `pb_tan` (repaired `_pb_tansec`, `zbar = 0`): `z = (1/cos x)²`, `xbar += ybar * z` -/
def pbTan (s0 c0 : K) (ybar x xbar : List K) : List K :=
  let rc := recipS (sincosS s0 c0 x).2
  amulS xbar (addS (mulS (constS 0 ybar.length) ybar) ybar) (mulS rc rc)
/-- `_pb_expm1`: `xbar += ybar * exp(x)` -/
def pbExpm1 (e0 : K) (ybar x xbar : List K) : List K := amulS xbar ybar (expS e0 x)
/-- `_pb_log1p`: `xbar += ybar / (x + 1)` -/
def pbLog1p (ybar x xbar : List K) : List K := addS xbar (divS ybar (plusConstS x 1))
/-- `_pb_logit`: `xbar += ybar * 1/(x - x²)` -/
def pbLogit (ybar x xbar : List K) : List K := amulS xbar ybar (recipS (subS x (squareS x)))
/-- `_pb_expit`: `b = 1/(exp x + 1)`, `xbar += ybar * (b - b²)` (the code evaluates `b - b²` as `b·c`, `c = 1/(1+exp(−x)) = 1 − b`) -/
def pbExpit (e0 : K) (ybar x xbar : List K) : List K :=
  let b := recipS (plusConstS (expS e0 x) 1)
  amulS xbar ybar (subS b (squareS b))
/-- `_pb_erf` / `_pb_erfi`: `xbar += ybar * (c exp(∓x²))` -/
def pbErf (c e0 : K) (ybar x xbar : List K) : List K := amulS xbar ybar (scaleS c (expS e0 (negS (squareS x))))
def pbErfi (c e0 : K) (ybar x xbar : List K) : List K := amulS xbar ybar (scaleS c (expS e0 (squareS x)))
/-- `_pb_dawsn`: `xbar += ybar * (1 - 2 x dawsn(x))` -/
def pbDawsn (v0 : K) (ybar x xbar : List K) : List K :=
  amulS xbar ybar (plusConstS (scaleS (-(nat 2 : K)) (mulS x (dawsnS v0 x))) 1)

end
end AV
