import AlgopyVerif.Model.Basic
/-!
# Matrix Taylor polynomials: order-by-order kernels of `utpm/algorithms.py` (`_dot`, `_inv`, `_solve*`,
`_cholesky`, `_qr_rectangular`, `lu`) generic in the coefficient *ring* `R` (matrices in the driver and in the
theorems; NumPy/SciPy results on zeroth coefficients are leaf parameters).
-/
namespace AV
section
variable {R : Type} [Add R] [Mul R] [Sub R] [Neg R] [Zero R]

/-- coefficient access with default 0 (same as `co`, fewer class assumptions) -/
@[inline] def coR (x : List R) (k : Nat) : R := x.getD k 0

/-- algorithms.py:1172-1198 `_dot` : `z_d = Σ_{c=0}^{d} x_c y_{d-c}` (non-commutative product) -/
def dotM (x y : List R) : List R :=
  (List.range x.length).map fun d => sumRange 0 (d+1) fun c => coR x c * coR y (d-c)

/-- algorithms.py:1355-1376 `_inv` : `y_0 = inv(x_0)` (leaf), `y_d = (-y_0) (Σ_{c=1}^{d} x_c y_{d-c})` -/
def invStepM (x : List R) (y0 : R) (acc : List R) : R :=
  let d := acc.length
  if d = 0 then y0 else (-(coR acc 0)) * (sumRange 1 (d+1) fun c => coR x c * coR acc (d-c))
def invM (x : List R) (y0 : R) : List R := build (invStepM x y0) x.length

/-- algorithms.py:1420-1452 `_solve` : `y_d = A_0^{-1} (x_d - Σ_{k=1}^{d} A_k y_{d-k})`;
`a0inv` stands for `numpy.linalg.solve(A_0, ·)` -/
def solveStepM (a : List R) (a0inv : R) (b : List R) (acc : List R) : R :=
  let d := acc.length
  a0inv * (coR b d - sumRange 1 (d+1) fun k => coR a k * coR acc (d-k))
def solveM (a : List R) (a0inv : R) (b : List R) : List R := build (solveStepM a a0inv b) b.length

/-- algorithms.py:1455-1478 `_solve_non_UTPM_A` : constant matrix, every coefficient solved separately -/
def solveConstAM (a0inv : R) (b : List R) : List R := b.map fun bd => a0inv * bd

/-- algorithms.py:1480-1509 `_solve_non_UTPM_x` : constant right-hand side -/
def solveConstBM (a : List R) (a0inv : R) (b0 : R) : List R :=
  solveM a a0inv ((List.range a.length).map fun d => if d = 0 then b0 else 0)

end

/-! ## concrete matrices for the driver -/
section
variable {K : Type} [Add K] [Mul K] [Sub K] [Neg K] [Zero K]

/-- dense matrix as a list of rows -/
structure Mat (K : Type) where
  rows : List (List K)
deriving Repr, BEq

namespace Mat
def nrows (m : Mat K) : Nat := m.rows.length
def ncols (m : Mat K) : Nat := (m.rows.headD []).length
def get (m : Mat K) (i j : Nat) : K := (m.rows.getD i []).getD j 0
def ofFn (n k : Nat) (f : Nat → Nat → K) : Mat K := ⟨(List.range n).map fun i => (List.range k).map fun j => f i j⟩
def transpose (m : Mat K) : Mat K := ofFn m.ncols m.nrows fun i j => m.get j i
instance : Zero (Mat K) := ⟨⟨[]⟩⟩
/-- the empty matrix acts as a zero of any shape -/
def isZ (m : Mat K) : Bool := m.rows.isEmpty
instance : Add (Mat K) := ⟨fun a b => if a.isZ then b else if b.isZ then a else ofFn a.nrows a.ncols fun i j => a.get i j + b.get i j⟩
instance : Neg (Mat K) := ⟨fun a => ⟨a.rows.map fun r => r.map fun v => -v⟩⟩
instance : Sub (Mat K) := ⟨fun a b => a + (-b)⟩
instance : Mul (Mat K) := ⟨fun a b => if a.isZ ∨ b.isZ then ⟨[]⟩ else
  ofFn a.nrows b.ncols fun i j => (List.range a.ncols).foldl (fun s k => s + a.get i k * b.get k j) 0⟩
end Mat
end
end AV
