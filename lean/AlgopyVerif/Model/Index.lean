import AlgopyVerif.Model.NdArray
/-!
# Basic indexing of NumPy as an index map (ints, negative ints, slices with steps,
Ellipsis, newaxis, tuples) — `UTPM.__getitem__/__setitem__` prepend `(:, :)` to the index
(utpm.py:133-149).
-/
namespace AV
open NdArray

inductive Idx
  | int (i : Int)
  | slice (lo hi step : Option Int)
  | ellipsis
  | newaxis
deriving Repr, DecidableEq

/-- `slice(lo, hi, step).indices(n)` as `(start, step, count)`; `none` for step 0 -/
def sliceIndices (n : Nat) (lo hi step : Option Int) : Option (Int × Int × Nat) :=
  let st := step.getD 1
  let N : Int := n
  if st = 0 then none
  else if st > 0 then
    let clamp (v : Int) : Int := if v < 0 then (if v + N < 0 then 0 else v + N) else (if v > N then N else v)
    let start := match lo with | none => 0 | some v => clamp v
    let stop := match hi with | none => N | some v => clamp v
    let cnt := if stop > start then ((stop - start + st - 1) / st).toNat else 0
    some (start, st, cnt)
  else
    let clamp (v : Int) : Int := if v < 0 then (if v + N < 0 then -1 else v + N) else (if v ≥ N then N - 1 else v)
    let start := match lo with | none => N - 1 | some v => clamp v
    let stop := match hi with | none => -1 | some v => clamp v
    let cnt := if start > stop then ((start - stop + (-st) - 1) / (-st)).toNat else 0
    some (start, st, cnt)

def Idx.consuming : Idx → Bool
  | .int _ => true
  | .slice _ _ _ => true
  | _ => false

def Idx.isEllipsis : Idx → Bool
  | .ellipsis => true
  | _ => false

def nConsuming (idx : List Idx) : Nat := (idx.filter Idx.consuming).length
def nEllipsis (idx : List Idx) : Nat := (idx.filter Idx.isEllipsis).length

/-- the full slice `:` -/
def fullSl : Idx := Idx.slice none none none

def fillEllipsis (fill : List Idx) : List Idx → List Idx
  | [] => []
  | .ellipsis :: r => fill ++ fillEllipsis fill r
  | i :: r => i :: fillEllipsis fill r

/-- expand `Ellipsis` (at most one) to full slices so that exactly `ndim` axes are consumed;
missing trailing axes get full slices -/
def expandEllipsis (ndim : Nat) (idx : List Idx) : Option (List Idx) :=
  if nEllipsis idx > 1 ∨ nConsuming idx > ndim then none else
  let fill := List.replicate (ndim - nConsuming idx) fullSl
  if nEllipsis idx = 1 then some (fillEllipsis fill idx) else some (idx ++ fill)

/-- one axis of the result: either a fixed source coordinate (int index, no result axis),
a strided run (slice) or a new axis of length 1 -/
inductive AxisMap
  | fixed (src : Nat)                       -- int index: source coordinate
  | run (start step : Int) (count : Nat)    -- slice: result axis of length `count`
  | newax                                   -- None: result axis of length 1, consumes nothing
deriving Repr

def planAxes : List Nat → List Idx → Option (List AxisMap)
  | [], [] => some []
  | shape, .newaxis :: rest => do
    let r ← planAxes shape rest
    pure (.newax :: r)
  | n :: shape, .int i :: rest => do
    let N : Int := n
    let j := if i < 0 then i + N else i
    if j < 0 ∨ j ≥ N then none else
    let r ← planAxes shape rest
    pure (.fixed j.toNat :: r)
  | n :: shape, .slice lo hi st :: rest => do
    let (start, step, cnt) ← sliceIndices n lo hi st
    let r ← planAxes shape rest
    pure (.run start step cnt :: r)
  | _, _ => none

def planShape (p : List AxisMap) : List Nat :=
  p.filterMap fun a => match a with | .fixed _ => none | .run _ _ c => some c | .newax => some 1

/-- source multi-index of a result multi-index -/
def planSrc : List AxisMap → List Nat → List Nat
  | [], _ => []
  | .fixed s :: rest, j => s :: planSrc rest j
  | .run start step _ :: rest, j :: js => (start + step * (j : Int)).toNat :: planSrc rest js
  | .newax :: rest, _ :: js => planSrc rest js
  | _, _ => []

/-- `a[idx]` for basic indexing: result shape and the index map into `a` -/
def getitemMap (shape : List Nat) (idx : List Idx) : Option (List Nat × (List Nat → List Nat)) := do
  let idx' ← expandEllipsis shape.length idx
  let plan ← planAxes shape idx'
  pure (planShape plan, planSrc plan)

def getitem {α} [Inhabited α] (a : NdArray α) (idx : List Idx) : Option (NdArray α) := do
  let (s, m) ← getitemMap a.shape idx
  pure (ofFn s fun j => a.get (m j))

/-- `UTPM.__getitem__`: `data[(slice(None), slice(None)) + sl]` -/
def utGetitem {α} [Inhabited α] (x : NdArray α) (idx : List Idx) : Option (NdArray α) :=
  getitem x (fullSl :: fullSl :: idx)

/-- `numpy.sum(a, axis)` for a normalised axis -/
def sumAxis {α} [Inhabited α] [Add α] [Zero α] (a : NdArray α) (axis : Nat) : NdArray α :=
  let n := a.shape.getD axis 1
  let s := a.shape.eraseIdx axis
  ofFn s fun j => (List.range n).foldl (fun acc k => acc + a.get (j.take axis ++ [k] ++ j.drop axis)) 0

/-- `UTPM.sum(axis)` (utpm.py:1185-1196): negative axes count from the end of `data`, others are shifted by 2 -/
def utSumAxis {α} [Inhabited α] [Add α] [Zero α] (x : NdArray α) (axis : Int) : NdArray α :=
  let a : Nat := if axis < 0 then ((x.shape.length : Int) + axis).toNat else axis.toNat + 2
  sumAxis x a

/-! ## item assignment -/

/-- every multi-index of a shape, in row-major order -/
def allIdx (s : List Nat) : List (List Nat) := (List.range (numel s)).map (unravel s)

/-- `a[idx] = …` for basic indexing, with the assigned value given per *result* index `j`:
cell `i` of `a` receives `val j` for the last selected `j` whose source position is `i`
(for basic indexing the position map is injective, so there is exactly one), all other cells keep their value -/
def setitemWith {α} [Inhabited α] (a : NdArray α) (idx : List Idx) (val : List Nat → α) : Option (NdArray α) := do
  let (s, m) ← getitemMap a.shape idx
  pure (ofFn a.shape fun i =>
    match (allIdx s).reverse.find? (fun j => m j == i) with
    | some j => val j
    | none => a.get i)

/-- `UTPM.__setitem__` with a UTPM right-hand side: `data[(:, :) + idx] = rhs.data` after UTPM-aware broadcasting
of the coefficient shape of `rhs` against the selection -/
def utSetitem {α} [Inhabited α] (x : NdArray α) (idx : List Idx) (v : NdArray α) : Option (NdArray α) :=
  setitemWith x (fullSl :: fullSl :: idx) fun dpj =>
    match dpj with
    | d :: p :: j => v.get (d :: p :: bidx (v.shape.drop 2) j)
    | _ => default

/-- `UTPM.__setitem__` with a plain array / scalar `c`: the zeroth coefficient of the selected cells becomes `c`
(broadcast), all their higher coefficients are cleared -/
def utSetitemConst {α} [Inhabited α] [Zero α] (x : NdArray α) (idx : List Idx) (c : NdArray α) : Option (NdArray α) :=
  setitemWith x (fullSl :: fullSl :: idx) fun dpj =>
    match dpj with
    | d :: _ :: j => if d = 0 then c.get (bidx c.shape j) else 0
    | _ => default

end AV
