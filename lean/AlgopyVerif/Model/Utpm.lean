import AlgopyVerif.Model.Series
import AlgopyVerif.Model.NdArray
/-!
# L2: UTPM layer — `(D,P)+shape` arrays, element-wise functions, arithmetic with
operand kinds and UTPM-aware broadcasting (`utpm/utpm.py:293-529`,
`utpm/algorithms.py:265-285`).
-/
namespace AV
open NdArray

section
variable {K : Type} [Add K] [Mul K] [Sub K] [Neg K] [Div K] [Zero K] [One K] [NatCast K]

/-- arrays of coefficients default to 0 -/
@[instance_reducible] def inh0 : Inhabited K := ⟨0⟩
attribute [local instance] inh0

def utD (x : NdArray K) : Nat := x.shape.getD 0 0
def utP (x : NdArray K) : Nat := x.shape.getD 1 0
def utShape (x : NdArray K) : List Nat := x.shape.drop 2

/-- the series `(x[0,p,idx], …, x[D-1,p,idx])` -/
def seriesAt (x : NdArray K) (p : Nat) (idx : List Nat) : List K :=
  (List.range (utD x)).map fun d => x.get (d :: p :: idx)

/-- assemble a UTPM array from one series per `(p, idx)` -/
def ofSeries (D P : Nat) (shape : List Nat) (f : Nat → List Nat → List K) : NdArray K :=
  let n := numel shape
  let ser := (Array.range (P * n)).map fun k => f (k / n) (unravel shape (k % n))
  ofFn (D :: P :: shape) fun i =>
    match i with
    | d :: p :: idx => co (ser.getD (p * n + ravel shape idx) []) d
    | _ => 0

/-- element-wise unary function; `leaves` are arrays of shape `P :: shape`
(values NumPy/SciPy returned for the zeroth coefficients) -/
def mapS1 (f : List K → List K → List K) (leaves : List (NdArray K)) (x : NdArray K) : NdArray K :=
  ofSeries (utD x) (utP x) (utShape x) fun p idx =>
    f (leaves.map fun l => l.get (p :: idx)) (seriesAt x p idx)

/-- UTPM-aware broadcasting (algorithms.py:265-285): the coefficient shapes broadcast
NumPy-style and so do the leading `(D,P)` axes. -/
def utBroadcastShape (sx sy : List Nat) : Option (List Nat) := do
  let tail ← broadcastShapes (sx.drop 2) (sy.drop 2)
  let head ← broadcastShapes (sx.take 2) (sy.take 2)
  pure (head ++ tail)

/-- position in an operand of shape `s = (D',P')+shape'` for result index `d::p::idx` -/
def utBidx (s : List Nat) (i : List Nat) : List Nat :=
  match i, s with
  | d :: p :: idx, sd :: sp :: ss =>
    (if sd = 1 then 0 else d) :: (if sp = 1 then 0 else p) :: bidx ss idx
  | _, _ => []

def utBroadcastTo (x : NdArray K) (shape : List Nat) : NdArray K :=
  ofFn shape fun i => x.get (utBidx x.shape i)

/-- element-wise binary series function on two UTPM arrays after UTPM broadcasting -/
def zipS2 (f : List K → List K → List K) (x y : NdArray K) : Option (NdArray K) := do
  let s ← utBroadcastShape x.shape y.shape
  let xb := utBroadcastTo x s
  let yb := utBroadcastTo y s
  pure (ofSeries (s.getD 0 0) (s.getD 1 0) (s.drop 2) fun p idx =>
    f (seriesAt xb p idx) (seriesAt yb p idx))

/-- a constant array `c` seen as `c.reshape((1,1)+c.shape)` (utpm.py:311-315) -/
def constAsUt (c : NdArray K) : NdArray K := ⟨1 :: 1 :: c.shape, c.data⟩

/-- `x + c`, `x - c` for an ndarray `c`: only the zeroth coefficient changes (utpm.py:311-320) -/
def addConstArr (sub : Bool) (x c : NdArray K) : Option (NdArray K) := do
  let cu := constAsUt c
  let s ← utBroadcastShape x.shape cu.shape
  let xb := utBroadcastTo x s
  let cb := utBroadcastTo cu s
  pure (ofFn s fun i =>
    match i with
    | d :: _ => if d = 0 then (if sub then xb.get i - cb.get i else xb.get i + cb.get i) else xb.get i
    | _ => 0)

/-- `x * c`, `x / c` for an ndarray `c`: every coefficient is scaled (utpm.py:371-376,398-403) -/
def mulConstArr (div : Bool) (x c : NdArray K) : Option (NdArray K) := do
  let cu := constAsUt c
  let s ← utBroadcastShape x.shape cu.shape
  let xb := utBroadcastTo x s
  let cb := utBroadcastTo cu s
  pure (ofFn s fun i => if div then xb.get i / cb.get i else xb.get i * cb.get i)

/-- scalar on the right: `x + r`, `x - r`, `x * r`, `x / r` (utpm.py:294-299,327-332,359-360,385-386) -/
def scalarOp (op : String) (x : NdArray K) (r : K) : NdArray K :=
  ofFn x.shape fun i =>
    match op, i with
    | "add", d :: _ => if d = 0 then x.get i + r else x.get i
    | "sub", d :: _ => if d = 0 then x.get i - r else x.get i
    | "mul", _ => x.get i * r
    | "div", _ => x.get i / r
    | _, _ => x.get i

def negU (x : NdArray K) : NdArray K := x.map fun a => -a

/-- UTPM ∘ UTPM -/
def utBin (op : String) (x y : NdArray K) : Option (NdArray K) :=
  match op with
  | "add" => zipS2 addS x y
  | "sub" => zipS2 subS x y
  | "mul" => zipS2 mulS x y
  | "div" => zipS2 divS x y
  | _ => none

/-- `__rtruediv__` as the *property* demands it for a constant array/scalar numerator:
`c / x` with `c` a degree-0 polynomial broadcast NumPy-style against `x`. -/
def rdivConst (c : NdArray K) (x : NdArray K) : Option (NdArray K) := do
  let cu := constAsUt c
  let s ← utBroadcastShape x.shape cu.shape
  let D := s.getD 0 0
  let cfull : NdArray K := ofFn (D :: 1 :: cu.shape.drop 2) fun i =>
    match i with
    | d :: _ :: idx => if d = 0 then c.get idx else 0
    | _ => 0
  zipS2 divS cfull x

end
end AV

namespace AV
open NdArray
section
variable {K : Type} [Add K] [Mul K] [Sub K] [Neg K] [Div K] [Zero K] [One K] [NatCast K]
attribute [local instance] inh0

/-- comparison operators (utpm.py:1369-1397): `numpy.all` of the comparison of the zeroth
coefficients over all directions and elements (same-shape operands) -/
def cmpAll (r : K → K → Bool) (x y : NdArray K) : Bool :=
  let s := utP x :: utShape x
  (List.range (numel s)).all fun k => r (x.get (0 :: unravel s k)) (y.get (0 :: unravel s k))

end
end AV
