import AlgopyVerif.Model.Series
/-!
# Coefficient-level imperative semantics of the kernels that run with aliased buffers

A buffer is a `List K` indexed by the coefficient order `d`; a kernel is a loop of writes
`buf[d] := expr(buf, …)`.  Aliasing = the same buffer is read and written.
-/
namespace AV
section
variable {K : Type} [Add K] [Mul K] [Sub K] [Neg K] [Div K] [Zero K] [One K] [NatCast K]

/-- `_mul(x, y, out=y)` (algorithms.py:310-320): for `d = D-1 … 0`: the product array
`x[:d+1] * y[d::-1]` is formed (a temporary), then summed into `y[d]`. -/
def mulStepAliasY (x : List K) (b : List K) (d : Nat) : List K :=
  b.set d (sumRange 0 (d+1) fun k => co x k * co b (d-k))

def mulOutAliasY (x y : List K) : List K :=
  (List.range y.length).reverse.foldl (mulStepAliasY x) y

/-- `_mul(x, y, out=x)`: same loop, the output aliases the *first* operand -/
def mulStepAliasX (y : List K) (b : List K) (d : Nat) : List K :=
  b.set d (sumRange 0 (d+1) fun k => co b k * co y (d-k))

def mulOutAliasX (x y : List K) : List K :=
  (List.range x.length).reverse.foldl (mulStepAliasX y) x

/-- `_mul(x, x, out=x)`: all three are the same buffer -/
def mulStepAliasXY (b : List K) (d : Nat) : List K :=
  b.set d (sumRange 0 (d+1) fun k => co b k * co b (d-k))

def mulOutAliasXY (x : List K) : List K :=
  (List.range x.length).reverse.foldl mulStepAliasXY x

/-- `UTPM.__imul__` with a UTPM right operand (utpm.py:506-510), one direction/element:
for `d = D-1 … 0`: `z[d] *= y[0]`, then for `c < d`: `z[d] += z[c] * y[d-c]`.
`y` is an independent buffer (the repaired code copies `rhs.data` when it may share memory
with `self.data`). -/
def imulStep (y : List K) (z : List K) (d : Nat) : List K :=
  let z1 := z.set d (co z d * co y 0)
  (List.range d).foldl (fun zz c => zz.set d (co zz d + co zz c * co y (d-c))) z1

def imulS (z y : List K) : List K :=
  (List.range z.length).reverse.foldl (imulStep y) z

/-- the loop as it was before the repair when `y` *is* `z` (`x *= x`): reads of `y` see the
partially updated buffer -/
def imulStepSelf (z : List K) (d : Nat) : List K :=
  let z1 := z.set d (co z d * co z 0)
  (List.range d).foldl (fun zz c => zz.set d (co zz d + co zz c * co zz (d-c))) z1

def imulSelfUnrepaired (z : List K) : List K :=
  (List.range z.length).reverse.foldl imulStepSelf z

/-- `_truediv(x, y, out)` / `_itruediv` / `__itruediv__` build the quotient in a temporary and copy
it to the output at the end (algorithms.py:371-392, utpm.py:521-524): aliasing the output with an
operand cannot change what is read. -/
def divViaTemp (x y : List K) : List K := divS x y

end
end AV
