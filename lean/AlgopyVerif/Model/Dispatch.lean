import AlgopyVerif.Model.Series
import AlgopyVerif.Model.NdArray
import AlgopyVerif.Model.Utpm
import AlgopyVerif.Model.QI
import AlgopyVerif.Model.Dtype
import AlgopyVerif.Model.Heap
import AlgopyVerif.Model.Interp
import AlgopyVerif.Model.Convert
import AlgopyVerif.Model.NthDeriv
import AlgopyVerif.Model.Pullback
import AlgopyVerif.Model.Tracer
import AlgopyVerif.Model.Index
import AlgopyVerif.Model.Drivers
import AlgopyVerif.Model.Linalg
import AlgopyVerif.Model.Pade
import Lean.Data.Json
/-!
# Request dispatch of the model driver (JSON codec + operation table)
-/
namespace AV
open Lean NdArray

/-! ## number codecs -/
class Codec (K : Type) where
  parse : String → Option K
  render : K → String

def parseRat (s : String) : Option Rat :=
  match s.splitOn "/" with
  | [n] => n.toInt?.map (fun i => (i : Rat))
  | [n, d] => do
    let a ← n.toInt?
    let b ← d.toNat?
    if b = 0 then none else pure ((a : Rat) / (b : Rat))
  | _ => none

def showRat (r : Rat) : String := if r.den = 1 then toString r.num else s!"{r.num}/{r.den}"

instance : Codec Rat := ⟨parseRat, showRat⟩
instance : Codec QI where
  parse s := match s.splitOn "," with
    | [a] => do let r ← parseRat a; pure ⟨r, 0⟩
    | [a, b] => do let r ← parseRat a; let i ← parseRat b; pure ⟨r, i⟩
    | _ => none
  render z := s!"{showRat z.re},{showRat z.im}"

section
variable {K : Type} [Add K] [Mul K] [Sub K] [Neg K] [Div K] [Zero K] [One K] [NatCast K]
  [Codec K]
attribute [local instance] inh0

def getNum (j : Json) (k : String) : Except String K := do
  let s ← j.getObjValAs? String k
  match Codec.parse s with
  | some v => pure v
  | none => throw s!"bad number {s}"

def parseNums (a : Array String) : Except String (Array K) :=
  a.mapM fun s => match Codec.parse s with
    | some v => pure v
    | none => throw s!"bad number {s}"

def arrOfJson (j : Json) : Except String (NdArray K) := do
  let s ← j.getObjValAs? (Array Nat) "s"
  let d ← j.getObjValAs? (Array String) "d"
  let v ← parseNums d
  if v.size ≠ numel s.toList then throw "bad array size"
  pure ⟨s.toList, v⟩

def getArr (j : Json) (k : String) : Except String (NdArray K) := do
  arrOfJson (← j.getObjVal? k)

def getArrs (j : Json) (k : String) : Except String (List (NdArray K)) := do
  let a ← j.getObjValAs? (Array Json) k
  a.toList.mapM arrOfJson

def getNums (j : Json) (k : String) : Except String (List K) := do
  let a ← j.getObjValAs? (Array String) k
  pure (← parseNums a).toList

def arrToJson (a : NdArray K) : Json :=
  Json.mkObj [("s", toJson a.shape.toArray), ("d", Json.arr (a.data.map fun v => Json.str (Codec.render v)))]

def okArrs (l : List (NdArray K)) : Json := Json.mkObj [("r", Json.arr (l.map arrToJson).toArray)]

/-- table of element-wise functions: name → leaves → params → series → output series -/
def seriesFn (name : String) (lv : List K) (pr : List K) (n : Nat) (x : List K) :
    Except String (List (List K)) :=
  let l (i : Nat) : K := lv.getD i 0
  match name with
  | "exp" => pure [expS (l 0) x]
  | "log" => pure [logS (l 0) x]
  | "sqrt" => pure [sqrtS (l 0) x]
  | "powreal" => pure [powRealS (pr.getD 0 0) (l 0) x]
  | "pownat" => pure [powNatS n x]
  | "powbin" => pure [powBinS n x]
  | "powmask" => pure [powMaskS n (n + lv.length) x]      -- the number of leaves passed = (largest exponent of the array) - n
  | "sincos" => let r := sincosS (l 0) (l 1) x; pure [r.1, r.2]
  | "sinhcosh" => let r := sinhcoshS (l 0) (l 1) x; pure [r.1, r.2]
  | "tansec2" => let r := tansec2S (l 0) (l 1) x; pure [r.1, r.2]
  | "tanhsech2" => let r := tanhsech2S (l 0) (l 1) x; pure [r.1, r.2]
  | "arcsin" => let r := arcsinS (l 0) (l 1) x; pure [r.1, r.2]
  | "arctan" => let r := arctanS (l 0) x; pure [r.1, r.2]
  | "recip" => pure [recipS x]
  | "square" => pure [squareS x]
  | "neg" => pure [negS x]
  | "expm1" => pure [expm1S (l 0) (l 1) x]
  | "log1p" => pure [log1pS (l 0) x]
  | "logit" => pure [logitS (l 0) x]
  | "expit" => pure [expitS (l 0) (l 1) x]
  | "erf" => pure [erfS (pr.getD 0 0) (l 0) (l 1) x]
  | "erfi" => pure [erfiS (pr.getD 0 0) (l 0) (l 1) x]
  | "dawsn" => pure [dawsnS (l 0) x]
  | "slowgeneric" => pure [slowGenericS lv x]
  | "absolute" => pure [absoluteS (l 0) (l 1) x]
  | "sign" => pure [signS (l 0) x]
  | "clip" => pure [clipS (l 0) (l 1) x]
  | "mul_alias_xy" => pure [mulOutAliasXY x]
  | _ => throw s!"bad-fn {name}"

/-- apply a multi-output element-wise function to a UTPM array -/
def mapSn (name : String) (leaves : List (NdArray K)) (pr : List K) (n : Nat) (nout : Nat)
    (x : NdArray K) : Except String (List (NdArray K)) := do
  let D := utD x
  let P := utP x
  let shape := utShape x
  let m := numel shape
  let ser ← (Array.range (P * m)).mapM fun k =>
    let p := k / m
    let idx := unravel shape (k % m)
    seriesFn name (leaves.map fun lf => lf.get (p :: idx)) pr n (seriesAt x p idx)
  pure ((List.range nout).map fun o =>
    ofFn (D :: P :: shape) fun i =>
      match i with
      | d :: p :: idx => co ((ser.getD (p * m + ravel shape idx) []).getD o []) d
      | _ => 0)

def optArr (o : Option (NdArray K)) : Except String Json :=
  match o with
  | some a => pure (okArrs [a])
  | none => pure (Json.mkObj [("error", Json.str "shape")])

def handleK (j : Json) : Except String Json := do
  let op ← j.getObjValAs? String "op"
  match op with
  | "ew1" =>
    let name ← j.getObjValAs? String "fn"
    let x : NdArray K ← getArr j "x"
    let leaves : List (NdArray K) ← getArrs j "leaves"
    let pr : List K ← getNums j "params"
    let n := (j.getObjValAs? Nat "n").toOption.getD 0
    let nout := (j.getObjValAs? Nat "nout").toOption.getD 1
    pure (okArrs (← mapSn name leaves pr n nout x))
  | "ew2" =>
    -- binary series-level kernels on same-shape UTPM arrays (heap models of aliased kernels)
    let fn ← j.getObjValAs? String "fn"
    let x : NdArray K ← getArr j "x"
    let y : NdArray K ← getArr j "y"
    let f : List K → List K → List K ← match fn with
      | "mul_alias_y" => pure mulOutAliasY
      | "mul_alias_x" => pure mulOutAliasX
      | "imul" => pure imulS
      | "mul" => pure mulS
      | "div" => pure divS
      | _ => throw s!"bad-fn {fn}"
    optArr (zipS2 f x y)
  | "pb1" =>
    -- series-level pullback of a unary operation, starting from xbar = 0
    let fn ← j.getObjValAs? String "fn"
    let ybar : NdArray K ← getArr j "ybar"
    let x : NdArray K ← getArr j "x"
    let y : NdArray K ← getArr j "y"
    let leaves : List (NdArray K) ← getArrs j "leaves"
    let pr : List K ← getNums j "params"
    let n := (j.getObjValAs? Nat "n").toOption.getD 0
    let D := utD x
    let P := utP x
    let shape := utShape x
    let zero : List K := List.replicate D 0
    let res ← (pure (ofSeries D P shape fun p idx =>
      let yb := seriesAt ybar p idx
      let xs := seriesAt x p idx
      let ys := seriesAt y p idx
      let l (i : Nat) : K := (leaves.getD i ⟨[], #[]⟩).get (p :: idx)
      match fn with
      | "exp" => pbExp yb ys zero
      | "log" => pbLog yb xs zero
      | "sqrt" => pbSqrt yb ys zero
      | "square" => pbSquare yb xs zero
      | "reciprocal" => pbReciprocal yb xs zero
      | "negative" => pbNegative yb zero
      | "neg" => pbNeg yb zero
      | "sign" => pbSign yb zero
      | "absolute" => pbAbsolute (l 0) yb zero
      | "pownat" => pbPowNat n yb xs zero
      | "powreal" => pbPowReal (pr.getD 0 0) yb xs ys zero
      | "sin" => pbSin (l 0) (l 1) yb xs zero
      | "cos" => pbCos (l 0) (l 1) yb xs zero
      | "tan" => pbTan (l 0) (l 1) yb xs zero
      | "expm1" => pbExpm1 (l 0) yb xs zero
      | "log1p" => pbLog1p yb xs zero
      | "logit" => pbLogit yb xs zero
      | "expit" => pbExpit (l 0) yb xs zero
      | "erf" => pbErf (pr.getD 0 0) (l 0) yb xs zero
      | "erfi" => pbErfi (pr.getD 0 0) (l 0) yb xs zero
      | "dawsn" => pbDawsn (l 0) yb xs zero
      | _ => []) : Except String (NdArray K))
    pure (okArrs [res])
  | "pb2" =>
    -- series-level pullback of a binary operator on same-shape operands, from zero adjoints
    let fn ← j.getObjValAs? String "fn"
    let zbar : NdArray K ← getArr j "zbar"
    let x : NdArray K ← getArr j "x"
    let y : NdArray K ← getArr j "y"
    let z : NdArray K ← getArr j "z"
    let D := utD x
    let P := utP x
    let shape := utShape x
    let zero : List K := List.replicate D 0
    let f (p : Nat) (idx : List Nat) : List K × List K :=
      let zb := seriesAt zbar p idx
      let xs := seriesAt x p idx
      let ys := seriesAt y p idx
      let zs := seriesAt z p idx
      match fn with
      | "add" => pbAdd zb zero zero
      | "sub" => pbSub zb zero zero
      | "mul" => pbMul zb xs ys zero zero
      | "div" => pbDiv zb ys zs zero zero
      | _ => ([], [])
    pure (okArrs [ofSeries D P shape fun p idx => (f p idx).1, ofSeries D P shape fun p idx => (f p idx).2])
  | "np" =>
    -- mini-NumPy operations
    let what ← j.getObjValAs? String "what"
    let x : NdArray K ← getArr j "x"
    let parseIdx (ja : Array Json) : Except String (List Idx) := ja.toList.mapM fun o =>
      match o with
      | Json.str "e" => pure Idx.ellipsis
      | Json.str "n" => pure Idx.newaxis
      | o =>
        match o.getObjValAs? Int "i" with
        | .ok i => pure (Idx.int i)
        | .error _ => do
          let sl ← o.getObjValAs? (Array Json) "s"
          let g (k : Nat) : Option Int := match sl.getD k Json.null with
            | Json.null => none
            | v => (v.getInt?).toOption
          pure (Idx.slice (g 0) (g 1) (g 2))
    match what with
    | "getitem" =>
      let idx ← parseIdx (← j.getObjValAs? (Array Json) "idx")
      optArr (getitem x idx)
    | "utgetitem" =>
      let idx ← parseIdx (← j.getObjValAs? (Array Json) "idx")
      optArr (utGetitem x idx)
    | "utsetitem" =>
      let idx ← parseIdx (← j.getObjValAs? (Array Json) "idx")
      let v : NdArray K ← getArr j "v"
      optArr (utSetitem x idx v)
    | "utsetitemconst" =>
      let idx ← parseIdx (← j.getObjValAs? (Array Json) "idx")
      let c : NdArray K ← getArr j "v"
      optArr (utSetitemConst x idx c)
    | "sum" =>
      let ax ← j.getObjValAs? Nat "axis"
      pure (okArrs [sumAxis x ax])
    | "utsum" =>
      let ax ← j.getObjValAs? Int "axis"
      pure (okArrs [utSumAxis x ax])
    | "reshape" =>
      let sh ← j.getObjValAs? (Array Nat) "shape"
      optArr (x.reshape sh.toList)
    | "transpose" =>
      let pm ← j.getObjValAs? (Array Nat) "perm"
      pure (okArrs [x.transposeAxes pm.toList])
    | "broadcast" =>
      let sh ← j.getObjValAs? (Array Nat) "shape"
      pure (okArrs [x.broadcastTo sh.toList])
    | _ => throw s!"bad-what {what}"
  | "mat" =>
    -- matrix Taylor kernels; arrays (D,P,n,m); leaves (P,n,m) arrays (zeroth-order inverses etc.)
    let what ← j.getObjValAs? String "what"
    let x : NdArray K ← getArr j "x"
    let D := utD x
    let P := utP x
    let matOf (a : NdArray K) (pre : List Nat) : Mat K :=
      let n := a.shape.getD pre.length 0
      let m := a.shape.getD (pre.length + 1) 1
      if a.shape.length = pre.length + 1 then Mat.ofFn n 1 fun i _ => a.get (pre ++ [i])
      else Mat.ofFn n m fun i jj => a.get (pre ++ [i, jj])
    let series (a : NdArray K) (p : Nat) : List (Mat K) := (List.range (utD a)).map fun d => matOf a [d, p]
    let assemble (res : List (List (Mat K))) (vec : Bool) : NdArray K :=
      -- res[p][d] matrices of equal shape
      let m0 := ((res.getD 0 []).getD 0 ⟨[]⟩)
      let n := m0.nrows
      let m := m0.ncols
      if vec then ofFn [D, P, n] fun i => match i with
        | [d, p, a] => ((res.getD p []).getD d ⟨[]⟩).get a 0
        | _ => 0
      else ofFn [D, P, n, m] fun i => match i with
        | [d, p, a, b] => ((res.getD p []).getD d ⟨[]⟩).get a b
        | _ => 0
    match what with
    | "dot" =>
      let y : NdArray K ← getArr j "y"
      let xk ← j.getObjValAs? String "xk"   -- "u" UTPM, "a" constant
      let yk ← j.getObjValAs? String "yk"
      let xs (p : Nat) : List (Mat K) := if xk = "u" then series x p else
        (List.range D).map fun d => if d = 0 then matOf x [] else ⟨[]⟩
      let ys (p : Nat) : List (Mat K) := if yk = "u" then series y p else
        (List.range D).map fun d => if d = 0 then matOf y [] else ⟨[]⟩
      let P' := if xk = "u" then P else utP y
      let D' := if xk = "u" then D else utD y
      let res := (List.range P').map fun p =>
        let xl := if xk = "u" then series x p else (List.range D').map fun d => if d = 0 then matOf x [] else ⟨[]⟩
        let yl := if yk = "u" then series y p else (List.range D').map fun d => if d = 0 then matOf y [] else ⟨[]⟩
        dotM xl yl
      let m0 := ((res.getD 0 []).getD 0 ⟨[]⟩)
      pure (okArrs [ofFn [D', P', m0.nrows, m0.ncols] fun i => match i with
        | [d, p, a, b] => ((res.getD p []).getD d ⟨[]⟩).get a b
        | _ => 0])
    | "inv" =>
      let l0 : NdArray K ← getArr j "l0"        -- numpy.linalg.inv(x[0,p])
      pure (okArrs [assemble ((List.range P).map fun p => invM (series x p) (matOf l0 [p])) false])
    | "solve" =>
      let b : NdArray K ← getArr j "y"
      let l0 : NdArray K ← getArr j "l0"        -- inverse of A_0 per direction
      let kind ← j.getObjValAs? String "kind"   -- "uu", "au" (constant A), "ua" (constant b)
      match kind with
      | "uu" => pure (okArrs [assemble ((List.range P).map fun p => solveM (series x p) (matOf l0 [p]) (series b p)) false])
      | "au" =>
        let Pb := utP b
        let Db := utD b
        let res := (List.range Pb).map fun p => solveConstAM (matOf l0 [0]) (series b p)
        let m0 := ((res.getD 0 []).getD 0 ⟨[]⟩)
        pure (okArrs [ofFn [Db, Pb, m0.nrows, m0.ncols] fun i => match i with
          | [d, p, a, c] => ((res.getD p []).getD d ⟨[]⟩).get a c
          | _ => 0])
      | _ => pure (okArrs [assemble ((List.range P).map fun p => solveConstBM (series x p) (matOf l0 [p]) (matOf b [])) false])
    | _ => throw s!"bad-what {what}"
  | "conv" =>
    let what ← j.getObjValAs? String "what"
    match what with
    | "shift" =>
      let x : NdArray K ← getArr j "x"
      let s ← j.getObjValAs? Int "s"
      pure (okArrs [mapS1 (fun _ xs => shiftS s xs) [] x])
    | "symvec" =>
      let x : NdArray K ← getArr j "x"
      let uplo := ((← j.getObjValAs? String "uplo").toList.getD 0 'F')
      let N := x.shape.getD 2 0
      let M := (triPairs N).length
      pure (okArrs [ofFn [utD x, utP x, M] fun i =>
        match i with
        | [d, p, k] => co (symvecF N uplo fun r c => x.get [d, p, r, c]) k
        | _ => 0])
    | "vecsym" =>
      let v : NdArray K ← getArr j "x"
      let N ← j.getObjValAs? Nat "N"
      pure (okArrs [ofFn [utD v, utP v, N, N] fun i =>
        match i with
        | [d, p, r, c] => vecsymF N ((List.range (v.shape.getD 2 0)).map fun k => v.get [d, p, k]) r c
        | _ => 0])
    | "base_dirs2utpm" =>
      let x : NdArray K ← getArr j "x"
      let V : NdArray K ← getArr j "V"
      pure (okArrs [baseDirs2utpm x V])
    | "utpm2base_dirs" =>
      let u : NdArray K ← getArr j "x"
      let r := utpm2baseDirs u
      pure (okArrs [r.1, r.2])
    | "utpm2dirs" =>
      let u : NdArray K ← getArr j "x"
      pure (okArrs [utpm2dirs u])
    | "container" =>
      let X : NdArray K ← getArr j "x"
      let outer ← j.getObjValAs? (List Nat) "outer"
      pure (okArrs [containerToUtpm outer X])
    | _ => throw s!"bad-what {what}"
  | "bin" =>
    -- kinds: "uu" UTPM∘UTPM, "us" UTPM∘scalar, "ua" UTPM∘ndarray, "su" scalar∘UTPM, "au" ndarray∘UTPM
    let fn ← j.getObjValAs? String "fn"
    let kind ← j.getObjValAs? String "kind"
    match kind with
    | "uu" =>
      let x : NdArray K ← getArr j "x"
      let y : NdArray K ← getArr j "y"
      optArr (utBin fn x y)
    | "us" =>
      let x : NdArray K ← getArr j "x"
      let r : K ← getNum j "y"
      pure (okArrs [scalarOp fn x r])
    | "ua" =>
      let x : NdArray K ← getArr j "x"
      let c : NdArray K ← getArr j "y"
      match fn with
      | "add" => optArr (addConstArr false x c)
      | "sub" => optArr (addConstArr true x c)
      | "mul" => optArr (mulConstArr false x c)
      | "div" => optArr (mulConstArr true x c)
      | _ => throw "bad-fn"
    | "su" =>
      -- reflected forms with a scalar on the left (utpm.py:458-470)
      let r : K ← getNum j "x"
      let x : NdArray K ← getArr j "y"
      match fn with
      | "add" => pure (okArrs [scalarOp "add" x r])
      | "sub" => pure (okArrs [scalarOp "add" (negU x) r])
      | "mul" => pure (okArrs [scalarOp "mul" x r])
      | "div" => optArr (rdivConst ⟨[], #[r]⟩ x)
      | _ => throw "bad-fn"
    | "au" =>
      let c : NdArray K ← getArr j "x"
      let x : NdArray K ← getArr j "y"
      match fn with
      | "add" => optArr (addConstArr false x c)
      | "sub" => optArr (addConstArr false (negU x) c)
      | "mul" => optArr (mulConstArr false x c)
      | "div" => optArr (rdivConst c x)
      | _ => throw "bad-fn"
    | _ => throw "bad-kind"
  | _ => throw s!"bad-op {op}"

end

def parseDT (s : String) : Except String DT :=
  match s with
  | "i64" => pure .i64 | "f64" => pure .f64 | "c128" => pure .c128
  | _ => throw s!"bad dtype {s}"

def showDT : DT → String
  | .i64 => "i64" | .f64 => "f64" | .c128 => "c128"

/-- `{"op":"dtype","aop":"add","self":"f64","kind":"pyint"|"pyfloat"|"pycomplex"|"utpm"|"npscalar"|"ndarray","dt":"f64","refl":false}` -/
def handleDtype (j : Json) : Except String Json := do
  let aop ← match (← j.getObjValAs? String "aop") with
    | "add" => pure AOp.add | "sub" => pure AOp.sub | "mul" => pure AOp.mul | "div" => pure AOp.div
    | s => throw s!"bad aop {s}"
  let self ← parseDT (← j.getObjValAs? String "self")
  let dt ← parseDT ((j.getObjValAs? String "dt").toOption.getD "f64")
  let kind ← match (← j.getObjValAs? String "kind") with
    | "pyint" => pure OKind.pyint | "pyfloat" => pure OKind.pyfloat | "pycomplex" => pure OKind.pycomplex
    | "utpm" => pure (OKind.utpm dt) | "npscalar" => pure (OKind.npscalar dt) | "ndarray" => pure (OKind.ndarray dt)
    | s => throw s!"bad kind {s}"
  let refl := (j.getObjValAs? Bool "refl").toOption.getD false
  pure (Json.mkObj [("dt", Json.str (showDT (resultDT aop self kind refl)))])

/-- exact-interpolation requests -/
def handleInterp (j : Json) : Except String Json := do
  let what ← j.getObjValAs? String "what"
  match what with
  | "multi_indices" =>
    let N ← j.getObjValAs? Nat "N"
    let d ← j.getObjValAs? Nat "d"
    pure (Json.mkObj [("r", toJson ((Interp.multiIndices N d).map (·.toArray)).toArray)])
  | "gamma" =>
    let i ← j.getObjValAs? (Array Nat) "i"
    let jj ← j.getObjValAs? (Array Nat) "j"
    pure (Json.mkObj [("r", Json.str (showRat (Interp.gamma i.toList jj.toList)))])
  | "Gamma" =>
    let N ← j.getObjValAs? Nat "N"
    let d ← j.getObjValAs? Nat "d"
    let J := Interp.multiIndices N d
    pure (Json.mkObj [("r", Json.arr (J.map fun i => Json.arr (J.map fun jj => Json.str (showRat (Interp.gamma i jj))).toArray).toArray)])
  | "check" =>
    let N ← j.getObjValAs? Nat "N"
    let d ← j.getObjValAs? Nat "d"
    pure (Json.mkObj [("r", Json.bool (Interp.checkIdentity N d))])
  | "increment" =>
    let i ← j.getObjValAs? (Array Nat) "i"
    let k ← j.getObjValAs? (Array Nat) "k"
    pure (Json.mkObj [("r", toJson (Interp.increment i.toList k.toList).toArray)])
  | "binomial" =>
    let i ← j.getObjValAs? (Array String) "i"
    let jj ← j.getObjValAs? (Array Nat) "j"
    let ir ← i.toList.mapM fun s => match parseRat s with | some v => pure v | none => throw "bad rat"
    pure (Json.mkObj [("r", Json.str (showRat (Interp.miBinom ir jj.toList)))])
  | "pos" =>
    let i ← j.getObjValAs? (Array Nat) "i"
    pure (Json.mkObj [("r", toJson (Interp.toPos i.toList).toArray)])
  | _ => throw s!"bad-what {what}"

/-- closed-form n-th derivatives: `{"op":"nth","fn":…,"n":k,"x":"p/q","leaves":[…],"m":nat}` -/
def handleNth (j : Json) : Except String Json := do
  let fn ← j.getObjValAs? String "fn"
  let n ← j.getObjValAs? Nat "n"
  let xs ← j.getObjValAs? String "x"
  let x ← match parseRat xs with | some v => pure v | none => throw "bad x"
  let ls ← j.getObjValAs? (Array String) "leaves"
  let lv ← ls.toList.mapM fun s => match parseRat s with | some v => pure v | none => throw "bad leaf"
  let m := (j.getObjValAs? Nat "m").toOption.getD 0
  let l (i : Nat) : Rat := lv.getD i 0
  let r : Rat ← match fn with
    | "exp" => pure (dExp (l 0) n)
    | "exp2" => pure (dExp2 (l 0) (l 1) n)
    | "expm1" => pure (dExpm1 (l 0) (l 1) n)
    | "log" => pure (dLog (l 0) x n)
    | "logb" => pure (dLogb (l 0) (l 1) x n)
    | "log1p" => pure (dLog1p (l 0) x n)
    | "sqrt" => pure (dSqrt (l 0) x n)
    | "square" => pure (dSquare x n)
    | "negative" => pure (dNegative x n)
    | "reciprocal" => pure (dReciprocal x n)
    | "sin" => pure (dSin (l 0) (l 1) n)
    | "cos" => pure (dCos (l 0) (l 1) n)
    | "sinh" => pure (dSinh (l 0) (l 1) n)
    | "cosh" => pure (dCosh (l 0) (l 1) n)
    | "arctanh" => pure (dArctanh (l 0) x n)
    | "step" => pure (dStep (l 0) n)
    | "absolute" => pure (dAbsolute (l 0) (l 1) n)
    | "clip" => pure (dClip (l 0) (l 1) n)
    | "gammaln" => pure (dGammaln (l 0) (lv.drop 1) n)
    | "psi" => pure (dPsi lv n)
    | "polygamma" => pure (dPolygamma m lv n)
    | "hyperu" => pure (dHyperu (l 0) (lv.drop 1) n)
    | "erf" => pure (dErf (l 0) (l 1) x n)
    | "erfi" => pure (dErfi (l 0) (l 1) x n)
    | "arctan" => pure (dArctan (K := Rat) (l 0) x n)
    | "arcsin" => pure (dArcsin (K := Rat) (l 0) x (l 1) n)
    | "arccos" => pure (if n = 0 then l 0 else -(dArcsin (K := Rat) 0 x (l 1) n))
    | "arcsinh" => pure (dArcsinh (K := Rat) (l 0) x (l 1) n)
    | "arccosh" => pure (dArccosh (K := Rat) (l 0) x (l 1) n)
    | _ => throw s!"bad-fn {fn}"
  pure (Json.mkObj [("r", Json.str (showRat r))])

/-- recording state machine: `{"op":"tracer","ops":[{"f":3,"args":[{"n":0},{"c":1}]},"off","on"]}` -/
def handleTracer (j : Json) : Except String Json := do
  let ops ← j.getObjValAs? (Array Json) "ops"
  let ops' ← ops.toList.mapM fun o =>
    match o with
    | Json.str "off" => pure Tracer.Op.traceOff
    | Json.str "on" => pure Tracer.Op.traceOn
    | o => do
      let f ← o.getObjValAs? Nat "f"
      let args ← o.getObjValAs? (Array Json) "args"
      let as ← args.toList.mapM fun a =>
        match a.getObjValAs? Nat "n" with
        | .ok n => pure (Tracer.Arg.node n)
        | .error _ => do let c ← a.getObjValAs? Nat "c"; pure (Tracer.Arg.const c)
      pure (Tracer.Op.apply f as)
  let s := Tracer.run ops' {}
  let nodes := s.nodes.map fun nd => Json.mkObj [("f", toJson nd.func), ("id", toJson nd.id),
    ("args", Json.arr (nd.args.map fun a => match a with
      | .node i => Json.mkObj [("n", toJson i)]
      | .const c => Json.mkObj [("c", toJson c)]).toArray)]
  pure (Json.mkObj [("count", toJson s.count), ("tracing", toJson s.tracing), ("nodes", Json.arr nodes.toArray)])

/-- evaluations of a graph with a constant work array updated by accumulating writes:
`{"op":"workarray","undo":true,"ws":[[0,1],[0,2]],"h0":["0","0","0"],"rec":[[1,"1/2"],[2,"1/4"]],"calls":[[[1,"2"],[2,"4"]]],"out":0}` -/
def handleWorkarray (j : Json) : Except String Json := do
  let undo ← j.getObjValAs? Bool "undo"
  let wsj ← j.getObjValAs? (Array (Array Nat)) "ws"
  let ws := wsj.toList.map fun a => (a.getD 0 0, a.getD 1 0)
  let h0s ← j.getObjValAs? (Array String) "h0"
  let h0 ← h0s.toList.mapM fun s => match parseRat s with | some v => pure v | none => throw "bad rat"
  let pairs (a : Array Json) : Except String (List (Nat × Rat)) :=
    a.toList.mapM fun e => do
      let arr ← (fromJson? e : Except String (Array Json))
      let c ← (fromJson? (arr.getD 0 Json.null) : Except String Nat)
      let vs ← (fromJson? (arr.getD 1 Json.null) : Except String String)
      match parseRat vs with | some v => pure (c, v) | none => throw "bad rat"
  let recIns ← pairs (← j.getObjValAs? (Array Json) "rec")
  let callsj ← j.getObjValAs? (Array (Array Json)) "calls"
  let calls ← callsj.toList.mapM pairs
  let out ← j.getObjValAs? Nat "out"
  let r := Tracer.accHistory undo ws h0 recIns calls out
  pure (Json.mkObj [("r", Json.arr (r.map fun v => Json.str (showRat v)).toArray)])

/-- forward drivers: seed tables and extraction -/
def handleDrivers (j : Json) : Except String Json := do
  let what ← j.getObjValAs? String "what"
  let N ← j.getObjValAs? Nat "N"
  let ratList (k : String) : Except String (List Rat) := do
    let a ← j.getObjValAs? (Array String) k
    a.toList.mapM fun s => match parseRat s with | some v => pure v | none => throw "bad rat"
  let showM (m : List (List Rat)) : Json := Json.arr (m.map fun r => Json.arr (r.map fun v => Json.str (showRat v)).toArray).toArray
  match what with
  | "hess_dirs" => pure (Json.mkObj [("r", showM (hessDirs N))])
  | "jac_dirs" => pure (Json.mkObj [("r", showM (jacDirs N))])
  | "hess_vec_dirs" => do
    let v ← ratList "v"
    pure (Json.mkObj [("r", showM (hessVecDirs N v))])
  | "extract_hessian" => do
    let c2 ← ratList "c2"
    pure (Json.mkObj [("r", showM ((List.range N).map fun n => (List.range N).map fun m => extractHessian N c2 n m))])
  | "extract_hess_vec" => do
    let c2 ← ratList "c2"
    pure (Json.mkObj [("r", Json.arr ((List.range N).map fun n => Json.str (showRat (extractHessVec N c2 n))).toArray)])
  | _ => throw s!"bad-what {what}"

def handlePiv (j : Json) : Except String Json := do
  let piv ← j.getObjValAs? (Array Nat) "piv"
  let N := piv.size
  let W := (List.range N).map fun i => ((List.range N).map fun jj => piv2matF piv.toList i jj).toArray
  pure (Json.mkObj [("swap", toJson (pivSwap piv.toList).toArray), ("W", toJson W.toArray),
    ("det", toJson (piv2detF piv.toList))])

/-- Pade tables of `expm_pade`: `{"op":"pade","q":q,"x":"p/q"}` -> `U`, `V` of `_expm_pade<q>` for a scalar argument; with `"norm"`: the
order `expm_higham_2005` picks (0: scaling branch) -/
def handlePade (j : Json) : Except String Json := do
  match (j.getObjValAs? String "norm").toOption with
  | some ns =>
    match parseRat ns with
    | some v => pure (Json.mkObj [("order", toJson ((highamOrder v).getD 0))])
    | none => throw "bad rat"
  | none =>
    let q ← j.getObjValAs? Nat "q"
    let xs ← j.getObjValAs? String "x"
    match parseRat xs with
    | some x => pure (Json.mkObj [("U", Json.str (showRat (padeU q x))), ("V", Json.str (showRat (padeV q x)))])
    | none => throw "bad rat"

def handle (j : Json) : Except String Json := do
  if (j.getObjValAs? String "op").toOption == some "pade" then return (← handlePade j)
  if (j.getObjValAs? String "op").toOption == some "drivers" then return (← handleDrivers j)
  if (j.getObjValAs? String "op").toOption == some "tracer" then return (← handleTracer j)
  if (j.getObjValAs? String "op").toOption == some "workarray" then return (← handleWorkarray j)
  if (j.getObjValAs? String "op").toOption == some "nth" then return (← handleNth j)
  if (j.getObjValAs? String "op").toOption == some "piv" then return (← handlePiv j)
  if (j.getObjValAs? String "op").toOption == some "interp" then return (← handleInterp j)
  if (j.getObjValAs? String "op").toOption == some "dtype" then return (← handleDtype j)
  let f := (j.getObjValAs? String "f").toOption.getD "Q"
  if f = "QI" then handleK (K := QI) j else handleK (K := Rat) j

end AV
