import AlgopyVerif.Model.Basic
/-!
# L1: a mini-NumPy (Mathlib-free, executable, polymorphic in the element type)

Row-major arrays `NdArray α = (shape, data)`.  Used on values (`α = K`), on cell
identifiers (`α = Nat`: an array of the parent's cell ids *is* a NumPy view) and on
shapes only.  Validated against the real NumPy by the "mini-NumPy vs NumPy" stream of
the C13 correspondence.
-/
namespace AV

structure NdArray (α : Type) where
  shape : List Nat
  data : Array α
deriving Repr, BEq

namespace NdArray
variable {α β γ : Type}

/-- number of elements of a shape -/
def numel (shape : List Nat) : Nat := prodN shape

/-- row-major flat position of a multi-index -/
def ravel : List Nat → List Nat → Nat
  | [], _ => 0
  | _, [] => 0
  | _ :: ns, i :: is => i * numel ns + ravel ns is

/-- multi-index of a flat position -/
def unravel : List Nat → Nat → List Nat
  | [], _ => []
  | _ :: ns, k => (k / numel ns) :: unravel ns (k % numel ns)

def ofFn (shape : List Nat) (f : List Nat → α) : NdArray α :=
  ⟨shape, (Array.range (numel shape)).map fun k => f (unravel shape k)⟩

def get [Inhabited α] (a : NdArray α) (idx : List Nat) : α :=
  a.data.getD (ravel a.shape idx) default

def map (f : α → β) (a : NdArray α) : NdArray β := ⟨a.shape, a.data.map f⟩

def full (shape : List Nat) (v : α) : NdArray α := ⟨shape, Array.replicate (numel shape) v⟩

def ndim (a : NdArray α) : Nat := a.shape.length

/-- NumPy broadcasting of two shapes (right aligned); `none` = not broadcastable -/
def broadcastShapes (s t : List Nat) : Option (List Nat) :=
  let n := max s.length t.length
  let s' := List.replicate (n - s.length) 1 ++ s
  let t' := List.replicate (n - t.length) 1 ++ t
  (List.zip s' t').mapM fun (a, b) =>
    if a = b then some a else if a = 1 then some b else if b = 1 then some a else none

/-- index into an array of shape `s` for position `idx` of a broadcast result -/
def bidx (s : List Nat) (idx : List Nat) : List Nat :=
  let idx' := idx.drop (idx.length - s.length)
  List.zipWith (fun n i => if n = 1 then 0 else i) s idx'

def broadcastTo [Inhabited α] (a : NdArray α) (shape : List Nat) : NdArray α :=
  ofFn shape fun idx => a.get (bidx a.shape idx)

def zipWith [Inhabited α] [Inhabited β] (f : α → β → γ) (a : NdArray α) (b : NdArray β) :
    Option (NdArray γ) := do
  let s ← broadcastShapes a.shape b.shape
  pure (ofFn s fun idx => f (a.get (bidx a.shape idx)) (b.get (bidx b.shape idx)))

/-- reshape (row-major, same number of elements) -/
def reshape (a : NdArray α) (shape : List Nat) : Option (NdArray α) :=
  if numel shape = numel a.shape then some ⟨shape, a.data⟩ else none

/-- general axis permutation: result axis `k` is source axis `perm[k]` -/
def transposeAxes [Inhabited α] (a : NdArray α) (perm : List Nat) : NdArray α :=
  let shape := perm.map fun k => a.shape.getD k 1
  ofFn shape fun idx =>
    a.get ((List.range a.shape.length).map fun ax =>
      match perm.idxOf? ax with
      | some k => idx.getD k 0
      | none => 0)

end NdArray
end AV
