import AlgopyVerif.Model.Series
import AlgopyVerif.Model.QI
/-!
# Closed-form n-th derivatives (`algopy/nthderiv/nthderiv.py`)

Each closed form is a function of `n`, the point `x` and *leaf values* (NumPy/SciPy values
at `x`).  Generic in the coefficient type, so the same definition is evaluated on `Rat`
in the driver and interpreted over `ℝ` in the theorems.
-/
namespace AV
section
variable {K : Type} [Add K] [Mul K] [Sub K] [Neg K] [Div K] [Zero K] [One K] [NatCast K]

def powN (x : K) : Nat → K
  | 0 => 1
  | n+1 => powN x n * x

def negOnePow (n : Nat) : K := if n % 2 = 0 then 1 else -1

/-- rising factorial `poch(a, n) = a (a+1) … (a+n-1)` -/
def pochK (a : K) : Nat → K
  | 0 => 1
  | n+1 => pochK a n * (a + nat n)

/-- nthderiv.py `exp`: every derivative is `exp x` (leaf `e`) -/
def dExp (e : K) (_n : Nat) : K := e
/-- `exp2`: `2^x (log 2)^n` (leaves `e = 2^x`, `l2 = log 2`) -/
def dExp2 (e l2 : K) (n : Nat) : K := e * powN l2 n
/-- `expm1` -/
def dExpm1 (em1 e : K) (n : Nat) : K := if n = 0 then em1 else e
/-- `log`: `(-1)^{n-1} (n-1)! x^{-n}` for `n ≥ 1` -/
def dLog (l x : K) (n : Nat) : K :=
  if n = 0 then l else negOnePow (n-1) * nat (fact (n-1)) / powN x n
/-- `log2`, `log10`: divided by `log b` (leaf `lb`), order 0 is the leaf -/
def dLogb (l0 lb x : K) (n : Nat) : K := if n = 0 then l0 else dLog 0 x n / lb
/-- `log1p` -/
def dLog1p (l x : K) (n : Nat) : K :=
  if n = 0 then l else negOnePow (n-1) * nat (fact (n-1)) / powN (1 + x) n
/-- `sqrt`: `poch(3/2 - n, n) x^{1/2 - n}` (leaf `s = sqrt x`) -/
def dSqrt (s x : K) (n : Nat) : K :=
  if n = 0 then s else pochK (nat 3 / nat 2 - nat n) n * (s / powN x n)
def dSquare (x : K) (n : Nat) : K :=
  match n with
  | 0 => x * x
  | 1 => x * nat 2
  | 2 => nat 2
  | _ => 0
def dNegative (x : K) (n : Nat) : K :=
  match n with
  | 0 => -x
  | 1 => -1
  | _ => 0
/-- `reciprocal`: `(-1)^n n! x^{-(n+1)}` -/
def dReciprocal (x : K) (n : Nat) : K := negOnePow n * nat (fact n) / powN x (n+1)
/-- `sin`: `sin(x + nπ/2)` in terms of the leaves `s = sin x`, `c = cos x` -/
def dSin (s c : K) (n : Nat) : K :=
  match n % 4 with
  | 0 => s | 1 => c | 2 => -s | _ => -c
def dCos (s c : K) (n : Nat) : K :=
  match n % 4 with
  | 0 => c | 1 => -s | 2 => -c | _ => s
def dSinh (s c : K) (n : Nat) : K := if n % 2 = 0 then s else c
def dCosh (s c : K) (n : Nat) : K := if n % 2 = 0 then c else s
/-- `arctanh`: `((1-x)^{-n} + (-1)^{n-1} (1+x)^{-n}) (n-1)!/2` -/
def dArctanh (l x : K) (n : Nat) : K :=
  if n = 0 then l else (1 / powN (1 - x) n + negOnePow (n-1) / powN (x + 1) n) * (nat (fact (n-1)) / nat 2)
/-- piecewise-constant functions (`rint, fix, floor, ceil, trunc, sign`) -/
def dStep (leaf : K) (n : Nat) : K := if n = 0 then leaf else 0
/-- `absolute`: order 1 is `sign x` -/
def dAbsolute (a sg : K) (n : Nat) : K := match n with | 0 => a | 1 => sg | _ => 0
/-- `clip`: order 1 is the indicator of the interval -/
def dClip (c mask : K) (n : Nat) : K := match n with | 0 => c | 1 => mask | _ => 0
/-- `gammaln` / `psi` / `polygamma(m, ·)`: index arithmetic on the polygamma leaves
`pg[k] = polygamma(k, x)` -/
def dGammaln (gl : K) (pg : List K) (n : Nat) : K := if n = 0 then gl else co pg (n-1)
def dPsi (pg : List K) (n : Nat) : K := co pg n
def dPolygamma (m : Nat) (pg : List K) (n : Nat) : K := co pg (m+n)
/-- `hyperu(a, b, ·)`: `(-1)^n (a)_n U(a+n, b+n, x)` with leaves `us[n] = U(a+n,b+n,x)` -/
def dHyperu (a : K) (us : List K) (n : Nat) : K := negOnePow n * pochK a n * co us n
/-- the polynomial factor of `erf⁽ⁿ⁾` / `erfi⁽ⁿ⁾`:
`Σ_{k<n, 2k+1≥n} (±1)^k 2^{2k+1-n} x^{2k+1-n} poch(2k+2-n, 2(n-1-k)) / (n-1-k)!`
(the terms with `2k+1 < n` carry `poch(non-positive integer, …) = 0`) -/
def erfPoly (alt : Bool) (x : K) (n : Nat) : K :=
  sumRange 0 n fun k =>
    if 2*k+1 < n then 0 else
      (if alt then negOnePow k else 1) * powN (nat 2) (2*k+1-n) * powN x (2*k+1-n)
        * pochK (nat (2*k+2-n)) (2*(n-1-k)) / nat (fact (n-1-k))
/-- `erf`: leaf `a = 2/√π · exp(-x²)`, order 0 leaf `f0` -/
def dErf (f0 a x : K) (n : Nat) : K := if n = 0 then f0 else a * erfPoly true x n
def dErfi (f0 a x : K) (n : Nat) : K := if n = 0 then f0 else a * erfPoly false x n

/-! ### closed forms that go through complex numbers (evaluated in `Cx K`; Gaussian rationals in the driver) -/
namespace Cx
def I : Cx K := ⟨0, 1⟩
def ofK (r : K) : Cx K := ⟨r, 0⟩
def npow (z : Cx K) : Nat → Cx K
  | 0 => 1
  | n+1 => npow z n * z
/-- Legendre polynomial `P_k(z)` by the three-term recurrence -/
def legendre (z : Cx K) : Nat → Cx K × Cx K     -- (P_k, P_{k-1})
  | 0 => (1, 0)
  | k+1 =>
    let (pk, pkm) := legendre z k
    ((ofK (nat (2*k+1)) * z * pk - ofK (nat k) * pkm) / ofK (nat (k+1)), pk)
end Cx

/-- `arctan`: `Re(0.5i (-1)^n (n-1)! ((x-i)^{-n} - (x+i)^{-n}))` -/
def dArctan (l x : K) (n : Nat) : K :=
  if n = 0 then l else
    let a : Cx K := ⟨0, (1 / nat 2 : K)⟩ * Cx.ofK (negOnePow n * nat (fact (n-1)))
    let b : Cx K := (1 : Cx K) / Cx.npow ⟨x, -1⟩ n - (1 : Cx K) / Cx.npow ⟨x, 1⟩ n
    (a * b).re

/-- `arcsin`: `Re(i (-i)^n (n-1)! r^n P_{n-1}(i x r))`, leaf `r = 1/sqrt(1-x²)` -/
def dArcsin (l x r : K) (n : Nat) : K :=
  if n = 0 then l else
    let a : Cx K := Cx.I * Cx.npow (-Cx.I) n * Cx.ofK (nat (fact (n-1))) * Cx.npow (Cx.ofK r) n
    let b : Cx K := (Cx.legendre (Cx.I * Cx.ofK (x * r)) (n-1)).1
    (a * b).re

/-- `arcsinh`: `(-1)^{n-1} (n-1)! r^n P_{n-1}(x r)`, leaf `r = 1/sqrt(1+x²)` -/
def dArcsinh (l x r : K) (n : Nat) : K :=
  if n = 0 then l else
    (negOnePow (n-1) * nat (fact (n-1))) * powN r n * ((Cx.legendre (Cx.ofK (x * r)) (n-1)).1).re

/-- `arccosh` (`x > 1`): `x1 = 1/sqrt(1-x²) = -i r` with the leaf `r = 1/sqrt(x²-1)`;
`Re(-(-i)^n (n-1)! x1^n P_{n-1}(i x x1))` -/
def dArccosh (l x r : K) (n : Nat) : K :=
  if n = 0 then l else
    let x1 : Cx K := -Cx.I * Cx.ofK r
    let a : Cx K := -(Cx.npow (-Cx.I) n) * Cx.ofK (nat (fact (n-1))) * Cx.npow x1 n
    let b : Cx K := (Cx.legendre (Cx.I * Cx.ofK x * x1) (n-1)).1
    (a * b).re
end

end AV
