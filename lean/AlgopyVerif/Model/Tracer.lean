/-!
# L3: the tracer as a state machine (`algopy/tracer/tracer.py`)

* recording: `CGraph.append`, `Function.create`, `Function.get_ID`, `trace_on/off`
  (tracer.py:51-68, 718-781);
* in-place writes on a cell heap with the save / restore / re-apply discipline of
  `Function.pushforward` (save on every evaluation), `Function.pullback` (restore) and
  `CGraph.pullback` (re-apply at the end) — tracer.py:808-825, 916-921, 117-187 after the repairs.
-/
namespace AV.Tracer

/-- an argument of a node: another node (by ID) or a constant that is not traced -/
inductive Arg
  | node (id : Nat)
  | const (c : Nat)
deriving DecidableEq, Repr

structure Node where
  func : Nat            -- name of the recorded callable (opaque)
  args : List Arg
  id   : Nat
deriving Repr

/-- `CGraph` + the class attribute `Function.cgraph` (is this graph the active one?) -/
structure TState where
  nodes   : List Node := []      -- functionList
  count   : Nat := 0             -- functionCount
  tracing : Bool := true         -- Function.cgraph is this graph
deriving Repr

/-- operations the user / the overloads perform -/
inductive Op
  | apply (func : Nat) (args : List Arg)    -- any overloaded operation on Function operands
  | traceOff
  | traceOn

/-- `Function.create`: when a graph is active the node gets `ID = functionCount` and is appended -/
def step (s : TState) : Op → TState
  | .apply f args =>
    if s.tracing then { s with nodes := s.nodes ++ [⟨f, args, s.count⟩], count := s.count + 1 } else s
  | .traceOff => { s with tracing := false }
  | .traceOn => { s with tracing := true }

def run (ops : List Op) (s : TState) : TState := ops.foldl step s

/-- arguments refer to earlier nodes only (what the overloads can produce: operands exist already) -/
def Op.ArgsBelow (n : Nat) : Op → Prop
  | .apply _ args => ∀ a ∈ args, match a with | .node i => i < n | .const _ => True
  | _ => True

/-- the recording invariant -/
def Inv (s : TState) : Prop :=
  s.count = s.nodes.length ∧
  (∀ i (h : i < s.nodes.length), (s.nodes[i]).id = i) ∧
  (∀ nd ∈ s.nodes, ∀ a ∈ nd.args, match a with | .node i => i < nd.id | .const _ => True)

/-! ## in-place writes on a heap of cells -/
abbrev Heap (V : Type) := Nat → V

def upd {V} (h : Heap V) (c : Nat) (v : V) : Heap V := fun i => if i = c then v else h i

/-- forward execution of the in-place writes `cell d := cell s` in recording order -/
def wfwd {V} : List (Nat × Nat) → Heap V → Heap V
  | [], h => h
  | (d, s) :: ws, h => wfwd ws (upd h d (h s))

/-- the contents saved by each write on *this* evaluation (`Function.pushforward`, repaired) -/
def saved {V} : List (Nat × Nat) → Heap V → List V
  | [], _ => []
  | (d, s) :: ws, h => h d :: saved ws (upd h d (h s))

/-- the restores done by the reverse sweep (last write first): `args[0].x[sl] = store` -/
def undoAll {V} : List ((Nat × Nat) × V) → Heap V → Heap V
  | [], H => H
  | ((d, _), v) :: rest, H => upd (undoAll rest H) d v

/-- one reverse sweep as far as forward values are concerned: restore everything, then re-apply -/
def sweepValues {V} (ws : List (Nat × Nat)) (stores : List V) (H : Heap V) : Heap V :=
  wfwd ws (undoAll (ws.zip stores) H)

/-! ## general in-place writes and evaluations of a graph with constant work arrays

`cell d := g (current heap)` — e.g. the accumulation `acc += x` is `g h = h acc + h x`.  The heap holds the cells of the
*constant* nodes of the graph (work arrays wrapped by hand, whose storage no recorded node re-creates) and of the inputs. -/
structure GWrite (V : Type) where
  d : Nat
  g : Heap V → V

def gfwd {V} : List (GWrite V) → Heap V → Heap V
  | [], h => h
  | w :: ws, h => gfwd ws (upd h w.d (w.g h))

/-- the contents each write saves before it overwrites its cell (`Function.pushforward`: `setitem = (idx, old.copy())`) -/
def gsaved {V} : List (GWrite V) → Heap V → List (Nat × V)
  | [], _ => []
  | w :: ws, h => (w.d, h w.d) :: gsaved ws (upd h w.d (w.g h))

/-- the restores, last write first (`CGraph.pushforward`, repaired: `f.args[0].x[idx] = saved` over the reversed list) -/
def gundo {V} : List (Nat × V) → Heap V → Heap V
  | [], H => H
  | (d, v) :: rest, H => upd (gundo rest H) d v

/-- set the input cells (`f.args[0].x = x_list[nf]`): the cells listed in `ins` take the new values -/
def setIn {V} (ins : List (Nat × V)) (h : Heap V) : Heap V :=
  ins.foldl (fun H iv => upd H iv.1 iv.2) h

/-- one evaluation of the repaired `CGraph.pushforward`: undo the previous evaluation's writes, set the inputs, run the writes.
State = (heap, what the writes saved). -/
def evalUndo {V} (ws : List (GWrite V)) (st : Heap V × List (Nat × V)) (ins : List (Nat × V)) : Heap V × List (Nat × V) :=
  let h := setIn ins (gundo st.2 st.1)
  (gfwd ws h, gsaved ws h)

/-- the old behaviour: no undo -/
def evalNoUndo {V} (ws : List (GWrite V)) (H : Heap V) (ins : List (Nat × V)) : Heap V :=
  gfwd ws (setIn ins H)

/-- executable instance for the driver: accumulating writes `cell d += cell s` over the rationals -/
def accWrites (ws : List (Nat × Nat)) : List (GWrite Rat) := ws.map fun p => ⟨p.1, fun h => h p.1 + h p.2⟩

/-- the value of cell `out` after each of a sequence of evaluations (inputs per evaluation), starting from the state the
recording left behind (the recording ran the writes once on `h0` with the recording inputs) -/
def accHistory (undo : Bool) (ws : List (Nat × Nat)) (h0 : List Rat) (rec : List (Nat × Rat)) (calls : List (List (Nat × Rat))) (out : Nat) : List Rat :=
  let H0 : Heap Rat := fun i => h0.getD i 0
  let w := accWrites ws
  let start := setIn rec H0
  let st0 : Heap Rat × List (Nat × Rat) := (gfwd w start, gsaved w start)
  if undo then
    (calls.foldl (fun (acc : (Heap Rat × List (Nat × Rat)) × List Rat) ins =>
      let st := evalUndo w acc.1 ins
      (st, acc.2 ++ [st.1 out])) (st0, [])).2
  else
    (calls.foldl (fun (acc : Heap Rat × List Rat) ins =>
      let H := evalNoUndo w acc.1 ins
      (H, acc.2 ++ [H out])) (st0.1, [])).2

end AV.Tracer
