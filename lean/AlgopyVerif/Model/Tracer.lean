/-!
# L3: the tracer as a state machine (`algopy/tracer/tracer.py`)

* recording: `CGraph.append`, `Function.create`, `Function.get_ID`, `trace_on/off`
  (tracer.py:51-68, 718-781);
* in-place writes on a cell heap with the save / restore / re-apply discipline of
  `Function.pushforward` (save on every evaluation), `Function.pullback` (restore) and
  `CGraph.pullback` (re-apply at the end) — tracer.py:808-825, 916-921, 117-187 after the repairs.
-/
namespace AV.Tracer

/-- an argument of a node: another node (by ID) or a constant that is not traced -/
inductive Arg
  | node (id : Nat)
  | const (c : Nat)
deriving DecidableEq, Repr

structure Node where
  func : Nat            -- name of the recorded callable (opaque)
  args : List Arg
  id   : Nat
deriving Repr

/-- `CGraph` + the class attribute `Function.cgraph` (is this graph the active one?) -/
structure TState where
  nodes   : List Node := []      -- functionList
  count   : Nat := 0             -- functionCount
  tracing : Bool := true         -- Function.cgraph is this graph
deriving Repr

/-- operations the user / the overloads perform -/
inductive Op
  | apply (func : Nat) (args : List Arg)    -- any overloaded operation on Function operands
  | traceOff
  | traceOn

/-- `Function.create`: when a graph is active the node gets `ID = functionCount` and is appended -/
def step (s : TState) : Op → TState
  | .apply f args =>
    if s.tracing then { s with nodes := s.nodes ++ [⟨f, args, s.count⟩], count := s.count + 1 } else s
  | .traceOff => { s with tracing := false }
  | .traceOn => { s with tracing := true }

def run (ops : List Op) (s : TState) : TState := ops.foldl step s

/-- arguments refer to earlier nodes only (what the overloads can produce: operands exist already) -/
def Op.ArgsBelow (n : Nat) : Op → Prop
  | .apply _ args => ∀ a ∈ args, match a with | .node i => i < n | .const _ => True
  | _ => True

/-- the recording invariant -/
def Inv (s : TState) : Prop :=
  s.count = s.nodes.length ∧
  (∀ i (h : i < s.nodes.length), (s.nodes[i]).id = i) ∧
  (∀ nd ∈ s.nodes, ∀ a ∈ nd.args, match a with | .node i => i < nd.id | .const _ => True)

/-! ## in-place writes on a heap of cells -/
abbrev Heap (V : Type) := Nat → V

def upd {V} (h : Heap V) (c : Nat) (v : V) : Heap V := fun i => if i = c then v else h i

/-- forward execution of the in-place writes `cell d := cell s` in recording order -/
def wfwd {V} : List (Nat × Nat) → Heap V → Heap V
  | [], h => h
  | (d, s) :: ws, h => wfwd ws (upd h d (h s))

/-- the contents saved by each write on *this* evaluation (`Function.pushforward`, repaired) -/
def saved {V} : List (Nat × Nat) → Heap V → List V
  | [], _ => []
  | (d, s) :: ws, h => h d :: saved ws (upd h d (h s))

/-- the restores done by the reverse sweep (last write first): `args[0].x[sl] = store` -/
def undoAll {V} : List ((Nat × Nat) × V) → Heap V → Heap V
  | [], H => H
  | ((d, _), v) :: rest, H => upd (undoAll rest H) d v

/-- one reverse sweep as far as forward values are concerned: restore everything, then re-apply -/
def sweepValues {V} (ws : List (Nat × Nat)) (stores : List V) (H : Heap V) : Heap V :=
  wfwd ws (undoAll (ws.zip stores) H)

end AV.Tracer
