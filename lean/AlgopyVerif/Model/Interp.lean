import AlgopyVerif.Model.Basic
/-!
# Exact interpolation (`algopy/exact_interpolation.py`), Mathlib-free, over `Rat`
-/
namespace AV.Interp

/-- `generate_multi_indices(N, deg)` (exact_interpolation.py:29-95): all multi-indices of
length `N` with sum `deg`, first index descending -/
def multiIndices : Nat → Nat → List (List Nat)
  | 0, _ => []
  | 1, deg => [[deg]]
  | N+2, deg => (List.range (deg+1)).reverse.flatMap fun a => (multiIndices (N+1) (deg - a)).map (a :: ·)

/-- `mybinomial(x, j) = Π_{k<j} (x-k)/(j-k)` (exact_interpolation.py:118-119), real upper argument -/
def binomR (x : Rat) (j : Nat) : Rat :=
  (List.range j).foldl (fun acc (k : Nat) => acc * ((x - (k:Rat)) / ((j:Rat) - (k:Rat)))) 1

/-- `multi_index_binomial(i, j)` -/
def miBinom (i : List Rat) (j : List Nat) : Rat := (List.zipWith binomR i j).foldl (· * ·) 1
def miAbs (i : List Nat) : Nat := i.foldl (· + ·) 0
def miFact (i : List Nat) : Nat := (i.map fact).foldl (· * ·) 1

/-- all `k` with `0 ≤ k ≤ i` componentwise, last index fastest (the order `increment` walks) -/
def box : List Nat → List (List Nat)
  | [] => [[]]
  | a :: as => (List.range (a+1)).flatMap fun x => (box as).map (x :: ·)

/-- `increment(i, k)` (exact_interpolation.py:170-205) -/
def increment (i k : List Nat) : List Nat :=
  let rec go : List Nat → List Nat → Nat → List Nat   -- reversed lists, carry
    | [], [], _ => []
    | iN :: is, kN :: ks, carry =>
      if iN = 0 then kN :: go is ks carry
      else
        let tmp := kN + carry
        let c := tmp / (iN + 1)
        (tmp % (iN + 1)) :: (if c = 0 then ks else go is ks c)
    | _, ks, _ => ks
  (go i.reverse k.reverse 1).reverse

/-- one term of the sum in `gamma` (formula 13.13 of Griewank–Walther) -/
def alpha (i j k : List Nat) (deg : Nat) : Rat :=
  let ak := miAbs k
  let sgn : Rat := if (miAbs i - ak) % 2 = 0 then 1 else -1
  let t2 := miBinom (i.map fun (n : Nat) => (n:Rat)) k
  let z := k.map fun (kn : Nat) => ((deg:Rat) * (kn:Rat)) / (ak:Rat)
  let t3 := miBinom z j
  let t4 := ((ak:Rat) / (deg:Rat)) ^ (miAbs i)
  sgn * t2 * t3 * t4

/-- `gamma(i, j)` (exact_interpolation.py:207-233): sum over all `0 < k ≤ i` -/
def gamma (i j : List Nat) : Rat :=
  let deg := miAbs j
  let terms := ((box i).filter fun k => miAbs k ≠ 0).map fun k => alpha i j k deg
  terms.foldl (· + ·) 0 / (miFact i : Rat)

def miPow (x a : List Nat) : Rat :=
  (List.zipWith (fun (xn an : Nat) => ((xn:Rat))^an) x a).foldl (· * ·) 1

/-- `Σ_j Γ[i,j]·ray_j^α = δ(i,α)` for all `i, α` of degree `d` (rays = the multi-indices) -/
def checkIdentity (N d : Nat) : Bool :=
  let J := multiIndices N d
  J.all fun i => J.all fun a =>
    (J.foldl (fun s j => s + gamma i j * miPow j a) 0) == (if i = a then 1 else 0)

/-- `convert_multi_indices_to_pos` for one multi-index: index `n` repeated `i[n]` times -/
def toPos (i : List Nat) : List Nat :=
  (List.zip (List.range i.length) i).flatMap fun (n, c) => List.replicate c n

end AV.Interp
