/-!
# Padé approximants of the matrix exponential (`algopy/linalg/compound.py`)

`expm_pade(A, q)` evaluates `U, V = _expm_pade<q>(A, ident)` and returns `solve(-U + V, U + V)`:
`U = A · (Σ_k b_{2k+1} A^{2k})`, `V = Σ_k b_{2k} A^{2k}` with the coefficient tables `b` below
(compound.py:124-184).  The scalar (commutative) model: `padeU q x`, `padeV q x` over `Rat`, mirroring the
even/odd split and the powers `A2, A4, A6, A8` the code forms.  `expm_higham_2005` picks the order from
the 1-norm (`highamOrder`, thresholds of compound.py:101-108).
-/
namespace AV

/-- the coefficient tables `b` of `_expm_pade3/5/7/9/13` -/
def padeB : Nat → List Rat
  | 3 => [120, 60, 12, 1]
  | 5 => [30240, 15120, 3360, 420, 30, 1]
  | 7 => [17297280, 8648640, 1995840, 277200, 25200, 1512, 56, 1]
  | 9 => [17643225600, 8821612800, 2075673600, 302702400, 30270240, 2162160, 110880, 3960, 90, 1]
  | 13 => [64764752532480000, 32382376266240000, 7771770303897600, 1187353796428800, 129060195264000,
           10559470521600, 670442572800, 33522128640, 1323241920, 40840800, 960960, 16380, 182, 1]
  | _ => []

def bq (q k : Nat) : Rat := (padeB q).getD k 0

/-- `U` of `_expm_pade<q>` for a scalar argument (the code's grouping of the powers) -/
def padeU (q : Nat) (x : Rat) : Rat :=
  let a2 := x * x
  let a4 := a2 * a2
  let a6 := a2 * a4
  let a8 := a2 * a6
  match q with
  | 3 => x * (bq 3 3 * a2 + bq 3 1)
  | 5 => x * (bq 5 5 * a4 + bq 5 3 * a2 + bq 5 1)
  | 7 => x * (bq 7 7 * a6 + bq 7 5 * a4 + bq 7 3 * a2 + bq 7 1)
  | 9 => x * (bq 9 9 * a8 + bq 9 7 * a6 + bq 9 5 * a4 + bq 9 3 * a2 + bq 9 1)
  | 13 => x * (a6 * (bq 13 13 * a6 + bq 13 11 * a4 + bq 13 9 * a2) + (bq 13 7 * a6 + bq 13 5 * a4 + bq 13 3 * a2 + bq 13 1))
  | _ => 0

/-- `V` of `_expm_pade<q>` -/
def padeV (q : Nat) (x : Rat) : Rat :=
  let a2 := x * x
  let a4 := a2 * a2
  let a6 := a2 * a4
  let a8 := a2 * a6
  match q with
  | 3 => bq 3 2 * a2 + bq 3 0
  | 5 => bq 5 4 * a4 + bq 5 2 * a2 + bq 5 0
  | 7 => bq 7 6 * a6 + bq 7 4 * a4 + bq 7 2 * a2 + bq 7 0
  | 9 => bq 9 8 * a8 + bq 9 6 * a6 + bq 9 4 * a4 + bq 9 2 * a2 + bq 9 0
  | 13 => a6 * (bq 13 12 * a6 + bq 13 10 * a4 + bq 13 8 * a2) + (bq 13 6 * a6 + bq 13 4 * a4 + bq 13 2 * a2 + bq 13 0)
  | _ => 0

def factQ : Nat → Rat
  | 0 => 1
  | n + 1 => (n + 1 : Nat) * factQ n

/-- coefficient `m` of the formal power series `N(x) − D(x)·exp(x)` with `N = Σ b_k x^k` (`= U + V`) and
`D = Σ b_k (−x)^k` (`= V − U`): the approximant `N/D` agrees with `exp` up to order `2q` iff the defect vanishes for `m ≤ 2q` -/
def padeDefect (q m : Nat) : Rat :=
  bq q m - (List.range (m + 1)).foldl (fun s k => s + (if k % 2 = 0 then bq q k else - bq q k) / factQ (m - k)) 0

/-- the order `expm_higham_2005` picks for a 1-norm given as a rational (`none`: the scaling-and-squaring branch) -/
def highamOrder (norm1 : Rat) : Option Nat :=
  if norm1 < 1495585217958292 / 100000000000000000 then some 3
  else if norm1 < 2539398330063230 / 10000000000000000 then some 5
  else if norm1 < 9504178996162932 / 10000000000000000 then some 7
  else if norm1 < 2097847961257068 / 1000000000000000 then some 9
  else none

end AV
