import AlgopyVerif.Proofs.GammaUnivariate
import AlgopyVerif.Proofs.Interp
import Mathlib.Combinatorics.Enumerative.Stirling
import Mathlib.RingTheory.Binomial
/-!
# The Γ identity of exact interpolation for every number of variables and every degree
(work towards `checkIdentity N d = true` for all `N ≥ 1`, `d ≥ 1`, on the list model of `exact_interpolation.py`)
-/
open Finset
namespace AV.Interp

/-! ## products / sums over the list model: cons lemmas -/

theorem foldl_mul_eq_prod (l : List ℚ) (a : ℚ) : l.foldl (· * ·) a = a * l.prod := by
  induction l generalizing a with
  | nil => simp
  | cons x l ih => simp only [List.foldl_cons, List.prod_cons, ih]; ring

theorem miBinom_cons (z : ℚ) (zs : List ℚ) (j : ℕ) (js : List ℕ) :
    miBinom (z :: zs) (j :: js) = binomR z j * miBinom zs js := by
  simp only [miBinom, List.zipWith_cons_cons, List.foldl_cons, one_mul, foldl_mul_eq_prod]

theorem miBinom_nil : miBinom [] [] = 1 := by simp [miBinom]

theorem miPow_cons (x a : ℕ) (xs as : List ℕ) : miPow (x :: xs) (a :: as) = (x : ℚ) ^ a * miPow xs as := by
  simp only [miPow, List.zipWith_cons_cons, List.foldl_cons, one_mul, foldl_mul_eq_prod]

theorem miPow_nil : miPow [] [] = 1 := by simp [miPow]

theorem foldl_add_nat (l : List ℕ) (a : ℕ) : l.foldl (· + ·) a = a + l.sum := by
  induction l generalizing a with
  | nil => simp
  | cons x l ih => simp only [List.foldl_cons, List.sum_cons, ih]; omega

theorem miAbs_eq_sum (l : List ℕ) : miAbs l = l.sum := by simp [miAbs, foldl_add_nat]

theorem miAbs_cons (x : ℕ) (l : List ℕ) : miAbs (x :: l) = x + miAbs l := by simp [miAbs_eq_sum]

theorem foldl_mul_nat (l : List ℕ) (a : ℕ) : l.foldl (· * ·) a = a * l.prod := by
  induction l generalizing a with
  | nil => simp
  | cons x l ih => simp only [List.foldl_cons, List.prod_cons, ih]; ring

theorem miFact_cons (x : ℕ) (l : List ℕ) : miFact (x :: l) = x.factorial * miFact l := by
  simp [miFact, foldl_mul_nat, fact_eq]

theorem miFact_nil : miFact [] = 1 := by simp [miFact]

/-! ## `mybinomial` with a rational upper argument: falling factorial over factorial, = `Ring.choose` -/

/-- falling factorial `x (x-1) … (x-m+1)` -/
def ffall (x : ℚ) (m : ℕ) : ℚ := ∏ l ∈ range m, (x - (l : ℚ))

theorem ffall_eq_eval (x : ℚ) (m : ℕ) : ffall x m = (descPochhammer ℚ m).eval x := by
  rw [descPochhammer_eval_eq_prod_range]; rfl

theorem binomR_eq (x : ℚ) (j : ℕ) : binomR x j = ffall x j / (j.factorial : ℚ) := by
  unfold binomR
  have h := foldl_mul_div (List.range j) (fun k => x - (k : ℚ)) (fun k => (j : ℚ) - (k : ℚ)) 1 1
  simp only [div_one, one_mul] at h
  rw [h, list_range_map_prod, list_range_map_prod]
  congr 1
  rw [← descPochhammer_eval_eq_prod_range, descPochhammer_eval_eq_descFactorial, Nat.descFactorial_self]

theorem binomR_eq_choose (x : ℚ) (j : ℕ) : binomR x j = Ring.choose x j := by
  rw [binomR_eq, ffall_eq_eval, Ring.choose_eq_smul, Polynomial.descPochhammer_smeval_eq_ascPochhammer,
    Polynomial.ascPochhammer_smeval_eq_eval, descPochhammer_eval_eq_ascPochhammer, smul_eq_mul]
  field_simp

/-- Chu–Vandermonde for `mybinomial` with rational arguments -/
theorem binomR_add (x y : ℚ) (d : ℕ) :
    binomR (x + y) d = ∑ a ∈ range (d + 1), binomR x a * binomR y (d - a) := by
  rw [binomR_eq_choose, Ring.add_choose_eq d (Commute.all x y), Finset.Nat.sum_antidiagonal_eq_sum_range_succ_mk]
  refine Finset.sum_congr rfl fun a _ => ?_
  rw [binomR_eq_choose, binomR_eq_choose]

/-! ## falling factorials -/

theorem ffall_zero (x : ℚ) : ffall x 0 = 1 := by simp [ffall]

theorem ffall_succ (x : ℚ) (m : ℕ) : ffall x (m + 1) = ffall x m * (x - (m : ℚ)) := by
  simp [ffall, Finset.prod_range_succ]

theorem ffall_add (x : ℚ) (m k : ℕ) : ffall x (m + k) = ffall x m * ffall (x - (m : ℚ)) k := by
  induction k with
  | zero => simp [ffall_zero]
  | succ k ih =>
    rw [← Nat.add_assoc, ffall_succ, ih, ffall_succ]
    push_cast
    ring

theorem ffall_natCast (j m : ℕ) : ffall (j : ℚ) m = (j.descFactorial m : ℚ) := by
  rw [ffall_eq_eval, descPochhammer_eval_eq_descFactorial]

theorem ffall_natCast_of_lt (j m : ℕ) (h : j < m) : ffall (j : ℚ) m = 0 := by
  rw [ffall_natCast, Nat.descFactorial_eq_zero_iff_lt.mpr h]; simp

/-- `C(z, j) · j(j-1)…(j-m+1) = z(z-1)…(z-m+1) · C(z-m, j-m)` for `m ≤ j` -/
theorem binomR_mul_ffall (z : ℚ) (j m : ℕ) (h : m ≤ j) :
    binomR z j * ffall (j : ℚ) m = ffall z m * binomR (z - (m : ℚ)) (j - m) := by
  obtain ⟨k, rfl⟩ := Nat.exists_eq_add_of_le h
  rw [binomR_eq, binomR_eq, ffall_add, Nat.add_sub_cancel_left, ffall_natCast]
  have hf : ((m + k).factorial : ℚ) ≠ 0 := by exact_mod_cast Nat.factorial_ne_zero _
  have hk : (k.factorial : ℚ) ≠ 0 := by exact_mod_cast Nat.factorial_ne_zero _
  have hd : (((m + k).descFactorial m : ℕ) : ℚ) * (k.factorial : ℚ) = ((m + k).factorial : ℚ) := by
    have := Nat.factorial_mul_descFactorial (show m ≤ m + k by omega)
    rw [Nat.add_sub_cancel_left] at this
    rw [mul_comm]; exact_mod_cast this
  field_simp
  rw [← hd]; ring

/-- powers in the falling-factorial basis (Stirling numbers of the second kind) -/
theorem pow_eq_sum_stirling (x : ℚ) : ∀ a : ℕ,
    x ^ a = ∑ m ∈ range (a + 1), (Nat.stirlingSecond a m : ℚ) * ffall x m
  | 0 => by simp [ffall_zero]
  | a + 1 => by
    have hx : ∀ m, ffall x m * x = ffall x (m + 1) + (m : ℚ) * ffall x m := by
      intro m; rw [ffall_succ]; ring
    rw [pow_succ, pow_eq_sum_stirling x a, Finset.sum_mul]
    have h1 : ∀ m ∈ range (a + 1), (Nat.stirlingSecond a m : ℚ) * ffall x m * x
        = (Nat.stirlingSecond a m : ℚ) * ffall x (m + 1) + (m : ℚ) * (Nat.stirlingSecond a m : ℚ) * ffall x m := by
      intro m _; rw [mul_assoc, hx]; ring
    rw [Finset.sum_congr rfl h1, Finset.sum_add_distrib]
    -- right-hand side
    rw [Finset.sum_range_succ' (fun m => (Nat.stirlingSecond (a + 1) m : ℚ) * ffall x m)]
    simp only [Nat.stirlingSecond_succ_zero, Nat.cast_zero, zero_mul, add_zero]
    have h2 : ∀ k ∈ range (a + 1), (Nat.stirlingSecond (a + 1) (k + 1) : ℚ) * ffall x (k + 1)
        = (Nat.stirlingSecond a k : ℚ) * ffall x (k + 1) + ((k + 1 : ℕ) : ℚ) * (Nat.stirlingSecond a (k + 1) : ℚ) * ffall x (k + 1) := by
      intro k _; rw [Nat.stirlingSecond_succ_succ]; push_cast; ring
    rw [Finset.sum_congr rfl h2, Finset.sum_add_distrib]
    congr 1
    -- the weighted sums: shift the index
    rw [Finset.sum_range_succ' (fun m => (m : ℚ) * (Nat.stirlingSecond a m : ℚ) * ffall x m)]
    simp only [Nat.cast_zero, zero_mul, add_zero]
    rw [Finset.sum_range_succ (fun k => ((k + 1 : ℕ) : ℚ) * (Nat.stirlingSecond a (k + 1) : ℚ) * ffall x (k + 1))]
    rw [Nat.stirlingSecond_eq_zero_of_lt (Nat.lt_succ_self a)]
    simp

/-! ## sums over the multi-index list and over the box -/

theorem sum_map_flatMap {α β : Type} (l : List α) (f : α → List β) (F : β → ℚ) :
    ((l.flatMap f).map F).sum = (l.map fun x => ((f x).map F).sum).sum := by
  induction l with
  | nil => simp
  | cons x l ih => simp [List.flatMap_cons, List.map_append, List.sum_append, ih]

theorem sum_multiIndices_one (d : ℕ) (F : List ℕ → ℚ) : ((multiIndices 1 d).map F).sum = F [d] := by
  simp [multiIndices]

theorem sum_multiIndices_succ (N d : ℕ) (F : List ℕ → ℚ) :
    ((multiIndices (N + 2) d).map F).sum
      = ∑ a ∈ range (d + 1), ((multiIndices (N + 1) (d - a)).map fun t => F (a :: t)).sum := by
  simp only [multiIndices]
  rw [sum_map_flatMap, List.map_reverse, List.sum_reverse, list_range_map_sum]
  refine Finset.sum_congr rfl fun a _ => ?_
  rw [List.map_map]
  rfl

theorem sum_box_nil (F : List ℕ → ℚ) : ((box []).map F).sum = F [] := by simp [box]

theorem sum_box_cons (a : ℕ) (as : List ℕ) (F : List ℕ → ℚ) :
    ((box (a :: as)).map F).sum = ∑ x ∈ range (a + 1), ((box as).map fun t => F (x :: t)).sum := by
  simp only [box]
  rw [sum_map_flatMap, list_range_map_sum]
  refine Finset.sum_congr rfl fun x _ => ?_
  rw [List.map_map]
  rfl

/-! ## the weighted Chu–Vandermonde identity over the multi-index list -/

def miFf (x : List ℚ) (m : List ℕ) : ℚ := (List.zipWith ffall x m).prod
def miFfN (j m : List ℕ) : ℚ := (List.zipWith (fun (jn mn : ℕ) => ffall (jn : ℚ) mn) j m).prod

theorem miFf_cons (x : ℚ) (xs : List ℚ) (m : ℕ) (ms : List ℕ) : miFf (x :: xs) (m :: ms) = ffall x m * miFf xs ms := by
  simp [miFf]
theorem miFfN_cons (j : ℕ) (js : List ℕ) (m : ℕ) (ms : List ℕ) : miFfN (j :: js) (m :: ms) = ffall (j : ℚ) m * miFfN js ms := by
  simp [miFfN]

theorem list_sum_map_mul_left {α : Type} (l : List α) (c : ℚ) (g : α → ℚ) :
    (l.map fun t => c * g t).sum = c * (l.map g).sum := by
  induction l with
  | nil => simp
  | cons x l ih => simp [ih, mul_add]

theorem weighted_vandermonde : ∀ (N : ℕ) (z : List ℚ) (m : List ℕ) (d : ℕ), z.length = N + 1 → m.length = N + 1 →
    ((multiIndices (N + 1) d).map fun j => miBinom z j * miFfN j m).sum
      = if m.sum ≤ d then miFf z m * binomR (z.sum - (m.sum : ℚ)) (d - m.sum) else 0
  | 0, z, m, d, hz, hm => by
    match z, m, hz, hm with
    | [z0], [m0], _, _ =>
      rw [sum_multiIndices_one]
      have e1 : miFfN [d] [m0] = ffall (d : ℚ) m0 := by simp [miFfN]
      have e2 : miFf [z0] [m0] = ffall z0 m0 := by simp [miFf]
      simp only [miBinom_cons, miBinom_nil, mul_one, e1, e2, List.sum_cons, List.sum_nil, add_zero]
      by_cases h : m0 ≤ d
      · rw [if_pos h, binomR_mul_ffall z0 d m0 h]
      · rw [if_neg h, ffall_natCast_of_lt d m0 (by omega)]; ring
  | N + 1, z, m, d, hz, hm => by
    match z, m, hz, hm with
    | z0 :: zs, m0 :: ms, hz, hm =>
      have hzs : zs.length = N + 1 := by simpa using hz
      have hms : ms.length = N + 1 := by simpa using hm
      rw [sum_multiIndices_succ]
      have hterm : ∀ a ∈ range (d + 1),
          ((multiIndices (N + 1) (d - a)).map fun t => miBinom (z0 :: zs) (a :: t) * miFfN (a :: t) (m0 :: ms)).sum
            = (binomR z0 a * ffall (a : ℚ) m0) *
                (if ms.sum ≤ d - a then miFf zs ms * binomR (zs.sum - (ms.sum : ℚ)) (d - a - ms.sum) else 0) := by
        intro a _
        rw [← weighted_vandermonde N zs ms (d - a) hzs hms, ← list_sum_map_mul_left]
        refine congrArg List.sum (List.map_congr_left fun t _ => ?_)
        rw [miBinom_cons, miFfN_cons]; ring
      rw [Finset.sum_congr rfl hterm]
      simp only [List.sum_cons, miFf_cons]
      by_cases hM : m0 + ms.sum ≤ d
      · rw [if_pos hM]
        -- only m0 ≤ a ≤ d - |ms| contribute
        have hzero : ∀ a ∈ range (d + 1), a ∉ Finset.Ico m0 (d - ms.sum + 1) →
            (binomR z0 a * ffall (a : ℚ) m0) *
              (if ms.sum ≤ d - a then miFf zs ms * binomR (zs.sum - (ms.sum : ℚ)) (d - a - ms.sum) else 0) = 0 := by
          intro a ha hna
          have ha' := Finset.mem_range.mp ha
          simp only [Finset.mem_Ico, not_and_or, not_le, not_lt] at hna
          rcases hna with h | h
          · rw [ffall_natCast_of_lt a m0 h]; ring
          · rw [if_neg (by omega)]; ring
        have hsub : Finset.Ico m0 (d - ms.sum + 1) ⊆ range (d + 1) := by
          intro a ha; simp only [Finset.mem_Ico, Finset.mem_range] at ha ⊢; omega
        rw [← Finset.sum_subset hsub hzero, Finset.sum_Ico_eq_sum_range]
        have hlen : d - ms.sum + 1 - m0 = (d - (m0 + ms.sum)) + 1 := by omega
        have hxy : z0 + zs.sum - ((m0 + ms.sum : ℕ) : ℚ) = (z0 - (m0 : ℚ)) + (zs.sum - (ms.sum : ℚ)) := by push_cast; ring
        rw [hlen, hxy, binomR_add (z0 - (m0 : ℚ)) (zs.sum - (ms.sum : ℚ)) (d - (m0 + ms.sum)), Finset.mul_sum]
        refine Finset.sum_congr rfl fun i hi => ?_
        have hi' : i < d - (m0 + ms.sum) + 1 := Finset.mem_range.mp hi
        rw [if_pos (by omega), binomR_mul_ffall z0 (m0 + i) m0 (by omega), Nat.add_sub_cancel_left]
        have he : d - (m0 + i) - ms.sum = d - (m0 + ms.sum) - i := by omega
        rw [he]; ring
      · rw [if_neg hM]
        refine Finset.sum_eq_zero fun a ha => ?_
        have ha' := Finset.mem_range.mp ha
        by_cases h : a < m0
        · rw [ffall_natCast_of_lt a m0 h]; ring
        · rw [if_neg (by omega)]; ring

/-! ## powers through falling factorials, over lists -/

def miSt (a m : List ℕ) : ℚ := (List.zipWith (fun (an mn : ℕ) => (Nat.stirlingSecond an mn : ℚ)) a m).prod
def miPowQ (z : List ℚ) (a : List ℕ) : ℚ := (List.zipWith (fun (zn : ℚ) (an : ℕ) => zn ^ an) z a).prod

theorem miSt_cons (a : ℕ) (as : List ℕ) (m : ℕ) (ms : List ℕ) :
    miSt (a :: as) (m :: ms) = (Nat.stirlingSecond a m : ℚ) * miSt as ms := by simp [miSt]
theorem miPowQ_cons (z : ℚ) (zs : List ℚ) (a : ℕ) (as : List ℕ) : miPowQ (z :: zs) (a :: as) = z ^ a * miPowQ zs as := by
  simp [miPowQ]

theorem list_sum_map_mul_right {α : Type} (l : List α) (c : ℚ) (g : α → ℚ) :
    (l.map fun t => g t * c).sum = (l.map g).sum * c := by
  induction l with
  | nil => simp
  | cons x l ih => simp [ih, add_mul]

theorem list_sum_comm {α β : Type} (l1 : List α) (l2 : List β) (F : α → β → ℚ) :
    (l1.map fun j => (l2.map fun m => F j m).sum).sum = (l2.map fun m => (l1.map fun j => F j m).sum).sum := by
  induction l1 with
  | nil => simp
  | cons x l ih =>
    simp only [List.map_cons, List.sum_cons, ih]
    rw [← List.sum_map_add]

theorem mem_box_le : ∀ (a m : List ℕ), m ∈ box a → m.sum ≤ a.sum ∧ m.length = a.length
  | [], m, h => by simp [box] at h; subst h; simp
  | a :: as, m, h => by
    simp only [box, List.mem_flatMap, List.mem_range, List.mem_map] at h
    obtain ⟨x, hx, t, ht, rfl⟩ := h
    have := mem_box_le as t ht
    simp only [List.sum_cons, List.length_cons]
    omega

/-- `Π_n x_n^{a_n} = Σ_{m ∈ box a} (Π S(a_n, m_n)) · Π (x_n)_{m_n}`, for natural and for rational `x` -/
theorem miPow_expand : ∀ (j a : List ℕ), j.length = a.length →
    miPow j a = ((box a).map fun m => miSt a m * miFfN j m).sum
  | [], [], _ => by rw [sum_box_nil, miPow_nil]; simp [miSt, miFfN]
  | j :: js, a :: as, h => by
    have hl : js.length = as.length := by simpa using h
    rw [miPow_cons, sum_box_cons, miPow_expand js as hl, pow_eq_sum_stirling, Finset.sum_mul]
    refine Finset.sum_congr rfl fun x _ => ?_
    rw [← list_sum_map_mul_left]
    refine congrArg List.sum (List.map_congr_left fun t _ => ?_)
    rw [miSt_cons, miFfN_cons]; ring
  | [], _ :: _, h => by simp at h
  | _ :: _, [], h => by simp at h

theorem miPowQ_expand : ∀ (z : List ℚ) (a : List ℕ), z.length = a.length →
    miPowQ z a = ((box a).map fun m => miSt a m * miFf z m).sum
  | [], [], _ => by rw [sum_box_nil]; simp [miPowQ, miSt, miFf]
  | z :: zs, a :: as, h => by
    have hl : zs.length = as.length := by simpa using h
    rw [miPowQ_cons, sum_box_cons, miPowQ_expand zs as hl, pow_eq_sum_stirling, Finset.sum_mul]
    refine Finset.sum_congr rfl fun x _ => ?_
    rw [← list_sum_map_mul_left]
    refine congrArg List.sum (List.map_congr_left fun t _ => ?_)
    rw [miSt_cons, miFf_cons]; ring
  | [], _ :: _, h => by simp at h
  | _ :: _, [], h => by simp at h

/-! ## interpolation on the lattice `{ j : |j| = d }` reproduces every monomial of degree `d` on the hyperplane `|z| = d` -/

theorem lattice_interpolation (N : ℕ) (z : List ℚ) (al : List ℕ) (d : ℕ) (hz : z.length = N + 1) (hal : al.length = N + 1)
    (hzs : z.sum = (d : ℚ)) (hals : al.sum = d) :
    ((multiIndices (N + 1) d).map fun j => miBinom z j * miPow j al).sum = miPowQ z al := by
  have h1 : ∀ j ∈ multiIndices (N + 1) d, miBinom z j * miPow j al
      = ((box al).map fun m => miBinom z j * (miSt al m * miFfN j m)).sum := by
    intro j hj
    have hl : j.length = al.length := by rw [((mem_multiIndices_succ N d j).mp hj).1, hal]
    rw [miPow_expand j al hl, list_sum_map_mul_left]
  rw [List.map_congr_left h1, list_sum_comm, miPowQ_expand z al (by rw [hz, hal])]
  refine congrArg List.sum (List.map_congr_left fun m hm => ?_)
  have hmb := mem_box_le al m hm
  have hml : m.length = N + 1 := by rw [hmb.2, hal]
  have hsum : m.sum ≤ d := by rw [← hals]; exact hmb.1
  have h2 : ((multiIndices (N + 1) d).map fun j => miBinom z j * (miSt al m * miFfN j m))
      = (multiIndices (N + 1) d).map fun j => miSt al m * (miBinom z j * miFfN j m) := by
    refine List.map_congr_left fun j _ => ?_
    ring
  rw [h2, list_sum_map_mul_left, weighted_vandermonde N z m d hz hml, if_pos hsum, hzs]
  have hc : (d : ℚ) - (m.sum : ℚ) = ((d - m.sum : ℕ) : ℚ) := by rw [Nat.cast_sub hsum]
  rw [hc, binomR_natCast, Nat.choose_self]
  simp

/-! ## the mixed forward difference over the box -/

/-- `Σ_k (-1)^{i-k} C(i,k) k^a`: the `i`-th forward difference of `x^a` at 0 -/
def altU1 (i a : ℕ) : ℚ := ∑ k ∈ range (i + 1), ((-1 : ℚ) ^ (i - k) * (i.choose k : ℚ) * (k : ℚ) ^ a)

theorem altU1_self (i : ℕ) : altU1 i i = (i.factorial : ℚ) := alt_sum_pow i

theorem altU1_lt (i a : ℕ) (h : a < i) : altU1 i a = 0 := by
  have h0 := congrFun (fwdDiff_iter_pow_eq_zero_of_lt (R := ℚ) h) 0
  rw [fwdDiff_iter_eq_sum_shift] at h0
  simp only [zero_add, nsmul_eq_mul, mul_one, zsmul_eq_mul, Int.cast_mul, Int.cast_pow, Int.cast_neg,
    Int.cast_one, Int.cast_natCast, Pi.zero_apply] at h0
  unfold altU1
  simpa using h0

def altW : List ℕ → List ℕ → List ℕ → ℚ
  | i :: is, k :: ks, a :: as => ((-1 : ℚ) ^ (i - k) * (i.choose k : ℚ) * (k : ℚ) ^ a) * altW is ks as
  | _, _, _ => 1

def altU : List ℕ → List ℕ → ℚ
  | i :: is, a :: as => altU1 i a * altU is as
  | _, _ => 1

theorem box_alt : ∀ (i a : List ℕ), i.length = a.length → ((box i).map fun k => altW i k a).sum = altU i a
  | [], [], _ => by rw [sum_box_nil]; simp [altW, altU]
  | i :: is, a :: as, h => by
    have hl : is.length = as.length := by simpa using h
    rw [sum_box_cons]
    simp only [altW, altU]
    rw [← box_alt is as hl, altU1, Finset.sum_mul]
    refine Finset.sum_congr rfl fun x _ => ?_
    rw [list_sum_map_mul_left]
  | [], _ :: _, h => by simp at h
  | _ :: _, [], h => by simp at h

theorem altU_eq : ∀ (i a : List ℕ), i.length = a.length → a.sum ≤ i.sum →
    altU i a = if i = a then (miFact i : ℚ) else 0
  | [], [], _, _ => by simp [altU, miFact_nil]
  | i :: is, a :: as, h, hs => by
    have hl : is.length = as.length := by simpa using h
    simp only [List.sum_cons] at hs
    simp only [altU]
    rcases lt_trichotomy a i with hlt | heq | hgt
    · rw [altU1_lt i a hlt, zero_mul, if_neg]
      intro hc; simp only [List.cons.injEq] at hc; omega
    · subst heq
      rw [altU1_self, altU_eq is as hl (by omega)]
      by_cases hc : is = as
      · subst hc; simp [miFact_cons]
      · rw [if_neg hc, if_neg (by intro h'; simp only [List.cons.injEq] at h'; exact hc h'.2)]; ring
    · rw [altU_eq is as hl (by omega), if_neg, mul_zero, if_neg]
      · intro hc; simp only [List.cons.injEq] at hc; omega
      · intro hc; subst hc; omega
  | [], _ :: _, h, _ => by simp at h
  | _ :: _, [], h, _ => by simp at h

/-! ## assembling `γ` -/

/-- for `k` in the box of `i`: sign · multi-binomial · monomial = the product of the one-dimensional terms -/
theorem term_eq_altW : ∀ (i k a : List ℕ), k ∈ box i → a.length = i.length →
    (-1 : ℚ) ^ (i.sum - k.sum) * miBinom (i.map fun (n : ℕ) => (n : ℚ)) k * miPow k a = altW i k a
  | [], k, a, hk, ha => by
    simp [box] at hk; subst hk
    match a, ha with
    | [], _ => simp [miBinom_nil, miPow_nil, altW]
  | i :: is, k, a, hk, ha => by
    simp only [box, List.mem_flatMap, List.mem_range, List.mem_map] at hk
    obtain ⟨x, hx, t, ht, rfl⟩ := hk
    match a, ha with
    | a0 :: as, ha =>
      have hl : as.length = is.length := by simpa using ha
      have hts := (mem_box_le is t ht).1
      have ih := term_eq_altW is t as ht hl
      simp only [List.map_cons, miBinom_cons, miPow_cons, altW, List.sum_cons, binomR_natCast]
      have he : i + is.sum - (x + t.sum) = (i - x) + (is.sum - t.sum) := by omega
      rw [he, pow_add, ← ih]
      ring

theorem altW_zero_of_sum_zero : ∀ (i k a : List ℕ), k ∈ box i → a.length = i.length → k.sum = 0 → 0 < a.sum →
    altW i k a = 0
  | [], k, a, hk, ha, _, hpos => by
    match a, ha with
    | [], _ => simp at hpos
  | i :: is, k, a, hk, ha, hk0, hpos => by
    simp only [box, List.mem_flatMap, List.mem_range, List.mem_map] at hk
    obtain ⟨x, hx, t, ht, rfl⟩ := hk
    match a, ha with
    | a0 :: as, ha =>
      have hl : as.length = is.length := by simpa using ha
      simp only [List.sum_cons] at hk0 hpos
      have hx0 : x = 0 := by omega
      subst hx0
      simp only [altW]
      by_cases h0 : a0 = 0
      · subst h0
        rw [altW_zero_of_sum_zero is t as ht hl (by omega) (by omega)]; ring
      · rw [Nat.cast_zero, zero_pow h0]; ring

theorem miPowQ_scale : ∀ (k a : List ℕ) (c : ℚ), k.length = a.length →
    miPowQ (k.map fun (kn : ℕ) => c * (kn : ℚ)) a = c ^ a.sum * miPow k a
  | [], [], c, _ => by simp [miPowQ, miPow_nil]
  | k :: ks, a :: as, c, h => by
    have hl : ks.length = as.length := by simpa using h
    simp only [List.map_cons, miPowQ_cons, miPow_cons, List.sum_cons, miPowQ_scale ks as c hl]
    rw [mul_pow, pow_add]; ring
  | [], _ :: _, _, h => by simp at h
  | _ :: _, [], _, h => by simp at h

theorem sum_map_scale (k : List ℕ) (c : ℚ) : (k.map fun (kn : ℕ) => c * (kn : ℚ)).sum = c * (k.sum : ℚ) := by
  induction k with
  | nil => simp
  | cons x l ih => simp only [List.map_cons, List.sum_cons, ih]; push_cast; ring

theorem sum_filter_split {α : Type} (l : List α) (p : α → Bool) (f : α → ℚ) :
    (l.map f).sum = ((l.filter p).map f).sum + ((l.filter fun x => !p x).map f).sum := by
  induction l with
  | nil => simp
  | cons x l ih =>
    by_cases h : p x
    · simp [List.filter_cons, h, ih, add_assoc]
    · simp [List.filter_cons, h, ih]; ring

theorem gamma_eq (i j : List ℕ) :
    gamma i j = (((box i).filter fun k => miAbs k ≠ 0).map fun k => alpha i j k (miAbs j)).sum / (miFact i : ℚ) := by
  unfold gamma
  simp only [foldl_add_eq_sum, zero_add]

/-- one term of `γ`, summed against the monomial `j^a` over the lattice: the lattice interpolation collapses it -/
theorem alpha_sum (N d : ℕ) (hd : 0 < d) (i k a : List ℕ) (hil : i.length = N + 1) (his : i.sum = d)
    (hal : a.length = N + 1) (has : a.sum = d) (hk : k ∈ box i) (hk0 : miAbs k ≠ 0) :
    ((multiIndices (N + 1) d).map fun j => alpha i j k d * miPow j a).sum = altW i k a := by
  have hkb := mem_box_le i k hk
  have hkl : k.length = N + 1 := by rw [hkb.2, hil]
  have hks : k.sum ≠ 0 := by rwa [miAbs_eq_sum] at hk0
  have hkq : ((k.sum : ℕ) : ℚ) ≠ 0 := by exact_mod_cast hks
  have hdq : (d : ℚ) ≠ 0 := by exact_mod_cast hd.ne'
  -- the scaled point
  have hz : (k.map fun (kn : ℕ) => ((d : ℚ) * (kn : ℚ)) / ((miAbs k : ℕ) : ℚ))
      = k.map fun (kn : ℕ) => ((d : ℚ) / (k.sum : ℚ)) * (kn : ℚ) := by
    refine List.map_congr_left fun kn _ => ?_
    rw [miAbs_eq_sum, mul_div_right_comm]
  have hzsum : (k.map fun (kn : ℕ) => ((d : ℚ) / (k.sum : ℚ)) * (kn : ℚ)).sum = (d : ℚ) := by
    rw [sum_map_scale]; field_simp
  have hterm : ∀ j ∈ multiIndices (N + 1) d, alpha i j k d * miPow j a
      = ((-1 : ℚ) ^ (i.sum - k.sum) * miBinom (i.map fun (n : ℕ) => (n : ℚ)) k * ((k.sum : ℚ) / (d : ℚ)) ^ d)
        * (miBinom (k.map fun (kn : ℕ) => ((d : ℚ) / (k.sum : ℚ)) * (kn : ℚ)) j * miPow j a) := by
    intro j _
    simp only [alpha]
    rw [sgn_eq, hz, miAbs_eq_sum, miAbs_eq_sum, his]
    ring
  rw [List.map_congr_left hterm, list_sum_map_mul_left,
    lattice_interpolation N _ a d (by rw [List.length_map, hkl]) hal hzsum has,
    miPowQ_scale k a _ (by rw [hkl, hal]), has, ← term_eq_altW i k a hk (by rw [hal, hil])]
  have hone : ((k.sum : ℚ) / (d : ℚ)) ^ d * ((d : ℚ) / (k.sum : ℚ)) ^ d = 1 := by
    rw [← mul_pow, div_mul_div_comm, mul_comm (k.sum : ℚ) (d : ℚ), div_self (mul_ne_zero hdq hkq), one_pow]
  calc (-1 : ℚ) ^ (i.sum - k.sum) * miBinom (i.map fun (n : ℕ) => (n : ℚ)) k * ((k.sum : ℚ) / (d : ℚ)) ^ d
        * (((d : ℚ) / (k.sum : ℚ)) ^ d * miPow k a)
      = (-1 : ℚ) ^ (i.sum - k.sum) * miBinom (i.map fun (n : ℕ) => (n : ℚ)) k * miPow k a
          * (((k.sum : ℚ) / (d : ℚ)) ^ d * ((d : ℚ) / (k.sum : ℚ)) ^ d) := by ring
    _ = (-1 : ℚ) ^ (i.sum - k.sum) * miBinom (i.map fun (n : ℕ) => (n : ℚ)) k * miPow k a := by rw [hone, mul_one]

/-- **the Γ identity, entry by entry**: `Σ_j γ(i,j) · j^a = δ(i,a)` for all multi-indices `i, a` of degree `d ≥ 1` in `N+1` variables -/
theorem gamma_sum (N d : ℕ) (hd : 0 < d) (i a : List ℕ) (hi : i ∈ multiIndices (N + 1) d) (ha : a ∈ multiIndices (N + 1) d) :
    ((multiIndices (N + 1) d).map fun j => gamma i j * miPow j a).sum = if i = a then 1 else 0 := by
  obtain ⟨hil, his⟩ := (mem_multiIndices_succ N d i).mp hi
  obtain ⟨hal, has⟩ := (mem_multiIndices_succ N d a).mp ha
  have hfact : (miFact i : ℚ) ≠ 0 := by
    have : ∀ l : List ℕ, miFact l ≠ 0 := by
      intro l; induction l with
      | nil => simp [miFact_nil]
      | cons x l ih => rw [miFact_cons]; exact Nat.mul_ne_zero (Nat.factorial_ne_zero x) ih
    exact_mod_cast this i
  -- γ(i,j) with |j| = d
  have h1 : ∀ j ∈ multiIndices (N + 1) d, gamma i j * miPow j a
      = (((box i).filter fun k => miAbs k ≠ 0).map fun k => (1 / (miFact i : ℚ)) * (alpha i j k d * miPow j a)).sum := by
    intro j hj
    have hjs : miAbs j = d := by rw [miAbs_eq_sum]; exact ((mem_multiIndices_succ N d j).mp hj).2
    rw [gamma_eq, hjs, list_sum_map_mul_left, div_mul_eq_mul_div, ← list_sum_map_mul_right]
    rw [one_div, ← div_eq_inv_mul]
  rw [List.map_congr_left h1, list_sum_comm]
  -- every k of the filtered box
  have h2 : ∀ k ∈ (box i).filter fun k => miAbs k ≠ 0,
      ((multiIndices (N + 1) d).map fun j => (1 / (miFact i : ℚ)) * (alpha i j k d * miPow j a)).sum
        = (1 / (miFact i : ℚ)) * altW i k a := by
    intro k hk
    rw [List.mem_filter] at hk
    rw [list_sum_map_mul_left, alpha_sum N d hd i k a hil his hal has hk.1 (by simpa using hk.2)]
  rw [List.map_congr_left h2, list_sum_map_mul_left]
  -- the k with |k| = 0 contribute nothing
  have h3 : ((box i).map fun k => altW i k a).sum
      = (((box i).filter fun k => miAbs k ≠ 0).map fun k => altW i k a).sum := by
    rw [sum_filter_split (box i) (fun k => miAbs k ≠ 0) (fun k => altW i k a)]
    have hz : (((box i).filter fun k => !(decide (miAbs k ≠ 0))).map fun k => altW i k a).sum = 0 := by
      apply List.sum_eq_zero
      intro x hx
      rw [List.mem_map] at hx
      obtain ⟨k, hk, rfl⟩ := hx
      rw [List.mem_filter] at hk
      have hk0 : k.sum = 0 := by
        have := hk.2; simp only [ne_eq, decide_not, Bool.not_not, decide_eq_true_eq] at this
        rwa [miAbs_eq_sum] at this
      exact altW_zero_of_sum_zero i k a hk.1 (by rw [hal, hil]) hk0 (by omega)
    rw [hz, add_zero]
  rw [← h3, box_alt i a (by rw [hil, hal]), altU_eq i a (by rw [hil, hal]) (by omega)]
  by_cases hc : i = a
  · rw [if_pos hc, if_pos hc]; field_simp
  · rw [if_neg hc, if_neg hc]; ring

theorem foldl_add_map {α : Type} (l : List α) (g : α → ℚ) (s0 : ℚ) :
    l.foldl (fun s j => s + g j) s0 = s0 + (l.map g).sum := by
  induction l generalizing s0 with
  | nil => simp
  | cons x l ih => simp only [List.foldl_cons, List.map_cons, List.sum_cons, ih]; ring

/-- **the Γ identity for every number of variables and every degree** on the model of `exact_interpolation.py` -/
theorem checkIdentity_all (N d : ℕ) (hd : 0 < d) : checkIdentity (N + 1) d = true := by
  unfold checkIdentity
  simp only [List.all_eq_true]
  intro i hi a ha
  rw [foldl_add_map, zero_add, gamma_sum N d hd i a hi ha]
  simp

end AV.Interp
