import AlgopyVerif.Model.Convert
import Mathlib.LinearAlgebra.Matrix.Determinant.Basic
import Mathlib.LinearAlgebra.Matrix.Permutation
import Mathlib.GroupTheory.Perm.Sign
/-!
# LAPACK pivot vectors → permutation and determinant sign

`piv` (as returned by `scipy.linalg.lu_factor`) means: for `i = 0 … N-1` exchange rows `i` and
`piv i`.  `utils.piv2mat` builds the index vector `swap = τ₀ τ₁ … τ_{N-1}` (as a product of
transpositions `τ_i = (i  piv i)`) and the matrix `eye[:, swap]`; `utils.piv2det` returns
`(-1)^{#{i : piv i ≠ i}}`.
-/
open Equiv

namespace AV
variable {N : ℕ}

/-- the permutation `τ₀ τ₁ … τ_{N-1}` -/
def pivPerm (piv : Fin N → Fin N) : Perm (Fin N) :=
  ((List.finRange N).map fun i => swap i (piv i)).prod

theorem sign_list_prod_swaps (l : List (Fin N)) (piv : Fin N → Fin N) :
    Perm.sign ((l.map fun i => swap i (piv i)).prod)
      = (-1 : ℤˣ) ^ (l.filter fun i => piv i ≠ i).length := by
  induction l with
  | nil => simp
  | cons a l ih =>
    simp only [List.map_cons, List.prod_cons, map_mul, ih]
    by_cases h : piv a = a
    · simp [h]
    · have : a ≠ piv a := fun e => h e.symm
      rw [Perm.sign_swap this]
      simp [h, pow_succ, mul_comm]

/-- sign of the pivot permutation is `piv2det` -/
theorem sign_pivPerm (piv : Fin N → Fin N) :
    Perm.sign (pivPerm piv) = (-1 : ℤˣ) ^ ((List.finRange N).filter fun i => piv i ≠ i).length :=
  sign_list_prod_swaps _ piv

/-- the permutation matrix of the pivot permutation has determinant `piv2det` -/
theorem det_pivPerm_matrix {R : Type} [CommRing R] (piv : Fin N → Fin N) :
    Matrix.det ((pivPerm piv).permMatrix R)
      = ((-1 : ℤˣ) ^ ((List.finRange N).filter fun i => piv i ≠ i).length : ℤˣ) := by
  rw [Matrix.det_permutation, sign_pivPerm]

end AV

/-! ## the list-level loop of `utils.piv2mat` computes the pivot permutation -/
namespace AV
open Equiv

theorem getD_set_set (sw : List Nat) (i p j : Nat) (hi : i < sw.length) (hp : p < sw.length) :
    ((sw.set i (sw.getD p 0)).set p (sw.getD i 0)).getD j 0
      = sw.getD (if j = i then p else if j = p then i else j) 0 := by
  simp only [List.getD_eq_getElem?_getD, List.getElem?_set, List.length_set]
  by_cases hjp : p = j
  · subst hjp
    by_cases hji : p = i
    · subst hji; simp [hi]
    · simp [hp, hji]
  · by_cases hji : i = j
    · subst hji
      have : ¬ (i = p) := fun e => hjp e.symm
      simp [hjp, hi, this]
    · have h1 : ¬ (j = i) := fun e => hji e.symm
      have h2 : ¬ (j = p) := fun e => hjp e.symm
      simp [hjp, hji, h1, h2]

theorem swap_val {N : ℕ} (a b j : Fin N) :
    (swap a b j).val = if j.val = a.val then b.val else if j.val = b.val then a.val else j.val := by
  rw [Equiv.swap_apply_def]
  by_cases h1 : j = a
  · subst h1; simp
  · by_cases h2 : j = b
    · subst h2
      have : ¬ (j.val = a.val) := fun e => h1 (Fin.ext e)
      simp [h1, this]
    · have e1 : ¬ (j.val = a.val) := fun e => h1 (Fin.ext e)
      have e2 : ¬ (j.val = b.val) := fun e => h2 (Fin.ext e)
      simp [h1, h2, e1, e2]

/-- state of the loop after `k` iterations -/
theorem pivSwap_loop {N : ℕ} (piv : Fin N → Fin N) (k : ℕ) (hk : k ≤ N) :
    let pl := List.ofFn fun i => (piv i).val
    let sw := (List.range k).foldl (fun sw i =>
        let a := sw.getD i 0
        let b := sw.getD (pl.getD i 0) 0
        (sw.set i b).set (pl.getD i 0) a) (List.range N)
    sw.length = N ∧ ∀ j : Fin N,
      sw.getD j.val 0 = ((((List.finRange N).take k).map fun i => swap i (piv i)).prod j).val := by
  induction k with
  | zero =>
    simp only [List.range_zero, List.foldl_nil, List.take_zero, List.map_nil, List.prod_nil, Perm.coe_one, id_eq]
    refine ⟨by simp, fun j => ?_⟩
    rw [List.getD_eq_getElem?_getD, List.getElem?_range j.isLt]; rfl
  | succ k ih =>
    intro pl sw
    have hkN : k < N := by omega
    obtain ⟨hlen, hval⟩ := ih (by omega)
    simp only at hlen hval
    have hpl : pl.getD k 0 = (piv ⟨k, hkN⟩).val := by
      simp only [pl, List.getD_eq_getElem?_getD, List.getElem?_ofFn, hkN, dif_pos]; rfl
    have hsw : sw = (fun sw i =>
        let a := sw.getD i 0
        let b := sw.getD (pl.getD i 0) 0
        (sw.set i b).set (pl.getD i 0) a)
        ((List.range k).foldl (fun sw i =>
          let a := sw.getD i 0
          let b := sw.getD (pl.getD i 0) 0
          (sw.set i b).set (pl.getD i 0) a) (List.range N)) k := by
      simp only [sw, List.range_succ, List.foldl_append, List.foldl_cons, List.foldl_nil]
    set sw0 := (List.range k).foldl (fun sw i =>
          let a := sw.getD i 0
          let b := sw.getD (pl.getD i 0) 0
          (sw.set i b).set (pl.getD i 0) a) (List.range N) with hsw0
    have htake : (List.finRange N).take (k + 1) = (List.finRange N).take k ++ [⟨k, hkN⟩] := by
      rw [List.take_add_one]
      congr 1
      have hk' : k < (List.finRange N).length := by simp [hkN]
      rw [List.getElem?_eq_getElem hk', List.getElem_finRange]
      rfl
    rw [hsw]
    simp only
    refine ⟨by simp [hlen], fun j => ?_⟩
    rw [hpl, getD_set_set sw0 k (piv ⟨k, hkN⟩).val j.val (by rw [hlen]; exact hkN) (by rw [hlen]; exact (piv ⟨k, hkN⟩).isLt),
      htake, List.map_append, List.prod_append]
    simp only [List.map_cons, List.map_nil, List.prod_cons, List.prod_nil, mul_one, Perm.coe_mul, Function.comp_apply]
    have hs := swap_val ⟨k, hkN⟩ (piv ⟨k, hkN⟩) j
    simp only at hs
    rw [← hval (swap ⟨k, hkN⟩ (piv ⟨k, hkN⟩) j), hs]

/-- **`utils.piv2mat`'s index vector is the pivot permutation**: `swap[j] = (τ₀ τ₁ … τ_{N-1})(j)` -/
theorem pivSwap_eq_pivPerm {N : ℕ} (piv : Fin N → Fin N) :
    pivSwap (List.ofFn fun i => (piv i).val) = List.ofFn fun j => (pivPerm piv j).val := by
  have h := pivSwap_loop piv N (le_refl N)
  simp only [List.take_of_length_le (by simp : (List.finRange N).length ≤ N)] at h
  unfold pivSwap
  simp only [List.length_ofFn]
  apply List.ext_getElem
  · rw [h.1]; simp
  · intro j h1 h2
    have hj : j < N := by rw [h.1] at h1; exact h1
    have := h.2 ⟨j, hj⟩
    simp only at this
    rw [List.getD_eq_getElem?_getD, List.getElem?_eq_getElem h1] at this
    simp only [Option.getD_some] at this
    rw [this, List.getElem_ofFn]
    rfl

end AV
