import AlgopyVerif.Model.Convert
import Mathlib.LinearAlgebra.Matrix.Determinant.Basic
import Mathlib.LinearAlgebra.Matrix.Permutation
import Mathlib.GroupTheory.Perm.Sign
/-!
# LAPACK pivot vectors → permutation and determinant sign

`piv` (as returned by `scipy.linalg.lu_factor`) means: for `i = 0 … N-1` exchange rows `i` and
`piv i`.  `utils.piv2mat` builds the index vector `swap = τ₀ τ₁ … τ_{N-1}` (as a product of
transpositions `τ_i = (i  piv i)`) and the matrix `eye[:, swap]`; `utils.piv2det` returns
`(-1)^{#{i : piv i ≠ i}}`.
-/
open Equiv

namespace AV
variable {N : ℕ}

/-- the permutation `τ₀ τ₁ … τ_{N-1}` -/
def pivPerm (piv : Fin N → Fin N) : Perm (Fin N) :=
  ((List.finRange N).map fun i => swap i (piv i)).prod

theorem sign_list_prod_swaps (l : List (Fin N)) (piv : Fin N → Fin N) :
    Perm.sign ((l.map fun i => swap i (piv i)).prod)
      = (-1 : ℤˣ) ^ (l.filter fun i => piv i ≠ i).length := by
  induction l with
  | nil => simp
  | cons a l ih =>
    simp only [List.map_cons, List.prod_cons, map_mul, ih]
    by_cases h : piv a = a
    · simp [h]
    · have : a ≠ piv a := fun e => h e.symm
      rw [Perm.sign_swap this]
      simp [h, pow_succ, mul_comm]

/-- sign of the pivot permutation is `piv2det` -/
theorem sign_pivPerm (piv : Fin N → Fin N) :
    Perm.sign (pivPerm piv) = (-1 : ℤˣ) ^ ((List.finRange N).filter fun i => piv i ≠ i).length :=
  sign_list_prod_swaps _ piv

/-- the permutation matrix of the pivot permutation has determinant `piv2det` -/
theorem det_pivPerm_matrix {R : Type} [CommRing R] (piv : Fin N → Fin N) :
    Matrix.det ((pivPerm piv).permMatrix R)
      = ((-1 : ℤˣ) ^ ((List.finRange N).filter fun i => piv i ≠ i).length : ℤˣ) := by
  rw [Matrix.det_permutation, sign_pivPerm]

end AV
