import AlgopyVerif.Proofs.Taylor
import AlgopyVerif.Proofs.Drivers
import Mathlib.Analysis.Calculus.FDeriv.Symmetric
import Mathlib.Analysis.Calculus.Deriv.Comp
import Mathlib.Analysis.Calculus.ContDiff.Basic
/-!
# Taylor coefficients along a line: `c₁(v) = f'(x) v`, `c₂(v) = ½ f''(x)(v, v)`

For `f : E → ℝ` twice continuously differentiable at `x`, the first two Taylor coefficients of
`t ↦ f (x + t v)` are the gradient and Hessian forms — the program-level fact behind the forward-mode
drivers (`extract_jacobian`, `extract_jac_vec`, `extract_hessian`, `extract_hess_vec`).
-/
open Filter Topology

namespace AV
section
variable {E : Type*} [NormedAddCommGroup E] [NormedSpace ℝ E]

/-- the line through `x` with direction `v` -/
def line (x v : E) (t : ℝ) : E := x + t • v

theorem line_hasDerivAt (x v : E) (t : ℝ) : HasDerivAt (line x v) v t := by
  have h := ((hasDerivAt_id t).smul_const v).const_add x
  simp only [id, one_smul] at h
  exact h

theorem line_zero (x v : E) : line x v 0 = x := by simp [line]

theorem line_tendsto (x v : E) : Tendsto (line x v) (𝓝 0) (𝓝 x) := by
  have := (line_hasDerivAt x v 0).continuousAt.tendsto
  rwa [line_zero] at this

theorem tc_line_one (f : E → ℝ) (x v : E) (hf : DifferentiableAt ℝ f x) :
    tc (fun t => f (line x v t)) 1 = fderiv ℝ f x v := by
  unfold tc
  rw [iteratedDeriv_one]
  have h : HasDerivAt (fun t => f (line x v t)) (fderiv ℝ f x v) 0 := by
    have hx : HasFDerivAt f (fderiv ℝ f x) (line x v 0) := by rw [line_zero]; exact hf.hasFDerivAt
    exact hx.comp_hasDerivAt 0 (line_hasDerivAt x v 0)
  rw [h.deriv]; simp

theorem iteratedDeriv_two_line (f : E → ℝ) (x v : E) (hf : ContDiffAt ℝ 2 f x) :
    iteratedDeriv 2 (fun t => f (line x v t)) 0 = fderiv ℝ (fderiv ℝ f) x v v := by
  -- near x, f is differentiable
  have hev : ∀ᶠ y in 𝓝 x, DifferentiableAt ℝ f y := by
    have := hf.eventually (by simp)
    filter_upwards [this] with y hy
    exact hy.differentiableAt (by norm_num)
  have hev0 : ∀ᶠ t in 𝓝 (0:ℝ), DifferentiableAt ℝ f (line x v t) := (line_tendsto x v).eventually hev
  have hd1 : deriv (fun t => f (line x v t)) =ᶠ[𝓝 0] fun t => fderiv ℝ f (line x v t) v := by
    filter_upwards [hev0] with t ht
    exact (ht.hasFDerivAt.comp_hasDerivAt t (line_hasDerivAt x v t)).deriv
  rw [show (2:ℕ) = 1 + 1 from rfl, iteratedDeriv_succ, iteratedDeriv_one, hd1.deriv_eq]
  have hdf : DifferentiableAt ℝ (fderiv ℝ f) x := by
    have : ContDiffAt ℝ 1 (fderiv ℝ f) x := hf.fderiv_right (by norm_num)
    exact this.differentiableAt (by norm_num)
  have h2 : HasDerivAt (fun t => fderiv ℝ f (line x v t)) (fderiv ℝ (fderiv ℝ f) x v) 0 := by
    have hx : HasFDerivAt (fderiv ℝ f) (fderiv ℝ (fderiv ℝ f) x) (line x v 0) := by
      rw [line_zero]; exact hdf.hasFDerivAt
    exact hx.comp_hasDerivAt 0 (line_hasDerivAt x v 0)
  have h3 : HasDerivAt (fun t => fderiv ℝ f (line x v t) v) (fderiv ℝ (fderiv ℝ f) x v v) 0 := by
    have := h2.clm_apply (hasDerivAt_const (0:ℝ) v)
    simpa using this
  exact h3.deriv

/-- **second Taylor coefficient along a line** -/
theorem tc_line_two (f : E → ℝ) (x v : E) (hf : ContDiffAt ℝ 2 f x) :
    tc (fun t => f (line x v t)) 2 = fderiv ℝ (fderiv ℝ f) x v v / 2 := by
  unfold tc
  rw [iteratedDeriv_two_line f x v hf]; norm_num

/-- the second derivative is symmetric -/
theorem snd_symm (f : E → ℝ) (x : E) (hf : ContDiffAt ℝ 2 f x) (v w : E) :
    fderiv ℝ (fderiv ℝ f) x v w = fderiv ℝ (fderiv ℝ f) x w v :=
  (hf.isSymmSndFDerivAt (by simp)) v w
end

/-! ### coordinates: `E = Fin N → ℝ` -/
section
variable {N : ℕ}

/-- the gradient entries `∂f/∂x_n` -/
noncomputable def gradAt (f : (Fin N → ℝ) → ℝ) (x : Fin N → ℝ) (n : Fin N) : ℝ :=
  fderiv ℝ f x (Pi.single n 1)

/-- the Hessian entries `∂²f/∂x_n∂x_m` -/
noncomputable def hessAt (f : (Fin N → ℝ) → ℝ) (x : Fin N → ℝ) (n m : Fin N) : ℝ :=
  fderiv ℝ (fderiv ℝ f) x (Pi.single n 1) (Pi.single m 1)

theorem vec_eq_sum (v : Fin N → ℝ) : v = ∑ i, v i • (Pi.single i (1:ℝ) : Fin N → ℝ) := by
  funext j
  simp [Finset.sum_apply, Pi.single_apply]

theorem fderiv_eq_grad (f : (Fin N → ℝ) → ℝ) (x v : Fin N → ℝ) :
    fderiv ℝ f x v = ∑ i, gradAt f x i * v i := by
  conv_lhs => rw [vec_eq_sum v]
  simp only [map_sum, map_smul, smul_eq_mul, gradAt]
  exact Finset.sum_congr rfl fun i _ => mul_comm _ _

theorem snd_eq_bil (f : (Fin N → ℝ) → ℝ) (x v w : Fin N → ℝ) :
    fderiv ℝ (fderiv ℝ f) x v w = bil (hessAt f x) v w := by
  have h1 : fderiv ℝ (fderiv ℝ f) x v w
      = ∑ i, v i * fderiv ℝ (fderiv ℝ f) x (Pi.single i 1) w := by
    conv_lhs => rw [vec_eq_sum v]
    simp only [map_sum, map_smul, smul_eq_mul, _root_.sum_apply, _root_.smul_apply]
  have h2 : ∀ i : Fin N, fderiv ℝ (fderiv ℝ f) x (Pi.single i 1) w
      = ∑ j, hessAt f x i j * w j := by
    intro i
    conv_lhs => rw [vec_eq_sum w]
    simp only [map_sum, map_smul, smul_eq_mul, hessAt]
    exact Finset.sum_congr rfl fun j _ => mul_comm _ _
  rw [h1]
  unfold bil
  refine Finset.sum_congr rfl fun i _ => ?_
  rw [h2 i, Finset.mul_sum]
  exact Finset.sum_congr rfl fun j _ => by ring

/-- `c₂(v) = ½ vᵀ ∇²f(x) v` -/
theorem tc_line_two_quad (f : (Fin N → ℝ) → ℝ) (x v : Fin N → ℝ) (hf : ContDiffAt ℝ 2 f x) :
    tc (fun t => f (line x v t)) 2 = quad (hessAt f x) v := by
  rw [tc_line_two f x v hf, snd_eq_bil]; rfl

theorem hessAt_symm (f : (Fin N → ℝ) → ℝ) (x : Fin N → ℝ) (hf : ContDiffAt ℝ 2 f x) (n m : Fin N) :
    hessAt f x n m = hessAt f x m n := snd_symm f x hf _ _

/-- the gradient entry `y ↦ ∂F/∂x_j (y)` is differentiable at `x` with derivative `v ↦ D²F(x)(v, e_j)` -/
theorem gradAt_hasFDerivAt (f : (Fin N → ℝ) → ℝ) (x : Fin N → ℝ) (hf : ContDiffAt ℝ 2 f x) (j : Fin N) :
    HasFDerivAt (fun y => gradAt f y j)
      ((ContinuousLinearMap.apply ℝ ℝ (Pi.single j (1:ℝ) : Fin N → ℝ)).comp (fderiv ℝ (fderiv ℝ f) x)) x := by
  have hdf : DifferentiableAt ℝ (fderiv ℝ f) x := by
    have : ContDiffAt ℝ 1 (fderiv ℝ f) x := hf.fderiv_right (by norm_num)
    exact this.differentiableAt (by norm_num)
  exact (ContinuousLinearMap.apply ℝ ℝ (Pi.single j (1:ℝ) : Fin N → ℝ)).hasFDerivAt.comp x hdf.hasFDerivAt

/-- **first Taylor coefficient of the gradient along a line is the Hessian-vector product**:
`[t¹] ∂F/∂x_j (x + t v) = Σ_i ∂²F/∂x_j∂x_i · v_i` — what `hessian`, `hess_vec`, `vec_hess` read from `xbar.data[1]` -/
theorem tc_grad_line_one (f : (Fin N → ℝ) → ℝ) (x v : Fin N → ℝ) (hf : ContDiffAt ℝ 2 f x) (j : Fin N) :
    tc (fun t => gradAt f (line x v t) j) 1 = ∑ i, hessAt f x j i * v i := by
  have hd := gradAt_hasFDerivAt f x hf j
  rw [tc_line_one (fun y => gradAt f y j) x v hd.differentiableAt, hd.fderiv]
  simp only [ContinuousLinearMap.comp_apply, ContinuousLinearMap.apply_apply]
  rw [snd_eq_bil]
  unfold bil
  have : ∀ i : Fin N, ∑ k, v i * hessAt f x i k * (Pi.single j (1:ℝ) : Fin N → ℝ) k = v i * hessAt f x i j := by
    intro i
    rw [Finset.sum_eq_single j]
    · simp
    · intro b _ hb; simp [Pi.single_apply, hb]
    · intro h; exact absurd (Finset.mem_univ j) h
  rw [Finset.sum_congr rfl fun i _ => this i]
  refine Finset.sum_congr rfl fun i _ => ?_
  rw [hessAt_symm f x hf j i]; ring

end
end AV
