import AlgopyVerif.Proofs.Analytic2
/-!
# Jets: Taylor coefficients of a composite depend only on the Taylor coefficients of the inner map

`tc_comp_congr`: if two smooth germs `X`, `G` at 0 have the same Taylor coefficients up to order
`n`, then so have `f ∘ X` and `f ∘ G` for every `f` smooth at `X 0`.  (Elementary proof by
induction on the order, for all `f` simultaneously, via `(f ∘ X)' = (f' ∘ X) · X'` and Leibniz.)

Consequence (`JetOf`): every kernel theorem `co (K x) d = tc (f ∘ curve x) d` of the analytic
layer holds verbatim with `curve x` replaced by *any* smooth `X` whose first `x.length` Taylor
coefficients are `x` — which is what makes the theorems compose (a kernel applied to the output of
another kernel).
-/
open Polynomial Filter Topology
open scoped ContDiff

namespace AV

theorem contDiffAt_deriv_of {f : ℝ → ℝ} {a : ℝ} (hf : ContDiffAt ℝ ∞ f a) : ContDiffAt ℝ ∞ (deriv f) a :=
  ContDiffAt.derivWithin hf (by simp)

theorem eventually_differentiableAt_comp {f X : ℝ → ℝ} (hX : Smooth0 X) (hf : ContDiffAt ℝ ∞ f (X 0)) :
    ∀ᶠ t in 𝓝 (0:ℝ), DifferentiableAt ℝ f (X t) ∧ DifferentiableAt ℝ X t := by
  have h1 : ∀ᶠ y in 𝓝 (X 0), ContDiffAt ℝ 1 f y :=
    (hf.of_le (by exact_mod_cast le_top)).eventually (by simp)
  have h2 : ∀ᶠ t in 𝓝 (0:ℝ), ContDiffAt ℝ 1 f (X t) := hX.continuousAt.eventually h1
  have h3 : ∀ᶠ t in 𝓝 (0:ℝ), ContDiffAt ℝ 1 X t :=
    (ContDiffAt.of_le hX (by exact_mod_cast le_top)).eventually (by simp)
  filter_upwards [h2, h3] with t ht1 ht2
  exact ⟨ht1.differentiableAt (by simp), ht2.differentiableAt (by simp)⟩

theorem deriv_comp_eventually {f X : ℝ → ℝ} (hX : Smooth0 X) (hf : ContDiffAt ℝ ∞ f (X 0)) :
    deriv (fun t => f (X t)) =ᶠ[𝓝 0] (fun t => deriv f (X t)) * deriv X := by
  filter_upwards [eventually_differentiableAt_comp hX hf] with t ht
  have := (ht.1.hasDerivAt).comp t ht.2.hasDerivAt
  simpa [Function.comp_def] using this.deriv

theorem smooth0_comp {f X : ℝ → ℝ} (hX : Smooth0 X) (hf : ContDiffAt ℝ ∞ f (X 0)) :
    Smooth0 (fun t => f (X t)) := hf.comp 0 hX

/-- the jet lemma -/
theorem tc_comp_congr {X G : ℝ → ℝ} (hX : Smooth0 X) (hG : Smooth0 G) (n : ℕ)
    (h : ∀ k, k ≤ n → tc X k = tc G k) :
    ∀ d, d ≤ n → ∀ f : ℝ → ℝ, ContDiffAt ℝ ∞ f (X 0) →
      tc (fun t => f (X t)) d = tc (fun t => f (G t)) d := by
  have h0 : X 0 = G 0 := by simpa [tc_zero] using h 0 (Nat.zero_le n)
  intro d
  induction d using Nat.strong_induction_on with
  | _ d ih =>
    intro hd f hf
    cases d with
    | zero => rw [tc_zero, tc_zero, h0]
    | succ d =>
      have hne : ((d + 1 : ℕ) : ℝ) ≠ 0 := by exact_mod_cast Nat.succ_ne_zero d
      have hfG : ContDiffAt ℝ ∞ f (G 0) := h0 ▸ hf
      apply mul_left_cancel₀ hne
      rw [← tc_deriv, ← tc_deriv, tc_congr (deriv_comp_eventually hX hf),
        tc_congr (deriv_comp_eventually hG hfG),
        tc_mul_at (smooth0_comp hX (contDiffAt_deriv_of hf)) hX.deriv,
        tc_mul_at (smooth0_comp hG (contDiffAt_deriv_of hfG)) hG.deriv]
      apply Finset.sum_congr rfl
      intro i hi
      have hi' : i < d + 1 := Finset.mem_range.mp hi
      rw [ih i hi' (by omega) (deriv f) (contDiffAt_deriv_of hf), tc_deriv, tc_deriv,
        h (d - i + 1) (by omega)]

/-! ## `JetOf x X`: the list `x` holds the first `x.length` Taylor coefficients of the smooth germ `X` -/
structure JetOf (x : List ℝ) (X : ℝ → ℝ) : Prop where
  smooth : Smooth0 X
  coeff : ∀ k, k < x.length → co x k = tc X k

theorem jetOf_curve (x : List ℝ) : JetOf x (curve x) :=
  ⟨smooth0_curve x, fun k _ => (tc_curve x k).symm⟩

theorem JetOf.zero {x : List ℝ} {X : ℝ → ℝ} (h : JetOf x X) (hl : 0 < x.length) : co x 0 = X 0 := by
  rw [h.coeff 0 hl, tc_zero]

/-- transfer: a statement about `f ∘ curve x` is a statement about `f ∘ X` -/
theorem JetOf.tc_comp {x : List ℝ} {X : ℝ → ℝ} (h : JetOf x X) (f : ℝ → ℝ) (hf : ContDiffAt ℝ ∞ f (X 0))
    (d : ℕ) (hd : d < x.length) : tc (fun t => f (curve x t)) d = tc (fun t => f (X t)) d := by
  have := tc_comp_congr h.smooth (smooth0_curve x) (x.length - 1)
    (fun k hk => by rw [tc_curve, h.coeff k (by omega)]) d (by omega) f hf
  exact this.symm

/-- a kernel theorem stated for curves yields the closure statement for jets -/
theorem JetOf.of_kernel {x y : List ℝ} {X : ℝ → ℝ} (h : JetOf x X) (f : ℝ → ℝ) (hf : ContDiffAt ℝ ∞ f (X 0))
    (hlen : y.length = x.length)
    (hk : ∀ d, d < x.length → co y d = tc (fun t => f (curve x t)) d) : JetOf y (fun t => f (X t)) :=
  ⟨smooth0_comp h.smooth hf, fun k hk' => by rw [hk k (hlen ▸ hk'), h.tc_comp f hf k (hlen ▸ hk')]⟩

/-! ### algebra of jets -/
theorem tc_add (f g : ℝ → ℝ) (hf : Smooth0 f) (hg : Smooth0 g) (n : ℕ) : tc (f + g) n = tc f n + tc g n := by
  unfold tc
  rw [iteratedDeriv_add (hf.of_le (by exact_mod_cast le_top)) (hg.of_le (by exact_mod_cast le_top)), add_div]

theorem tc_sub (f g : ℝ → ℝ) (hf : Smooth0 f) (hg : Smooth0 g) (n : ℕ) : tc (f - g) n = tc f n - tc g n := by
  unfold tc
  rw [iteratedDeriv_sub (hf.of_le (by exact_mod_cast le_top)) (hg.of_le (by exact_mod_cast le_top)), sub_div]

theorem JetOf.add {x y : List ℝ} {X Y : ℝ → ℝ} (hx : JetOf x X) (hy : JetOf y Y) (hl : y.length = x.length) :
    JetOf (addS x y) (X + Y) :=
  ⟨ContDiffAt.add hx.smooth hy.smooth, fun k hk => by
    have hk' : k < x.length := by simpa [addS] using hk
    rw [tc_add _ _ hx.smooth hy.smooth, ← hx.coeff k hk', ← hy.coeff k (hl ▸ hk')]
    unfold addS; rw [co_map_range _ _ _ hk']⟩

theorem JetOf.sub {x y : List ℝ} {X Y : ℝ → ℝ} (hx : JetOf x X) (hy : JetOf y Y) (hl : y.length = x.length) :
    JetOf (subS x y) (X - Y) :=
  ⟨ContDiffAt.sub hx.smooth hy.smooth, fun k hk => by
    have hk' : k < x.length := by simpa [subS] using hk
    rw [tc_sub _ _ hx.smooth hy.smooth, ← hx.coeff k hk', ← hy.coeff k (hl ▸ hk')]
    unfold subS; rw [co_map_range _ _ _ hk']⟩

theorem JetOf.mul {x y : List ℝ} {X Y : ℝ → ℝ} (hx : JetOf x X) (hy : JetOf y Y) (hl : y.length = x.length) :
    JetOf (mulS x y) (X * Y) :=
  ⟨ContDiffAt.mul hx.smooth hy.smooth, fun k hk => by
    have hk' : k < x.length := by simpa [mulS] using hk
    rw [mulS_co x y k hk', tc_mul_at hx.smooth hy.smooth]
    apply Finset.sum_congr rfl
    intro i hi
    have := Finset.mem_range.mp hi
    rw [hx.coeff i (by omega), hy.coeff (k - i) (by omega)]⟩

theorem JetOf.neg {x : List ℝ} {X : ℝ → ℝ} (hx : JetOf x X) : JetOf (negS x) (-X) :=
  ⟨hx.smooth.neg, fun k hk => by
    have hk' : k < x.length := by simpa [negS] using hk
    rw [tc_neg, ← hx.coeff k hk']
    unfold negS co
    rw [List.getD_eq_getElem?_getD, List.getD_eq_getElem?_getD, List.getElem?_map]
    simp [hk']⟩

theorem JetOf.scale {x : List ℝ} {X : ℝ → ℝ} (c : ℝ) (hx : JetOf x X) : JetOf (scaleS c x) (fun t => c * X t) :=
  ⟨contDiffAt_const.mul hx.smooth, fun k hk => by
    have hk' : k < x.length := by simpa [scaleS] using hk
    rw [tc_const_mul, ← hx.coeff k hk']
    unfold scaleS co
    rw [List.getD_eq_getElem?_getD, List.getD_eq_getElem?_getD, List.getElem?_map]
    simp [hk']⟩

theorem JetOf.plusConst {x : List ℝ} {X : ℝ → ℝ} (c : ℝ) (hx : JetOf x X) :
    JetOf (plusConstS x c) (fun t => X t + c) :=
  ⟨hx.smooth.add contDiffAt_const, fun k hk => by
    have hk' : k < x.length := by simpa [plusConstS] using hk
    have e : (fun t => X t + c) = X + fun _ => c := rfl
    rw [e, tc_add _ _ hx.smooth contDiffAt_const, tc_const]
    unfold plusConstS
    rw [co_map_range _ _ _ hk']
    by_cases h0 : k = 0
    · subst h0; simp [hx.coeff 0 hk']
    · simp [h0, hx.coeff k hk']⟩

/-! ### `_square` is the Cauchy square -/
theorem sum_symm_split (a : ℕ → ℝ) (d : ℕ) (hs : ∀ k, k ≤ d → a k = a (d - k)) :
    ∑ k ∈ Finset.range (d + 1), a k
      = (∑ k ∈ Finset.range ((d + 1) / 2), a k * 2) + (if (d + 1) % 2 = 1 then a ((d + 1) / 2) else 0) := by
  rcases Nat.even_or_odd' d with ⟨m, rfl | rfl⟩
  · -- d = 2m : range (2m+1) = range m ++ {m} ++ (m+1 .. 2m)
    have h1 : (2 * m + 1) / 2 = m := by omega
    have h2 : (2 * m + 1) % 2 = 1 := by omega
    rw [h1, h2, if_pos rfl]
    have : 2 * m + 1 = m + 1 + m := by omega
    rw [this, Finset.sum_range_add, Finset.sum_range_succ]
    have hr : ∑ i ∈ Finset.range m, a (m + 1 + i) = ∑ i ∈ Finset.range m, a i := by
      rw [← Finset.sum_range_reflect]
      apply Finset.sum_congr rfl
      intro j hj
      have hj' := Finset.mem_range.mp hj
      rw [hs (m + 1 + (m - 1 - j)) (by omega)]
      congr 1; omega
    rw [hr, ← Finset.sum_mul]
    ring
  · -- d = 2m+1
    have h1 : (2 * m + 1 + 1) / 2 = m + 1 := by omega
    have h2 : ¬ ((2 * m + 1 + 1) % 2 = 1) := by omega
    rw [h1, if_neg h2]
    have : 2 * m + 1 + 1 = m + 1 + (m + 1) := by omega
    rw [this, Finset.sum_range_add]
    have hr : ∑ i ∈ Finset.range (m + 1), a (m + 1 + i) = ∑ i ∈ Finset.range (m + 1), a i := by
      rw [← Finset.sum_range_reflect]
      apply Finset.sum_congr rfl
      intro j hj
      have hj' := Finset.mem_range.mp hj
      rw [hs (m + 1 + (m + 1 - 1 - j)) (by omega)]
      congr 1; omega
    rw [hr, ← Finset.sum_mul]
    ring

theorem squareS_co (x : List ℝ) (d : ℕ) (hd : d < x.length) :
    co (squareS x) d = ∑ k ∈ Finset.range (d + 1), co x k * co x (d - k) := by
  unfold squareS
  rw [co_map_range _ _ _ hd]
  rw [sum_symm_split (fun k => co x k * co x (d - k)) d (by
    intro k hk
    rw [Nat.sub_sub_self hk, mul_comm])]
  have hmid : d - (d + 1) / 2 = (d + 1) / 2 ∨ (d + 1) % 2 ≠ 1 := by omega
  by_cases h0 : d = 0
  · subst h0; simp
  · simp only [if_neg h0, sumRange_eq, Nat.sub_zero, Nat.zero_add, nat_eq]
    split
    · rename_i hodd
      rcases hmid with hm | hm
      · rw [hm]; push_cast; ring
      · exact absurd hodd hm
    · push_cast; ring

theorem squareS_length (x : List ℝ) : (squareS x).length = x.length := by simp [squareS]

theorem JetOf.square {x : List ℝ} {X : ℝ → ℝ} (hx : JetOf x X) : JetOf (squareS x) (X * X) :=
  ⟨ContDiffAt.mul hx.smooth hx.smooth, fun k hk => by
    have hk' : k < x.length := by rwa [squareS_length] at hk
    rw [squareS_co x k hk', tc_mul_at hx.smooth hx.smooth]
    apply Finset.sum_congr rfl
    intro i hi
    have := Finset.mem_range.mp hi
    rw [hx.coeff i (by omega), hx.coeff (k - i) (by omega)]⟩

end AV
