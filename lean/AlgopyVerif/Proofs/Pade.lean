import AlgopyVerif.Model.Pade
import Mathlib.RingTheory.PowerSeries.Exp
import Mathlib.Tactic.Ring
import Mathlib.Tactic.NormNum
/-!
# The Padé tables of `expm_pade` match the exponential series to order `2q`

For `q ∈ {3, 5, 7, 9, 13}` let `N(x) = Σ_k b_k x^k` and `D(x) = Σ_k b_k (−x)^k` with the code's table `b = padeB q`.
* `padeU_add_padeV`, `padeV_sub_padeU`: the code's even/odd evaluation gives `U + V = N(x)` and `V − U = D(x)`
  (for every rational `x`; polynomial identities), so `expm_pade` returns `D(A)⁻¹ N(A)`;
* `pade_defect_zero`: coefficient `m` of `N − D·exp` vanishes for all `m ≤ 2q` (exact rational arithmetic in the kernel),
  and `pade_series`: the same statement in `ℚ⟦X⟧` with Mathlib's `PowerSeries.exp`:
  `coeff m (D · exp) = coeff m N` for `m ≤ 2q` — the `[q/q]` Padé property.  The order is sharp (`pade_defect_sharp`).
What is *not* proved is the size of the remainder for a matrix of given norm (the "Padé range" thresholds of Higham 2005).
-/
namespace AV
open Finset

theorem foldl_add_range (g : ℕ → ℚ) (n : ℕ) :
    (List.range n).foldl (fun s k => s + g k) 0 = ∑ k ∈ range n, g k := by
  induction n with
  | zero => simp
  | succ n ih => simp [List.range_succ, List.foldl_append, sum_range_succ, ih]

/-- the polynomial `Σ_k b_k x^k` -/
def padePoly (q : Nat) (x : ℚ) : ℚ := ∑ k ∈ range (q + 1), bq q k * x ^ k

theorem padeU_add_padeV (q : Nat) (hq : q = 3 ∨ q = 5 ∨ q = 7 ∨ q = 9 ∨ q = 13) (x : ℚ) :
    padeU q x + padeV q x = padePoly q x := by
  rcases hq with rfl | rfl | rfl | rfl | rfl <;>
    simp [padeU, padeV, padePoly, bq, padeB, sum_range_succ] <;> ring

theorem padeV_sub_padeU (q : Nat) (hq : q = 3 ∨ q = 5 ∨ q = 7 ∨ q = 9 ∨ q = 13) (x : ℚ) :
    padeV q x - padeU q x = padePoly q (-x) := by
  rcases hq with rfl | rfl | rfl | rfl | rfl <;>
    simp [padeU, padeV, padePoly, bq, padeB, sum_range_succ] <;> ring

theorem pade3_order : ∀ m, m ≤ 6 → padeDefect 3 m = 0 := by decide +kernel
theorem pade5_order : ∀ m, m ≤ 10 → padeDefect 5 m = 0 := by decide +kernel
theorem pade7_order : ∀ m, m ≤ 14 → padeDefect 7 m = 0 := by decide +kernel
theorem pade9_order : ∀ m, m ≤ 18 → padeDefect 9 m = 0 := by decide +kernel
theorem pade13_order : ∀ m, m ≤ 26 → padeDefect 13 m = 0 := by decide +kernel

theorem pade_defect_zero (q : Nat) (hq : q = 3 ∨ q = 5 ∨ q = 7 ∨ q = 9 ∨ q = 13) (m : Nat) (hm : m ≤ 2 * q) :
    padeDefect q m = 0 := by
  rcases hq with rfl | rfl | rfl | rfl | rfl
  · exact pade3_order m hm
  · exact pade5_order m hm
  · exact pade7_order m hm
  · exact pade9_order m hm
  · exact pade13_order m hm

/-- the order is sharp: coefficient `2q + 1` of `N − D·exp` does not vanish -/
theorem pade_defect_sharp : padeDefect 3 7 ≠ 0 ∧ padeDefect 5 11 ≠ 0 ∧ padeDefect 7 15 ≠ 0 ∧ padeDefect 9 19 ≠ 0 ∧ padeDefect 13 27 ≠ 0 := by
  decide +kernel

theorem factQ_eq (n : Nat) : factQ n = (n.factorial : ℚ) := by
  induction n with
  | zero => simp [factQ]
  | succ n ih => simp [factQ, Nat.factorial_succ, ih]

open PowerSeries in
/-- numerator and denominator as formal power series -/
noncomputable def padeNps (q : Nat) : ℚ⟦X⟧ := PowerSeries.mk fun k => bq q k
open PowerSeries in
noncomputable def padeDps (q : Nat) : ℚ⟦X⟧ := PowerSeries.mk fun k => if k % 2 = 0 then bq q k else - bq q k

open PowerSeries in
/-- **the `[q/q]` Padé property** of the code's tables: `D(X) · exp(X)` and `N(X)` agree up to order `2q` -/
theorem pade_series (q : Nat) (hq : q = 3 ∨ q = 5 ∨ q = 7 ∨ q = 9 ∨ q = 13) (m : Nat) (hm : m ≤ 2 * q) :
    coeff m (padeDps q * exp ℚ) = coeff m (padeNps q) := by
  have h0 := pade_defect_zero q hq m hm
  unfold padeDefect at h0
  rw [foldl_add_range] at h0
  rw [coeff_mul, Nat.sum_antidiagonal_eq_sum_range_succ_mk]
  simp only [padeDps, padeNps, coeff_mk, coeff_exp]
  have : ∀ k ∈ range (m + 1), (if k % 2 = 0 then bq q k else -bq q k) * (algebraMap ℚ ℚ) (1 / ((m - k).factorial : ℚ))
      = (if k % 2 = 0 then bq q k else -bq q k) / factQ (m - k) := by
    intro k _
    rw [factQ_eq]; simp [div_eq_mul_inv]
  rw [sum_congr rfl this]
  linarith
end AV
