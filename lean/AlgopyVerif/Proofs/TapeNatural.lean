import AlgopyVerif.Proofs.Tape
import Mathlib.Algebra.Ring.Pi
import Mathlib.Algebra.Ring.Hom.Defs
/-!
# Naturality of the forward and the reverse sweep

Let `φ : A → B` be additive with `φ 0 = 0` (every ring homomorphism is) and let two tapes, one over `A` and one over `B`, have
the same shape (same destination and argument cells, same overwrites) and *compatible* computations:
`φ (c.f vals) = c'.f (vals.map φ)` and `(c.pb vals yb).map φ = c'.pb (vals.map φ) (φ yb)`.  Then `φ` commutes with the forward
evaluation and with the **reverse sweep**: `φ ∘ rev t h bar = rev t' (φ ∘ h) (φ ∘ bar)`.

Two instances decide two properties of the reverse sweep at once:

* `A = (Fin P → S)` (one ring element per direction), `B = S`, `φ = evaluation at direction p` (a ring homomorphism): the adjoints of
  direction `p` of a `P`-direction sweep are the adjoints of the sweep of direction `p` alone (C11);
* `A = S[t]/(t^D)`, `B = S[t]/(t^D')`, `φ = truncation` (a ring homomorphism for `D' ≤ D`): the first `D'` adjoint coefficients
  of a sweep with `D` coefficients are the adjoints of the sweep with `D'` coefficients (C12).

Compatibility of the individual computations is the kernel-level statement of the same property (ring operations are compatible
with every ring homomorphism; the series kernels by the `*_prefix` theorems of C12 and the `mapS1`/`zipS2` theorems of C11).
-/
set_option linter.unusedSectionVars false
namespace AV.Tape
variable {A B : Type} [CommRing A] [CommRing B]

/-- compatibility of one computation with `φ` -/
def Comp.Compat (φ : A → B) (c : Comp A) (c' : Comp B) : Prop :=
  c'.dst = c.dst ∧ c'.args = c.args ∧
  (∀ vals : List A, vals.length = c.args.length → φ (c.f vals) = c'.f (vals.map φ)) ∧
  (∀ (vals : List A) (yb : A), vals.length = c.args.length → (c.pb vals yb).map φ = c'.pb (vals.map φ) (φ yb))

/-- compatibility of one instruction -/
inductive Instr.Compat (φ : A → B) : Instr A → Instr B → Prop
  | comp (c : Comp A) (c' : Comp B) : Comp.Compat φ c c' → Instr.Compat φ (.comp c) (.comp c')
  | write (d s : Nat) : Instr.Compat φ (.write d s) (.write d s)

omit [CommRing A] [CommRing B] in
theorem comp_upd (φ : A → B) (h : Heap A) (c : Nat) (v : A) : φ ∘ upd h c v = upd (φ ∘ h) c (φ v) := by
  funext i; unfold upd; by_cases hi : i = c <;> simp [hi]

omit [CommRing A] [CommRing B] in
theorem map_comp_heap (φ : A → B) (h : Heap A) (l : List Nat) : (l.map h).map φ = l.map (φ ∘ h) := by
  simp [List.map_map]

theorem comp_scatter (φ : A → B) (hadd : ∀ x y, φ (x + y) = φ x + φ y) (bar : Heap A) :
    ∀ (as : List Nat) (vs : List A), φ ∘ scatter bar as vs = scatter (φ ∘ bar) as (vs.map φ) := by
  intro as
  induction as generalizing bar with
  | nil => intro vs; cases vs <;> simp [scatter]
  | cons a as ih =>
    intro vs
    cases vs with
    | nil => simp [scatter]
    | cons v vs =>
      simp only [scatter, List.map_cons]
      rw [ih, comp_upd, hadd]
      rfl

theorem fwd1_natural (φ : A → B) (h : Heap A) (i : Instr A) (i' : Instr B) (hc : Instr.Compat φ i i') :
    φ ∘ fwd1 h i = fwd1 (φ ∘ h) i' := by
  cases hc with
  | comp c c' hcc =>
    obtain ⟨hd, ha, hf, _⟩ := hcc
    simp only [fwd1]
    rw [comp_upd, hf _ (by simp), hd, ha, map_comp_heap]
  | write d s =>
    simp only [fwd1]
    rw [comp_upd]; rfl

theorem rev1_natural (φ : A → B) (hadd : ∀ x y, φ (x + y) = φ x + φ y) (h0 : φ 0 = 0) (h bar : Heap A)
    (i : Instr A) (i' : Instr B) (hc : Instr.Compat φ i i') :
    φ ∘ rev1 h bar i = rev1 (φ ∘ h) (φ ∘ bar) i' := by
  cases hc with
  | comp c c' hcc =>
    obtain ⟨hd, ha, _, hp⟩ := hcc
    simp only [rev1]
    rw [comp_scatter φ hadd, hp _ _ (by simp), hd, ha, map_comp_heap]
    rfl
  | write d s =>
    simp only [rev1]
    have hpt : φ (upd bar d 0 s) = upd (φ ∘ bar) d 0 s := by
      have := congrFun (comp_upd φ bar d 0) s
      simpa [h0] using this
    rw [comp_upd, comp_upd, hadd, h0, hpt]
    rfl

/-- `φ` commutes with the forward evaluation of compatible tapes -/
theorem fwd_natural (φ : A → B) : ∀ (t : List (Instr A)) (t' : List (Instr B)), List.Forall₂ (Instr.Compat φ) t t' →
    ∀ h : Heap A, φ ∘ fwd t h = fwd t' (φ ∘ h) := by
  intro t t' hc
  induction hc with
  | nil => intro h; rfl
  | cons hi _ ih =>
    intro h
    simp only [fwd]
    rw [ih, fwd1_natural φ h _ _ hi]

/-- **`φ` commutes with the reverse sweep** of compatible tapes -/
theorem rev_natural (φ : A → B) (hadd : ∀ x y, φ (x + y) = φ x + φ y) (h0 : φ 0 = 0) :
    ∀ (t : List (Instr A)) (t' : List (Instr B)), List.Forall₂ (Instr.Compat φ) t t' →
    ∀ h bar : Heap A, φ ∘ rev t h bar = rev t' (φ ∘ h) (φ ∘ bar) := by
  intro t t' hc
  induction hc with
  | nil => intro h bar; rfl
  | cons hi _ ih =>
    intro h bar
    simp only [rev]
    rw [rev1_natural φ hadd h0 _ _ _ _ hi, ih, fwd1_natural φ h _ _ hi]

/-! ## ring operations are compatible with every ring homomorphism -/

theorem addComp_compat (φ : A →+* B) (dst a b : Nat) : Comp.Compat φ (addComp dst a b) (addComp dst a b) := by
  refine ⟨rfl, rfl, ?_, ?_⟩
  · intro vals hv
    match vals, hv with
    | [x, y], _ => simp [addComp]
  · intro vals yb _; simp [addComp]

theorem subComp_compat (φ : A →+* B) (dst a b : Nat) : Comp.Compat φ (subComp dst a b) (subComp dst a b) := by
  refine ⟨rfl, rfl, ?_, ?_⟩
  · intro vals hv
    match vals, hv with
    | [x, y], _ => simp [subComp]
  · intro vals yb _; simp [subComp]

theorem mulComp_compat (φ : A →+* B) (dst a b : Nat) : Comp.Compat φ (mulComp dst a b) (mulComp dst a b) := by
  refine ⟨rfl, rfl, ?_, ?_⟩
  · intro vals hv
    match vals, hv with
    | [x, y], _ => simp [mulComp]
  · intro vals yb hv
    match vals, hv with
    | [x, y], _ => simp [mulComp]

/-- a unary kernel with multiplier `g` (exp, log, sqrt, …) is compatible as soon as the kernel and its multiplier commute with
`φ` — for truncation this is the kernel's `*_prefix` theorem, for a direction projection its `mapS1` theorem -/
theorem unaryComp_compat (φ : A →+* B) (dst a : Nat) (f g : A → A) (f' g' : B → B)
    (hf : ∀ x, φ (f x) = f' (φ x)) (hg : ∀ x, φ (g x) = g' (φ x)) :
    Comp.Compat φ (unaryComp dst a f g) (unaryComp dst a f' g') := by
  refine ⟨rfl, rfl, ?_, ?_⟩
  · intro vals hv
    match vals, hv with
    | [x], _ => simp [unaryComp, hf]
  · intro vals yb hv
    match vals, hv with
    | [x], _ => simp [unaryComp, hg]

/-- division `x * inv y` with an inverse function that commutes with `φ` -/
theorem divComp_compat (φ : A →+* B) (dst a b : Nat) (inv : A → A) (inv' : B → B) (hi : ∀ x, φ (inv x) = inv' (φ x)) :
    Comp.Compat φ (divComp dst a b inv) (divComp dst a b inv') := by
  refine ⟨rfl, rfl, ?_, ?_⟩
  · intro vals hv
    match vals, hv with
    | [x, y], _ => simp [divComp, hi]
  · intro vals yb hv
    match vals, hv with
    | [x, y], _ => simp [divComp, hi]

theorem sumComp_compat (φ : A →+* B) (dst : Nat) (args : List Nat) : Comp.Compat φ (sumComp dst args) (sumComp dst args) := by
  refine ⟨rfl, rfl, ?_, ?_⟩
  · intro vals _
    simp only [sumComp]
    exact map_list_sum φ vals
  · intro vals yb _; simp [sumComp]

end AV.Tape
