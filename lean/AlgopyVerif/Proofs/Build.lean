import AlgopyVerif.Model.Series
import Mathlib.Algebra.BigOperators.Intervals
import Mathlib.Algebra.BigOperators.Group.Finset.Basic
import Mathlib.Tactic.Ring
import Mathlib.Tactic.FieldSimp
import Mathlib.Algebra.Field.Basic
import Mathlib.Algebra.Order.Ring.Nat
import Mathlib.Data.List.GetD
/-!
# Generic lemmas about `build`, `sumRange`, `co`

`build_length`, `build_take` (prefix stability — this *is* property C12 for every
recurrence), `build_getD` (entry `d` is `step` of the prefix).
-/
namespace AV

theorem build_length {α} (step : List α → α) (n : Nat) : (build step n).length = n := by
  induction n with
  | zero => rfl
  | succ n ih => simp [build, ih]

theorem build_take {α} (step : List α → α) (n m : Nat) (h : m ≤ n) :
    (build step n).take m = build step m := by
  induction n with
  | zero => simp at h; subst h; rfl
  | succ n ih =>
    rcases Nat.lt_or_ge m (n+1) with hlt | hge
    · have : m ≤ n := Nat.lt_succ_iff.mp hlt
      simp only [build]
      rw [List.take_append_of_le_length (by simp [build_length]; exact this)]
      exact ih this
    · have : m = n+1 := le_antisymm h hge
      subst this
      rw [List.take_of_length_le (by simp [build_length])]

theorem build_getD {α} (step : List α → α) (n d : Nat) (h : d < n) (dflt : α) :
    (build step n).getD d dflt = step (build step d) := by
  induction n with
  | zero => omega
  | succ n ih =>
    simp only [build]
    rcases Nat.lt_or_ge d n with hlt | hge
    · rw [List.getD_append _ _ _ _ (by simp [build_length]; exact hlt)]
      exact ih hlt
    · have : d = n := by omega
      subst this
      rw [List.getD_append_right _ _ _ _ (by simp [build_length])]
      simp [build_length]

/-- entries of a shorter build are the entries of the longer one -/
theorem build_getD_prefix {α} (step : List α → α) (n d k : Nat) (hk : k < d) (hd : d ≤ n) (dflt : α) :
    (build step d).getD k dflt = (build step n).getD k dflt := by
  rw [← build_take step n d hd, List.getD_eq_getElem?_getD, List.getD_eq_getElem?_getD,
    List.getElem?_take, if_pos hk]

theorem sumRange_eq {K} [AddCommMonoid K] (lo hi : Nat) (f : Nat → K) :
    sumRange lo hi f = ∑ i ∈ Finset.range (hi - lo), f (lo + i) := by
  unfold sumRange
  generalize hi - lo = n
  induction n with
  | zero => simp
  | succ n ih => rw [List.range_succ, List.foldl_append, ih, Finset.sum_range_succ]; simp

/-- `sumRange` only looks at `f` on `[lo, hi)` -/
theorem sumRange_congr {K} [AddCommMonoid K] (lo hi : Nat) (f g : Nat → K)
    (h : ∀ k, lo ≤ k → k < hi → f k = g k) : sumRange lo hi f = sumRange lo hi g := by
  rw [sumRange_eq, sumRange_eq]
  apply Finset.sum_congr rfl
  intro i hi'
  have := Finset.mem_range.mp hi'
  exact h _ (by omega) (by omega)

section
variable {K : Type} [Zero K]

theorem co_map_range (n : Nat) (f : Nat → K) (d : Nat) (h : d < n) :
    co ((List.range n).map f) d = f d := by
  unfold co
  rw [List.getD_eq_getElem?_getD]
  simp [h]

theorem co_of_ge (x : List K) (d : Nat) (h : x.length ≤ d) : co x d = 0 := by
  unfold co
  rw [List.getD_eq_getElem?_getD, List.getElem?_eq_none h]
  rfl

theorem co_take (x : List K) (m d : Nat) (h : d < m) : co (x.take m) d = co x d := by
  unfold co
  rw [List.getD_eq_getElem?_getD, List.getD_eq_getElem?_getD, List.getElem?_take, if_pos h]

theorem co_build (step : List K → K) (n d : Nat) (h : d < n) :
    co (build step n) d = step (build step d) := build_getD step n d h 0

theorem co_build_prefix (step : List K → K) (n d k : Nat) (hk : k < d) (hd : d ≤ n) :
    co (build step d) k = co (build step n) k := build_getD_prefix step n d k hk hd 0
end

end AV
