import Mathlib.LinearAlgebra.Matrix.Adjugate
import Mathlib.LinearAlgebra.Matrix.Trace
import Mathlib.Tactic.Ring
import Mathlib.Tactic.LinearCombination
import AlgopyVerif.Proofs.MatPullback
/-!
# Jacobi's formula without invertibility (any commutative ring)

`det (X + r dX) = det X + tr(adj(X) dX) r + O(r²)`: the tangent of `det` is `tr(adj(X) dX)` at *every* matrix, also a
singular one, and `Xbar = ybar · adj(X)ᵀ` is its adjoint.  `UTPM.det` / `pb_det` (algopy/utpm/utpm.py) evaluate determinant and
adjugate division-free when the zeroth coefficient is singular (the LU recursion needs `U_0⁻¹`); `S` is instantiated with
`ℝ[t]/(t^D)`.
-/

namespace AV.Jacobi
open Matrix Finset BigOperators Equiv
variable {S : Type} [CommRing S] {n : Type} [Fintype n] [DecidableEq n]

omit [Fintype n] in
/-- first-order expansion of a finite product -/
theorem prod_add_mul (s : Finset n) (a b : n → S) (r : S) :
    ∃ c : S, ∏ i ∈ s, (a i + r * b i)
      = ∏ i ∈ s, a i + r * ∑ j ∈ s, b j * ∏ i ∈ s.erase j, a i + c * r ^ 2 := by
  induction s using Finset.induction_on with
  | empty => exact ⟨0, by simp⟩
  | insert k s hk ih =>
    obtain ⟨c, hc⟩ := ih
    have h1 : (insert k s).erase k = s := erase_insert hk
    have h2 : ∀ j ∈ s, ∏ i ∈ (insert k s).erase j, a i = a k * ∏ i ∈ s.erase j, a i := by
      intro j hj
      have hne : k ≠ j := by rintro rfl; exact hk hj
      have : (insert k s).erase j = insert k (s.erase j) := erase_insert_of_ne hne
      rw [this, prod_insert (fun h => hk (mem_of_mem_erase h))]
    have h3 : ∑ j ∈ s, b j * ∏ i ∈ (insert k s).erase j, a i
        = a k * ∑ j ∈ s, b j * ∏ i ∈ s.erase j, a i := by
      rw [mul_sum]
      refine sum_congr rfl (fun j hj => ?_)
      rw [h2 j hj]; ring
    refine ⟨a k * c + b k * (∑ j ∈ s, b j * ∏ i ∈ s.erase j, a i) + r * b k * c, ?_⟩
    rw [prod_insert hk, hc, prod_insert hk, sum_insert hk, h1, h3]
    ring


/-- the determinant of `X` with column `j` replaced by `b`, by the Leibniz formula -/
theorem det_updateCol_leibniz (X : Matrix n n S) (j : n) (b : n → S) :
    (X.updateCol j b).det = ∑ σ : Perm n, ((Perm.sign σ : ℤ) : S) * (b (σ j) * ∏ i ∈ univ.erase j, X (σ i) i) := by
  rw [det_apply']
  refine sum_congr rfl (fun σ _ => ?_)
  congr 1
  rw [← mul_prod_erase univ _ (mem_univ j), updateCol_self]
  congr 1
  refine prod_congr rfl (fun i hi => ?_)
  rw [updateCol_ne (ne_of_mem_erase hi)]

/-- Jacobi's formula without any invertibility assumption, in algebraic form: for every commutative ring,
`det (X + r dX) = det X + tr(adj(X) dX) r + O(r²)` -/
theorem det_tangent_adjugate (X dX : Matrix n n S) (r : S) :
    ∃ c : S, (X + r • dX).det = X.det + (X.adjugate * dX).trace * r + c * r ^ 2 := by
  choose c hc using fun σ : Perm n => prod_add_mul univ (fun i => X (σ i) i) (fun i => dX (σ i) i) r
  refine ⟨∑ σ : Perm n, ((Perm.sign σ : ℤ) : S) * c σ, ?_⟩
  have htr : (X.adjugate * dX).trace = ∑ j, (X.updateCol j (fun k => dX k j)).det := by
    unfold Matrix.trace
    refine sum_congr rfl (fun j _ => ?_)
    rw [diag_apply, ← cramer_apply, cramer_eq_adjugate_mulVec, mul_apply]
    rfl
  rw [htr, det_apply', det_apply']
  simp_rw [det_updateCol_leibniz]
  rw [sum_comm, sum_mul, sum_mul, ← sum_add_distrib, ← sum_add_distrib]
  refine sum_congr rfl (fun σ _ => ?_)
  have := hc σ
  simp only [Matrix.add_apply, Matrix.smul_apply, smul_eq_mul] at this ⊢
  rw [this, ← mul_sum]
  ring

/-- `pb_det` at any matrix (as a formula): `Xbar = ybar · adj(X)ᵀ` is the adjoint of the tangent `tr(adj(X) dX)` -/
theorem det_adjoint_adjugate (X dX : Matrix n n S) (ybar : S) :
    ybar * (X.adjugate * dX).trace = AV.MatPB.pair (ybar • X.adjugateᵀ) dX := by
  unfold AV.MatPB.pair
  rw [Matrix.transpose_smul, Matrix.transpose_transpose, Matrix.smul_mul, Matrix.trace_smul, smul_eq_mul]

/-- for an invertible matrix this is the LU-path formula `ybar · det X · (X⁻¹)ᵀ` of `det_adjoint` -/
theorem adjugate_eq_det_smul_inv (X Y : Matrix n n S) (hXY : X * Y = 1) : X.adjugate = X.det • Y := by
  have hYX : Y * X = 1 := mul_eq_one_comm.mp hXY
  calc X.adjugate = X.adjugate * (X * Y) := by rw [hXY, Matrix.mul_one]
    _ = (X.adjugate * X) * Y := by rw [Matrix.mul_assoc]
    _ = X.det • Y := by rw [Matrix.adjugate_mul, Matrix.smul_mul, Matrix.one_mul]

end AV.Jacobi
