import AlgopyVerif.Proofs.JetTrunc
import Mathlib.MeasureTheory.Integral.IntervalIntegral.FundThmCalculus
/-!
# Concrete antiderivatives: `erf`, `erfi`, Dawson's integral

Mathlib has none of the three; they are defined here by integrals so that the parametric theorems
(`erf_jet`, `erfi_jet`, `dawsn_jet`) apply to actual functions, and so that the ODE kernel has a
solution to be the jet of (needed for the truncation corollary).
-/
open Polynomial Filter Topology MeasureTheory
open scoped ContDiff

namespace AV

/-- `∫₀^y g` for continuous `g` has derivative `g y` -/
theorem hasDerivAt_integral_of_continuous (g : ℝ → ℝ) (hg : Continuous g) (y : ℝ) :
    HasDerivAt (fun z => ∫ s in (0:ℝ)..z, g s) (g y) y :=
  intervalIntegral.integral_hasDerivAt_right (hg.intervalIntegrable _ _)
    (hg.stronglyMeasurableAtFilter _ _) hg.continuousAt

theorem contDiff_integral_of_contDiff (g : ℝ → ℝ) (hg : ContDiff ℝ ∞ g) :
    ContDiff ℝ ∞ (fun z => ∫ s in (0:ℝ)..z, g s) := by
  rw [contDiff_infty_iff_deriv]
  refine ⟨fun y => (hasDerivAt_integral_of_continuous g hg.continuous y).differentiableAt, ?_⟩
  have : deriv (fun z => ∫ s in (0:ℝ)..z, g s) = g := by
    funext y; exact (hasDerivAt_integral_of_continuous g hg.continuous y).deriv
  rw [this]; exact hg

theorem contDiff_exp_sq : ContDiff ℝ ∞ (fun s : ℝ => Real.exp (s * s)) :=
  Real.contDiff_exp.comp (contDiff_id.mul contDiff_id)
theorem contDiff_exp_neg_sq : ContDiff ℝ ∞ (fun s : ℝ => Real.exp (-(s * s))) :=
  Real.contDiff_exp.comp (contDiff_id.mul contDiff_id).neg

/-- `c ∫₀^y exp(-s²) ds` (`erf` for `c = 2/√π`) -/
noncomputable def erfC (c : ℝ) : ℝ → ℝ := fun y => c * ∫ s in (0:ℝ)..y, Real.exp (-(s * s))
/-- `c ∫₀^y exp(s²) ds` (`erfi` for `c = 2/√π`) -/
noncomputable def erfiC (c : ℝ) : ℝ → ℝ := fun y => c * ∫ s in (0:ℝ)..y, Real.exp (s * s)
/-- Dawson's integral `exp(-y²) ∫₀^y exp(s²) ds` -/
noncomputable def dawsonF : ℝ → ℝ := fun y => Real.exp (-(y * y)) * ∫ s in (0:ℝ)..y, Real.exp (s * s)

theorem erfC_hasDerivAt (c y : ℝ) : HasDerivAt (erfC c) (c * Real.exp (-(y * y))) y :=
  (hasDerivAt_integral_of_continuous _ contDiff_exp_neg_sq.continuous y).const_mul c
theorem erfiC_hasDerivAt (c y : ℝ) : HasDerivAt (erfiC c) (c * Real.exp (y * y)) y :=
  (hasDerivAt_integral_of_continuous _ contDiff_exp_sq.continuous y).const_mul c
theorem erfC_contDiff (c : ℝ) : ContDiff ℝ ∞ (erfC c) :=
  contDiff_const.mul (contDiff_integral_of_contDiff _ contDiff_exp_neg_sq)
theorem erfiC_contDiff (c : ℝ) : ContDiff ℝ ∞ (erfiC c) :=
  contDiff_const.mul (contDiff_integral_of_contDiff _ contDiff_exp_sq)

theorem dawsonF_contDiff : ContDiff ℝ ∞ dawsonF :=
  contDiff_exp_neg_sq.mul (contDiff_integral_of_contDiff _ contDiff_exp_sq)

theorem dawsonF_hasDerivAt (y : ℝ) : HasDerivAt dawsonF (1 - 2 * y * dawsonF y) y := by
  have h1 : HasDerivAt (fun s : ℝ => Real.exp (-(s * s))) (Real.exp (-(y * y)) * -(1 * y + y * 1)) y :=
    (((hasDerivAt_id y).mul (hasDerivAt_id y)).neg).exp
  have h2 := hasDerivAt_integral_of_continuous _ contDiff_exp_sq.continuous y
  have h := h1.mul h2
  refine h.congr_deriv ?_
  unfold dawsonF
  have he : Real.exp (-(y * y)) * Real.exp (y * y) = 1 := by rw [← Real.exp_add]; simp
  linear_combination he

theorem dawsonF_zero : dawsonF 0 = 0 := by simp [dawsonF]

/-- `_erf` with the concrete antiderivative -/
theorem erfC_jet {x : List ℝ} {X : ℝ → ℝ} (hx : JetOf x X) (c : ℝ) :
    JetOf (erfS c (Real.exp (-(X 0 * X 0))) (erfC c (X 0)) x) (fun t => erfC c (X t)) :=
  erf_jet hx c (erfC c) (erfC_hasDerivAt c) (erfC_contDiff c).contDiffAt

theorem erfiC_jet {x : List ℝ} {X : ℝ → ℝ} (hx : JetOf x X) (c : ℝ) :
    JetOf (erfiS c (Real.exp (X 0 * X 0)) (erfiC c (X 0)) x) (fun t => erfiC c (X t)) :=
  erfi_jet hx c (erfiC c) (erfiC_hasDerivAt c) (erfiC_contDiff c).contDiffAt

theorem dawsonF_jet {x : List ℝ} {X : ℝ → ℝ} (hx : JetOf x X) :
    JetOf (dawsnS (dawsonF (X 0)) x) (fun t => dawsonF (X t)) :=
  dawsn_jet hx dawsonF dawsonF_hasDerivAt dawsonF_contDiff.contDiffAt

/-- the solution of `F' = 1 - 2yF` through `(a, v0)` -/
noncomputable def dawsonThrough (a v0 : ℝ) : ℝ → ℝ :=
  fun y => dawsonF y + (v0 - dawsonF a) * Real.exp (a * a) * Real.exp (-(y * y))

theorem dawsonThrough_at (a v0 : ℝ) : dawsonThrough a v0 a = v0 := by
  unfold dawsonThrough
  have he : Real.exp (a * a) * Real.exp (-(a * a)) = 1 := by rw [← Real.exp_add]; simp
  linear_combination (v0 - dawsonF a) * he

theorem dawsonThrough_hasDerivAt (a v0 y : ℝ) :
    HasDerivAt (dawsonThrough a v0) (1 - 2 * y * dawsonThrough a v0 y) y := by
  have h1 : HasDerivAt (fun s : ℝ => Real.exp (-(s * s))) (Real.exp (-(y * y)) * -(1 * y + y * 1)) y :=
    (((hasDerivAt_id y).mul (hasDerivAt_id y)).neg).exp
  have h := (dawsonF_hasDerivAt y).add (h1.const_mul ((v0 - dawsonF a) * Real.exp (a * a)))
  refine h.congr_deriv ?_
  unfold dawsonThrough
  ring

theorem dawsonThrough_contDiff (a v0 : ℝ) : ContDiff ℝ ∞ (dawsonThrough a v0) :=
  dawsonF_contDiff.add (contDiff_const.mul contDiff_exp_neg_sq)

/-- C12 for `_dawsn` over ℝ, for every leaf value `v0` -/
theorem dawsnS_take_co (v0 : ℝ) (x : List ℝ) (m : ℕ) (hm : m ≤ x.length) (d : ℕ) (hd : d < m) :
    co (dawsnS v0 (x.take m)) d = co (dawsnS v0 x) d := by
  have hx := jetOf_curve x
  have hpos : 0 < x.length := by omega
  have h0 : dawsonThrough (co x 0) v0 (curve x 0) = v0 := by rw [curve_zero]; exact dawsonThrough_at _ _
  have hfull := dawsn_jet hx (dawsonThrough (co x 0) v0) (dawsonThrough_hasDerivAt _ _)
    (dawsonThrough_contDiff _ _).contDiffAt
  have htr := dawsn_jet (hx.take m) (dawsonThrough (co x 0) v0) (dawsonThrough_hasDerivAt _ _)
    (dawsonThrough_contDiff _ _).contDiffAt
  rw [h0] at hfull htr
  have l1 : (dawsnS v0 x).length = x.length := by simp [dawsnS, odeS_length]
  have l2 : (dawsnS v0 (x.take m)).length = (x.take m).length := by simp [dawsnS, odeS_length]
  rw [htr.coeff d (by rw [l2, List.length_take]; omega), hfull.coeff d (by rw [l1]; omega)]

end AV
