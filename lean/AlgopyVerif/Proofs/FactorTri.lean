import AlgopyVerif.Proofs.Factor
/-!
# Triangular structure of the factors at every order

With `lt j i` read as "`(i, j)` lies strictly below the diagonal": under the step equations, `R_d` (QR) and `U_d` (LU)
are upper triangular, `L_d` (Cholesky) is lower triangular, and `L_d` (LU, `d ≥ 1`) is strictly lower triangular, so
`L(t)` has the unit diagonal `1 + 0 t + …`.
-/
open Matrix Finset

namespace AV.Factor
variable {n : Type} [Fintype n] [DecidableEq n] {K : Type} [Field K]

/-- upper triangular: zero strictly below the diagonal -/
def IsUpper (lt : n → n → Prop) (M : Matrix n n K) : Prop := ∀ i j, lt j i → M i j = 0
/-- lower triangular: zero strictly above the diagonal -/
def IsLower (lt : n → n → Prop) (M : Matrix n n K) : Prop := ∀ i j, lt i j → M i j = 0
/-- strictly lower triangular -/
def IsStrictLower (lt : n → n → Prop) (M : Matrix n n K) : Prop := ∀ i j, ¬ lt j i → M i j = 0

variable (lt : n → n → Prop)

theorem upper_mul_upper (hneg : ∀ i k j, lt j i → lt k i ∨ lt j k) (U V : Matrix n n K)
    (hU : IsUpper lt U) (hV : IsUpper lt V) : IsUpper lt (U * V) := by
  intro i j hij
  rw [Matrix.mul_apply]
  apply sum_eq_zero
  intro k _
  rcases hneg i k j hij with h | h
  · rw [hU i k h, zero_mul]
  · rw [hV k j h, mul_zero]

theorem lower_mul_lower (hneg : ∀ i k j, lt j i → lt k i ∨ lt j k) (L M : Matrix n n K)
    (hL : IsLower lt L) (hM : IsLower lt M) : IsLower lt (L * M) := by
  intro i j hij
  rw [Matrix.mul_apply]
  apply sum_eq_zero
  intro k _
  rcases hneg j k i hij with h | h
  · rw [hM k j h, mul_zero]
  · rw [hL i k h, zero_mul]

/-- lower × strictly lower has a zero diagonal -/
theorem lower_mul_strictLower_diag (L M : Matrix n n K) (hL : IsLower lt L) (hM : IsStrictLower lt M) (i : n) :
    (L * M) i i = 0 := by
  rw [Matrix.mul_apply]
  apply sum_eq_zero
  intro k _
  by_cases h : lt i k
  · rw [hL i k h, zero_mul]
  · rw [hM k i h, mul_zero]

variable [DecidableRel lt]

theorem PL_isStrictLower (M : Matrix n n K) : IsStrictLower lt (PL lt M) := fun i j h => PL_strict lt M i j h

theorem PL_isLower (hasym : ∀ i j, lt i j → ¬ lt j i) (M : Matrix n n K) : IsLower lt (PL lt M) :=
  fun i j h => PL_strict lt M i j (hasym i j h)

theorem PU_isUpper (M : Matrix n n K) : IsUpper lt (PU lt M) := fun i j h => PU_upper lt M i j h

theorem Phi_isLower (hasym : ∀ i j, lt i j → ¬ lt j i) (hirr : ∀ i, ¬ lt i i) (G : Matrix n n K) :
    IsLower lt (Phi lt G) := by
  intro i j h
  have hne : i ≠ j := fun e => hirr i (e ▸ h)
  simp [Phi, hasym i j h, hne]

/-- **QR: `R_d` is upper triangular** -/
theorem qr_R_upper (hneg : ∀ i k j, lt j i → lt k i ∨ lt j k) (hasym : ∀ i j, lt i j → ¬ lt j i)
    (A Q R : ℕ → Matrix n n K) (Rinv : Matrix n n K) (d : ℕ)
    (hinv : Rinv * R 0 = 1) (hR0 : IsUpper lt (R 0)) (st : QRStep lt A Q R Rinv d) : IsUpper lt (R d) := by
  have hfac : R d = ((Q 0)ᵀ * st.H * Rinv - (st.S + st.X)) * R 0 := by
    rw [st.hR, Matrix.sub_mul, Matrix.mul_assoc ((Q 0)ᵀ * st.H), hinv, Matrix.mul_one]
  rw [hfac]
  refine upper_mul_upper lt hneg _ _ ?_ hR0
  intro i j hij
  have hX : st.X i j = ((Q 0)ᵀ * st.H * Rinv - st.S) i j := by
    rw [st.hX, Matrix.sub_apply, Matrix.transpose_apply]
    simp [PL, hij, hasym j i hij]
  rw [Matrix.sub_apply, Matrix.add_apply, hX, Matrix.sub_apply]
  ring

/-- **Cholesky: `L_d` is lower triangular** -/
theorem chol_L_lower (hneg : ∀ i k j, lt j i → lt k i ∨ lt j k) (hasym : ∀ i j, lt i j → ¬ lt j i)
    (hirr : ∀ i, ¬ lt i i) (A L : ℕ → Matrix n n K) (L0inv : Matrix n n K) (d : ℕ)
    (hL0 : IsLower lt (L 0)) (st : CholStep lt A L L0inv d) : IsLower lt (L d) := by
  rw [st.hL]
  intro i j h
  rw [Matrix.neg_apply, lower_mul_lower lt hneg _ _ hL0 (Phi_isLower lt hasym hirr st.G) i j h, neg_zero]

/-- **LU: `U_d` is upper triangular** -/
theorem lu_U_upper (hneg : ∀ i k j, lt j i → lt k i ∨ lt j k) (B L U : ℕ → Matrix n n K) (L0inv U0inv : Matrix n n K)
    (d : ℕ) (hU0 : IsUpper lt (U 0)) (st : LUStep lt B L U L0inv U0inv d) : IsUpper lt (U d) := by
  rw [st.hU]; exact upper_mul_upper lt hneg _ _ (PU_isUpper lt st.F) hU0

/-- **LU: `L_d` (`d ≥ 1`) is lower triangular with zero diagonal** — `L(t)` has the unit diagonal `1 + 0t + …` -/
theorem lu_L_lower_unit (hneg : ∀ i k j, lt j i → lt k i ∨ lt j k) (hasym : ∀ i j, lt i j → ¬ lt j i)
    (B L U : ℕ → Matrix n n K) (L0inv U0inv : Matrix n n K)
    (d : ℕ) (hL0 : IsLower lt (L 0)) (st : LUStep lt B L U L0inv U0inv d) :
    IsLower lt (L d) ∧ ∀ i, L d i i = 0 := by
  rw [st.hL]
  exact ⟨lower_mul_lower lt hneg _ _ hL0 (PL_isLower lt hasym st.F),
    fun i => lower_mul_strictLower_diag lt _ _ hL0 (PL_isStrictLower lt st.F) i⟩

end AV.Factor
