import AlgopyVerif.Proofs.NdArray
/-!
# Lifting series-level statements to UTPM arrays (any `P`, any shape)

`mapS1` (element-wise unary functions) and `zipS2` (binary operators after UTPM-aware
broadcasting) act on each `(p, idx)` series separately.  Consequences: the L0 theorems
(C01, C02, C12) hold for every direction and every element, and directions do not
interact (C11).
-/
namespace AV
open NdArray
section
variable {K : Type} [Field K]
attribute [local instance] inh0

/-- series of `mapS1 f leaves x` at `(p, idx)` is `f` applied to the series of `x` there -/
theorem seriesAt_mapS1 (f : List K → List K → List K) (leaves : List (NdArray K)) (x : NdArray K)
    (D P : Nat) (s : List Nat) (hx : x.shape = D :: P :: s) (p : Nat) (idx : List Nat)
    (hp : p < P) (h : ValidIdx s idx) :
    seriesAt (mapS1 f leaves x) p idx
      = (List.range D).map fun d => co (f (leaves.map fun l => l.get (p :: idx)) (seriesAt x p idx)) d := by
  unfold mapS1
  have hD : utD x = D := by simp [utD, hx]
  have hP : utP x = P := by simp [utP, hx]
  have hS : utShape x = s := by simp [utShape, hx]
  rw [hD, hP, hS, seriesAt_ofSeries D P s _ p idx hp h]

/-- direction `p` of a UTPM array as a single-direction UTPM array -/
def dirOf (p : Nat) (x : NdArray K) : NdArray K :=
  ofFn (utD x :: 1 :: utShape x) fun i =>
    match i with
    | d :: _ :: idx => x.get (d :: p :: idx)
    | _ => 0

/-- direction `p` of a leaf array of shape `P :: s` -/
def dirLeaf (p : Nat) (l : NdArray K) : NdArray K :=
  ofFn (1 :: l.shape.drop 1) fun i =>
    match i with
    | _ :: idx => l.get (p :: idx)
    | _ => 0

theorem dirOf_shape (p : Nat) (x : NdArray K) (D P : Nat) (s : List Nat) (hx : x.shape = D :: P :: s) :
    (dirOf p x).shape = D :: 1 :: s := by
  simp [dirOf, ofFn, utD, utShape, hx]

theorem seriesAt_dirOf (p : Nat) (x : NdArray K) (D P : Nat) (s : List Nat) (hx : x.shape = D :: P :: s)
    (idx : List Nat) (h : ValidIdx s idx) :
    seriesAt (dirOf p x) 0 idx = seriesAt x p idx := by
  unfold seriesAt
  have hD : utD x = D := by simp [utD, hx]
  have hD' : utD (dirOf p x) = D := by simp [utD, dirOf_shape p x D P s hx]
  rw [hD, hD']
  apply List.map_congr_left
  intro d hd
  have hd' := List.mem_range.mp hd
  unfold dirOf
  have hS : utShape x = s := by simp [utShape, hx]
  rw [hD, hS, get_ofFn _ _ _ (validIdx_cons2 D 1 s idx d 0 hd' (by omega) h)]

theorem get_dirLeaf (p : Nat) (l : NdArray K) (P : Nat) (s : List Nat) (hl : l.shape = P :: s)
    (idx : List Nat) (h : ValidIdx s idx) : (dirLeaf p l).get (0 :: idx) = l.get (p :: idx) := by
  unfold dirLeaf
  have : l.shape.drop 1 = s := by simp [hl]
  rw [this, get_ofFn _ _ _ (show ValidIdx (1 :: s) (0 :: idx) from ⟨by omega, h⟩)]

/-- **direction independence of element-wise functions**: evaluating on direction `p` alone
gives the coefficients of direction `p` of the `P`-direction evaluation -/
theorem mapS1_direction (f : List K → List K → List K) (leaves : List (NdArray K)) (x : NdArray K)
    (D P : Nat) (s : List Nat) (hx : x.shape = D :: P :: s) (hl : ∀ l ∈ leaves, l.shape = P :: s)
    (p : Nat) (idx : List Nat) (hp : p < P) (h : ValidIdx s idx) :
    seriesAt (mapS1 f (leaves.map (dirLeaf p)) (dirOf p x)) 0 idx = seriesAt (mapS1 f leaves x) p idx := by
  rw [seriesAt_mapS1 f leaves x D P s hx p idx hp h,
    seriesAt_mapS1 f _ (dirOf p x) D 1 s (dirOf_shape p x D P s hx) 0 idx (by omega) h,
    seriesAt_dirOf p x D P s hx idx h]
  have : ((leaves.map (dirLeaf p)).map fun l => l.get (0 :: idx)) = leaves.map fun l => l.get (p :: idx) := by
    rw [List.map_map]
    apply List.map_congr_left
    intro l hlm
    exact get_dirLeaf p l P s (hl l hlm) idx h
  rw [this]

end
end AV

namespace AV
open NdArray
section
variable {K : Type} [Field K]
attribute [local instance] inh0

/-- element of a UTPM-broadcast operand: read the source at the collapsed index -/
theorem get_utBroadcastTo (x : NdArray K) (shape : List Nat) (i : List Nat) (h : ValidIdx shape i) :
    (utBroadcastTo x shape).get i = x.get (utBidx x.shape i) := by
  unfold utBroadcastTo
  rw [get_ofFn _ _ _ h]

theorem utBroadcastTo_shape (x : NdArray K) (shape : List Nat) : (utBroadcastTo x shape).shape = shape := by
  simp [utBroadcastTo, ofFn]

/-- **value law of the binary operators**: after UTPM-aware broadcasting to the common shape
`D :: P :: s`, the result series at `(p, idx)` is the series-level operation applied to the two
broadcast operand series there. -/
theorem seriesAt_zipS2 (f : List K → List K → List K) (x y z : NdArray K) (D P : Nat) (s : List Nat)
    (hb : utBroadcastShape x.shape y.shape = some (D :: P :: s)) (hz : zipS2 f x y = some z)
    (p : Nat) (idx : List Nat) (hp : p < P) (h : ValidIdx s idx) :
    z.shape = D :: P :: s ∧
    seriesAt z p idx = (List.range D).map fun d =>
      co (f (seriesAt (utBroadcastTo x (D :: P :: s)) p idx) (seriesAt (utBroadcastTo y (D :: P :: s)) p idx)) d := by
  unfold zipS2 at hz
  rw [hb] at hz
  simp only [Option.bind_eq_bind, Option.bind_some, Option.pure_def, Option.some.injEq,
    List.getD_cons_zero, List.getD_cons_succ, List.drop_succ_cons, List.drop_zero] at hz
  subst hz
  refine ⟨by simp [ofSeries, ofFn], ?_⟩
  rw [seriesAt_ofSeries D P s _ p idx hp h]

/-- series of a broadcast operand, element by element -/
theorem seriesAt_utBroadcastTo (x : NdArray K) (D P : Nat) (s : List Nat) (p : Nat) (idx : List Nat)
    (hp : p < P) (h : ValidIdx s idx) :
    seriesAt (utBroadcastTo x (D :: P :: s)) p idx
      = (List.range D).map fun d => x.get (utBidx x.shape (d :: p :: idx)) := by
  unfold seriesAt
  have hD : utD (utBroadcastTo x (D :: P :: s)) = D := by simp [utD, utBroadcastTo_shape]
  rw [hD]
  apply List.map_congr_left
  intro d hd
  rw [get_utBroadcastTo x _ _ (validIdx_cons2 D P s idx d p (List.mem_range.mp hd) hp h)]

/-- with equal `(D, P)` on both sides the direction index passes through broadcasting unchanged:
operand direction `p` only feeds result direction `p` (no flow between directions) -/
theorem utBidx_same_DP (D P : Nat) (sx : List Nat) (d p : Nat) (idx : List Nat) (hD : D ≠ 1) (hP : P ≠ 1) :
    utBidx (D :: P :: sx) (d :: p :: idx) = d :: p :: bidx sx idx := by
  simp [utBidx, hD, hP]

theorem utBidx_P1 (D : Nat) (sx : List Nat) (d : Nat) (idx : List Nat) (hD : D ≠ 1) :
    utBidx (D :: 1 :: sx) (d :: 0 :: idx) = d :: 0 :: bidx sx idx := by
  simp [utBidx, hD]

end
end AV

namespace AV
open NdArray
section
variable {K : Type} [Field K]
attribute [local instance] inh0

theorem utBidx_valid (D P : Nat) (sx : List Nat) (d p : Nat) (idx : List Nat) (hd : d < D) (hp : p < P) :
    utBidx (D :: P :: sx) (d :: p :: idx) = d :: p :: bidx sx idx := by
  have h1 : (if D = 1 then 0 else d) = d := by split <;> omega
  have h2 : (if P = 1 then 0 else p) = p := by split <;> omega
  simp [utBidx, h1, h2]

theorem utBroadcastShape_same (D P : Nat) (sx sy s : List Nat) (h : broadcastShapes sx sy = some s) :
    utBroadcastShape (D :: P :: sx) (D :: P :: sy) = some (D :: P :: s) := by
  unfold utBroadcastShape
  simp only [List.drop_succ_cons, List.drop_zero, h, List.take_succ_cons, List.take_zero]
  simp [broadcastShapes]

/-- **no flow between directions in a binary operator**: with `P` directions on both sides the
result series of direction `p` is computed from direction `p` of the operands only. -/
theorem seriesAt_zipS2_sameDP (f : List K → List K → List K) (x y z : NdArray K) (D P : Nat) (sx sy s : List Nat)
    (hx : x.shape = D :: P :: sx) (hy : y.shape = D :: P :: sy) (hs : broadcastShapes sx sy = some s)
    (hz : zipS2 f x y = some z) (p : Nat) (idx : List Nat) (hp : p < P) (h : ValidIdx s idx) :
    seriesAt z p idx = (List.range D).map fun d =>
      co (f ((List.range D).map fun d => x.get (d :: p :: bidx sx idx))
            ((List.range D).map fun d => y.get (d :: p :: bidx sy idx))) d := by
  have hb : utBroadcastShape x.shape y.shape = some (D :: P :: s) := by
    rw [hx, hy]; exact utBroadcastShape_same D P sx sy s hs
  rw [(seriesAt_zipS2 f x y z D P s hb hz p idx hp h).2,
    seriesAt_utBroadcastTo x D P s p idx hp h, seriesAt_utBroadcastTo y D P s p idx hp h]
  have ex : ((List.range D).map fun d => x.get (utBidx x.shape (d :: p :: idx)))
      = (List.range D).map fun d => x.get (d :: p :: bidx sx idx) := by
    apply List.map_congr_left
    intro d hd
    rw [hx, utBidx_valid D P sx d p idx (List.mem_range.mp hd) hp]
  have ey : ((List.range D).map fun d => y.get (utBidx y.shape (d :: p :: idx)))
      = (List.range D).map fun d => y.get (d :: p :: bidx sy idx) := by
    apply List.map_congr_left
    intro d hd
    rw [hy, utBidx_valid D P sy d p idx (List.mem_range.mp hd) hp]
  rw [ex, ey]

end
end AV
