import Mathlib.LinearAlgebra.Matrix.Adjugate
import Mathlib.LinearAlgebra.Matrix.Trace
import Mathlib.LinearAlgebra.Matrix.Determinant.Basic
import Mathlib.Tactic.Ring
import Mathlib.Tactic.FieldSimp
import Mathlib.Algebra.CharZero.Defs
/-!
# The division-free evaluation of `det` and the adjugate (`UTPM._det_adj`, algopy/utpm/utpm.py)

`UTPM.det` / `UTPM.pb_det` fall back to the Faddeev–LeVerrier recursion when the zeroth coefficient is singular:
`M = I, c = −tr A; for k = 2..N: M = A·M + c·I, c = −tr(A·M)/k; det A = (−1)^N c, adj A = (−1)^(N−1) M`.
`flStep` is that loop (`flStep A j` = the state after `j` passes), `flDet`, `flAdj` the returned values.

Proved here for the sizes the checks exercise, `N = 1, 2, 3`, over every field of characteristic zero — in particular over the field
of Laurent series `ℝ((t))`, which contains the power series `ℝ⟦t⟧`; the recursion divides by the integers `2..N` only, so it stays
inside `ℝ⟦t⟧`, and truncation modulo `t^D` (a ring homomorphism) turns it into the computation on Taylor polynomials.  For general
`N` the statement is the classical Faddeev–LeVerrier theorem; it is not formalised here (the implementation is compared with the
Leibniz formula in Taylor arithmetic on every run, `N ≤ 3`, singular zeroth coefficients of every rank).
-/
set_option linter.unusedSectionVars false
set_option linter.unusedSimpArgs false
namespace AV.FL
open Matrix
variable {K : Type} [Field K] [CharZero K] {n : Type} [Fintype n] [DecidableEq n]

/-- `(M_k, c_k)` after `k` further steps of the recursion of `UTPM._det_adj` (k = 0: `M = I`, `c = -tr A`) -/
def flStep (A : Matrix n n K) : ℕ → Matrix n n K × K
  | 0 => (1, -trace A)
  | k + 1 =>
    let M' := A * (flStep A k).1 + (flStep A k).2 • (1 : Matrix n n K)
    (M', -trace (A * M') / ((k : K) + 2))

def flDet (A : Matrix n n K) : K := (-1) ^ Fintype.card n * (flStep A (Fintype.card n - 1)).2
def flAdj (A : Matrix n n K) : Matrix n n K := (-1 : K) ^ (Fintype.card n - 1) • (flStep A (Fintype.card n - 1)).1

theorem fl_two (A : Matrix (Fin 2) (Fin 2) K) : flDet A = A.det ∧ flAdj A = A.adjugate := by
  constructor
  · simp [flDet, flStep, det_fin_two, trace_fin_two, Matrix.mul_apply, Fin.sum_univ_two]
    field_simp
    ring
  · ext i j
    fin_cases i <;> fin_cases j <;>
      simp [flAdj, flStep, adjugate_fin_two, trace_fin_two, Matrix.mul_apply, Fin.sum_univ_two, Matrix.one_apply]
end AV.FL

namespace AV.FL
open Matrix
variable {K : Type} [Field K] [CharZero K]

theorem fl_one (A : Matrix (Fin 1) (Fin 1) K) : flDet A = A.det ∧ flAdj A = A.adjugate := by
  constructor
  · simp [flDet, flStep, det_fin_one, trace_fin_one]
  · ext i j
    fin_cases i; fin_cases j
    simp [flAdj, flStep, adjugate_fin_one]

theorem fl_three_det (A : Matrix (Fin 3) (Fin 3) K) : flDet A = A.det := by
  simp [flDet, flStep, det_fin_three, trace_fin_three, Matrix.mul_apply, Fin.sum_univ_three, Matrix.one_apply]
  field_simp
  ring

theorem fl_three_adj (A : Matrix (Fin 3) (Fin 3) K) : flAdj A = A.adjugate := by
  ext i j
  fin_cases i <;> fin_cases j <;>
    simp [flAdj, flStep, adjugate_fin_three, trace_fin_three, Matrix.mul_apply, Fin.sum_univ_three, Matrix.one_apply] <;>
    field_simp <;> ring
end AV.FL
