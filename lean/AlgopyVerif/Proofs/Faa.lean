import AlgopyVerif.Proofs.Closure
/-!
# Faà di Bruno in power form, and `_eval_slow_generic`

For `X` smooth at 0, `a = X 0`, `h = X - a` and `f` smooth at `a`:

    tc (f ∘ X) i = Σ_{d ≤ n} f⁽ᵈ⁾(a)/d! · tc (h^d) i        for every n ≥ i.

`_eval_slow_generic` accumulates exactly these sums, with `accum` holding the coefficients of `h^d`.
-/
open Polynomial Filter Topology
open scoped ContDiff

namespace AV

/-- `f⁽ᵈ⁾(a) / d!` -/
noncomputable def tcAt (f : ℝ → ℝ) (a : ℝ) (d : ℕ) : ℝ := iteratedDeriv d f a / (d.factorial : ℝ)

theorem tcAt_succ (f : ℝ → ℝ) (a : ℝ) (e : ℕ) : tcAt f a (e + 1) * ((e + 1 : ℕ) : ℝ) = tcAt (deriv f) a e := by
  unfold tcAt
  rw [iteratedDeriv_succ', Nat.factorial_succ]
  have h1 : ((e.factorial : ℕ) : ℝ) ≠ 0 := by exact_mod_cast Nat.factorial_ne_zero e
  have h2 : ((e + 1 : ℕ) : ℝ) ≠ 0 := by exact_mod_cast Nat.succ_ne_zero e
  push_cast
  field_simp

/-- `h = X - X 0` -/
noncomputable def shift0 (X : ℝ → ℝ) : ℝ → ℝ := fun t => X t - X 0

theorem smooth0_shift0 {X : ℝ → ℝ} (hX : Smooth0 X) : Smooth0 (shift0 X) := hX.sub contDiffAt_const

theorem smooth0_pow {h : ℝ → ℝ} (hh : Smooth0 h) (e : ℕ) : Smooth0 (fun t => h t ^ e) := ContDiffAt.pow hh e

theorem deriv_shift0 {X : ℝ → ℝ} : deriv (shift0 X) = deriv X := by
  funext t
  unfold shift0
  exact deriv_sub_const (X 0)

theorem deriv_pow_eventually {h : ℝ → ℝ} (hh : Smooth0 h) (e : ℕ) :
    deriv (fun t => h t ^ (e + 1)) =ᶠ[𝓝 0] fun t => ((e + 1 : ℕ) : ℝ) * ((fun t => h t ^ e) * deriv h) t := by
  filter_upwards [eventually_differentiableAt_comp hh (contDiffAt_id (x := h 0))] with t ht
  have := ht.2.hasDerivAt.pow (e + 1)
  rw [show deriv (fun t => h t ^ (e + 1)) t = ((e + 1 : ℕ) : ℝ) * h t ^ (e + 1 - 1) * deriv h t from this.deriv]
  simp only [Pi.mul_apply, Nat.add_sub_cancel]
  ring

/-- Faà di Bruno, power form -/
theorem faa_power {X : ℝ → ℝ} (hX : Smooth0 X) :
    ∀ i n, i ≤ n → ∀ f : ℝ → ℝ, ContDiffAt ℝ ∞ f (X 0) →
      tc (fun t => f (X t)) i = ∑ d ∈ Finset.range (n + 1), tcAt f (X 0) d * tc (fun t => shift0 X t ^ d) i := by
  intro i
  induction i using Nat.strong_induction_on with
  | _ i ih =>
    intro n hn f hf
    have hh := smooth0_shift0 hX
    cases i with
    | zero =>
      rw [tc_zero, Finset.sum_range_succ']
      have hz : ∀ d ∈ Finset.range n, tcAt f (X 0) (d + 1) * tc (fun t => shift0 X t ^ (d + 1)) 0 = 0 := by
        intro d _
        rw [tc_zero]; simp [shift0]
      rw [Finset.sum_eq_zero hz, tc_zero]
      simp [tcAt]
    | succ i =>
      have hne : ((i + 1 : ℕ) : ℝ) ≠ 0 := by exact_mod_cast Nat.succ_ne_zero i
      obtain ⟨m, rfl⟩ : ∃ m, n = m + 1 := ⟨n - 1, by omega⟩
      apply mul_left_cancel₀ hne
      -- left side: Σ_j (Σ_e c_e(f') (h^e)_j) (h')_{i-j}
      rw [← tc_deriv, tc_congr (deriv_comp_eventually hX hf),
        tc_mul_at (smooth0_comp hX (contDiffAt_deriv_of hf)) hX.deriv]
      have hL : ∑ j ∈ Finset.range (i + 1), tc (fun t => deriv f (X t)) j * tc (deriv X) (i - j)
          = ∑ j ∈ Finset.range (i + 1), ∑ e ∈ Finset.range (m + 1),
              tcAt (deriv f) (X 0) e * tc (fun t => shift0 X t ^ e) j * tc (deriv X) (i - j) := by
        apply Finset.sum_congr rfl
        intro j hj
        have hj' := Finset.mem_range.mp hj
        rw [ih j hj' m (by omega) (deriv f) (contDiffAt_deriv_of hf), Finset.sum_mul]
      rw [hL, Finset.sum_comm]
      -- right side
      conv_rhs => rw [Finset.mul_sum, Finset.sum_range_succ']
      have h0 : ((i + 1 : ℕ) : ℝ) * (tcAt f (X 0) 0 * tc (fun t => shift0 X t ^ 0) (i + 1)) = 0 := by
        have : (fun t => shift0 X t ^ 0) = fun _ => (1:ℝ) := by funext t; simp
        rw [this, tc_const]; simp
      rw [h0, add_zero]
      apply Finset.sum_congr rfl
      intro e _
      have hd : ((i + 1 : ℕ) : ℝ) * tc (fun t => shift0 X t ^ (e + 1)) (i + 1)
          = ((e + 1 : ℕ) : ℝ) * ∑ j ∈ Finset.range (i + 1), tc (fun t => shift0 X t ^ e) j * tc (deriv X) (i - j) := by
        rw [← tc_deriv, tc_congr (deriv_pow_eventually hh e), tc_const_mul,
          tc_mul_at (smooth0_pow hh e) hh.deriv, deriv_shift0]
      calc ∑ j ∈ Finset.range (i + 1), tcAt (deriv f) (X 0) e * tc (fun t => shift0 X t ^ e) j * tc (deriv X) (i - j)
          = tcAt (deriv f) (X 0) e * ∑ j ∈ Finset.range (i + 1), tc (fun t => shift0 X t ^ e) j * tc (deriv X) (i - j) := by
            rw [Finset.mul_sum]; apply Finset.sum_congr rfl; intro j _; ring
        _ = tcAt f (X 0) (e + 1) * (((e + 1 : ℕ) : ℝ) * ∑ j ∈ Finset.range (i + 1), tc (fun t => shift0 X t ^ e) j * tc (deriv X) (i - j)) := by
            rw [← tcAt_succ]; ring
        _ = ((i + 1 : ℕ) : ℝ) * (tcAt f (X 0) (e + 1) * tc (fun t => shift0 X t ^ (e + 1)) (i + 1)) := by
            rw [← hd]; ring

/-! ## `_eval_slow_generic` -/

/-- coefficient `k+1` of `h^d` : what `accum[k]` holds while the `d`-th term is added -/
noncomputable def accC (X : ℝ → ℝ) (d k : ℕ) : ℝ := tc (fun t => shift0 X t ^ d) (k + 1)

theorem tc_shift0_zero (X : ℝ → ℝ) : tc (shift0 X) 0 = 0 := by rw [tc_zero]; simp [shift0]

theorem tc_shift0_succ {X : ℝ → ℝ} (hX : Smooth0 X) (k : ℕ) : tc (shift0 X) (k + 1) = tc X (k + 1) := by
  have e : shift0 X = X - fun _ => X 0 := rfl
  rw [e, tc_sub _ _ hX contDiffAt_const, tc_const]
  simp

theorem tc_pow_shift0_zero (X : ℝ → ℝ) (d : ℕ) (hd : 1 ≤ d) : tc (fun t => shift0 X t ^ d) 0 = 0 := by
  rw [tc_zero]
  have : shift0 X 0 = 0 := by simp [shift0]
  rw [this]
  exact zero_pow (by omega)

theorem accC_one {X : ℝ → ℝ} (hX : Smooth0 X) (k : ℕ) : accC X 1 k = tc X (k + 1) := by
  unfold accC
  have : (fun t => shift0 X t ^ 1) = shift0 X := by funext t; simp
  rw [this, tc_shift0_succ hX]

theorem accC_succ {X : ℝ → ℝ} (hX : Smooth0 X) (d : ℕ) (hd : 1 ≤ d) (k : ℕ) :
    accC X (d + 1) k = ∑ j ∈ Finset.range k, accC X d j * tc X (k - j) := by
  have hh := smooth0_shift0 hX
  unfold accC
  have e : (fun t => shift0 X t ^ (d + 1)) = (fun t => shift0 X t ^ d) * shift0 X := by
    funext t; simp only [Pi.mul_apply]; ring
  rw [e, tc_mul_at (smooth0_pow hh d) hh, Finset.sum_range_succ', tc_pow_shift0_zero X d hd, zero_mul, add_zero,
    Finset.sum_range_succ, Nat.sub_self]
  rw [tc_shift0_zero, mul_zero, add_zero]
  apply Finset.sum_congr rfl
  intro j hj
  have hj' := Finset.mem_range.mp hj
  have e2 : k + 1 - (j + 1) = (k - j - 1) + 1 := by omega
  rw [e2, tc_shift0_succ hX]
  congr 2
  omega

theorem fact_eq' (n : ℕ) : fact n = n.factorial := by
  induction n with
  | zero => rfl
  | succ n ih => rw [fact, ih, Nat.factorial_succ]

theorem co_drop_one (x : List ℝ) (k : ℕ) : co (x.drop 1) k = co x (k + 1) := by
  unfold co
  rw [List.getD_eq_getElem?_getD, List.getD_eq_getElem?_getD, List.getElem?_drop, Nat.add_comm]

/-- the state of `go` before term `m+1` is added -/
structure SGInv (derivs x : List ℝ) (X : ℝ → ℝ) (m : ℕ) (accum y : List ℝ) : Prop where
  acc : m = 0 ∨ (accum.length = x.length - 1 ∧ ∀ k, k < x.length - 1 → co accum k = accC X m k)
  len : y.length = x.length
  y0 : 0 < x.length → co y 0 = co derivs 0
  yi : ∀ i, 1 ≤ i → i < x.length →
    co y i = ∑ e ∈ Finset.range m, co derivs (e + 1) * accC X (e + 1) (i - 1) / (((e + 1).factorial : ℕ) : ℝ)

theorem go_spec {x : List ℝ} {X : ℝ → ℝ} (hx : JetOf x X) (derivs : List ℝ) :
    ∀ fuel m accum y, SGInv derivs x X m accum y →
      ∃ accum', SGInv derivs x X (m + fuel) accum' (slowGenericS.go derivs x x.length fuel (m + 1) accum y) := by
  intro fuel
  induction fuel with
  | zero => intro m accum y h; exact ⟨accum, by simpa [slowGenericS.go] using h⟩
  | succ fuel ih =>
    intro m accum y h
    rw [slowGenericS.go]
    set accum' := if m + 1 = 1 then x.drop 1 else accumNext x accum with hacc
    have hA : accum'.length = x.length - 1 ∧ ∀ k, k < x.length - 1 → co accum' k = accC X (m + 1) k := by
      by_cases hm : m = 0
      · subst hm
        simp only [zero_add, if_true] at hacc
        rw [hacc]
        refine ⟨by simp, fun k hk => ?_⟩
        rw [co_drop_one, accC_one hx.smooth, hx.coeff (k + 1) (by omega)]
      · have hm1 : ¬ (m + 1 = 1) := by omega
        rw [if_neg hm1] at hacc
        rcases h.acc with h0 | ⟨hl, hc⟩
        · exact absurd h0 hm
        · rw [hacc]
          refine ⟨by simp [accumNext, hl], fun k hk => ?_⟩
          unfold accumNext
          rw [co_map_range _ _ _ (by rw [hl]; exact hk), accC_succ hx.smooth m (by omega) k]
          by_cases hk0 : k = 0
          · subst hk0; simp
          · rw [if_neg hk0, sumRange_eq]
            simp only [Nat.sub_zero, Nat.zero_add]
            apply Finset.sum_congr rfl
            intro j hj
            have hj' := Finset.mem_range.mp hj
            rw [hc j (by omega), hx.coeff (k - j) (by omega)]
    have hnew : SGInv derivs x X (m + 1) accum'
        (List.map (fun i => if i = 0 then co y 0 else co y i + co derivs (m + 1) * co accum' (i - 1) / nat (fact (m + 1)))
          (List.range x.length)) := by
      refine ⟨Or.inr hA, by simp, ?_, ?_⟩
      · intro hl
        rw [co_map_range _ _ _ hl]; simp [h.y0 hl]
      · intro i hi1 hi
        rw [co_map_range _ _ _ hi, if_neg (by omega), h.yi i hi1 hi, Finset.sum_range_succ,
          hA.2 (i - 1) (by omega), nat_eq, fact_eq']
    obtain ⟨a'', hfin⟩ := ih (m + 1) accum' _ hnew
    refine ⟨a'', ?_⟩
    have e : m + (fuel + 1) = m + 1 + fuel := by omega
    rw [e]; exact hfin

/-- `_eval_slow_generic(f, x)` returns the jet of `f ∘ X` when `derivs[d] = f⁽ᵈ⁾(x₀)` -/
theorem slowGeneric_jet {x : List ℝ} {X : ℝ → ℝ} (hx : JetOf x X) (f : ℝ → ℝ) (hf : ContDiffAt ℝ ∞ f (X 0))
    (derivs : List ℝ) (hd : ∀ d, d < x.length → co derivs d = iteratedDeriv d f (X 0)) :
    JetOf (slowGenericS derivs x) (fun t => f (X t)) := by
  have hinit : SGInv derivs x X 0 [] (List.map (fun i => if i = 0 then co derivs 0 else 0) (List.range x.length)) := by
    refine ⟨Or.inl rfl, by simp, ?_, ?_⟩
    · intro hl
      rw [co_map_range _ _ _ hl]; simp
    · intro i hi1 hi
      rw [co_map_range _ _ _ hi, if_neg (by omega)]; simp
  obtain ⟨a, hfin⟩ := go_spec hx derivs (x.length - 1) 0 [] _ hinit
  have hres : slowGenericS derivs x
      = slowGenericS.go derivs x x.length (x.length - 1) (0 + 1) []
          (List.map (fun i => if i = 0 then co derivs 0 else 0) (List.range x.length)) := rfl
  rw [← hres] at hfin
  refine ⟨smooth0_comp hx.smooth hf, fun k hk => ?_⟩
  rw [hfin.len] at hk
  rw [faa_power hx.smooth k (x.length - 1) (by omega) f hf]
  have hN : x.length - 1 + 1 = x.length := by omega
  rw [hN]
  cases k with
  | zero =>
    rw [hfin.y0 hk, hd 0 hk]
    have hz : ∀ d ∈ Finset.range (x.length - 1), tcAt f (X 0) (d + 1) * tc (fun t => shift0 X t ^ (d + 1)) 0 = 0 := by
      intro d _
      rw [tc_pow_shift0_zero X (d + 1) (by omega), mul_zero]
    have hN' : x.length = x.length - 1 + 1 := by omega
    conv_rhs => rw [hN', Finset.sum_range_succ']
    rw [Finset.sum_eq_zero hz, tc_zero]
    simp [tcAt]
  | succ k =>
    rw [hfin.yi (k + 1) (by omega) hk]
    have hN' : x.length = x.length - 1 + 1 := by omega
    conv_rhs => rw [hN', Finset.sum_range_succ']
    have h0 : tcAt f (X 0) 0 * tc (fun t => shift0 X t ^ 0) (k + 1) = 0 := by
      have : (fun t => shift0 X t ^ 0) = fun _ => (1:ℝ) := by funext t; simp
      rw [this, tc_const]; simp
    rw [h0, add_zero, Nat.zero_add]
    apply Finset.sum_congr rfl
    intro e he
    have he' := Finset.mem_range.mp he
    rw [hd (e + 1) (by omega)]
    unfold tcAt accC
    simp only [Nat.add_sub_cancel]
    ring

theorem go_length (derivs x : List ℝ) : ∀ fuel d accum y, y.length = x.length →
    (slowGenericS.go derivs x x.length fuel d accum y).length = x.length := by
  intro fuel
  induction fuel with
  | zero => intro d accum y h; simpa [slowGenericS.go] using h
  | succ fuel ih =>
    intro d accum y h
    rw [slowGenericS.go]
    exact ih _ _ _ (by simp)

theorem slowGenericS_length (derivs x : List ℝ) : (slowGenericS derivs x).length = x.length :=
  go_length derivs x _ _ _ _ (by simp)

end AV
