import AlgopyVerif.Proofs.Jet
/-!
# Composite kernels: the black/white family (`expm1`, `log1p`, `logit`, `expit`, `erf`, `erfi`)

`_black_f_white_fprime(f, fprime_data, x_data)` integrates `y' = f'(x) x'` coefficient-wise, where
`fprime_data` was produced by other kernels.  With `JetOf` (closure of the kernel theorems under
composition, `Jet.lean`) each of these methods is proved to return the Taylor coefficients of the
composite.
-/
open Polynomial Filter Topology
open scoped ContDiff

namespace AV

/-! ### closure of the basic kernels -/
theorem expS_length (y0 : ℝ) (x : List ℝ) : (expS y0 x).length = x.length := by simp [expS, build_length]
theorem recipS_length (x : List ℝ) : (recipS x).length = x.length := by simp [recipS, build_length]
theorem plusConstS_length (x : List ℝ) (c : ℝ) : (plusConstS x c).length = x.length := by simp [plusConstS]
theorem subS_length (x y : List ℝ) : (subS x y).length = x.length := by simp [subS]
theorem negS_length (x : List ℝ) : (negS x).length = x.length := by simp [negS]
theorem scaleS_length (c : ℝ) (x : List ℝ) : (scaleS c x).length = x.length := by simp [scaleS]
theorem blackWhiteS_length (f0 : ℝ) (fp x : List ℝ) : (blackWhiteS f0 fp x).length = x.length := by
  simp [blackWhiteS]

theorem JetOf.exp {x : List ℝ} {X : ℝ → ℝ} (hx : JetOf x X) :
    JetOf (expS (Real.exp (X 0)) x) (fun t => Real.exp (X t)) :=
  hx.of_kernel Real.exp Real.contDiff_exp.contDiffAt (expS_length _ _) (fun d hd => by
    rw [← hx.zero (by omega)]; exact exp_taylor x d hd)

theorem JetOf.recip {x : List ℝ} {X : ℝ → ℝ} (hx : JetOf x X) (h0 : X 0 ≠ 0) :
    JetOf (recipS x) (fun t => (X t)⁻¹) :=
  hx.of_kernel (fun y => y⁻¹) (contDiffAt_inv ℝ h0) (recipS_length _) (fun d hd => by
    exact recip_taylor x (by rw [hx.zero (by omega)]; exact h0) d hd)

/-! ### `_black_f_white_fprime` -/
theorem blackWhiteS_zero (f0 : ℝ) (fp x : List ℝ) (h : 0 < x.length) : co (blackWhiteS f0 fp x) 0 = f0 := by
  unfold blackWhiteS
  rw [co_map_range _ _ _ h]
  simp

theorem blackWhiteS_succ (f0 : ℝ) (fp x : List ℝ) (d : ℕ) (h : d + 1 < x.length) :
    ((d + 1 : ℕ) : ℝ) * co (blackWhiteS f0 fp x) (d + 1)
      = ∑ c ∈ Finset.range (d + 1), co fp (d - c) * co x (c + 1) * ((c + 1 : ℕ) : ℝ) := by
  have hne : ((d + 1 : ℕ) : ℝ) ≠ 0 := by exact_mod_cast Nat.succ_ne_zero d
  unfold blackWhiteS
  rw [co_map_range _ _ _ h]
  simp only [Nat.succ_ne_zero, if_false, sumRange_eq, Nat.sub_zero, Nat.zero_add, nat_eq, Nat.add_sub_cancel]
  rw [mul_div_cancel₀ _ hne]

theorem JetOf.blackWhite {x fp : List ℝ} {X W Y : ℝ → ℝ} (hx : JetOf x X) (hw : JetOf fp W)
    (hl : fp.length = x.length) (hY : Smooth0 Y) (hode : deriv Y =ᶠ[𝓝 0] W * deriv X) :
    JetOf (blackWhiteS (Y 0) fp x) Y :=
  ⟨hY, fun k hk => by
    rw [blackWhiteS_length] at hk
    cases k with
    | zero => rw [blackWhiteS_zero _ _ _ hk, tc_zero]
    | succ d =>
      have hne : ((d + 1 : ℕ) : ℝ) ≠ 0 := by exact_mod_cast Nat.succ_ne_zero d
      apply mul_left_cancel₀ hne
      rw [blackWhiteS_succ _ _ _ d hk, ← tc_deriv, tc_congr hode, tc_mul_at hw.smooth hx.smooth.deriv,
        ← Finset.sum_range_reflect]
      apply Finset.sum_congr rfl
      intro c hc
      have hc' := Finset.mem_range.mp hc
      have e1 : d + 1 - 1 - c = d - c := by omega
      have e2 : d - (d - c) = c := by omega
      rw [e1, e2, tc_deriv, hw.coeff c (by omega), hx.coeff (d - c + 1) (by omega)]
      ring⟩

/-! ### expm1 -/
theorem expm1_jet {x : List ℝ} {X : ℝ → ℝ} (hx : JetOf x X) :
    JetOf (expm1S (Real.exp (X 0)) (Real.exp (X 0) - 1) x) (fun t => Real.exp (X t) - 1) := by
  have hY : Smooth0 (fun t => Real.exp (X t) - 1) := (hx.exp.smooth).sub contDiffAt_const
  have hode : deriv (fun t => Real.exp (X t) - 1) =ᶠ[𝓝 0] (fun t => Real.exp (X t)) * deriv X := by
    filter_upwards [eventually_differentiableAt_comp hx.smooth (Real.contDiff_exp.contDiffAt (x := X 0))] with t ht
    have := (ht.2.hasDerivAt.exp).sub_const (1:ℝ)
    rw [this.deriv]; rfl
  have := JetOf.blackWhite hx hx.exp (expS_length _ _) hY hode
  simpa [expm1S] using this

/-! ### log1p (`1 + x₀ ≠ 0`) -/
theorem log1p_jet {x : List ℝ} {X : ℝ → ℝ} (hx : JetOf x X) (h0 : X 0 + 1 ≠ 0) :
    JetOf (log1pS (Real.log (X 0 + 1)) x) (fun t => Real.log (X t + 1)) := by
  have hP := hx.plusConst 1
  have hW := hP.recip (by simpa using h0)
  have hY : Smooth0 (fun t => Real.log (X t + 1)) := ContDiffAt.log hP.smooth (by simpa using h0)
  have hne : ∀ᶠ t in 𝓝 (0:ℝ), X t + 1 ≠ 0 := hP.smooth.continuousAt.eventually_ne (by simpa using h0)
  have hode : deriv (fun t => Real.log (X t + 1)) =ᶠ[𝓝 0] (fun t => (X t + 1)⁻¹) * deriv X := by
    filter_upwards [eventually_differentiableAt_comp hx.smooth (contDiffAt_id (x := X 0)), hne] with t ht hn
    have := ((ht.2.hasDerivAt.add_const (1:ℝ))).log hn
    rw [this.deriv]
    simp only [Pi.mul_apply]
    field_simp
  have := JetOf.blackWhite hx hW (by rw [recipS_length, plusConstS_length]) hY hode
  simpa [log1pS] using this

/-! ### logit (`x₀ ≠ 0`, `x₀ ≠ 1`): `logit x = log x - log (1 - x)`, `logit' = 1 / (x - x²)` -/
theorem logit_jet {x : List ℝ} {X : ℝ → ℝ} (hx : JetOf x X) (h0 : X 0 ≠ 0) (h1 : 1 - X 0 ≠ 0) :
    JetOf (logitS (Real.log (X 0) - Real.log (1 - X 0)) x) (fun t => Real.log (X t) - Real.log (1 - X t)) := by
  have hS := hx.sub hx.square (squareS_length x)
  have hd0 : (X - X * X) 0 ≠ 0 := by
    simp only [Pi.sub_apply, Pi.mul_apply]
    have : X 0 - X 0 * X 0 = X 0 * (1 - X 0) := by ring
    rw [this]; exact mul_ne_zero h0 h1
  have hW := hS.recip hd0
  have h1s : Smooth0 (fun t => 1 - X t) := contDiffAt_const.sub hx.smooth
  have hY : Smooth0 (fun t => Real.log (X t) - Real.log (1 - X t)) :=
    (ContDiffAt.log hx.smooth h0).sub (ContDiffAt.log h1s h1)
  have hne : ∀ᶠ t in 𝓝 (0:ℝ), X t ≠ 0 ∧ 1 - X t ≠ 0 :=
    (hx.smooth.continuousAt.eventually_ne h0).and (h1s.continuousAt.eventually_ne h1)
  have hode : deriv (fun t => Real.log (X t) - Real.log (1 - X t))
      =ᶠ[𝓝 0] (fun t => ((X - X * X) t)⁻¹) * deriv X := by
    filter_upwards [eventually_differentiableAt_comp hx.smooth (contDiffAt_id (x := X 0)), hne] with t ht hn
    have hX := ht.2.hasDerivAt
    have := (hX.log hn.1).sub ((hX.const_sub (1:ℝ)).log hn.2)
    rw [show deriv (fun t => Real.log (X t) - Real.log (1 - X t)) t
        = deriv X t / X t - -deriv X t / (1 - X t) from this.deriv]
    simp only [Pi.mul_apply, Pi.sub_apply]
    have hprod : X t - X t * X t ≠ 0 := by
      have : X t - X t * X t = X t * (1 - X t) := by ring
      rw [this]; exact mul_ne_zero hn.1 hn.2
    have ha := hn.1
    have hb := hn.2
    have hprod' : X t - X t ^ 2 ≠ 0 := by rwa [pow_two]
    have e : (X t - X t * X t)⁻¹ = (X t)⁻¹ + (1 - X t)⁻¹ := by
      field_simp
      ring
    rw [e]
    ring
  have := JetOf.blackWhite hx hW (by rw [recipS_length, subS_length]) hY hode
  simpa [logitS] using this

/-! ### expit: `expit x = 1 / (1 + exp (-x))`; the code uses `b = 1/(exp x + 1)`, `f' = b - b²` -/
theorem expit_jet {x : List ℝ} {X : ℝ → ℝ} (hx : JetOf x X) :
    JetOf (expitS (Real.exp (X 0)) ((1 + Real.exp (-(X 0)))⁻¹) x) (fun t => (1 + Real.exp (-(X t)))⁻¹) := by
  have hE := hx.exp
  have hP := hE.plusConst 1
  have hpos : ∀ t, Real.exp (X t) + 1 ≠ 0 := fun t => by positivity
  have hB := hP.recip (hpos 0)
  have hF := hB.sub hB.square (squareS_length _)
  have hpos' : ∀ t, 1 + Real.exp (-(X t)) ≠ 0 := fun t => by positivity
  have hY : Smooth0 (fun t => (1 + Real.exp (-(X t)))⁻¹) :=
    ContDiffAt.inv (contDiffAt_const.add ((Real.contDiff_exp.contDiffAt).comp 0 hx.smooth.neg)) (hpos' 0)
  have hode : deriv (fun t => (1 + Real.exp (-(X t)))⁻¹)
      =ᶠ[𝓝 0] ((fun t => (Real.exp (X t) + 1)⁻¹) - (fun t => (Real.exp (X t) + 1)⁻¹) * fun t => (Real.exp (X t) + 1)⁻¹) * deriv X := by
    filter_upwards [eventually_differentiableAt_comp hx.smooth (contDiffAt_id (x := X 0))] with t ht
    have hX := ht.2.hasDerivAt
    have := ((hX.neg.exp).const_add (1:ℝ)).inv (hpos' t)
    rw [show deriv (fun t => (1 + Real.exp (-(X t)))⁻¹) t
        = -(Real.exp (-(X t)) * -deriv X t) / (1 + Real.exp (-(X t))) ^ 2 from this.deriv]
    simp only [Pi.mul_apply, Pi.sub_apply]
    have h1 := hpos t
    have h2 := hpos' t
    have he : Real.exp (-(X t)) = (Real.exp (X t))⁻¹ := Real.exp_neg _
    have hep : Real.exp (X t) ≠ 0 := (Real.exp_pos _).ne'
    rw [he] at h2 ⊢
    field_simp
    ring
  have := JetOf.blackWhite hx hF (by rw [subS_length, recipS_length, plusConstS_length, expS_length]) hY hode
  simpa [expitS] using this

/-! ### erf / erfi, for any antiderivative `E` of `c · exp(∓y²)` (Mathlib has no `erf`):
the leaf `f0 = E(x₀)` is SciPy's value, `c = 2/√π` -/
theorem erf_jet {x : List ℝ} {X : ℝ → ℝ} (hx : JetOf x X) (c : ℝ) (E : ℝ → ℝ)
    (hE : ∀ y, HasDerivAt E (c * Real.exp (-(y * y))) y) (hEs : ContDiffAt ℝ ∞ E (X 0)) :
    JetOf (erfS c (Real.exp (-(X 0 * X 0))) (E (X 0)) x) (fun t => E (X t)) := by
  have hQ := hx.square.neg
  have hEx := hQ.exp
  have hW := hEx.scale c
  have hode : deriv (fun t => E (X t)) =ᶠ[𝓝 0] (fun t => c * Real.exp ((-(X * X)) t)) * deriv X := by
    filter_upwards [eventually_differentiableAt_comp hx.smooth (contDiffAt_id (x := X 0))] with t ht
    have := (hE (X t)).comp t ht.2.hasDerivAt
    have h2 : deriv (fun t => E (X t)) t = c * Real.exp (-(X t * X t)) * deriv X t := this.deriv
    rw [h2]; rfl
  have := JetOf.blackWhite hx hW (by rw [scaleS_length, expS_length, negS_length, squareS_length])
    (smooth0_comp hx.smooth hEs) hode
  simpa [erfS] using this

theorem erfi_jet {x : List ℝ} {X : ℝ → ℝ} (hx : JetOf x X) (c : ℝ) (E : ℝ → ℝ)
    (hE : ∀ y, HasDerivAt E (c * Real.exp (y * y)) y) (hEs : ContDiffAt ℝ ∞ E (X 0)) :
    JetOf (erfiS c (Real.exp (X 0 * X 0)) (E (X 0)) x) (fun t => E (X t)) := by
  have hQ := hx.square
  have hEx := hQ.exp
  have hW := hEx.scale c
  have hode : deriv (fun t => E (X t)) =ᶠ[𝓝 0] (fun t => c * Real.exp ((X * X) t)) * deriv X := by
    filter_upwards [eventually_differentiableAt_comp hx.smooth (contDiffAt_id (x := X 0))] with t ht
    have := (hE (X t)).comp t ht.2.hasDerivAt
    have h2 : deriv (fun t => E (X t)) t = c * Real.exp (X t * X t) * deriv X t := this.deriv
    rw [h2]; rfl
  have := JetOf.blackWhite hx hW (by rw [scaleS_length, expS_length, squareS_length])
    (smooth0_comp hx.smooth hEs) hode
  simpa [erfiS] using this

end AV
