import Mathlib.RingTheory.PowerSeries.Basic
import Mathlib.RingTheory.Ideal.Quotient.Defs
import Mathlib.RingTheory.Ideal.Span
import Mathlib.LinearAlgebra.Matrix.NonsingularInverse
import Mathlib.Algebra.BigOperators.NatAntidiagonal
/-!
# Wide QR (`UTPM._qr` with `M < N`, algorithms.py): `A = [A1 A2]`, `(Q, R1) = qr(A1)` (square), `R2 = Qᵀ A2`

`R2` is the *polynomial* product `Q(t)ᵀ A2(t)` (`_dot`), so `Q(t) R2(t) = A2(t)` needs `Q(t) Q(t)ᵀ = 1` as polynomials
modulo `t^D`, which follows from `Q(t)ᵀ Q(t) = 1` (the orthogonality theorem of the square step) because square matrices over
the commutative ring `K⟦X⟧ / (X^D)` with a left inverse have a right inverse.  The proof moves the coefficient sequences into
matrices over that ring, where rectangular products are associative, and reads the coefficients back.
-/
open Matrix PowerSeries Finset
set_option linter.unusedSimpArgs false

namespace AV.Factor
variable {K : Type} [Field K]

section
variable {m n : Type}
/-- the matrix of power series whose coefficients are the matrices `F d` -/
noncomputable def serM (F : ℕ → Matrix m n K) : Matrix m n K⟦X⟧ := Matrix.of fun i j => PowerSeries.mk fun d => F d i j

theorem coeff_serM (F : ℕ → Matrix m n K) (d : ℕ) (i : m) (j : n) : coeff d (serM F i j) = F d i j := by
  simp [serM, coeff_mk]
end

variable {m n l : Type} [Fintype l]

theorem coeff_serM_mul (F : ℕ → Matrix m l K) (G : ℕ → Matrix l n K) (d : ℕ) (i : m) (j : n) :
    coeff d ((serM F * serM G) i j) = (∑ p ∈ antidiagonal d, F p.1 * G p.2) i j := by
  rw [Matrix.mul_apply, map_sum, Matrix.sum_apply]
  simp_rw [coeff_mul, Matrix.mul_apply]
  rw [Finset.sum_comm]
  refine Finset.sum_congr rfl fun p _ => Finset.sum_congr rfl fun x _ => ?_
  rw [coeff_serM, coeff_serM]

/-- agreement of all coefficients below `D` = equality in `K⟦X⟧ / (X^D)` -/
theorem mk_eq_iff (D : ℕ) (φ ψ : K⟦X⟧) :
    Ideal.Quotient.mk (Ideal.span {(X : K⟦X⟧) ^ D}) φ = Ideal.Quotient.mk (Ideal.span {(X : K⟦X⟧) ^ D}) ψ
      ↔ ∀ d, d < D → coeff d φ = coeff d ψ := by
  rw [Ideal.Quotient.eq, Ideal.mem_span_singleton, X_pow_dvd_iff]
  constructor
  · intro h d hd; have := h d hd; rwa [map_sub, sub_eq_zero] at this
  · intro h d hd; rw [map_sub, sub_eq_zero]; exact h d hd

variable [Fintype n] [DecidableEq n]

/-- **wide QR**: with `Q(t)ᵀ Q(t) = 1` modulo `t^D` (square `Q`) and `R2 = Q(t)ᵀ A2(t)` modulo `t^D`, `Q(t) R2(t) = A2(t)`
modulo `t^D` -/
theorem qr_wide_eq (Q : ℕ → Matrix n n K) (A2 R2 : ℕ → Matrix n l K) (D : ℕ)
    (hQ : ∀ d, d < D → ∑ p ∈ antidiagonal d, (Q p.1)ᵀ * Q p.2 = if d = 0 then 1 else 0)
    (hR : ∀ d, d < D → R2 d = ∑ p ∈ antidiagonal d, (Q p.1)ᵀ * A2 p.2) (d : ℕ) (hd : d < D) :
    ∑ p ∈ antidiagonal d, Q p.1 * R2 p.2 = A2 d := by
  set I := Ideal.span {(X : K⟦X⟧) ^ D} with hI
  set π := Ideal.Quotient.mk I with hπ
  let Qt : ℕ → Matrix n n K := fun d => (Q d)ᵀ
  have hQt : serM Qt = (serM Q)ᵀ := by ext i j; simp [serM, Qt]
  -- Qᵀ Q = 1 in the quotient
  have h1 : ((serM Q)ᵀ * serM Q).map π = 1 := by
    ext i j
    rw [Matrix.map_apply, ← hQt]
    have : π ((1 : Matrix n n K⟦X⟧) i j) = (1 : Matrix n n (K⟦X⟧ ⧸ I)) i j := by
      simp only [Matrix.one_apply]
      split <;> simp
    rw [← this, hπ, mk_eq_iff]
    intro e he
    rw [coeff_serM_mul, hQ e he]
    simp only [Matrix.one_apply]
    by_cases h0 : e = 0
    · subst h0
      by_cases h : i = j
      · simp [h, Matrix.one_apply]
      · simp [h, Matrix.one_apply]
    · by_cases h : i = j
      · simp [h, h0, Matrix.one_apply, coeff_one]
      · simp [h, h0, Matrix.one_apply]
  have h1' : ((serM Q).map π)ᵀ * (serM Q).map π = 1 := by
    rw [← h1, Matrix.map_mul, Matrix.transpose_map]
  have h2 : (serM Q).map π * ((serM Q).map π)ᵀ = 1 := mul_eq_one_comm.mp h1'
  -- R2 = Qᵀ A2 in the quotient
  have h3 : (serM R2).map π = ((serM Q).map π)ᵀ * (serM A2).map π := by
    rw [← Matrix.transpose_map, ← Matrix.map_mul]
    ext i j
    rw [Matrix.map_apply, Matrix.map_apply, hπ, mk_eq_iff, ← hQt]
    intro e he
    rw [coeff_serM, coeff_serM_mul, hR e he]
  have h4 : (serM Q * serM R2).map π = (serM A2).map π := by
    rw [Matrix.map_mul, h3, ← Matrix.mul_assoc, h2, Matrix.one_mul]
  ext i j
  have := congrFun (congrFun h4 i) j
  rw [Matrix.map_apply, Matrix.map_apply, hπ, mk_eq_iff] at this
  have h5 := this d hd
  rw [coeff_serM_mul, coeff_serM] at h5
  exact h5

/-- the same statement with the sums written over `range (d + 1)`, as in the square and tall theorems -/
theorem qr_wide_eq_range (Q : ℕ → Matrix n n K) (A2 R2 : ℕ → Matrix n l K) (D : ℕ)
    (hQ : ∀ d, d < D → ∑ k ∈ range (d + 1), (Q k)ᵀ * Q (d - k) = if d = 0 then 1 else 0)
    (hR : ∀ d, d < D → R2 d = ∑ k ∈ range (d + 1), (Q k)ᵀ * A2 (d - k)) (d : ℕ) (hd : d < D) :
    ∑ k ∈ range (d + 1), Q k * R2 (d - k) = A2 d := by
  rw [← Finset.Nat.sum_antidiagonal_eq_sum_range_succ (fun i j => Q i * R2 j)]
  refine qr_wide_eq Q A2 R2 D ?_ ?_ d hd
  · intro e he
    rw [Finset.Nat.sum_antidiagonal_eq_sum_range_succ (fun i j => (Q i)ᵀ * Q j)]
    exact hQ e he
  · intro e he
    rw [Finset.Nat.sum_antidiagonal_eq_sum_range_succ (fun i j => (Q i)ᵀ * A2 j)]
    exact hR e he

end AV.Factor
