import Mathlib.Data.Matrix.Basic
import Mathlib.LinearAlgebra.Matrix.NonsingularInverse
import Mathlib.Algebra.BigOperators.Intervals
import Mathlib.Tactic.NoncommRing
import Mathlib.Tactic.Abel
import Mathlib.Tactic.Ring
import Mathlib.Tactic.FieldSimp
/-!
# Order-by-order factorization kernels: the step equations imply the defining identities

`Step…` structures state what one pass of the `for D in range(1, DT)` loop of `_qr_rectangular`
(square case) / `_cholesky` computes at order `d`; the theorems derive the order-`d` coefficient of the
defining polynomial identity.
-/
open Matrix
namespace AV.Factor
variable {n : Type} [Fintype n] [DecidableEq n] {K : Type} [Field K]

theorem sum_split (f : ℕ → Matrix n n K) (d : ℕ) (hd : 1 ≤ d) :
    ∑ k ∈ Finset.range (d + 1), f k = f 0 + f d + ∑ k ∈ Finset.Ico 1 d, f k := by
  rw [Finset.sum_range_succ, Finset.range_eq_Ico, Finset.sum_eq_sum_Ico_succ_bot (by omega)]
  abel

/-! ## QR (square case of `_qr_rectangular`, algorithms.py:1741-1790) -/

/-- strictly-lower mask `PL`, given a decidable order relation `lt` on indices -/
def PL (lt : n → n → Prop) [DecidableRel lt] (M : Matrix n n K) : Matrix n n K :=
  Matrix.of fun i j => if lt j i then M i j else 0

structure QRStep (lt : n → n → Prop) [DecidableRel lt]
    (A Q R : ℕ → Matrix n n K) (Rinv : Matrix n n K) (d : ℕ) where
  H : Matrix n n K
  S : Matrix n n K
  X : Matrix n n K
  hH : H = A d - ∑ k ∈ Finset.Ico 1 d, Q k * R (d - k)
  hS : S = (2 : K)⁻¹ • (-(∑ k ∈ Finset.Ico 1 d, (Q k)ᵀ * Q (d - k)))
  hX : X = PL lt ((Q 0)ᵀ * H * Rinv - S) - (PL lt ((Q 0)ᵀ * H * Rinv - S))ᵀ
  hR : R d = (Q 0)ᵀ * H - (S + X) * R 0
  hQ : Q d = Q 0 * (S + X)

/-- `Q·R = A` at order `d` -/
theorem qr_eq (lt : n → n → Prop) [DecidableRel lt] (A Q R : ℕ → Matrix n n K) (Rinv : Matrix n n K)
    (d : ℕ) (hd : 1 ≤ d) (h0 : (Q 0)ᵀ * Q 0 = 1) (st : QRStep lt A Q R Rinv d) :
    ∑ k ∈ Finset.range (d + 1), Q k * R (d - k) = A d := by
  have h0' : Q 0 * (Q 0)ᵀ = 1 := mul_eq_one_comm.mp h0
  rw [sum_split _ d hd]
  simp only [Nat.sub_zero, Nat.sub_self]
  have hsum : ∑ k ∈ Finset.Ico 1 d, Q k * R (d - k) = A d - st.H := by rw [st.hH]; abel
  rw [hsum, st.hR, st.hQ]
  have : Q 0 * ((Q 0)ᵀ * st.H - (st.S + st.X) * R 0) = st.H - Q 0 * (st.S + st.X) * R 0 := by
    rw [Matrix.mul_sub, ← Matrix.mul_assoc, h0', Matrix.one_mul, Matrix.mul_assoc]
  rw [this]
  abel

theorem sum_Ico_symm (Q : ℕ → Matrix n n K) (d : ℕ) :
    (∑ k ∈ Finset.Ico 1 d, (Q k)ᵀ * Q (d - k))ᵀ = ∑ k ∈ Finset.Ico 1 d, (Q k)ᵀ * Q (d - k) := by
  rw [Matrix.transpose_sum]
  simp only [Matrix.transpose_mul, Matrix.transpose_transpose]
  apply Finset.sum_bij' (fun k _ => d - k) (fun k _ => d - k)
  · intro k hk; simp only [Finset.mem_Ico] at hk ⊢; omega
  · intro k hk; simp only [Finset.mem_Ico] at hk ⊢; omega
  · intro k hk; simp only [Finset.mem_Ico] at hk; omega
  · intro k hk; simp only [Finset.mem_Ico] at hk; omega
  · intro k hk
    simp only [Finset.mem_Ico] at hk
    have : d - (d - k) = k := by omega
    rw [this]

/-- `QᵀQ = I` at order `d ≥ 1` (the order-`d` coefficient of `QᵀQ` vanishes) -/
theorem qtq_eq [CharZero K] (lt : n → n → Prop) [DecidableRel lt] (A Q R : ℕ → Matrix n n K) (Rinv : Matrix n n K)
    (d : ℕ) (hd : 1 ≤ d) (h0 : (Q 0)ᵀ * Q 0 = 1) (st : QRStep lt A Q R Rinv d) :
    ∑ k ∈ Finset.range (d + 1), (Q k)ᵀ * Q (d - k) = 0 := by
  rw [sum_split _ d hd]
  simp only [Nat.sub_zero, Nat.sub_self]
  set G := ∑ k ∈ Finset.Ico 1 d, (Q k)ᵀ * Q (d - k) with hG
  have hGs : Gᵀ = G := sum_Ico_symm Q d
  have hS : st.S = (2 : K)⁻¹ • (-G) := st.hS
  have hSs : st.Sᵀ = st.S := by rw [hS]; simp [Matrix.transpose_smul, Matrix.transpose_neg, hGs]
  have hXa : st.Xᵀ = -st.X := by
    rw [st.hX]; simp [Matrix.transpose_sub]
  have h2 : G = -((2 : K) • st.S) := by
    rw [hS, smul_smul, mul_inv_cancel₀ (two_ne_zero), one_smul, neg_neg]
  rw [st.hQ, Matrix.transpose_mul, Matrix.mul_assoc, ← Matrix.mul_assoc (Q 0)ᵀ, h0, Matrix.one_mul,
    Matrix.mul_one, Matrix.transpose_add, hSs, hXa]
  rw [h2, two_smul]
  abel

/-! ## Cholesky (`_cholesky`, algorithms.py:1511-1563) -/

/-- the projection `Proj ∘ G`: strictly lower part plus half the diagonal -/
def Phi (lt : n → n → Prop) [DecidableRel lt] (G : Matrix n n K) : Matrix n n K :=
  Matrix.of fun i j => if lt j i then G i j else if i = j then (2 : K)⁻¹ * G i j else 0

/-- for a symmetric `G` and a strict total order on the indices, `Φ(G) + Φ(G)ᵀ = G` -/
theorem Phi_add_transpose [CharZero K] (lt : n → n → Prop) [DecidableRel lt]
    (htri : ∀ i j, lt i j ∨ i = j ∨ lt j i) (hasym : ∀ i j, lt i j → ¬ lt j i) (hirr : ∀ i, ¬ lt i i)
    (G : Matrix n n K) (hG : Gᵀ = G) : Phi lt G + (Phi lt G)ᵀ = G := by
  ext i j
  have hsym : G j i = G i j := by
    have := congrFun (congrFun hG i) j
    simpa [Matrix.transpose_apply] using this
  simp only [Phi, Matrix.add_apply, Matrix.of_apply, Matrix.transpose_apply]
  rcases htri i j with h | h | h
  · have h' : ¬ lt j i := hasym i j h
    have hne : ¬ (i = j) := by intro e; subst e; exact hirr i h
    have hne' : ¬ (j = i) := fun e => hne e.symm
    simp [h, h', hne, hne', hsym]
  · subst h
    simp [hirr i]
    field_simp
    ring
  · have h' : ¬ lt i j := hasym j i h
    have hne : ¬ (i = j) := by intro e; subst e; exact hirr i h
    have hne' : ¬ (j = i) := fun e => hne e.symm
    simp [h, h', hne, hne']

structure CholStep (lt : n → n → Prop) [DecidableRel lt]
    (A L : ℕ → Matrix n n K) (L0inv : Matrix n n K) (d : ℕ) where
  dF : Matrix n n K
  G : Matrix n n K
  hdF : dF = (∑ k ∈ Finset.Ico 1 d, L (d - k) * (L k)ᵀ) - A d
  hG : G = L0inv * dF * L0invᵀ
  hL : L d = -(L 0 * Phi lt G)

/-- `L·Lᵀ = A` at order `d` -/
theorem chol_eq [CharZero K] (lt : n → n → Prop) [DecidableRel lt]
    (htri : ∀ i j, lt i j ∨ i = j ∨ lt j i) (hasym : ∀ i j, lt i j → ¬ lt j i) (hirr : ∀ i, ¬ lt i i)
    (A L : ℕ → Matrix n n K) (L0inv : Matrix n n K) (d : ℕ) (hd : 1 ≤ d)
    (hinv : L 0 * L0inv = 1) (hA : (A d)ᵀ = A d) (st : CholStep lt A L L0inv d) :
    ∑ k ∈ Finset.range (d + 1), L k * (L (d - k))ᵀ = A d := by
  have hinv' : L0invᵀ * (L 0)ᵀ = 1 := by
    rw [← Matrix.transpose_mul, hinv, Matrix.transpose_one]
  -- the middle sum is symmetric, hence dF and G are
  have hsumT : (∑ k ∈ Finset.Ico 1 d, L (d - k) * (L k)ᵀ)ᵀ = ∑ k ∈ Finset.Ico 1 d, L (d - k) * (L k)ᵀ := by
    rw [Matrix.transpose_sum]
    simp only [Matrix.transpose_mul, Matrix.transpose_transpose]
    apply Finset.sum_bij' (fun k _ => d - k) (fun k _ => d - k)
    · intro k hk; simp only [Finset.mem_Ico] at hk ⊢; omega
    · intro k hk; simp only [Finset.mem_Ico] at hk ⊢; omega
    · intro k hk; simp only [Finset.mem_Ico] at hk; omega
    · intro k hk; simp only [Finset.mem_Ico] at hk; omega
    · intro k hk
      simp only [Finset.mem_Ico] at hk
      have : d - (d - k) = k := by omega
      rw [this]
  have hdFT : st.dFᵀ = st.dF := by rw [st.hdF, Matrix.transpose_sub, hsumT, hA]
  have hGT : st.Gᵀ = st.G := by
    rw [st.hG, Matrix.transpose_mul, Matrix.transpose_mul, Matrix.transpose_transpose, hdFT, Matrix.mul_assoc]
  have hPhi := Phi_add_transpose lt htri hasym hirr st.G hGT
  -- reindex the middle sum
  have hmid : ∑ k ∈ Finset.Ico 1 d, L k * (L (d - k))ᵀ = st.dF + A d := by
    have : ∑ k ∈ Finset.Ico 1 d, L k * (L (d - k))ᵀ = ∑ k ∈ Finset.Ico 1 d, L (d - k) * (L k)ᵀ := by
      apply Finset.sum_bij' (fun k _ => d - k) (fun k _ => d - k)
      · intro k hk; simp only [Finset.mem_Ico] at hk ⊢; omega
      · intro k hk; simp only [Finset.mem_Ico] at hk ⊢; omega
      · intro k hk; simp only [Finset.mem_Ico] at hk; omega
      · intro k hk; simp only [Finset.mem_Ico] at hk; omega
      · intro k hk
        simp only [Finset.mem_Ico] at hk
        have : d - (d - k) = k := by omega
        rw [this]
    rw [this, st.hdF]; abel
  rw [sum_split _ d hd]
  simp only [Nat.sub_zero, Nat.sub_self]
  rw [hmid, st.hL]
  have hLGL : L 0 * st.G * (L 0)ᵀ = st.dF := by
    rw [st.hG]
    calc L 0 * (L0inv * st.dF * L0invᵀ) * (L 0)ᵀ
        = (L 0 * L0inv) * st.dF * (L0invᵀ * (L 0)ᵀ) := by simp only [Matrix.mul_assoc]
      _ = st.dF := by rw [hinv, hinv', Matrix.one_mul, Matrix.mul_one]
  have e1 : L 0 * (-(L 0 * Phi lt st.G))ᵀ + -(L 0 * Phi lt st.G) * (L 0)ᵀ
      = -(L 0 * (Phi lt st.G + (Phi lt st.G)ᵀ) * (L 0)ᵀ) := by
    simp only [Matrix.transpose_neg, Matrix.transpose_mul, Matrix.mul_neg, Matrix.neg_mul, Matrix.mul_add,
      Matrix.add_mul, Matrix.mul_assoc]
    abel
  rw [e1, hPhi, hLGL]
  abel

/-! ## LU (`UTPM.lu2` / `UTPM.lu`, utpm.py): `dF = Wᵀ A_d − Σ_{1≤i<d} L_{d-i} U_i`,
`F = L₀⁻¹ dF U₀⁻¹`, `U_d = triu(F) U₀`, `L_d = L₀ tril(F, -1)` -/

/-- upper part including the diagonal -/
def PU (lt : n → n → Prop) [DecidableRel lt] (M : Matrix n n K) : Matrix n n K :=
  Matrix.of fun i j => if lt j i then 0 else M i j

theorem PL_add_PU (lt : n → n → Prop) [DecidableRel lt] (M : Matrix n n K) : PL lt M + PU lt M = M := by
  ext i j
  simp only [PL, PU, Matrix.add_apply, Matrix.of_apply]
  split <;> simp

structure LUStep (lt : n → n → Prop) [DecidableRel lt]
    (B L U : ℕ → Matrix n n K) (L0inv U0inv : Matrix n n K) (d : ℕ) where
  dF : Matrix n n K
  F : Matrix n n K
  hdF : dF = B d - ∑ k ∈ Finset.Ico 1 d, L (d - k) * U k
  hF : F = L0inv * dF * U0inv
  hU : U d = PU lt F * U 0
  hL : L d = L 0 * PL lt F

/-- `L·U = Wᵀ A` at order `d` (`B = Wᵀ A` is the row-permuted input) -/
theorem lu_eq (lt : n → n → Prop) [DecidableRel lt] (B L U : ℕ → Matrix n n K) (L0inv U0inv : Matrix n n K)
    (d : ℕ) (hd : 1 ≤ d) (hL0 : L 0 * L0inv = 1) (hU0 : U0inv * U 0 = 1) (st : LUStep lt B L U L0inv U0inv d) :
    ∑ k ∈ Finset.range (d + 1), L k * U (d - k) = B d := by
  rw [sum_split _ d hd]
  simp only [Nat.sub_zero, Nat.sub_self]
  have hsum : ∑ k ∈ Finset.Ico 1 d, L k * U (d - k) = B d - st.dF := by
    rw [st.hdF]
    have : ∑ k ∈ Finset.Ico 1 d, L k * U (d - k) = ∑ k ∈ Finset.Ico 1 d, L (d - k) * U k := by
      apply Finset.sum_bij' (fun k _ => d - k) (fun k _ => d - k)
      · intro k hk; simp only [Finset.mem_Ico] at hk ⊢; omega
      · intro k hk; simp only [Finset.mem_Ico] at hk ⊢; omega
      · intro k hk; simp only [Finset.mem_Ico] at hk; omega
      · intro k hk; simp only [Finset.mem_Ico] at hk; omega
      · intro k hk
        simp only [Finset.mem_Ico] at hk
        have : d - (d - k) = k := by omega
        rw [this]
    rw [this]; abel
  have hmain : L 0 * U d + L d * U 0 = st.dF := by
    rw [st.hU, st.hL]
    calc L 0 * (PU lt st.F * U 0) + L 0 * PL lt st.F * U 0
        = L 0 * (PL lt st.F + PU lt st.F) * U 0 := by
          simp only [Matrix.mul_add, Matrix.add_mul, Matrix.mul_assoc]; rw [add_comm]
      _ = L 0 * st.F * U 0 := by rw [PL_add_PU]
      _ = (L 0 * L0inv) * st.dF * (U0inv * U 0) := by rw [st.hF]; simp only [Matrix.mul_assoc]
      _ = st.dF := by rw [hL0, hU0, Matrix.one_mul, Matrix.mul_one]
  rw [hsum, hmain]
  abel

/-- triangularity is preserved: `U_d` is upper and `L_d` strictly lower when `U₀` is upper, `L₀` lower -/
theorem PL_strict (lt : n → n → Prop) [DecidableRel lt] (M : Matrix n n K) (i j : n) (h : ¬ lt j i) :
    PL lt M i j = 0 := by simp [PL, h]
theorem PU_upper (lt : n → n → Prop) [DecidableRel lt] (M : Matrix n n K) (i j : n) (h : lt j i) :
    PU lt M i j = 0 := by simp [PU, h]

end AV.Factor
