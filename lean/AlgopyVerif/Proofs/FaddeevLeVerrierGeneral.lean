import AlgopyVerif.Proofs.JacobiGeneral
import Mathlib.LinearAlgebra.Matrix.Charpoly.Basic
import Mathlib.Algebra.Polynomial.Taylor
import Mathlib.RingTheory.MatrixPolynomialAlgebra
import Mathlib.LinearAlgebra.Matrix.Charpoly.Coeff
import AlgopyVerif.Proofs.FaddeevLeVerrier

/-!
# The Faddeev–LeVerrier recursion computes determinant and adjugate (every size)

`UTPM._det_adj` (algopy/utpm/utpm.py): `M = I, c = −tr A; for k = 2..N: M = A·M + c·I, c = −tr(A·M)/k`, then
`det A = (−1)^N c`, `adj A = (−1)^(N−1) M` — the branch `det` / `pb_det` take when the zeroth coefficient is singular.

Proof, for every commutative ring `R` up to the last step: let `b_k` be the coefficient matrices of `adj(X·1 − A)` and `p_k` the
coefficients of the characteristic polynomial.
* `(X·1 − A)·adj(X·1 − A) = χ_A·1` gives `b_k = A b_{k+1} + p_{k+1}·1`, `A b_0 = −p_0·1` (`bco_rec`, `bco_zero`) and `b_k = 0` for `k ≥ N`;
* `χ_A' = tr adj(X·1 − A)` (`derivative_charpoly`) — from Jacobi's formula without invertibility (`Proofs/JacobiGeneral.lean`)
  applied over `R[X][Y]` to the substitution `X ↦ X + Y` — gives `tr b_k = (k+1) p_{k+1}`, hence `tr(A b_k) = −(N−k) p_k`;
* so over a field of characteristic zero the recursion walks down these coefficients: after `j` passes
  `(M, c) = (b_{N−1−j}, p_{N−1−j})` (`flStep_eq`), and `p_0 = (−1)^N det A`, `b_0 = (−1)^(N−1) adj A` (`fl_general`).
-/
set_option linter.unusedSectionVars false
set_option linter.unusedSimpArgs false
namespace AV.FLgen
open Matrix Polynomial
variable {R : Type} [CommRing R] {n : Type} [Fintype n] [DecidableEq n]

/-- the substitution `X ↦ Y + X`: `R[X] → R[X][Y]` -/
noncomputable def shiftHom : R[X] →+* R[X][X] :=
  (Polynomial.taylorAlgHom (X : R[X])).toRingHom.comp (Polynomial.mapRingHom (C : R →+* R[X]))

theorem shiftHom_coeff_one (p : R[X]) : (shiftHom p).coeff 1 = derivative p := by
  unfold shiftHom
  simp only [RingHom.coe_comp, Function.comp_apply, AlgHom.toRingHom_eq_coe, RingHom.coe_coe, coe_mapRingHom]
  change ((taylor X) (Polynomial.map C p)).coeff 1 = derivative p
  rw [taylor_coeff_one, derivative_map, eval_map, eval₂_C_X]

theorem shiftHom_X : shiftHom (X : R[X]) = X + C X := by
  unfold shiftHom
  simp [taylor_apply]

theorem shiftHom_C (a : R) : shiftHom (C a : R[X]) = C (C a) := by
  unfold shiftHom
  simp [taylor_apply]

theorem shiftHom_coeff_zero (p : R[X]) : (shiftHom p).coeff 0 = p := by
  unfold shiftHom
  simp only [RingHom.coe_comp, Function.comp_apply, AlgHom.toRingHom_eq_coe, RingHom.coe_coe, coe_mapRingHom]
  change ((taylor X) (Polynomial.map C p)).coeff 0 = p
  rw [taylor_coeff_zero, eval_map, eval₂_C_X]


theorem charmatrix_map_shift (A : Matrix n n R) :
    (charmatrix A).map shiftHom = (charmatrix A).map C + (X : R[X][X]) • (1 : Matrix n n R[X][X]) := by
  ext i j
  by_cases h : i = j
  · subst h
    simp [charmatrix_apply, shiftHom_X, shiftHom_C, Matrix.map_apply]
    ring
  · simp [charmatrix_apply, shiftHom_C, Matrix.map_apply, h]

/-- the derivative of the characteristic polynomial is the trace of the adjugate of the characteristic matrix -/
theorem derivative_charpoly (A : Matrix n n R) :
    derivative A.charpoly = (adjugate (charmatrix A)).trace := by
  have hdet : shiftHom A.charpoly = ((charmatrix A).map shiftHom).det := by
    rw [Matrix.charpoly, RingHom.map_det]
    rfl
  obtain ⟨c, hc⟩ := AV.Jacobi.det_tangent_adjugate ((charmatrix A).map (C : R[X] →+* R[X][X])) 1 (X : R[X][X])
  rw [← charmatrix_map_shift, ← hdet] at hc
  have h1 := congrArg (fun q => q.coeff 1) hc
  simp only [shiftHom_coeff_one] at h1
  rw [h1]
  have hM : ((charmatrix A).map (C : R[X] →+* R[X][X])).det = C A.charpoly := by
    rw [Matrix.charpoly, RingHom.map_det]; rfl
  have hadj : ((charmatrix A).map (C : R[X] →+* R[X][X])).adjugate = (adjugate (charmatrix A)).map C := by
    rw [← RingHom.mapMatrix_apply, ← RingHom.map_adjugate]; rfl
  rw [hM, hadj, Matrix.mul_one]
  have htr : ((adjugate (charmatrix A)).map (C : R[X] →+* R[X][X])).trace = C (adjugate (charmatrix A)).trace := by
    simp [Matrix.trace, Matrix.map_apply, map_sum]
  rw [htr]
  have hc2 : (c * X ^ 2).coeff 1 = 0 := by rw [coeff_mul_X_pow']; simp
  simp [coeff_C, hc2]


/-- coefficient matrices of `adj(X·1 − A)` -/
noncomputable def bco (A : Matrix n n R) (k : ℕ) : Matrix n n R := (matPolyEquiv (adjugate (charmatrix A))).coeff k

theorem charmatrix_mul_adj (A : Matrix n n R) :
    ((X : (Matrix n n R)[X]) - C A) * matPolyEquiv (adjugate (charmatrix A)) = A.charpoly.map (algebraMap R (Matrix n n R)) := by
  have h : charmatrix A * adjugate (charmatrix A) = A.charpoly • (1 : Matrix n n R[X]) := mul_adjugate _
  apply_fun matPolyEquiv at h
  rw [map_mul, matPolyEquiv_charmatrix, matPolyEquiv_smul_one] at h
  exact h

/-- `b_k = A b_{k+1} + p_{k+1} I` -/
theorem bco_rec (A : Matrix n n R) (k : ℕ) :
    bco A k = A * bco A (k + 1) + A.charpoly.coeff (k + 1) • (1 : Matrix n n R) := by
  have h := congrArg (fun q => q.coeff (k + 1)) (charmatrix_mul_adj A)
  simp only [sub_mul, coeff_sub, coeff_X_mul, coeff_C_mul, coeff_map] at h
  unfold bco
  rw [Algebra.algebraMap_eq_smul_one] at h
  rw [← h]; abel

/-- `A b_0 = −p_0 I` -/
theorem bco_zero (A : Matrix n n R) : A * bco A 0 = -(A.charpoly.coeff 0 • (1 : Matrix n n R)) := by
  have h := congrArg (fun q => q.coeff 0) (charmatrix_mul_adj A)
  simp only [sub_mul, coeff_sub, coeff_C_mul, coeff_map, mul_coeff_zero, coeff_X_zero, zero_mul, zero_sub] at h
  unfold bco
  rw [Algebra.algebraMap_eq_smul_one] at h
  rw [← h]; simp

/-- `tr b_k = (k+1) p_{k+1}` -/
theorem trace_bco (A : Matrix n n R) (k : ℕ) :
    (bco A k).trace = A.charpoly.coeff (k + 1) * ((k : R) + 1) := by
  have h := congrArg (fun q => q.coeff k) (derivative_charpoly A)
  simp only [coeff_derivative] at h
  rw [h]
  unfold bco Matrix.trace
  simp only [Matrix.diag_apply, matPolyEquiv_coeff_apply, finsetSum_coeff]


theorem charpoly_coeff_card (A : Matrix n n R) : A.charpoly.coeff (Fintype.card n) = 1 := by
  nontriviality R
  have := (charpoly_monic A).coeff_natDegree
  rwa [charpoly_natDegree_eq_dim] at this

theorem charpoly_coeff_gt (A : Matrix n n R) (k : ℕ) (hk : Fintype.card n < k) : A.charpoly.coeff k = 0 := by
  nontriviality R
  apply coeff_eq_zero_of_natDegree_lt
  rwa [charpoly_natDegree_eq_dim]

/-- `b_k = 0` for `k ≥ N` -/
theorem bco_vanish (A : Matrix n n R) : ∀ (d k : ℕ), Fintype.card n ≤ k →
    (matPolyEquiv (adjugate (charmatrix A))).natDegree < k + d → bco A k = 0 := by
  intro d
  induction d with
  | zero =>
    intro k _ h
    exact coeff_eq_zero_of_natDegree_lt (by simpa using h)
  | succ d ih =>
    intro k hk h
    rw [bco_rec, ih (k + 1) (by omega) (by omega), charpoly_coeff_gt A (k + 1) (by omega)]
    simp

theorem bco_card (A : Matrix n n R) : bco A (Fintype.card n) = 0 :=
  bco_vanish A ((matPolyEquiv (adjugate (charmatrix A))).natDegree + 1) _ le_rfl (by omega)

/-- `b_0 = (−1)^(N−1) adj A` -/
theorem bco_zero_eq (A : Matrix n n R) : bco A 0 = (-1 : R) ^ (Fintype.card n - 1) • adjugate A := by
  have h1 : bco A 0 = (adjugate (charmatrix A)).map (evalRingHom 0) := by
    ext i j
    simp [bco, matPolyEquiv_coeff_apply, coeff_zero_eq_eval_zero]
  have h2 : (charmatrix A).map (evalRingHom (0 : R)) = -A := by
    ext i j
    by_cases h : i = j <;> simp [charmatrix_apply, h]
  rw [h1, ← RingHom.mapMatrix_apply, RingHom.map_adjugate, RingHom.mapMatrix_apply, h2]
  have : (-A) = (-1 : R) • A := by simp
  rw [this, adjugate_smul]


section field
variable {K : Type} [Field K] [CharZero K]
open AV.FL

/-- `tr(A b_k) = −(N − k) p_k` for `k ≤ N` -/
theorem trace_mul_bco (A : Matrix n n K) (k : ℕ) (hk : k ≤ Fintype.card n) :
    (A * bco A k).trace = -(((Fintype.card n - k : ℕ) : K)) * A.charpoly.coeff k := by
  cases k with
  | zero =>
    rw [bco_zero, Matrix.trace_neg, Matrix.trace_smul, Matrix.trace_one]
    simp [mul_comm]
  | succ k =>
    have h1 := congrArg Matrix.trace (bco_rec A k)
    rw [Matrix.trace_add, Matrix.trace_smul, Matrix.trace_one, trace_bco] at h1
    have hc : ((Fintype.card n - (k + 1) : ℕ) : K) = (Fintype.card n : K) - ((k : K) + 1) := by
      rw [Nat.cast_sub hk]; push_cast; ring
    rw [hc]
    simp only [smul_eq_mul] at h1
    linear_combination -h1

/-- **the Faddeev–LeVerrier recursion computes the coefficient matrices of `adj(X·1 − A)` and the coefficients of the
characteristic polynomial**: after `j` passes `(M, c) = (b_{N−1−j}, p_{N−1−j})` -/
theorem flStep_eq (A : Matrix n n K) : ∀ j, j + 1 ≤ Fintype.card n →
    flStep A j = (bco A (Fintype.card n - 1 - j), A.charpoly.coeff (Fintype.card n - 1 - j)) := by
  intro j
  induction j with
  | zero =>
    intro hN
    have hb : bco A (Fintype.card n - 1) = 1 := by
      have := bco_rec A (Fintype.card n - 1)
      rw [Nat.sub_add_cancel hN, bco_card, charpoly_coeff_card] at this
      simpa using this
    have ht := trace_mul_bco A (Fintype.card n - 1) (Nat.sub_le _ _)
    rw [hb, Matrix.mul_one, Nat.sub_sub_self hN] at ht
    simp only [flStep, Nat.sub_zero, hb]
    congr 1
    simp only [Nat.cast_one, neg_mul, one_mul] at ht
    rw [ht]; ring
  | succ j ih =>
    intro hN
    have ih' := ih (by omega)
    have hk : Fintype.card n - 1 - j = (Fintype.card n - 1 - (j + 1)) + 1 := by omega
    have hM : A * (flStep A j).1 + (flStep A j).2 • (1 : Matrix n n K) = bco A (Fintype.card n - 1 - (j + 1)) := by
      rw [ih']
      simp only
      rw [hk, ← bco_rec]
    have ht := trace_mul_bco A (Fintype.card n - 1 - (j + 1)) (by omega)
    have hcast : ((Fintype.card n - (Fintype.card n - 1 - (j + 1)) : ℕ) : K) = (j : K) + 2 := by
      have : Fintype.card n - (Fintype.card n - 1 - (j + 1)) = j + 2 := by omega
      rw [this]; push_cast; ring
    rw [hcast] at ht
    have hne : ((j : K) + 2) ≠ 0 := by
      have : ((j + 2 : ℕ) : K) ≠ 0 := Nat.cast_ne_zero.mpr (by omega)
      simpa using this
    simp only [flStep]
    rw [hM, ht]
    congr 1
    field_simp

/-- the recursion returns the determinant and the adjugate, every size `N ≥ 1` -/
theorem fl_general [Nonempty n] (A : Matrix n n K) : flDet A = A.det ∧ flAdj A = A.adjugate := by
  have hN : 0 + 1 ≤ Fintype.card n := Fintype.card_pos
  have h := flStep_eq A (Fintype.card n - 1) (by omega)
  have h0 : Fintype.card n - 1 - (Fintype.card n - 1) = 0 := by omega
  rw [h0] at h
  constructor
  · rw [flDet, h, det_eq_sign_charpoly_coeff]
  · rw [flAdj, h, bco_zero_eq, smul_smul, ← mul_pow]
    simp
end field

end AV.FLgen
