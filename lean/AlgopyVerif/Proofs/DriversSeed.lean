import AlgopyVerif.Proofs.Drivers
import AlgopyVerif.Proofs.Build
import Mathlib.Data.List.GetD
/-!
# The seed table of `init_hessian` for every `N`

`hessDirs N` is the concatenation of blocks `n = 0 … N-1`, block `n` holding the `n+1` directions
`e_n, e_n + e_{n-1}, …, e_n + e_0`.  Position of `e_n`: `hessA n = n(n+1)/2`; of `e_n + e_m` (`m < n`):
`hessK n m = (n+1)(n+2)/2 - m - 1 = hessA n + (n - m)` — the index arithmetic of `extract_hessian`.
-/
namespace AV

theorem hessA_succ (n : ℕ) : hessA (n + 1) = hessA n + (n + 1) := by
  unfold hessA
  have : (n + 1) * (n + 1 + 1) = n * (n + 1) + 2 * (n + 1) := by ring
  rw [this, Nat.add_mul_div_left _ _ (by norm_num : 0 < 2)]

theorem hessK_eq (n m : ℕ) (h : m < n) : hessK n m = hessA n + (n - m) := by
  unfold hessK
  have := hessA_succ n
  unfold hessA at this ⊢
  rw [this]
  omega

/-- generic: `k`-th element of block `n` in a `flatMap` whose block `n'` has length `n'+1` -/
theorem getD_flatMap_tri {α} (f : ℕ → List α) (hf : ∀ n, (f n).length = n + 1) (d : α) :
    ∀ N, ((List.range N).flatMap f).length = hessA N ∧
      ∀ n j, n < N → j ≤ n → ((List.range N).flatMap f).getD (hessA n + j) d = (f n).getD j d := by
  intro N
  induction N with
  | zero => exact ⟨by simp [hessA], fun n j hn => by omega⟩
  | succ N ih =>
    obtain ⟨hlen, hget⟩ := ih
    rw [List.range_succ, List.flatMap_append]
    simp only [List.flatMap_cons, List.flatMap_nil, List.append_nil]
    refine ⟨by rw [List.length_append, hlen, hf, hessA_succ], fun n j hn hj => ?_⟩
    by_cases hnN : n < N
    · have hlt : hessA n + j < ((List.range N).flatMap f).length := by
        rw [hlen]
        have hmono : hessA (n + 1) ≤ hessA N := by
          clear hget hlen hn hj
          induction N with
          | zero => omega
          | succ N ihN =>
            by_cases h : n + 1 = N + 1
            · rw [h]
            · have := ihN (by omega)
              rw [hessA_succ N]; omega
        rw [hessA_succ] at hmono
        omega
      rw [List.getD_append _ _ _ _ hlt]
      exact hget n j hnN hj
    · have hn' : n = N := by omega
      subst hn'
      rw [List.getD_append_right _ _ _ _ (by rw [hlen]; omega), hlen]
      congr 1
      omega

theorem hessDirs_block (K : Type) [Add K] [Zero K] [One K] (N n : ℕ) :
    ((List.range (n+1)).map fun j =>
      (List.range N).map fun i => (if i = n then (1:K) else 0) + (if j ≠ 0 ∧ i = n - j then 1 else 0)).length = n + 1 := by
  simp

/-- **seed table of `init_hessian`, every `N`** -/
theorem hessDirs_table (N : ℕ) :
    (hessDirs (K := ℚ) N).length = N * (N + 1) / 2
    ∧ (∀ n, n < N → (hessDirs (K := ℚ) N).getD (hessA n) [] = unitVec N n)
    ∧ (∀ n m, n < N → m < n →
        (hessDirs (K := ℚ) N).getD (hessK n m) [] = addS (unitVec N n) (unitVec N m)) := by
  have key := getD_flatMap_tri (fun n => (List.range (n+1)).map fun j =>
      (List.range N).map fun i => (if i = n then (1:ℚ) else 0) + (if j ≠ 0 ∧ i = n - j then 1 else 0))
    (fun n => by simp) ([] : List ℚ) N
  refine ⟨key.1, ?_, ?_⟩
  · intro n hn
    have := key.2 n 0 hn (Nat.zero_le n)
    unfold hessDirs
    rw [Nat.add_zero] at this
    rw [this]
    rw [List.getD_eq_getElem?_getD, List.getElem?_map, List.getElem?_range (by omega)]
    simp [unitVec]
  · intro n m hn hm
    have := key.2 n (n - m) hn (by omega)
    unfold hessDirs
    rw [hessK_eq n m hm, this]
    rw [List.getD_eq_getElem?_getD, List.getElem?_map, List.getElem?_range (by omega)]
    simp only [Option.map_some, Option.getD_some]
    unfold addS unitVec
    simp only [List.length_map, List.length_range]
    apply List.map_congr_left
    intro i hi
    have hi' := List.mem_range.mp hi
    rw [co_map_range _ _ _ hi', co_map_range _ _ _ hi']
    have e : n - (n - m) = m := by omega
    have hne : n - m ≠ 0 := by omega
    simp [e, hne]

end AV

namespace AV
/-- **seed table of `init_hess_vec`, every `N` and `v`** -/
theorem hessVecDirs_table (N : ℕ) (v : List ℚ) (hv : v.length = N) :
    (hessVecDirs N v).length = 2 * N + 1
    ∧ (hessVecDirs N v).getD (2 * N) [] = v
    ∧ (∀ n, n < N → (hessVecDirs N v).getD n [] = unitVec N n)
    ∧ (∀ n, n < N → (hessVecDirs N v).getD (n + N) [] = addS v (unitVec N n)) := by
  unfold hessVecDirs jacDirs
  refine ⟨by simp; omega, ?_, ?_, ?_⟩
  · rw [List.getD_append_right _ _ _ _ (by simp; omega)]
    have : 2 * N - (List.map (fun n => unitVec (K := ℚ) N n) (List.range N) ++
        List.map (fun n => List.map (fun i => co v i + if i = n then 1 else 0) (List.range N)) (List.range N)).length = 0 := by
      simp; omega
    rw [this]
    rfl
  · intro n hn
    rw [List.append_assoc, List.getD_append _ _ _ _ (by simp; exact hn), List.getD_eq_getElem?_getD,
      List.getElem?_map, List.getElem?_range hn]
    rfl
  · intro n hn
    rw [List.getD_append _ _ _ _ (by simp; omega), List.getD_append_right _ _ _ _ (by simp)]
    simp only [List.length_map, List.length_range, Nat.add_sub_cancel]
    rw [List.getD_eq_getElem?_getD, List.getElem?_map, List.getElem?_range hn]
    simp only [Option.map_some, Option.getD_some]
    unfold addS unitVec
    rw [hv]
    apply List.map_congr_left
    intro i hi
    rw [co_map_range _ _ _ (List.mem_range.mp hi)]
end AV
