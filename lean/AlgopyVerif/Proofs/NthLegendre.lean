import AlgopyVerif.Proofs.NthComplex
import Mathlib.Analysis.Calculus.Deriv.Polynomial
import Mathlib.Analysis.SpecialFunctions.Arsinh
import Mathlib.Analysis.SpecialFunctions.Arcosh
import Mathlib.Analysis.SpecialFunctions.Trigonometric.InverseDeriv
/-!
# Legendre closed forms: `arcsinh`, `arcsin`, `arccos`, `arccosh`

`P_k` by Bonnet's three-term recurrence (as `scipy.special.eval_legendre` / the model evaluate it);
from the recurrence alone: `(1 - X²) P_k' = (k+1) (X P_k - P_{k+1})`.  With `r' = -μ z r²`, `z' = μ (1 - z²) r`
this gives `(r^{n+1} P_n(z))' = -μ (n+1) r^{n+2} P_{n+1}(z)`, the step of all four closed forms.
-/
open Polynomial

namespace AV

/-- Legendre polynomials over `ℂ` by Bonnet's recurrence -/
noncomputable def legP : ℕ → ℂ[X]
  | 0 => 1
  | 1 => X
  | k + 2 => C (((k : ℂ) + 2)⁻¹) * (C (2 * (k : ℂ) + 3) * X * legP (k + 1) - C ((k : ℂ) + 1) * legP k)

theorem natC_ne (k : ℕ) : ((k : ℂ) + 2) ≠ 0 := by
  have : ((k : ℂ) + 2) = ((k + 2 : ℕ) : ℂ) := by push_cast; ring
  rw [this]; exact Nat.cast_ne_zero.mpr (by omega)

/-- recurrence, multiplicative form -/
theorem legP_rec (k : ℕ) :
    C ((k : ℂ) + 2) * legP (k + 2) = C (2 * (k : ℂ) + 3) * X * legP (k + 1) - C ((k : ℂ) + 1) * legP k := by
  rw [legP, ← mul_assoc, ← C_mul, mul_inv_cancel₀ (natC_ne k), C_1, one_mul]

/-- `(1 - X²) P_{k+1}' = (k+1) (P_k - X P_{k+1})`, two consecutive instances -/
theorem legP_deriv_pair (k : ℕ) :
    ((1 - X ^ 2) * derivative (legP (k + 1)) = C ((k : ℂ) + 1) * (legP k - X * legP (k + 1))) ∧
    ((1 - X ^ 2) * derivative (legP (k + 2)) = C ((k : ℂ) + 2) * (legP (k + 1) - X * legP (k + 2))) := by
  induction k with
  | zero =>
    constructor
    · simp [legP]; ring
    · have h2 : legP 2 = C ((2:ℂ)⁻¹) * (C 3 * X * X - 1) := by
        simp [legP]
      rw [h2]
      simp only [legP, derivative_mul, derivative_C, derivative_X, derivative_sub, derivative_one, zero_mul, zero_add,
        mul_one, sub_zero, Nat.cast_zero]
      have hc : (C ((2:ℂ)⁻¹) : ℂ[X]) * 2 = 1 := by
        rw [show (2 : ℂ[X]) = C 2 from (map_ofNat C 2).symm, ← C_mul]; norm_num
      simp only [map_ofNat]
      linear_combination (2 * X) * hc
  | succ k ih =>
    obtain ⟨ih1, ih2⟩ := ih
    refine ⟨by simpa [add_assoc, one_add_one_eq_two] using ih2, ?_⟩
    have R1 := legP_rec k
    have R2 := legP_rec (k + 1)
    have dR2 := congrArg derivative R2
    simp only [derivative_mul, derivative_C, derivative_X, derivative_sub, zero_mul, zero_add, mul_one] at dR2
    have hne : (C (((k + 1 : ℕ) : ℂ) + 2) : ℂ[X]) ≠ 0 := by
      rw [Ne, C_eq_zero]; exact natC_ne (k + 1)
    apply mul_left_cancel₀ hne
    push_cast at R2 dR2 ⊢
    have e1 : (C ((k : ℂ) + 1 + 2) : ℂ[X]) = (k : ℂ[X]) + 3 := by simp only [map_add, map_mul, map_natCast, map_ofNat, map_one] <;> try ring
    have e2 : (C (2 * ((k : ℂ) + 1) + 3) : ℂ[X]) = 2 * (k : ℂ[X]) + 5 := by simp only [map_add, map_mul, map_natCast, map_ofNat, map_one] <;> try ring
    have e3 : (C ((k : ℂ) + 1 + 1) : ℂ[X]) = (k : ℂ[X]) + 2 := by simp only [map_add, map_mul, map_natCast, map_ofNat, map_one] <;> try ring
    have e4 : (C ((k : ℂ) + 2) : ℂ[X]) = (k : ℂ[X]) + 2 := by simp only [map_add, map_mul, map_natCast, map_ofNat, map_one] <;> try ring
    have e5 : (C (2 * (k : ℂ) + 3) : ℂ[X]) = 2 * (k : ℂ[X]) + 3 := by simp only [map_add, map_mul, map_natCast, map_ofNat, map_one] <;> try ring
    have e6 : (C ((k : ℂ) + 1) : ℂ[X]) = (k : ℂ[X]) + 1 := by simp only [map_add, map_mul, map_natCast, map_ofNat, map_one] <;> try ring
    rw [e1, e2, e3] at R2 dR2
    rw [e4, e5, e6] at R1
    rw [e6] at ih1
    rw [e4] at ih2
    rw [e1]
    set κ : ℂ[X] := (k : ℂ[X])
    linear_combination (1 - X ^ 2) * dR2 + (2 * κ + 5) * X * ih2 - (κ + 2) * ih1 + (κ + 3) * X * R2 - (κ + 2) * R1

/-- **Legendre derivative identity** `(1 - X²) P_n' = (n+1) (X P_n - P_{n+1})` -/
theorem legP_deriv (n : ℕ) :
    (1 - X ^ 2) * derivative (legP n) = C ((n : ℂ) + 1) * (X * legP n - legP (n + 1)) := by
  cases n with
  | zero => simp [legP]
  | succ k =>
    have h := (legP_deriv_pair k).1
    have R1 := legP_rec k
    have hne : (C ((k : ℂ) + 2) : ℂ[X]) ≠ 0 := by rw [Ne, C_eq_zero]; exact natC_ne k
    rw [h]
    push_cast
    have e4 : (C ((k : ℂ) + 1 + 1) : ℂ[X]) = (k : ℂ[X]) + 2 := by simp only [map_add, map_mul, map_natCast, map_ofNat, map_one] <;> try ring
    have e4' : (C ((k : ℂ) + 2) : ℂ[X]) = (k : ℂ[X]) + 2 := by simp only [map_add, map_mul, map_natCast, map_ofNat, map_one] <;> try ring
    have e5 : (C (2 * (k : ℂ) + 3) : ℂ[X]) = 2 * (k : ℂ[X]) + 3 := by simp only [map_add, map_mul, map_natCast, map_ofNat, map_one] <;> try ring
    have e6 : (C ((k : ℂ) + 1) : ℂ[X]) = (k : ℂ[X]) + 1 := by simp only [map_add, map_mul, map_natCast, map_ofNat, map_one] <;> try ring
    rw [e4', e5, e6] at R1
    rw [e4, e6]
    linear_combination R1

end AV

namespace AV
open Complex

/-! ### the model's Legendre evaluation is `eval` of `legP` -/
theorem toC_legendre (w : Cx ℝ) (k : ℕ) :
    toC (Cx.legendre w k).1 = (legP k).eval (toC w) ∧ toC (Cx.legendre w (k + 1)).1 = (legP (k + 1)).eval (toC w) := by
  induction k with
  | zero =>
    constructor
    · simp [Cx.legendre, legP]
    · simp [Cx.legendre, legP, nat_eq']
  | succ k ih =>
    refine ⟨ih.2, ?_⟩
    have h2 : (Cx.legendre w (k + 1)).2 = (Cx.legendre w k).1 := by
      rw [Cx.legendre]
    rw [Cx.legendre]
    simp only [toC_div, toC_sub, toC_mul, toC_ofK, nat_eq']
    rw [h2, ih.1, ih.2, legP]
    simp only [eval_mul, eval_sub, eval_C, eval_X]
    push_cast
    rw [div_eq_inv_mul]
    ring

theorem toC_legendre_fst (w : Cx ℝ) (k : ℕ) : toC (Cx.legendre w k).1 = (legP k).eval (toC w) :=
  (toC_legendre w k).1

/-! ### the common step -/
theorem legendre_step (μ : ℂ) (r z : ℝ → ℂ) (x : ℝ)
    (hr : HasDerivAt r (-μ * z x * r x ^ 2) x) (hz : HasDerivAt z (μ * (1 - z x ^ 2) * r x) x) (n : ℕ) :
    HasDerivAt (fun y => r y ^ (n + 1) * (legP n).eval (z y))
      (-μ * ((n : ℂ) + 1) * (r x ^ (n + 2) * (legP (n + 1)).eval (z x))) x := by
  have h1 : HasDerivAt (fun y => r y ^ (n + 1)) (((n + 1 : ℕ) : ℂ) * r x ^ (n + 1 - 1) * (-μ * z x * r x ^ 2)) x :=
    hr.pow (n + 1)
  have h2 : HasDerivAt (fun y => (legP n).eval (z y))
      ((μ * (1 - z x ^ 2) * r x) • (derivative (legP n)).eval (z x)) x :=
    ((legP n).hasDerivAt (z x)).scomp x hz
  have hid := congrArg (Polynomial.eval (z x)) (legP_deriv n)
  simp only [eval_mul, eval_sub, eval_C, eval_X, eval_pow, eval_one] at hid
  refine (h1.mul h2).congr_deriv ?_
  rw [Nat.add_sub_cancel, smul_eq_mul]
  push_cast
  linear_combination (μ * r x ^ (n + 2)) * hid

theorem legendre_closed_chain (μ : ℂ) (r z : ℝ → ℂ) (x : ℝ)
    (hr : HasDerivAt r (-μ * z x * r x ^ 2) x) (hz : HasDerivAt z (μ * (1 - z x ^ 2) * r x) x)
    (c : ℕ → ℂ) (hc : ∀ n, c (n + 1) = -μ * ((n : ℂ) + 1) * c n) (n : ℕ) :
    HasDerivAt (fun y => c n * (r y ^ (n + 1) * (legP n).eval (z y)))
      (c (n + 1) * (r x ^ (n + 2) * (legP (n + 1)).eval (z x))) x := by
  refine ((legendre_step μ r z x hr hz n).const_mul (c n)).congr_deriv ?_
  rw [hc n]; ring

/-! ### the leaf `r = 1/sqrt(a + b x²)` -/
theorem hasDerivAt_recip_sqrt (a b x : ℝ) (hq : 0 < a + b * x ^ 2) :
    HasDerivAt (fun y : ℝ => (Real.sqrt (a + b * y ^ 2))⁻¹) (-b * x * ((Real.sqrt (a + b * x ^ 2))⁻¹) ^ 3) x := by
  have h0 : HasDerivAt (fun y : ℝ => a + b * y ^ 2) (b * (2 * x)) x := by
    have := (((hasDerivAt_id x).pow 2).const_mul b).const_add a
    simpa using this
  have h1 := (h0.sqrt (ne_of_gt hq)).inv (ne_of_gt (Real.sqrt_pos.mpr hq))
  refine h1.congr_deriv ?_
  have hs : Real.sqrt (a + b * x ^ 2) ^ 2 = a + b * x ^ 2 := Real.sq_sqrt (le_of_lt hq)
  have hne : Real.sqrt (a + b * x ^ 2) ≠ 0 := ne_of_gt (Real.sqrt_pos.mpr hq)
  field_simp

theorem recip_sqrt_sq (q : ℝ) (hq : 0 < q) : ((Real.sqrt q)⁻¹) ^ 2 * q = 1 := by
  have hs : Real.sqrt q ^ 2 = q := Real.sq_sqrt (le_of_lt hq)
  have hne : Real.sqrt q ≠ 0 := ne_of_gt (Real.sqrt_pos.mpr hq)
  rw [inv_pow, hs]; field_simp

end AV

namespace AV
open Complex
open scoped Nat

/-- the real leaf `1/sqrt(a + b y²)` -/
noncomputable def rR (a b y : ℝ) : ℝ := (Real.sqrt (a + b * y ^ 2))⁻¹

/-- complex closed form shared by `arcsinh` and `arccosh`: `(-1)^n n! r^{n+1} P_n(x r)` -/
noncomputable def legG (a b : ℝ) (n : ℕ) (y : ℝ) : ℂ :=
  ((-1 : ℂ) ^ n * (n ! : ℂ)) * (((rR a b y : ℝ) : ℂ) ^ (n + 1) * (legP n).eval (((y * rR a b y : ℝ)) : ℂ))

/-- complex closed form of `arcsin`: `i (-i)^{n+1} n! r^{n+1} P_n(i x r)` -/
noncomputable def legGs (n : ℕ) (y : ℝ) : ℂ :=
  (I * (-I) ^ (n + 1) * (n ! : ℂ)) * (((rR 1 (-1) y : ℝ) : ℂ) ^ (n + 1) * (legP n).eval (I * ((y * rR 1 (-1) y : ℝ) : ℂ)))

theorem hasDerivAt_rR (a b x : ℝ) (hq : 0 < a + b * x ^ 2) :
    HasDerivAt (rR a b) (-b * x * rR a b x ^ 3) x := hasDerivAt_recip_sqrt a b x hq

theorem legG_chain (a b : ℝ) (hb : b = 1) (x : ℝ) (hq : 0 < a + b * x ^ 2) (n : ℕ) :
    HasDerivAt (legG a b n) (legG a b (n + 1) x) x := by
  have hr0 := hasDerivAt_rR a b x hq
  have hr : HasDerivAt (fun y : ℝ => ((rR a b y : ℝ) : ℂ))
      (-(1:ℂ) * ((x * rR a b x : ℝ) : ℂ) * ((rR a b x : ℝ) : ℂ) ^ 2) x := by
    refine hr0.ofReal_comp.congr_deriv ?_
    rw [hb]; push_cast; ring
  have hz : HasDerivAt (fun y : ℝ => ((y * rR a b y : ℝ) : ℂ))
      ((1:ℂ) * (1 - ((x * rR a b x : ℝ) : ℂ) ^ 2) * ((rR a b x : ℝ) : ℂ)) x := by
    refine (((hasDerivAt_id x).mul hr0).ofReal_comp).congr_deriv ?_
    rw [hb]; simp only [id]; push_cast; ring
  have := legendre_closed_chain 1 (fun y : ℝ => ((rR a b y : ℝ) : ℂ)) (fun y : ℝ => ((y * rR a b y : ℝ) : ℂ)) x hr hz
    (fun n => (-1 : ℂ) ^ n * (n ! : ℂ))
    (fun n => by rw [pow_succ, Nat.factorial_succ]; push_cast; ring) n
  unfold legG
  exact this

theorem legGs_chain (x : ℝ) (hq : 0 < 1 + (-1) * x ^ 2) (n : ℕ) :
    HasDerivAt (legGs n) (legGs (n + 1) x) x := by
  have hr0 := hasDerivAt_rR 1 (-1) x hq
  have hr : HasDerivAt (fun y : ℝ => ((rR 1 (-1) y : ℝ) : ℂ))
      (-I * (I * ((x * rR 1 (-1) x : ℝ) : ℂ)) * ((rR 1 (-1) x : ℝ) : ℂ) ^ 2) x := by
    refine hr0.ofReal_comp.congr_deriv ?_
    push_cast
    linear_combination ((x : ℂ) * (rR 1 (-1) x : ℂ) ^ 3) * I_sq
  have hz : HasDerivAt (fun y : ℝ => I * ((y * rR 1 (-1) y : ℝ) : ℂ))
      (I * (1 - (I * ((x * rR 1 (-1) x : ℝ) : ℂ)) ^ 2) * ((rR 1 (-1) x : ℝ) : ℂ)) x := by
    refine ((((hasDerivAt_id x).mul hr0).ofReal_comp).const_mul I).congr_deriv ?_
    simp only [id]; push_cast
    linear_combination (I * (x : ℂ) ^ 2 * (rR 1 (-1) x : ℂ) ^ 3) * I_sq
  have := legendre_closed_chain I (fun y : ℝ => ((rR 1 (-1) y : ℝ) : ℂ)) (fun y : ℝ => I * ((y * rR 1 (-1) y : ℝ) : ℂ)) x hr hz
    (fun n => I * (-I) ^ (n + 1) * (n ! : ℂ))
    (fun n => by rw [pow_succ (-I) (n + 1), Nat.factorial_succ]; push_cast; ring) n
  unfold legGs
  exact this

/-! ### the model's closed forms are the real parts -/
theorem dArcsinh_eq (l x : ℝ) (n : ℕ) : dArcsinh l x (rR 1 1 x) (n + 1) = (legG 1 1 n x).re := by
  unfold dArcsinh legG
  rw [if_neg (Nat.succ_ne_zero n), Nat.add_sub_cancel, ← toC_re, toC_legendre_fst, toC_ofK, negOnePow_eq, fact_eq,
    nat_eq', powN_eq]
  have : ((-1 : ℂ) ^ n * (n ! : ℂ)) * (((rR 1 1 x : ℝ) : ℂ) ^ (n + 1) * (legP n).eval (((x * rR 1 1 x : ℝ)) : ℂ))
      = (((-1 : ℝ) ^ n * (n ! : ℝ) * rR 1 1 x ^ (n + 1) : ℝ) : ℂ) * (legP n).eval (((x * rR 1 1 x : ℝ)) : ℂ) := by
    push_cast; ring
  rw [this, Complex.re_ofReal_mul]

theorem dArccosh_eq (l x : ℝ) (n : ℕ) : dArccosh l x (rR (-1) 1 x) (n + 1) = (legG (-1) 1 n x).re := by
  unfold dArccosh legG
  rw [if_neg (Nat.succ_ne_zero n), Nat.add_sub_cancel]
  simp only
  rw [← toC_re]
  congr 1
  simp only [toC_mul, toC_neg, toC_npow, toC_ofK, toC_I, toC_legendre_fst, fact_eq, nat_eq']
  have harg : I * (x : ℂ) * (-I * ((rR (-1) 1 x : ℝ) : ℂ)) = ((x * rR (-1) 1 x : ℝ) : ℂ) := by
    push_cast
    linear_combination (-(x : ℂ) * (rR (-1) 1 x : ℂ)) * I_sq
  have hpow : (-I) ^ (n + 1) * (-I * ((rR (-1) 1 x : ℝ) : ℂ)) ^ (n + 1) = (-1) ^ (n + 1) * ((rR (-1) 1 x : ℝ) : ℂ) ^ (n + 1) := by
    rw [← mul_pow, ← mul_pow]
    congr 1
    linear_combination ((rR (-1) 1 x : ℝ) : ℂ) * I_sq
  rw [harg]
  linear_combination (-((n ! : ℂ) * (legP n).eval (((x * rR (-1) 1 x : ℝ)) : ℂ))) * hpow

theorem dArcsin_eq (l x : ℝ) (n : ℕ) : dArcsin l x (rR 1 (-1) x) (n + 1) = (legGs n x).re := by
  unfold dArcsin legGs
  rw [if_neg (Nat.succ_ne_zero n), Nat.add_sub_cancel]
  simp only
  rw [← toC_re]
  congr 1
  simp only [toC_mul, toC_neg, toC_npow, toC_ofK, toC_I, toC_legendre_fst, fact_eq, nat_eq']
  push_cast
  ring

end AV

namespace AV
open Complex

theorem legG_zero_re (a b x : ℝ) : (legG a b 0 x).re = rR a b x := by
  simp [legG, legP]

theorem legGs_zero_re (x : ℝ) : (legGs 0 x).re = rR 1 (-1) x := by
  have : legGs 0 x = ((rR 1 (-1) x : ℝ) : ℂ) := by
    simp [legGs, legP]
  rw [this, Complex.ofReal_re]

theorem re_hasDerivAt {f : ℝ → ℂ} {f' : ℂ} {x : ℝ} (h : HasDerivAt f f' x) :
    HasDerivAt (fun y => (f y).re) f'.re x :=
  Complex.reCLM.hasFDerivAt.comp_hasDerivAt x h

theorem chain_arcsinh (n : ℕ) (x : ℝ) :
    HasDerivAt (fun y => dArcsinh (Real.arsinh y) y (rR 1 1 y) n) (dArcsinh (Real.arsinh x) x (rR 1 1 x) (n + 1)) x := by
  rw [dArcsinh_eq]
  cases n with
  | zero =>
    rw [legG_zero_re]
    simp only [dArcsinh, if_true]
    have := Real.hasDerivAt_arsinh x
    simpa [rR] using this
  | succ n =>
    have hf : (fun y => dArcsinh (Real.arsinh y) y (rR 1 1 y) (n + 1)) = fun y => (legG 1 1 n y).re := by
      funext y; exact dArcsinh_eq _ _ _
    rw [hf]
    exact re_hasDerivAt (legG_chain 1 1 rfl x (by positivity) n)

theorem chain_arccosh (n : ℕ) (x : ℝ) (hx : 1 < x) :
    HasDerivAt (fun y => dArccosh (Real.arcosh y) y (rR (-1) 1 y) n) (dArccosh (Real.arcosh x) x (rR (-1) 1 x) (n + 1)) x := by
  rw [dArccosh_eq]
  cases n with
  | zero =>
    rw [legG_zero_re]
    simp only [dArccosh, if_true]
    have := Real.hasDerivAt_arcosh (x := x) hx
    have e : rR (-1) 1 x = (Real.sqrt (x ^ 2 - 1))⁻¹ := by
      unfold rR; congr 2; ring
    rw [e]; exact this
  | succ n =>
    have hf : (fun y => dArccosh (Real.arcosh y) y (rR (-1) 1 y) (n + 1)) = fun y => (legG (-1) 1 n y).re := by
      funext y; exact dArccosh_eq _ _ _
    rw [hf]
    exact re_hasDerivAt (legG_chain (-1) 1 rfl x (by nlinarith) n)

theorem chain_arcsin (n : ℕ) (x : ℝ) (h1 : -1 < x) (h2 : x < 1) :
    HasDerivAt (fun y => dArcsin (Real.arcsin y) y (rR 1 (-1) y) n) (dArcsin (Real.arcsin x) x (rR 1 (-1) x) (n + 1)) x := by
  rw [dArcsin_eq]
  cases n with
  | zero =>
    rw [legGs_zero_re]
    simp only [dArcsin, if_true]
    have := Real.hasDerivAt_arcsin (x := x) (by linarith) (by linarith)
    have e : rR 1 (-1) x = 1 / Real.sqrt (1 - x ^ 2) := by
      unfold rR; rw [one_div]; congr 2; ring
    rw [e]; exact this
  | succ n =>
    have hf : (fun y => dArcsin (Real.arcsin y) y (rR 1 (-1) y) (n + 1)) = fun y => (legGs n y).re := by
      funext y; exact dArcsin_eq _ _ _
    rw [hf]
    exact re_hasDerivAt (legGs_chain x (by nlinarith) n)

/-- `arccos = π/2 - arcsin`: order 0 is the leaf, higher orders are the negated `arcsin` forms
(`nthderiv.arccos` negates `arcsin(x, n=n)`) -/
theorem chain_arccos (n : ℕ) (x : ℝ) (h1 : -1 < x) (h2 : x < 1) :
    HasDerivAt (fun y => if n = 0 then Real.arccos y else -dArcsin 0 y (rR 1 (-1) y) n)
      (-dArcsin 0 x (rR 1 (-1) x) (n + 1)) x := by
  cases n with
  | zero =>
    simp only [if_true]
    have := Real.hasDerivAt_arccos (x := x) (by linarith) (by linarith)
    rw [dArcsin_eq, legGs_zero_re]
    have e : rR 1 (-1) x = 1 / Real.sqrt (1 - x ^ 2) := by
      unfold rR; rw [one_div]; congr 2; ring
    rw [e]; exact this
  | succ n =>
    simp only [Nat.succ_ne_zero, if_false]
    have h := chain_arcsin (n + 1) x h1 h2
    have hf : (fun y => dArcsin (Real.arcsin y) y (rR 1 (-1) y) (n + 1)) = fun y => dArcsin 0 y (rR 1 (-1) y) (n + 1) := by
      funext y; rw [dArcsin_eq, dArcsin_eq]
    rw [hf, dArcsin_eq, ← dArcsin_eq 0] at h
    exact h.neg

end AV
