import AlgopyVerif.Proofs.Analytic
import AlgopyVerif.Proofs.Recurrence2
import Mathlib.Analysis.SpecialFunctions.Trigonometric.DerivHyp
import Mathlib.Analysis.SpecialFunctions.Trigonometric.ArctanDeriv
import Mathlib.Analysis.SpecialFunctions.Trigonometric.InverseDeriv
/-!
# Analytic layer, part 2: sinh/cosh and tan/sec²

Same scheme as `Analytic.lean`: smoothness of the composite, its differential identity, the
coefficient recurrence of the model (`Recurrence2.lean`), strong induction.
-/
open Polynomial Filter Topology
open scoped ContDiff

namespace AV

/-! ## sinh / cosh -/
theorem smooth0_sinh_curve (x : List ℝ) : Smooth0 (fun t => Real.sinh (curve x t)) :=
  (Real.contDiff_sinh.contDiffAt).comp 0 (smooth0_curve x)
theorem smooth0_cosh_curve (x : List ℝ) : Smooth0 (fun t => Real.cosh (curve x t)) :=
  (Real.contDiff_cosh.contDiffAt).comp 0 (smooth0_curve x)

theorem deriv_sinh_curve (x : List ℝ) :
    deriv (fun t => Real.sinh (curve x t)) = deriv (curve x) * fun t => Real.cosh (curve x t) := by
  ext t
  rw [(hasDerivAt_curve x t).sinh.deriv]
  simp [mul_comm]

theorem deriv_cosh_curve (x : List ℝ) :
    deriv (fun t => Real.cosh (curve x t)) = deriv (curve x) * fun t => Real.sinh (curve x t) := by
  ext t
  rw [(hasDerivAt_curve x t).cosh.deriv]
  simp [mul_comm]

theorem sinhcosh_taylor (x : List ℝ) : ∀ d, d < x.length →
    co (sinhcoshS (Real.sinh (co x 0)) (Real.cosh (co x 0)) x).1 d = tc (fun t => Real.sinh (curve x t)) d
    ∧ co (sinhcoshS (Real.sinh (co x 0)) (Real.cosh (co x 0)) x).2 d = tc (fun t => Real.cosh (curve x t)) d := by
  intro d
  induction d using Nat.strong_induction_on with
  | _ d ih =>
    intro hd
    cases d with
    | zero =>
      have := sinhcoshS_zero (Real.sinh (co x 0)) (Real.cosh (co x 0)) x hd
      rw [this.1, this.2, tc_zero, tc_zero, curve_zero]
      exact ⟨rfl, rfl⟩
    | succ d =>
      have hne : ((d + 1 : ℕ) : ℝ) ≠ 0 := by exact_mod_cast Nat.succ_ne_zero d
      have hs := sinhcoshS_succ (Real.sinh (co x 0)) (Real.cosh (co x 0)) x d hd
      constructor
      · apply mul_left_cancel₀ hne
        rw [hs.1, tc_of_deriv_eq_curve_mul x (smooth0_cosh_curve x) (by rw [deriv_sinh_curve])]
        apply Finset.sum_congr rfl
        intro i hi
        have hi' : i < d + 1 := Finset.mem_range.mp hi
        rw [(ih (d - i) (by omega) (by omega)).2]
      · apply mul_left_cancel₀ hne
        rw [hs.2, tc_of_deriv_eq_curve_mul x (smooth0_sinh_curve x) (by rw [deriv_cosh_curve])]
        apply Finset.sum_congr rfl
        intro i hi
        have hi' : i < d + 1 := Finset.mem_range.mp hi
        rw [(ih (d - i) (by omega) (by omega)).1]

/-! ## tan / sec² -/
theorem cos_curve_ne_zero_eventually (x : List ℝ) (h : Real.cos (co x 0) ≠ 0) :
    ∀ᶠ t in 𝓝 (0:ℝ), Real.cos (curve x t) ≠ 0 := by
  have hc : ContinuousAt (fun t => Real.cos (curve x t)) 0 :=
    (Real.continuous_cos.continuousAt).comp (smooth0_curve x).continuousAt
  have : (fun t => Real.cos (curve x t)) 0 ≠ 0 := by simpa [curve_zero] using h
  exact hc.eventually_ne this

theorem smooth0_tan_curve (x : List ℝ) (h : Real.cos (co x 0) ≠ 0) :
    Smooth0 (fun t => Real.tan (curve x t)) := by
  have h0 : Real.cos (curve x 0) ≠ 0 := by simpa [curve_zero] using h
  exact (Real.contDiffAt_tan.mpr h0).comp 0 (smooth0_curve x)

/-- `sec² = 1 + tan²` along the curve -/
noncomputable def sec2c (x : List ℝ) : ℝ → ℝ := fun t => 1 + Real.tan (curve x t) * Real.tan (curve x t)

theorem smooth0_sec2c (x : List ℝ) (h : Real.cos (co x 0) ≠ 0) : Smooth0 (sec2c x) := by
  unfold sec2c Smooth0
  exact contDiffAt_const.add ((smooth0_tan_curve x h).mul (smooth0_tan_curve x h))

theorem sec2c_zero (x : List ℝ) (h : Real.cos (co x 0) ≠ 0) :
    sec2c x 0 = 1 / (Real.cos (co x 0) * Real.cos (co x 0)) := by
  unfold sec2c
  rw [curve_zero, Real.tan_eq_sin_div_cos]
  field_simp
  have := Real.sin_sq_add_cos_sq (co x 0)
  nlinarith [this]

theorem deriv_tan_curve (x : List ℝ) (h : Real.cos (co x 0) ≠ 0) :
    deriv (fun t => Real.tan (curve x t)) =ᶠ[𝓝 0] deriv (curve x) * sec2c x := by
  filter_upwards [cos_curve_ne_zero_eventually x h] with t ht
  have h1 : HasDerivAt (fun t => Real.tan (curve x t)) (1 / Real.cos (curve x t) ^ 2 * deriv (curve x) t) t :=
    (Real.hasDerivAt_tan ht).comp t (hasDerivAt_curve x t)
  rw [h1.deriv]
  simp only [Pi.mul_apply, sec2c]
  rw [Real.tan_eq_sin_div_cos]
  field_simp
  rw [Real.cos_sq_add_sin_sq, mul_one]

theorem deriv_sec2c (x : List ℝ) (h : Real.cos (co x 0) ≠ 0) :
    deriv (sec2c x) =ᶠ[𝓝 0] fun t => 2 * (deriv (fun t => Real.tan (curve x t)) t * Real.tan (curve x t)) := by
  have hs : ∀ᶠ t in 𝓝 (0:ℝ), DifferentiableAt ℝ (fun t => Real.tan (curve x t)) t := by
    filter_upwards [cos_curve_ne_zero_eventually x h] with t ht
    exact ((Real.hasDerivAt_tan ht).comp t (hasDerivAt_curve x t)).differentiableAt
  filter_upwards [hs] with t ht
  have h1 : HasDerivAt (sec2c x)
      (0 + (deriv (fun t => Real.tan (curve x t)) t * Real.tan (curve x t)
            + Real.tan (curve x t) * deriv (fun t => Real.tan (curve x t)) t)) t := by
    unfold sec2c
    exact (hasDerivAt_const t (1:ℝ)).add (ht.hasDerivAt.mul ht.hasDerivAt)
  rw [h1.deriv]
  ring

theorem tc_two_mul (f : ℝ → ℝ) (n : ℕ) : tc (fun t => 2 * f t) n = 2 * tc f n := by
  unfold tc
  have : (fun t => 2 * f t) = (2:ℝ) • f := by ext t; simp
  rw [this, iteratedDeriv_const_smul_field]
  simp [mul_div_assoc]

theorem tansec2_taylor (x : List ℝ) (hx : Real.cos (co x 0) ≠ 0) : ∀ d, d < x.length →
    co (tansec2S (Real.tan (co x 0)) (1 / (Real.cos (co x 0) * Real.cos (co x 0))) x).1 d
        = tc (fun t => Real.tan (curve x t)) d
    ∧ co (tansec2S (Real.tan (co x 0)) (1 / (Real.cos (co x 0) * Real.cos (co x 0))) x).2 d
        = tc (sec2c x) d := by
  intro d
  induction d using Nat.strong_induction_on with
  | _ d ih =>
    intro hd
    cases d with
    | zero =>
      have := tansec2S_zero (Real.tan (co x 0)) (1 / (Real.cos (co x 0) * Real.cos (co x 0))) x hd
      rw [this.1, this.2, tc_zero, tc_zero, curve_zero, sec2c_zero x hx]
      exact ⟨rfl, rfl⟩
    | succ d =>
      have hne : ((d + 1 : ℕ) : ℝ) ≠ 0 := by exact_mod_cast Nat.succ_ne_zero d
      have hy : co (tansec2S (Real.tan (co x 0)) (1 / (Real.cos (co x 0) * Real.cos (co x 0))) x).1 (d+1)
          = tc (fun t => Real.tan (curve x t)) (d+1) := by
        apply mul_left_cancel₀ hne
        rw [tansec2S_succ_y _ _ x d hd,
          tc_of_deriv_eq_curve_mul x (smooth0_sec2c x hx) (deriv_tan_curve x hx)]
        apply Finset.sum_congr rfl
        intro i hi
        have hi' : i < d + 1 := Finset.mem_range.mp hi
        rw [(ih (d - i) (by omega) (by omega)).2]
      refine ⟨hy, ?_⟩
      apply mul_left_cancel₀ hne
      rw [tansec2S_succ_z _ _ x d hd, ← tc_deriv, tc_congr (deriv_sec2c x hx), tc_two_mul]
      congr 1
      have hm := tc_mul_at (smooth0_tan_curve x hx).deriv (smooth0_tan_curve x hx) d
      have : (fun t => deriv (fun t => Real.tan (curve x t)) t * Real.tan (curve x t))
          = deriv (fun t => Real.tan (curve x t)) * fun t => Real.tan (curve x t) := rfl
      rw [this, hm]
      apply Finset.sum_congr rfl
      intro i hi
      have hi' : i < d + 1 := Finset.mem_range.mp hi
      rw [tc_deriv, Nat.add_comm i 1]
      by_cases hc : i = d
      · subst hc
        rw [show 1 + i = i + 1 from Nat.add_comm 1 i, hy, (ih (i - i) (by omega) (by omega)).1]
      · rw [(ih (1 + i) (by omega) (by omega)).1, (ih (d - i) (by omega) (by omega)).1]

theorem tc_const_mul (c : ℝ) (f : ℝ → ℝ) (n : ℕ) : tc (fun t => c * f t) n = c * tc f n := by
  unfold tc
  have : (fun t => c * f t) = c • f := by ext t; simp
  rw [this, iteratedDeriv_const_smul_field]
  simp [mul_div_assoc]

/-! ## tanh / sech² -/
theorem tanh_curve_eq (x : List ℝ) :
    (fun t => Real.tanh (curve x t)) = fun t => Real.sinh (curve x t) / Real.cosh (curve x t) := by
  funext s; exact Real.tanh_eq_sinh_div_cosh _

theorem smooth0_tanh_curve (x : List ℝ) : Smooth0 (fun t => Real.tanh (curve x t)) := by
  rw [tanh_curve_eq]
  exact (smooth0_sinh_curve x).div (smooth0_cosh_curve x) (Real.cosh_pos _).ne'

theorem hasDerivAt_tanh_curve (x : List ℝ) (t : ℝ) :
    HasDerivAt (fun t => Real.tanh (curve x t))
      (deriv (curve x) t * (1 - Real.tanh (curve x t) * Real.tanh (curve x t))) t := by
  have hs := (hasDerivAt_curve x t).sinh
  have hc := (hasDerivAt_curve x t).cosh
  have hne : Real.cosh (curve x t) ≠ 0 := (Real.cosh_pos _).ne'
  have h := hs.div hc hne
  rw [tanh_curve_eq]
  refine h.congr_deriv ?_
  rw [Real.tanh_eq_sinh_div_cosh]
  field_simp

noncomputable def sech2c (x : List ℝ) : ℝ → ℝ := fun t => 1 - Real.tanh (curve x t) * Real.tanh (curve x t)

theorem smooth0_sech2c (x : List ℝ) : Smooth0 (sech2c x) := by
  unfold sech2c Smooth0
  exact contDiffAt_const.sub ((smooth0_tanh_curve x).mul (smooth0_tanh_curve x))

theorem deriv_tanh_curve (x : List ℝ) :
    deriv (fun t => Real.tanh (curve x t)) = deriv (curve x) * sech2c x := by
  ext t
  rw [(hasDerivAt_tanh_curve x t).deriv]
  rfl

theorem deriv_sech2c (x : List ℝ) :
    deriv (sech2c x) = fun t => (-2) * (deriv (fun t => Real.tanh (curve x t)) t * Real.tanh (curve x t)) := by
  ext t
  have ht := hasDerivAt_tanh_curve x t
  have h1 : HasDerivAt (sech2c x)
      (0 - (deriv (curve x) t * (1 - Real.tanh (curve x t) * Real.tanh (curve x t)) * Real.tanh (curve x t)
            + Real.tanh (curve x t) * (deriv (curve x) t * (1 - Real.tanh (curve x t) * Real.tanh (curve x t))))) t := by
    unfold sech2c
    exact (hasDerivAt_const t (1:ℝ)).sub (ht.mul ht)
  rw [h1.deriv, ht.deriv]
  ring

theorem tanhsech2_taylor (x : List ℝ) : ∀ d, d < x.length →
    co (tanhsech2S (Real.tanh (co x 0)) (1 - Real.tanh (co x 0) * Real.tanh (co x 0)) x).1 d
        = tc (fun t => Real.tanh (curve x t)) d
    ∧ co (tanhsech2S (Real.tanh (co x 0)) (1 - Real.tanh (co x 0) * Real.tanh (co x 0)) x).2 d
        = tc (sech2c x) d := by
  intro d
  induction d using Nat.strong_induction_on with
  | _ d ih =>
    intro hd
    cases d with
    | zero =>
      have := tanhsech2S_zero (Real.tanh (co x 0)) (1 - Real.tanh (co x 0) * Real.tanh (co x 0)) x hd
      rw [this.1, this.2, tc_zero, tc_zero, curve_zero]
      simp only [sech2c, curve_zero, and_self]
    | succ d =>
      have hne : ((d + 1 : ℕ) : ℝ) ≠ 0 := by exact_mod_cast Nat.succ_ne_zero d
      have hy : co (tanhsech2S (Real.tanh (co x 0)) (1 - Real.tanh (co x 0) * Real.tanh (co x 0)) x).1 (d+1)
          = tc (fun t => Real.tanh (curve x t)) (d+1) := by
        apply mul_left_cancel₀ hne
        rw [tanhsech2S_succ_y _ _ x d hd,
          tc_of_deriv_eq_curve_mul x (smooth0_sech2c x) (by rw [deriv_tanh_curve])]
        apply Finset.sum_congr rfl
        intro i hi
        have hi' : i < d + 1 := Finset.mem_range.mp hi
        rw [(ih (d - i) (by omega) (by omega)).2]
      refine ⟨hy, ?_⟩
      apply mul_left_cancel₀ hne
      rw [tanhsech2S_succ_z _ _ x d hd, ← tc_deriv, deriv_sech2c, tc_const_mul]
      congr 1
      have hm := tc_mul_at (smooth0_tanh_curve x).deriv (smooth0_tanh_curve x) d
      have : (fun t => deriv (fun t => Real.tanh (curve x t)) t * Real.tanh (curve x t))
          = deriv (fun t => Real.tanh (curve x t)) * fun t => Real.tanh (curve x t) := rfl
      rw [this, hm]
      apply Finset.sum_congr rfl
      intro i hi
      have hi' : i < d + 1 := Finset.mem_range.mp hi
      rw [tc_deriv, Nat.add_comm i 1]
      by_cases hc : i = d
      · subst hc
        rw [show 1 + i = i + 1 from Nat.add_comm 1 i, hy, (ih (i - i) (by omega) (by omega)).1]
      · rw [(ih (1 + i) (by omega) (by omega)).1, (ih (d - i) (by omega) (by omega)).1]

/-! ## arctan -/
theorem smooth0_arctan_curve (x : List ℝ) : Smooth0 (fun t => Real.arctan (curve x t)) :=
  (Real.contDiff_arctan.contDiffAt).comp 0 (smooth0_curve x)

/-- `1 + x̂²` -/
noncomputable def onePlusSq (x : List ℝ) : ℝ → ℝ := fun t => 1 + curve x t * curve x t

theorem smooth0_onePlusSq (x : List ℝ) : Smooth0 (onePlusSq x) := by
  unfold onePlusSq Smooth0
  exact contDiffAt_const.add ((smooth0_curve x).mul (smooth0_curve x))

theorem onePlusSq_pos (x : List ℝ) (t : ℝ) : 0 < onePlusSq x t := by
  unfold onePlusSq; nlinarith [mul_self_nonneg (curve x t)]

theorem deriv_onePlusSq (x : List ℝ) :
    deriv (onePlusSq x) = fun t => 2 * (deriv (curve x) t * curve x t) := by
  ext t
  have hc := hasDerivAt_curve x t
  have h1 : HasDerivAt (onePlusSq x) (0 + (deriv (curve x) t * curve x t + curve x t * deriv (curve x) t)) t := by
    unfold onePlusSq
    exact (hasDerivAt_const t (1:ℝ)).add (hc.mul hc)
  rw [h1.deriv]
  ring

theorem arctan_ode (x : List ℝ) :
    deriv (fun t => Real.arctan (curve x t)) * onePlusSq x = deriv (curve x) := by
  ext t
  have h := (hasDerivAt_curve x t).arctan
  simp only [Pi.mul_apply]
  rw [h.deriv]
  have hp := onePlusSq_pos x t
  unfold onePlusSq at hp ⊢
  field_simp

theorem arctan_taylor (x : List ℝ) : ∀ d, d < x.length →
    co (arctanS (Real.arctan (co x 0)) x).1 d = tc (fun t => Real.arctan (curve x t)) d
    ∧ co (arctanS (Real.arctan (co x 0)) x).2 d = tc (onePlusSq x) d := by
  have hz0 : (1:ℝ) + co x 0 * co x 0 ≠ 0 := by nlinarith [mul_self_nonneg (co x 0)]
  have hZ0 : tc (onePlusSq x) 0 = 1 + co x 0 * co x 0 := by
    rw [tc_zero]; simp only [onePlusSq, curve_zero]
  intro d
  induction d using Nat.strong_induction_on with
  | _ d ih =>
    intro hd
    cases d with
    | zero =>
      have := arctanS_zero (Real.arctan (co x 0)) x hd
      rw [this.1, this.2, tc_zero, hZ0, curve_zero]
      exact ⟨rfl, rfl⟩
    | succ d =>
      have hne : ((d + 1 : ℕ) : ℝ) ≠ 0 := by exact_mod_cast Nat.succ_ne_zero d
      constructor
      · apply mul_left_cancel₀ hne
        apply mul_left_cancel₀ hz0
        rw [arctanS_succ_y _ x hz0 d hd]
        have hB := tc_of_deriv_mul_eq_curve x (smooth0_arctan_curve x) (smooth0_onePlusSq x)
          (Filter.EventuallyEq.of_eq (arctan_ode x)) d
        rw [Finset.sum_range_succ, Nat.sub_self, hZ0] at hB
        have e : ∑ j ∈ Finset.range d, ((1 + j : ℕ) : ℝ) * co (arctanS (Real.arctan (co x 0)) x).1 (1 + j)
              * co (arctanS (Real.arctan (co x 0)) x).2 (d - j)
            = ∑ i ∈ Finset.range d, ((i + 1 : ℕ) : ℝ) * tc (fun t => Real.arctan (curve x t)) (i + 1)
              * tc (onePlusSq x) (d - i) := by
          apply Finset.sum_congr rfl
          intro j hj
          have hj' : j < d := Finset.mem_range.mp hj
          rw [(ih (1 + j) (by omega) (by omega)).1, (ih (d - j) (by omega) (by omega)).2, Nat.add_comm 1 j]
        rw [e]
        linarith
      · apply mul_left_cancel₀ hne
        rw [arctanS_succ_z _ x d hd, ← tc_deriv, deriv_onePlusSq, tc_const_mul]
        congr 1
        have hm := tc_mul_at (smooth0_curve x).deriv (smooth0_curve x) d
        have : (fun t => deriv (curve x) t * curve x t) = deriv (curve x) * curve x := rfl
        rw [this, hm]
        apply Finset.sum_congr rfl
        intro i hi
        rw [tc_deriv_curve, tc_curve, Nat.add_comm i 1]

/-! ## arcsin / arccos

One generic statement for the coupled system `Y' Z = x̂'`, `Z' = -x̂ Y'`, instantiated with
`(arcsin ∘ x̂, cos ∘ arcsin ∘ x̂)` and `(arccos ∘ x̂, -sin ∘ arccos ∘ x̂)` — exactly the base values
`_arcsin` / `_arccos` use. -/
theorem arcsinS_taylor_generic (x : List ℝ) (Y Z : ℝ → ℝ) (hY : Smooth0 Y) (hZ : Smooth0 Z) (hZ0 : Z 0 ≠ 0)
    (ode1 : deriv Y * Z =ᶠ[𝓝 0] deriv (curve x))
    (ode2 : deriv Z =ᶠ[𝓝 0] -(deriv Y * curve x)) : ∀ d, d < x.length →
    co (arcsinS (Y 0) (Z 0) x).1 d = tc Y d ∧ co (arcsinS (Y 0) (Z 0) x).2 d = tc Z d := by
  intro d
  induction d using Nat.strong_induction_on with
  | _ d ih =>
    intro hd
    cases d with
    | zero =>
      have := arcsinS_zero (Y 0) (Z 0) x hd
      rw [this.1, this.2, tc_zero, tc_zero]
      exact ⟨rfl, rfl⟩
    | succ d =>
      have hne : ((d + 1 : ℕ) : ℝ) ≠ 0 := by exact_mod_cast Nat.succ_ne_zero d
      have hy : co (arcsinS (Y 0) (Z 0) x).1 (d+1) = tc Y (d+1) := by
        apply mul_left_cancel₀ hne
        apply mul_left_cancel₀ hZ0
        rw [arcsinS_succ_y _ _ x hZ0 d hd]
        have hB := tc_of_deriv_mul_eq_curve x hY hZ ode1 d
        rw [Finset.sum_range_succ, Nat.sub_self, tc_zero] at hB
        have e : ∑ j ∈ Finset.range d, ((1 + j : ℕ) : ℝ) * co (arcsinS (Y 0) (Z 0) x).1 (1 + j)
              * co (arcsinS (Y 0) (Z 0) x).2 (d - j)
            = ∑ i ∈ Finset.range d, ((i + 1 : ℕ) : ℝ) * tc Y (i + 1) * tc Z (d - i) := by
          apply Finset.sum_congr rfl
          intro j hj
          have hj' : j < d := Finset.mem_range.mp hj
          rw [(ih (1 + j) (by omega) (by omega)).1, (ih (d - j) (by omega) (by omega)).2, Nat.add_comm 1 j]
        rw [e]
        linarith
      refine ⟨hy, ?_⟩
      apply mul_left_cancel₀ hne
      rw [arcsinS_succ_z _ _ x d hd, ← tc_deriv, tc_congr ode2, tc_neg]
      congr 1
      rw [tc_mul_at hY.deriv (smooth0_curve x) d]
      apply Finset.sum_congr rfl
      intro i hi
      have hi' : i < d + 1 := Finset.mem_range.mp hi
      rw [tc_deriv, tc_curve, Nat.add_comm i 1]
      by_cases hc : i = d
      · subst hc
        rw [show 1 + i = i + 1 from Nat.add_comm 1 i, hy]
      · rw [(ih (1 + i) (by omega) (by omega)).1]

theorem curve_in_unit_eventually (x : List ℝ) (h1 : -1 < co x 0) (h2 : co x 0 < 1) :
    ∀ᶠ t in 𝓝 (0:ℝ), -1 < curve x t ∧ curve x t < 1 := by
  have hc : ContinuousAt (curve x) 0 := (smooth0_curve x).continuousAt
  have a := hc.eventually (lt_mem_nhds (by rw [curve_zero]; exact h1))
  have b := hc.eventually (gt_mem_nhds (by rw [curve_zero]; exact h2))
  filter_upwards [a, b] with t ha hb
  exact ⟨ha, hb⟩

theorem sqrt_one_sub_sq_ne_zero {c : ℝ} (h1 : -1 < c) (h2 : c < 1) : Real.sqrt (1 - c ^ 2) ≠ 0 := by
  have : 0 < 1 - c ^ 2 := by nlinarith
  exact (Real.sqrt_pos.mpr this).ne'

theorem arcsin_taylor (x : List ℝ) (h1 : -1 < co x 0) (h2 : co x 0 < 1) : ∀ d, d < x.length →
    co (arcsinS (Real.arcsin (co x 0)) (Real.cos (Real.arcsin (co x 0))) x).1 d
        = tc (fun t => Real.arcsin (curve x t)) d
    ∧ co (arcsinS (Real.arcsin (co x 0)) (Real.cos (Real.arcsin (co x 0))) x).2 d
        = tc (fun t => Real.cos (Real.arcsin (curve x t))) d := by
  set Y : ℝ → ℝ := fun t => Real.arcsin (curve x t) with hYdef
  set Z : ℝ → ℝ := fun t => Real.cos (Real.arcsin (curve x t)) with hZdef
  have hY : Smooth0 Y := by
    have : ContDiffAt ℝ ∞ Real.arcsin (curve x 0) :=
      Real.contDiffAt_arcsin (by rw [curve_zero]; exact h1.ne') (by rw [curve_zero]; exact h2.ne)
    exact this.comp 0 (smooth0_curve x)
  have hZ : Smooth0 Z := (Real.contDiff_cos.contDiffAt).comp 0 hY
  have hY0 : Y 0 = Real.arcsin (co x 0) := by simp only [hYdef, curve_zero]
  have hZ0 : Z 0 = Real.cos (Real.arcsin (co x 0)) := by simp only [hZdef, curve_zero]
  have hZne : Z 0 ≠ 0 := by
    rw [hZ0, Real.cos_arcsin]; exact sqrt_one_sub_sq_ne_zero h1 h2
  have hd1 : ∀ᶠ t in 𝓝 (0:ℝ), HasDerivAt Y (1 / Real.sqrt (1 - curve x t ^ 2) * deriv (curve x) t) t
      ∧ -1 < curve x t ∧ curve x t < 1 := by
    filter_upwards [curve_in_unit_eventually x h1 h2] with t ht
    exact ⟨(Real.hasDerivAt_arcsin ht.1.ne' ht.2.ne).comp t (hasDerivAt_curve x t), ht⟩
  have ode1 : deriv Y * Z =ᶠ[𝓝 0] deriv (curve x) := by
    filter_upwards [hd1] with t ht
    simp only [Pi.mul_apply, hZdef]
    rw [ht.1.deriv, Real.cos_arcsin]
    have := sqrt_one_sub_sq_ne_zero ht.2.1 ht.2.2
    field_simp
  have ode2 : deriv Z =ᶠ[𝓝 0] -(deriv Y * curve x) := by
    filter_upwards [hd1] with t ht
    have hz : HasDerivAt Z (-Real.sin (Y t) * (1 / Real.sqrt (1 - curve x t ^ 2) * deriv (curve x) t)) t :=
      (Real.hasDerivAt_cos (Y t)).comp t ht.1
    rw [hz.deriv]
    simp only [Pi.neg_apply, Pi.mul_apply]
    rw [ht.1.deriv, hYdef]
    simp only
    rw [Real.sin_arcsin ht.2.1.le ht.2.2.le]
    ring
  have := arcsinS_taylor_generic x Y Z hY hZ hZne ode1 ode2
  rw [hY0, hZ0] at this
  exact this

theorem arccos_taylor (x : List ℝ) (h1 : -1 < co x 0) (h2 : co x 0 < 1) : ∀ d, d < x.length →
    co (arcsinS (Real.arccos (co x 0)) (-Real.sin (Real.arccos (co x 0))) x).1 d
        = tc (fun t => Real.arccos (curve x t)) d
    ∧ co (arcsinS (Real.arccos (co x 0)) (-Real.sin (Real.arccos (co x 0))) x).2 d
        = tc (fun t => -Real.sin (Real.arccos (curve x t))) d := by
  set Y : ℝ → ℝ := fun t => Real.arccos (curve x t) with hYdef
  set Z : ℝ → ℝ := fun t => -Real.sin (Real.arccos (curve x t)) with hZdef
  have hY : Smooth0 Y := by
    have : ContDiffAt ℝ ∞ Real.arccos (curve x 0) :=
      Real.contDiffAt_arccos (by rw [curve_zero]; exact h1.ne') (by rw [curve_zero]; exact h2.ne)
    exact this.comp 0 (smooth0_curve x)
  have hZ : Smooth0 Z := ((Real.contDiff_sin.contDiffAt).comp 0 hY).neg
  have hY0 : Y 0 = Real.arccos (co x 0) := by simp only [hYdef, curve_zero]
  have hZ0 : Z 0 = -Real.sin (Real.arccos (co x 0)) := by simp only [hZdef, curve_zero]
  have hZne : Z 0 ≠ 0 := by
    rw [hZ0, Real.sin_arccos, neg_ne_zero]; exact sqrt_one_sub_sq_ne_zero h1 h2
  have hd1 : ∀ᶠ t in 𝓝 (0:ℝ), HasDerivAt Y (-(1 / Real.sqrt (1 - curve x t ^ 2)) * deriv (curve x) t) t
      ∧ -1 < curve x t ∧ curve x t < 1 := by
    filter_upwards [curve_in_unit_eventually x h1 h2] with t ht
    exact ⟨(Real.hasDerivAt_arccos ht.1.ne' ht.2.ne).comp t (hasDerivAt_curve x t), ht⟩
  have ode1 : deriv Y * Z =ᶠ[𝓝 0] deriv (curve x) := by
    filter_upwards [hd1] with t ht
    simp only [Pi.mul_apply, hZdef]
    rw [ht.1.deriv, Real.sin_arccos]
    have := sqrt_one_sub_sq_ne_zero ht.2.1 ht.2.2
    field_simp
  have ode2 : deriv Z =ᶠ[𝓝 0] -(deriv Y * curve x) := by
    filter_upwards [hd1] with t ht
    have hz : HasDerivAt Z (-(Real.cos (Y t) * (-(1 / Real.sqrt (1 - curve x t ^ 2)) * deriv (curve x) t))) t :=
      ((Real.hasDerivAt_sin (Y t)).comp t ht.1).neg
    rw [hz.deriv]
    simp only [Pi.neg_apply, Pi.mul_apply]
    rw [ht.1.deriv, hYdef]
    simp only
    rw [Real.cos_arccos ht.2.1.le ht.2.2.le]
    ring
  have := arcsinS_taylor_generic x Y Z hY hZ hZne ode1 ode2
  rw [hY0, hZ0] at this
  exact this

end AV
