import AlgopyVerif.Proofs.Linalg
import Mathlib.RingTheory.PowerSeries.Basic
import Mathlib.LinearAlgebra.Matrix.Block
import Mathlib.LinearAlgebra.Matrix.Determinant.Basic
import Mathlib.LinearAlgebra.Matrix.Permutation
/-!
# The series inverse is two-sided, and solutions are unique, modulo `t^D` (any ring)

Through `PowerSeries R` (associativity of the Cauchy product for free).
-/
open Finset
namespace AV
section
variable {R : Type} [Ring R]

/-- a list as a formal power series (zero beyond its length) -/
noncomputable def psR (x : List R) : PowerSeries R := PowerSeries.mk (coR x)

theorem coeff_psR (x : List R) (n : ℕ) : PowerSeries.coeff n (psR x) = coR x n := by
  simp [psR]

theorem coeff_mul_psR (p q : PowerSeries R) (d : ℕ) :
    PowerSeries.coeff d (p * q) = ∑ k ∈ range (d+1), PowerSeries.coeff k p * PowerSeries.coeff (d-k) q := by
  rw [PowerSeries.coeff_mul, Finset.Nat.sum_antidiagonal_eq_sum_range_succ_mk]

/-- if `X·Y ≡ 1` and `Y₀·X₀ = 1` then `Y·X ≡ 1` (mod `t^D`) -/
theorem left_inverse_of_right (x y : List R) (D : ℕ)
    (hr : ∀ d, d < D → ∑ k ∈ range (d+1), coR x k * coR y (d-k) = if d = 0 then 1 else 0)
    (h0 : coR y 0 * coR x 0 = 1) :
    ∀ d, d < D → ∑ k ∈ range (d+1), coR y k * coR x (d-k) = if d = 0 then 1 else 0 := by
  -- L d := coefficient d of Y·X
  have hXY : ∀ d, d < D → PowerSeries.coeff d (psR x * psR y) = if d = 0 then 1 else 0 := by
    intro d hd
    rw [coeff_mul_psR]
    simp only [coeff_psR]
    exact hr d hd
  have key : ∀ d, d < D → PowerSeries.coeff d (psR y * psR x) = if d = 0 then 1 else 0 := by
    intro d
    induction d using Nat.strong_induction_on with
    | _ d ih =>
      intro hd
      cases d with
      | zero => rw [coeff_mul_psR]; simp [coeff_psR, h0]
      | succ d =>
        simp only [Nat.succ_ne_zero, if_false]
        -- coefficient d+1 of Y(XY) = (YX)Y
        have h1 : PowerSeries.coeff (d+1) (psR y * (psR x * psR y)) = coR y (d+1) := by
          rw [coeff_mul_psR, sum_range_succ]
          have hz : ∀ k ∈ range (d+1), PowerSeries.coeff k (psR y) * PowerSeries.coeff (d+1-k) (psR x * psR y) = 0 := by
            intro k hk
            have hk' := mem_range.mp hk
            rw [hXY (d+1-k) (by omega), if_neg (by omega), mul_zero]
          rw [sum_eq_zero hz, zero_add, Nat.sub_self, hXY 0 (by omega), if_pos rfl, mul_one, coeff_psR]
        have h2 : PowerSeries.coeff (d+1) ((psR y * psR x) * psR y)
            = PowerSeries.coeff (d+1) (psR y * psR x) * coR y 0 + coR y (d+1) := by
          rw [coeff_mul_psR, sum_range_succ', Nat.sub_zero, sum_range_succ, Nat.sub_self]
          have hz : ∀ k ∈ range d, PowerSeries.coeff (k+1) (psR y * psR x) * PowerSeries.coeff (d+1-(k+1)) (psR y) = 0 := by
            intro k hk
            have hk' := mem_range.mp hk
            rw [ih (k+1) (by omega) (by omega), if_neg (by omega), zero_mul]
          rw [sum_eq_zero hz, zero_add, coeff_psR, coeff_psR]
          have hz0 := ih 0 (by omega) (by omega)
          rw [if_pos rfl] at hz0
          rw [hz0, one_mul]
        rw [mul_assoc, h1] at h2
        have h3 : PowerSeries.coeff (d+1) (psR y * psR x) * coR y 0 = 0 := by
          have := h2
          rw [eq_comm, add_eq_right] at this
          exact this
        calc PowerSeries.coeff (d+1) (psR y * psR x)
            = PowerSeries.coeff (d+1) (psR y * psR x) * (coR y 0 * coR x 0) := by rw [h0, mul_one]
          _ = (PowerSeries.coeff (d+1) (psR y * psR x) * coR y 0) * coR x 0 := by rw [mul_assoc]
          _ = 0 := by rw [h3, zero_mul]
  intro d hd
  have := key d hd
  rw [coeff_mul_psR] at this
  simpa only [coeff_psR] using this

/-- **`inv(A)(t) · A(t) = I` modulo `t^D`** given a two-sided inverse of `A₀` -/
theorem invM_left_inverse (x : List R) (y0 : R) (h0 : coR x 0 * y0 = 1) (h0' : y0 * coR x 0 = 1)
    (d : Nat) (h : d < x.length) :
    ∑ k ∈ range (d+1), coR (invM x y0) k * coR x (d-k) = if d = 0 then 1 else 0 :=
  left_inverse_of_right x (invM x y0) x.length (fun d hd => invM_right_inverse x y0 h0 d hd)
    (by rw [invM_zero x y0 (by omega)]; exact h0') d h

/-- uniqueness: any `Z` with `A·Z ≡ B` equals `inv(A)·B` coefficient-wise; in particular the solution
computed by `solve` is the only one -/
theorem solve_unique (a : List R) (a0inv : R) (h0' : a0inv * coR a 0 = 1)
    (b z w : List R) (D : ℕ)
    (hz : ∀ d, d < D → ∑ k ∈ range (d+1), coR a k * coR z (d-k) = coR b d)
    (hw : ∀ d, d < D → ∑ k ∈ range (d+1), coR a k * coR w (d-k) = coR b d) :
    ∀ d, d < D → coR z d = coR w d := by
  intro d
  induction d using Nat.strong_induction_on with
  | _ d ih =>
    intro hd
    have e1 := hz d hd
    have e2 := hw d hd
    rw [sum_range_succ', Nat.sub_zero] at e1 e2
    have hs : ∑ k ∈ range d, coR a (k+1) * coR z (d-(k+1)) = ∑ k ∈ range d, coR a (k+1) * coR w (d-(k+1)) := by
      apply sum_congr rfl
      intro k hk
      have := mem_range.mp hk
      rw [ih (d-(k+1)) (by omega) (by omega)]
    rw [hs] at e1
    have : coR a 0 * coR z d = coR a 0 * coR w d := by
      have := e1.trans e2.symm
      exact add_left_cancel this
    calc coR z d = (a0inv * coR a 0) * coR z d := by rw [h0', one_mul]
      _ = a0inv * (coR a 0 * coR z d) := by rw [mul_assoc]
      _ = a0inv * (coR a 0 * coR w d) := by rw [this]
      _ = (a0inv * coR a 0) * coR w d := by rw [mul_assoc]
      _ = coR w d := by rw [h0', one_mul]

end
end AV

namespace AV
open Matrix in
/-- `det` through an LU factorization, in any commutative ring `S` (instantiate `S` with the
truncated series ring `ℝ[t]/(t^D)`): if `W · L · U = A` with `L` unit lower triangular and `U` upper
triangular then `det A = det W · ∏ᵢ Uᵢᵢ` — the formula `UTPM.det` evaluates (`piv2det * prod(diag U)`) -/
theorem det_of_lu {S : Type} [CommRing S] {n : ℕ} (W L U A : Matrix (Fin n) (Fin n) S)
    (h : W * L * U = A) (hL : L.BlockTriangular OrderDual.toDual) (hL1 : ∀ i, L i i = 1)
    (hU : U.BlockTriangular id) : A.det = W.det * ∏ i, U i i := by
  rw [← h, Matrix.det_mul, Matrix.det_mul, Matrix.det_of_lowerTriangular L hL, Matrix.det_of_upperTriangular hU]
  simp [hL1]

open Matrix in
/-- `logdet`-style corollary: with `det W = ±1` the determinant is `± ∏ Uᵢᵢ` -/
theorem det_of_lu_perm {S : Type} [CommRing S] {n : ℕ} (σ : Equiv.Perm (Fin n)) (L U A : Matrix (Fin n) (Fin n) S)
    (h : (σ.permMatrix S) * L * U = A) (hL : L.BlockTriangular OrderDual.toDual) (hL1 : ∀ i, L i i = 1)
    (hU : U.BlockTriangular id) : A.det = (Equiv.Perm.sign σ : ℤ) * ∏ i, U i i := by
  rw [det_of_lu _ L U A h hL hL1 hU, Matrix.det_permutation]
end AV
