import AlgopyVerif.Proofs.Linalg
import AlgopyVerif.Proofs.Prefix
/-!
# Prefix stability of the matrix kernels (any ring): `dot`, `inv`, `solve`
-/
namespace AV
section
variable {R : Type} [Ring R]

theorem coR_take (x : List R) (m k : Nat) (h : k < m) : coR (x.take m) k = coR x k := by
  unfold coR
  rw [List.getD_eq_getElem?_getD, List.getD_eq_getElem?_getD, List.getElem?_take, if_pos h]

theorem dotM_take (x y : List R) (m : Nat) (h : m ≤ x.length) :
    (dotM x y).take m = dotM (x.take m) (y.take m) := by
  unfold dotM
  rw [take_map_range _ _ h, List.length_take, Nat.min_eq_left h]
  apply map_range_congr
  intro d hd
  apply sumRange_congr
  intro k _ hk
  rw [coR_take x m k (by omega), coR_take y m (d-k) (by omega)]

theorem invM_take (x : List R) (y0 : R) (m : Nat) (h : m ≤ x.length) :
    (invM x y0).take m = invM (x.take m) y0 := by
  unfold invM
  rw [build_take _ _ _ h, List.length_take, Nat.min_eq_left h]
  apply build_congr
  intro acc ha
  unfold invStepM
  simp only
  split
  · rfl
  · congr 1
    apply sumRange_congr
    intro k _ hk
    rw [coR_take x m k (by omega)]

theorem solveM_take (a : List R) (a0inv : R) (b : List R) (m : Nat) (h : m ≤ b.length) :
    (solveM a a0inv b).take m = solveM (a.take m) a0inv (b.take m) := by
  unfold solveM
  rw [build_take _ _ _ h, List.length_take, Nat.min_eq_left h]
  apply build_congr
  intro acc ha
  unfold solveStepM
  simp only
  rw [coR_take b m acc.length ha]
  congr 2
  apply sumRange_congr
  intro k _ hk
  rw [coR_take a m k (by omega)]

end
end AV
