import AlgopyVerif.Proofs.NthDeriv
import Mathlib.Analysis.SpecialFunctions.Trigonometric.ArctanDeriv
import Mathlib.Analysis.Complex.RealDeriv
/-!
# Closed forms that go through complex numbers: `Cx ℝ → ℂ`, `arctan`

`toC` interprets the model's pair arithmetic in Mathlib's `ℂ`; it commutes with every operation the
closed forms use (including the totalised division).
-/
open Complex

namespace AV

def toC (z : Cx ℝ) : ℂ := ⟨z.re, z.im⟩

@[simp] theorem toC_re (z : Cx ℝ) : (toC z).re = z.re := rfl
@[simp] theorem toC_im (z : Cx ℝ) : (toC z).im = z.im := rfl
@[simp] theorem toC_zero : toC (0 : Cx ℝ) = 0 := rfl
@[simp] theorem toC_one : toC (1 : Cx ℝ) = 1 := rfl
@[simp] theorem toC_add (a b : Cx ℝ) : toC (a + b) = toC a + toC b := rfl
@[simp] theorem toC_sub (a b : Cx ℝ) : toC (a - b) = toC a - toC b := by
  apply Complex.ext <;> rfl
@[simp] theorem toC_neg (a : Cx ℝ) : toC (-a) = -toC a := by
  apply Complex.ext <;> rfl
@[simp] theorem toC_mul (a b : Cx ℝ) : toC (a * b) = toC a * toC b := by
  apply Complex.ext
  · show a.re * b.re - a.im * b.im = _; simp
  · show a.re * b.im + a.im * b.re = _; simp
@[simp] theorem toC_div (a b : Cx ℝ) : toC (a / b) = toC a / toC b := by
  apply Complex.ext
  · show (a.re * b.re + a.im * b.im) / (b.re * b.re + b.im * b.im) = _
    rw [Complex.div_re]; simp [Complex.normSq_apply]; ring
  · show (a.im * b.re - a.re * b.im) / (b.re * b.re + b.im * b.im) = _
    rw [Complex.div_im]; simp [Complex.normSq_apply]; ring
@[simp] theorem toC_I : toC (Cx.I : Cx ℝ) = Complex.I := by
  apply Complex.ext <;> simp [Cx.I]
@[simp] theorem toC_ofK (r : ℝ) : toC (Cx.ofK r) = (r : ℂ) := by
  apply Complex.ext <;> simp [Cx.ofK]
@[simp] theorem toC_npow (z : Cx ℝ) (n : ℕ) : toC (Cx.npow z n) = toC z ^ n := by
  induction n with
  | zero => simp [Cx.npow]
  | succ n ih => rw [Cx.npow, toC_mul, ih, pow_succ]

/-! ### arctan -/

/-- the complex closed form of `arctan⁽ⁿ⁾` -/
noncomputable def arctanG (n : ℕ) (y : ℝ) : ℂ :=
  (Complex.I / 2) * ((-1 : ℂ) ^ n * ((n - 1).factorial : ℂ)) * (1 / ((y : ℂ) - Complex.I) ^ n - 1 / ((y : ℂ) + Complex.I) ^ n)

theorem ofReal_sub_I_ne (y : ℝ) : (y : ℂ) - Complex.I ≠ 0 := by
  intro h
  have := congrArg Complex.im h
  simp at this

theorem ofReal_add_I_ne (y : ℝ) : (y : ℂ) + Complex.I ≠ 0 := by
  intro h
  have := congrArg Complex.im h
  simp at this

theorem hasDerivAt_inv_pow_shift (c : ℂ) (m : ℕ) (y : ℝ) (hne : (y : ℂ) + c ≠ 0) :
    HasDerivAt (fun t : ℝ => 1 / ((t : ℂ) + c) ^ (m + 1)) (-((m : ℂ) + 1) / ((y : ℂ) + c) ^ (m + 2)) y := by
  have h0 : HasDerivAt (fun t : ℝ => (t : ℂ) + c) 1 y := (Complex.ofRealCLM.hasDerivAt).add_const c
  have h1 : HasDerivAt (fun t : ℝ => (((t : ℂ) + c) ^ (m + 1))⁻¹)
      (-(((m + 1 : ℕ) : ℂ) * ((y : ℂ) + c) ^ (m + 1 - 1) * 1) / (((y : ℂ) + c) ^ (m + 1)) ^ 2) y :=
    (h0.pow (m + 1)).inv (pow_ne_zero _ hne)
  refine (h1.congr_deriv ?_).congr_of_eventuallyEq ?_
  · rw [Nat.add_sub_cancel]
    field_simp
    push_cast
    ring
  · exact Filter.Eventually.of_forall fun t => by simp

theorem arctanG_chain (n : ℕ) (y : ℝ) :
    HasDerivAt (arctanG (n + 1)) (arctanG (n + 2) y) y := by
  have h1 := hasDerivAt_inv_pow_shift (-Complex.I) n y (by simpa [sub_eq_add_neg] using ofReal_sub_I_ne y)
  have h2 := hasDerivAt_inv_pow_shift Complex.I n y (ofReal_add_I_ne y)
  have h := (h1.sub h2).const_mul ((Complex.I / 2) * ((-1 : ℂ) ^ (n + 1) * ((n + 1 - 1).factorial : ℂ)))
  refine (h.congr_deriv ?_).congr_of_eventuallyEq ?_
  · unfold arctanG
    have e : n + 2 - 1 = n + 1 := by omega
    rw [e, Nat.add_sub_cancel, Nat.factorial_succ]
    push_cast
    simp only [sub_eq_add_neg]
    ring
  · exact Filter.Eventually.of_forall fun t => by simp [arctanG, sub_eq_add_neg]

theorem arctanG_one_re (y : ℝ) : (arctanG 1 y).re = 1 / (1 + y ^ 2) := by
  have h1 := ofReal_sub_I_ne y
  have h2 := ofReal_add_I_ne y
  have h3 : (1 + (y : ℂ) ^ 2) ≠ 0 := by
    have : (1 + (y : ℂ) ^ 2) = ((y : ℂ) - Complex.I) * ((y : ℂ) + Complex.I) := by
      ring_nf; simp [Complex.I_sq]; ring
    rw [this]; exact mul_ne_zero h1 h2
  have : arctanG 1 y = ((1 / (1 + y ^ 2) : ℝ) : ℂ) := by
    unfold arctanG
    push_cast
    field_simp
    ring_nf
    simp [Complex.I_sq]
    try ring
  rw [this, Complex.ofReal_re]

/-- the model's `dArctan` over `ℝ` is the real part of the complex closed form -/
theorem dArctan_eq (l x : ℝ) (n : ℕ) (hn : n ≠ 0) : dArctan l x n = (arctanG n x).re := by
  unfold dArctan
  rw [if_neg hn]
  simp only
  rw [← toC_re]
  congr 1
  rw [toC_mul, toC_mul, toC_sub, toC_div, toC_div, toC_npow, toC_npow, toC_ofK, toC_one]
  unfold arctanG
  have e1 : toC (⟨x, -1⟩ : Cx ℝ) = (x : ℂ) - Complex.I := by apply Complex.ext <;> simp
  have e2 : toC (⟨x, 1⟩ : Cx ℝ) = (x : ℂ) + Complex.I := by apply Complex.ext <;> simp
  have e3 : toC (⟨0, 1 / nat 2⟩ : Cx ℝ) = Complex.I / 2 := by
    apply Complex.ext <;> simp [nat_eq']
  rw [e1, e2, e3, negOnePow_eq, fact_eq, nat_eq']
  push_cast
  ring

/-- `arctan`: chain of closed forms -/
theorem chain_arctan (n : ℕ) (x : ℝ) :
    HasDerivAt (fun y => dArctan (Real.arctan y) y n) (dArctan (Real.arctan x) x (n + 1)) x := by
  cases n with
  | zero =>
    rw [dArctan_eq _ _ 1 one_ne_zero, arctanG_one_re]
    simp only [dArctan, if_true]
    exact Real.hasDerivAt_arctan x
  | succ n =>
    rw [dArctan_eq _ _ (n + 2) (by omega)]
    have hf : (fun y => dArctan (Real.arctan y) y (n + 1)) = fun y => (arctanG (n + 1) y).re := by
      funext y; exact dArctan_eq _ _ (n + 1) (by omega)
    rw [hf]
    exact (Complex.reCLM.hasFDerivAt.comp_hasDerivAt x (arctanG_chain n x))

end AV
