import AlgopyVerif.Model.Linalg
import AlgopyVerif.Proofs.Build
import Mathlib.Algebra.BigOperators.Ring.Finset
import Mathlib.Algebra.BigOperators.Intervals
import Mathlib.Tactic.NoncommRing
import Mathlib.Tactic.Abel
/-!
# Matrix Taylor kernels solve their defining equations, in any (non-commutative) ring
-/
open Finset
namespace AV
section
variable {R : Type} [Ring R]

theorem coR_build (step : List R → R) (n d : Nat) (h : d < n) : coR (build step n) d = step (build step d) :=
  build_getD step n d h 0

theorem coR_build_prefix (step : List R → R) (n d k : Nat) (hk : k < d) (hd : d ≤ n) :
    coR (build step d) k = coR (build step n) k := build_getD_prefix step n d k hk hd 0

theorem coR_map_range (n : Nat) (f : Nat → R) (d : Nat) (h : d < n) : coR ((List.range n).map f) d = f d := by
  unfold coR
  rw [List.getD_eq_getElem?_getD]
  simp [h]

/-- `_dot`: coefficient `d` of the product in `R[t]/(t^D)` -/
theorem dotM_co (x y : List R) (d : Nat) (h : d < x.length) :
    coR (dotM x y) d = ∑ c ∈ range (d+1), coR x c * coR y (d-c) := by
  unfold dotM
  rw [coR_map_range _ _ _ h, sumRange_eq]
  simp

theorem invM_length (x : List R) (y0 : R) : (invM x y0).length = x.length := by simp [invM, build_length]

theorem invM_zero (x : List R) (y0 : R) (h : 0 < x.length) : coR (invM x y0) 0 = y0 := by
  unfold invM
  rw [coR_build _ _ _ h]
  simp [build, invStepM]

theorem invM_succ (x : List R) (y0 : R) (d : Nat) (h : d + 1 < x.length) :
    coR (invM x y0) (d+1) = -y0 * ∑ c ∈ range (d+1), coR x (1+c) * coR (invM x y0) (d - c) := by
  have h0 := invM_zero x y0 (by omega)
  conv_lhs => unfold invM
  rw [coR_build _ _ _ h, invStepM]
  simp only [build_length, Nat.succ_ne_zero, if_false]
  rw [sumRange_eq]
  have e0 : coR (build (invStepM x y0) (d+1)) 0 = y0 := by
    rw [coR_build_prefix _ x.length (d+1) 0 (by omega) (by omega)]; exact h0
  rw [e0]
  simp only [Nat.add_sub_cancel]
  congr 1
  apply sum_congr rfl
  intro c hc
  have := mem_range.mp hc
  unfold invM
  rw [coR_build_prefix _ x.length (d+1) (d+1-(1+c)) (by omega) (by omega)]
  congr 2
  omega

/-- **`A(t) · inv(A)(t) = I` modulo `t^D`** given `A_0 · inv(A_0) = I` -/
theorem invM_right_inverse (x : List R) (y0 : R) (h0 : coR x 0 * y0 = 1) (d : Nat) (h : d < x.length) :
    ∑ k ∈ range (d+1), coR x k * coR (invM x y0) (d-k) = if d = 0 then 1 else 0 := by
  cases d with
  | zero => simp [invM_zero x y0 h, h0]
  | succ d =>
    rw [sum_range_succ', Nat.sub_zero, invM_succ x y0 d h]
    simp only [Nat.succ_ne_zero, if_false]
    have e : ∑ k ∈ range (d+1), coR x (k+1) * coR (invM x y0) (d + 1 - (k+1))
        = ∑ c ∈ range (d+1), coR x (1+c) * coR (invM x y0) (d - c) := by
      apply sum_congr rfl
      intro k _
      rw [Nat.add_comm k 1]
      congr 2
      omega
    rw [e]
    set S := ∑ c ∈ range (d+1), coR x (1+c) * coR (invM x y0) (d - c)
    calc S + coR x 0 * (-y0 * S) = S - (coR x 0 * y0) * S := by noncomm_ring
      _ = 0 := by rw [h0]; noncomm_ring

theorem solveM_co (a : List R) (a0inv : R) (b : List R) (d : Nat) (h : d < b.length) :
    coR (solveM a a0inv b) d = a0inv * (coR b d - ∑ k ∈ range d, coR a (1+k) * coR (solveM a a0inv b) (d - 1 - k)) := by
  conv_lhs => unfold solveM
  rw [coR_build _ _ _ h, solveStepM]
  simp only [build_length]
  rw [sumRange_eq]
  simp only [Nat.add_sub_cancel]
  congr 2
  apply sum_congr rfl
  intro k hk
  have := mem_range.mp hk
  unfold solveM
  rw [coR_build_prefix _ b.length d (d-(1+k)) (by omega) (by omega)]
  congr 2
  omega

/-- **`A(t) · X(t) = B(t)` modulo `t^D`** given `A_0 · solve(A_0, ·) = id` -/
theorem solveM_spec (a : List R) (a0inv : R) (b : List R) (h0 : coR a 0 * a0inv = 1) (d : Nat) (h : d < b.length) :
    ∑ k ∈ range (d+1), coR a k * coR (solveM a a0inv b) (d-k) = coR b d := by
  rw [sum_range_succ', Nat.sub_zero, solveM_co a a0inv b d h]
  have e : ∑ k ∈ range d, coR a (k+1) * coR (solveM a a0inv b) (d - (k+1))
      = ∑ k ∈ range d, coR a (1+k) * coR (solveM a a0inv b) (d - 1 - k) := by
    apply sum_congr rfl
    intro k _
    rw [Nat.add_comm k 1]
    congr 2
    omega
  rw [e]
  set S := ∑ k ∈ range d, coR a (1+k) * coR (solveM a a0inv b) (d - 1 - k)
  calc S + coR a 0 * (a0inv * (coR b d - S)) = S + (coR a 0 * a0inv) * (coR b d - S) := by noncomm_ring
    _ = coR b d := by rw [h0]; noncomm_ring

end
end AV
