import Mathlib.Algebra.BigOperators.Ring.Finset
import Mathlib.Algebra.BigOperators.Fin
import Mathlib.Tactic.Ring
/-!
# Array-level structural operations: gather / scatter adjoints

Every shape operation of the differentiable API that only moves cells — broadcasting, basic indexing and
views, `reshape`, `transpose`, `tile`, `diag`, `triu/tril` masks as gathers from a zero-extended source,
`symvec/vecsym` index parts — is a *gather* `y_i = x_{m(i)}` along an index map `m` (not necessarily
injective: broadcasting repeats cells).  Its adjoint is the scatter-add `xbar_j = Σ_{m(i)=j} ybar_i`
(for broadcasting: the sum over the broadcast axes).  Item assignment `x[idx] = v` along an injective map is
the complementary pair: masked copy for `x`, gather for `v`.
-/
open Finset

namespace AV.ArrayAdj
variable {A : Type} [CommRing A] {ι κ : Type} [Fintype ι] [Fintype κ] [DecidableEq κ]

/-- scatter-add of `ybar` along `m` -/
def scatterAdd (m : ι → κ) (ybar : ι → A) (j : κ) : A := ∑ i ∈ univ.filter (fun i => m i = j), ybar i

/-- **gather/scatter adjoint pair**: `⟨ybar, dx ∘ m⟩ = ⟨scatterAdd m ybar, dx⟩` for every index map -/
theorem gather_adjoint (m : ι → κ) (ybar : ι → A) (dx : κ → A) :
    ∑ i, ybar i * dx (m i) = ∑ j, scatterAdd m ybar j * dx j := by
  unfold scatterAdd
  rw [← Finset.sum_fiberwise (s := univ) (g := m) (f := fun i => ybar i * dx (m i))]
  refine sum_congr rfl fun j _ => ?_
  rw [sum_mul]
  refine sum_congr rfl fun i hi => ?_
  rw [(mem_filter.mp hi).2]

/-- **reductions** (`sum(axis)`, `trace` as a sum over the diagonal gather): the forward map is the scatter-add,
its adjoint the gather (broadcasting `ybar` back over the reduced axes) -/
theorem reduce_adjoint (m : ι → κ) (ybar : κ → A) (dx : ι → A) :
    ∑ j, ybar j * scatterAdd m dx j = ∑ i, ybar (m i) * dx i := by
  have := gather_adjoint (A := A) m dx ybar
  simp only [mul_comm] at this ⊢
  exact this.symm

/-- for an injective map (views, reshape, transpose) the scatter-add has at most one term -/
theorem scatterAdd_injective (m : ι → κ) (hm : Function.Injective m) (ybar : ι → A) (i : ι) :
    scatterAdd m ybar (m i) = ybar i := by
  unfold scatterAdd
  rw [sum_eq_single_of_mem i (by simp)]
  intro b hb hne
  exact absurd (hm (mem_filter.mp hb).2) hne

theorem scatterAdd_not_range (m : ι → κ) (ybar : ι → A) (j : κ) (hj : ∀ i, m i ≠ j) :
    scatterAdd m ybar j = 0 := by
  unfold scatterAdd
  apply sum_eq_zero
  intro i hi
  exact absurd (mem_filter.mp hi).2 (hj i)

/-- item assignment along an injective map: result cell `j` is `v i` if `j = m i`, else `x j` -/
noncomputable def assign [DecidableEq ι] (m : ι → κ) (x : κ → A) (v : ι → A) (j : κ) : A :=
  if h : ∃ i, m i = j then v h.choose else x j

theorem assign_hit [DecidableEq ι] (m : ι → κ) (hm : Function.Injective m) (x : κ → A) (v : ι → A) (i : ι) :
    assign m x v (m i) = v i := by
  unfold assign
  have h : ∃ i', m i' = m i := ⟨i, rfl⟩
  rw [dif_pos h, hm h.choose_spec]

theorem assign_miss [DecidableEq ι] (m : ι → κ) (x : κ → A) (v : ι → A) (j : κ) (hj : ∀ i, m i ≠ j) :
    assign m x v j = x j := by
  unfold assign
  rw [dif_neg (fun ⟨i, hi⟩ => hj i hi)]

/-- **`x[idx] = v` adjoint**: the old contents receive `ybar` outside the selection (and `0` inside), the
assigned value receives `ybar` gathered through the selection -/
theorem assign_adjoint [DecidableEq ι] (m : ι → κ) (hm : Function.Injective m) (ybar dx : κ → A) (dv : ι → A) :
    ∑ j, ybar j * assign m dx dv j
      = (∑ j, (if ∃ i, m i = j then 0 else ybar j) * dx j) + ∑ i, ybar (m i) * dv i := by
  classical
  have hsplit : ∀ j, ybar j * assign m dx dv j
      = (if ∃ i, m i = j then 0 else ybar j) * dx j + (if h : ∃ i, m i = j then ybar j * dv h.choose else 0) := by
    intro j
    unfold assign
    by_cases h : ∃ i, m i = j
    · simp [h]
    · simp [h]
  rw [sum_congr rfl fun j _ => hsplit j, sum_add_distrib]
  congr 1
  -- the second sum runs over the image of `m`
  have : ∑ i, ybar (m i) * dv i = ∑ j, scatterAdd m (fun i => ybar (m i) * dv i) j := by
    have := gather_adjoint (A := A) m (fun i => ybar (m i) * dv i) (fun _ => 1)
    simpa using this
  rw [this]
  refine sum_congr rfl fun j _ => ?_
  by_cases h : ∃ i, m i = j
  · rw [dif_pos h]
    have hj := h.choose_spec
    conv_rhs => rw [← hj]
    rw [scatterAdd_injective m hm, hj]
  · rw [dif_neg h, scatterAdd_not_range m _ j (fun i hi => h ⟨i, hi⟩)]

end AV.ArrayAdj
