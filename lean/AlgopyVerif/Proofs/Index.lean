import AlgopyVerif.Model.Index
import AlgopyVerif.Proofs.NdArray
import Mathlib.Tactic.Ring
import Mathlib.Tactic.Linarith
import Mathlib.Data.List.Basic
/-!
# Index-map algebra of basic indexing: the `(:, :) ++ idx` prefix law
-/
namespace AV
open NdArray

theorem sliceIndices_full (n : Nat) : sliceIndices n none none none = some (0, 1, n) := by
  simp [sliceIndices]
  omega

@[simp] theorem nConsuming_full (idx : List Idx) : nConsuming (fullSl :: idx) = nConsuming idx + 1 := by
  simp [nConsuming, fullSl, List.filter_cons, Idx.consuming]

@[simp] theorem nEllipsis_full (idx : List Idx) : nEllipsis (fullSl :: idx) = nEllipsis idx := by
  simp [nEllipsis, fullSl, List.filter_cons, Idx.isEllipsis]

@[simp] theorem fillEllipsis_full (fill idx : List Idx) : fillEllipsis fill (fullSl :: idx) = fullSl :: fillEllipsis fill idx := by
  simp [fillEllipsis, fullSl]

theorem expandEllipsis_prefix (ndim : Nat) (idx idx' : List Idx) (h : expandEllipsis ndim idx = some idx') :
    expandEllipsis (ndim + 2) (fullSl :: fullSl :: idx) = some (fullSl :: fullSl :: idx') := by
  unfold expandEllipsis at h ⊢
  simp only [nConsuming_full, nEllipsis_full, fillEllipsis_full] at h ⊢
  split at h
  · simp at h
  · rename_i hc
    rw [if_neg (by omega)]
    have hfill : ndim + 2 - (nConsuming idx + 1 + 1) = ndim - nConsuming idx := by omega
    simp only [hfill]
    split at h
    · rename_i h1
      rw [if_pos h1]
      simp only [Option.some.injEq] at h ⊢
      rw [h]
    · rename_i h1
      rw [if_neg h1]
      simp only [Option.some.injEq] at h ⊢
      simp [← h]

theorem planAxes_prefix (D P : Nat) (s : List Nat) (idx : List Idx) (plan : List AxisMap)
    (h : planAxes s idx = some plan) :
    planAxes (D :: P :: s) (fullSl :: fullSl :: idx) = some (.run 0 1 D :: .run 0 1 P :: plan) := by
  simp [planAxes, fullSl, sliceIndices_full, h]

/-- the `(:, :) ++ idx` prefix law: indexing a UTPM array is indexing every coefficient slice -/
theorem getitemMap_prefix (D P : Nat) (s : List Nat) (idx : List Idx) (s' : List Nat) (m : List Nat → List Nat)
    (h : getitemMap s idx = some (s', m)) :
    ∃ m', getitemMap (D :: P :: s) (fullSl :: fullSl :: idx) = some (D :: P :: s', m') ∧
      ∀ d p j, m' (d :: p :: j) = d :: p :: m j := by
  unfold getitemMap at h ⊢
  simp only [Option.bind_eq_bind, Option.pure_def] at h ⊢
  cases he : expandEllipsis s.length idx with
  | none => simp [he] at h
  | some idx' =>
    simp only [he, Option.bind_some] at h
    cases hp : planAxes s idx' with
    | none => simp [hp] at h
    | some plan =>
      simp only [hp, Option.bind_some, Option.some.injEq, Prod.mk.injEq] at h
      obtain ⟨hs, hm⟩ := h
      have he' := expandEllipsis_prefix s.length idx idx' he
      simp only [List.length_cons]
      rw [he']
      simp only [Option.bind_some]
      rw [planAxes_prefix D P s idx' plan hp]
      simp only [Option.bind_some]
      refine ⟨planSrc (.run 0 1 D :: .run 0 1 P :: plan), ?_, ?_⟩
      · rw [← hs]; simp [planShape]
      · intro d p j
        subst hm
        simp [planSrc]
      

/-- array level: element `(d, p, j)` of `x[idx]` is element `(d, p, m j)` of `x`, where `m` is the index
map of `idx` on one coefficient slice — for any element type (values, or cell identifiers: a view
is an array of the parent's cells) -/
theorem utGetitem_get {α} [Inhabited α] (x y : NdArray α) (D P : Nat) (s : List Nat) (idx : List Idx)
    (s' : List Nat) (m : List Nat → List Nat) (hx : x.shape = D :: P :: s)
    (hm : getitemMap s idx = some (s', m)) (hy : utGetitem x idx = some y)
    (d p : Nat) (j : List Nat) (hv : ValidIdx (D :: P :: s') (d :: p :: j)) :
    y.shape = D :: P :: s' ∧ y.get (d :: p :: j) = x.get (d :: p :: m j) := by
  obtain ⟨m', hm', hlaw⟩ := getitemMap_prefix D P s idx s' m hm
  unfold utGetitem getitem at hy
  rw [hx, hm'] at hy
  simp only [Option.bind_eq_bind, Option.bind_some, Option.pure_def, Option.some.injEq] at hy
  subst hy
  refine ⟨by simp [ofFn], ?_⟩
  rw [get_ofFn _ _ _ hv, hlaw]

/-- `UTPM.sum(axis)`: non-negative axes are shifted past `(D, P)`, negative axes count from the end -/
theorem utSumAxis_nonneg {α} [Inhabited α] [Add α] [Zero α] (x : NdArray α) (axis : Nat) :
    utSumAxis x (axis : Int) = sumAxis x (axis + 2) := by
  unfold utSumAxis
  have : ¬ ((axis : Int) < 0) := by omega
  simp [this]

theorem utSumAxis_neg {α} [Inhabited α] [Add α] [Zero α] (x : NdArray α) (k : Nat) (hk : 0 < k) (hk2 : k ≤ x.shape.length) :
    utSumAxis x (-(k : Int)) = sumAxis x (x.shape.length - k) := by
  unfold utSumAxis
  have h : (-(k : Int)) < 0 := by omega
  simp only [h, if_true]
  congr 1
  omega

end AV
